import PV.Model.Memo
/-
  Helper lemmas for C05: the caching dispatcher refines the plain one, its cache holds plain
  answers only, and no key is computed twice.  Generic in the key type, the key equality and the
  handler family (after design-experiments/B7_MemoRefines.lean).
-/
namespace PV.Memo
open PV

variable {K X R : Type}

/-! ### plain evaluation: monotone in the fuel, deterministic -/

theorem interp_mono {f g : K → Option (Ans X R)} (hfg : ∀ k a, f k = some a → g k = some a) :
    ∀ (p : Prog K X R) (a : Ans X R), interp f p = some a → interp g p = some a
  | .ret _, _, h => h
  | .fail _, _, h => h
  | .call k cont, a, h => by
      simp only [interp] at h ⊢
      cases hf : f k with
      | none => simp [hf] at h
      | some x =>
        simp only [hf] at h
        simp only [hfg k x hf]
        cases x with
        | error e => simpa using h
        | ok r => exact interp_mono hfg (cont r) a h

theorem plain_succ (S : Spec K X R) : ∀ (n : Nat) (k : K) (a : Ans X R),
    plain S n k = some a → plain S (n+1) k = some a
  | 0, _, _, h => by simp [plain] at h
  | n+1, k, a, h => by
      simp only [plain] at h ⊢
      exact interp_mono (fun k' a' h' => plain_succ S n k' a' h') (S.h k) a h

theorem plain_mono (S : Spec K X R) {n m : Nat} (hnm : n ≤ m) (k : K) (a : Ans X R) :
    plain S n k = some a → plain S m k = some a := by
  induction hnm with
  | refl => exact id
  | step _ ih => exact fun h => plain_succ S _ k a (ih h)

theorem plain_det (S : Spec K X R) {n m : Nat} {k : K} {a a' : Ans X R}
    (h1 : plain S n k = some a) (h2 : plain S m k = some a') : a = a' := by
  have x := plain_mono S (Nat.le_max_left n m) k a h1
  have y := plain_mono S (Nat.le_max_right n m) k a' h2
  rw [x] at y; exact Option.some.inj y

/-! ### `CallsOK` -/

theorem CallsOK.mono {P Q : K → Prop} (hPQ : ∀ k, P k → Q k) {p : Prog K X R}
    (h : CallsOK P p) : CallsOK Q p := by
  induction h with
  | ret r => exact .ret r
  | fail x => exact .fail x
  | call k cont hk _ ih => exact .call k cont (hPQ k hk) ih

theorem CallsOK.and {P Q : K → Prop} {p : Prog K X R}
    (h1 : CallsOK P p) (h2 : CallsOK Q p) : CallsOK (fun k => P k ∧ Q k) p := by
  induction h1 with
  | ret r => exact .ret r
  | fail x => exact .fail x
  | call k cont hk _ ih =>
    cases h2 with
    | call _ _ hq hc => exact .call k cont ⟨hk, hq⟩ fun r => ih r (hc r)

theorem callAll_ok {P : K → Prop} : ∀ (ks : List K) (cont : List R → Prog K X R),
    (∀ k ∈ ks, P k) → (∀ rs, CallsOK P (cont rs)) → CallsOK P (callAll ks cont)
  | [], cont, _, hc => by simpa [callAll] using hc []
  | k :: ks, cont, hk, hc => by
      simp only [callAll]
      exact .call k _ (hk k (by simp)) fun r =>
        callAll_ok ks _ (fun k' hk' => hk k' (by simp [hk'])) fun rs => hc (r :: rs)

/-! ### the cache -/

theorem lookup_some {keq : K → K → Bool} {k : K} {r : R} :
    ∀ {c : List (K × R)}, lookup keq k c = some r → ∃ k', (k', r) ∈ c ∧ keq k' k = true
  | [], h => by simp [lookup] at h
  | (k', r') :: rest, h => by
      simp only [lookup] at h
      by_cases hk : keq k' k = true
      · simp [hk] at h; subst h; exact ⟨k', by simp, hk⟩
      · simp [hk] at h
        obtain ⟨k'', hm, he⟩ := lookup_some h
        exact ⟨k'', by simp [hm], he⟩

theorem lookup_none {keq : K → K → Bool} {k : K} :
    ∀ {c : List (K × R)}, lookup keq k c = none → ∀ k' r, (k', r) ∈ c → keq k' k = false
  | [], _, _, _, hm => by simp at hm
  | (k1, r1) :: rest, h, k', r, hm => by
      simp only [lookup] at h
      by_cases hk : keq k1 k = true
      · simp [hk] at h
      · simp [hk] at h
        simp only [List.mem_cons, Prod.mk.injEq] at hm
        rcases hm with ⟨rfl, rfl⟩ | hm
        · simpa using hk
        · exact lookup_none h k' r hm

/-- The set of keys a statement is made for: closed under the dispatch requests of the handlers,
handlers cannot tell equal keys apart, and hashing never raises. -/
structure Admissible (S : Spec K X R) (U : K → Prop) : Prop where
  closed : ∀ k, U k → CallsOK U (S.h k)
  resp : ∀ k k', U k → U k' → S.keq k k' = true →
    ∀ n a, plain S n k = some a → ∃ m, plain S m k' = some a
  hashable : ∀ k, U k → S.unhashable k = none

/-- Cache invariant: every stored result is the plain answer for its key. -/
def Inv (S : Spec K X R) (U : K → Prop) (s : St K R) : Prop :=
  ∀ k r, (k, r) ∈ s.cache → U k ∧ ∃ n, plain S n k = some (.ok r)

theorem inv_empty (S : Spec K X R) (U : K → Prop) : Inv S U {} := by
  intro k r h; simp at h

/-- the caching dispatcher returns exactly the plain answer (value or error) from every state
whose cache holds plain answers, and keeps the cache that way -/
theorem callC_refines {S : Spec K X R} {U : K → Prop} (hA : Admissible S U) :
    ∀ (n : Nat) (k : K) (s : St K R) (a : Ans X R), U k → Inv S U s → plain S n k = some a →
      ∃ s', callC S n k s = some (a, s') ∧ Inv S U s'
  | 0, _, _, _, _, _, h => by simp [plain] at h
  | n+1, k, s, a, hk, hs, h => by
      have key : ∀ (p : Prog K X R), CallsOK U p → ∀ (s : St K R) (a : Ans X R), Inv S U s →
          interp (plain S n) p = some a →
          ∃ s', interpC (callC S n) p s = some (a, s') ∧ Inv S U s' := by
        intro p hp
        induction hp with
        | ret r => intro s a hs hp; exact ⟨s, by simpa [interp, interpC] using hp, hs⟩
        | fail x => intro s a hs hp; exact ⟨s, by simpa [interp, interpC] using hp, hs⟩
        | call k' cont hk' _ ih =>
          intro s a hs hp
          simp only [interp] at hp
          cases he : plain S n k' with
          | none => simp [he] at hp
          | some x =>
            simp only [he] at hp
            obtain ⟨s1, h1, i1⟩ := callC_refines hA n k' s x hk' hs he
            cases x with
            | error e =>
              simp only [Option.some.injEq] at hp
              subst hp
              exact ⟨s1, by simp only [interpC, h1], i1⟩
            | ok r =>
              obtain ⟨s2, h2, i2⟩ := ih r s1 a i1 hp
              exact ⟨s2, by simp only [interpC, h1, h2], i2⟩
      simp only [plain] at h
      simp only [callC]
      by_cases hc : S.cacheable k = true
      · simp only [hc, if_true, hA.hashable k hk]
        cases hl : lookup S.keq k s.cache with
        | some r =>
          obtain ⟨k', hm, he⟩ := lookup_some hl
          obtain ⟨hUk', m, hm'⟩ := hs k' r hm
          obtain ⟨m2, hm2⟩ := hA.resp k' k hUk' hk he m _ hm'
          have : a = .ok r := plain_det S (n := n+1) (by simpa [plain] using h) hm2
          subst this
          exact ⟨_, rfl, fun k1 r1 h1 => hs k1 r1 h1⟩
        | none =>
          have hs' : Inv S U { s with trace := (false, k) :: s.trace } := fun k1 r1 h1 => hs k1 r1 h1
          obtain ⟨s1, h1, i1⟩ := key (S.h k) (hA.closed k hk) _ a hs' h
          simp only [h1]
          cases a with
          | error e => exact ⟨s1, rfl, i1⟩
          | ok r =>
            refine ⟨_, rfl, ?_⟩
            intro k2 r2 hm
            simp only [List.mem_cons, Prod.mk.injEq] at hm
            rcases hm with ⟨rfl, rfl⟩ | hm
            · exact ⟨hk, n+1, by simpa [plain] using h⟩
            · exact i1 k2 r2 hm
      · simp only [hc, Bool.false_eq_true, if_false]
        exact key (S.h k) (hA.closed k hk) s a hs h

/-- histories -/
theorem runHistC_refines {S : Spec K X R} {U : K → Prop} (hA : Admissible S U) (n : Nat) :
    ∀ (ks : List K) (s : St K R), (∀ k ∈ ks, U k) → Inv S U s →
      (∀ k ∈ ks, ∃ a, plain S n k = some a) →
      (runHistC S n ks s).1 = ks.map (plain S n) ∧ Inv S U (runHistC S n ks s).2
  | [], s, _, hs, _ => by simp [runHistC, hs]
  | k :: ks, s, hU, hs, hp => by
      obtain ⟨a, ha⟩ := hp k (by simp)
      obtain ⟨s1, h1, i1⟩ := callC_refines hA n k s a (hU k (by simp)) hs ha
      obtain ⟨e1, e2⟩ := runHistC_refines hA n ks s1 (fun k' hk' => hU k' (by simp [hk'])) i1
        (fun k' hk' => hp k' (by simp [hk']))
      simp only [runHistC, h1, List.map_cons, ha]
      exact ⟨by rw [e1], e2⟩

/-! ### at most one computation per key -/

/-- what `at_most_once` needs beyond admissibility: key equality is symmetric and transitive on
the universe, and the handlers only ask for keys that are smaller in a measure that key equality
preserves (for the stock mappers: the size of the expression) -/
structure Ordered (S : Spec K X R) (U : K → Prop) (μ : K → Nat) : Prop where
  closed : ∀ k, U k → CallsOK U (S.h k)
  symm : ∀ a b, U a → U b → S.keq a b = true → S.keq b a = true
  trans : ∀ a b c, U a → U b → U c → S.keq a b = true → S.keq b c = true → S.keq a c = true
  meas : ∀ a b, U a → U b → S.keq a b = true → μ a = μ b
  below : ∀ k, U k → CallsOK (fun k' => μ k' < μ k) (S.h k)

/-- the log lists the keys of the cache, all in the universe, pairwise different as keys -/
def LogInv (S : Spec K X R) (U : K → Prop) (s : St K R) : Prop :=
  s.log = s.cache.map (·.1) ∧ (∀ k ∈ s.log, U k) ∧
    s.log.Pairwise (fun a b => S.keq b a = false)

theorem logInv_empty (S : Spec K X R) (U : K → Prop) : LogInv S U {} := by
  refine ⟨rfl, ?_, List.Pairwise.nil⟩
  intro k h; simp at h

theorem callC_log {S : Spec K X R} {U : K → Prop} {μ : K → Nat} (hO : Ordered S U μ) :
    ∀ (n : Nat) (k : K) (s s' : St K R) (a : Ans X R), U k → LogInv S U s →
      callC S n k s = some (a, s') →
      LogInv S U s' ∧ ∀ k' ∈ s'.log, k' ∈ s.log ∨ μ k' ≤ μ k
  | 0, _, _, _, _, _, _, h => by simp [callC] at h
  | n+1, k, s, s', a, hk, hs, h => by
      have key : ∀ (N : Nat) (p : Prog K X R), CallsOK (fun k' => U k' ∧ μ k' < N) p →
          ∀ (s s' : St K R) (a : Ans X R), LogInv S U s →
          interpC (callC S n) p s = some (a, s') →
          LogInv S U s' ∧ ∀ k' ∈ s'.log, k' ∈ s.log ∨ μ k' < N := by
        intro N p hp
        induction hp with
        | ret r =>
          intro s s' a hs hp
          simp only [interpC, Option.some.injEq, Prod.mk.injEq] at hp
          obtain ⟨_, rfl⟩ := hp
          exact ⟨hs, fun k' hk' => Or.inl hk'⟩
        | fail x =>
          intro s s' a hs hp
          simp only [interpC, Option.some.injEq, Prod.mk.injEq] at hp
          obtain ⟨_, rfl⟩ := hp
          exact ⟨hs, fun k' hk' => Or.inl hk'⟩
        | call k' cont hk' _ ih =>
          intro s s' a hs hp
          simp only [interpC] at hp
          cases hc : callC S n k' s with
          | none => simp [hc] at hp
          | some res =>
            obtain ⟨x, s1⟩ := res
            obtain ⟨i1, b1⟩ := callC_log hO n k' s s1 x hk'.1 hs hc
            cases x with
            | error e =>
              simp only [hc, Option.some.injEq, Prod.mk.injEq] at hp
              obtain ⟨_, rfl⟩ := hp
              refine ⟨i1, fun k2 hk2 => ?_⟩
              rcases b1 k2 hk2 with h | h
              · exact Or.inl h
              · exact Or.inr (Nat.lt_of_le_of_lt h hk'.2)
            | ok r =>
              simp only [hc] at hp
              obtain ⟨i2, b2⟩ := ih r s1 s' a i1 hp
              refine ⟨i2, fun k2 hk2 => ?_⟩
              rcases b2 k2 hk2 with h | h
              · rcases b1 k2 h with h' | h'
                · exact Or.inl h'
                · exact Or.inr (Nat.lt_of_le_of_lt h' hk'.2)
              · exact Or.inr h
      have hcalls : CallsOK (fun k' => U k' ∧ μ k' < μ k) (S.h k) :=
        CallsOK.and (hO.closed k hk) (hO.below k hk)
      simp only [callC] at h
      by_cases hc : S.cacheable k = true
      · simp only [hc, if_true] at h
        cases hu : S.unhashable k with
        | some x =>
          simp only [hu, Option.some.injEq, Prod.mk.injEq] at h
          obtain ⟨_, rfl⟩ := h
          exact ⟨hs, fun k' hk' => Or.inl hk'⟩
        | none =>
          simp only [hu] at h
          cases hl : lookup S.keq k s.cache with
          | some r =>
            simp only [hl, Option.some.injEq, Prod.mk.injEq] at h
            obtain ⟨_, rfl⟩ := h
            exact ⟨hs, fun k' hk' => Or.inl hk'⟩
          | none =>
            simp only [hl] at h
            have hs0 : LogInv S U { s with trace := (false, k) :: s.trace } := hs
            cases hi : interpC (callC S n) (S.h k) { s with trace := (false, k) :: s.trace } with
            | none => simp [hi] at h
            | some res =>
              obtain ⟨x, s1⟩ := res
              obtain ⟨i1, b1⟩ := key (μ k) (S.h k) hcalls _ s1 x hs0 hi
              cases x with
              | error e =>
                simp only [hi, Option.some.injEq, Prod.mk.injEq] at h
                obtain ⟨_, rfl⟩ := h
                exact ⟨i1, fun k' hk' => (b1 k' hk').imp id Nat.le_of_lt⟩
              | ok r =>
                simp only [hi, Option.some.injEq, Prod.mk.injEq] at h
                obtain ⟨_, rfl⟩ := h
                obtain ⟨e1, u1, p1⟩ := i1
                refine ⟨⟨by simp [e1], ?_, ?_⟩, ?_⟩
                · intro k' hk'
                  simp only [List.mem_cons] at hk'
                  rcases hk' with rfl | hk'
                  · exact hk
                  · exact u1 k' hk'
                · refine List.Pairwise.cons ?_ p1
                  intro b hb
                  rcases b1 b hb with hb' | hb'
                  · -- an old key: the lookup missed it
                    have : b ∈ s.cache.map (·.1) := by rw [← hs.1]; exact hb'
                    obtain ⟨⟨b', r'⟩, hm, rfl⟩ := List.mem_map.1 this
                    exact lookup_none hl b' r' hm
                  · -- a key computed below `k`: smaller measure
                    cases hq : S.keq b k with
                    | false => rfl
                    | true =>
                      have := hO.meas b k (u1 b hb) hk hq
                      omega
                · intro k' hk'
                  simp only [List.mem_cons] at hk'
                  rcases hk' with rfl | hk'
                  · exact Or.inr (Nat.le_refl _)
                  · exact (b1 k' hk').imp id Nat.le_of_lt
      · simp only [hc, Bool.false_eq_true, if_false] at h
        obtain ⟨i1, b1⟩ := key (μ k) (S.h k) hcalls s s' a hs h
        exact ⟨i1, fun k' hk' => (b1 k' hk').imp id Nat.le_of_lt⟩

theorem runHistC_log {S : Spec K X R} {U : K → Prop} {μ : K → Nat} (hO : Ordered S U μ)
    (n : Nat) : ∀ (ks : List K) (s : St K R), (∀ k ∈ ks, U k) → LogInv S U s →
      LogInv S U (runHistC S n ks s).2
  | [], s, _, hs => by simpa [runHistC] using hs
  | k :: ks, s, hU, hs => by
      simp only [runHistC]
      cases hc : callC S n k s with
      | none =>
        simp only []
        exact runHistC_log hO n ks s (fun k' hk' => hU k' (by simp [hk'])) hs
      | some res =>
        obtain ⟨a, s1⟩ := res
        simp only []
        exact runHistC_log hO n ks s1 (fun k' hk' => hU k' (by simp [hk']))
          (callC_log hO n k s s1 a (hU k (by simp)) hs hc).1

theorem count_le_one {S : Spec K X R} {U : K → Prop} {μ : K → Nat} (hO : Ordered S U μ)
    (k : K) (hk : U k) : ∀ (l : List K), (∀ x ∈ l, U x) →
      l.Pairwise (fun a b => S.keq b a = false) → countKey S.keq k l ≤ 1
  | [], _, _ => by simp [countKey]
  | x :: l, hU, hp => by
      have hp' := List.pairwise_cons.1 hp
      have ih := count_le_one hO k hk l (fun y hy => hU y (by simp [hy])) hp'.2
      simp only [countKey, List.filter_cons] at ih ⊢
      by_cases hx : S.keq x k = true
      · -- nothing else in the log equals `k`
        have : l.filter (fun k' => S.keq k' k) = [] := by
          rw [List.filter_eq_nil_iff]
          intro y hy hyk
          have hUy := hU y (by simp [hy])
          have hUx := hU x (by simp)
          have := hO.trans y k x hUy hk hUx hyk (hO.symm x k hUx hk hx)
          rw [hp'.1 y hy] at this
          exact Bool.false_ne_true this
        simp [hx, this]
      · simp only [hx, Bool.false_eq_true, if_false]
        exact ih

/-! ### totality: enough fuel for families that descend in a measure -/

theorem interp_total {rec : K → Option (Ans X R)} {p : Prog K X R}
    (h : CallsOK (fun k => ∃ a, rec k = some a) p) : ∃ a, interp rec p = some a := by
  induction h with
  | ret r => exact ⟨_, rfl⟩
  | fail x => exact ⟨_, rfl⟩
  | call k cont hk _ ih =>
    obtain ⟨a, ha⟩ := hk
    cases a with
    | error e => exact ⟨.error e, by simp [interp, ha]⟩
    | ok r =>
      obtain ⟨b, hb⟩ := ih r
      exact ⟨b, by simp [interp, ha, hb]⟩

theorem plain_total {S : Spec K X R} {U : K → Prop} {μ : K → Nat}
    (hc : ∀ k, U k → CallsOK (fun k' => U k' ∧ μ k' < μ k) (S.h k)) :
    ∀ (n : Nat) (k : K), U k → μ k < n → ∃ a, plain S n k = some a
  | 0, _, _, h => by omega
  | n+1, k, hk, h => by
      simp only [plain]
      exact interp_total ((hc k hk).mono fun k' hk' => plain_total hc n k' hk'.1 (by omega))

end PV.Memo
