import PV.Proofs.SyntaxRoundtrip
import PV.Proofs.SyntaxSuffix
/-
  C06.  The cases of the main lemma for the postfix forms (look-up, subscript, call, call with
  keyword arguments) and for tuples and lists.
-/
set_option linter.unusedSimpArgs false
namespace PV.Syntax
open PV

variable {P : ParserPrec} {S : PrintPrec}

theorem not_absorbs_dot {r} : ¬ absorbs P P.call (.sym "." :: r) := by simp [absorbs, tokGuard]
theorem not_absorbs_lbrack {r} : ¬ absorbs P P.call (.sym "[" :: r) := by simp [absorbs, tokGuard]
theorem not_absorbs_lparen {r} : ¬ absorbs P P.call (.sym "(" :: r) := by simp [absorbs, tokGuard]
theorem not_absorbs_comma {r} : ¬ absorbs P P.comma (.sym "," :: r) := by simp [absorbs, tokGuard]

theorem lookup_case {a : Expr} {n : String} (hp : Printable P S (.lookup a n) = true)
    (ha : Goal P S a) : Goal P S (.lookup a n) := by
  simp only [Printable, Bool.and_eq_true] at hp
  obtain ⟨hoa, hpa⟩ := hp
  obtain ⟨ka, hka, hoka⟩ := okAt_iff hoa
  intro enc ps hs m R res k hc hl
  obtain ⟨x, hx, htoks⟩ := strE_lookup hs
  refine goal_of_bare ?_ (by simp [pnf]) rfl htoks hc hl
  intro m R res k hgm _ hl
  have hlg : lguardE P (.lookup a n) = some P.call := by simp [lguardE, kind, Kind.lguard]
  rw [hlg] at hgm
  simp only [gtO] at hgm
  simp only [pnf, finOf] at hl
  have hX := PL_lookup (l := pnf a) (fin := finOf a) hgm hl
  have h1 := operand (pos := .callee) ha hka hoka hpa hx (m := m)
    (by simpa [Pos.lge] using hgm) (by simpa [Pos.rge] using not_absorbs_dot) hX
  simp only [Pos.forces, wrapT, Bool.false_eq_true, if_false] at h1
  simp only [List.append_assoc, List.cons_append, List.nil_append]
  refine h1.mono ?_
  simp only [G, List.length_append, List.length_cons, List.length_nil]
  omega

theorem printable_subscript {a i : Expr} (hi : ∀ cs, i ≠ .tuple cs) :
    Printable P S (.subscript a i) =
      (okAt P S .callee a && Printable P S a && okAt P S .index i && Printable P S i) := by
  cases i <;> first | simp [Printable] | exact absurd rfl (hi _)

theorem subscript_case {a i : Expr} (hi : ∀ cs, i ≠ .tuple cs)
    (hp : Printable P S (.subscript a i) = true)
    (ha : Goal P S a) (hgi : Goal P S i) : Goal P S (.subscript a i) := by
  rw [printable_subscript hi] at hp
  simp only [Bool.and_eq_true] at hp
  obtain ⟨⟨⟨hoa, hpa⟩, hoi⟩, hpi⟩ := hp
  obtain ⟨ka, hka, hoka⟩ := okAt_iff hoa
  obtain ⟨ki, hki, hoki⟩ := okAt_iff hoi
  intro enc ps hs m R res k hc hl
  obtain ⟨x, y, hx, hy, htoks⟩ := strE_subscript hi hs
  refine goal_of_bare ?_ (by simp [pnf]) rfl htoks hc hl
  intro m R res k hgm _ hl
  have hlg : lguardE P (.subscript a i) = some P.call := by simp [lguardE, kind, Kind.lguard]
  rw [hlg] at hgm
  simp only [gtO] at hgm
  simp only [pnf, finOf] at hl
  have h2 := operand (pos := .index) hgi hki hoki hpi hy (m := 0) (R := .sym "]" :: R)
    (by simp [Pos.lge]) (by simpa [Pos.rge] using not_absorbs_rbrack)
    (PL_stop not_absorbs_rbrack)
  simp only [Pos.forces, wrapT, Bool.false_eq_true, if_false] at h2
  have hX := PL_subscript (l := pnf a) (fin := finOf a) hgm h2 hl
  have h1 := operand (pos := .callee) ha hka hoka hpa hx (m := m)
    (by simpa [Pos.lge] using hgm) (by simpa [Pos.rge] using not_absorbs_lbrack) hX
  simp only [Pos.forces, wrapT, Bool.false_eq_true, if_false] at h1
  simp only [List.append_assoc, List.cons_append, List.nil_append]
  refine h1.mono ?_
  simp only [G, List.length_append, List.length_cons, List.length_nil]
  omega


/-! ### comma-separated elements (tuples, lists, index tuples) -/

/-- the state of the loop between two commas: `left` is the first element (not a tuple under
construction), or the tuple `acc` under construction -/
def TupState (acc : List Expr) (left : Expr) (fin : Bool) : Prop :=
  (acc = [left] ∧ ∀ cs, left = .tuple cs → fin = true) ∨ (left = .tuple acc ∧ fin = false)

theorem PL_comma_step {acc left fin k1 k2 m ts el r1 res} (hst : TupState acc left fin)
    (hg : P.comma > m) (he : PEok P k1 P.comma ts (el, r1))
    (hl : PLok P k2 m (.tuple (acc ++ [el])) false r1 res) :
    PLok P (max k1 k2 + 1) m left fin (.sym "," :: ts) res := by
  rcases hst with ⟨rfl, hopen⟩ | ⟨rfl, rfl⟩
  · exact PL_comma_first hg hopen he hl
  · exact PL_comma_next hg he hl

theorem not_absorbs_chain_comma {xs : List Pieces} {Rest : List Tok}
    (h : ¬ absorbs P P.comma Rest) : ¬ absorbs P P.comma (chainT "," xs ++ Rest) := by
  cases xs with
  | nil => simpa [chainT] using h
  | cons y ys => simp only [chainT, List.cons_append]; exact not_absorbs_comma

theorem elems_chain : ∀ (d : Expr) (cs : List Expr) (xs : List Pieces),
    strL S (d :: cs) S.none = .ok xs →
    (∀ e ∈ d :: cs, Goal P S e) → PrintableAll P S .elemRest (d :: cs) = true →
    ∀ (acc : List Expr) (left : Expr) (fin : Bool) (m : Nat) (Rest : List Tok) res k,
      TupState acc left fin → P.comma > m → ¬ absorbs P P.comma Rest →
      PLok P k m (.tuple (acc ++ pnfL (d :: cs))) false Rest res →
      PLok P (G k (chainT "," xs).length) m left fin (chainT "," xs ++ Rest) res
  | d, [], xs, hs, hg, hp, acc, left, fin, m, Rest, res, k, hst, hm, hna, hl => by
      obtain ⟨x, xs', hx, hxs, rfl⟩ := strL_cons hs
      rw [strL_nil hxs]
      simp only [PrintableAll, Bool.and_eq_true] at hp
      obtain ⟨⟨hod, hpd⟩, -⟩ := hp
      obtain ⟨kd, hkd, hokd⟩ := okAt_iff hod
      have he := operand (pos := .elemRest) (hg d (List.mem_cons_self ..)) hkd hokd hpd hx
        (m := P.comma) (R := Rest) (by simp [Pos.lge]) (by simpa [Pos.rge] using hna)
        (PL_stop hna)
      simp only [Pos.forces, wrapT, Bool.false_eq_true, if_false] at he
      have hX := PL_comma_step hst hm he (by simpa [pnfL] using hl)
      simp only [chainT, List.append_nil, List.cons_append]
      refine hX.mono ?_
      simp only [G, List.length_cons]
      omega
  | d, d' :: cs, xs, hs, hg, hp, acc, left, fin, m, Rest, res, k, hst, hm, hna, hl => by
      obtain ⟨x, xs', hx, hxs, rfl⟩ := strL_cons hs
      simp only [PrintableAll, Bool.and_eq_true] at hp
      obtain ⟨⟨hod, hpd⟩, hpcs⟩ := hp
      obtain ⟨kd, hkd, hokd⟩ := okAt_iff hod
      have hpcs' : PrintableAll P S .elemRest (d' :: cs) = true := by
        simpa [PrintableAll, Bool.and_eq_true] using hpcs
      have hna' := not_absorbs_chain_comma (P := P) (xs := xs') hna
      have he := operand (pos := .elemRest) (hg d (List.mem_cons_self ..)) hkd hokd hpd hx
        (m := P.comma) (R := chainT "," xs' ++ Rest) (by simp [Pos.lge])
        (by simpa [Pos.rge] using hna') (PL_stop hna')
      simp only [Pos.forces, wrapT, Bool.false_eq_true, if_false] at he
      have ih := elems_chain d' cs xs' hxs (fun e he => hg e (List.mem_cons_of_mem _ he)) hpcs'
        (acc ++ [pnf d]) (.tuple (acc ++ [pnf d])) false m Rest res k (Or.inr ⟨rfl, rfl⟩) hm hna
        (by simpa [pnfL] using hl)
      have hX := PL_comma_step hst hm he ih
      simp only [chainT, List.cons_append, List.append_assoc] at hX ⊢
      refine hX.mono ?_
      simp only [G, List.length_cons, List.length_append]
      omega

theorem kind_tuple {c : Expr} (h : kind c = some .tuple) : ∃ cs, c = .tuple cs := by
  cases c with
  | tuple cs => exact ⟨cs, rfl⟩
  | const c0 =>
    cases c0 <;> simp [kind] at h
    · split at h <;> cases h
    · rcases fltKind_cases h with h' | h' | h' <;> cases h'
  | nary o cs => cases o <;> simp [kind] at h
  | _ => simp [kind] at h

/-- if the normal form of a tree of the fragment is a tuple, the tree is a tuple literal -/
theorem open_of_printable {c : Expr} (hp : Printable P S c = true) :
    ∀ cs, pnf c = .tuple cs → finOf c = true := by
  intro cs h
  by_cases hk : kind c = some .tuple
  · obtain ⟨ds, rfl⟩ := kind_tuple hk; rfl
  · exact absurd h (pnf_ne_tuple hp hk cs)

/-- `c , d , …` followed by a closing token, read at level 0 -/
theorem elems_parse {c d : Expr} {cs : List Expr} {x : Pieces} {xs : List Pieces}
    (hgc : Goal P S c) (hg : ∀ e ∈ d :: cs, Goal P S e)
    (hoc : okAt P S .elemFirst c = true) (hpc : Printable P S c = true)
    (hpcs : PrintableAll P S .elemRest (d :: cs) = true) (hcomma : P.comma > 0)
    (hx : strE S c S.none = .ok x) (hxs : strL S (d :: cs) S.none = .ok xs)
    {Rest : List Tok} (hna : ¬ absorbs P P.comma Rest) (hna0 : ¬ absorbs P 0 Rest) :
    PEok P (G 1 (toks x ++ chainT "," xs).length) 0 (toks x ++ chainT "," xs ++ Rest)
      (.tuple (pnfL (c :: d :: cs)), Rest) := by
  obtain ⟨kc, hkc, hokc⟩ := okAt_iff hoc
  have hX := elems_chain d cs xs hxs hg hpcs [pnf c] (pnf c) (finOf c) 0 Rest
    (.tuple (pnfL (c :: d :: cs)), Rest) 1 (Or.inl ⟨rfl, open_of_printable hpc⟩) hcomma hna
    (by simp only [pnfL, List.cons_append, List.nil_append]; exact PL_stop hna0)
  obtain ⟨y, ys, rfl⟩ : ∃ y ys, xs = y :: ys := by
    obtain ⟨y, ys, _, _, rfl⟩ := strL_cons hxs; exact ⟨y, ys, rfl⟩
  have h1 := operand (pos := .elemFirst) hgc hkc hokc hpc hx (m := 0)
    (R := chainT "," (y :: ys) ++ Rest) (by simp [Pos.lge])
    (by simp only [Pos.rge, chainT, List.cons_append]; exact not_absorbs_comma) hX
  simp only [Pos.forces, wrapT, Bool.false_eq_true, if_false] at h1
  simp only [List.append_assoc]
  refine h1.mono ?_
  simp only [G, List.length_append]
  omega


theorem seqT_false_cons (x : Pieces) (xs : List Pieces) :
    seqT false (x :: xs) = toks x ++ chainT "," xs := by
  simp [seqT, seqT_true_eq_chain]

theorem subscript_tuple_case {a c d : Expr} {cs : List Expr}
    (hp : Printable P S (.subscript a (.tuple (c :: d :: cs))) = true)
    (ha : Goal P S a) (hgc : Goal P S c) (hg : ∀ e ∈ d :: cs, Goal P S e) :
    Goal P S (.subscript a (.tuple (c :: d :: cs))) := by
  simp only [Printable, Bool.and_eq_true, decide_eq_true_eq] at hp
  obtain ⟨⟨⟨⟨⟨hoa, hpa⟩, hoc⟩, hpc⟩, hpcs⟩, hcomma⟩ := hp
  obtain ⟨ka, hka, hoka⟩ := okAt_iff hoa
  intro enc ps hs m R res k hc hl
  obtain ⟨x, xs, hx, hxs, htoks⟩ := strE_subscript_tuple hs
  obtain ⟨y, ys, hy, hys, rfl⟩ := strL_cons hxs
  rw [seqT_false_cons] at htoks
  refine goal_of_bare ?_ (by simp [pnf]) rfl htoks hc hl
  intro m R res k hgm _ hl
  have hlg : lguardE P (.subscript a (.tuple (c :: d :: cs))) = some P.call := by
    simp [lguardE, kind, Kind.lguard]
  rw [hlg] at hgm
  simp only [gtO] at hgm
  simp only [pnf, finOf] at hl
  have h2 := elems_parse hgc hg hoc hpc hpcs hcomma hy hys (Rest := .sym "]" :: R)
    not_absorbs_rbrack not_absorbs_rbrack
  have hX := PL_subscript (l := pnf a) (fin := finOf a) hgm h2 hl
  have h1 := operand (pos := .callee) ha hka hoka hpa hx (m := m)
    (by simpa [Pos.lge] using hgm) (by simpa [Pos.rge] using not_absorbs_lbrack) hX
  simp only [Pos.forces, wrapT, Bool.false_eq_true, if_false] at h1
  simp only [List.append_assoc, List.cons_append, List.nil_append] at h1 ⊢
  refine h1.mono ?_
  simp only [G, List.length_append, List.length_cons, List.length_nil]
  omega

theorem tuple_case {cs : List Expr} (hp : Printable P S (.tuple cs) = true)
    (hg : ∀ e ∈ cs, Goal P S e) : Goal P S (.tuple cs) := by
  intro enc ps hs m R res k _ hl
  obtain ⟨xs, hxs, htoks⟩ := strE_tuple hs
  simp only [pnf, finOf] at hl
  rw [htoks]
  match cs, hp, hg, hxs, hl with
  | [], _, _, hxs, hl =>
    rw [strL_nil hxs]
    simp only [seqT, List.length_nil, pnfL] at hl ⊢
    refine (PE_mk PP_unit hl).mono ?_
    simp only [G]; simp; omega
  | [c], hp, hg, hxs, hl =>
    obtain ⟨x, xs', hx, hxs', rfl⟩ := strL_cons hxs
    rw [strL_nil hxs']
    simp only [Printable, PrintableAll, Bool.and_eq_true, decide_eq_true_eq] at hp
    obtain ⟨⟨⟨hoc, hpc⟩, -⟩, hcomma⟩ := hp
    obtain ⟨kc, hkc, hokc⟩ := okAt_iff hoc
    have hX := PL_comma_single (l := pnf c) (fin := finOf c) hcomma (open_of_printable hpc)
      (PL_stop (P := P) (m := 0) (left := .tuple [pnf c]) (fin := false) (ts := .sym ")" :: R)
        not_absorbs_rparen)
    have h1 := operand (pos := .elemFirst) (hg c (List.mem_cons_self ..)) hkc hokc hpc hx (m := 0)
      (by simp [Pos.lge]) (by simpa [Pos.rge] using not_absorbs_comma) hX
    simp only [Pos.forces, wrapT, Bool.false_eq_true, if_false] at h1
    have h2 := PE_mk (PP_paren_tuple h1) (by simpa [pnfL] using hl)
    simp only [seqT, List.length_cons, List.length_nil, beq_self_eq_true, if_true,
      Bool.false_eq_true, if_false, List.nil_append, List.append_nil, List.append_assoc,
      List.cons_append] at h2 ⊢
    refine h2.mono ?_
    simp only [G, List.length_append, List.length_cons, List.length_nil]
    omega
  | c :: d :: cs', hp, hg, hxs, hl =>
    obtain ⟨x, xs', hx, hxs', rfl⟩ := strL_cons hxs
    simp only [Printable, Bool.and_eq_true, decide_eq_true_eq] at hp
    obtain ⟨⟨⟨hoc, hpc⟩, hpcs⟩, hcomma⟩ := hp
    have h1 := elems_parse (hg c (List.mem_cons_self ..))
      (fun e he => hg e (List.mem_cons_of_mem _ he)) hoc hpc hpcs hcomma hx hxs'
      (Rest := .sym ")" :: R) not_absorbs_rparen not_absorbs_rparen
    have h2 := PE_mk (PP_paren_tuple h1) hl
    rw [seqT_false_cons]
    have hlen : ((c :: d :: cs').length == 1) = false := by simp
    simp only [hlen, Bool.false_eq_true, if_false, List.nil_append, List.append_assoc,
      List.cons_append] at h2 ⊢
    refine h2.mono ?_
    simp only [G, List.length_append, List.length_cons, List.length_nil]
    omega


theorem list_case {cs : List Expr} (hp : Printable P S (.list cs) = true)
    (hg : ∀ e ∈ cs, Goal P S e) : Goal P S (.list cs) := by
  intro enc ps hs m R res k _ hl
  obtain ⟨xs, hxs, htoks⟩ := strE_list hs
  simp only [pnf, finOf] at hl
  rw [htoks]
  match cs, hp, hg, hxs, hl with
  | [], _, _, hxs, hl =>
    rw [strL_nil hxs]
    simp only [seqT, List.length_nil, pnfL] at hl ⊢
    refine (PE_mk PP_nil_list hl).mono ?_
    simp only [G]; simp; omega
  | [c], hp, hg, hxs, hl =>
    obtain ⟨x, xs', hx, hxs', rfl⟩ := strL_cons hxs
    rw [strL_nil hxs']
    simp only [Printable, Bool.and_eq_true] at hp
    obtain ⟨hoc, hpc⟩ := hp
    obtain ⟨kc, hkc, hokc⟩ := okAt_iff hoc
    have hkt : kind c ≠ some .tuple := by
      rw [hkc]; intro h
      simp only [Option.some.injEq] at h; subst h
      simp [okTriple, Pos.excludes] at hokc
    have h1 := operand (pos := .index) (hg c (List.mem_cons_self ..)) hkc hokc hpc hx (m := 0)
      (R := .sym "]" :: R) (by simp [Pos.lge]) (by simpa [Pos.rge] using not_absorbs_rbrack)
      (PL_stop not_absorbs_rbrack)
    simp only [Pos.forces, wrapT, Bool.false_eq_true, if_false] at h1
    have h2 := PE_mk (PP_list_one h1 (pnf_ne_tuple hpc hkt)) (by simpa [pnfL] using hl)
    simp only [seqT, Bool.false_eq_true, if_false, List.nil_append, List.append_nil,
      List.append_assoc, List.cons_append] at h2 ⊢
    refine h2.mono ?_
    simp only [G, List.length_append, List.length_cons, List.length_nil]
    omega
  | c :: d :: cs', hp, hg, hxs, hl =>
    obtain ⟨x, xs', hx, hxs', rfl⟩ := strL_cons hxs
    simp only [Printable, Bool.and_eq_true, decide_eq_true_eq] at hp
    obtain ⟨⟨⟨hoc, hpc⟩, hpcs⟩, hcomma⟩ := hp
    have h1 := elems_parse (hg c (List.mem_cons_self ..))
      (fun e he => hg e (List.mem_cons_of_mem _ he)) hoc hpc hpcs hcomma hx hxs'
      (Rest := .sym "]" :: R) not_absorbs_rbrack not_absorbs_rbrack
    have h2 := PE_mk (PP_list_tuple h1) hl
    rw [seqT_false_cons]
    simp only [List.append_assoc, List.cons_append] at h2 ⊢
    refine h2.mono ?_
    simp only [G, List.length_append, List.length_cons, List.length_nil]
    omega

/-! ### argument lists -/

theorem seqT_cons_if (ca : Bool) (x : Pieces) (xs : List Pieces) (Rest : List Tok) :
    seqT ca (x :: xs) ++ Rest
      = if ca then .sym "," :: (toks x ++ (seqT true xs ++ Rest)) else toks x ++ (seqT true xs ++ Rest) := by
  cases ca <;> simp [seqT]

theorem seqT_follow {xs : List Pieces} {Rest : List Tok} (h1 : ¬ absorbs P P.comma Rest)
    (h2 : isSym "=" Rest = false) :
    ¬ absorbs P P.comma (seqT true xs ++ Rest) ∧ isSym "=" (seqT true xs ++ Rest) = false := by
  cases xs with
  | nil => simpa [seqT] using ⟨h1, h2⟩
  | cons y ys =>
    simp only [seqT, if_true, List.cons_append, List.nil_append, List.append_assoc]
    exact ⟨not_absorbs_comma, by simp [isSym]⟩

/-- fuel for an argument list of `n` tokens -/
def GA (k n : Nat) : Nat := max (2 * n + 2) (k + n)

theorem args_chain : ∀ (as : List Expr) (xs : List Pieces), strL S as S.none = .ok xs →
    (∀ e ∈ as, Goal P S e) → PrintableAll P S .arg as = true →
    ∀ (acc : List Expr) (ca : Bool) (Rest : List Tok) res k,
      ¬ absorbs P P.comma Rest → isSym "=" Rest = false →
      PAok P k Rest (acc ++ pnfL as) [] [] (ca || !as.isEmpty) res →
      PAok P (GA k (seqT ca xs).length) (seqT ca xs ++ Rest) acc [] [] ca res
  | [], xs, hs, _, _, acc, ca, Rest, res, k, _, _, hl => by
      rw [strL_nil hs]
      simp only [seqT, pnfL, List.append_nil, List.isEmpty_nil, Bool.not_true, Bool.or_false,
        List.nil_append, List.length_nil] at hl ⊢
      exact hl.mono (by simp only [GA]; omega)
  | a :: as, xs, hs, hg, hp, acc, ca, Rest, res, k, hna, heq, hl => by
      obtain ⟨x, xs', hx, hxs, rfl⟩ := strL_cons hs
      simp only [PrintableAll, Bool.and_eq_true] at hp
      obtain ⟨⟨hoa, hpa⟩, hpas⟩ := hp
      obtain ⟨ka, hka, hoka⟩ := okAt_iff hoa
      obtain ⟨hna', heq'⟩ := seqT_follow (P := P) (xs := xs') hna heq
      have he := operand (pos := .arg) (hg a (List.mem_cons_self ..)) hka hoka hpa hx
        (m := P.comma) (R := seqT true xs' ++ Rest) (by simp [Pos.lge])
        (by simpa [Pos.rge] using hna') (PL_stop hna')
      simp only [Pos.forces, wrapT, Bool.false_eq_true, if_false] at he
      have ih := args_chain as xs' hxs (fun e he => hg e (List.mem_cons_of_mem _ he)) hpas
        (acc ++ [pnf a]) true Rest res k hna heq
        (by simpa [pnfL, List.append_assoc] using hl)
      have hX := PA_pos (ca := ca) he heq' ih
      have hlen := PEok_consumes he
      rw [seqT_cons_if]
      refine hX.mono ?_
      simp only [List.length_append] at hlen
      cases ca <;> simp only [G, GA, seqT, List.length_append, List.length_cons, List.length_nil,
        if_true, Bool.false_eq_true, if_false] <;> omega

theorem call_case {f : Expr} {as : List Expr} (hp : Printable P S (.call f as) = true)
    (hf : Goal P S f) (hg : ∀ e ∈ as, Goal P S e) : Goal P S (.call f as) := by
  simp only [Printable, Bool.and_eq_true] at hp
  obtain ⟨⟨hof, hpf⟩, hpas⟩ := hp
  obtain ⟨kf, hkf, hokf⟩ := okAt_iff hof
  intro enc ps hs m R res k hc hl
  obtain ⟨x, xs, hx, hxs, htoks⟩ := strE_call hs
  have hw : wrappedE S enc (.call f as) = false := by simp [wrappedE, kind, wrappedK, Kind.myPrec]
  refine goal_of_bare (w := false) ?_ (by simp [pnf]) rfl (by simpa [wrapT] using htoks)
    (by simpa [hw] using hc) hl
  intro m R res k hgm _ hl
  have hlg : lguardE P (.call f as) = some P.call := by simp [lguardE, kind, Kind.lguard]
  rw [hlg] at hgm
  simp only [gtO] at hgm
  simp only [pnf, finOf] at hl
  have hA := args_chain as xs hxs hg hpas [] false (.sym ")" :: R) ((pnfL as, [], []), R) 1
    not_absorbs_rparen (by simp [isSym]) (by simpa using PA_close)
  have hX := PL_call (l := pnf f) (fin := finOf f) hgm hA (by simpa using hl)
  have h1 := operand (pos := .callee) hf hkf hokf hpf hx (m := m)
    (by simpa [Pos.lge] using hgm) (by simpa [Pos.rge] using not_absorbs_lparen) hX
  simp only [Pos.forces, wrapT, Bool.false_eq_true, if_false] at h1
  simp only [List.append_assoc, List.cons_append, List.nil_append] at h1 ⊢
  refine h1.mono ?_
  simp only [G, GA, List.length_append, List.length_cons, List.length_nil]
  omega


theorem strL_isEmpty {as : List Expr} {xs : List Pieces} {enc : Nat}
    (h : strL S as enc = .ok xs) : xs.isEmpty = as.isEmpty := by
  cases as with
  | nil => rw [strL_nil h]; rfl
  | cons a as => obtain ⟨x, xs', _, _, rfl⟩ := strL_cons h; rfl

theorem kwPieces_cons (n : String) (ns : List String) (y : Pieces) (ys : List Pieces) :
    kwPieces (n :: ns) (y :: ys) = ((.tok (.ident n) : Piece) :: sy "=" :: y) :: kwPieces ns ys := by
  simp [kwPieces]

theorem kw_chain : ∀ (ns : List String) (vs : List Expr) (ys : List Pieces),
    strL S vs S.none = .ok ys → ns.length = vs.length →
    (∀ e ∈ vs, Goal P S e) → PrintableAll P S .arg vs = true →
    ∀ (args : List Expr) (kwn : List String) (kwv : List Expr) (ca : Bool) (Rest : List Tok) res k,
      (∀ n ∈ ns, kwn.contains n = false) → nodupB ns = true →
      ¬ absorbs P P.comma Rest → isSym "=" Rest = false →
      PAok P k Rest args (kwn ++ ns) (kwv ++ pnfL vs) (ca || !ns.isEmpty) res →
      PAok P (GA k (seqT ca (kwPieces ns ys)).length) (seqT ca (kwPieces ns ys) ++ Rest)
        args kwn kwv ca res
  | [], [], ys, hs, _, _, _, args, kwn, kwv, ca, Rest, res, k, _, _, _, _, hl => by
      rw [strL_nil hs]
      simp only [kwPieces, List.zip_nil_left, List.map_nil, seqT, pnfL, List.append_nil,
        List.isEmpty_nil, Bool.not_true, Bool.or_false, List.nil_append, List.length_nil] at hl ⊢
      exact hl.mono (by simp only [GA]; omega)
  | [], _ :: _, _, _, hlen, _, _, _, _, _, _, _, _, _, _, _, _, _, _ => by simp at hlen
  | _ :: _, [], _, _, hlen, _, _, _, _, _, _, _, _, _, _, _, _, _, _ => by simp at hlen
  | n :: ns, v :: vs, ys, hs, hlen, hg, hp, args, kwn, kwv, ca, Rest, res, k, hnew, hnd, hna,
      heq, hl => by
      obtain ⟨y, ys', hy, hys, rfl⟩ := strL_cons hs
      simp only [PrintableAll, Bool.and_eq_true] at hp
      obtain ⟨⟨hov, hpv⟩, hpvs⟩ := hp
      obtain ⟨kv, hkv, hokv⟩ := okAt_iff hov
      simp only [nodupB, Bool.and_eq_true, Bool.not_eq_true'] at hnd
      obtain ⟨hn1, hn2⟩ := hnd
      obtain ⟨hna', -⟩ := seqT_follow (P := P) (xs := kwPieces ns ys') hna heq
      have hv := operand (pos := .arg) (hg v (List.mem_cons_self ..)) hkv hokv hpv hy
        (m := P.comma) (R := seqT true (kwPieces ns ys') ++ Rest) (by simp [Pos.lge])
        (by simpa [Pos.rge] using hna') (PL_stop hna')
      simp only [Pos.forces, wrapT, Bool.false_eq_true, if_false] at hv
      have hnew' : ∀ n' ∈ ns, (kwn ++ [n]).contains n' = false := by
        intro n' hn'
        have h1 := hnew n' (List.mem_cons_of_mem _ hn')
        have h2 : n' ≠ n := by
          rintro rfl
          simp only [List.contains_eq_mem, decide_eq_false_iff_not] at hn1
          exact hn1 hn'
        simp only [List.contains_eq_mem, decide_eq_false_iff_not, List.mem_append,
          List.mem_singleton, not_or] at h1 ⊢
        exact ⟨h1, h2⟩
      have ih := kw_chain ns vs ys' hys (by simpa using hlen)
        (fun e he => hg e (List.mem_cons_of_mem _ he)) hpvs args (kwn ++ [n]) (kwv ++ [pnf v])
        true Rest res k hnew' hn2 hna heq (by simpa [pnfL, List.append_assoc] using hl)
      have hX := PA_kw (ca := ca) hv (hnew n (List.mem_cons_self ..)) ih
      have hshape : seqT ca (kwPieces (n :: ns) (y :: ys')) ++ Rest =
          if ca then .sym "," :: .ident n :: .sym "=" :: (toks y ++ (seqT true (kwPieces ns ys') ++ Rest))
          else .ident n :: .sym "=" :: (toks y ++ (seqT true (kwPieces ns ys') ++ Rest)) := by
        cases ca <;> simp [kwPieces_cons, seqT]
      rw [hshape]
      refine hX.mono ?_
      cases ca <;> simp [G, GA, kwPieces_cons, seqT] <;> omega

theorem callKw_case {f : Expr} {as : List Expr} {ns : List String} {vs : List Expr}
    (hp : Printable P S (.callKw f as ns vs) = true)
    (hf : Goal P S f) (hg : ∀ e ∈ as, Goal P S e) (hgv : ∀ e ∈ vs, Goal P S e) :
    Goal P S (.callKw f as ns vs) := by
  simp only [Printable, Bool.and_eq_true, beq_iff_eq, Bool.not_eq_true'] at hp
  obtain ⟨⟨⟨⟨⟨⟨hof, hpf⟩, hpas⟩, hpvs⟩, hlen⟩, hne⟩, hnd⟩ := hp
  obtain ⟨kf, hkf, hokf⟩ := okAt_iff hof
  intro enc ps hs m R res k hc hl
  obtain ⟨x, xs, ys, hx, hxs, hys, htoks⟩ := strE_callKw hs
  have hw : wrappedE S enc (.callKw f as ns vs) = false := by
    simp [wrappedE, kind, wrappedK, Kind.myPrec]
  refine goal_of_bare (w := false) ?_ (by simp [pnf]) rfl (by simpa [wrapT] using htoks)
    (by simpa [hw] using hc) hl
  intro m R res k hgm _ hl
  have hlg : lguardE P (.callKw f as ns vs) = some P.call := by simp [lguardE, kind, Kind.lguard]
  rw [hlg] at hgm
  simp only [gtO] at hgm
  simp only [pnf, finOf] at hl
  obtain ⟨n0, ns', rfl⟩ : ∃ n0 ns', ns = n0 :: ns' := by
    cases ns with
    | nil => simp at hne
    | cons n0 ns' => exact ⟨n0, ns', rfl⟩
  obtain ⟨v0, vs', rfl⟩ : ∃ v0 vs', vs = v0 :: vs' := by
    cases vs with
    | nil => simp at hlen
    | cons v0 vs' => exact ⟨v0, vs', rfl⟩
  obtain ⟨y0, ys', _, _, rfl⟩ := strL_cons hys
  have hK := kw_chain (n0 :: ns') (v0 :: vs') (y0 :: ys') hys hlen hgv hpvs (pnfL as) [] []
    (!as.isEmpty) (.sym ")" :: R) ((pnfL as, n0 :: ns', pnfL (v0 :: vs')), R) 1
    (by simp) hnd not_absorbs_rparen (by simp [isSym]) (by simpa using PA_close)
  have hrest : ¬ absorbs P P.comma
        (seqT (!as.isEmpty) (kwPieces (n0 :: ns') (y0 :: ys')) ++ .sym ")" :: R) ∧
      isSym "=" (seqT (!as.isEmpty) (kwPieces (n0 :: ns') (y0 :: ys')) ++ .sym ")" :: R)
        = false := by
    cases as.isEmpty <;> simp [kwPieces_cons, seqT, isSym, absorbs, tokGuard]
  have hA := args_chain as xs hxs hg hpas [] false _ _ _ hrest.1 hrest.2
    (by simpa using hK)
  have hX := PL_call (l := pnf f) (fin := finOf f) hgm hA (by simpa using hl)
  have h1 := operand (pos := .callee) hf hkf hokf hpf hx (m := m)
    (by simpa [Pos.lge] using hgm) (by simpa [Pos.rge] using not_absorbs_lparen) hX
  simp only [Pos.forces, wrapT, Bool.false_eq_true, if_false] at h1
  rw [seqT_append, strL_isEmpty hxs]
  simp only [Bool.false_or, List.append_assoc, List.cons_append, List.nil_append] at h1 ⊢
  refine h1.mono ?_
  simp only [G, GA, List.length_append, List.length_cons, List.length_nil]
  omega

/-! ### slices -/

/-- what `parse_expression(_PREC_SLICE)` returns for `c : … : last` -/
def sliceNF : List Expr → Expr
  | [] => .slice []
  | c :: cs =>
    match cs with
    | [] => pnf c
    | _ :: _ => joinToSlice (pnf c) (sliceNF cs)

theorem sliceNF_one (c : Expr) : sliceNF [c] = pnf c := by simp [sliceNF]
theorem sliceNF_cons2 (c d : Expr) (ds : List Expr) :
    sliceNF (c :: d :: ds) = joinToSlice (pnf c) (sliceNF (d :: ds)) := by simp [sliceNF]

theorem pnf_ne_slice {t : Expr} (hp : Printable P S t = true) (hk : kind t ≠ some .slice) :
    ∀ cs, pnf t ≠ .slice cs := by
  intro cs
  cases t with
  | const c => simp [pnf]
  | var => simp [pnf]
  | nary o ds =>
    cases o with
    | sum =>
      match ds, hp with
      | c :: d :: ds', _ =>
        obtain ⟨ys, hys⟩ := spliceNary_isNary .sum (pnf c) (pnf d)
        obtain ⟨zs, hzs⟩ := pnfSum_isNary ds' ys
        simp [pnf, pnfSum, hys, hzs]
      | [], hp => simp [Printable] at hp
      | [_], hp => simp [Printable] at hp
    | prod =>
      match ds, hp with
      | c :: d :: ds', _ =>
        obtain ⟨ys, hys⟩ := spliceNary_isNary .prod (pnf c) (pnfProd (d :: ds'))
        simp only [pnf, pnfProd_cons2, hys]; simp
      | [], hp => simp [Printable] at hp
      | [_], hp => simp [Printable] at hp
    | _ => simp [pnf]
  | slice => simp [kind] at hk
  | _ => simp [pnf]

theorem printableSlice_none (cs : List Expr) (d : Expr) :
    PrintableSlice P S (.const .none :: d :: cs) = PrintableSlice P S (d :: cs) := by
  simp [PrintableSlice]

theorem printableSlice_some {c : Expr} (hc : c ≠ .const .none) (cs : List Expr) (d : Expr) :
    PrintableSlice P S (c :: d :: cs)
      = (okAt P S .slicePart c && Printable P S c && PrintableSlice P S (d :: cs)) := by
  have hc' : ∀ h : c = .const .none, False := fun h => hc h
  rw [PrintableSlice]
  · intro h; cases h
  · exact fun h => hc h

theorem not_slice_of_okAt {pos : Pos} (hpos : pos = .slicePart ∨ pos = .sliceLast) {c : Expr}
    (ho : okAt P S pos c = true) (hp : Printable P S c = true) : ∀ cs, pnf c ≠ .slice cs := by
  obtain ⟨kc, hkc, hok⟩ := okAt_iff ho
  refine pnf_ne_slice hp ?_
  rw [hkc]
  intro h
  simp only [Option.some.injEq] at h
  subst h
  rcases hpos with rfl | rfl <;> simp [okTriple, Pos.excludes] at hok

theorem sliceNF_eq : ∀ (c d : Expr) (ds : List Expr), PrintableSlice P S (c :: d :: ds) = true →
    sliceNF (c :: d :: ds) = .slice (pnfL (c :: d :: ds))
  | c, d, [], h => by
    have hd : PrintableSlice P S [d] = true := by
      by_cases hc : c = .const .none
      · subst hc; rwa [printableSlice_none] at h
      · rw [printableSlice_some hc] at h; simp only [Bool.and_eq_true] at h; exact h.2
    simp only [PrintableSlice, Bool.and_eq_true] at hd
    have hns := not_slice_of_okAt (Or.inr rfl) hd.1 hd.2
    rw [sliceNF_cons2, sliceNF_one]
    unfold joinToSlice
    split
    · rename_i cs heq; exact absurd heq (hns cs)
    · simp [pnfL]
  | c, d, d' :: ds, h => by
    have hd : PrintableSlice P S (d :: d' :: ds) = true := by
      by_cases hc : c = .const .none
      · subst hc; rwa [printableSlice_none] at h
      · rw [printableSlice_some hc] at h; simp only [Bool.and_eq_true] at h; exact h.2
    rw [sliceNF_cons2, sliceNF_eq d d' ds hd]
    simp [joinToSlice, pnfL]

theorem not_absorbs_colon_self {r} : ¬ absorbs P (P.slice + 1) (.sym ":" :: r) := by
  rw [absorbs_colon]; omega

theorem slice_tail : ∀ (c : Expr) (cs : List Expr) (xs : List Pieces),
    strSliceL S (c :: cs) = .ok xs →
    (∀ e ∈ c :: cs, e ≠ .const .none → Goal P S e) → PrintableSlice P S (c :: cs) = true →
    ∀ R, ¬ absorbs P P.slice R →
    ∃ x xs', xs = x :: xs' ∧
      PEok P (G 1 (toks x ++ chainT ":" xs').length) P.slice
        (toks x ++ chainT ":" xs' ++ R) (sliceNF (c :: cs), R)
  | c, [], xs, hs, hg, hp, R, hna => by
    simp only [PrintableSlice, Bool.and_eq_true] at hp
    obtain ⟨hoc, hpc⟩ := hp
    obtain ⟨kc, hkc, hokc⟩ := okAt_iff hoc
    have hcn : c ≠ .const .none := by
      rintro rfl; simp [kind] at hkc
    obtain ⟨x, xs', hx, hxs, rfl⟩ := strSliceL_cons hcn hs
    rw [strSliceL_nil hxs]
    refine ⟨_, _, rfl, ?_⟩
    have h1 := operand (pos := .sliceLast) (hg c (List.mem_cons_self ..) hcn) hkc hokc hpc hx
      (m := P.slice) (R := R) (by simp [Pos.lge]) (by simpa [Pos.rge] using hna) (PL_stop hna)
    simpa [Pos.forces, wrapT, chainT, sliceNF_one] using h1
  | c, d :: ds, xs, hs, hg, hp, R, hna => by
    by_cases hcn : c = .const .none
    · subst hcn
      rw [printableSlice_none] at hp
      obtain ⟨xs', hxs, rfl⟩ := strSliceL_none hs
      obtain ⟨y, ys, rfl, ih⟩ := slice_tail d ds xs' hxs
        (fun e he => hg e (List.mem_cons_of_mem _ he)) hp R hna
      refine ⟨_, _, rfl, ?_⟩
      have h1 := PE_mk (PP_colon ih) (PL_stop (P := P) (m := P.slice) (fin := false)
        (left := joinToSlice (.const .none) (sliceNF (d :: ds))) hna)
      rw [sliceNF_cons2]
      simp only [pnf, toks_nil, List.nil_append, chainT, List.cons_append, List.append_assoc]
        at h1 ⊢
      refine h1.mono ?_
      simp only [G, List.length_append, List.length_cons]
      omega
    · rw [printableSlice_some hcn] at hp
      simp only [Bool.and_eq_true] at hp
      obtain ⟨⟨hoc, hpc⟩, hpcs⟩ := hp
      obtain ⟨kc, hkc, hokc⟩ := okAt_iff hoc
      obtain ⟨x, xs', hx, hxs, rfl⟩ := strSliceL_cons hcn hs
      obtain ⟨y, ys, rfl, ih⟩ := slice_tail d ds xs' hxs
        (fun e he => hg e (List.mem_cons_of_mem _ he)) hpcs R hna
      refine ⟨_, _, rfl, ?_⟩
      have hX := PL_colon (l := pnf c) (fin := finOf c) (Nat.le_refl _)
        (not_slice_of_okAt (Or.inl rfl) hoc hpc) ih
        (PL_stop (P := P) (m := P.slice) (fin := false) hna)
      have h1 := operand (pos := .slicePart) (hg c (List.mem_cons_self ..) hcn) hkc hokc hpc hx
        (m := P.slice) (R := .sym ":" :: (toks y ++ chainT ":" ys ++ R)) (by simp [Pos.lge])
        (by simpa [Pos.rge] using not_absorbs_colon_self) hX
      rw [sliceNF_cons2]
      simp only [Pos.forces, wrapT, Bool.false_eq_true, if_false, chainT, List.cons_append,
        List.append_assoc] at h1 ⊢
      refine h1.mono ?_
      simp only [G, List.length_append, List.length_cons]
      omega

theorem slice_case {c d : Expr} {cs : List Expr} (hp : Printable P S (.slice (c :: d :: cs)) = true)
    (hg : ∀ e ∈ c :: d :: cs, e ≠ .const .none → Goal P S e) :
    Goal P S (.slice (c :: d :: cs)) := by
  simp only [Printable] at hp
  intro enc ps hs m R res k hc hl
  obtain ⟨xs, hxs, htoks⟩ := strE_slice hs
  have hnf := sliceNF_eq c d cs hp
  obtain ⟨x0, xs0, rfl⟩ : ∃ x0 xs0, xs = x0 :: xs0 := by
    by_cases hcn : c = .const .none
    · subst hcn; obtain ⟨xs', _, rfl⟩ := strSliceL_none hxs; exact ⟨_, _, rfl⟩
    · obtain ⟨x, xs', _, _, rfl⟩ := strSliceL_cons hcn hxs; exact ⟨_, _, rfl⟩
  rw [toks_joinWith (s := ":") (by simp)] at htoks
  refine goal_of_bare ?_ (by simp [pnf]) rfl htoks hc hl
  intro m R res k hgm hna hl
  have hlg : lguardE P (.slice (c :: d :: cs)) = some (P.slice + 1) := by
    simp [lguardE, kind, Kind.lguard]
  have hrl : rlevelE P (.slice (c :: d :: cs)) = some P.slice := by
    simp [rlevelE, kind, Kind.rlevel]
  rw [hlg] at hgm; rw [hrl] at hna
  simp only [NAK, gtO] at hna hgm
  simp only [pnf, finOf] at hl
  by_cases hcn : c = .const .none
  · subst hcn
    rw [printableSlice_none] at hp
    obtain ⟨xs', hxs', hxeq⟩ := strSliceL_none hxs
    simp only [List.cons.injEq] at hxeq
    obtain ⟨rfl, rfl⟩ := hxeq
    obtain ⟨y, ys, rfl, ih⟩ := slice_tail d cs xs0 hxs'
      (fun e he => hg e (List.mem_cons_of_mem _ he)) hp R hna
    have h1 := PE_mk (PP_colon ih) (by
      rw [sliceNF_cons2] at hnf
      simp only [pnf] at hnf
      rw [hnf]; exact hl)
    simp only [toks_nil, List.nil_append, chainT, List.cons_append, List.append_assoc] at h1 ⊢
    refine h1.mono ?_
    simp only [G, List.length_append, List.length_cons]
    omega
  · rw [printableSlice_some hcn] at hp
    simp only [Bool.and_eq_true] at hp
    obtain ⟨⟨hoc, hpc⟩, hpcs⟩ := hp
    obtain ⟨kc, hkc, hokc⟩ := okAt_iff hoc
    obtain ⟨x, xs', hx, hxs', hxeq⟩ := strSliceL_cons hcn hxs
    simp only [List.cons.injEq] at hxeq
    obtain ⟨rfl, rfl⟩ := hxeq
    obtain ⟨y, ys, rfl, ih⟩ := slice_tail d cs xs0 hxs'
      (fun e he => hg e (List.mem_cons_of_mem _ he)) hpcs R hna
    have hX := PL_colon (m := m) (l := pnf c) (fin := finOf c) (show P.slice ≥ m by omega)
      (not_slice_of_okAt (Or.inl rfl) hoc hpc) ih (by
        rw [sliceNF_cons2] at hnf
        rw [hnf]; exact hl)
    have h1 := operand (pos := .slicePart) (hg c (List.mem_cons_self ..) hcn) hkc hokc hpc hx
      (m := m) (R := .sym ":" :: (toks y ++ chainT ":" ys ++ R))
      (by simpa [Pos.lge] using hgm)
      (by simpa [Pos.rge] using not_absorbs_colon_self) hX
    simp only [Pos.forces, wrapT, Bool.false_eq_true, if_false, chainT, List.cons_append,
      List.append_assoc] at h1 ⊢
    refine h1.mono ?_
    simp only [G, List.length_append, List.length_cons]
    omega

theorem printableSlice_mem : ∀ {cs : List Expr}, PrintableSlice P S cs = true →
    ∀ e ∈ cs, e ≠ .const .none → Printable P S e = true
  | [], h, _, _, _ => by simp [PrintableSlice] at h
  | [c], h, e, he, _ => by
    simp only [PrintableSlice, Bool.and_eq_true] at h
    rcases List.mem_cons.mp he with rfl | he
    · exact h.2
    · cases he
  | c :: d :: ds, h, e, he, hn => by
    by_cases hcn : c = .const .none
    · subst hcn
      rw [printableSlice_none] at h
      rcases List.mem_cons.mp he with rfl | he
      · exact absurd rfl hn
      · exact printableSlice_mem h e he hn
    · rw [printableSlice_some hcn] at h
      simp only [Bool.and_eq_true] at h
      rcases List.mem_cons.mp he with rfl | he
      · exact h.1.2
      · exact printableSlice_mem h.2 e he hn

end PV.Syntax
