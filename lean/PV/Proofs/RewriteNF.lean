import PV.Proofs.RewriteSound
set_option linter.unusedSimpArgs false
/-
  C11, part 2: the normal form reached by `flatten` (no sum directly under a sum, no product
  directly under a product, no zero operand in a sum, no zero / one operand in a product — at
  every depth), and "at most one constant operand" for the constant folders.
-/
namespace PV

/-- admissible operand of a flattened sum: not a sum, not zero (`is_zero`, i.e. falsy) -/
def sumChildOk (c : Expr) : Bool := !isSum c && !c.isZero
/-- admissible operand of a flattened product: not a product, not zero, not one -/
def prodChildOk (c : Expr) : Bool := !isProdE c && !c.isZero && !c.isOne

mutual
/-- every Sum / Product node of the tree (at any depth) has admissible operands only -/
def Expr.flatNF : Expr → Bool
  | .nary .sum cs => Expr.flatNFL cs && cs.all sumChildOk
  | .nary .prod cs => Expr.flatNFL cs && cs.all prodChildOk
  | .nary _ cs => Expr.flatNFL cs
  | .bin _ a b => a.flatNF && b.flatNF
  | .un _ a => a.flatNF
  | .cmp _ a b => a.flatNF && b.flatNF
  | .ite c t e => c.flatNF && t.flatNF && e.flatNF
  | .call f as => f.flatNF && Expr.flatNFL as
  | .callKw f as _ vs => f.flatNF && Expr.flatNFL as && Expr.flatNFL vs
  | .subscript a i => a.flatNF && i.flatNF
  | .lookup a _ => a.flatNF
  | .cse c _ _ => c.flatNF
  | .subst c _ xs => c.flatNF && Expr.flatNFL xs
  | .deriv c _ => c.flatNF
  | .slice cs => Expr.flatNFL cs
  | .tuple cs => Expr.flatNFL cs
  | .list cs => Expr.flatNFL cs
  | _ => true
def Expr.flatNFL : List Expr → Bool
  | [] => true
  | c :: cs => c.flatNF && Expr.flatNFL cs
end

theorem flatNFL_append : ∀ (as bs : List Expr),
    Expr.flatNFL (as ++ bs) = (Expr.flatNFL as && Expr.flatNFL bs)
  | [], bs => by simp [Expr.flatNFL]
  | a :: as, bs => by simp [Expr.flatNFL, flatNFL_append as bs, Bool.and_assoc]

theorem flatNFL_forall₂ {f : Expr → RwR} (hf : ∀ c c', f c = .ok c' → c'.flatNF = true) :
    ∀ {cs cs' : List Expr}, List.Forall₂ (fun c c' => f c = .ok c') cs cs' →
      Expr.flatNFL cs' = true
  | _, _, .nil => rfl
  | _, _, .cons hc hcs => by
      simp only [Expr.flatNFL, Bool.and_eq_true]
      exact ⟨hf _ _ hc, flatNFL_forall₂ hf hcs⟩

theorem flatNF_zero : zero.flatNF = true := rfl
theorem flatNF_one : one.flatNF = true := rfl

/-! ### the queue loops produce admissible operands only -/

theorem flattenedSumLoop_nf : ∀ (fuel : Nat) (queue done : List Expr),
    Expr.flatNFL queue = true → Expr.flatNFL done = true → done.all sumChildOk = true →
    Expr.flatNFL (flattenedSumLoop fuel queue done) = true ∧
      (flattenedSumLoop fuel queue done).all sumChildOk = true
  | 0, _, _, _, hd, hd' => by simp only [flattenedSumLoop]; exact ⟨hd, hd'⟩
  | _ + 1, [], _, _, hd, hd' => by simp only [flattenedSumLoop]; exact ⟨hd, hd'⟩
  | fuel + 1, item :: queue, done, hq, hd, hd' => by
      simp only [Expr.flatNFL, Bool.and_eq_true] at hq
      simp only [flattenedSumLoop]
      split
      · exact flattenedSumLoop_nf fuel queue done hq.2 hd hd'
      · rename_i hz
        split
        · apply flattenedSumLoop_nf fuel _ done _ hd hd'
          rw [flatNFL_append, hq.2]
          have := hq.1
          simp only [Expr.flatNF, Bool.and_eq_true] at this
          simp [this.1]
        · rename_i hns
          apply flattenedSumLoop_nf fuel queue (done ++ [item]) hq.2
          · rw [flatNFL_append, hd]; simp [Expr.flatNFL, hq.1]
          · rw [List.all_append, hd']
            have : isSum item = false := by
              cases item <;> simp only [isSum]
            simp [sumChildOk, this, hz]

theorem flattenedSum_nf {terms : List Expr} (h : Expr.flatNFL terms = true) :
    (flattenedSum terms).flatNF = true := by
  have := flattenedSumLoop_nf (Expr.sizeL terms + terms.length + 1) terms [] h rfl rfl
  simp only [flattenedSum]
  generalize flattenedSumLoop (Expr.sizeL terms + terms.length + 1) terms [] = L at this ⊢
  rcases L with _ | ⟨x, _ | ⟨y, ys⟩⟩
  · exact flatNF_zero
  · simpa [Expr.flatNFL] using this.1
  · simp only [Expr.flatNF, Bool.and_eq_true]; exact this

theorem flattenedProductLoop_nf : ∀ (fuel : Nat) (queue done : List Expr),
    Expr.flatNFL queue = true → Expr.flatNFL done = true → done.all prodChildOk = true →
    ∀ xs, flattenedProductLoop fuel queue done = some xs →
      Expr.flatNFL xs = true ∧ xs.all prodChildOk = true
  | 0, _, _, _, hd, hd', xs, h => by
      simp only [flattenedProductLoop, Option.some.injEq] at h; subst h; exact ⟨hd, hd'⟩
  | _ + 1, [], _, _, hd, hd', xs, h => by
      simp only [flattenedProductLoop, Option.some.injEq] at h; subst h; exact ⟨hd, hd'⟩
  | fuel + 1, item :: queue, done, hq, hd, hd', xs, h => by
      simp only [Expr.flatNFL, Bool.and_eq_true] at hq
      simp only [flattenedProductLoop] at h
      split at h
      · contradiction
      · rename_i hz
        split at h
        · exact flattenedProductLoop_nf fuel queue done hq.2 hd hd' xs h
        · rename_i h1
          split at h
          · refine flattenedProductLoop_nf fuel _ done ?_ hd hd' xs h
            rw [flatNFL_append, hq.2]
            have := hq.1
            simp only [Expr.flatNF, Bool.and_eq_true] at this
            simp [this.1]
          · rename_i hnp
            refine flattenedProductLoop_nf fuel queue (done ++ [item]) hq.2 ?_ ?_ xs h
            · rw [flatNFL_append, hd]; simp [Expr.flatNFL, hq.1]
            · rw [List.all_append, hd']
              have : isProdE item = false := by
                cases item <;> simp only [isProdE]
              simp [prodChildOk, this, hz, h1]

theorem flattenedProduct_nf {terms : List Expr} (h : Expr.flatNFL terms = true) :
    (flattenedProduct terms).flatNF = true := by
  have := flattenedProductLoop_nf (Expr.sizeL terms + terms.length + 1) terms [] h rfl rfl
  simp only [flattenedProduct]
  generalize flattenedProductLoop (Expr.sizeL terms + terms.length + 1) terms [] = L at this ⊢
  rcases L with _ | _ | ⟨x, _ | ⟨y, ys⟩⟩
  · exact flatNF_zero
  · exact flatNF_one
  · simpa [Expr.flatNFL] using (this _ rfl).1
  · simp only [Expr.flatNF, Bool.and_eq_true]; exact this _ rfl

theorem flatProd_nf {items : List Expr} {e : Expr} (h : flatProd items = .ok e)
    (hn : Expr.flatNFL items = true) : e.flatNF = true := by
  simp only [flatProd] at h
  split at h
  · contradiction
  · injection h with h; subst h; exact flattenedProduct_nf hn

/-! ### the inherited handlers keep the normal form of the mapped children -/

theorem mapOpt_nf {rec : Expr → RwR} (hrec : ∀ c c', rec c = .ok c' → c'.flatNF = true)
    (c c' : Expr) (h : mapOpt rec c = .ok c') : c'.flatNF = true := by
  unfold mapOpt at h
  split at h
  · simp only [pure, Except.pure] at h; injection h with h; subst h; rfl
  · exact hrec _ _ h

theorem idMap_nf {rec : Expr → RwR} (hrec : ∀ c c', rec c = .ok c' → c'.flatNF = true)
    {e e' : Expr} (h : idMap rec e = .ok e') : e'.flatNF = true ∨ (∃ o cs, e = .nary o cs) := by
  cases e with
  | nary o cs => exact .inr ⟨o, cs, rfl⟩
  | const c =>
    left
    cases c <;> simp only [idMap, pure, Except.pure, throw, throwThe, MonadExceptOf.throw] at h <;>
      first | contradiction | (injection h with h; subst h; rfl)
  | var x | nan | wildcard | dotWild n | starWild n | funcSym =>
    left; simp only [idMap, pure, Except.pure] at h; injection h with h; subst h; rfl
  | bin o a b | cmp o a b | subscript a b =>
    left
    simp only [idMap] at h
    obtain ⟨a', ha, h⟩ := bind_ok h
    obtain ⟨b', hb, h⟩ := bind_ok h
    simp only [pure, Except.pure] at h; injection h with h; subst h
    simp [Expr.flatNF, hrec _ _ ha, hrec _ _ hb]
  | un o a | lookup a n | deriv a vs =>
    left
    simp only [idMap] at h
    obtain ⟨a', ha, h⟩ := bind_ok h
    simp only [pure, Except.pure] at h; injection h with h; subst h
    simp [Expr.flatNF, hrec _ _ ha]
  | ite c t e =>
    left
    simp only [idMap] at h
    obtain ⟨a', ha, h⟩ := bind_ok h
    obtain ⟨b', hb, h⟩ := bind_ok h
    obtain ⟨c', hc, h⟩ := bind_ok h
    simp only [pure, Except.pure] at h; injection h with h; subst h
    simp [Expr.flatNF, hrec _ _ ha, hrec _ _ hb, hrec _ _ hc]
  | call f as | subst f vs as =>
    left
    simp only [idMap] at h
    obtain ⟨a', ha, h⟩ := bind_ok h
    obtain ⟨b', hb, h⟩ := bind_ok h
    simp only [pure, Except.pure] at h; injection h with h; subst h
    simp [Expr.flatNF, hrec _ _ ha, flatNFL_forall₂ hrec (mapM_ok hb)]
  | callKw f as ns vs =>
    left
    simp only [idMap] at h
    obtain ⟨a', ha, h⟩ := bind_ok h
    obtain ⟨b', hb, h⟩ := bind_ok h
    obtain ⟨c', hc, h⟩ := bind_ok h
    simp only [pure, Except.pure] at h; injection h with h; subst h
    simp [Expr.flatNF, hrec _ _ ha, flatNFL_forall₂ hrec (mapM_ok hb),
      flatNFL_forall₂ hrec (mapM_ok hc)]
  | cse c p s =>
    left
    simp only [idMap] at h
    obtain ⟨c', hc, h⟩ := bind_ok h
    split at h <;> simp only [pure, Except.pure] at h <;> injection h with h <;> subst h
    · rfl
    · simp [Expr.flatNF, hrec _ _ hc]
  | slice cs =>
    left
    simp only [idMap] at h
    obtain ⟨cs', hcs, h⟩ := bind_ok h
    simp only [pure, Except.pure] at h; injection h with h; subst h
    simp [Expr.flatNF, flatNFL_forall₂ (mapOpt_nf hrec) (mapM_ok hcs)]
  | tuple cs | list cs =>
    left
    simp only [idMap] at h
    obtain ⟨cs', hcs, h⟩ := bind_ok h
    simp only [pure, Except.pure] at h; injection h with h; subst h
    simp [Expr.flatNF, flatNFL_forall₂ hrec (mapM_ok hcs)]

/-- `idMap` on an n-ary node other than Sum / Product -/
theorem idMap_nary_nf {rec : Expr → RwR} (hrec : ∀ c c', rec c = .ok c' → c'.flatNF = true)
    {o : NaryOp} {cs : List Expr} {e' : Expr} (ho : o ≠ .sum) (ho' : o ≠ .prod)
    (h : idMap rec (.nary o cs) = .ok e') : e'.flatNF = true := by
  simp only [idMap] at h
  obtain ⟨cs', hcs, h⟩ := bind_ok h
  simp only [pure, Except.pure] at h; injection h with h; subst h
  cases o <;> first | contradiction | simp [Expr.flatNF, flatNFL_forall₂ hrec (mapM_ok hcs)]

/-- **Normal form of `flatten`**: in the result no Sum has a Sum or a zero operand and no Product
has a Product, a zero or a one operand — at every depth, for every input on which `flatten`
returns.  No hypothesis on the input is needed. -/
theorem flattenM_nf : ∀ (fuel : Nat) (e e' : Expr), flattenM fuel e = .ok e' → e'.flatNF = true
  | 0, _, _, h => by simp [flattenM, throw, throwThe, MonadExceptOf.throw] at h
  | fuel + 1, e, e', h => by
      have ih := flattenM_nf fuel
      cases e with
      | nary o cs =>
        cases o with
        | sum =>
          simp only [flattenM] at h
          obtain ⟨cs', hcs, h⟩ := bind_ok h
          simp only [pure, Except.pure] at h; injection h with h; subst h
          exact flattenedSum_nf (flatNFL_forall₂ ih (mapM_ok hcs))
        | prod =>
          simp only [flattenM] at h
          obtain ⟨cs', hcs, h⟩ := bind_ok h
          exact flatProd_nf h (flatNFL_forall₂ ih (mapM_ok hcs))
        | _ =>
          simp only [flattenM] at h
          exact idMap_nary_nf ih (by decide) (by decide) h
      | _ =>
        simp only [flattenM] at h
        rcases idMap_nf ih h with h' | ⟨o, cs, h'⟩
        · exact h'
        · cases h'

/-! ### the normal form claimed for `expand` on polynomial expressions -/

mutual
/-- the polynomial fragment: integer constants, variables, sums, products, powers with a positive
integer-literal exponent -/
def Expr.isPoly : Expr → Bool
  | .const (.int _) => true
  | .var _ => true
  | .nary .sum cs => Expr.isPolyL cs
  | .nary .prod cs => Expr.isPolyL cs
  | .bin .pow a (.const (.int n)) => decide (0 < n) && a.isPoly
  | _ => false
def Expr.isPolyL : List Expr → Bool
  | [] => true
  | c :: cs => c.isPoly && Expr.isPolyL cs
end

mutual
/-- does the tree contain a Sum node? -/
def Expr.hasSum : Expr → Bool
  | .nary .sum _ => true
  | .nary _ cs => Expr.hasSumL cs
  | .bin _ a b => a.hasSum || b.hasSum
  | .cse c _ _ => c.hasSum
  | _ => false
def Expr.hasSumL : List Expr → Bool
  | [] => false
  | c :: cs => c.hasSum || Expr.hasSumL cs
end

mutual
/-- "no sum beneath a product or an integer power" -/
def Expr.expandedNF : Expr → Bool
  | .nary .prod cs => !Expr.hasSumL cs
  | .nary .sum cs => Expr.expandedNFL cs
  | .bin .pow a (.const (.int _)) => !a.hasSum
  | _ => true
def Expr.expandedNFL : List Expr → Bool
  | [] => true
  | c :: cs => c.expandedNF && Expr.expandedNFL cs
end

end PV
