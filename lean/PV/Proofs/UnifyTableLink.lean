import PV.Proofs.UnifyTableStep
/-
  C16 (T-gen), part 5: the hand-written model solves the equations of the table —
  `unifyE = c16UnifyF unifyE` (one unfolding), the model functions are what the table's functions
  compute when the calls between them mean the model functions (linking), well-formed records stay
  well-formed, and `unifyE` is the ONLY solution of the dispatch equation.
-/
open PV PV.Unify
namespace PV.Unify

/-! ### `unifyE` is one unfolding of itself through `c16UnifyF` -/

theorem unifyL_eq_zipF (cands : List String) : ∀ (cs ds : List Expr) (us : List URec),
    unifyL cands cs ds us
      = if cs.length = ds.length then c16ZipF (unifyE cands) (cs.zip ds) us else []
  | [], [], us => by simp [unifyL, c16ZipF]
  | [], _ :: _, us => by simp [unifyL]
  | _ :: _, [], us => by simp [unifyL]
  | c :: cs, d :: ds, us => by
    simp only [unifyL, List.length_cons, List.zip_cons_cons, c16ZipF, unifyL_eq_zipF cands cs ds]
    by_cases hl : cs.length = ds.length <;> simp [hl]

theorem candTable_eq (cands : List String) (ds : List Expr) (us : List URec) :
    ∀ cs : List Expr, candTable cands cs ds us
      = (cs.filter fun c => !isPlain cands c).map fun c => c16RowF (unifyE cands) c ds us
  | [] => by simp [candTable]
  | c :: cs => by
    simp only [candTable, candTable_eq cands ds us cs]
    by_cases hp : isPlain cands c = true
    · simp [hp]
    · simp [hp, c16RowF]

theorem unifyE_subscript' (cands : List String) (a i other : Expr) (us : List URec) :
    unifyE cands (.subscript a i) other us =
      match other with
      | .subscript a' i' => unifyE cands a a' (unifyE cands (unpackIndex i) (unpackIndex i') us)
      | _ => [] := by
  cases i with
  | tuple cs =>
    match cs with
    | [] => simp only [unifyE, unpackIndex]; rfl
    | [x] => simp only [unifyE, unpackIndex]; cases other <;> rfl
    | x :: y :: zs => simp only [unifyE, unpackIndex]; rfl
  | _ => simp only [unifyE, unpackIndex] <;> rfl

/-- **the model satisfies the dispatch equation** (one unfolding of `unifyE`, with the loops of
`map_list` / of the candidate table written without the mutual recursion) -/
theorem unifyE_eq_F (cands : List String) (e oth : Expr) (us : List URec) :
    unifyE cands e oth us = c16UnifyF cands (unifyE cands) e oth us := by
  cases e with
  | nary o cs =>
    cases oth <;> simp only [unifyE, c16UnifyF]
    rename_i o' ds
    by_cases h : (o = o' && (o = .sum || o = .prod)) = true
    · simp only [h, if_true, c16CommutF, candTable_eq]
      simp
    · simp [h]
  | call f as =>
    cases oth <;> simp only [unifyE, c16UnifyF]
  | subscript a i =>
    rw [unifyE_subscript']
    cases oth <;> simp only [c16UnifyF]
  | tuple cs =>
    cases oth <;> simp only [unifyE, c16UnifyF, unifyL_eq_zipF]
  | _ => simp only [unifyE, c16UnifyF] <;> (try (cases oth <;> rfl))

/-! ### linking: the table's own functions compute the model's functions -/

/-- **Record-level functions.**  If the callees of a context mean the model's functions, then so do
the functions of the table run in that context (`c16LinkFn`: class construction through
`__init__`, methods resolved along the MRO). -/
theorem c16LinkFn_spec (cands : List String) (cx : C16Ctx) (hs : C16FnSpec cands cx.fn)
    (ha : cx.selfAttrs = c16ModelAttrs cands) : C16FnSpec cands (c16LinkFn c16Expected cx) where
  unify_map a b hb := by
    have h1 : c16FindClass c16Expected "unify_map" = none := rfl
    have h2 : c16FindFn c16Expected "unify_map" = some c16X_unify_map := rfl
    simp only [c16LinkFn, h1, h2, c16Call_unify_map cx a b hb, c16ResOpt]
  ctor0 := by
    have h1 : c16FindClass c16Expected "UnificationRecord" = some ⟨"UnificationRecord", ["UnificationRecord"]⟩ := rfl
    have h2 : c16Resolve c16Expected "UnificationRecord" "__init__" = some "UnificationRecord.__init__" := by decide
    have h3 : c16FindFn c16Expected "UnificationRecord.__init__" = some c16X_Rec_init := rfl
    simp only [c16LinkFn, h1, h2, h3, c16Init_empty]
    rfl
  ctor1 l r := by
    have h1 : c16FindClass c16Expected "UnificationRecord" = some ⟨"UnificationRecord", ["UnificationRecord"]⟩ := rfl
    have h2 : c16Resolve c16Expected "UnificationRecord" "__init__" = some "UnificationRecord.__init__" := by decide
    have h3 : c16FindFn c16Expected "UnificationRecord.__init__" = some c16X_Rec_init := rfl
    simp only [c16LinkFn, h1, h2, h3, c16Init_one]
    rfl
  ctor3 l r := by
    have h1 : c16FindClass c16Expected "UnificationRecord" = some ⟨"UnificationRecord", ["UnificationRecord"]⟩ := rfl
    have h2 : c16Resolve c16Expected "UnificationRecord" "__init__" = some "UnificationRecord.__init__" := by decide
    have h3 : c16FindFn c16Expected "UnificationRecord.__init__" = some c16X_Rec_init := rfl
    simp only [c16LinkFn, h1, h2, h3, c16Init_maps]
    rfl
  unify a b hb := by
    have h2 : c16Resolve c16Expected "UnificationRecord" "unify" = some "UnificationRecord.unify" := by decide
    have h3 : c16FindFn c16Expected "UnificationRecord.unify" = some c16X_Rec_unify := rfl
    simp only [c16LinkFn, c16CallAttr, h2, h3, c16Call_unify cands cx hs a b hb, c16ResOpt]
  unify_many v us n hv hn := by
    have h1 : c16FindClass c16Expected "unify_many" = none := rfl
    have h2 : c16FindFn c16Expected "unify_many" = some c16X_unify_many := rfl
    simp only [c16LinkFn, h1, h2, c16Call_unify_many cands cx hs v us n hv hn, c16ResOpt]
  rec_from_eq l r := by
    have h2 : c16Resolve c16Expected c16Mapper "unification_record_from_equation"
        = some "UnifierBase.unification_record_from_equation" := by decide
    have h3 : c16FindFn c16Expected "UnifierBase.unification_record_from_equation"
        = some c16X_Base_unification_record_from_equation := rfl
    simp only [c16LinkFn, c16CallAttr, h2, h3, c16Call_rec_from_eq cands cx hs ha l r, c16ResOpt]
  treat_mismatch e o v _ := by
    have h2 : c16Resolve c16Expected c16Mapper "treat_mismatch"
        = some "UnidirectionalUnifier.treat_mismatch" := by decide
    have h3 : c16FindFn c16Expected "UnidirectionalUnifier.treat_mismatch"
        = some c16X_Uni_treat_mismatch := rfl
    simp only [c16LinkFn, c16CallAttr, h2, h3, c16Call_treat_mismatch cx e o v, c16ResOpt]

/-- **The nested generators.**  If the callees mean the model's functions, then so do the nested
generator functions of the table, run with the variables of `map_commut_assoc` they see. -/
theorem c16LinkGen_spec (cands : List String) (cx : C16Ctx) (hs : C16FnSpec cands cx.fn)
    (hg : C16GenSpec cands cx.gen) : C16GenSpec cands (c16LinkGen c16Expected cx) where
  subsets cl s m := by
    have h : c16FindFn c16Expected c16N_subsets = some c16X_Uni_mca_mpv_subsets := rfl
    simp only [c16LinkGen, h, c16Gen_subsets, c16ResOpt]
  partitions cl s k := by
    have h : c16FindFn c16Expected c16N_partitions = some c16X_Uni_mca_mpv_partitions := rfl
    simp only [c16LinkGen, h, c16ResOpt,
      c16Gen_partitions cands { cx with closure := some cl } hg s k]
  match_plain cl o names nv t us ds u left hc hu := by
    have h : c16FindFn c16Expected c16N_match_plain = some c16X_Uni_mca_match_plain_var_candidates := rfl
    simp only [c16LinkGen, h, c16ResOpt,
      c16Gen_match_plain cands { cx with closure := some cl } hs hg cl rfl o names nv t us ds hc u hu left]
  match_children cl o names nv t us ds u i left hc hu := by
    have h : c16FindFn c16Expected c16N_match_children = some c16X_Uni_mca_match_children := rfl
    simp only [c16LinkGen, h, c16ResOpt,
      c16Gen_match_children cands { cx with closure := some cl } hs hg cl rfl o names nv t us ds hc u hu i left]

/-- **`map_commut_assoc`.** -/
theorem c16LinkGen_ca (cands : List String) (cx : C16Ctx) (hs : C16FnSpec cands cx.fn)
    (hg : C16GenSpec cands cx.gen) (ha : cx.selfAttrs = c16ModelAttrs cands)
    (hrec : ∀ a b vs, (∀ v ∈ vs, v.WF) → ∀ r ∈ cx.recur a b vs, r.WF) :
    C16CASpec cands cx.recur (c16LinkGen c16Expected cx) := by
  intro cl e oth cs ds uv us o he ho hus husw hsafe
  have h2 : c16Resolve c16Expected c16Mapper "map_commut_assoc"
      = some "UnidirectionalUnifier.map_commut_assoc" := by decide
  have h3 : c16FindFn c16Expected "UnidirectionalUnifier.map_commut_assoc"
      = some c16X_Uni_map_commut_assoc := rfl
  simp only [c16LinkGen, h2, h3, c16ResOpt,
    c16Gen_commut_assoc cands { cx with closure := none } hs hg ha rfl hrec e oth cs ds he ho uv us hus
      husw o hsafe]

end PV.Unify
