import PV.Model.Dispatch
/-
  C04 — helper lemmas on the dispatch model (`dispatchExpr` = first implemented MRO entry) and on
  `camelToSnake`.
-/
namespace PV

/-- Does a mapper with handler set `hs` implement the handler named by an MRO entry?  `own`: the
entry is the object's own class (for ancestors an empty name is ignored, as coded). -/
def mroImplements (hs : List String) (own : Bool) : Option String → Bool
  | some m => (own || m != "") && hs.contains m
  | none => false

/-- the handler `Mapper.__call__` should pick: the own class's handler if implemented, else the
first ancestor (MRO order) with a non-empty implemented handler name -/
def firstImplemented (hs : List String) : List (Option String) → Option String
  | [] => none
  | own :: rest =>
    if mroImplements hs true own then own else (rest.find? (mroImplements hs false)).join

def DispatchResult.ofFirst : Option String → DispatchResult
  | some m => .handler m
  | none => .unsupported

theorem dispatchAncestors_find (hs : List String) : ∀ l : List (Option String),
    dispatchExpr.dispatchAncestors hs l = DispatchResult.ofFirst (l.find? (mroImplements hs false)).join
  | [] => rfl
  | none :: rest => by
      simp [dispatchExpr.dispatchAncestors, mroImplements, dispatchAncestors_find hs rest]
  | some m :: rest => by
      simp only [dispatchExpr.dispatchAncestors, List.find?_cons, mroImplements, Bool.false_or,
        dispatchAncestors_find hs rest]
      cases h : (m != "" && hs.contains m) <;> simp [DispatchResult.ofFirst]

theorem dispatchExpr_first (hs : List String) (mro : List (Option String)) :
    dispatchExpr hs mro = DispatchResult.ofFirst (firstImplemented hs mro) := by
  cases mro with
  | nil => rfl
  | cons own rest =>
    cases own with
    | none => simp [dispatchExpr, firstImplemented, mroImplements, dispatchAncestors_find]
    | some m =>
      simp only [dispatchExpr, firstImplemented, mroImplements, Bool.true_or, Bool.true_and,
        dispatchAncestors_find]
      cases h : hs.contains m <;> simp [DispatchResult.ofFirst]

theorem ancestors_handler_iff (hs : List String) (m : String) : ∀ l : List (Option String),
    dispatchExpr.dispatchAncestors hs l = .handler m ↔
      ∃ i : Nat, l[i]? = some (some m) ∧ m ∈ hs ∧ m ≠ "" ∧
        ∀ j : Nat, j < i → ∀ m', l[j]? = some (some m') → ¬ (m' ∈ hs ∧ m' ≠ "")
  | [] => by simp [dispatchExpr.dispatchAncestors]
  | none :: rest => by
      simp only [dispatchExpr.dispatchAncestors, ancestors_handler_iff hs m rest]
      constructor
      · rintro ⟨i, h1, h2, h3, h4⟩
        refine ⟨i + 1, by simpa using h1, h2, h3, ?_⟩
        intro j hj m' hm'
        cases j with
        | zero => simp at hm'
        | succ j => exact h4 j (by omega) m' (by simpa using hm')
      · rintro ⟨i, h1, h2, h3, h4⟩
        cases i with
        | zero => simp at h1
        | succ i =>
          refine ⟨i, by simpa using h1, h2, h3, ?_⟩
          intro j hj m' hm'
          exact h4 (j + 1) (by omega) m' (by simpa using hm')
  | some a :: rest => by
      simp only [dispatchExpr.dispatchAncestors]
      by_cases ha : (a != "" && hs.contains a) = true
      · rw [if_pos ha]; simp only [DispatchResult.handler.injEq]
        simp only [Bool.and_eq_true, bne_iff_ne, ne_eq, List.contains_iff_mem] at ha
        constructor
        · rintro rfl
          exact ⟨0, by simp, ha.2, ha.1, by intro j hj; omega⟩
        · rintro ⟨i, h1, h2, h3, h4⟩
          cases i with
          | zero => simpa using h1
          | succ i => exact absurd ⟨ha.2, ha.1⟩ (h4 0 (by omega) a (by simp))
      · rw [if_neg ha, ancestors_handler_iff hs m rest]
        simp only [Bool.and_eq_true, bne_iff_ne, ne_eq, List.contains_iff_mem] at ha
        constructor
        · rintro ⟨i, h1, h2, h3, h4⟩
          refine ⟨i + 1, by simpa using h1, h2, h3, ?_⟩
          intro j hj m' hm'
          cases j with
          | zero =>
            simp at hm'; subst hm'; intro h; exact ha ⟨h.2, h.1⟩
          | succ j => exact h4 j (by omega) m' (by simpa using hm')
        · rintro ⟨i, h1, h2, h3, h4⟩
          cases i with
          | zero => simp at h1; subst h1; exact absurd ⟨h3, h2⟩ ha
          | succ i =>
            refine ⟨i, by simpa using h1, h2, h3, ?_⟩
            intro j hj m' hm'
            exact h4 (j + 1) (by omega) m' (by simpa using hm')

theorem ancestors_cases (hs : List String) : ∀ l : List (Option String),
    (∃ m, dispatchExpr.dispatchAncestors hs l = .handler m) ∨
      dispatchExpr.dispatchAncestors hs l = .unsupported
  | [] => .inr rfl
  | none :: rest => by simpa [dispatchExpr.dispatchAncestors] using ancestors_cases hs rest
  | some a :: rest => by
      simp only [dispatchExpr.dispatchAncestors]
      split
      · exact .inl ⟨a, rfl⟩
      · exact ancestors_cases hs rest

theorem dispatchExpr_handler_iff (hs : List String) (mro : List (Option String)) (m : String) :
    dispatchExpr hs mro = .handler m ↔
      ∃ i : Nat, mro[i]? = some (some m) ∧ m ∈ hs ∧ (i ≠ 0 → m ≠ "") ∧
        ∀ j : Nat, j < i → ∀ m', mro[j]? = some (some m') → ¬ (m' ∈ hs ∧ (j ≠ 0 → m' ≠ "")) := by
  cases mro with
  | nil => simp [dispatchExpr]
  | cons own rest =>
    have key : dispatchExpr.dispatchAncestors hs rest = .handler m ↔
        ∃ i : Nat, (own :: rest)[i + 1]? = some (some m) ∧ m ∈ hs ∧ m ≠ "" ∧
          ∀ j : Nat, j < i → ∀ m', (own :: rest)[j + 1]? = some (some m') →
            ¬ (m' ∈ hs ∧ m' ≠ "") := by
      simpa using ancestors_handler_iff hs m rest
    by_cases hown : ∃ a, own = some a ∧ a ∈ hs
    · obtain ⟨a, rfl, ha⟩ := hown
      have hc : hs.contains a = true := by simpa using ha
      simp only [dispatchExpr, hc, if_true, DispatchResult.handler.injEq]
      constructor
      · rintro rfl
        exact ⟨0, by simp, ha, by simp, by intro j hj; omega⟩
      · rintro ⟨i, h1, h2, h3, h4⟩
        cases i with
        | zero => simpa using h1
        | succ i => exact absurd ⟨ha, by simp⟩ (h4 0 (by omega) a (by simp))
    · have hd : dispatchExpr hs (own :: rest) = dispatchExpr.dispatchAncestors hs rest := by
        cases own with
        | none => rfl
        | some a =>
          have : hs.contains a = false := by
            cases h : hs.contains a with
            | false => rfl
            | true => exact absurd ⟨a, rfl, by simpa using h⟩ hown
          simp only [dispatchExpr]; rw [if_neg (by rw [this]; simp)]
      rw [hd, key]
      constructor
      · rintro ⟨i, h1, h2, h3, h4⟩
        refine ⟨i + 1, h1, h2, fun _ => h3, ?_⟩
        intro j hj m' hm'
        cases j with
        | zero =>
          intro h
          exact hown ⟨m', by simpa using hm', h.1⟩
        | succ j =>
          intro h
          exact h4 j (by omega) m' hm' ⟨h.1, h.2 (by omega)⟩
      · rintro ⟨i, h1, h2, h3, h4⟩
        cases i with
        | zero => exact absurd ⟨m, by simpa using h1, h2⟩ hown
        | succ i =>
          refine ⟨i, h1, h2, h3 (by omega), ?_⟩
          intro j hj m' hm' h
          exact h4 (j + 1) (by omega) m' hm' ⟨h.1, fun _ => h.2⟩

theorem dispatchExpr_cases (hs : List String) (mro : List (Option String)) :
    (∃ m, dispatchExpr hs mro = .handler m ∧ m ∈ hs ∧ some m ∈ mro) ∨
      dispatchExpr hs mro = .unsupported := by
  have hc : (∃ m, dispatchExpr hs mro = .handler m) ∨ dispatchExpr hs mro = .unsupported := by
    cases mro with
    | nil => exact .inr rfl
    | cons own rest =>
      cases own with
      | none => exact ancestors_cases hs rest
      | some a =>
        simp only [dispatchExpr]
        split
        · exact .inl ⟨a, rfl⟩
        · exact ancestors_cases hs rest
  rcases hc with ⟨m, hm⟩ | h
  · obtain ⟨i, h1, h2, -, -⟩ := (dispatchExpr_handler_iff hs mro m).1 hm
    exact .inl ⟨m, hm, h2, List.mem_of_getElem? h1⟩
  · exact .inr h

theorem dispatchExpr_unsupported_iff (hs : List String) (mro : List (Option String)) :
    dispatchExpr hs mro = .unsupported ↔
      ∀ (i : Nat) (m : String), mro[i]? = some (some m) → ¬ (m ∈ hs ∧ (i ≠ 0 → m ≠ "")) := by
  constructor
  · intro h i
    induction i using Nat.strongRecOn with
    | _ i ih =>
      intro m hm hi
      have : dispatchExpr hs mro = .handler m :=
        (dispatchExpr_handler_iff hs mro m).2 ⟨i, hm, hi.1, hi.2, fun j hj m' hm' => ih j hj m' hm'⟩
      rw [h] at this; cases this
  · intro h
    rcases dispatchExpr_cases hs mro with ⟨m, hm, -, -⟩ | h'
    · obtain ⟨i, h1, h2, h3, -⟩ := (dispatchExpr_handler_iff hs mro m).1 hm
      exact absurd ⟨h2, h3⟩ (h i m h1)
    · exact h'

/-! ### `camelToSnake` -/

theorem camelToSnakeAux_length_ge : ∀ (p : Option Char) (l : List Char),
    l.length ≤ (camelToSnakeAux p l).length
  | _, [] => by simp [camelToSnakeAux]
  | p, c :: rest => by
      have := camelToSnakeAux_length_ge (some c) rest
      have aux : ∀ (b : Bool) (t : List Char), rest.length ≤ t.length →
          (c :: rest).length ≤ ((if b then ['_', c] else [c]) ++ t).length := by
        intro b t h; cases b <;> simp <;> omega
      exact aux _ _ this

theorem camelToSnake_length_le (s : String) : s.length ≤ (camelToSnake s).length := by
  simp only [camelToSnake, String.length_ofList, List.length_map]
  simpa [String.length_toList] using camelToSnakeAux_length_ge none s.toList

theorem camelToSnakeAux_noUpper : ∀ (p : Option Char) (l : List Char),
    (∀ c ∈ l, isUpperAscii c = false) → camelToSnakeAux p l = l
  | _, [], _ => rfl
  | p, c :: rest, h => by
      have hc : isUpperAscii c = false := h c (by simp)
      have ih := camelToSnakeAux_noUpper (some c) rest (fun d hd => h d (by simp [hd]))
      simp only [camelToSnakeAux, hc, Bool.and_false, Bool.false_and, Bool.or_false, ih]
      cases p <;> simp

theorem camel_notUpper_of (c : Char) (h : ¬ (c.val ≥ 'A'.val ∧ c.val ≤ 'Z'.val)) :
    isUpperAscii c = false ∧ c.toLower = c := by
  constructor
  · simp only [isUpperAscii, Bool.and_eq_false_imp, decide_eq_true_eq, decide_eq_false_iff_not, Char.le_def]
    intro h1 h2; exact h ⟨h1, h2⟩
  · simp only [Char.toLower, dif_neg h]

theorem snakeChar_props (c : Char) (h : isLowerAscii c = true ∨ c = '_' ∨ c.isDigit = true) :
    isUpperAscii c = false ∧ c.toLower = c := by
  apply camel_notUpper_of
  rcases h with h | rfl | h
  · simp only [isLowerAscii, Bool.and_eq_true, decide_eq_true_eq, Char.le_def] at h
    have h1 := UInt32.le_iff_toNat_le.1 h.1
    intro h2
    have h3 := UInt32.le_iff_toNat_le.1 h2.2
    have : 'a'.val.toNat = 97 := by decide
    have : 'Z'.val.toNat = 90 := by decide
    omega
  · decide
  · simp only [Char.isDigit, Bool.and_eq_true, decide_eq_true_eq] at h
    have h1 := UInt32.le_iff_toNat_le.1 h.2
    intro h2
    have h3 := UInt32.le_iff_toNat_le.1 h2.1
    have : '9'.val.toNat = 57 := by decide
    have : 'A'.val.toNat = 65 := by decide
    omega

theorem camelToSnake_of_snake (s : String)
    (h : ∀ c ∈ s.toList, isLowerAscii c = true ∨ c = '_' ∨ c.isDigit = true) :
    camelToSnake s = s := by
  have h1 : camelToSnakeAux none s.toList = s.toList :=
    camelToSnakeAux_noUpper none _ (fun c hc => (snakeChar_props c (h c hc)).1)
  have h2 : s.toList.map Char.toLower = s.toList := by
    rw [List.map_congr_left (g := id) (fun c hc => (snakeChar_props c (h c hc)).2)]
    simp
  rw [camelToSnake, h1, h2, String.ofList_toList]
end PV
