import PV.Model.TravTable
import PV.Proofs.WalkSpec
import PV.Proofs.WalkCombine
import PV.Proofs.Subterm
/-
  C04 (T-gen) — the hand-written traversal models against the table-driven reading of the handlers
  (PV/Model/TravTable.lean).

  `c04WalkBody`, `c04CombineBody`, `c04IdentBody` state, per constructor of `Expr`, the handler
  shape the hand-written models `walk`, `combineL`, `substM` were written from.  This file proves
  — for ALL expressions, by case analysis on the constructor — that the models are exactly the
  table-driven step functions run on these shapes (and the only functions that are).  That the
  shapes ARE the rows of the regenerated table of the current source is the `…_resolve_current`
  family in PV/Properties/C04.lean (`rfl` against lean/PV/Generated/Traversal.lean).
-/
set_option linter.unusedSimpArgs false
namespace PV

/-! ### fields and children -/

/-- `Expr.children` is the expression content of the dataclass fields, in field order -/
theorem Expr.children_eq_c04Fields (e : Expr) :
    e.children = e.c04Fields.flatMap (fun p => p.2.exprs) := by
  cases e <;> try (simp [Expr.children, Expr.c04Fields, C04Val.exprs]; done)
  case bin o a b => cases o <;> simp [Expr.children, Expr.c04Fields, C04Val.exprs]

theorem c04Assoc_mem {α : Type} {f : String} {v : α} :
    ∀ {l : List (String × α)}, c04Assoc f l = some v → (f, v) ∈ l
  | [], h => by simp [c04Assoc] at h
  | (k, w) :: rest, h => by
    simp only [c04Assoc] at h
    split at h
    · rename_i hk
      have : k = f := by simpa using hk
      cases h; simp [this]
    · exact List.mem_cons_of_mem _ (c04Assoc_mem h)

/-- whatever a recursion site yields are direct children of the node -/
theorem c04RecChildren_sub {e : Expr} {r : C04Rec} {cs : List Expr}
    (h : c04RecChildren e r = some cs) : ∀ c ∈ cs, c ∈ e.children := by
  intro c hc
  rw [Expr.children_eq_c04Fields, List.mem_flatMap]
  unfold c04RecChildren Expr.c04Field at h
  split at h <;> simp only [Option.some.injEq, reduceCtorEq] at h
  all_goals subst h
  all_goals rename_i hf _
  · exact ⟨_, c04Assoc_mem hf, by simpa [C04Val.exprs] using hc⟩
  · exact ⟨_, c04Assoc_mem hf, by simpa [C04Val.exprs] using hc⟩
  · exact ⟨_, c04Assoc_mem hf, by simpa [C04Val.exprs] using (List.mem_filter.1 hc).1⟩
  · exact ⟨_, c04Assoc_mem hf, by simpa [C04Val.exprs] using hc⟩

/-! ### sequencing -/

theorem c04SeqL_congr {β : Type} {f g : Expr → Except DepErr (List β)} :
    ∀ {cs : List Expr}, (∀ c ∈ cs, f c = g c) → c04SeqL f cs = c04SeqL g cs
  | [], _ => rfl
  | c :: cs, h => by
    have ih : c04SeqL f cs = c04SeqL g cs :=
      c04SeqL_congr (fun d hd => h d (List.mem_cons_of_mem _ hd))
    simp only [c04SeqL, h c (by simp), ih]

theorem c04SeqSites_congr {β : Type} {f g : Bool → Expr → Except DepErr (List β)} {args : Bool}
    {e : Expr} (h : ∀ a, ∀ c ∈ e.children, f a c = g a c) :
    ∀ recs : List C04Rec, c04SeqSites f args e recs = c04SeqSites g args e recs
  | [] => rfl
  | r :: rs => by
    simp only [c04SeqSites]
    cases hr : c04RecChildren e r with
    | none => rfl
    | some cs =>
      simp only [c04SeqSites_congr h rs,
        c04SeqL_congr (fun c hc => h (args && r.fwd) c (c04RecChildren_sub hr c hc))]

theorem walkL_eq_c04SeqL (skip : List String) (args : Bool) : ∀ cs : List Expr,
    walkL skip args cs = c04SeqL (walk skip args) cs
  | [] => by simp [walkL, c04SeqL]
  | c :: cs => by simp [walkL, c04SeqL, walkL_eq_c04SeqL skip args cs]

theorem Expr.c04IsNone_eq (c : Expr) : c.c04IsNone = c.isNoneConst := by
  cases c with
  | const k => cases k <;> rfl
  | _ => rfl

theorem walkSlice_eq_c04SeqL (skip : List String) (args : Bool) : ∀ cs : List Expr,
    walkSlice skip args cs = c04SeqL (walk skip args) (cs.filter (fun c => !c.c04IsNone))
  | [] => by simp [walkSlice, c04SeqL]
  | c :: cs => by
      rw [walkSlice, walkSlice_eq_c04SeqL skip args cs, List.filter_cons, walkOpt_eq,
        Expr.c04IsNone_eq]
      cases c.isNoneConst <;> simp [c04SeqL]

/-! ### the walk mapper -/

/-- the `WalkMapper` handler shape `walk` was written from, per node -/
def c04WalkBody : Expr → Except DepErr C04Body
  | .const (.str _) => .error .foreign
  | .const .none => .error .foreign
  | .const _ => .ok (.walk .plain true [] true true)
  | .var _ => .ok (.walk .plain true [] true true)
  | .wildcard => .ok (.walk .plain true [] true true)
  | .dotWild _ => .ok (.walk .plain true [] true true)
  | .starWild _ => .ok (.walk .plain true [] true true)
  | .funcSym => .ok (.walk .plain true [] true true)
  | .nan => .ok (.walk .plain true [] true true)
  | .nary _ _ => .ok (.walk .guard true [⟨"children", .each, true⟩] true true)
  | .bin .pow _ _ => .ok (.walk .guard true [⟨"base", .one, true⟩, ⟨"exponent", .one, true⟩] true true)
  | .bin .lshift _ _ => .ok (.walk .guard true [⟨"shift", .one, true⟩, ⟨"shiftee", .one, true⟩] true true)
  | .bin .rshift _ _ => .ok (.walk .guard true [⟨"shift", .one, true⟩, ⟨"shiftee", .one, true⟩] true true)
  | .bin _ _ _ => .ok (.walk .guard true [⟨"numerator", .one, true⟩, ⟨"denominator", .one, true⟩] true true)
  | .un _ _ => .ok (.walk .guard true [⟨"child", .one, true⟩] true true)
  | .cmp _ _ _ => .ok (.walk .guard true [⟨"left", .one, true⟩, ⟨"right", .one, true⟩] true true)
  | .ite _ _ _ => .ok (.walk .guard true
      [⟨"condition", .one, true⟩, ⟨"then", .one, true⟩, ⟨"else_", .one, true⟩] true true)
  | .call _ _ => .ok (.walk .guard true [⟨"function", .one, true⟩, ⟨"parameters", .each, true⟩] true true)
  | .callKw _ _ _ _ => .ok (.walk .guard true
      [⟨"function", .one, true⟩, ⟨"parameters", .each, true⟩, ⟨"kw_parameters", .eachValue, true⟩]
      true true)
  | .subscript _ _ => .ok (.walk .guard true [⟨"aggregate", .one, true⟩, ⟨"index", .one, true⟩] true true)
  | .lookup _ _ => .ok (.walk .guard true [⟨"aggregate", .one, true⟩] true true)
  | .cse _ _ _ => .ok (.walk .guard true [⟨"child", .one, true⟩] true true)
  | .subst _ _ _ => .ok (.walk .guard true [⟨"child", .one, true⟩, ⟨"values", .each, true⟩] true true)
  | .deriv _ _ => .ok (.walk .guard true [⟨"child", .one, true⟩] true true)
  | .slice _ => .ok (.walk .guard true [⟨"children", .eachNotNone, true⟩] true true)
  | .tuple _ => .ok (.walk .guard true [⟨"", .each, true⟩] true true)
  | .list _ => .ok (.walk .guard true [⟨"", .each, true⟩] true true)

/-- recursion sites of a resolved body (none when dispatch fails) -/
def c04BodyRecs : Except DepErr C04Body → List C04Rec
  | .ok b => b.recs
  | .error _ => []

/-- `walkChildren` is what the recursion sites of the walk handler shapes yield, in order -/
theorem walkChildren_eq_recs (e : Expr) :
    c04RecsChildren e (c04BodyRecs (c04WalkBody e)) = some (walkChildren e) := by
  cases e <;> try (simp [c04WalkBody, c04BodyRecs, C04Body.recs, c04RecsChildren, c04RecChildren,
    Expr.c04Field, Expr.c04Fields, c04Assoc, c04OptSeq, walkChildren, Expr.children]; done)
  case const k => cases k <;> simp [c04WalkBody, c04BodyRecs, C04Body.recs, c04RecsChildren,
    c04OptSeq, walkChildren, Expr.children]
  case bin o a b => cases o <;> simp [c04WalkBody, c04BodyRecs, C04Body.recs, c04RecsChildren,
    c04RecChildren, Expr.c04Field, Expr.c04Fields, c04Assoc, c04OptSeq, walkChildren, BinOp.isShift]
  case slice cs =>
    simp [c04WalkBody, c04BodyRecs, C04Body.recs, c04RecsChildren, c04RecChildren,
      Expr.c04Field, Expr.c04Fields, c04Assoc, c04OptSeq, walkChildren, Expr.c04IsNone_eq]

/-- a guarded handler with full forwarding is `wrapWalk` around its recursion sites -/
theorem c04WalkStepB_guard (recs : List C04Rec) (rec : Bool → Expr → Except DepErr (List Event))
    (skip : List String) (args : Bool) (e : Expr) :
    c04WalkStepB (.ok (.walk .guard true recs true true)) rec skip args e =
      wrapWalk skip args e (c04SeqSites rec args e recs) := by
  simp only [c04WalkStepB, wrapWalk, Bool.and_true, beq_self_eq_true, Bool.true_and, if_true]
  split
  · rfl
  · cases c04SeqSites rec args e recs <;> simp [bind, Except.bind, pure, Except.pure]

/-- a leaf handler: visit, post_visit -/
theorem c04WalkStepB_leaf (rec : Bool → Expr → Except DepErr (List Event))
    (skip : List String) (args : Bool) (e : Expr) :
    c04WalkStepB (.ok (.walk .plain true [] true true)) rec skip args e = leafWalk args e := by
  simp [c04WalkStepB, leafWalk, c04SeqSites, bind, Except.bind, pure, Except.pure]

/-- **`walk` solves the table-driven equations**: a call of `walk` on any node is one handler call
of the shape `c04WalkBody` gives for the node, recursing through `walk` itself. -/
theorem walk_eq_stepB (skip : List String) (args : Bool) (e : Expr) :
    walk skip args e = c04WalkStepB (c04WalkBody e) (walk skip) skip args e := by
  cases e with
  | const k => cases k <;> simp [c04WalkBody, c04WalkStepB_leaf, walk] <;> rfl
  | var x => simp [c04WalkBody, c04WalkStepB_leaf, walk]
  | wildcard => simp [c04WalkBody, c04WalkStepB_leaf, walk]
  | dotWild n => simp [c04WalkBody, c04WalkStepB_leaf, walk]
  | starWild n => simp [c04WalkBody, c04WalkStepB_leaf, walk]
  | funcSym => simp [c04WalkBody, c04WalkStepB_leaf, walk]
  | nan => simp [c04WalkBody, c04WalkStepB_leaf, walk]
  | bin o a b =>
    cases o <;>
      simp only [c04WalkBody, c04WalkStepB_guard, walk, c04SeqSites, c04RecChildren, Expr.c04Field,
        Expr.c04Fields, c04Assoc, String.reduceBEq, ↓reduceIte, Bool.false_eq_true, c04SeqL, Bool.and_true] <;>
      congr 1 <;>
      cases walk skip args a <;> cases walk skip args b <;> simp [bind, Except.bind, pure, Except.pure]
  | nary o cs =>
    simp only [c04WalkBody, c04WalkStepB_guard, walk, c04SeqSites, c04RecChildren, Expr.c04Field,
      Expr.c04Fields, c04Assoc, String.reduceBEq, ↓reduceIte, Bool.false_eq_true, Bool.and_true, walkL_eq_c04SeqL]
    congr 1
    cases c04SeqL (walk skip args) cs <;> simp [bind, Except.bind, pure, Except.pure]
  | tuple cs =>
    simp only [c04WalkBody, c04WalkStepB_guard, walk, c04SeqSites, c04RecChildren, Expr.c04Field,
      Expr.c04Fields, c04Assoc, String.reduceBEq, ↓reduceIte, Bool.false_eq_true, Bool.and_true, walkL_eq_c04SeqL]
    congr 1
    cases c04SeqL (walk skip args) cs <;> simp [bind, Except.bind, pure, Except.pure]
  | list cs =>
    simp only [c04WalkBody, c04WalkStepB_guard, walk, c04SeqSites, c04RecChildren, Expr.c04Field,
      Expr.c04Fields, c04Assoc, String.reduceBEq, ↓reduceIte, Bool.false_eq_true, Bool.and_true, walkL_eq_c04SeqL]
    congr 1
    cases c04SeqL (walk skip args) cs <;> simp [bind, Except.bind, pure, Except.pure]
  | slice cs =>
    simp only [c04WalkBody, c04WalkStepB_guard, walk, c04SeqSites, c04RecChildren, Expr.c04Field,
      Expr.c04Fields, c04Assoc, String.reduceBEq, ↓reduceIte, Bool.false_eq_true, Bool.and_true, walkSlice_eq_c04SeqL]
    congr 1
    cases c04SeqL (walk skip args) (cs.filter fun c => !c.c04IsNone) <;> simp [bind, Except.bind, pure, Except.pure]
  | un o a =>
    simp only [c04WalkBody, c04WalkStepB_guard, walk, c04SeqSites, c04RecChildren, Expr.c04Field,
      Expr.c04Fields, c04Assoc, String.reduceBEq, ↓reduceIte, Bool.false_eq_true, c04SeqL, Bool.and_true]
    congr 1
    cases walk skip args a <;> simp [bind, Except.bind, pure, Except.pure]
  | lookup a n =>
    simp only [c04WalkBody, c04WalkStepB_guard, walk, c04SeqSites, c04RecChildren, Expr.c04Field,
      Expr.c04Fields, c04Assoc, String.reduceBEq, ↓reduceIte, Bool.false_eq_true, c04SeqL, Bool.and_true]
    congr 1
    cases walk skip args a <;> simp [bind, Except.bind, pure, Except.pure]
  | cse a p s =>
    simp only [c04WalkBody, c04WalkStepB_guard, walk, c04SeqSites, c04RecChildren, Expr.c04Field,
      Expr.c04Fields, c04Assoc, String.reduceBEq, ↓reduceIte, Bool.false_eq_true, c04SeqL, Bool.and_true]
    congr 1
    cases walk skip args a <;> simp [bind, Except.bind, pure, Except.pure]
  | deriv a vs =>
    simp only [c04WalkBody, c04WalkStepB_guard, walk, c04SeqSites, c04RecChildren, Expr.c04Field,
      Expr.c04Fields, c04Assoc, String.reduceBEq, ↓reduceIte, Bool.false_eq_true, c04SeqL, Bool.and_true]
    congr 1
    cases walk skip args a <;> simp [bind, Except.bind, pure, Except.pure]
  | cmp o a b =>
    simp only [c04WalkBody, c04WalkStepB_guard, walk, c04SeqSites, c04RecChildren, Expr.c04Field,
      Expr.c04Fields, c04Assoc, String.reduceBEq, ↓reduceIte, Bool.false_eq_true, c04SeqL, Bool.and_true]
    congr 1
    cases walk skip args a <;> cases walk skip args b <;> simp [bind, Except.bind, pure, Except.pure]
  | subscript a b =>
    simp only [c04WalkBody, c04WalkStepB_guard, walk, c04SeqSites, c04RecChildren, Expr.c04Field,
      Expr.c04Fields, c04Assoc, String.reduceBEq, ↓reduceIte, Bool.false_eq_true, c04SeqL, Bool.and_true]
    congr 1
    cases walk skip args a <;> cases walk skip args b <;> simp [bind, Except.bind, pure, Except.pure]
  | ite a b c =>
    simp only [c04WalkBody, c04WalkStepB_guard, walk, c04SeqSites, c04RecChildren, Expr.c04Field,
      Expr.c04Fields, c04Assoc, String.reduceBEq, ↓reduceIte, Bool.false_eq_true, c04SeqL, Bool.and_true]
    congr 1
    cases walk skip args a <;> cases walk skip args b <;> cases walk skip args c <;>
      simp [bind, Except.bind, pure, Except.pure]
  | call f as =>
    simp only [c04WalkBody, c04WalkStepB_guard, walk, c04SeqSites, c04RecChildren, Expr.c04Field,
      Expr.c04Fields, c04Assoc, String.reduceBEq, ↓reduceIte, Bool.false_eq_true, c04SeqL, Bool.and_true, walkL_eq_c04SeqL]
    congr 1
    cases walk skip args f <;> cases c04SeqL (walk skip args) as <;>
      simp [bind, Except.bind, pure, Except.pure]
  | subst f vs as =>
    simp only [c04WalkBody, c04WalkStepB_guard, walk, c04SeqSites, c04RecChildren, Expr.c04Field,
      Expr.c04Fields, c04Assoc, String.reduceBEq, ↓reduceIte, Bool.false_eq_true, c04SeqL, Bool.and_true, walkL_eq_c04SeqL]
    congr 1
    cases walk skip args f <;> cases c04SeqL (walk skip args) as <;>
      simp [bind, Except.bind, pure, Except.pure]
  | callKw f as ns vs =>
    simp only [c04WalkBody, c04WalkStepB_guard, walk, c04SeqSites, c04RecChildren, Expr.c04Field,
      Expr.c04Fields, c04Assoc, String.reduceBEq, ↓reduceIte, Bool.false_eq_true, c04SeqL, Bool.and_true, walkL_eq_c04SeqL]
    congr 1
    cases walk skip args f <;> cases c04SeqL (walk skip args) as <;>
      cases c04SeqL (walk skip args) vs <;> simp [bind, Except.bind, pure, Except.pure]

theorem c04WalkStepB_congr {body : Except DepErr C04Body}
    {f g : Bool → Expr → Except DepErr (List Event)} {skip : List String} {args : Bool} {e : Expr}
    (h : ∀ a, ∀ c ∈ e.children, f a c = g a c) :
    c04WalkStepB body f skip args e = c04WalkStepB body g skip args e := by
  unfold c04WalkStepB
  split <;> try rfl
  rw [c04SeqSites_congr h]

/-- **The table-driven equations have one solution.**  Whatever the handler shapes `body` are: two
functions that both run one handler call per node and recurse through themselves agree on every
tree (recursion only ever reaches direct children). -/
theorem c04Walk_unique (body : Expr → Except DepErr C04Body) (skip : List String)
    (f g : Bool → Expr → Except DepErr (List Event))
    (hf : ∀ a e, f a e = c04WalkStepB (body e) f skip a e)
    (hg : ∀ a e, g a e = c04WalkStepB (body e) g skip a e) : ∀ e a, f a e = g a e := by
  intro e
  induction e using children_induct with
  | step e ih =>
    intro a
    rw [hf, hg]
    exact c04WalkStepB_congr (fun a c hc => ih c hc a)

/-! ### the combine mapper -/

/-- the `CombineMapper` handler shape `combineL` was written from, per node; leaves (`[expr]`) are
the handlers a `Collector`-like subclass defines -/
def c04CombineBody : Expr → Except DepErr C04Body
  | .const (.str _) => .error .foreign
  | .const .none => .error .foreign
  | .const _ => .ok .same
  | .var _ => .ok .same
  | .wildcard => .ok .same
  | .dotWild _ => .ok .same
  | .starWild _ => .ok .same
  | .funcSym => .ok .same
  | .nan => .ok .raises                      -- `Mapper.map_nan` → `map_algebraic_leaf` raises
  | .slice _ => .error .unsupported          -- no handler at all
  | .subst _ _ _ => .error .unsupported
  | .deriv _ _ => .error .unsupported
  | .nary _ _ => .ok (.fold true [⟨"children", .each, true⟩])
  | .bin .pow _ _ => .ok (.fold true [⟨"base", .one, true⟩, ⟨"exponent", .one, true⟩])
  | .bin .lshift _ _ => .ok (.fold true [⟨"shiftee", .one, true⟩, ⟨"shift", .one, true⟩])
  | .bin .rshift _ _ => .ok (.fold true [⟨"shiftee", .one, true⟩, ⟨"shift", .one, true⟩])
  | .bin _ _ _ => .ok (.fold true [⟨"numerator", .one, true⟩, ⟨"denominator", .one, true⟩])
  | .un _ _ => .ok (.fold false [⟨"child", .one, true⟩])
  | .cmp _ _ _ => .ok (.fold true [⟨"left", .one, true⟩, ⟨"right", .one, true⟩])
  | .ite _ _ _ => .ok (.fold true
      [⟨"condition", .one, true⟩, ⟨"then", .one, true⟩, ⟨"else_", .one, true⟩])
  | .call _ _ => .ok (.fold true [⟨"function", .one, true⟩, ⟨"parameters", .each, true⟩])
  | .callKw _ _ _ _ => .ok (.fold true
      [⟨"function", .one, true⟩, ⟨"parameters", .each, true⟩, ⟨"kw_parameters", .eachValue, true⟩])
  | .subscript _ _ => .ok (.fold true [⟨"aggregate", .one, true⟩, ⟨"index", .one, true⟩])
  | .lookup _ _ => .ok (.fold false [⟨"aggregate", .one, true⟩])
  | .cse _ _ _ => .ok (.fold false [⟨"child", .one, true⟩])
  | .tuple _ => .ok (.fold true [⟨"", .each, true⟩])
  | .list _ => .ok (.fold true [⟨"", .each, true⟩])

theorem combineLL_eq_c04SeqL : ∀ cs : List Expr, combineLL cs = c04SeqL combineL cs
  | [] => by simp [combineLL, c04SeqL]
  | c :: cs => by simp [combineLL, c04SeqL, combineLL_eq_c04SeqL cs]

/-- every inner node with a combine handler folds ALL its direct children, in field order -/
theorem combineChildren_eq_recs (e : Expr) (hl : e.isCombineLeaf = false)
    (hu : e.combineUnhandled = false) :
    c04RecsChildren e (c04BodyRecs (c04CombineBody e)) = some e.children := by
  cases e <;> try (simp_all [c04CombineBody, c04BodyRecs, C04Body.recs, c04RecsChildren,
    c04RecChildren, Expr.c04Field, Expr.c04Fields, c04Assoc, c04OptSeq, Expr.children,
    Expr.isCombineLeaf, Expr.combineUnhandled]; done)
  case bin o a b => cases o <;> simp [c04CombineBody, c04BodyRecs, C04Body.recs, c04RecsChildren,
    c04RecChildren, Expr.c04Field, Expr.c04Fields, c04Assoc, c04OptSeq, Expr.children]

/-- **`combineL` solves the table-driven equations.** -/
theorem combineL_eq_stepB (e : Expr) :
    combineL e = c04CombineStepB (c04CombineBody e) combineL e := by
  cases e with
  | const k => cases k <;> simp [c04CombineBody, c04CombineStepB, combineL] <;> rfl
  | var x => simp [c04CombineBody, c04CombineStepB, combineL]
  | wildcard => simp [c04CombineBody, c04CombineStepB, combineL]
  | dotWild n => simp [c04CombineBody, c04CombineStepB, combineL]
  | starWild n => simp [c04CombineBody, c04CombineStepB, combineL]
  | funcSym => simp [c04CombineBody, c04CombineStepB, combineL]
  | nan => simp [c04CombineBody, c04CombineStepB, combineL]; rfl
  | slice cs => simp [c04CombineBody, c04CombineStepB, combineL]; rfl
  | subst c vs xs => simp [c04CombineBody, c04CombineStepB, combineL]; rfl
  | deriv c vs => simp [c04CombineBody, c04CombineStepB, combineL]; rfl
  | bin o a b =>
    cases o <;>
      simp only [c04CombineBody, c04CombineStepB, combineL, c04SeqSites, c04RecChildren,
        Expr.c04Field, Expr.c04Fields, c04Assoc, String.reduceBEq, ↓reduceIte, Bool.false_eq_true,
        c04SeqL, Bool.and_true] <;>
      cases combineL a <;> cases combineL b <;> simp [bind, Except.bind, pure, Except.pure]
  | nary o cs =>
    simp only [c04CombineBody, c04CombineStepB, combineL, c04SeqSites, c04RecChildren,
      Expr.c04Field, Expr.c04Fields, c04Assoc, String.reduceBEq, ↓reduceIte, Bool.and_true,
      combineLL_eq_c04SeqL]
    cases c04SeqL combineL cs <;> simp [bind, Except.bind, pure, Except.pure]
  | tuple cs =>
    simp only [c04CombineBody, c04CombineStepB, combineL, c04SeqSites, c04RecChildren,
      Expr.c04Field, Expr.c04Fields, c04Assoc, String.reduceBEq, ↓reduceIte, Bool.and_true,
      combineLL_eq_c04SeqL]
    cases c04SeqL combineL cs <;> simp [bind, Except.bind, pure, Except.pure]
  | list cs =>
    simp only [c04CombineBody, c04CombineStepB, combineL, c04SeqSites, c04RecChildren,
      Expr.c04Field, Expr.c04Fields, c04Assoc, String.reduceBEq, ↓reduceIte, Bool.and_true,
      combineLL_eq_c04SeqL]
    cases c04SeqL combineL cs <;> simp [bind, Except.bind, pure, Except.pure]
  | un o a =>
    simp only [c04CombineBody, c04CombineStepB, combineL, c04SeqSites, c04RecChildren,
      Expr.c04Field, Expr.c04Fields, c04Assoc, String.reduceBEq, ↓reduceIte, c04SeqL, Bool.and_true]
    cases combineL a <;> simp [bind, Except.bind, pure, Except.pure]
  | lookup a n =>
    simp only [c04CombineBody, c04CombineStepB, combineL, c04SeqSites, c04RecChildren,
      Expr.c04Field, Expr.c04Fields, c04Assoc, String.reduceBEq, ↓reduceIte, c04SeqL, Bool.and_true]
    cases combineL a <;> simp [bind, Except.bind, pure, Except.pure]
  | cse a p s =>
    simp only [c04CombineBody, c04CombineStepB, combineL, c04SeqSites, c04RecChildren,
      Expr.c04Field, Expr.c04Fields, c04Assoc, String.reduceBEq, ↓reduceIte, c04SeqL, Bool.and_true]
    cases combineL a <;> simp [bind, Except.bind, pure, Except.pure]
  | cmp o a b =>
    simp only [c04CombineBody, c04CombineStepB, combineL, c04SeqSites, c04RecChildren,
      Expr.c04Field, Expr.c04Fields, c04Assoc, String.reduceBEq, ↓reduceIte, Bool.false_eq_true,
      c04SeqL, Bool.and_true]
    cases combineL a <;> cases combineL b <;> simp [bind, Except.bind, pure, Except.pure]
  | subscript a b =>
    simp only [c04CombineBody, c04CombineStepB, combineL, c04SeqSites, c04RecChildren,
      Expr.c04Field, Expr.c04Fields, c04Assoc, String.reduceBEq, ↓reduceIte, Bool.false_eq_true,
      c04SeqL, Bool.and_true]
    cases combineL a <;> cases combineL b <;> simp [bind, Except.bind, pure, Except.pure]
  | ite a b c =>
    simp only [c04CombineBody, c04CombineStepB, combineL, c04SeqSites, c04RecChildren,
      Expr.c04Field, Expr.c04Fields, c04Assoc, String.reduceBEq, ↓reduceIte, Bool.false_eq_true,
      c04SeqL, Bool.and_true]
    cases combineL a <;> cases combineL b <;> cases combineL c <;>
      simp [bind, Except.bind, pure, Except.pure]
  | call f as =>
    simp only [c04CombineBody, c04CombineStepB, combineL, c04SeqSites, c04RecChildren,
      Expr.c04Field, Expr.c04Fields, c04Assoc, String.reduceBEq, ↓reduceIte, Bool.false_eq_true,
      c04SeqL, Bool.and_true, combineLL_eq_c04SeqL]
    cases combineL f <;> cases c04SeqL combineL as <;> simp [bind, Except.bind, pure, Except.pure]
  | callKw f as ns vs =>
    simp only [c04CombineBody, c04CombineStepB, combineL, c04SeqSites, c04RecChildren,
      Expr.c04Field, Expr.c04Fields, c04Assoc, String.reduceBEq, ↓reduceIte, Bool.false_eq_true,
      c04SeqL, Bool.and_true, combineLL_eq_c04SeqL]
    cases combineL f <;> cases c04SeqL combineL as <;> cases c04SeqL combineL vs <;>
      simp [bind, Except.bind, pure, Except.pure]

theorem c04CombineStepB_congr {body : Except DepErr C04Body}
    {f g : Expr → Except DepErr (List Expr)} {e : Expr} (h : ∀ c ∈ e.children, f c = g c) :
    c04CombineStepB body f e = c04CombineStepB body g e := by
  unfold c04CombineStepB
  split <;> try rfl
  exact c04SeqSites_congr (fun _ c hc => h c hc) _

theorem c04Combine_unique (body : Expr → Except DepErr C04Body)
    (f g : Expr → Except DepErr (List Expr))
    (hf : ∀ e, f e = c04CombineStepB (body e) f e)
    (hg : ∀ e, g e = c04CombineStepB (body e) g e) : ∀ e, f e = g e := by
  intro e
  induction e using children_induct with
  | step e ih =>
    rw [hf, hg]
    exact c04CombineStepB_congr ih

/-! ### the identity mapper (under `SubstitutionMapper`) -/

/-- the `IdentityMapper` handler shape `substM` was written from, per node -/
def c04IdentBody : Expr → Except DepErr C04Body
  | .const (.str _) => .error .foreign
  | .const .none => .error .foreign
  | .const _ => .ok .same
  | .var _ => .ok .same
  | .wildcard => .ok .same
  | .dotWild _ => .ok .same
  | .starWild _ => .ok .same
  | .funcSym => .ok .same
  | .nan => .ok .same
  | .nary _ _ => .ok (.rebuild [⟨"children", .each, true⟩] true ["children"] false
      (.sameClass [.rebuilt "children"] false))
  | .bin .pow _ _ => .ok (.rebuild [⟨"base", .one, true⟩, ⟨"exponent", .one, true⟩] true
      ["base", "exponent"] false (.sameClass [.rebuilt "base", .rebuilt "exponent"] false))
  | .bin .lshift _ _ => .ok (.rebuild [⟨"shiftee", .one, true⟩, ⟨"shift", .one, true⟩] true
      ["shiftee", "shift"] false (.sameClass [.rebuilt "shiftee", .rebuilt "shift"] false))
  | .bin .rshift _ _ => .ok (.rebuild [⟨"shiftee", .one, true⟩, ⟨"shift", .one, true⟩] true
      ["shiftee", "shift"] false (.sameClass [.rebuilt "shiftee", .rebuilt "shift"] false))
  | .bin _ _ _ => .ok (.rebuild [⟨"numerator", .one, true⟩, ⟨"denominator", .one, true⟩] true
      ["numerator", "denominator"] false
      (.sameClass [.rebuilt "numerator", .rebuilt "denominator"] false))
  | .un _ _ => .ok (.rebuild [⟨"child", .one, true⟩] true ["child"] false
      (.sameClass [.rebuilt "child"] false))
  | .cmp _ _ _ => .ok (.rebuild [⟨"left", .one, true⟩, ⟨"right", .one, true⟩] true
      ["left", "right"] false (.sameClass [.rebuilt "left", .copied "operator", .rebuilt "right"] false))
  | .ite _ _ _ => .ok (.rebuild
      [⟨"condition", .one, true⟩, ⟨"then", .one, true⟩, ⟨"else_", .one, true⟩] true
      ["condition", "then", "else_"] false
      (.sameClass [.rebuilt "condition", .rebuilt "then", .rebuilt "else_"] false))
  | .call _ _ => .ok (.rebuild [⟨"function", .one, true⟩, ⟨"parameters", .each, true⟩] true
      ["function", "parameters"] false (.sameClass [.rebuilt "function", .rebuilt "parameters"] false))
  | .callKw _ _ _ _ => .ok (.rebuild
      [⟨"function", .one, true⟩, ⟨"parameters", .each, true⟩, ⟨"kw_parameters", .eachValue, true⟩]
      true ["function", "parameters", "kw_parameters"] false
      (.sameClass [.rebuilt "function", .rebuilt "parameters", .rebuilt "kw_parameters"] false))
  | .subscript _ _ => .ok (.rebuild [⟨"aggregate", .one, true⟩, ⟨"index", .one, true⟩] true
      ["aggregate", "index"] false (.sameClass [.rebuilt "aggregate", .rebuilt "index"] false))
  | .lookup _ _ => .ok (.rebuild [⟨"aggregate", .one, true⟩] true ["aggregate"] false
      (.sameClass [.rebuilt "aggregate", .copied "name"] false))
  | .cse _ _ _ => .ok (.rebuild [⟨"child", .one, true⟩] true ["child"] true
      (.sameClass [.rebuilt "child", .copied "prefix", .copied "scope"] true))
  | .subst _ _ _ => .ok (.rebuild [⟨"child", .one, true⟩, ⟨"values", .each, true⟩] true
      ["child", "values"] false
      (.sameClass [.rebuilt "child", .copied "variables", .rebuilt "values"] false))
  | .deriv _ _ => .ok (.rebuild [⟨"child", .one, true⟩] true ["child"] false
      (.sameClass [.rebuilt "child", .copied "variables"] false))
  | .slice _ => .ok (.rebuild [⟨"children", .eachNotNone, true⟩] true ["children"] false
      (.sameClass [.rebuilt "children"] false))
  | .tuple _ => .ok (.rebuild [⟨"", .each, true⟩] true [""] false .pyTuple)
  | .list _ => .ok (.rebuild [⟨"", .each, true⟩] false [] false .pyList)

/-- `SubstitutionMapper` overrides the handlers of variables, subscripts and look-ups: the
substitution function is asked first -/
def c04SubstHook (σ : SubstMap) : Expr → Option Expr
  | .var x => σ.apply (.var x)
  | .subscript a i => σ.apply (.subscript a i)
  | .lookup a n => σ.apply (.lookup a n)
  | _ => none

theorem substL_eq_c04MapSeq (σ : SubstMap) : ∀ cs : List Expr,
    substL σ cs = c04MapSeq (substM σ) cs
  | [] => rfl
  | c :: cs => by simp [substL, c04MapSeq, substL_eq_c04MapSeq σ cs]

theorem substL_eq_c04MapSeq_notNone (σ : SubstMap) : ∀ cs : List Expr,
    substL σ cs = c04MapSeq (fun c => if c.c04IsNone then (c, false) else substM σ c) cs
  | [] => rfl
  | c :: cs => by
    have hc : (if c.c04IsNone then (c, false) else substM σ c) = substM σ c := by
      cases c with
      | const k => cases k <;> simp [Expr.c04IsNone, substM]
      | _ => simp [Expr.c04IsNone]
    simp [substL, c04MapSeq, hc, ← substL_eq_c04MapSeq_notNone σ cs]

/-- the children the identity mapper maps: all direct children (for a slice: `None` parts stay) -/
theorem identChildren_eq_recs (e : Expr) :
    c04RecsChildren e (c04BodyRecs (c04IdentBody e)) =
      some (match e with
        | .slice cs => cs.filter (fun c => !c.c04IsNone)
        | e => e.children) := by
  cases e <;> try (simp [c04IdentBody, c04BodyRecs, C04Body.recs, c04RecsChildren, c04RecChildren,
    Expr.c04Field, Expr.c04Fields, c04Assoc, c04OptSeq, Expr.children]; done)
  case const k => cases k <;> simp [c04IdentBody, c04BodyRecs, C04Body.recs, c04RecsChildren,
    c04OptSeq, Expr.children]
  case bin o a b => cases o <;> simp [c04IdentBody, c04BodyRecs, C04Body.recs, c04RecsChildren,
    c04RecChildren, Expr.c04Field, Expr.c04Fields, c04Assoc, c04OptSeq, Expr.children]

/-- when the substitution function answers, its answer is the result (a new object) -/
theorem substM_hook {σ : SubstMap} {e r : Expr} (h : c04SubstHook σ e = some r) :
    substM σ e = (r, true) := by
  cases e <;> simp only [c04SubstHook, reduceCtorEq] at h <;> simp [substM, h]

/-- **`substM` solves the table-driven equations** wherever the substitution function does not
answer (always, for the plain identity mapper): one `IdentityMapper` handler call of the shape
`c04IdentBody`, recursing through `substM` — children mapped in table order, the node returned
unchanged iff every field the test names is unchanged, otherwise rebuilt with the constructor
arguments in table order. -/
theorem substM_eq_stepB (σ : SubstMap) (e : Expr) (hr : e.isRejectedConst = false)
    (hh : c04SubstHook σ e = none) :
    c04IdentStepB (c04IdentBody e) (substM σ) e = some (.ok (substM σ e)) := by
  cases e with
  | const k => cases k <;> simp_all [c04IdentBody, c04IdentStepB, substM, Expr.isRejectedConst]
  | var x =>
    simp only [c04SubstHook] at hh
    simp [c04IdentBody, c04IdentStepB, substM, hh]
  | wildcard => simp [c04IdentBody, c04IdentStepB, substM]
  | dotWild n => simp [c04IdentBody, c04IdentStepB, substM]
  | starWild n => simp [c04IdentBody, c04IdentStepB, substM]
  | funcSym => simp [c04IdentBody, c04IdentStepB, substM]
  | nan => simp [c04IdentBody, c04IdentStepB, substM]
  | bin o a b =>
    cases o <;>
      simp only [c04IdentBody, c04IdentStepB, substM, c04MapRecs, c04MapRec, Expr.c04Field,
        Expr.c04Fields, c04Assoc, String.reduceBEq, ↓reduceIte, Bool.false_eq_true] <;>
      rcases substM σ a with ⟨a', ca⟩ <;> rcases substM σ b with ⟨b', cb⟩ <;>
      cases ca <;> cases cb <;>
      simp [c04Rebuild, c04OptSeq, c04ArgVal, c04Assoc, Expr.c04Construct]
  | cmp o a b =>
    simp only [c04IdentBody, c04IdentStepB, substM, c04MapRecs, c04MapRec, Expr.c04Field,
      Expr.c04Fields, c04Assoc, String.reduceBEq, ↓reduceIte, Bool.false_eq_true]
    rcases substM σ a with ⟨a', ca⟩; rcases substM σ b with ⟨b', cb⟩
    cases ca <;> cases cb <;>
      simp [c04Rebuild, c04OptSeq, c04ArgVal, c04Assoc, Expr.c04Construct, Expr.c04Field,
        Expr.c04Fields]
  | subscript a b =>
    simp only [c04SubstHook] at hh
    simp only [c04IdentBody, c04IdentStepB, substM, hh, c04MapRecs, c04MapRec, Expr.c04Field,
      Expr.c04Fields, c04Assoc, String.reduceBEq, ↓reduceIte, Bool.false_eq_true]
    rcases substM σ a with ⟨a', ca⟩; rcases substM σ b with ⟨b', cb⟩
    cases ca <;> cases cb <;>
      simp [c04Rebuild, c04OptSeq, c04ArgVal, c04Assoc, Expr.c04Construct]
  | un o a =>
    simp only [c04IdentBody, c04IdentStepB, substM, c04MapRecs, c04MapRec, Expr.c04Field,
      Expr.c04Fields, c04Assoc, String.reduceBEq, ↓reduceIte, Bool.false_eq_true]
    rcases substM σ a with ⟨a', ca⟩
    cases ca <;> simp [c04Rebuild, c04OptSeq, c04ArgVal, c04Assoc, Expr.c04Construct]
  | lookup a n =>
    simp only [c04SubstHook] at hh
    simp only [c04IdentBody, c04IdentStepB, substM, hh, c04MapRecs, c04MapRec, Expr.c04Field,
      Expr.c04Fields, c04Assoc, String.reduceBEq, ↓reduceIte, Bool.false_eq_true]
    rcases substM σ a with ⟨a', ca⟩
    cases ca <;> simp [c04Rebuild, c04OptSeq, c04ArgVal, c04Assoc, Expr.c04Construct,
      Expr.c04Field, Expr.c04Fields]
  | deriv a vs =>
    simp only [c04IdentBody, c04IdentStepB, substM, c04MapRecs, c04MapRec, Expr.c04Field,
      Expr.c04Fields, c04Assoc, String.reduceBEq, ↓reduceIte, Bool.false_eq_true]
    rcases substM σ a with ⟨a', ca⟩
    cases ca <;> simp [c04Rebuild, c04OptSeq, c04ArgVal, c04Assoc, Expr.c04Construct,
      Expr.c04Field, Expr.c04Fields]
  | cse a p s =>
    simp only [c04IdentBody, c04IdentStepB, substM, c04MapRecs, c04MapRec, Expr.c04Field,
      Expr.c04Fields, c04Assoc, String.reduceBEq, ↓reduceIte, Bool.false_eq_true]
    rcases substM σ a with ⟨a', ca⟩
    cases hz : a'.isZero <;> cases ca <;>
      simp [hz, c04Rebuild, c04OptSeq, c04ArgVal, c04Assoc, Expr.c04Construct,
        Expr.c04Field, Expr.c04Fields]
  | ite a b c =>
    simp only [c04IdentBody, c04IdentStepB, substM, c04MapRecs, c04MapRec, Expr.c04Field,
      Expr.c04Fields, c04Assoc, String.reduceBEq, ↓reduceIte, Bool.false_eq_true]
    rcases substM σ a with ⟨a', ca⟩; rcases substM σ b with ⟨b', cb⟩
    rcases substM σ c with ⟨c', cc⟩
    cases ca <;> cases cb <;> cases cc <;>
      simp [c04Rebuild, c04OptSeq, c04ArgVal, c04Assoc, Expr.c04Construct]
  | nary o cs =>
    simp only [c04IdentBody, c04IdentStepB, substM, c04MapRecs, c04MapRec, Expr.c04Field,
      Expr.c04Fields, c04Assoc, String.reduceBEq, ↓reduceIte, substL_eq_c04MapSeq]
    rcases c04MapSeq (substM σ) cs with ⟨cs', ch⟩
    cases ch <;> simp [c04Rebuild, c04OptSeq, c04ArgVal, c04Assoc, Expr.c04Construct]
  | slice cs =>
    simp only [c04IdentBody, c04IdentStepB, substM, c04MapRecs, c04MapRec, Expr.c04Field,
      Expr.c04Fields, c04Assoc, String.reduceBEq, ↓reduceIte, substL_eq_c04MapSeq_notNone σ cs]
    rcases c04MapSeq (fun c => if c.c04IsNone then (c, false) else substM σ c) cs with ⟨cs', ch⟩
    cases ch <;> simp [c04Rebuild, c04OptSeq, c04ArgVal, c04Assoc, Expr.c04Construct]
  | tuple cs =>
    simp only [c04IdentBody, c04IdentStepB, substM, c04MapRecs, c04MapRec, Expr.c04Field,
      Expr.c04Fields, c04Assoc, String.reduceBEq, ↓reduceIte, substL_eq_c04MapSeq]
    rcases c04MapSeq (substM σ) cs with ⟨cs', ch⟩
    cases ch <;> simp [c04Rebuild, c04Assoc]
  | list cs =>
    simp only [c04IdentBody, c04IdentStepB, substM, c04MapRecs, c04MapRec, Expr.c04Field,
      Expr.c04Fields, c04Assoc, String.reduceBEq, ↓reduceIte, substL_eq_c04MapSeq]
    rcases c04MapSeq (substM σ) cs with ⟨cs', ch⟩
    cases ch <;> simp [c04Rebuild, c04Assoc]
  | call f as =>
    simp only [c04IdentBody, c04IdentStepB, substM, c04MapRecs, c04MapRec, Expr.c04Field,
      Expr.c04Fields, c04Assoc, String.reduceBEq, ↓reduceIte, Bool.false_eq_true,
      substL_eq_c04MapSeq]
    rcases substM σ f with ⟨f', cf⟩; rcases c04MapSeq (substM σ) as with ⟨as', ca⟩
    cases cf <;> cases ca <;>
      simp [c04Rebuild, c04OptSeq, c04ArgVal, c04Assoc, Expr.c04Construct]
  | subst f vs as =>
    simp only [c04IdentBody, c04IdentStepB, substM, c04MapRecs, c04MapRec, Expr.c04Field,
      Expr.c04Fields, c04Assoc, String.reduceBEq, ↓reduceIte, Bool.false_eq_true,
      substL_eq_c04MapSeq]
    rcases substM σ f with ⟨f', cf⟩; rcases c04MapSeq (substM σ) as with ⟨as', ca⟩
    cases cf <;> cases ca <;>
      simp [c04Rebuild, c04OptSeq, c04ArgVal, c04Assoc, Expr.c04Construct, Expr.c04Field,
        Expr.c04Fields]
  | callKw f as ns vs =>
    simp only [c04IdentBody, c04IdentStepB, substM, c04MapRecs, c04MapRec, Expr.c04Field,
      Expr.c04Fields, c04Assoc, String.reduceBEq, ↓reduceIte, Bool.false_eq_true,
      substL_eq_c04MapSeq]
    rcases substM σ f with ⟨f', cf⟩; rcases c04MapSeq (substM σ) as with ⟨as', ca⟩
    rcases c04MapSeq (substM σ) vs with ⟨vs', cv⟩
    cases cf <;> cases ca <;> cases cv <;>
      simp [c04Rebuild, c04OptSeq, c04ArgVal, c04Assoc, Expr.c04Construct]

theorem c04MapSeq_congr {f g : Expr → Expr × Bool} :
    ∀ {cs : List Expr}, (∀ c ∈ cs, f c = g c) → c04MapSeq f cs = c04MapSeq g cs
  | [], _ => rfl
  | c :: cs, h => by
    have ih : c04MapSeq f cs = c04MapSeq g cs :=
      c04MapSeq_congr (fun d hd => h d (List.mem_cons_of_mem _ hd))
    simp only [c04MapSeq, h c (by simp), ih]

theorem c04Field_exprs_sub {e : Expr} {fld : String} {v : C04Val}
    (h : e.c04Field fld = some v) : ∀ c ∈ v.exprs, c ∈ e.children := by
  intro c hc
  rw [Expr.children_eq_c04Fields, List.mem_flatMap]
  exact ⟨_, c04Assoc_mem h, hc⟩

theorem c04MapRec_congr {f g : Expr → Expr × Bool} {e : Expr}
    (h : ∀ c ∈ e.children, f c = g c) (r : C04Rec) : c04MapRec f e r = c04MapRec g e r := by
  unfold c04MapRec
  cases hf : e.c04Field r.field with
  | none => rfl
  | some v =>
    have hsub := c04Field_exprs_sub hf
    cases v with
    | one c =>
      have : f c = g c := h c (hsub c (by simp [C04Val.exprs]))
      cases r.iter <;> simp [this]
    | many cs =>
      have h1 : c04MapSeq f cs = c04MapSeq g cs :=
        c04MapSeq_congr (fun c hc => h c (hsub c (by simpa [C04Val.exprs] using hc)))
      have h2 : c04MapSeq (fun c => if c.c04IsNone then (c, false) else f c) cs =
          c04MapSeq (fun c => if c.c04IsNone then (c, false) else g c) cs :=
        c04MapSeq_congr (fun c hc => by
          simp only [h c (hsub c (by simpa [C04Val.exprs] using hc))])
      cases r.iter <;> simp [h1, h2]
    | dict vs =>
      have h1 : c04MapSeq f vs = c04MapSeq g vs :=
        c04MapSeq_congr (fun c hc => h c (hsub c (by simpa [C04Val.exprs] using hc)))
      cases r.iter <;> simp [h1]
    | data => cases r.iter <;> rfl

theorem c04MapRecs_congr {f g : Expr → Expr × Bool} {e : Expr}
    (h : ∀ c ∈ e.children, f c = g c) :
    ∀ recs : List C04Rec, c04MapRecs f e recs = c04MapRecs g e recs
  | [] => rfl
  | r :: rs => by simp only [c04MapRecs, c04MapRec_congr h r, c04MapRecs_congr h rs]

theorem c04IdentStepB_congr {body : Except DepErr C04Body} {f g : Expr → Expr × Bool} {e : Expr}
    (h : ∀ c ∈ e.children, f c = g c) : c04IdentStepB body f e = c04IdentStepB body g e := by
  unfold c04IdentStepB
  split <;> try rfl
  rw [c04MapRecs_congr h]

/-- no string / `None` constant anywhere except as a part of a slice … spelled simply: no rejected
constant among the nodes an identity traversal reaches -/
def c04NoRejected (e : Expr) : Prop := ∀ t, Subterm t e → t.isRejectedConst = false

/-- **The identity equations have one solution** on trees free of rejected constants: any `f` that
on every such node is one table-driven `IdentityMapper` handler call recursing through `f`
coincides with any other such `g`. -/
theorem c04Ident_unique (body : Expr → Except DepErr C04Body) (f g : Expr → Expr × Bool)
    (hf : ∀ e, e.isRejectedConst = false → c04IdentStepB (body e) f e = some (.ok (f e)))
    (hg : ∀ e, e.isRejectedConst = false → c04IdentStepB (body e) g e = some (.ok (g e))) :
    ∀ e, c04NoRejected e → f e = g e := by
  intro e
  induction e using children_induct with
  | step e ih =>
    intro hn
    have h1 := hf e (hn e (.refl e))
    have h2 := hg e (hn e (.refl e))
    rw [c04IdentStepB_congr (g := g)
      (fun c hc => ih c hc (fun t ht => hn t (ht.trans (.child hc))))] at h1
    rw [h1] at h2
    simpa using h2

/-! ### whole-table checks (closed: decided on the regenerated table, unmodelled handlers included) -/

/-- a `WalkMapper` row: `visit` first and `post_visit` last, both with the extra arguments; every
recursive call forwards them; only childless handlers may ignore the answer of `visit` -/
def c04WalkRowOk : C04Body → Bool
  | .walk v vf recs post pf =>
      vf && post && pf && recs.all (·.fwd) && (v == .guard || (v == .plain && recs.isEmpty))
  | _ => true

/-- a `CombineMapper` row: every recursive call forwards the extra arguments -/
def c04FoldRowOk : C04Body → Bool
  | .fold _ recs => recs.all (·.fwd)
  | _ => true

def c04RebuiltField : C04Arg → Option String
  | .rebuilt f => some f
  | .copied _ => none

def C04Arg.field : C04Arg → String
  | .rebuilt f => f
  | .copied f => f

/-- an `IdentityMapper` row: every recursive call forwards the extra arguments; the "same object"
test (when there is one) compares exactly the mapped fields; the constructor receives exactly the
mapped fields, in the order they were mapped -/
def c04RebuildRowOk : C04Body → Bool
  | .rebuild recs sameTest checked _ ctor =>
      recs.all (·.fwd) && (!sameTest || checked == recs.map (·.field)) &&
      (match ctor with
        | .sameClass args _ => args.filterMap c04RebuiltField == recs.map (·.field)
        | _ => true)
  | _ => true

/-- for every node class whose own handler rebuilds with `type(expr)(…)`: the positional arguments
are the class's dataclass fields, in declaration order -/
def c04CtorOrderOk (classes : List C04NodeClass) (tbl : List C04Handler) : Bool :=
  classes.all fun c =>
    match c.mro.head? with
    | some (some m) =>
      match c04BodyOf tbl 4 m with
      | some (.rebuild _ _ _ _ (.sameClass args _)) => args.map C04Arg.field == c.fields
      | _ => true
    | _ => true

/-- node kinds whose `SubstitutionMapper` handler asks the substitution function first -/
def Expr.c04Hooked : Expr → Bool
  | .var _ | .subscript _ _ | .lookup _ _ => true
  | _ => false

theorem c04SubstHook_none_of_not_hooked (σ : SubstMap) {e : Expr} (h : e.c04Hooked = false) :
    c04SubstHook σ e = none := by
  cases e <;> simp_all [Expr.c04Hooked, c04SubstHook]

/-- the hook table is sound against the identity table: a hooked handler falls back to
`IdentityMapper`'s handler of the same name, or returns `expr` where that handler does too -/
def c04HooksOk (hooks : List (String × String)) (ident : List C04Handler) : Bool :=
  hooks.all fun h =>
    h.2 == "IdentityMapper." ++ h.1 ||
      (h.2 == "expr" && (match c04BodyOf ident 4 h.1 with | some .same => true | _ => false))

/-- the handler name a mapper with the handlers of `tbl` dispatches `e` to (if any) -/
def c04HandlerName (classes : List C04NodeClass) (tbl : List C04Handler) (e : Expr) :
    Option String :=
  match c04Dispatch classes (tbl.map (·.name)) e with
  | .handler n => some n
  | .foreign n => some n
  | _ => none

/-- is a node an instance of an expression class (not a foreign object / container)? -/
def Expr.c04IsNode : Expr → Bool
  | .const _ | .tuple _ | .list _ => false
  | _ => true

/-- does the way a recursion site enumerates children fit what the field is declared to hold? -/
def c04IterFits : C04Iter → String → Bool
  | .one, "one" => true
  | .each, "many" => true
  | .eachNotNone, "many" => true
  | .eachValue, "dict" => true
  | _, _ => false

/-- **Every expression-bearing field, once.**  For every node class of the current primitives
whose own handler in `tbl` recurses at all (walk / fold / rebuild rows): the fields recursed into
are exactly the fields DECLARED to hold expressions, each exactly once, each enumerated the way
its declared type demands (in any order). -/
def c04FieldsOnceOk (classes : List C04NodeClass) (tbl : List C04Handler) : Bool :=
  classes.all fun c =>
    match c.mro.head? with
    | some (some m) =>
      match c04BodyOf tbl 4 m with
      | some (.walk _ _ recs _ _) => ok c recs
      | some (.fold _ recs) => ok c recs
      | some (.rebuild recs _ _ _ _) => ok c recs
      | _ => true
    | _ => true
where
  ok (c : C04NodeClass) (recs : List C04Rec) : Bool :=
    let declared := (c.fields.zip c.kinds).filter (fun p => p.2 != "data")
    let visited := recs.map (·.field)
    visited.length == declared.length &&
      declared.all (fun p => visited.contains p.1) &&
      recs.all (fun r => declared.any (fun p => p.1 == r.field && c04IterFits r.iter p.2))

end PV
