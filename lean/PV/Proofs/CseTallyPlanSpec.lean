import PV.Proofs.CseTallyCount
/-
  C12 helper: the reference plan `c12Plan` is what its name says — "every distinct operation
  once": its members are operation subterms of the inputs, no two of them have the same
  normalised key, and every operation subterm of the inputs has the key of a member.
-/
namespace PV

mutual
/-- the operation subterms of an expression of the fragment (the node itself first) -/
def c12Ops : Expr → List Expr
  | .nary o cs => .nary o cs :: c12OpsL cs
  | .bin o a b => .bin o a b :: (c12Ops a ++ c12Ops b)
  | .call f as => .call f as :: (c12Ops f ++ c12OpsL as)
  | _ => []
def c12OpsL : List Expr → List Expr
  | [] => []
  | c :: cs => c12Ops c ++ c12OpsL cs
end

theorem mem_c12OpsL {x : Expr} : ∀ {cs : List Expr}, x ∈ c12OpsL cs ↔ ∃ c ∈ cs, x ∈ c12Ops c
  | [] => by simp [c12OpsL]
  | c :: cs => by
    simp only [c12OpsL, List.mem_append, mem_c12OpsL (cs := cs), List.mem_cons, exists_eq_or_imp]

/-- memo invariant of the reference walk -/
structure PlanInv (d : List Expr) : Prop where
  fr : ∀ s ∈ d, s.frag = true
  pw : d.Pairwise (fun a b => c12SameKey a b = false)
  cl : ∀ s ∈ d, ∀ x ∈ c12Ops s, c12Has d x = true

/-- what the walk over one expression establishes -/
def PlanOk (ops : List Expr) (bound : Nat) (d d' : List Expr) : Prop :=
  ∃ dn, d' = d ++ dn ∧ PlanInv d' ∧ (∀ s ∈ dn, s.size ≤ bound ∧ s ∈ ops) ∧
    ∀ x ∈ ops, c12Has d' x = true

theorem c12Has_mono {d : List Expr} (dn : List Expr) {x : Expr} (h : c12Has d x = true) :
    c12Has (d ++ dn) x = true := by
  rw [c12Has_append_list, h]; rfl

/-- a memo hit: nothing is added, and the operations inside `e` are all in the memo already -/
theorem planOk_hit {e : Expr} {d : List Expr} (he : e.frag = true) (hI : PlanInv d)
    (hh : c12Has d e = true) : PlanOk (c12Ops e) e.size d d := by
  refine ⟨[], by simp, hI, by simp, ?_⟩
  intro x hx
  obtain ⟨s, hsd, hk⟩ := c12Has_mem hh
  have hss := frag_simple s (hI.fr s hsd)
  have hse := frag_simple e he
  rcases keyEq_simple hss hse hk with rfl | ⟨o, cs, cs', _, rfl, rfl, hp⟩
  · exact hI.cl _ hsd x hx
  · simp only [c12Ops, List.mem_cons] at hx
    rcases hx with rfl | hx
    · exact hh
    · obtain ⟨c, hc, hxc⟩ := mem_c12OpsL.mp hx
      have hc' : c ∈ cs := hp.symm.subset hc
      exact hI.cl _ hsd x (by
        simp only [c12Ops, List.mem_cons]
        exact Or.inr (mem_c12OpsL.mpr ⟨c, hc', hxc⟩))

/-- a first visit: after the operands (`hk`), the operation itself enters the memo -/
theorem planOk_first {e : Expr} {d d2 : List Expr} {kidOps : List Expr} {kb : Nat}
    (he : e.frag = true) (hop : e.isCseOp = true) (hh : c12Has d e = false)
    (hkb : kb < e.size) (hops : ∀ x, x ∈ c12Ops e ↔ x = e ∨ x ∈ kidOps)
    (hk : PlanOk kidOps kb d d2) : PlanOk (c12Ops e) e.size d (d2 ++ [e]) := by
  obtain ⟨dn2, rfl, hI2, hsz, hall⟩ := hk
  have hse := frag_simple e he
  have hself : c12SameKey e e = true := keyEq_refl_simple hse
  refine ⟨dn2 ++ [e], by simp, ⟨?_, ?_, ?_⟩, ?_, ?_⟩
  · intro s hs
    rcases List.mem_append.mp hs with hs | hs
    · exact hI2.fr s hs
    · simp only [List.mem_singleton] at hs; subst hs; exact he
  · rw [List.pairwise_append]
    refine ⟨hI2.pw, by simp, ?_⟩
    intro a ha b hb
    simp only [List.mem_singleton] at hb; subst hb
    cases hab : c12SameKey a b with
    | false => rfl
    | true =>
      exfalso
      rcases List.mem_append.mp ha with ha' | ha'
      · have := c12Has_of_mem ha' hab
        rw [hh] at this; cases this
      · have h1 := keyEq_size (frag_simple a (hI2.fr a ha)) hse hab
        have h2 := (hsz a ha').1
        omega
  · intro s hs x hx
    rcases List.mem_append.mp hs with hs | hs
    · exact c12Has_mono _ (hI2.cl s hs x hx)
    · simp only [List.mem_singleton] at hs; subst hs
      rcases (hops x).mp hx with rfl | hx
      · rw [c12Has_append]; simp [hself]
      · exact c12Has_mono _ (hall x hx)
  · intro s hs
    rcases List.mem_append.mp hs with hs | hs
    · have := hsz s hs
      exact ⟨by omega, (hops s).mpr (Or.inr this.2)⟩
    · simp only [List.mem_singleton] at hs; subst hs
      exact ⟨Nat.le_refl _, (hops s).mpr (Or.inl rfl)⟩
  · intro x hx
    rcases (hops x).mp hx with rfl | hx
    · rw [c12Has_append]; simp [hself]
    · exact c12Has_mono _ (hall x hx)

theorem planOk_nil {d : List Expr} (b : Nat) (hI : PlanInv d) : PlanOk [] b d d :=
  ⟨[], by simp, hI, by simp, by simp⟩

theorem planOk_seq {d d1 d2 : List Expr} {o1 o2 : List Expr} {b1 b2 : Nat}
    (h1 : PlanOk o1 b1 d d1) (h2 : PlanOk o2 b2 d1 d2) : PlanOk (o1 ++ o2) (b1 + b2) d d2 := by
  obtain ⟨dn1, rfl, _, s1, a1⟩ := h1
  obtain ⟨dn2, rfl, I2, s2, a2⟩ := h2
  refine ⟨dn1 ++ dn2, by simp, I2, ?_, ?_⟩
  · intro s hs
    rcases List.mem_append.mp hs with hs | hs
    · have := s1 s hs; exact ⟨by omega, List.mem_append_left _ this.2⟩
    · have := s2 s hs; exact ⟨by omega, List.mem_append_right _ this.2⟩
  · intro x hx
    rcases List.mem_append.mp hx with hx | hx
    · exact c12Has_mono _ (a1 x hx)
    · exact a2 x hx

mutual
theorem c12Plan_ok : ∀ (e : Expr) (d : List Expr), e.frag = true → PlanInv d →
    PlanOk (c12Ops e) e.size d (c12Plan e d)
  | .const (.int n), d, _, hI => by simpa [c12Plan, c12Ops] using planOk_nil _ hI
  | .var x, d, _, hI => by simpa [c12Plan, c12Ops] using planOk_nil _ hI
  | .nary o cs, d, he, hI => by
      have hf := he
      simp only [Expr.frag, Bool.and_eq_true] at he
      have hop : (Expr.nary o cs).isCseOp = true := by
        cases o <;> simp_all [NaryOp.isComm, Expr.isCseOp]
      cases hh : c12Has d (.nary o cs) with
      | true => simpa [c12Plan, hh] using planOk_hit hf hI hh
      | false =>
        simp only [c12Plan, hh, Bool.false_eq_true, if_false]
        exact planOk_first hf hop hh (by simp only [Expr.size]; omega)
          (fun x => by simp [c12Ops]) (c12PlanL_ok cs d he.2 hI)
  | .bin o a b, d, he, hI => by
      have hf := he
      simp only [Expr.frag, Bool.and_eq_true] at he
      have hop : (Expr.bin o a b).isCseOp = true := by
        cases o <;> simp_all [BinOp.isDivPow, Expr.isCseOp]
      cases hh : c12Has d (.bin o a b) with
      | true => simpa [c12Plan, hh] using planOk_hit hf hI hh
      | false =>
        simp only [c12Plan, hh, Bool.false_eq_true, if_false]
        have h1 := c12Plan_ok a d he.1.2 hI
        have h2 := c12Plan_ok b (c12Plan a d) he.2 (by obtain ⟨_, _, i, _, _⟩ := h1; exact i)
        exact planOk_first hf hop hh (by simp only [Expr.size]; omega)
          (fun x => by simp [c12Ops]) (planOk_seq h1 h2)
  | .call f as, d, he, hI => by
      have hf := he
      simp only [Expr.frag, Bool.and_eq_true] at he
      cases hh : c12Has d (.call f as) with
      | true => simpa [c12Plan, hh] using planOk_hit hf hI hh
      | false =>
        simp only [c12Plan, hh, Bool.false_eq_true, if_false]
        have h1 := c12Plan_ok f d he.1 hI
        have h2 := c12PlanL_ok as (c12Plan f d) he.2 (by obtain ⟨_, _, i, _, _⟩ := h1; exact i)
        exact planOk_first hf rfl hh (by simp only [Expr.size]; omega)
          (fun x => by simp [c12Ops]) (planOk_seq h1 h2)
  | .const (.bool _), _, h, _ | .const (.flt ..), _, h, _ | .const (.str _), _, h, _
  | .const .none, _, h, _
  | .un .., _, h, _ | .cmp .., _, h, _ | .ite .., _, h, _ | .callKw .., _, h, _
  | .subscript .., _, h, _ | .lookup .., _, h, _ | .cse .., _, h, _ | .subst .., _, h, _
  | .deriv .., _, h, _ | .slice _, _, h, _ | .nan, _, h, _ | .wildcard, _, h, _
  | .dotWild _, _, h, _ | .starWild _, _, h, _ | .funcSym, _, h, _
  | .tuple _, _, h, _ | .list _, _, h, _ => by simp [Expr.frag] at h
theorem c12PlanL_ok : ∀ (cs : List Expr) (d : List Expr), Expr.fragL cs = true → PlanInv d →
    PlanOk (c12OpsL cs) (Expr.sizeL cs) d (c12PlanL cs d)
  | [], d, _, hI => by simpa [c12PlanL, c12OpsL, Expr.sizeL] using planOk_nil 0 hI
  | c :: cs, d, he, hI => by
      simp only [Expr.fragL, Bool.and_eq_true] at he
      have h1 := c12Plan_ok c d he.1 hI
      have h2 := c12PlanL_ok cs (c12Plan c d) he.2 (by obtain ⟨_, _, i, _, _⟩ := h1; exact i)
      simpa [c12PlanL, c12OpsL, Expr.sizeL] using planOk_seq h1 h2
end

end PV
