import PV.Proofs.ImpFuse
import Std.Data.String.ToNat
import Mathlib.Data.List.Nodup
import Mathlib.Data.List.Perm.Subperm
/-
  C20: the mirrored `UniqueNameGenerator` always finds a name (pigeonhole on the numbered
  candidates), hence fusion with it fails only with `KeyError`.
-/
namespace PV.Imp
open PV

theorem numbered_injective (base : String) {a b : Nat} (h : numbered base a = numbered base b) :
    a = b := by
  unfold numbered at h
  rw [String.append_assoc, String.append_assoc, String.append_right_inj,
    String.append_right_inj] at h
  exact Nat.repr_injective h

theorem searchName_none (ex : List String) (base : String) :
    ∀ (fuel num : Nat), searchName ex base fuel num = none →
      ∀ i, i < fuel → numbered base (num + i) ∈ ex
  | 0, _, _, i, hi => by omega
  | fuel + 1, num, h, i, hi => by
    simp only [searchName] at h
    split at h
    · rename_i hmem
      cases i with
      | zero => simpa using hmem
      | succ i =>
        have := searchName_none ex base fuel (num + 1) h i (by omega)
        rwa [show num + 1 + i = num + (i + 1) by omega] at this
    · cases h

/-- pigeonhole: among `len(existing) + 1` distinct candidates one is not taken -/
theorem searchName_some (ex : List String) (base : String) (num : Nat) :
    ∃ r, searchName ex base (ex.length + 1) num = some r := by
  cases h : searchName ex base (ex.length + 1) num with
  | some r => exact ⟨r, rfl⟩
  | none =>
    exfalso
    have hall := searchName_none ex base _ num h
    let L := (List.range (ex.length + 1)).map (fun i => numbered base (num + i))
    have hnd : L.Nodup := by
      apply List.Nodup.map _ List.nodup_range
      intro a b hab
      have := numbered_injective base hab
      omega
    have hsub : L ⊆ ex := by
      intro x hx
      obtain ⟨i, hi, rfl⟩ := List.mem_map.1 hx
      exact hall i (List.mem_range.1 hi)
    have := (hnd.subperm hsub).length_le
    simp only [L, List.length_map, List.length_range] at this
    omega

/-- **the mirrored generator never gives up** -/
theorem pyGen_total (g : GenState) (b : String) : ∃ n g', g.call b = some (n, g') := by
  unfold GenState.call
  simp only
  have hfind : ∃ r, g.find (g.baseCounter b).1 (g.baseCounter b).2 = some r := by
    cases (g.baseCounter b).2 with
    | none =>
      simp only [GenState.find]
      split
      · exact searchName_some _ _ _
      · exact ⟨_, rfl⟩
    | some c => exact searchName_some _ _ _
  obtain ⟨⟨c, name⟩, hr⟩ := hfind
  rw [hr]
  exact ⟨_, _, rfl⟩

theorem renameIds_pyGen_some : ∀ (B : List Stmt) (s : GenState) (m : List (String × String)),
    ∃ r, renameIds pyGen s B m = some r
  | [], s, m => ⟨_, rfl⟩
  | b :: rest, s, m => by
    obtain ⟨n, s', hc⟩ := pyGen_total s b.id
    obtain ⟨⟨bs, m', s''⟩, hr⟩ := renameIds_pyGen_some rest s' (assocSet m b.id n)
    simp only [renameIds]
    have : pyGen.call s b.id = some (n, s') := hc
    rw [this]
    simp only [hr]
    exact ⟨_, rfl⟩

end PV.Imp
