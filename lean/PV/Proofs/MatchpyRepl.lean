import PV.Proofs.MatchpyBridge
/-
  C16, matchpy bridge: `ToFromReplacement.__call__` hands every captured operand to the user's
  callback with its multiplicity — provided the images of the keys of a captured `Multiset` are
  pairwise different (the dict comprehension OVERWRITES the count of an equal key).
-/
namespace PV.Matchpy
open PV

/-- no earlier element is Python-equal to a later one -/
def pairwiseNe : List Expr → Bool
  | [] => true
  | x :: xs => xs.all (fun y => !x.pyEq y) && pairwiseNe xs

theorem dictSet_fresh (k : Expr) (v : Nat) : ∀ (d : List (Expr × Nat)),
    (∀ p ∈ d, p.1.pyEq k = false) → dictSet k v d = d ++ [(k, v)]
  | [], _ => rfl
  | (k', v') :: rest, h => by
    have h1 : k'.pyEq k = false := h (k', v') (by simp)
    simp only [dictSet, h1, Bool.false_eq_true, if_false, List.cons_append]
    rw [dictSet_fresh k v rest (fun p hp => h p (by simp [hp]))]

theorem pairwiseNe_append_cons {xs : List Expr} {e : Expr} {ys : List Expr}
    (h : pairwiseNe (xs ++ e :: ys) = true) :
    (∀ x ∈ xs, x.pyEq e = false) ∧ pairwiseNe ((xs ++ [e]) ++ ys) = true := by
  refine ⟨?_, by simpa [List.append_assoc] using h⟩
  induction xs with
  | nil => intro x hx; cases hx
  | cons a as ih =>
    simp only [List.cons_append, pairwiseNe, Bool.and_eq_true, List.all_eq_true] at h
    intro x hx
    rcases List.mem_cons.1 hx with rfl | hx'
    · have := h.1 e (by simp)
      simpa using this
    · exact ih h.2 x hx'

/-- with pairwise different images nothing is overwritten: the dict holds the image of every key
with the multiplicity it was captured with, in order -/
theorem convItems_distinct : ∀ (items : List (MTerm × Nat)) (acc : List (Expr × Nat))
    (es : List Expr), fromML (items.map (·.1)) = .ok es →
    pairwiseNe (acc.map (·.1) ++ es) = true →
    convItems items acc = .ok (acc ++ es.zip (items.map (·.2)))
  | [], acc, es, h, _ => by
    simp [fromML, pure, Except.pure] at h; subst h
    simp [convItems, pure, Except.pure]
  | (t, n) :: rest, acc, es, h, hd => by
    simp only [List.map_cons] at h
    obtain ⟨e, es', rfl, ht, hrest⟩ := fromML_cons h
    obtain ⟨hfresh, hd'⟩ := pairwiseNe_append_cons hd
    have hset : dictSet e n acc = acc ++ [(e, n)] :=
      dictSet_fresh e n acc (fun p hp => hfresh p.1 (List.mem_map.2 ⟨p, hp, rfl⟩))
    simp only [convItems, ht, bind, Except.bind, hset]
    have := convItems_distinct rest (acc ++ [(e, n)]) es' hrest (by simpa using hd')
    rw [this]
    simp [List.append_assoc]

theorem filter_pos_zip {es : List Expr} : ∀ {ns : List Nat}, (∀ n ∈ ns, n > 0) →
    ((es.zip ns).filter fun p => decide (p.2 > 0)) = es.zip ns := by
  intro ns h
  apply List.filter_eq_self.2
  intro p hp
  have := (List.of_mem_zip hp).2
  simpa using h p.2 this

end PV.Matchpy
