import PV.Proofs.CseValue
/-
  C12 helper: on the fragment named by the property (variables, integer constants, sums,
  products, divisions, powers, calls) the stateful mapper `cseMap` computes the same trees as the
  STATELESS function `applyTbl` that reads the final canonical table: every occurrence of an
  operation to be eliminated is replaced by the one wrapper stored under its key.
-/
namespace PV

def BinOp.isDivPow : BinOp → Bool
  | .quot | .floordiv | .rem | .pow => true
  | _ => false

mutual
/-- inputs built from variables, integer constants, sums, products, divisions, powers, calls -/
def Expr.frag : Expr → Bool
  | .const (.int _) => true
  | .var _ => true
  | .nary o cs => o.isComm && Expr.fragL cs
  | .bin o a b => o.isDivPow && a.frag && b.frag
  | .call f as => f.frag && Expr.fragL as
  | _ => false
def Expr.fragL : List Expr → Bool
  | [] => true
  | c :: cs => c.frag && Expr.fragL cs
end

mutual
theorem frag_simple : ∀ (e : Expr), e.frag = true → e.simple = true
  | .const c, h => by cases c <;> simp_all [Expr.frag, Expr.simple, Const.simple]
  | .var _, _ => by simp [Expr.simple]
  | .nary o cs, h => by
      simp only [Expr.frag, Bool.and_eq_true] at h
      simp only [Expr.simple]; exact fragL_simple cs h.2
  | .bin o a b, h => by
      simp only [Expr.frag, Bool.and_eq_true] at h
      simp [Expr.simple, frag_simple a h.1.2, frag_simple b h.2]
  | .call f as, h => by
      simp only [Expr.frag, Bool.and_eq_true] at h
      simp [Expr.simple, frag_simple f h.1, fragL_simple as h.2]
  | .un .., h | .cmp .., h | .ite .., h | .callKw .., h | .subscript .., h | .lookup .., h
  | .cse .., h | .subst .., h | .deriv .., h | .slice _, h | .nan, h | .wildcard, h
  | .dotWild _, h | .starWild _, h | .funcSym, h | .tuple _, h | .list _, h => by
      simp [Expr.frag] at h
theorem fragL_simple : ∀ (cs : List Expr), Expr.fragL cs = true → Expr.simpleL cs = true
  | [], _ => rfl
  | c :: cs, h => by
      simp only [Expr.fragL, Bool.and_eq_true] at h
      simp [Expr.simpleL, frag_simple c h.1, fragL_simple cs h.2]
end

/-- the decision of `CSEMapper.map_sum`, as a pure function of the table -/
def modeOf (elim : List CKey) (T : Tbl) (e : Expr) : OpMode :=
  if e.isCseOp && inElim elim (normalizedKey e) then
    match T.find (normalizedKey e) with
    | some w => .hit w
    | none => .miss (normalizedKey e)
  else .plain

def choose (elim : List CKey) (T : Tbl) (e rebuilt : Expr) : Expr :=
  match modeOf elim T e with
  | .hit w => w
  | .miss _ => wrapInCse rebuilt none
  | .plain => rebuilt

mutual
/-- the tagged tree read off a FIXED table: no state -/
def applyTbl (elim : List CKey) (T : Tbl) : Expr → Expr
  | .nary o cs => choose elim T (.nary o cs) (.nary o (applyTblL elim T cs))
  | .bin o a b => choose elim T (.bin o a b) (.bin o (applyTbl elim T a) (applyTbl elim T b))
  | .call f as => choose elim T (.call f as) (.call (applyTbl elim T f) (applyTblL elim T as))
  | e => e
def applyTblL (elim : List CKey) (T : Tbl) : List Expr → List Expr
  | [] => []
  | c :: cs => applyTbl elim T c :: applyTblL elim T cs
end

theorem opMode_eq (elim : List CKey) (T : Tbl) (e : Expr) (h : e.hasList = false) :
    opMode elim T e = .ok (modeOf elim T e) := by
  unfold opMode modeOf
  by_cases h1 : e.isCseOp = true
  · simp only [h1, if_true, h, Bool.false_eq_true, if_false, Bool.true_and]
    by_cases h2 : inElim elim (normalizedKey e) = true
    · simp only [h2, if_true]
      cases T.find (normalizedKey e) <;> rfl
    · simp only [h2, Bool.false_eq_true, if_false]; rfl
  · simp only [h1, Bool.false_eq_true, if_false, Bool.false_and]; rfl

/-! ### tables -/

/-- every entry of `T` is still found, unchanged, in `T'` -/
def Tbl.le (T T' : Tbl) : Prop := ∀ k w, T.find k = some w → T'.find k = some w

theorem Tbl.le_refl (T : Tbl) : T.le T := fun _ _ h => h
theorem Tbl.le_trans {A B C : Tbl} (h1 : A.le B) (h2 : B.le C) : A.le C :=
  fun k w h => h2 k w (h1 k w h)

theorem Tbl.find_none_mem {k : CKey} : ∀ {T : Tbl}, T.find k = none → ∀ p ∈ T, p.1.eq k = false
  | [], _, p, hp => by simp at hp
  | (k0, w0) :: rest, h, p, hp => by
    simp only [Tbl.find] at h
    by_cases hk : k0.eq k = true
    · simp [hk] at h
    · simp only [hk, Bool.false_eq_true, if_false] at h
      simp only [List.mem_cons] at hp
      rcases hp with rfl | hp
      · simpa using hk
      · exact Tbl.find_none_mem h p hp

theorem Tbl.set_of_find_none {k : CKey} {w : Expr} : ∀ {T : Tbl}, T.find k = none →
    Tbl.set k w T = T ++ [(k, w)]
  | [], _ => rfl
  | (k0, w0) :: rest, h => by
    simp only [Tbl.find] at h
    by_cases hk : k0.eq k = true
    · simp [hk] at h
    · simp only [hk, Bool.false_eq_true, if_false] at h
      simp only [Tbl.set, hk, Bool.false_eq_true, if_false, List.cons_append,
        Tbl.set_of_find_none h]

theorem Tbl.find_append_some {k : CKey} {w : Expr} : ∀ {T : Tbl} (X : Tbl), T.find k = some w →
    Tbl.find k (T ++ X) = some w
  | [], _, h => by simp [Tbl.find] at h
  | (k0, w0) :: rest, X, h => by
    simp only [Tbl.find, List.cons_append] at h ⊢
    by_cases hk : k0.eq k = true
    · simpa [hk] using h
    · simp only [hk, Bool.false_eq_true, if_false] at h ⊢
      exact Tbl.find_append_some X h

theorem Tbl.find_append_none {k : CKey} : ∀ {T : Tbl} (X : Tbl), T.find k = none →
    Tbl.find k (T ++ X) = Tbl.find k X
  | [], _, _ => rfl
  | (k0, w0) :: rest, X, h => by
    simp only [Tbl.find, List.cons_append] at h ⊢
    by_cases hk : k0.eq k = true
    · simp [hk] at h
    · simp only [hk, Bool.false_eq_true, if_false] at h ⊢
      exact Tbl.find_append_none X h

/-! ### key equality on simple expressions -/

theorem keyEq_refl_simple {e : Expr} (h : e.simple = true) :
    (normalizedKey e).eq (normalizedKey e) = true := by
  rcases normalizedKey_cases e with ⟨o, cs, _, rfl, k⟩ | k <;> rw [k]
  · simp only [Expr.simple] at h
    exact keyEq_of_perm_aux h (List.Perm.refl _) o
  · simp only [CKey.eq]; exact pyEq_self_simple e h

theorem keyEq_size {a b : Expr} (ha : a.simple = true) (hb : b.simple = true)
    (h : (normalizedKey a).eq (normalizedKey b) = true) : a.size = b.size := by
  rcases keyEq_simple ha hb h with rfl | ⟨o, cs, cs', _, rfl, rfl, hp⟩
  · rfl
  · simp only [Expr.size, sizeL_perm hp]

theorem keyEq_symm_simple {a b : Expr} (ha : a.simple = true) (hb : b.simple = true)
    (h : (normalizedKey a).eq (normalizedKey b) = true) :
    (normalizedKey b).eq (normalizedKey a) = true := by
  rcases normalizedKey_cases a with ⟨o, cs, ho, rfl, ka⟩ | ka <;>
    rcases normalizedKey_cases b with ⟨o', cs', ho', rfl, kb⟩ | kb <;> rw [ka, kb] at h ⊢
  · simp only [Expr.simple] at ha hb
    obtain ⟨h1, h2⟩ := kidPerm_of_keyEq ha hb h
    subst h1
    exact keyEq_of_perm_aux hb h2.symm o
  · simp [CKey.eq] at h
  · simp [CKey.eq] at h
  · simp only [CKey.eq] at h ⊢
    have := pyEq_eq_of_simple a b ha hb h
    subst this; exact h

theorem keyEq_trans_simple {a b c : Expr} (ha : a.simple = true) (hb : b.simple = true)
    (hc : c.simple = true) (h1 : (normalizedKey a).eq (normalizedKey b) = true)
    (h2 : (normalizedKey b).eq (normalizedKey c) = true) :
    (normalizedKey a).eq (normalizedKey c) = true := by
  rcases normalizedKey_cases a with ⟨o, cs, ho, rfl, ka⟩ | ka <;>
    rcases normalizedKey_cases b with ⟨o', cs', ho', rfl, kb⟩ | kb <;>
    rcases normalizedKey_cases c with ⟨o'', cs'', ho'', rfl, kc⟩ | kc <;>
    rw [ka, kb] at h1 <;> rw [kb, kc] at h2 <;> rw [ka, kc]
  · simp only [Expr.simple] at ha hb hc
    obtain ⟨e1, p1⟩ := kidPerm_of_keyEq ha hb h1
    obtain ⟨e2, p2⟩ := kidPerm_of_keyEq hb hc h2
    subst e1; subst e2
    exact keyEq_of_perm_aux ha (p1.trans p2) o
  all_goals first
    | (simp [CKey.eq] at h1; done)
    | (simp [CKey.eq] at h2; done)
    | (simp only [CKey.eq] at h1 h2 ⊢
       have e1 := pyEq_eq_of_simple _ _ ha hb h1
       subst e1; exact h2)

/-! ### the main induction on the fragment -/

/-- entries of `T'` that are not in `T` have the key of a simple expression of size ≤ `B` and
hold a prefix-less evaluation-scope wrapper directly around an operation node -/
def Added (T T' : Tbl) (B : Nat) : Prop :=
  ∀ p ∈ T', p ∈ T ∨ ((∃ e0, e0.simple = true ∧ p.1 = normalizedKey e0 ∧ e0.size ≤ B) ∧
    ∃ r, p.2 = .cse r none evalScope ∧ r.isCseOp = true)

theorem Added.refl (T : Tbl) (B : Nat) : Added T T B := fun _ hp => Or.inl hp

theorem Added.trans {A B C : Tbl} {n m k : Nat} (h1 : Added A B n) (h2 : Added B C m)
    (hn : n ≤ k) (hm : m ≤ k) : Added A C k := by
  intro p hp
  rcases h2 p hp with h | ⟨⟨e0, a, b, c⟩, hw⟩
  · rcases h1 p h with h | ⟨⟨e0, a, b, c⟩, hw⟩
    · exact Or.inl h
    · exact Or.inr ⟨⟨e0, a, b, Nat.le_trans c hn⟩, hw⟩
  · exact Or.inr ⟨⟨e0, a, b, Nat.le_trans c hm⟩, hw⟩

/-- what the three operation cases share once the operands have been mapped -/
theorem finish_frag (elim : List CKey) {T T2 : Tbl} {e r : Expr} {B : Nat}
    (hs : e.simple = true) (hr : r.isCseOp = true) (hle : T.le T2) (hadd : Added T T2 B)
    (hB : B < e.size) (hm : ∀ w, modeOf elim T e ≠ .hit w) :
    T.le (finishOp (modeOf elim T e) r T2).2 ∧ Added T (finishOp (modeOf elim T e) r T2).2 e.size ∧
    (∀ T'', (finishOp (modeOf elim T e) r T2).2.le T'' →
      T2.le T'' ∧ choose elim T'' e r = (finishOp (modeOf elim T e) r T2).1) := by
  unfold modeOf at hm ⊢
  by_cases h1 : (e.isCseOp && inElim elim (normalizedKey e)) = true
  · simp only [h1, if_true] at hm ⊢
    cases hf : T.find (normalizedKey e) with
    | some w => simp only [hf] at hm; exact absurd rfl (hm w)
    | none =>
      simp only [finishOp]
      -- the key was not added while the operands were mapped
      have hf2 : T2.find (normalizedKey e) = none := by
        cases hf2 : T2.find (normalizedKey e) with
        | none => rfl
        | some w2 =>
          exfalso
          obtain ⟨k', hmem, hk⟩ := Tbl.find_some hf2
          rcases hadd (k', w2) hmem with hold | ⟨⟨e0, hs0, hk0, hsz⟩, _⟩
          · have := Tbl.find_none_mem hf (k', w2) hold
            simp only at this; rw [hk] at this; cases this
          · simp only at hk0; subst hk0
            have := keyEq_size hs0 hs hk
            omega
      rw [Tbl.set_of_find_none hf2]
      refine ⟨?_, ?_, ?_⟩
      · intro k w hk
        exact Tbl.find_append_some _ (hle k w hk)
      · intro p hp
        rcases List.mem_append.mp hp with hp | hp
        · rcases hadd p hp with h | ⟨⟨e0, a, b, c⟩, hw⟩
          · exact Or.inl h
          · exact Or.inr ⟨⟨e0, a, b, by omega⟩, hw⟩
        · simp only [List.mem_singleton] at hp
          subst hp
          refine Or.inr ⟨⟨e, hs, rfl, Nat.le_refl _⟩, r, ?_, hr⟩
          cases r <;> simp_all [wrapInCse, Expr.isCseOp]
      · intro T'' hle''
        refine ⟨fun k w hk => hle'' k w (Tbl.find_append_some _ hk), ?_⟩
        have : T''.find (normalizedKey e) = some (wrapInCse r none) := by
          apply hle''
          rw [Tbl.find_append_none _ hf2]
          simp [Tbl.find, keyEq_refl_simple hs]
        simp only [choose, modeOf, h1, if_true, this]
  · simp only [h1, Bool.false_eq_true, if_false, finishOp]
    refine ⟨hle, ?_, ?_⟩
    · intro p hp
      rcases hadd p hp with h | ⟨⟨e0, a, b, c⟩, hw⟩
      · exact Or.inl h
      · exact Or.inr ⟨⟨e0, a, b, by omega⟩, hw⟩
    · intro T'' hle''
      exact ⟨hle'', by simp only [choose, modeOf, h1, Bool.false_eq_true, if_false]⟩

theorem hit_frag (elim : List CKey) {T : Tbl} {e w r : Expr} (hm : modeOf elim T e = .hit w) :
    ∀ T'', T.le T'' → choose elim T'' e r = w := by
  intro T'' hle
  unfold modeOf at hm
  by_cases h1 : (e.isCseOp && inElim elim (normalizedKey e)) = true
  · simp only [h1, if_true] at hm
    cases hf : T.find (normalizedKey e) with
    | none => simp [hf] at hm
    | some w' =>
      simp only [hf] at hm
      injection hm with hm; subst hm
      simp only [choose, modeOf, h1, if_true, hle _ _ hf]
  · simp [h1] at hm

mutual
theorem cseMap_frag (elim : List CKey) : ∀ (e : Expr) (T : Tbl), e.frag = true →
    ∃ e' T', cseMap elim e T = .ok (e', T') ∧ T.le T' ∧ Added T T' e.size ∧
      ∀ T'', T'.le T'' → applyTbl elim T'' e = e'
  | .const (.int n), T, _ =>
      ⟨_, T, rfl, Tbl.le_refl T, Added.refl T _, fun _ _ => rfl⟩
  | .var x, T, _ => ⟨_, T, rfl, Tbl.le_refl T, Added.refl T _, fun _ _ => rfl⟩
  | .nary o cs, T, h => by
      have hs := frag_simple _ h
      have hl := simple_nolist _ hs
      simp only [Expr.frag, Bool.and_eq_true] at h
      have hop : ∀ cs', (Expr.nary o cs').isCseOp = true := by
        intro cs'; cases o <;> simp_all [NaryOp.isComm, Expr.isCseOp]
      obtain ⟨cs', T1, h1, le1, ad1, ap1⟩ := cseMapL_frag elim cs T h.2
      simp only [cseMap, opMode_eq elim T _ hl]
      cases hm : modeOf elim T (.nary o cs) with
      | hit w =>
        exact ⟨w, T, rfl, Tbl.le_refl T, Added.refl T _, fun T'' hle => by
          simp only [applyTbl]; exact hit_frag elim hm T'' hle⟩
      | plain =>
        have hnh : ∀ w, modeOf elim T (.nary o cs) ≠ .hit w := by rw [hm]; intro w hw; cases hw
        obtain ⟨f1, f2, f3⟩ := finish_frag elim (r := .nary o cs') hs (hop cs') le1 ad1
          (by simp only [Expr.size]; omega) hnh
        rw [hm] at f1 f2 f3
        refine ⟨_, _, by simp [bind, Except.bind, h1, pure, Except.pure]; rfl, f1, f2, ?_⟩
        intro T'' hle
        obtain ⟨g1, g2⟩ := f3 T'' hle
        simp only [applyTbl, ap1 T'' g1]; exact g2
      | miss k =>
        have hnh : ∀ w, modeOf elim T (.nary o cs) ≠ .hit w := by rw [hm]; intro w hw; cases hw
        obtain ⟨f1, f2, f3⟩ := finish_frag elim (r := .nary o cs') hs (hop cs') le1 ad1
          (by simp only [Expr.size]; omega) hnh
        rw [hm] at f1 f2 f3
        refine ⟨_, _, by simp [bind, Except.bind, h1, pure, Except.pure]; rfl, f1, f2, ?_⟩
        intro T'' hle
        obtain ⟨g1, g2⟩ := f3 T'' hle
        simp only [applyTbl, ap1 T'' g1]; exact g2
  | .bin o a b, T, h => by
      have hs := frag_simple _ h
      have hl := simple_nolist _ hs
      simp only [Expr.frag, Bool.and_eq_true] at h
      have hop : ∀ a' b', (Expr.bin o a' b').isCseOp = true := by
        intro a' b'; cases o <;> simp_all [BinOp.isDivPow, Expr.isCseOp]
      obtain ⟨a', T1, h1, le1, ad1, ap1⟩ := cseMap_frag elim a T h.1.2
      obtain ⟨b', T2, h2, le2, ad2, ap2⟩ := cseMap_frag elim b T1 h.2
      have le12 := Tbl.le_trans le1 le2
      have ad12 : Added T T2 (a.size + b.size) := Added.trans ad1 ad2 (by omega) (by omega)
      simp only [cseMap, opMode_eq elim T _ hl]
      cases hm : modeOf elim T (.bin o a b) with
      | hit w =>
        exact ⟨w, T, rfl, Tbl.le_refl T, Added.refl T _, fun T'' hle => by
          simp only [applyTbl]; exact hit_frag elim hm T'' hle⟩
      | plain =>
        have hnh : ∀ w, modeOf elim T (.bin o a b) ≠ .hit w := by rw [hm]; intro w hw; cases hw
        obtain ⟨f1, f2, f3⟩ := finish_frag elim (r := .bin o a' b') hs (hop a' b') le12 ad12
          (by simp only [Expr.size]; omega) hnh
        rw [hm] at f1 f2 f3
        refine ⟨_, _, by simp [bind, Except.bind, h1, h2, pure, Except.pure]; rfl, f1, f2, ?_⟩
        intro T'' hle
        obtain ⟨g1, g2⟩ := f3 T'' hle
        simp only [applyTbl, ap1 T'' (Tbl.le_trans le2 g1), ap2 T'' g1]; exact g2
      | miss k =>
        have hnh : ∀ w, modeOf elim T (.bin o a b) ≠ .hit w := by rw [hm]; intro w hw; cases hw
        obtain ⟨f1, f2, f3⟩ := finish_frag elim (r := .bin o a' b') hs (hop a' b') le12 ad12
          (by simp only [Expr.size]; omega) hnh
        rw [hm] at f1 f2 f3
        refine ⟨_, _, by simp [bind, Except.bind, h1, h2, pure, Except.pure]; rfl, f1, f2, ?_⟩
        intro T'' hle
        obtain ⟨g1, g2⟩ := f3 T'' hle
        simp only [applyTbl, ap1 T'' (Tbl.le_trans le2 g1), ap2 T'' g1]; exact g2
  | .call f as, T, h => by
      have hs := frag_simple _ h
      have hl := simple_nolist _ hs
      simp only [Expr.frag, Bool.and_eq_true] at h
      obtain ⟨f', T1, h1, le1, ad1, ap1⟩ := cseMap_frag elim f T h.1
      obtain ⟨as', T2, h2, le2, ad2, ap2⟩ := cseMapL_frag elim as T1 h.2
      have le12 := Tbl.le_trans le1 le2
      have ad12 : Added T T2 (f.size + Expr.sizeL as) := Added.trans ad1 ad2 (by omega) (by omega)
      simp only [cseMap, opMode_eq elim T _ hl]
      cases hm : modeOf elim T (.call f as) with
      | hit w =>
        exact ⟨w, T, rfl, Tbl.le_refl T, Added.refl T _, fun T'' hle => by
          simp only [applyTbl]; exact hit_frag elim hm T'' hle⟩
      | plain =>
        have hnh : ∀ w, modeOf elim T (.call f as) ≠ .hit w := by rw [hm]; intro w hw; cases hw
        obtain ⟨f1, f2, f3⟩ := finish_frag elim (r := .call f' as') hs (by rfl) le12 ad12
          (by simp only [Expr.size]; omega) hnh
        rw [hm] at f1 f2 f3
        refine ⟨_, _, by simp [bind, Except.bind, h1, h2, pure, Except.pure]; rfl, f1, f2, ?_⟩
        intro T'' hle
        obtain ⟨g1, g2⟩ := f3 T'' hle
        simp only [applyTbl, ap1 T'' (Tbl.le_trans le2 g1), ap2 T'' g1]; exact g2
      | miss k =>
        have hnh : ∀ w, modeOf elim T (.call f as) ≠ .hit w := by rw [hm]; intro w hw; cases hw
        obtain ⟨f1, f2, f3⟩ := finish_frag elim (r := .call f' as') hs (by rfl) le12 ad12
          (by simp only [Expr.size]; omega) hnh
        rw [hm] at f1 f2 f3
        refine ⟨_, _, by simp [bind, Except.bind, h1, h2, pure, Except.pure]; rfl, f1, f2, ?_⟩
        intro T'' hle
        obtain ⟨g1, g2⟩ := f3 T'' hle
        simp only [applyTbl, ap1 T'' (Tbl.le_trans le2 g1), ap2 T'' g1]; exact g2
  | .const (.bool _), _, h | .const (.flt ..), _, h | .const (.str _), _, h | .const .none, _, h
  | .un .., _, h | .cmp .., _, h | .ite .., _, h | .callKw .., _, h | .subscript .., _, h
  | .lookup .., _, h | .cse .., _, h | .subst .., _, h | .deriv .., _, h | .slice _, _, h
  | .nan, _, h | .wildcard, _, h | .dotWild _, _, h | .starWild _, _, h | .funcSym, _, h
  | .tuple _, _, h | .list _, _, h => by simp [Expr.frag] at h
theorem cseMapL_frag (elim : List CKey) : ∀ (cs : List Expr) (T : Tbl), Expr.fragL cs = true →
    ∃ cs' T', cseMapL elim cs T = .ok (cs', T') ∧ T.le T' ∧ Added T T' (Expr.sizeL cs) ∧
      ∀ T'', T'.le T'' → applyTblL elim T'' cs = cs'
  | [], T, _ => ⟨[], T, rfl, Tbl.le_refl T, Added.refl T _, fun _ _ => rfl⟩
  | c :: cs, T, h => by
      simp only [Expr.fragL, Bool.and_eq_true] at h
      obtain ⟨c', T1, h1, le1, ad1, ap1⟩ := cseMap_frag elim c T h.1
      obtain ⟨cs', T2, h2, le2, ad2, ap2⟩ := cseMapL_frag elim cs T1 h.2
      refine ⟨c' :: cs', T2, by simp [cseMapL, bind, Except.bind, h1, h2, pure, Except.pure],
        Tbl.le_trans le1 le2,
        Added.trans ad1 ad2 (by simp only [Expr.sizeL]; omega) (by simp only [Expr.sizeL]; omega), ?_⟩
      intro T'' hle
      simp only [applyTblL, ap1 T'' (Tbl.le_trans le2 hle), ap2 T'' hle]
end

/-- all keys of a table built from the empty table are keys of simple expressions -/
def TblKeys (T : Tbl) : Prop := ∀ p ∈ T, ∃ e0, e0.simple = true ∧ p.1 = normalizedKey e0

theorem tblKeys_of_added {T : Tbl} {B : Nat} (h : Added [] T B) : TblKeys T := by
  intro p hp
  rcases h p hp with h | ⟨⟨e0, a, b, _⟩, _⟩
  · simp at h
  · exact ⟨e0, a, b⟩

/-- looking up Python-equal keys of simple expressions gives the same answer -/
theorem Tbl.find_congr {a b : Expr} (ha : a.simple = true) (hb : b.simple = true)
    (h : (normalizedKey a).eq (normalizedKey b) = true) : ∀ {T : Tbl}, TblKeys T →
      T.find (normalizedKey a) = T.find (normalizedKey b)
  | [], _ => rfl
  | (k0, w0) :: rest, hT => by
    obtain ⟨e0, hs0, hk0⟩ := hT (k0, w0) (by simp)
    simp only at hk0; subst hk0
    have ih := Tbl.find_congr ha hb h (T := rest) (fun p hp => hT p (by simp [hp]))
    simp only [Tbl.find]
    by_cases h1 : (normalizedKey e0).eq (normalizedKey a) = true
    · have h2 := keyEq_trans_simple hs0 ha hb h1 h
      simp [h1, h2]
    · have h2 : ¬ (normalizedKey e0).eq (normalizedKey b) = true := by
        intro h2
        exact h1 (keyEq_trans_simple hs0 hb ha h2 (keyEq_symm_simple ha hb h))
      simp [h1, h2, ih]

end PV
