import PV.Model.Ops
import PV.Model.Eval
import Mathlib.Data.Rat.Floor
import Mathlib.Tactic.Ring
/-
  C03 helper lemmas: value-level specifications of Python arithmetic on the exact numeric
  fragment (int / bool / Fraction) and soundness of the construction-time shortcuts of
  `pymbolic.primitives.Expression.__add__` & co. with respect to the denotation `den`.
-/
namespace PV

/-! ### The numeric view of a value: its rational value and whether it is a `Fraction` -/

/-- rational value and "is a Fraction" flag of an exact numeric value -/
def Value.view : Value → Option (Rat × Bool)
  | .int n => some ((n : Rat), false)
  | .bool b => some (((if b then 1 else 0 : Int) : Rat), false)
  | .frac q => some (q, true)
  | _ => Option.none

theorem view_cases {v : Value} {q : Rat} {f : Bool} (h : v.view = some (q, f)) :
    (∃ n : Int, v = .int n ∧ q = (n : Rat) ∧ f = false) ∨
    (∃ b : Bool, v = .bool b ∧ q = ((if b then 1 else 0 : Int) : Rat) ∧ f = false) ∨
    (v = .frac q ∧ f = true) := by
  cases v <;> simp only [Value.view, Option.some.injEq, Prod.mk.injEq, reduceCtorEq] at h
  · obtain ⟨rfl, rfl⟩ := h; exact Or.inl ⟨_, rfl, rfl, rfl⟩
  · obtain ⟨rfl, rfl⟩ := h; exact Or.inr (Or.inl ⟨_, rfl, rfl, rfl⟩)
  · obtain ⟨rfl, rfl⟩ := h; exact Or.inr (Or.inr ⟨rfl, rfl⟩)

/-- the `Num` of a viewed value -/
theorem view_num {v : Value} {q : Rat} {f : Bool} (h : v.view = some (q, f)) :
    ∃ x, v.num? = some x ∧ x.toRat = q ∧ v.isInexact = false ∧ v.isSeq = false ∧
      (f = false → ∃ n : Int, x = .i n) ∧ (f = true → x = .q q) := by
  rcases view_cases h with ⟨n, rfl, rfl, rfl⟩ | ⟨b, rfl, rfl, rfl⟩ | ⟨rfl, rfl⟩
  · exact ⟨.i n, rfl, rfl, rfl, rfl, fun _ => ⟨_, rfl⟩, by simp⟩
  · exact ⟨.i (if b then 1 else 0), rfl, rfl, rfl, rfl, fun _ => ⟨_, rfl⟩, by simp⟩
  · exact ⟨.q q, rfl, rfl, rfl, rfl, by simp, fun _ => rfl⟩

theorem num_view {v : Value} {x : Num} (h : v.num? = some x) :
    ∃ f, v.view = some (x.toRat, f) ∧ (f = false → ∃ n : Int, x = .i n) ∧ (f = true → ∃ q, x = .q q) := by
  cases v <;> simp [Value.num?] at h
  · subst h; exact ⟨false, rfl, fun _ => ⟨_, rfl⟩, by simp⟩
  · subst h; exact ⟨false, rfl, fun _ => ⟨_, rfl⟩, by simp⟩
  · subst h; exact ⟨true, rfl, by simp, fun _ => ⟨_, rfl⟩⟩

/-- a successful `arith` has numeric operands -/
theorem arith_ok {f : Num → Num → R} {a b v : Value} (h : arith f a b = .ok v) :
    ∃ x y, a.num? = some x ∧ b.num? = some y ∧ f x y = .ok v := by
  unfold arith at h
  split at h
  · cases h
  · split at h
    · cases h
    · split at h
      · rename_i x y hx hy; exact ⟨x, y, hx, hy, h⟩
      · cases h

theorem arith_num {f : Num → Num → R} {a b : Value} {x y : Num}
    (ha : a.num? = some x) (hb : b.num? = some y) : arith f a b = f x y := by
  have hai : a.isInexact = false := by cases a <;> simp [Value.num?] at ha <;> rfl
  have hbi : b.isInexact = false := by cases b <;> simp [Value.num?] at hb <;> rfl
  have has : a.isSeq = false := by cases a <;> simp [Value.num?] at ha <;> rfl
  have hbs : b.isSeq = false := by cases b <;> simp [Value.num?] at hb <;> rfl
  simp [arith, hai, hbi, has, hbs, ha, hb]

def Num.isQ : Num → Bool
  | .i _ => false
  | .q _ => true

theorem view_eq_num (v : Value) : v.view = v.num?.map (fun x => (x.toRat, x.isQ)) := by
  cases v <;> rfl

theorem view_iff_num {v : Value} {q : Rat} {f : Bool} :
    v.view = some (q, f) ↔ ∃ x, v.num? = some x ∧ x.toRat = q ∧ x.isQ = f := by
  rw [view_eq_num]
  cases v.num? <;> simp

theorem num_some_view {v : Value} {x : Num} (h : v.num? = some x) :
    v.view = some (x.toRat, x.isQ) := by rw [view_eq_num, h]; rfl

/-! ### Specifications of the total operators on numeric values -/

theorem add_spec {a b : Value} {qa qb : Rat} {fa fb : Bool}
    (ha : a.view = some (qa, fa)) (hb : b.view = some (qb, fb)) :
    ∃ r, Value.add a b = .ok r ∧ r.view = some (qa + qb, fa || fb) := by
  obtain ⟨x, hx, rfl, rfl⟩ := view_iff_num.1 ha
  obtain ⟨y, hy, rfl, rfl⟩ := view_iff_num.1 hb
  rw [Value.add, arith_num hx hy]
  cases x <;> cases y <;> simp [addN, Value.view, Num.toRat, Num.isQ, pure, Except.pure]

theorem sub_spec {a b : Value} {qa qb : Rat} {fa fb : Bool}
    (ha : a.view = some (qa, fa)) (hb : b.view = some (qb, fb)) :
    ∃ r, Value.sub a b = .ok r ∧ r.view = some (qa - qb, fa || fb) := by
  obtain ⟨x, hx, rfl, rfl⟩ := view_iff_num.1 ha
  obtain ⟨y, hy, rfl, rfl⟩ := view_iff_num.1 hb
  rw [Value.sub, arith_num hx hy]
  cases x <;> cases y <;> simp [subN, Value.view, Num.toRat, Num.isQ, pure, Except.pure]

theorem mul_spec {a b : Value} {qa qb : Rat} {fa fb : Bool}
    (ha : a.view = some (qa, fa)) (hb : b.view = some (qb, fb)) :
    ∃ r, Value.mul a b = .ok r ∧ r.view = some (qa * qb, fa || fb) := by
  obtain ⟨x, hx, rfl, rfl⟩ := view_iff_num.1 ha
  obtain ⟨y, hy, rfl, rfl⟩ := view_iff_num.1 hb
  rw [Value.mul, arith_num hx hy]
  cases x <;> cases y <;> simp [mulN, Value.view, Num.toRat, Num.isQ, pure, Except.pure]

/-- operands of a successful arithmetic operation are numeric -/
theorem arith_ok_view {f : Num → Num → R} {a b v : Value} (h : arith f a b = .ok v) :
    ∃ x y, a.num? = some x ∧ b.num? = some y ∧ f x y = .ok v ∧
      a.view = some (x.toRat, x.isQ) ∧ b.view = some (y.toRat, y.isQ) := by
  obtain ⟨x, y, hx, hy, hf⟩ := arith_ok h
  exact ⟨x, y, hx, hy, hf, num_some_view hx, num_some_view hy⟩

/-! ### Python `==` on numeric values, the refinement relation -/

theorem pyEq_of_view {w v : Value} {q q' : Rat} {fw fv : Bool}
    (hw : w.view = some (q, fw)) (hv : v.view = some (q', fv)) : w.pyEq v = (q == q') := by
  rcases view_cases hw with ⟨n, rfl, rfl, rfl⟩ | ⟨b, rfl, rfl, rfl⟩ | ⟨rfl, rfl⟩ <;>
  rcases view_cases hv with ⟨m, rfl, rfl, rfl⟩ | ⟨c, rfl, rfl, rfl⟩ | ⟨rfl, rfl⟩ <;>
  simp [Value.pyEq, Value.num?, Num.toRat]

/-- `w` (value of the constructed tree) refines `v` (value of the plain computation): both are
the same float-abstraction, or both are exact numbers with the same rational value, and `w` is a
`Fraction` only if `v` is one (the shortcuts `x*0 → 0`, `x**0 → 1` may turn a Fraction into an int,
never the other way round). -/
def Refines (w v : Value) : Prop :=
  (w = .inexact ∧ v = .inexact) ∨
  ∃ q fw fv, w.view = some (q, fw) ∧ v.view = some (q, fv) ∧ (fw = true → fv = true)

theorem Refines.pyEq {w v : Value} (h : Refines w v) : w.pyEq v = true := by
  rcases h with ⟨rfl, rfl⟩ | ⟨q, fw, fv, hw, hv, _⟩
  · simp [Value.pyEq]
  · rw [pyEq_of_view hw hv]; simp

theorem Refines.of_view {w v : Value} {q : Rat} {fw fv : Bool}
    (hw : w.view = some (q, fw)) (hv : v.view = some (q, fv)) (h : fw = true → fv = true) :
    Refines w v := Or.inr ⟨q, fw, fv, hw, hv, h⟩

theorem Refines.refl_view {v : Value} {q : Rat} {f : Bool} (hv : v.view = some (q, f)) :
    Refines v v := Refines.of_view hv hv id

theorem Refines.trans {a b c : Value} (h1 : Refines a b) (h2 : Refines b c) : Refines a c := by
  rcases h1 with ⟨rfl, rfl⟩ | ⟨q, f1, f2, ha, hb, h12⟩
  · exact h2
  · rcases h2 with ⟨rfl, rfl⟩ | ⟨q', f2', f3, hb', hc, h23⟩
    · simp [Value.view] at hb
    · rw [hb] at hb'
      simp only [Option.some.injEq, Prod.mk.injEq] at hb'
      obtain ⟨rfl, rfl⟩ := hb'
      exact Refines.of_view ha hc (fun h => h23 (h12 h))

theorem pyEq_zero_iff {v : Value} : v.pyEq (.int 0) = true ↔ ∃ f, v.view = some (0, f) := by
  constructor
  · intro h
    cases v <;> simp [Value.pyEq, Value.num?, Num.toRat] at h
    · subst h; exact ⟨false, by simp [Value.view]⟩
    · subst h; exact ⟨false, by simp [Value.view]⟩
    · subst h; exact ⟨true, by simp [Value.view]⟩
  · rintro ⟨f, h⟩
    rw [pyEq_of_view h (show (Value.int 0).view = some (0, false) by simp [Value.view])]
    simp

/-! ### n-ary folds: the value of `Sum`/`Product` children lists -/

/-- the combined view of a list of operands (`g` = rational operation, `z` = neutral element) -/
def listView (env : Env) (g : Rat → Rat → Rat) (z : Rat) : List Expr → Option (Rat × Bool)
  | [] => some (z, false)
  | c :: cs => match den env c with
    | .ok v => match v.view, listView env g z cs with
       | some (q, f), some (q', f') => some (g q q', f || f')
       | _, _ => Option.none
    | _ => Option.none

structure FoldSpec (o : NaryOp) (g : Rat → Rat → Rat) (z : Rat) : Prop where
  spec : ∀ {a b : Value} {qa qb : Rat} {fa fb : Bool}, a.view = some (qa, fa) →
    b.view = some (qb, fb) → ∃ r, o.apply a b = .ok r ∧ r.view = some (g qa qb, fa || fb)
  numeric : ∀ {a b r : Value}, o.apply a b = .ok r →
    ∃ qa fa qb fb, a.view = some (qa, fa) ∧ b.view = some (qb, fb)
  assoc : ∀ a b c, g (g a b) c = g a (g b c)
  right_id : ∀ a, g a z = a
  left_id : ∀ a, g z a = a

theorem sumSpec : FoldSpec .sum (· + ·) 0 where
  spec := add_spec
  numeric := fun h => by
    obtain ⟨x, y, _, _, _, hx, hy⟩ := arith_ok_view h
    exact ⟨_, _, _, _, hx, hy⟩
  assoc := add_assoc
  right_id := add_zero
  left_id := zero_add

theorem prodSpec : FoldSpec .prod (· * ·) 1 where
  spec := mul_spec
  numeric := fun h => by
    obtain ⟨x, y, _, _, _, hx, hy⟩ := arith_ok_view h
    exact ⟨_, _, _, _, hx, hy⟩
  assoc := mul_assoc
  right_id := mul_one
  left_id := one_mul

variable {env : Env} {o : NaryOp} {g : Rat → Rat → Rat} {z : Rat}

theorem fold_view (S : FoldSpec o g z) : ∀ (ds : List Expr) (acc r : Value) (qa : Rat) (fa : Bool),
    acc.view = some (qa, fa) → denFold env o acc ds = .ok r →
    ∃ qs fs, listView env g z ds = some (qs, fs) ∧ r.view = some (g qa qs, fa || fs)
  | [], acc, r, qa, fa, ha, h => by
    simp only [denFold, pure, Except.pure, Except.ok.injEq] at h
    subst h
    exact ⟨z, false, rfl, by simp [S.right_id, ha]⟩
  | c :: cs, acc, r, qa, fa, ha, h => by
    simp only [denFold, bind, Except.bind] at h
    cases hc : den env c with
    | error e => rw [hc] at h; cases h
    | ok vc =>
      rw [hc] at h
      simp only at h
      cases hacc : o.apply acc vc with
      | error e => rw [hacc] at h; cases h
      | ok acc' =>
        rw [hacc] at h
        simp only at h
        obtain ⟨qa', fa', qc, fc, ha', hvc⟩ := S.numeric hacc
        rw [ha] at ha'; simp only [Option.some.injEq, Prod.mk.injEq] at ha'
        obtain ⟨rfl, rfl⟩ := ha'
        obtain ⟨r', hr', hview⟩ := S.spec ha hvc
        rw [hacc] at hr'; cases hr'
        obtain ⟨qs, fs, hl, hr⟩ := fold_view S cs acc' r _ _ hview h
        refine ⟨g qc qs, fc || fs, ?_, ?_⟩
        · simp only [listView, hc, hvc, hl]
        · rw [hr, S.assoc, Bool.or_assoc]

theorem fold_of_view (S : FoldSpec o g z) : ∀ (ds : List Expr) (acc : Value) (qa qs : Rat) (fa fs : Bool),
    acc.view = some (qa, fa) → listView env g z ds = some (qs, fs) →
    ∃ r, denFold env o acc ds = .ok r ∧ r.view = some (g qa qs, fa || fs)
  | [], acc, qa, qs, fa, fs, ha, h => by
    simp only [listView, Option.some.injEq, Prod.mk.injEq] at h
    obtain ⟨rfl, rfl⟩ := h
    exact ⟨acc, by simp [denFold, pure, Except.pure], by simp [S.right_id, ha]⟩
  | c :: cs, acc, qa, qs, fa, fs, ha, h => by
    simp only [listView] at h
    cases hc : den env c with
    | error e => rw [hc] at h; cases h
    | ok vc =>
      rw [hc] at h
      simp only at h
      cases hvc : vc.view with
      | none => rw [hvc] at h; cases h
      | some p =>
        obtain ⟨qc, fc⟩ := p
        cases hl : listView env g z cs with
        | none => rw [hvc, hl] at h; cases h
        | some p' =>
          obtain ⟨qs', fs'⟩ := p'
          rw [hvc, hl] at h
          simp only [Option.some.injEq, Prod.mk.injEq] at h
          obtain ⟨rfl, rfl⟩ := h
          obtain ⟨acc', hacc, hview⟩ := S.spec ha hvc
          obtain ⟨r, hr, hrv⟩ := fold_of_view S cs acc' _ _ _ _ hview hl
          refine ⟨r, ?_, ?_⟩
          · simp only [denFold, bind, Except.bind, hc, hacc, hr]
          · rw [hrv, S.assoc, Bool.or_assoc]

theorem listView_append (S : FoldSpec o g z) : ∀ (cs ds : List Expr) (q q' : Rat) (f f' : Bool),
    listView env g z cs = some (q, f) → listView env g z ds = some (q', f') →
    listView env g z (cs ++ ds) = some (g q q', f || f')
  | [], ds, q, q', f, f', h1, h2 => by
    simp only [listView, Option.some.injEq, Prod.mk.injEq] at h1
    obtain ⟨rfl, rfl⟩ := h1
    simp [h2, S.left_id]
  | c :: cs, ds, q, q', f, f', h1, h2 => by
    simp only [listView] at h1
    simp only [List.cons_append, listView]
    cases hc : den env c with
    | error e => rw [hc] at h1; cases h1
    | ok vc =>
      rw [hc] at h1
      simp only at h1 ⊢
      cases hvc : vc.view with
      | none => rw [hvc] at h1; cases h1
      | some p =>
        obtain ⟨qc, fc⟩ := p
        cases hl : listView env g z cs with
        | none => rw [hvc, hl] at h1; cases h1
        | some p' =>
          obtain ⟨qs', fs'⟩ := p'
          rw [hvc, hl] at h1
          simp only [Option.some.injEq, Prod.mk.injEq] at h1
          obtain ⟨rfl, rfl⟩ := h1
          rw [listView_append S cs ds _ _ _ _ hl h2]
          simp [S.assoc, Bool.or_assoc]

theorem listView_single {e : Expr} {v : Value} {q : Rat} {f : Bool} (S : FoldSpec o g z)
    (he : den env e = .ok v) (hv : v.view = some (q, f)) :
    listView env g z [e] = some (q, f) := by
  simp [listView, he, hv, S.right_id]

theorem int_view (n : Int) : (Value.int n).view = some ((n : Rat), false) := rfl

theorem fold_start_view (S : FoldSpec o g z) {start r : Value} {cs : List Expr}
    (hs : start.view = some (z, false)) (h : denFold env o start cs = .ok r) :
    ∃ q f, listView env g z cs = some (q, f) ∧ r.view = some (q, f) := by
  obtain ⟨q, f, hl, hr⟩ := fold_view S cs start r z false hs h
  exact ⟨q, f, hl, by simpa [S.left_id] using hr⟩

theorem fold_start_of_view (S : FoldSpec o g z) {start : Value} {cs : List Expr} {q : Rat} {f : Bool}
    (hs : start.view = some (z, false)) (h : listView env g z cs = some (q, f)) :
    ∃ r, denFold env o start cs = .ok r ∧ r.view = some (q, f) := by
  obtain ⟨r, hr, hv⟩ := fold_of_view S cs start z q false f hs h
  exact ⟨r, hr, by simpa [S.left_id] using hv⟩

theorem sum_den_view {cs : List Expr} {r : Value} (h : den env (.nary .sum cs) = .ok r) :
    ∃ q f, listView env (· + ·) 0 cs = some (q, f) ∧ r.view = some (q, f) := by
  simp only [den] at h
  exact fold_start_view sumSpec (by simp [Value.view]) h

theorem sum_den_of_view {cs : List Expr} {q : Rat} {f : Bool}
    (h : listView env (· + ·) 0 cs = some (q, f)) :
    ∃ r, den env (.nary .sum cs) = .ok r ∧ r.view = some (q, f) := by
  simp only [den]
  exact fold_start_of_view sumSpec (by simp [Value.view]) h

theorem prod_den_view {cs : List Expr} {r : Value} (h : den env (.nary .prod cs) = .ok r) :
    ∃ q f, listView env (· * ·) 1 cs = some (q, f) ∧ r.view = some (q, f) := by
  simp only [den] at h
  exact fold_start_view prodSpec (by simp [Value.view]) h

theorem prod_den_of_view {cs : List Expr} {q : Rat} {f : Bool}
    (h : listView env (· * ·) 1 cs = some (q, f)) :
    ∃ r, den env (.nary .prod cs) = .ok r ∧ r.view = some (q, f) := by
  simp only [den]
  exact fold_start_of_view prodSpec (by simp [Value.view]) h

/-! ### zero numerators -/

theorem div_zero_left {a b v : Value} {f : Bool} (ha : a.view = some (0, f))
    (h : Value.div a b = .ok v) : v = .inexact ∨ v.view = some (0, true) := by
  obtain ⟨x, y, hx, hy, hf, hxv, hyv⟩ := arith_ok_view h
  rw [ha] at hxv
  simp only [Option.some.injEq, Prod.mk.injEq] at hxv
  obtain ⟨hx0, _⟩ := hxv
  cases x <;> cases y <;> simp only [divN] at hf <;> split at hf <;>
    simp only [pure, Except.pure, Except.ok.injEq, reduceCtorEq] at hf <;> subst hf
  · exact Or.inl rfl
  all_goals
    right
    simp only [Num.toRat] at hx0 ⊢
    simp [Value.view, ← hx0]

theorem rat_floor_zero : Rat.floor 0 = 0 := by
  have := Rat.floor_intCast 0
  simpa using this

theorem floordiv_zero_left {a b v : Value} {f : Bool} (ha : a.view = some (0, f))
    (h : Value.floordiv a b = .ok v) : v.view = some (0, false) := by
  obtain ⟨x, y, hx, hy, hf, hxv, hyv⟩ := arith_ok_view h
  rw [ha] at hxv
  simp only [Option.some.injEq, Prod.mk.injEq] at hxv
  obtain ⟨hx0, _⟩ := hxv
  rcases x with n | r <;> rcases y with m | s <;> simp only [floordivN] at hf <;> split at hf <;>
    simp only [pure, Except.pure, Except.ok.injEq, reduceCtorEq] at hf <;> subst hf <;>
    simp only [Num.toRat] at hx0 ⊢
  · have : n = 0 := by exact_mod_cast hx0.symm
    simp [Value.view, this]
  all_goals simp [Value.view, ← hx0, rat_floor_zero]

theorem mod_zero_left {a b v : Value} {f : Bool} (ha : a.view = some (0, f))
    (h : Value.mod a b = .ok v) : ∃ f', v.view = some (0, f') := by
  obtain ⟨x, y, hx, hy, hf, hxv, hyv⟩ := arith_ok_view h
  rw [ha] at hxv
  simp only [Option.some.injEq, Prod.mk.injEq] at hxv
  obtain ⟨hx0, _⟩ := hxv
  rcases x with n | r <;> rcases y with m | s <;> simp only [modN] at hf <;> split at hf <;>
    simp only [pure, Except.pure, Except.ok.injEq, reduceCtorEq] at hf <;> subst hf <;>
    simp only [Num.toRat] at hx0 ⊢
  · have : n = 0 := by exact_mod_cast hx0.symm
    exact ⟨false, by simp [Value.view, this]⟩
  all_goals exact ⟨true, by simp [Value.view, ← hx0, rat_floor_zero]⟩

/-! ### `falsy_value`: a node whose Python truth value is False evaluates to zero -/

/-- possible values of an expression whose `bool()` is `False` -/
def Falsy (v : Value) : Prop :=
  v = .inexact ∨ v = .tuple [] ∨ v = .list [] ∨ ∃ f, v.view = some (0, f)

theorem Falsy.view {v : Value} {q : Rat} {f : Bool} (h : Falsy v) (hv : v.view = some (q, f)) :
    q = 0 := by
  rcases h with rfl | rfl | rfl | ⟨f', h⟩
  · simp [Value.view] at hv
  · simp [Value.view] at hv
  · simp [Value.view] at hv
  · rw [hv] at h; simp only [Option.some.injEq, Prod.mk.injEq] at h; exact h.1

theorem bin_den_ok {o : BinOp} {a b : Expr} {v : Value} (h : den env (.bin o a b) = .ok v) :
    ∃ x y, den env a = .ok x ∧ den env b = .ok y ∧ o.apply x y = .ok v := by
  simp only [den, bind, Except.bind] at h
  cases ha : den env a with
  | error e => rw [ha] at h; cases h
  | ok x =>
    rw [ha] at h; simp only at h
    cases hb : den env b with
    | error e => rw [hb] at h; cases h
    | ok y => rw [hb] at h; exact ⟨x, y, rfl, rfl, h⟩

/-- consuming a `Falsy` value in `arith` succeeds only if it is a numeric zero -/
theorem Falsy.of_arith_left {f : Num → Num → R} {a b v : Value} (ha : Falsy a)
    (h : arith f a b = .ok v) : ∃ fl, a.view = some (0, fl) := by
  obtain ⟨x, y, _, _, _, hx, _⟩ := arith_ok_view h
  exact ⟨_, by rw [hx, ha.view hx]⟩

theorem Falsy.of_arith_right {f : Num → Num → R} {a b v : Value} (hb : Falsy b)
    (h : arith f a b = .ok v) : ∃ fl, b.view = some (0, fl) := by
  obtain ⟨x, y, _, _, _, _, hy⟩ := arith_ok_view h
  exact ⟨_, by rw [hy, hb.view hy]⟩

mutual
theorem falsy_den : ∀ (e : Expr) (v : Value), e.truthy = false → den env e = .ok v → Falsy v
  | .const c, v, ht, hd => by
    cases c <;> simp only [Expr.truthy, Const.truthy, den, Const.den, pure, Except.pure,
      Except.ok.injEq, throw, throwThe, MonadExceptOf.throw, reduceCtorEq] at ht hd
    · subst hd; simp at ht; subst ht; exact Or.inr (Or.inr (Or.inr ⟨false, by simp [Value.view]⟩))
    · subst hd; subst ht; exact Or.inr (Or.inr (Or.inr ⟨false, by simp [Value.view]⟩))
    · subst hd; exact Or.inl rfl
  | .var x, v, ht, hd => by simp [Expr.truthy] at ht
  | .nary o cs, v, ht, hd => by
    cases o <;> simp only [Expr.truthy, reduceCtorEq] at ht
    · obtain ⟨q, f, hl, hv⟩ := sum_den_view hd
      have := falsy_sumView cs q f ht hl
      subst this
      exact Or.inr (Or.inr (Or.inr ⟨f, hv⟩))
    · obtain ⟨q, f, hl, hv⟩ := prod_den_view hd
      have := falsy_prodView cs q f ht hl
      subst this
      exact Or.inr (Or.inr (Or.inr ⟨f, hv⟩))
  | .bin o a b, v, ht, hd => by
    obtain ⟨x, y, hx, hy, hv⟩ := bin_den_ok hd
    cases o <;> simp only [Expr.truthy, reduceCtorEq] at ht <;>
      simp only [BinOp.apply] at hv
    · obtain ⟨fl, hz⟩ := (falsy_den a x ht hx).of_arith_left hv
      rcases div_zero_left hz hv with h | h
      · exact Or.inl h
      · exact Or.inr (Or.inr (Or.inr ⟨_, h⟩))
    · obtain ⟨fl, hz⟩ := (falsy_den a x ht hx).of_arith_left hv
      exact Or.inr (Or.inr (Or.inr ⟨_, floordiv_zero_left hz hv⟩))
    · obtain ⟨fl, hz⟩ := (falsy_den a x ht hx).of_arith_left hv
      exact Or.inr (Or.inr (Or.inr (mod_zero_left hz hv)))
  | .un _ _, v, ht, hd => by simp [Expr.truthy] at ht
  | .cmp _ _ _, v, ht, hd => by simp [Expr.truthy] at ht
  | .ite _ _ _, v, ht, hd => by simp [Expr.truthy] at ht
  | .call _ _, v, ht, hd => by simp [Expr.truthy] at ht
  | .callKw _ _ _ _, v, ht, hd => by simp [Expr.truthy] at ht
  | .subscript _ _, v, ht, hd => by simp [Expr.truthy] at ht
  | .lookup _ _, v, ht, hd => by simp [Expr.truthy] at ht
  | .cse _ _ _, v, ht, hd => by simp [Expr.truthy] at ht
  | .subst _ _ _, v, ht, hd => by simp [Expr.truthy] at ht
  | .deriv _ _, v, ht, hd => by simp [Expr.truthy] at ht
  | .slice _, v, ht, hd => by simp [Expr.truthy] at ht
  | .nan, v, ht, hd => by simp [Expr.truthy] at ht
  | .wildcard, v, ht, hd => by simp [Expr.truthy] at ht
  | .dotWild _, v, ht, hd => by simp [Expr.truthy] at ht
  | .starWild _, v, ht, hd => by simp [Expr.truthy] at ht
  | .funcSym, v, ht, hd => by simp [Expr.truthy] at ht
  | .tuple cs, v, ht, hd => by
    cases cs with
    | nil =>
      simp only [den, denList, bind, Except.bind, pure, Except.pure, Except.ok.injEq] at hd
      exact Or.inr (Or.inl hd.symm)
    | cons c cs => simp [Expr.truthy] at ht
  | .list cs, v, ht, hd => by
    cases cs with
    | nil =>
      simp only [den, denList, bind, Except.bind, pure, Except.pure, Except.ok.injEq] at hd
      exact Or.inr (Or.inr (Or.inl hd.symm))
    | cons c cs => simp [Expr.truthy] at ht
theorem falsy_sumView : ∀ (cs : List Expr) (q : Rat) (f : Bool), Expr.truthySum cs = false →
    listView env (· + ·) 0 cs = some (q, f) → q = 0
  | [], q, f, ht, hl => by simp [Expr.truthySum] at ht
  | [c], q, f, ht, hl => by
    simp only [Expr.truthySum] at ht
    simp only [listView] at hl
    cases hc : den env c with
    | error e => rw [hc] at hl; cases hl
    | ok vc =>
      rw [hc] at hl; simp only at hl
      cases hvc : vc.view with
      | none => rw [hvc] at hl; cases hl
      | some p =>
        obtain ⟨qc, fc⟩ := p
        rw [hvc] at hl
        simp only [Option.some.injEq, Prod.mk.injEq] at hl
        have := (falsy_den c vc ht hc).view hvc
        subst this
        simpa using hl.1.symm
  | _ :: _ :: _, q, f, ht, hl => by simp [Expr.truthySum] at ht
theorem falsy_prodView : ∀ (cs : List Expr) (q : Rat) (f : Bool), Expr.truthyProd cs = false →
    listView env (· * ·) 1 cs = some (q, f) → q = 0
  | [], q, f, ht, hl => by simp [Expr.truthyProd] at ht
  | c :: cs, q, f, ht, hl => by
    simp only [Expr.truthyProd, Bool.and_eq_false_iff] at ht
    simp only [listView] at hl
    cases hc : den env c with
    | error e => rw [hc] at hl; cases hl
    | ok vc =>
      rw [hc] at hl; simp only at hl
      cases hvc : vc.view with
      | none => rw [hvc] at hl; cases hl
      | some p =>
        obtain ⟨qc, fc⟩ := p
        cases hcs : listView env (· * ·) 1 cs with
        | none => rw [hvc, hcs] at hl; cases hl
        | some p' =>
          obtain ⟨qs, fs⟩ := p'
          rw [hvc, hcs] at hl
          simp only [Option.some.injEq, Prod.mk.injEq] at hl
          rcases ht with ht | ht
          · have := (falsy_den c vc ht hc).view hvc
            subst this
            simpa using hl.1.symm
          · have := falsy_prodView cs qs fs ht hcs
            subst this
            simpa using hl.1.symm
end

/-! ### views of the results of the plain operations -/

theorem view_inj {v : Value} {q q' : Rat} {f f' : Bool} (h : v.view = some (q, f))
    (h' : v.view = some (q', f')) : q = q' ∧ f = f' := by
  rw [h] at h'; simpa using h'

theorem add_view {a b v : Value} (h : Value.add a b = .ok v) :
    ∃ qa fa qb fb, a.view = some (qa, fa) ∧ b.view = some (qb, fb) ∧
      v.view = some (qa + qb, fa || fb) := by
  obtain ⟨x, y, _, _, _, hx, hy⟩ := arith_ok_view h
  obtain ⟨r, hr, hv⟩ := add_spec hx hy
  rw [h] at hr; cases hr
  exact ⟨_, _, _, _, hx, hy, hv⟩

theorem sub_view {a b v : Value} (h : Value.sub a b = .ok v) :
    ∃ qa fa qb fb, a.view = some (qa, fa) ∧ b.view = some (qb, fb) ∧
      v.view = some (qa - qb, fa || fb) := by
  obtain ⟨x, y, _, _, _, hx, hy⟩ := arith_ok_view h
  obtain ⟨r, hr, hv⟩ := sub_spec hx hy
  rw [h] at hr; cases hr
  exact ⟨_, _, _, _, hx, hy, hv⟩

theorem mul_view {a b v : Value} (h : Value.mul a b = .ok v) :
    ∃ qa fa qb fb, a.view = some (qa, fa) ∧ b.view = some (qb, fb) ∧
      v.view = some (qa * qb, fa || fb) := by
  obtain ⟨x, y, _, _, _, hx, hy⟩ := arith_ok_view h
  obtain ⟨r, hr, hv⟩ := mul_spec hx hy
  rw [h] at hr; cases hr
  exact ⟨_, _, _, _, hx, hy, hv⟩

theorem listView_cons {e : Expr} {cs : List Expr} {ve : Value} {q q' : Rat} {f f' : Bool}
    (he : den env e = .ok ve) (hv : ve.view = some (q, f))
    (hl : listView env g z cs = some (q', f')) :
    listView env g z (e :: cs) = some (g q q', f || f') := by
  simp [listView, he, hv, hl]

theorem listView_nil : listView env g z [] = some (z, false) := rfl

/-- a `Sum` node whose children have combined view `(q, f)` refines any value with view `(q, f')`,
`f → f'` -/
theorem sum_node_sound {xs : List Expr} {v : Value} {q : Rat} {f f' : Bool}
    (hl : listView env (· + ·) 0 xs = some (q, f)) (hv : v.view = some (q, f'))
    (hf : f = true → f' = true) : ∃ w, den env (.nary .sum xs) = .ok w ∧ Refines w v := by
  obtain ⟨w, hw, hwv⟩ := sum_den_of_view hl
  exact ⟨w, hw, Refines.of_view hwv hv hf⟩

theorem prod_node_sound {xs : List Expr} {v : Value} {q : Rat} {f f' : Bool}
    (hl : listView env (· * ·) 1 xs = some (q, f)) (hv : v.view = some (q, f'))
    (hf : f = true → f' = true) : ∃ w, den env (.nary .prod xs) = .ok w ∧ Refines w v := by
  obtain ⟨w, hw, hwv⟩ := prod_den_of_view hl
  exact ⟨w, hw, Refines.of_view hwv hv hf⟩

/-- the children view of an evaluated `Sum` agrees with the view of its value -/
theorem sum_children_view {cs : List Expr} {r : Value} {q : Rat} {f : Bool}
    (h : den env (.nary .sum cs) = .ok r) (hr : r.view = some (q, f)) :
    listView env (· + ·) 0 cs = some (q, f) := by
  obtain ⟨q', f', hl, hv⟩ := sum_den_view h
  obtain ⟨rfl, rfl⟩ := view_inj hr hv
  exact hl

theorem prod_children_view {cs : List Expr} {r : Value} {q : Rat} {f : Bool}
    (h : den env (.nary .prod cs) = .ok r) (hr : r.view = some (q, f)) :
    listView env (· * ·) 1 cs = some (q, f) := by
  obtain ⟨q', f', hl, hv⟩ := prod_den_view h
  obtain ⟨rfl, rfl⟩ := view_inj hr hv
  exact hl

/-! ### soundness of the dunder methods -/

theorem exprAdd_sound {self other t : Expr} {vs vo v : Value}
    (h : exprAdd self other = .ret t) (hs : den env self = .ok vs) (ho : den env other = .ok vo)
    (hv : Value.add vs vo = .ok v) : ∃ w, den env t = .ok w ∧ Refines w v := by
  obtain ⟨qs, fs, qo, fo, hvs, hvo, hvv⟩ := add_view hv
  unfold exprAdd at h
  split at h
  · cases h
  · split at h
    · split at h
      · split at h
        · rename_i cs
          cases h
          have hl := sum_children_view ho hvo
          exact sum_node_sound (listView_cons hs hvs hl) hvv id
        · cases h
          have hl : listView env (· + ·) 0 [self, other] = some (qs + (qo + 0), fs || (fo || false)) :=
            listView_cons hs hvs (listView_cons ho hvo listView_nil)
          exact sum_node_sound hl (by simpa using hvv) (by simp)
      · rename_i hst
        cases h
        have := (falsy_den self vs (by simpa using hst) hs).view hvs
        subst this
        exact ⟨vo, ho, Refines.of_view hvo (by simpa using hvv) (fun h => by simp [h])⟩
    · rename_i hot
      cases h
      have := (falsy_den other vo (by simpa using hot) ho).view hvo
      subst this
      exact ⟨vs, hs, Refines.of_view hvs (by simpa using hvv) (fun h => by simp [h])⟩

theorem addD_sound {self other t : Expr} {vs vo v : Value}
    (h : addD self other = .ret t) (hs : den env self = .ok vs) (ho : den env other = .ok vo)
    (hv : Value.add vs vo = .ok v) : ∃ w, den env t = .ok w ∧ Refines w v := by
  unfold addD at h
  split at h
  · rename_i cs
    obtain ⟨qs, fs, qo, fo, hvs, hvo, hvv⟩ := add_view hv
    have hcs := sum_children_view hs hvs
    split at h
    · cases h
    · split at h
      · rename_i ds
        cases h
        have hds := sum_children_view ho hvo
        exact sum_node_sound (listView_append sumSpec _ _ _ _ _ _ hcs hds) hvv id
      · split at h
        · rename_i hot
          cases h
          have := (falsy_den other vo (by simpa using hot) ho).view hvo
          subst this
          exact ⟨vs, hs, Refines.of_view hvs (by simpa using hvv) (fun h => by simp [h])⟩
        · cases h
          have hl := listView_append sumSpec _ _ _ _ _ _ hcs
            (listView_cons ho hvo (listView_nil (g := (· + ·)) (z := 0)))
          exact sum_node_sound hl (by simpa using hvv) (by simp)
  · exact exprAdd_sound h hs ho hv

/-- reflected addition: the result is `other + self` -/
theorem raddD_sound {self other t : Expr} {vs vo v : Value}
    (h : raddD self other = .ret t) (hs : den env self = .ok vs) (ho : den env other = .ok vo)
    (hv : Value.add vo vs = .ok v) : ∃ w, den env t = .ok w ∧ Refines w v := by
  obtain ⟨qo, fo, qs, fs, hvo, hvs, hvv⟩ := add_view hv
  unfold raddD at h
  split at h
  · rename_i cs
    have hcs := sum_children_view hs hvs
    split at h
    · cases h
    · split at h
      · rename_i hot
        cases h
        have := (falsy_den other vo (by simpa using hot) ho).view hvo
        subst this
        exact ⟨vs, hs, Refines.of_view hvs (by simpa using hvv) (fun h => by simp [h])⟩
      · cases h
        exact sum_node_sound (listView_cons ho hvo hcs) hvv id
  · split at h
    · cases h
    · split at h
      · split at h
        · cases h
          have hl : listView env (· + ·) 0 [other, self] = some (qo + (qs + 0), fo || (fs || false)) :=
            listView_cons ho hvo (listView_cons hs hvs listView_nil)
          exact sum_node_sound hl (by simpa using hvv) (by simp)
        · rename_i hst
          cases h
          have := (falsy_den self vs (by simpa using hst) hs).view hvs
          subst this
          exact ⟨vo, ho, Refines.of_view hvo (by simpa using hvv) (fun h => by simp [h])⟩
      · rename_i hot
        cases h
        have := (falsy_den other vo (by simpa using hot) ho).view hvo
        subst this
        exact ⟨vs, hs, Refines.of_view hvs (by simpa using hvv) (fun h => by simp [h])⟩

theorem Refines.view_right {w v : Value} {q : Rat} {f : Bool} (h : Refines w v)
    (hv : v.view = some (q, f)) : ∃ fw, w.view = some (q, fw) ∧ (fw = true → f = true) := by
  rcases h with ⟨rfl, rfl⟩ | ⟨q', fw, fv, hw, hv', hf⟩
  · simp [Value.view] at hv
  · obtain ⟨rfl, rfl⟩ := view_inj hv hv'
    exact ⟨fw, hw, hf⟩

theorem isOne_view {e : Expr} {v : Value} {q : Rat} {f : Bool} (h1 : e.isOne = true)
    (he : den env e = .ok v) (hv : v.view = some (q, f)) : q = 1 ∧ f = false := by
  cases e <;> simp only [Expr.isOne, Bool.false_eq_true] at h1
  rename_i c
  cases c <;> simp only [Const.isOne, Bool.false_eq_true] at h1 <;>
    simp only [den, Const.den, pure, Except.pure, Except.ok.injEq] at he <;> subst he
  · simp only [beq_iff_eq] at h1; subst h1
    simp only [Value.view, Option.some.injEq, Prod.mk.injEq] at hv
    exact ⟨by simpa using hv.1.symm, hv.2.symm⟩
  · subst h1
    simp only [Value.view, Option.some.injEq, Prod.mk.injEq] at hv
    exact ⟨by simpa using hv.1.symm, hv.2.symm⟩
  · simp [Value.view] at hv

theorem zero_den : den env zero = .ok (.int 0) := rfl
theorem one_den : den env one = .ok (.int 1) := rfl
theorem negOne_den : den env negOne = .ok (.int (-1)) := rfl

/-- reflected multiplication: the result is `other * self` -/
theorem rmulD_sound {self other t : Expr} {vs vo v : Value}
    (h : rmulD self other = .ret t) (hs : den env self = .ok vs) (ho : den env other = .ok vo)
    (hv : Value.mul vo vs = .ok v) : ∃ w, den env t = .ok w ∧ Refines w v := by
  obtain ⟨qo, fo, qs, fs, hvo, hvs, hvv⟩ := mul_view hv
  have hzero : other.isZero = true → ∃ w, den env zero = .ok w ∧ Refines w v := by
    intro hz
    have := (falsy_den other vo (by simpa [Expr.isZero] using hz) ho).view hvo
    subst this
    exact ⟨_, zero_den, Refines.of_view (int_view 0) (by simpa using hvv) (by simp)⟩
  have hone : other.isOne = true → ∃ w, den env self = .ok w ∧ Refines w v := by
    intro h1
    obtain ⟨rfl, rfl⟩ := isOne_view h1 ho hvo
    exact ⟨vs, hs, Refines.of_view hvs (by simpa using hvv) id⟩
  unfold rmulD at h
  split at h
  · cases h
  · split at h
    · rename_i cs
      have hcs := prod_children_view hs hvs
      split at h
      · cases h; exact hzero ‹_›
      · split at h
        · cases h; exact hone ‹_›
        · cases h
          exact prod_node_sound (listView_cons ho hvo hcs) hvv id
    · split at h
      · cases h; exact hone ‹_›
      · split at h
        · cases h; exact hzero ‹_›
        · cases h
          have hl : listView env (· * ·) 1 [other, self] = some (qo * (qs * 1), fo || (fs || false)) :=
            listView_cons ho hvo (listView_cons hs hvs listView_nil)
          exact prod_node_sound hl (by simpa using hvv) (by simp)

theorem mulD_sound {self other t : Expr} {vs vo v : Value}
    (h : mulD self other = .ret t) (hs : den env self = .ok vs) (ho : den env other = .ok vo)
    (hv : Value.mul vs vo = .ok v) : ∃ w, den env t = .ok w ∧ Refines w v := by
  obtain ⟨qs, fs, qo, fo, hvs, hvo, hvv⟩ := mul_view hv
  have hzero : other.isZero = true → ∃ w, den env zero = .ok w ∧ Refines w v := by
    intro hz
    have := (falsy_den other vo (by simpa [Expr.isZero] using hz) ho).view hvo
    subst this
    exact ⟨_, zero_den, Refines.of_view (int_view 0) (by simpa using hvv) (by simp)⟩
  have hone : other.isOne = true → ∃ w, den env self = .ok w ∧ Refines w v := by
    intro h1
    obtain ⟨rfl, rfl⟩ := isOne_view h1 ho hvo
    exact ⟨vs, hs, Refines.of_view hvs (by simpa using hvv) id⟩
  unfold mulD at h
  split at h
  · cases h
  · split at h
    · rename_i cs
      have hcs := prod_children_view hs hvs
      split at h
      · rename_i ds
        cases h
        have hds := prod_children_view ho hvo
        exact prod_node_sound (listView_append prodSpec _ _ _ _ _ _ hcs hds) hvv id
      · split at h
        · cases h; exact hzero ‹_›
        · split at h
          · cases h; exact hone ‹_›
          · cases h
            have hl := listView_append prodSpec _ _ _ _ _ _ hcs
              (listView_cons ho hvo (listView_nil (g := (· * ·)) (z := 1)))
            exact prod_node_sound hl (by simpa using hvv) (by simp)
    · split at h
      · cases h; exact hone ‹_›
      · split at h
        · cases h; exact hzero ‹_›
        · cases h
          have hl : listView env (· * ·) 1 [self, other] = some (qs * (qo * 1), fs || (fo || false)) :=
            listView_cons hs hvs (listView_cons ho hvo listView_nil)
          exact prod_node_sound hl (by simpa using hvv) (by simp)

/-- `-e` as built by pymbolic (`-1 * e`, or the negated constant) evaluates to the negated value -/
theorem negE_sound {e n : Expr} {ve : Value} {q : Rat} {f : Bool}
    (h : negE e = .ok n) (he : den env e = .ok ve) (hv : ve.view = some (q, f)) :
    ∃ wn fn, den env n = .ok wn ∧ wn.view = some (-q, fn) ∧ (fn = true → f = true) := by
  unfold negE at h
  split at h
  · rename_i c
    split at h
    · rename_i c' hc
      cases h
      cases c <;> simp only [Const.neg, Option.some.injEq, reduceCtorEq] at hc <;> subst hc <;>
        simp only [den, Const.den, pure, Except.pure, Except.ok.injEq] at he <;> subst he
      · simp only [Value.view, Option.some.injEq, Prod.mk.injEq] at hv
        obtain ⟨rfl, rfl⟩ := hv
        exact ⟨_, false, rfl, by simp [Value.view], by simp⟩
      · rename_i b
        simp only [Value.view, Option.some.injEq, Prod.mk.injEq] at hv
        obtain ⟨rfl, rfl⟩ := hv
        exact ⟨_, false, rfl, by cases b <;> simp [Value.view], by simp⟩
      · simp [Value.view] at hv
    · cases h
  · split at h
    · split at h
      · rename_i r hr
        cases h
        obtain ⟨v, hmul, hvv⟩ := mul_spec (int_view (-1)) hv
        obtain ⟨w, hw, href⟩ := rmulD_sound hr he negOne_den hmul
        obtain ⟨fw, hwv, hf⟩ := href.view_right hvv
        exact ⟨w, fw, hw, by simpa using hwv, by simpa using hf⟩
      · cases h
    · cases h

theorem subD_sound {self other t : Expr} {vs vo v : Value}
    (h : subD self other = .ret t) (hs : den env self = .ok vs) (ho : den env other = .ok vo)
    (hv : Value.sub vs vo = .ok v) : ∃ w, den env t = .ok w ∧ Refines w v := by
  obtain ⟨qs, fs, qo, fo, hvs, hvo, hvv⟩ := sub_view hv
  have hfalsy : other.truthy = false → ∃ w, den env self = .ok w ∧ Refines w v := by
    intro hot
    have := (falsy_den other vo hot ho).view hvo
    subst this
    exact ⟨vs, hs, Refines.of_view hvs (by simpa using hvv) (fun h => by simp [h])⟩
  unfold subD at h
  split at h
  · rename_i cs
    have hcs := sum_children_view hs hvs
    split at h
    · cases h
    · split at h
      · rename_i hot
        cases h; exact hfalsy (by simpa using hot)
      · split at h
        · rename_i n hn
          cases h
          obtain ⟨wn, fn, hwn, hwnv, hfn⟩ := negE_sound hn ho hvo
          have hl := listView_append sumSpec _ _ _ _ _ _ hcs
            (listView_cons hwn hwnv (listView_nil (g := (· + ·)) (z := 0)))
          refine sum_node_sound hl (by simpa [sub_eq_add_neg] using hvv) ?_
          intro hh
          simp only [Bool.or_false, Bool.or_eq_true] at hh ⊢
          rcases hh with hh | hh
          · exact Or.inl hh
          · exact Or.inr (hfn hh)
        · cases h
  · split at h
    · cases h
    · split at h
      · split at h
        · rename_i n hn
          obtain ⟨wn, fn, hwn, hwnv, hfn⟩ := negE_sound hn ho hvo
          obtain ⟨v', hv', hv'v⟩ := add_spec hvs hwnv
          obtain ⟨w, hw, href⟩ := exprAdd_sound h hs hwn hv'
          refine ⟨w, hw, href.trans (Refines.of_view hv'v (by simpa [sub_eq_add_neg] using hvv) ?_)⟩
          intro hh
          simp only [Bool.or_eq_true] at hh ⊢
          rcases hh with hh | hh
          · exact Or.inl hh
          · exact Or.inr (hfn hh)
        · cases h
      · rename_i hot
        cases h; exact hfalsy (by simpa using hot)

/-- reflected subtraction: the result is `other - self` -/
theorem rsubD_sound {self other t : Expr} {vs vo v : Value}
    (h : rsubD self other = .ret t) (hs : den env self = .ok vs) (ho : den env other = .ok vo)
    (hv : Value.sub vo vs = .ok v) : ∃ w, den env t = .ok w ∧ Refines w v := by
  obtain ⟨qo, fo, qs, fs, hvo, hvs, hvv⟩ := sub_view hv
  unfold rsubD at h
  split at h
  · cases h
  · split at h
    · cases h
    · rename_i n hn
      obtain ⟨wn, fn, hwn, hwnv, hfn⟩ := negE_sound hn hs hvs
      split at h
      · cases h
        have hl : listView env (· + ·) 0 [other, n] = some (qo + (-qs + 0), fo || (fn || false)) :=
          listView_cons ho hvo (listView_cons hwn hwnv listView_nil)
        refine sum_node_sound hl (by simpa [sub_eq_add_neg] using hvv) ?_
        intro hh
        simp only [Bool.or_false, Bool.or_eq_true] at hh ⊢
        rcases hh with hh | hh
        · exact Or.inl hh
        · exact Or.inr (hfn hh)
      · rename_i hot
        cases h
        have := (falsy_den other vo (by simpa using hot) ho).view hvo
        subst this
        exact ⟨wn, hwn, Refines.of_view hwnv (by simpa using hvv) (fun h => by simp [hfn h])⟩

/-! ### shape of results: every operator returns an exact number or the float abstraction -/

def Value.NumOrInexact (v : Value) : Prop := v = .inexact ∨ ∃ q f, v.view = some (q, f)

theorem Refines.refl_of {v : Value} (h : v.NumOrInexact) : Refines v v := by
  rcases h with rfl | ⟨q, f, h⟩
  · exact Or.inl ⟨rfl, rfl⟩
  · exact Refines.refl_view h

theorem noi_int (n : Int) : (Value.int n).NumOrInexact := Or.inr ⟨_, _, rfl⟩
theorem noi_frac (q : Rat) : (Value.frac q).NumOrInexact := Or.inr ⟨_, _, rfl⟩
theorem noi_bool (b : Bool) : (Value.bool b).NumOrInexact := Or.inr ⟨_, _, rfl⟩
theorem noi_inexact : Value.inexact.NumOrInexact := Or.inl rfl

theorem fracPowInt_shape {a : Rat} {p : Int} {v : Value} (h : fracPowInt a p = .ok v) :
    v.NumOrInexact := by
  unfold fracPowInt at h
  split at h
  · cases h
  · split at h
    · cases h; exact noi_frac _
    · split at h
      · cases h
      · cases h; exact noi_frac _

theorem floatPow_shape {a b : Rat} {v : Value} (h : floatPow a b = .ok v) : v.NumOrInexact := by
  unfold floatPow at h
  split at h
  · cases h
  · cases h; exact noi_inexact

theorem powN_shape {x y : Num} {v : Value} (h : powN x y = .ok v) : v.NumOrInexact := by
  rcases x with a | a <;> rcases y with b | b <;> simp only [powN] at h
  · split at h
    · cases h
    · split at h
      · cases h; exact noi_int _
      · split at h
        · cases h
        · cases h; exact noi_inexact
  · split at h
    · split at h
      · cases h
      · cases h; exact noi_int _
    · split at h
      · exact fracPowInt_shape h
      · exact floatPow_shape h
  · exact fracPowInt_shape h
  · split at h
    · exact fracPowInt_shape h
    · exact floatPow_shape h

theorem intOnly_shape {g : Int → Int → R} (hg : ∀ a b v, g a b = .ok v → v.NumOrInexact)
    {x y : Num} {v : Value} (h : intOnly g x y = .ok v) : v.NumOrInexact := by
  rcases x with a | a <;> rcases y with b | b <;> simp only [intOnly] at h
  · exact hg _ _ _ h
  all_goals cases h

theorem onValues_shape {o : PyBinOp} {a b v : Value} (h : o.onValues a b = .ok v) :
    v.NumOrInexact := by
  cases o <;> simp only [PyBinOp.onValues] at h
  · obtain ⟨_, _, _, _, _, _, hv⟩ := add_view h; exact Or.inr ⟨_, _, hv⟩
  · obtain ⟨_, _, _, _, _, _, hv⟩ := sub_view h; exact Or.inr ⟨_, _, hv⟩
  · obtain ⟨_, _, _, _, _, _, hv⟩ := mul_view h; exact Or.inr ⟨_, _, hv⟩
  · obtain ⟨x, y, _, _, hf⟩ := arith_ok h
    rcases x with a | a <;> rcases y with b | b <;> simp only [divN] at hf <;> split at hf <;>
      cases hf <;> first | exact noi_inexact | exact noi_frac _
  · obtain ⟨x, y, _, _, hf⟩ := arith_ok h
    rcases x with a | a <;> rcases y with b | b <;> simp only [floordivN] at hf <;> split at hf <;>
      cases hf <;> exact noi_int _
  · obtain ⟨x, y, _, _, hf⟩ := arith_ok h
    rcases x with a | a <;> rcases y with b | b <;> simp only [modN] at hf <;> split at hf <;>
      cases hf <;> first | exact noi_int _ | exact noi_frac _
  · obtain ⟨x, y, _, _, hf⟩ := arith_ok h
    exact powN_shape hf
  · obtain ⟨x, y, _, _, hf⟩ := arith_ok h
    refine intOnly_shape ?_ hf
    intro a b v hg
    split at hg
    · cases hg
    · split at hg
      · cases hg
      · cases hg; exact noi_int _
  · obtain ⟨x, y, _, _, hf⟩ := arith_ok h
    refine intOnly_shape ?_ hf
    intro a b v hg
    split at hg
    · cases hg
    · split at hg
      · cases hg
      · cases hg; exact noi_int _
  all_goals
    simp only [Value.band, Value.bor, Value.bxor, bitop] at h
    split at h
    · cases h; exact noi_bool _
    · obtain ⟨x, y, _, _, hf⟩ := arith_ok h
      refine intOnly_shape ?_ hf
      intro a b v hg
      cases hg; exact noi_int _

/-! ### neutral elements of division and power -/

theorem num_of_view {v : Value} {x : Num} {q : Rat} {f : Bool} (hx : v.num? = some x)
    (hv : v.view = some (q, f)) : x.toRat = q ∧ x.isQ = f := by
  have := num_some_view hx
  exact view_inj this hv

theorem num_i_of {x : Num} (h : x.isQ = false) : ∃ n, x = .i n := by
  cases x
  · exact ⟨_, rfl⟩
  · simp [Num.isQ] at h

/-- `x / 1`: exact only for a Fraction `x`, and then equal to `x` -/
theorem div_one_right {a b v : Value} {qa : Rat} {fa : Bool} (ha : a.view = some (qa, fa))
    (hb : b.view = some (1, false)) (h : Value.div a b = .ok v) (hex : v.isInexact = false) :
    v.view = some (qa, true) ∧ fa = true := by
  obtain ⟨x, y, hx, hy, hf⟩ := arith_ok h
  obtain ⟨rfl, rfl⟩ := num_of_view hx ha
  obtain ⟨hy1, hyq⟩ := num_of_view hy hb
  obtain ⟨m, rfl⟩ := num_i_of hyq
  rcases x with n | r <;> simp only [divN] at hf <;> split at hf <;> cases hf
  · simp [Value.isInexact] at hex
  · simp only [Num.toRat] at hy1 ⊢
    simp [Value.view, hy1, Num.isQ]

theorem intCast_eq_one {m : Int} (h : (m : Rat) = 1) : m = 1 := by exact_mod_cast h

/-- `x // 1` for an int/bool `x` -/
theorem floordiv_one_right {a b v : Value} {qa : Rat} (ha : a.view = some (qa, false))
    (hb : b.view = some (1, false)) (h : Value.floordiv a b = .ok v) :
    v.view = some (qa, false) := by
  obtain ⟨x, y, hx, hy, hf⟩ := arith_ok h
  obtain ⟨rfl, hxq⟩ := num_of_view hx ha
  obtain ⟨hy1, hyq⟩ := num_of_view hy hb
  obtain ⟨m, rfl⟩ := num_i_of hyq
  obtain ⟨n, rfl⟩ := num_i_of hxq
  have : m = 1 := intCast_eq_one hy1
  subst this
  simp only [floordivN] at hf
  split at hf <;> cases hf
  simp [Value.view, Num.toRat]

theorem int_fmod_one (n : Int) : Int.fmod n 1 = 0 := by
  rw [Int.fmod_def, Int.fdiv_one]; omega

/-- `x % 1` for an int/bool `x` -/
theorem mod_one_right {a b v : Value} {qa : Rat} (ha : a.view = some (qa, false))
    (hb : b.view = some (1, false)) (h : Value.mod a b = .ok v) :
    v.view = some (0, false) := by
  obtain ⟨x, y, hx, hy, hf⟩ := arith_ok h
  obtain ⟨rfl, hxq⟩ := num_of_view hx ha
  obtain ⟨hy1, hyq⟩ := num_of_view hy hb
  obtain ⟨m, rfl⟩ := num_i_of hyq
  obtain ⟨n, rfl⟩ := num_i_of hxq
  have : m = 1 := intCast_eq_one hy1
  subst this
  simp only [modN] at hf
  split at hf <;> cases hf
  simp [Value.view]

theorem fracPowInt_zero {a : Rat} {v : Value} (h : fracPowInt a 0 = .ok v) :
    v.view = some (1, true) := by
  simp [fracPowInt, bigLimit, pure, Except.pure] at h
  subst h; rfl

theorem fracPowInt_one {a : Rat} {v : Value} (h : fracPowInt a 1 = .ok v) :
    v.view = some (a, true) := by
  simp [fracPowInt, bigLimit, pure, Except.pure] at h
  subst h; rfl

/-- `x ** 0 == 1` -/
theorem pow_zero_right {a b v : Value} {fb : Bool}
    (hb : b.view = some (0, fb)) (h : Value.pow a b = .ok v) :
    ∃ f, v.view = some (1, f) := by
  obtain ⟨x, y, hx, hy, hf⟩ := arith_ok h
  obtain ⟨hy0, _⟩ := num_of_view hy hb
  rcases y with m | s <;> simp only [Num.toRat] at hy0
  · have : m = 0 := by exact_mod_cast hy0
    subst this
    rcases x with n | r <;> simp only [powN] at hf
    · simp [bigLimit, pure, Except.pure] at hf
      subst hf; exact ⟨false, by simp [Value.view]⟩
    · exact ⟨_, fracPowInt_zero hf⟩
  · subst hy0
    rcases x with n | r <;> simp only [powN] at hf
    · simp [bigLimit, pure, Except.pure] at hf
      subst hf; exact ⟨false, by simp [Value.view]⟩
    · simp only [Rat.den_zero, Rat.num_zero, if_true] at hf
      exact ⟨_, fracPowInt_zero hf⟩

/-- `x ** 1 == x` (the exponent is the constant 1 or True) -/
theorem pow_one_right {a b v : Value} {qa : Rat} {fa : Bool} (ha : a.view = some (qa, fa))
    (hb : b.view = some (1, false)) (h : Value.pow a b = .ok v) :
    v.view = some (qa, fa) := by
  obtain ⟨x, y, hx, hy, hf⟩ := arith_ok h
  obtain ⟨rfl, rfl⟩ := num_of_view hx ha
  obtain ⟨hy1, hyq⟩ := num_of_view hy hb
  obtain ⟨m, rfl⟩ := num_i_of hyq
  have : m = 1 := intCast_eq_one hy1
  subst this
  rcases x with n | r <;> simp only [powN] at hf
  · simp [bigLimit, pure, Except.pure] at hf
    subst hf; simp [Value.view, Num.toRat, Num.isQ]
  · simpa [Num.toRat, Num.isQ] using fracPowInt_one hf

theorem fracPowInt_zero_base {p : Int} {v : Value} (hp : p ≠ 0) (h : fracPowInt 0 p = .ok v) :
    v.view = some (0, true) := by
  unfold fracPowInt at h
  split at h
  · cases h
  · split at h
    · rename_i hp0
      cases h
      have : p.toNat ≠ 0 := by omega
      simp [Value.view, zero_pow this]
    · simp at h

theorem fracPowInt_one_base {p : Int} {v : Value} (h : fracPowInt 1 p = .ok v) :
    v.view = some (1, true) := by
  unfold fracPowInt at h
  split at h
  · cases h
  · split at h
    · cases h; simp [Value.view]
    · split at h
      · cases h
      · cases h; simp [Value.view]

theorem floatPow_inexact {a b : Rat} {v : Value} (h : floatPow a b = .ok v) : v = .inexact := by
  unfold floatPow at h
  split at h <;> cases h
  rfl

/-- `0 ** x == 0` provided `x ≠ 0` (and the result is exact) -/
theorem zero_pow_left {a b v : Value} {qb : Rat} {fa fb : Bool} (ha : a.view = some (0, fa))
    (hb : b.view = some (qb, fb)) (hq : qb ≠ 0) (h : Value.pow a b = .ok v)
    (hex : v.isInexact = false) : ∃ f, v.view = some (0, f) := by
  obtain ⟨x, y, hx, hy, hf⟩ := arith_ok h
  obtain ⟨hx0, _⟩ := num_of_view hx ha
  obtain ⟨rfl, _⟩ := num_of_view hy hb
  rcases x with n | r <;> simp only [Num.toRat] at hx0
  · have : n = 0 := by exact_mod_cast hx0
    subst this
    rcases y with m | s <;> simp only [Num.toRat] at hq <;> simp only [powN] at hf
    · have hm : m ≠ 0 := by intro h0; subst h0; simp at hq
      split at hf
      · cases hf
      · split at hf
        · cases hf
          have : m.toNat ≠ 0 := by omega
          exact ⟨false, by simp [Value.view, zero_pow this]⟩
        · simp at hf
    · have hs : s.num ≠ 0 := by
        intro h0; exact hq (Rat.zero_of_num_zero h0)
      split at hf
      · rename_i hc
        split at hf
        · cases hf
        · cases hf
          have : s.num.toNat ≠ 0 := by omega
          exact ⟨false, by simp [Value.view, zero_pow this]⟩
      · split at hf
        · simp only [Int.cast_zero] at hf
          exact ⟨_, fracPowInt_zero_base hs hf⟩
        · have := floatPow_inexact hf
          subst this; simp [Value.isInexact] at hex
  · subst hx0
    rcases y with m | s <;> simp only [Num.toRat] at hq <;> simp only [powN] at hf
    · have hm : m ≠ 0 := by intro h0; subst h0; simp at hq
      exact ⟨_, fracPowInt_zero_base hm hf⟩
    · have hs : s.num ≠ 0 := by
        intro h0; exact hq (Rat.zero_of_num_zero h0)
      split at hf
      · exact ⟨_, fracPowInt_zero_base hs hf⟩
      · have := floatPow_inexact hf
        subst this; simp [Value.isInexact] at hex

/-- `1 ** x == 1` (when the result is exact) -/
theorem one_pow_left {a b v : Value} {fa : Bool} (ha : a.view = some (1, fa))
    (h : Value.pow a b = .ok v)
    (hex : v.isInexact = false) : ∃ f, v.view = some (1, f) := by
  obtain ⟨x, y, hx, hy, hf⟩ := arith_ok h
  obtain ⟨hx1, _⟩ := num_of_view hx ha
  rcases x with n | r <;> simp only [Num.toRat] at hx1
  · have : n = 1 := intCast_eq_one hx1
    subst this
    rcases y with m | s <;> simp only [powN] at hf
    · split at hf
      · cases hf
      · split at hf
        · cases hf
          exact ⟨false, by simp [Value.view]⟩
        · split at hf
          · cases hf
          · cases hf; simp [Value.isInexact] at hex
    · split at hf
      · split at hf
        · cases hf
        · cases hf
          exact ⟨false, by simp [Value.view]⟩
      · split at hf
        · simp only [Int.cast_one] at hf
          exact ⟨_, fracPowInt_one_base hf⟩
        · have := floatPow_inexact hf
          subst this; simp [Value.isInexact] at hex
  · subst hx1
    rcases y with m | s <;> simp only [powN] at hf
    · exact ⟨_, fracPowInt_one_base hf⟩
    · split at hf
      · exact ⟨_, fracPowInt_one_base hf⟩
      · have := floatPow_inexact hf
        subst this; simp [Value.isInexact] at hex

/-! ### division, power, shifts, bitwise operators -/

theorem bin_node_sound {o : BinOp} {a b : Expr} {va vb v : Value} (ha : den env a = .ok va)
    (hb : den env b = .ok vb) (h : o.apply va vb = .ok v) (hv : v.NumOrInexact) :
    ∃ w, den env (.bin o a b) = .ok w ∧ Refines w v :=
  ⟨v, by simp only [den, ha, hb, bind, Except.bind, h], Refines.refl_of hv⟩

theorem isOne_view' {e : Expr} {v : Value} {q : Rat} {f : Bool} (h1 : e.isOne = true)
    (he : den env e = .ok v) (hv : v.view = some (q, f)) : v.view = some (1, false) := by
  obtain ⟨rfl, rfl⟩ := isOne_view h1 he hv
  exact hv

theorem divD_sound {self other t : Expr} {vs vo v : Value}
    (h : divD self other = .ret t) (hs : den env self = .ok vs) (ho : den env other = .ok vo)
    (hv : Value.div vs vo = .ok v) (hex : v.isInexact = false) :
    ∃ w, den env t = .ok w ∧ Refines w v := by
  unfold divD at h
  split at h
  · cases h
  · split at h
    · rename_i h1
      cases h
      obtain ⟨x, y, _, _, _, hx, hy⟩ := arith_ok_view hv
      obtain ⟨hvv, hfa⟩ := div_one_right hx (isOne_view' h1 ho hy) hv hex
      exact ⟨vs, hs, Refines.of_view hx hvv (fun _ => rfl)⟩
    · cases h
      exact bin_node_sound hs ho hv (onValues_shape (o := .truediv) hv)

/-- reflected true division: the result is `other / self` -/
theorem rdivD_sound {self other t : Expr} {vs vo v : Value}
    (h : rdivD self other = .ret t) (hs : den env self = .ok vs) (ho : den env other = .ok vo)
    (hv : Value.div vo vs = .ok v) (hex : v.isInexact = false) :
    ∃ w, den env t = .ok w ∧ Refines w v := by
  unfold rdivD at h
  split at h
  · cases h
  · split at h
    · rename_i hz
      cases h
      obtain ⟨fl, hz0⟩ := (falsy_den other vo (by simpa [Expr.isZero] using hz) ho).of_arith_left hv
      rcases div_zero_left hz0 hv with rfl | hvv
      · simp [Value.isInexact] at hex
      · exact ⟨_, zero_den, Refines.of_view (int_view 0) (by simpa using hvv) (by simp)⟩
    · cases h
      exact bin_node_sound ho hs hv (onValues_shape (o := .truediv) hv)

/-- `x // y`; the fold `x // 1 → x` is sound only for an int/bool `x` -/
theorem floordivD_sound {self other t : Expr} {vs vo v : Value}
    (h : floordivD self other = .ret t) (hs : den env self = .ok vs) (ho : den env other = .ok vo)
    (hv : Value.floordiv vs vo = .ok v)
    (hside : other.isOne = false ∨ ∃ q, vs.view = some (q, false)) :
    ∃ w, den env t = .ok w ∧ Refines w v := by
  unfold floordivD at h
  split at h
  · cases h
  · split at h
    · rename_i h1
      cases h
      rcases hside with hside | ⟨q, hq⟩
      · rw [h1] at hside; cases hside
      · obtain ⟨x, y, _, _, _, hx, hy⟩ := arith_ok_view hv
        have := floordiv_one_right hq (isOne_view' h1 ho hy) hv
        exact ⟨vs, hs, Refines.of_view hq this id⟩
    · cases h
      exact bin_node_sound hs ho hv (onValues_shape (o := .floordiv) hv)

theorem rfloordivD_sound {self other t : Expr} {vs vo v : Value}
    (h : rfloordivD self other = .ret t) (hs : den env self = .ok vs) (ho : den env other = .ok vo)
    (hv : Value.floordiv vo vs = .ok v) : ∃ w, den env t = .ok w ∧ Refines w v := by
  unfold rfloordivD at h
  split at h
  · cases h
  · cases h
    exact bin_node_sound ho hs hv (onValues_shape (o := .floordiv) hv)

/-- `x % y`; the fold `x % 1 → 0` is sound only for an int/bool `x` -/
theorem modD_sound {self other t : Expr} {vs vo v : Value}
    (h : modD self other = .ret t) (hs : den env self = .ok vs) (ho : den env other = .ok vo)
    (hv : Value.mod vs vo = .ok v)
    (hside : other.isOne = false ∨ ∃ q, vs.view = some (q, false)) :
    ∃ w, den env t = .ok w ∧ Refines w v := by
  unfold modD at h
  split at h
  · cases h
  · split at h
    · rename_i h1
      cases h
      rcases hside with hside | ⟨q, hq⟩
      · rw [h1] at hside; cases hside
      · obtain ⟨x, y, _, _, _, hx, hy⟩ := arith_ok_view hv
        have := mod_one_right hq (isOne_view' h1 ho hy) hv
        exact ⟨_, zero_den, Refines.of_view (int_view 0) (by simpa using this) id⟩
    · cases h
      exact bin_node_sound hs ho hv (onValues_shape (o := .mod) hv)

theorem rmodD_sound {self other t : Expr} {vs vo v : Value}
    (h : rmodD self other = .ret t) (hs : den env self = .ok vs) (ho : den env other = .ok vo)
    (hv : Value.mod vo vs = .ok v) : ∃ w, den env t = .ok w ∧ Refines w v := by
  unfold rmodD at h
  split at h
  · cases h
  · cases h
    exact bin_node_sound ho hs hv (onValues_shape (o := .mod) hv)

theorem powD_sound {self other t : Expr} {vs vo v : Value}
    (h : powD self other = .ret t) (hs : den env self = .ok vs) (ho : den env other = .ok vo)
    (hv : Value.pow vs vo = .ok v) : ∃ w, den env t = .ok w ∧ Refines w v := by
  obtain ⟨x, y, _, _, _, hx, hy⟩ := arith_ok_view hv
  unfold powD at h
  split at h
  · cases h
  · split at h
    · rename_i hz
      cases h
      obtain ⟨fl, hz0⟩ := (falsy_den other vo (by simpa [Expr.isZero] using hz) ho).of_arith_right hv
      obtain ⟨f, hvv⟩ := pow_zero_right hz0 hv
      exact ⟨_, one_den, Refines.of_view (int_view 1) (by simpa using hvv) (by simp)⟩
    · split at h
      · rename_i h1
        cases h
        have := pow_one_right hx (isOne_view' h1 ho hy) hv
        exact ⟨vs, hs, Refines.of_view hx this id⟩
      · cases h
        exact bin_node_sound hs ho hv (onValues_shape (o := .pow) hv)

/-- reflected power `other ** self`; the fold `0 ** x → 0` is sound only for `x ≠ 0` -/
theorem rpowD_sound {self other t : Expr} {vs vo v : Value}
    (h : rpowD self other = .ret t) (hs : den env self = .ok vs) (ho : den env other = .ok vo)
    (hv : Value.pow vo vs = .ok v) (hex : v.isInexact = false)
    (hside : other.isZero = false ∨ vs.pyEq (.int 0) = false) :
    ∃ w, den env t = .ok w ∧ Refines w v := by
  obtain ⟨x, y, _, _, _, hx, hy⟩ := arith_ok_view hv
  unfold rpowD at h
  split at h
  · cases h
  · split at h
    · rename_i hz
      cases h
      rcases hside with hside | hside
      · rw [hz] at hside; cases hside
      · obtain ⟨fl, hz0⟩ := (falsy_den other vo (by simpa [Expr.isZero] using hz) ho).of_arith_left hv
        have hq : y.toRat ≠ 0 := by
          intro h0
          have : vs.pyEq (.int 0) = true := pyEq_zero_iff.2 ⟨_, by rw [hy, h0]⟩
          rw [this] at hside; cases hside
        obtain ⟨f, hvv⟩ := zero_pow_left hz0 hy hq hv hex
        exact ⟨_, zero_den, Refines.of_view (int_view 0) (by simpa using hvv) (by simp)⟩
    · split at h
      · rename_i h1
        cases h
        obtain ⟨f, hvv⟩ := one_pow_left (isOne_view' h1 ho hx) hv hex
        exact ⟨_, one_den, Refines.of_view (int_view 1) (by simpa using hvv) (by simp)⟩
      · cases h
        exact bin_node_sound ho hs hv (onValues_shape (o := .pow) hv)

/-! ### CPython operator dispatch -/

theorem dispatch_inv {fwd refl : Expr → Expr → Dunder} {a b t : Expr}
    (h : dispatch fwd refl a b = .ok t) :
    (a.isNode = true ∧ fwd a b = .ret t) ∨ (b.isNode = true ∧ refl b a = .ret t) := by
  unfold dispatch at h
  split at h
  · rename_i ha
    split at h
    · rename_i r hr
      cases h; exact Or.inl ⟨ha, hr⟩
    · cases h
    · split at h
      · rename_i hb
        split at h
        · rename_i r hr
          cases h; exact Or.inr ⟨hb, hr⟩
        · cases h
        · cases h
      · cases h
  · split at h
    · rename_i hb
      split at h
      · split at h
        · rename_i r hr
          cases h; exact Or.inr ⟨hb, hr⟩
        · cases h
        · cases h
      · cases h
    · cases h

def Value.isIntLike : Value → Bool
  | .int _ | .bool _ => true
  | _ => false

theorem isIntLike_view {v : Value} (h : v.isIntLike = true) : ∃ q, v.view = some (q, false) := by
  cases v <;> simp [Value.isIntLike] at h
  · exact ⟨_, rfl⟩
  · exact ⟨_, rfl⟩

/-- side conditions under which `a <op> b` on trees is claimed to agree with plain arithmetic:
exactness of the plain result where a fold is only valid on exact values, and exclusion of the
three folds that are wrong (`x // 1`, `x % 1` for non-integral `x`; `0 ** x` at `x = 0`). -/
def sideCond (o : PyBinOp) (a b : Expr) (va vb v : Value) : Bool :=
  match o with
  | .truediv => !v.isInexact
  | .floordiv => !b.isOne || va.isIntLike
  | .mod => !b.isOne || va.isIntLike
  | .pow => a.isNode || (!v.isInexact && (!a.isZero || !vb.pyEq (.int 0)))
  | _ => true

theorem mkBinD_inv {mk : Expr → Expr → Expr} {self other t : Expr}
    (h : mkBinD mk self other = .ret t) : t = mk self other := by
  unfold mkBinD at h
  split at h <;> cases h
  rfl

theorem mkBinRD_inv {mk : Expr → Expr → Expr} {self other t : Expr}
    (h : mkBinRD mk self other = .ret t) : t = mk other self := by
  unfold mkBinRD at h
  split at h <;> cases h
  rfl

theorem reduce_pair_sound {o : NaryOp} {a b : Expr} {va vb v : Value} (ha : den env a = .ok va)
    (hb : den env b = .ok vb) (h : o.apply va vb = .ok v) :
    denReduce env o [a, b] = .ok v := by
  simp only [denReduce, denFold, ha, hb, bind, Except.bind, h, pure, Except.pure]

theorem bin_sound {o : PyBinOp} {a b t : Expr} {va vb v : Value}
    (h : Ops.bin o a b = .ok t) (ha : den env a = .ok va) (hb : den env b = .ok vb)
    (hv : o.onValues va vb = .ok v) (hside : sideCond o a b va vb v = true) :
    ∃ w, den env t = .ok w ∧ Refines w v := by
  have hshape := onValues_shape hv
  cases o <;> simp only [Ops.bin] at h <;> simp only [PyBinOp.onValues] at hv <;>
    rcases dispatch_inv h with ⟨hn, hd⟩ | ⟨hn, hd⟩
  · exact addD_sound hd ha hb hv
  · exact raddD_sound hd hb ha hv
  · exact subD_sound hd ha hb hv
  · exact rsubD_sound hd hb ha hv
  · exact mulD_sound hd ha hb hv
  · exact rmulD_sound hd hb ha hv
  · exact divD_sound hd ha hb hv (by simpa [sideCond] using hside)
  · exact rdivD_sound hd hb ha hv (by simpa [sideCond] using hside)
  · refine floordivD_sound hd ha hb hv ?_
    simp only [sideCond, Bool.or_eq_true, Bool.not_eq_true'] at hside
    exact hside.imp id isIntLike_view
  · exact rfloordivD_sound hd hb ha hv
  · refine modD_sound hd ha hb hv ?_
    simp only [sideCond, Bool.or_eq_true, Bool.not_eq_true'] at hside
    exact hside.imp id isIntLike_view
  · exact rmodD_sound hd hb ha hv
  · exact powD_sound hd ha hb hv
  · simp only [sideCond, Bool.or_eq_true, Bool.and_eq_true, Bool.not_eq_true'] at hside
    rcases hside with hside | ⟨hex, hside⟩
    · -- `a` is a node: the reflected method is reached only if `powD` returned NotImplemented,
      -- which it does not for a node `b`
      exfalso
      unfold rpowD at hd
      split at hd
      · cases hd
      · rename_i hc
        have : a.isNode = false := by
          cases a <;> simp [Expr.isConstant] at hc
          rfl
        rw [this] at hside; cases hside
    · exact rpowD_sound hd hb ha hv hex hside
  · rw [mkBinD_inv hd]; exact bin_node_sound ha hb hv hshape
  · rw [mkBinRD_inv hd]; exact bin_node_sound ha hb hv hshape
  · rw [mkBinD_inv hd]; exact bin_node_sound ha hb hv hshape
  · rw [mkBinRD_inv hd]; exact bin_node_sound ha hb hv hshape
  · rw [mkBinD_inv hd]
    exact ⟨v, by simp only [den]; exact reduce_pair_sound ha hb hv, Refines.refl_of hshape⟩
  · rw [mkBinRD_inv hd]
    exact ⟨v, by simp only [den]; exact reduce_pair_sound ha hb hv, Refines.refl_of hshape⟩
  · rw [mkBinD_inv hd]
    exact ⟨v, by simp only [den]; exact reduce_pair_sound ha hb hv, Refines.refl_of hshape⟩
  · rw [mkBinRD_inv hd]
    exact ⟨v, by simp only [den]; exact reduce_pair_sound ha hb hv, Refines.refl_of hshape⟩
  · rw [mkBinD_inv hd]
    exact ⟨v, by simp only [den]; exact reduce_pair_sound ha hb hv, Refines.refl_of hshape⟩
  · rw [mkBinRD_inv hd]
    exact ⟨v, by simp only [den]; exact reduce_pair_sound ha hb hv, Refines.refl_of hshape⟩

/-! ### unary operators -/

theorem neg_view {a v : Value} (h : Value.neg a = .ok v) :
    ∃ q f, a.view = some (q, f) ∧ v.view = some (-q, f) := by
  unfold Value.neg at h
  split at h
  · cases h
  · split at h
    · rename_i n hn
      cases h
      have := num_some_view hn
      exact ⟨_, _, this, by simp [Value.view, Num.toRat, Num.isQ]⟩
    · rename_i r hr
      cases h
      have := num_some_view hr
      exact ⟨_, _, this, by simp [Value.view, Num.toRat, Num.isQ]⟩
    · split at h <;> cases h

theorem pos_view {a v : Value} (h : PyUnOp.onValue .pos a = .ok v) :
    ∃ q f, a.view = some (q, f) ∧ v.view = some (q, f) := by
  simp only [PyUnOp.onValue] at h
  split at h
  · cases h; exact ⟨_, _, rfl, rfl⟩
  · split at h
    · rename_i hs
      cases h
      cases hx : a.num? with
      | none => rw [hx] at hs; cases hs
      | some x => exact ⟨_, _, num_some_view hx, num_some_view hx⟩
    · cases h

theorem invert_shape {a v : Value} (h : Value.invert a = .ok v) : v.NumOrInexact := by
  unfold Value.invert at h
  split at h
  · cases h
  · split at h
    · cases h; exact noi_int _
    · split at h <;> cases h

theorem un_sound {o : PyUnOp} {e t : Expr} {ve v : Value}
    (h : Ops.un o e = .ok t) (he : den env e = .ok ve) (hv : o.onValue ve = .ok v) :
    ∃ w, den env t = .ok w ∧ Refines w v := by
  cases o <;> simp only [Ops.un] at h <;> split at h
  · simp only [PyUnOp.onValue] at hv
    obtain ⟨q, f, hve, hvv⟩ := neg_view hv
    obtain ⟨wn, fn, hwn, hwv, hf⟩ := negE_sound h he hve
    exact ⟨wn, hwn, Refines.of_view hwv hvv hf⟩
  · cases h
  · cases h
    obtain ⟨q, f, hve, hvv⟩ := pos_view hv
    exact ⟨ve, he, Refines.of_view hve hvv id⟩
  · cases h
  · cases h
    simp only [PyUnOp.onValue] at hv
    exact ⟨v, by simp only [den, he, bind, Except.bind, hv], Refines.refl_of (invert_shape hv)⟩
  · cases h

/-! ## Congruence of plain arithmetic for the refinement relation -/

theorem rat_floor_eq (q : Rat) : q.floor = ⌊q⌋ := rfl

theorem fdiv_eq_floor_pos (a b : Int) (hb : 0 < b) : Int.fdiv a b = ((a:Rat)/(b:Rat)).floor := by
  rw [rat_floor_eq, Int.fdiv_eq_ediv_of_nonneg _ hb.le]
  have h := Rat.floor_intCast_div_natCast a b.toNat
  have hbn : ((b.toNat : ℕ) : ℤ) = b := Int.toNat_of_nonneg hb.le
  have : ((b.toNat : ℕ) : ℚ) = (b : ℚ) := by exact_mod_cast congrArg (Int.cast (R := ℚ)) hbn
  rw [this, hbn] at h
  exact h.symm

theorem fdiv_eq_floor (a b : Int) (hb : b ≠ 0) : Int.fdiv a b = ((a:Rat)/(b:Rat)).floor := by
  rcases lt_or_gt_of_ne hb with h | h
  · have := fdiv_eq_floor_pos (-a) (-b) (by omega)
    rw [Int.neg_fdiv_neg] at this
    rw [this]
    congr 1
    push_cast
    rw [neg_div_neg_eq]
  · exact fdiv_eq_floor_pos a b h

/-! ### congruence: refined operands give refined results -/

/-- tree-side numeral `x'` against plain-side numeral `x`: equal, or an int standing for the
Fraction of the same value -/
def NumRef (x' x : Num) : Prop := x' = x ∨ ∃ n : Int, x' = .i n ∧ x = .q (n : Rat)

theorem Refines.numRef {w v : Value} {x : Num} (h : Refines w v) (hx : v.num? = some x) :
    ∃ x', w.num? = some x' ∧ NumRef x' x := by
  have hv := num_some_view hx
  obtain ⟨fw, hw, hf⟩ := h.view_right hv
  obtain ⟨x', hx', hq, hfq⟩ := view_iff_num.1 hw
  refine ⟨x', hx', ?_⟩
  rcases x' with n' | r' <;> rcases x with n | r <;> simp only [Num.toRat, Num.isQ] at hq hfq hf
  · left; congr 1; exact_mod_cast hq
  · right; exact ⟨n', rfl, by rw [hq]⟩
  · subst hfq; simp at hf
  · left; rw [hq]

/-- result of the tree-side operation against the plain result `v` -/
def Res (w v : Value) : Prop := Refines w v ∨ w = .inexact

theorem arith_congr {f : Num → Num → R}
    (hshape : ∀ x y v, f x y = .ok v → v.NumOrInexact)
    (H1 : ∀ (n : Int) (y' y : Num) (v : Value), NumRef y' y → f (.q (n : Rat)) y = .ok v →
      ∃ w, f (.i n) y' = .ok w ∧ Res w v)
    (H2 : ∀ (x : Num) (m : Int) (v : Value), f x (.q (m : Rat)) = .ok v →
      ∃ w, f x (.i m) = .ok w ∧ Res w v)
    {wa wb va vb v : Value} (ha : Refines wa va) (hb : Refines wb vb)
    (h : arith f va vb = .ok v) : ∃ w, arith f wa wb = .ok w ∧ Res w v := by
  obtain ⟨x, y, hx, hy, hf⟩ := arith_ok h
  obtain ⟨x', hx', hxr⟩ := ha.numRef hx
  obtain ⟨y', hy', hyr⟩ := hb.numRef hy
  rw [arith_num hx' hy']
  rcases hxr with rfl | ⟨n, rfl, rfl⟩
  · rcases hyr with rfl | ⟨m, rfl, rfl⟩
    · exact ⟨v, hf, Or.inl (Refines.refl_of (hshape _ _ _ hf))⟩
    · exact H2 _ _ _ hf
  · exact H1 _ _ _ _ hyr hf

theorem Res.int_frac {n : Int} {q : Rat} (h : (n : Rat) = q) : Res (.int n) (.frac q) :=
  Or.inl (Refines.of_view (int_view n) (by rw [h]; rfl) (by simp))

theorem Res.same {v : Value} (h : v.NumOrInexact) : Res v v := Or.inl (Refines.refl_of h)

theorem numRef_toRat {y' y : Num} (h : NumRef y' y) : y'.toRat = y.toRat := by
  rcases h with rfl | ⟨n, rfl, rfl⟩ <;> rfl

theorem divN_shape {x y : Num} {v : Value} (hf : divN x y = .ok v) : v.NumOrInexact := by
  rcases x with a | a <;> rcases y with b | b <;> simp only [divN] at hf <;> split at hf <;>
    cases hf <;> first | exact noi_inexact | exact noi_frac _

theorem floordivN_shape {x y : Num} {v : Value} (hf : floordivN x y = .ok v) : v.NumOrInexact := by
  rcases x with a | a <;> rcases y with b | b <;> simp only [floordivN] at hf <;> split at hf <;>
    cases hf <;> exact noi_int _

theorem modN_shape {x y : Num} {v : Value} (hf : modN x y = .ok v) : v.NumOrInexact := by
  rcases x with a | a <;> rcases y with b | b <;> simp only [modN] at hf <;> split at hf <;>
    cases hf <;> first | exact noi_int _ | exact noi_frac _

theorem div_congr {wa wb va vb v : Value} (ha : Refines wa va) (hb : Refines wb vb)
    (h : Value.div va vb = .ok v) : ∃ w, Value.div wa wb = .ok w ∧ Res w v := by
  refine arith_congr (fun x y v h => divN_shape h) ?_ ?_ ha hb h
  · intro n y' y v hy hf
    have hyq := numRef_toRat hy
    simp only [divN] at hf
    split at hf
    · cases hf
    · rename_i hy0
      cases hf
      rcases y' with m | s
      · have hyq : (m : Rat) = y.toRat := hyq
        have : m ≠ 0 := by
          intro h0; subst h0; apply hy0; rw [← hyq]; simp
        exact ⟨.inexact, by simp [divN, this, pure, Except.pure], Or.inr rfl⟩
      · have hyq : s = y.toRat := hyq
        have hs0 : ¬ s = 0 := by rw [hyq]; exact hy0
        refine ⟨.frac ((n : Rat) / s), by simp [divN, Num.toRat, hs0, pure, Except.pure], ?_⟩
        rw [hyq]; exact Res.same (noi_frac _)
  · intro x m v hf
    simp only [divN] at hf
    split at hf
    · cases hf
    · rename_i hm0
      cases hf
      simp only [Num.toRat] at hm0
      have hm : m ≠ 0 := by intro h0; subst h0; simp at hm0
      rcases x with a | r
      · exact ⟨.inexact, by simp [divN, hm, pure, Except.pure], Or.inr rfl⟩
      · exact ⟨_, by simp [divN, Num.toRat, hm, pure, Except.pure], Res.same (noi_frac _)⟩

theorem floordiv_congr {wa wb va vb v : Value} (ha : Refines wa va) (hb : Refines wb vb)
    (h : Value.floordiv va vb = .ok v) : ∃ w, Value.floordiv wa wb = .ok w ∧ Res w v := by
  refine arith_congr (fun x y v h => floordivN_shape h) ?_ ?_ ha hb h
  · intro n y' y v hy hf
    have hyq := numRef_toRat hy
    simp only [floordivN] at hf
    split at hf
    · cases hf
    · rename_i hy0
      cases hf
      rcases y' with m | s
      · have hyq : (m : Rat) = y.toRat := hyq
        have : m ≠ 0 := by
          intro h0; subst h0; apply hy0; rw [← hyq]; simp
        refine ⟨.int (Int.fdiv n m), by simp [floordivN, this, pure, Except.pure], ?_⟩
        rw [fdiv_eq_floor n m this, hyq]
        exact Res.same (noi_int _)
      · have hyq : s = y.toRat := hyq
        have hs0 : ¬ s = 0 := by rw [hyq]; exact hy0
        refine ⟨.int ((n : Rat) / s).floor, by simp [floordivN, Num.toRat, hs0, pure, Except.pure], ?_⟩
        rw [hyq]; exact Res.same (noi_int _)
  · intro x m v hf
    simp only [floordivN] at hf
    split at hf
    · cases hf
    · rename_i hm0
      cases hf
      simp only [Num.toRat] at hm0
      have hm : m ≠ 0 := by intro h0; subst h0; simp at hm0
      rcases x with a | r
      · refine ⟨.int (Int.fdiv a m), by simp [floordivN, hm, pure, Except.pure], ?_⟩
        rw [fdiv_eq_floor a m hm]
        exact Res.same (noi_int _)
      · exact ⟨_, by simp [floordivN, Num.toRat, hm, pure, Except.pure], Res.same (noi_int _)⟩

theorem fmod_cast (a m : Int) (hm : m ≠ 0) :
    ((Int.fmod a m : Int) : Rat) = (a : Rat) - (m : Rat) * ((((a : Rat) / (m : Rat)).floor : Int) : Rat) := by
  rw [← fdiv_eq_floor a m hm, Int.fmod_def]
  push_cast; ring

theorem mod_congr {wa wb va vb v : Value} (ha : Refines wa va) (hb : Refines wb vb)
    (h : Value.mod va vb = .ok v) : ∃ w, Value.mod wa wb = .ok w ∧ Res w v := by
  refine arith_congr (fun x y v h => modN_shape h) ?_ ?_ ha hb h
  · intro n y' y v hy hf
    have hyq := numRef_toRat hy
    simp only [modN] at hf
    split at hf
    · cases hf
    · rename_i hy0
      cases hf
      rcases y' with m | s
      · have hyq : (m : Rat) = y.toRat := hyq
        have : m ≠ 0 := by
          intro h0; subst h0; apply hy0; rw [← hyq]; simp
        refine ⟨.int (Int.fmod n m), by simp [modN, this, pure, Except.pure], ?_⟩
        apply Res.int_frac
        rw [fmod_cast n m this, hyq]; rfl
      · have hyq : s = y.toRat := hyq
        have hs0 : ¬ s = 0 := by rw [hyq]; exact hy0
        refine ⟨.frac ((n : Rat) - s * ((((n : Rat) / s).floor : Int) : Rat)), by simp [modN, Num.toRat, hs0, pure, Except.pure], ?_⟩
        rw [hyq]; exact Res.same (noi_frac _)
  · intro x m v hf
    simp only [modN] at hf
    split at hf
    · cases hf
    · rename_i hm0
      cases hf
      simp only [Num.toRat] at hm0
      have hm : m ≠ 0 := by intro h0; subst h0; simp at hm0
      rcases x with a | r
      · refine ⟨.int (Int.fmod a m), by simp [modN, hm, pure, Except.pure], ?_⟩
        apply Res.int_frac
        rw [fmod_cast a m hm]; rfl
      · exact ⟨_, by simp [modN, Num.toRat, hm, pure, Except.pure], Res.same (noi_frac _)⟩

theorem fracPowInt_int {n b : Int} {v : Value} (h : fracPowInt (n : Rat) b = .ok v) :
    ∃ w, powN (.i n) (.i b) = .ok w ∧ Res w v := by
  unfold fracPowInt at h
  simp only [powN]
  split at h
  · cases h
  · rename_i hl
    rw [if_neg hl]
    split at h
    · rename_i hb
      cases h
      rw [if_pos hb]
      exact ⟨_, rfl, Res.int_frac (by push_cast; rfl)⟩
    · rename_i hb
      rw [if_neg hb]
      split at h
      · cases h
      · rename_i hn
        cases h
        have : n ≠ 0 := by intro h0; subst h0; simp at hn
        rw [if_neg this]
        exact ⟨_, rfl, Or.inr rfl⟩

theorem numRef_i {y' : Num} {b : Int} (h : NumRef y' (.i b)) : y' = .i b := by
  rcases h with rfl | ⟨n, _, h⟩
  · rfl
  · cases h

theorem pow_congr {wa wb va vb v : Value} (ha : Refines wa va) (hb : Refines wb vb)
    (h : Value.pow va vb = .ok v) : ∃ w, Value.pow wa wb = .ok w ∧ Res w v := by
  refine arith_congr (fun x y v h => powN_shape h) ?_ ?_ ha hb h
  · intro n y' y v hy hf
    rcases y with b | s
    · obtain rfl := numRef_i hy
      simp only [powN] at hf
      exact fracPowInt_int hf
    · simp only [powN] at hf
      rcases hy with rfl | ⟨m, rfl, hs⟩
      · simp only [powN]
        split at hf
        · rename_i hden
          by_cases hnum : s.num ≥ 0
          · rw [if_pos ⟨hden, hnum⟩]
            unfold fracPowInt at hf
            split at hf
            · cases hf
            · rename_i hl
              rw [if_neg hl]
              cases hf
              exact ⟨_, rfl, Res.int_frac (by push_cast; rfl)⟩
          · rw [if_neg (fun h => hnum h.2), if_pos hden]
            exact ⟨v, hf, Res.same (fracPowInt_shape hf)⟩
        · rename_i hden
          rw [if_neg (fun h => hden h.1), if_neg hden]
          exact ⟨v, hf, Res.same (floatPow_shape hf)⟩
      · cases hs
        have hden : ((m : Rat)).den = 1 := Rat.den_intCast m
        have hnum : ((m : Rat)).num = m := Rat.num_intCast m
        generalize (m : Rat) = s at hf hden hnum
        subst hnum
        rw [if_pos hden] at hf
        exact fracPowInt_int hf
  · intro x m v hf
    have hden : ((m : Rat)).den = 1 := Rat.den_intCast m
    have hnum : ((m : Rat)).num = m := Rat.num_intCast m
    generalize (m : Rat) = s at hf hden hnum
    subst hnum
    rcases x with a | a
    · simp only [powN] at hf ⊢
      by_cases hm : s.num ≥ 0
      · rw [if_pos ⟨hden, hm⟩] at hf
        split at hf
        · cases hf
        · rename_i hl
          cases hf
          exact ⟨_, by rw [if_neg hl, if_pos hm]; rfl, Res.same (noi_int _)⟩
      · rw [if_neg (fun h => hm h.2), if_pos hden] at hf
        exact fracPowInt_int hf
    · simp only [powN] at hf ⊢
      rw [if_pos hden] at hf
      exact ⟨v, hf, Res.same (fracPowInt_shape hf)⟩

theorem intOnly_congr {g : Int → Int → R} (hg : ∀ a b v, g a b = .ok v → v.NumOrInexact)
    {wa wb va vb v : Value} (ha : Refines wa va) (hb : Refines wb vb)
    (h : arith (intOnly g) va vb = .ok v) : ∃ w, arith (intOnly g) wa wb = .ok w ∧ Res w v := by
  refine arith_congr (fun x y v h => intOnly_shape hg h) ?_ ?_ ha hb h
  · intro n y' y v _ hf
    cases y <;> cases hf
  · intro x m v hf
    cases x <;> cases hf

theorem add_congr {wa wb va vb v : Value} (ha : Refines wa va) (hb : Refines wb vb)
    (h : Value.add va vb = .ok v) : ∃ w, Value.add wa wb = .ok w ∧ Res w v := by
  obtain ⟨qa, fa, qb, fb, hva, hvb, hvv⟩ := add_view h
  obtain ⟨fwa, hwa, hfa⟩ := ha.view_right hva
  obtain ⟨fwb, hwb, hfb⟩ := hb.view_right hvb
  obtain ⟨w, hw, hwv⟩ := add_spec hwa hwb
  refine ⟨w, hw, Or.inl (Refines.of_view hwv hvv ?_)⟩
  intro hh
  simp only [Bool.or_eq_true] at hh ⊢
  exact hh.imp hfa hfb

theorem sub_congr {wa wb va vb v : Value} (ha : Refines wa va) (hb : Refines wb vb)
    (h : Value.sub va vb = .ok v) : ∃ w, Value.sub wa wb = .ok w ∧ Res w v := by
  obtain ⟨qa, fa, qb, fb, hva, hvb, hvv⟩ := sub_view h
  obtain ⟨fwa, hwa, hfa⟩ := ha.view_right hva
  obtain ⟨fwb, hwb, hfb⟩ := hb.view_right hvb
  obtain ⟨w, hw, hwv⟩ := sub_spec hwa hwb
  refine ⟨w, hw, Or.inl (Refines.of_view hwv hvv ?_)⟩
  intro hh
  simp only [Bool.or_eq_true] at hh ⊢
  exact hh.imp hfa hfb

theorem mul_congr {wa wb va vb v : Value} (ha : Refines wa va) (hb : Refines wb vb)
    (h : Value.mul va vb = .ok v) : ∃ w, Value.mul wa wb = .ok w ∧ Res w v := by
  obtain ⟨qa, fa, qb, fb, hva, hvb, hvv⟩ := mul_view h
  obtain ⟨fwa, hwa, hfa⟩ := ha.view_right hva
  obtain ⟨fwb, hwb, hfb⟩ := hb.view_right hvb
  obtain ⟨w, hw, hwv⟩ := mul_spec hwa hwb
  refine ⟨w, hw, Or.inl (Refines.of_view hwv hvv ?_)⟩
  intro hh
  simp only [Bool.or_eq_true] at hh ⊢
  exact hh.imp hfa hfb

/-! bitwise operators: via the integer view -/

def b2i (b : Bool) : Int := if b then 1 else 0

def Value.int? : Value → Option Int
  | .int n => some n
  | .bool b => some (b2i b)
  | _ => Option.none

theorem int?_view {v : Value} {k : Int} (h : v.int? = some k) : v.view = some ((k : Rat), false) := by
  cases v <;> simp only [Value.int?, Option.some.injEq, reduceCtorEq] at h <;> subst h <;> rfl

theorem int?_num {v : Value} {k : Int} (h : v.int? = some k) : v.num? = some (.i k) := by
  cases v <;> simp only [Value.int?, Option.some.injEq, reduceCtorEq] at h <;> subst h <;> rfl

theorem num_int? {v : Value} {k : Int} (h : v.num? = some (.i k)) : v.int? = some k := by
  cases v <;> simp only [Value.num?, Option.some.injEq, Num.i.injEq, reduceCtorEq] at h <;>
    subst h <;> rfl

theorem Refines.int? {w v : Value} {k : Int} (h : Refines w v) (hv : v.int? = some k) :
    w.int? = some k := by
  obtain ⟨x', hx', hr⟩ := h.numRef (int?_num hv)
  rcases hr with rfl | ⟨n, _, h⟩
  · exact num_int? hx'
  · cases h

theorem Refines.of_int? {w v : Value} {k : Int} (hw : w.int? = some k) (hv : v.int? = some k) :
    Refines w v := Refines.of_view (int?_view hw) (int?_view hv) id

theorem bitop_ok {fi : Int → Int → Int} {fb : Bool → Bool → Bool}
    (hc : ∀ x y, fi (b2i x) (b2i y) = b2i (fb x y)) {a b v : Value}
    (h : bitop fi fb a b = .ok v) :
    ∃ m n, a.int? = some m ∧ b.int? = some n ∧ v.int? = some (fi m n) := by
  unfold bitop at h
  split at h
  · cases h
    exact ⟨_, _, rfl, rfl, by simp [Value.int?, hc]⟩
  · obtain ⟨x, y, hx, hy, hf⟩ := arith_ok h
    rcases x with m | r <;> rcases y with n | s <;> simp only [intOnly] at hf <;> cases hf
    exact ⟨m, n, num_int? hx, num_int? hy, rfl⟩

theorem bitop_of_int {fi : Int → Int → Int} {fb : Bool → Bool → Bool}
    (hc : ∀ x y, fi (b2i x) (b2i y) = b2i (fb x y)) {a b : Value} {m n : Int}
    (ha : a.int? = some m) (hb : b.int? = some n) :
    ∃ v, bitop fi fb a b = .ok v ∧ v.int? = some (fi m n) := by
  unfold bitop
  split
  · simp only [Value.int?, Option.some.injEq] at ha hb
    subst ha; subst hb
    exact ⟨_, rfl, by simp [Value.int?, hc]⟩
  · rw [arith_num (int?_num ha) (int?_num hb)]
    exact ⟨_, rfl, rfl⟩

theorem bitop_congr {fi : Int → Int → Int} {fb : Bool → Bool → Bool}
    (hc : ∀ x y, fi (b2i x) (b2i y) = b2i (fb x y)) {wa wb va vb v : Value}
    (ha : Refines wa va) (hb : Refines wb vb) (h : bitop fi fb va vb = .ok v) :
    ∃ w, bitop fi fb wa wb = .ok w ∧ Res w v := by
  obtain ⟨m, n, hm, hn, hv⟩ := bitop_ok hc h
  obtain ⟨w, hw, hwv⟩ := bitop_of_int hc (ha.int? hm) (hb.int? hn)
  exact ⟨w, hw, Or.inl (Refines.of_int? hwv hv)⟩

theorem land_compat : ∀ x y, Int.land' (b2i x) (b2i y) = b2i (x && y) := by decide
theorem lor_compat : ∀ x y, Int.lor' (b2i x) (b2i y) = b2i (x || y) := by decide
theorem xor_compat : ∀ x y, Int.xor' (b2i x) (b2i y) = b2i (x != y) := by decide

/-- every binary operator is monotone for refinement: refined operands give a refined result,
or the float abstraction -/
theorem onValues_congr {o : PyBinOp} {wa wb va vb v : Value} (ha : Refines wa va)
    (hb : Refines wb vb) (h : o.onValues va vb = .ok v) :
    ∃ w, o.onValues wa wb = .ok w ∧ Res w v := by
  cases o <;> simp only [PyBinOp.onValues] at h ⊢
  · exact add_congr ha hb h
  · exact sub_congr ha hb h
  · exact mul_congr ha hb h
  · exact div_congr ha hb h
  · exact floordiv_congr ha hb h
  · exact mod_congr ha hb h
  · exact pow_congr ha hb h
  · refine intOnly_congr ?_ ha hb h
    intro a b v hg
    split at hg
    · cases hg
    · split at hg <;> cases hg
      exact noi_int _
  · refine intOnly_congr ?_ ha hb h
    intro a b v hg
    split at hg
    · cases hg
    · split at hg <;> cases hg
      exact noi_int _
  · exact bitop_congr land_compat ha hb h
  · exact bitop_congr lor_compat ha hb h
  · exact bitop_congr xor_compat ha hb h


/-! ## Two-level soundness: operands of the tree refine the operands of the plain computation -/

theorem Res.of_refines {w w' v : Value} (h1 : Refines w w') (h2 : Res w' v) : Res w v := by
  rcases h2 with h2 | rfl
  · exact Or.inl (h1.trans h2)
  · rcases h1 with ⟨rfl, _⟩ | ⟨q, fw, fv, _, hv, _⟩
    · exact Or.inr rfl
    · simp [Value.view] at hv

theorem div_view {a b v : Value} (h : Value.div a b = .ok v) :
    ∃ qa fa qb fb, a.view = some (qa, fa) ∧ b.view = some (qb, fb) ∧
      (v = .inexact ∨ v.view = some (qa / qb, true)) := by
  obtain ⟨x, y, _, _, hf, hx, hy⟩ := arith_ok_view h
  refine ⟨_, _, _, _, hx, hy, ?_⟩
  rcases x with a | a <;> rcases y with b | b <;> simp only [divN] at hf <;> split at hf <;>
    cases hf <;> first | exact Or.inl rfl | exact Or.inr rfl

theorem not_inexact_view {v : Value} (h : v = .inexact ∨ ∃ q f, v.view = some (q, f))
    (hex : v.isInexact = false) : ∃ q f, v.view = some (q, f) := by
  rcases h with rfl | h
  · simp [Value.isInexact] at hex
  · exact h

/-- `x ** 1 == x` for any representation of the exponent one -/
theorem pow_one_right' {a b v : Value} {qa : Rat} {fa fb : Bool} (ha : a.view = some (qa, fa))
    (hb : b.view = some (1, fb)) (h : Value.pow a b = .ok v) :
    v.view = some (qa, fa) := by
  obtain ⟨x, y, hx, hy, hf⟩ := arith_ok h
  obtain ⟨rfl, rfl⟩ := num_of_view hx ha
  obtain ⟨hy1, hyq⟩ := num_of_view hy hb
  rcases y with m | s
  · have : m = 1 := intCast_eq_one hy1
    subst this
    rcases x with n | r <;> simp only [powN] at hf
    · simp [bigLimit, pure, Except.pure] at hf
      subst hf; simp [Value.view, Num.toRat, Num.isQ]
    · simpa [Num.toRat, Num.isQ] using fracPowInt_one hf
  · have : s = 1 := hy1
    subst this
    rcases x with n | r <;> simp only [powN] at hf
    · simp [bigLimit, pure, Except.pure] at hf
      subst hf; simp [Value.view, Num.toRat, Num.isQ]
    · simp only [Rat.den_one, Rat.num_one, if_true] at hf
      simpa [Num.toRat, Num.isQ] using fracPowInt_one hf

theorem bin_node_congr {o : BinOp} {a b : Expr} {wa wb w : Value} (ha : den env a = .ok wa)
    (hb : den env b = .ok wb) (h : o.apply wa wb = .ok w) :
    den env (.bin o a b) = .ok w := by
  simp only [den, ha, hb, bind, Except.bind, h]

theorem divD_sound2 {self other t : Expr} {ws wo vs vo v : Value}
    (h : divD self other = .ret t) (hs : den env self = .ok ws) (ho : den env other = .ok wo)
    (hrs : Refines ws vs) (hro : Refines wo vo)
    (hv : Value.div vs vo = .ok v) (hex : v.isInexact = false) :
    ∃ w, den env t = .ok w ∧ Res w v := by
  unfold divD at h
  split at h
  · cases h
  · split at h
    · rename_i h1
      cases h
      obtain ⟨qs, fs, qo, fo, hvs, hvo, hvv⟩ := div_view hv
      obtain ⟨fws, hws, _⟩ := hrs.view_right hvs
      obtain ⟨fwo, hwo, _⟩ := hro.view_right hvo
      obtain ⟨rfl, _⟩ := isOne_view h1 ho hwo
      rcases hvv with rfl | hvv
      · simp [Value.isInexact] at hex
      · exact ⟨ws, hs, Or.inl (Refines.of_view hws (by simpa using hvv) (fun _ => rfl))⟩
    · cases h
      obtain ⟨w, hw, hres⟩ := div_congr hrs hro hv
      exact ⟨w, bin_node_congr hs ho hw, hres⟩

theorem rdivD_sound2 {self other t : Expr} {ws wo vs vo v : Value}
    (h : rdivD self other = .ret t) (hs : den env self = .ok ws) (ho : den env other = .ok wo)
    (hrs : Refines ws vs) (hro : Refines wo vo)
    (hv : Value.div vo vs = .ok v) (hex : v.isInexact = false) :
    ∃ w, den env t = .ok w ∧ Res w v := by
  unfold rdivD at h
  split at h
  · cases h
  · split at h
    · rename_i hz
      cases h
      obtain ⟨qo, fo, qs, fs, hvo, hvs, hvv⟩ := div_view hv
      obtain ⟨fwo, hwo, _⟩ := hro.view_right hvo
      have := (falsy_den other wo (by simpa [Expr.isZero] using hz) ho).view hwo
      subst this
      rcases hvv with rfl | hvv
      · simp [Value.isInexact] at hex
      · exact ⟨_, zero_den, Or.inl (Refines.of_view (int_view 0) (by simpa using hvv) (by simp))⟩
    · cases h
      obtain ⟨w, hw, hres⟩ := div_congr hro hrs hv
      exact ⟨w, bin_node_congr ho hs hw, hres⟩

theorem powD_sound2 {self other t : Expr} {ws wo vs vo v : Value}
    (h : powD self other = .ret t) (hs : den env self = .ok ws) (ho : den env other = .ok wo)
    (hrs : Refines ws vs) (hro : Refines wo vo)
    (hv : Value.pow vs vo = .ok v) : ∃ w, den env t = .ok w ∧ Res w v := by
  obtain ⟨x, y, _, _, _, hvs, hvo⟩ := arith_ok_view hv
  obtain ⟨fws, hws, hfs⟩ := hrs.view_right hvs
  obtain ⟨fwo, hwo, _⟩ := hro.view_right hvo
  unfold powD at h
  split at h
  · cases h
  · split at h
    · rename_i hz
      cases h
      have h0 := (falsy_den other wo (by simpa [Expr.isZero] using hz) ho).view hwo
      rw [h0] at hvo
      obtain ⟨f, hvv⟩ := pow_zero_right hvo hv
      exact ⟨_, one_den, Or.inl (Refines.of_view (int_view 1) (by simpa using hvv) (by simp))⟩
    · split at h
      · rename_i h1
        cases h
        obtain ⟨h1', _⟩ := isOne_view h1 ho hwo
        rw [h1'] at hvo
        have := pow_one_right' hvs hvo hv
        exact ⟨ws, hs, Or.inl (Refines.of_view hws this hfs)⟩
      · cases h
        obtain ⟨w, hw, hres⟩ := pow_congr hrs hro hv
        exact ⟨w, bin_node_congr hs ho hw, hres⟩

theorem rpowD_sound2 {self other t : Expr} {ws wo vs vo v : Value}
    (h : rpowD self other = .ret t) (hs : den env self = .ok ws) (ho : den env other = .ok wo)
    (hrs : Refines ws vs) (hro : Refines wo vo)
    (hv : Value.pow vo vs = .ok v) (hex : v.isInexact = false)
    (hside : other.isZero = false ∨ vs.pyEq (.int 0) = false) :
    ∃ w, den env t = .ok w ∧ Res w v := by
  obtain ⟨x, y, _, _, _, hvo, hvs⟩ := arith_ok_view hv
  obtain ⟨fwo, hwo, _⟩ := hro.view_right hvo
  unfold rpowD at h
  split at h
  · cases h
  · split at h
    · rename_i hz
      cases h
      rcases hside with hside | hside
      · rw [hz] at hside; cases hside
      · have h0 := (falsy_den other wo (by simpa [Expr.isZero] using hz) ho).view hwo
        rw [h0] at hvo
        have hq : y.toRat ≠ 0 := by
          intro h0
          have : vs.pyEq (.int 0) = true := pyEq_zero_iff.2 ⟨_, by rw [hvs, h0]⟩
          rw [this] at hside; cases hside
        obtain ⟨f, hvv⟩ := zero_pow_left hvo hvs hq hv hex
        exact ⟨_, zero_den, Or.inl (Refines.of_view (int_view 0) (by simpa using hvv) (by simp))⟩
    · split at h
      · rename_i h1
        cases h
        obtain ⟨h1', _⟩ := isOne_view h1 ho hwo
        rw [h1'] at hvo
        obtain ⟨f, hvv⟩ := one_pow_left hvo hv hex
        exact ⟨_, one_den, Or.inl (Refines.of_view (int_view 1) (by simpa using hvv) (by simp))⟩
      · cases h
        obtain ⟨w, hw, hres⟩ := pow_congr hro hrs hv
        exact ⟨w, bin_node_congr ho hs hw, hres⟩

theorem isIntLike_iff_int? {v : Value} : v.isIntLike = true ↔ ∃ k, v.int? = some k := by
  cases v <;> simp [Value.isIntLike, Value.int?]

theorem Refines.isIntLike {w v : Value} (h : Refines w v) (hv : v.isIntLike = true) :
    w.isIntLike = true := by
  obtain ⟨k, hk⟩ := isIntLike_iff_int?.1 hv
  exact isIntLike_iff_int?.2 ⟨k, h.int? hk⟩

/-- Soundness of a binary operator when the operands of the tree only *refine* the operands of
the plain computation.  The side condition is stated on the plain values. -/
theorem bin_sound_refines {o : PyBinOp} {a b t : Expr} {wa wb va vb v : Value}
    (h : Ops.bin o a b = .ok t) (ha : den env a = .ok wa) (hb : den env b = .ok wb)
    (hra : Refines wa va) (hrb : Refines wb vb)
    (hv : o.onValues va vb = .ok v) (hside : sideCond o a b va vb v = true) :
    ∃ w, den env t = .ok w ∧ Res w v := by
  have generic : (∀ w', sideCond o a b wa wb w' = true) → ∃ w, den env t = .ok w ∧ Res w v := by
    intro hs
    obtain ⟨w', hw', hres⟩ := onValues_congr hra hrb hv
    obtain ⟨w, hw, href⟩ := bin_sound h ha hb hw' (hs w')
    exact ⟨w, hw, Res.of_refines href hres⟩
  cases o
  case truediv =>
    simp only [Ops.bin] at h
    simp only [PyBinOp.onValues] at hv
    have hex : v.isInexact = false := by simpa [sideCond] using hside
    rcases dispatch_inv h with ⟨_, hd⟩ | ⟨_, hd⟩
    · exact divD_sound2 hd ha hb hra hrb hv hex
    · exact rdivD_sound2 hd hb ha hrb hra hv hex
  case pow =>
    simp only [Ops.bin] at h
    simp only [PyBinOp.onValues] at hv
    rcases dispatch_inv h with ⟨_, hd⟩ | ⟨_, hd⟩
    · exact powD_sound2 hd ha hb hra hrb hv
    · simp only [sideCond, Bool.or_eq_true, Bool.and_eq_true, Bool.not_eq_true'] at hside
      rcases hside with hside | ⟨hex, hside⟩
      · exfalso
        unfold rpowD at hd
        split at hd
        · cases hd
        · rename_i hc
          have : a.isNode = false := by
            cases a <;> simp [Expr.isConstant] at hc
            rfl
          rw [this] at hside; cases hside
      · exact rpowD_sound2 hd hb ha hrb hra hv hex hside
  case floordiv =>
    apply generic
    intro w'
    simp only [sideCond, Bool.or_eq_true, Bool.not_eq_true'] at hside ⊢
    exact hside.imp id hra.isIntLike
  case mod =>
    apply generic
    intro w'
    simp only [sideCond, Bool.or_eq_true, Bool.not_eq_true'] at hside ⊢
    exact hside.imp id hra.isIntLike
  all_goals exact generic (fun _ => rfl)

/-! ### unary operators, two-level -/

theorem neg_spec {a : Value} {q : Rat} {f : Bool} (ha : a.view = some (q, f)) :
    ∃ r, Value.neg a = .ok r ∧ r.view = some (-q, f) := by
  rcases view_cases ha with ⟨n, rfl, rfl, rfl⟩ | ⟨b, rfl, rfl, rfl⟩ | ⟨rfl, rfl⟩
  · exact ⟨.int (-n), rfl, by simp [Value.view]⟩
  · exact ⟨.int (-(if b then 1 else 0)), rfl, by simp [Value.view]⟩
  · exact ⟨.frac (-q), rfl, rfl⟩

theorem pos_spec {a : Value} {q : Rat} {f : Bool} (ha : a.view = some (q, f)) :
    ∃ r, PyUnOp.onValue .pos a = .ok r ∧ r.view = some (q, f) := by
  rcases view_cases ha with ⟨n, rfl, rfl, rfl⟩ | ⟨b, rfl, rfl, rfl⟩ | ⟨rfl, rfl⟩
  · exact ⟨.int n, rfl, rfl⟩
  · exact ⟨.int (if b then 1 else 0), rfl, rfl⟩
  · exact ⟨.frac q, rfl, rfl⟩

theorem invert_int? {a v : Value} (h : Value.invert a = .ok v) :
    ∃ n, a.int? = some n ∧ v = .int (-n - 1) := by
  unfold Value.invert at h
  split at h
  · cases h
  · split at h
    · rename_i n hn
      cases h
      exact ⟨n, num_int? hn, rfl⟩
    · split at h <;> cases h

theorem invert_of_int? {a : Value} {n : Int} (h : a.int? = some n) :
    Value.invert a = .ok (.int (-n - 1)) := by
  cases a <;> simp only [Value.int?, Option.some.injEq, reduceCtorEq] at h <;> subst h <;> rfl

theorem un_congr {o : PyUnOp} {we ve v : Value} (hr : Refines we ve) (h : o.onValue ve = .ok v) :
    ∃ w, o.onValue we = .ok w ∧ Refines w v := by
  cases o
  · simp only [PyUnOp.onValue] at h ⊢
    obtain ⟨q, f, hve, hvv⟩ := neg_view h
    obtain ⟨fw, hwe, hf⟩ := hr.view_right hve
    obtain ⟨r, hr', hrv⟩ := neg_spec hwe
    exact ⟨r, hr', Refines.of_view hrv hvv hf⟩
  · obtain ⟨q, f, hve, hvv⟩ := pos_view h
    obtain ⟨fw, hwe, hf⟩ := hr.view_right hve
    obtain ⟨r, hr', hrv⟩ := pos_spec hwe
    exact ⟨r, hr', Refines.of_view hrv hvv hf⟩
  · simp only [PyUnOp.onValue] at h ⊢
    obtain ⟨n, hn, rfl⟩ := invert_int? h
    exact ⟨_, invert_of_int? (hr.int? hn), Refines.refl_of (noi_int _)⟩

theorem un_sound_refines {o : PyUnOp} {e t : Expr} {we ve v : Value}
    (h : Ops.un o e = .ok t) (he : den env e = .ok we) (hr : Refines we ve)
    (hv : o.onValue ve = .ok v) : ∃ w, den env t = .ok w ∧ Refines w v := by
  obtain ⟨w', hw', href'⟩ := un_congr hr hv
  obtain ⟨w, hw, href⟩ := un_sound h he hw'
  exact ⟨w, hw, href.trans href'⟩

/-! ## Operator programs -/

/-- the same computation on plain Python numbers: leaves are evaluated, operators applied to
the values -/
def OpProg.plain (env : Env) : OpProg → R
  | .leaf e => den env e
  | .bin o p q => do
      let a ← OpProg.plain env p
      let b ← OpProg.plain env q
      o.onValues a b
  | .un o p => do
      let a ← OpProg.plain env p
      o.onValue a

/-- `sideCond` holds at every binary operator of the program (in particular the three wrong folds
`x // 1`, `x % 1` on a non-integral `x`, `0 ** x` at `x = 0` are not exercised, and quotients
are exact). -/
def OpProg.sideOK (env : Env) : OpProg → Bool
  | .leaf _ => true
  | .bin o p q => OpProg.sideOK env p && OpProg.sideOK env q &&
      (match p.build, q.build, OpProg.plain env p, OpProg.plain env q with
       | .ok a, .ok b, .ok va, .ok vb =>
         (match o.onValues va vb with
          | .ok v => sideCond o a b va vb v
          | _ => true)
       | _, _, _, _ => true)
  | .un _ p => OpProg.sideOK env p

/-- the model does not abstain: no tree built for an operator node evaluates to the float
abstraction -/
def notInexactR : R → Bool
  | .ok w => !w.isInexact
  | _ => true

def OpProg.treeExact (env : Env) : OpProg → Bool
  | .leaf _ => true
  | .bin o p q => OpProg.treeExact env p && OpProg.treeExact env q &&
      (match (OpProg.bin o p q).build with
       | .ok t => notInexactR (den env t)
       | _ => true)
  | .un o p => OpProg.treeExact env p &&
      (match (OpProg.un o p).build with
       | .ok t => notInexactR (den env t)
       | _ => true)

theorem toValue_den {c : Const} {v : Value} (h : c.toValue? = some v) :
    den env (.const c) = .ok v := by
  cases c <;> simp only [Const.toValue?, Option.some.injEq, reduceCtorEq] at h <;> subst h <;> rfl

theorem toConst_den {v : Value} {c : Const} (h : v.toConst? = some c) :
    den env (.const c) = .ok v ∧ v.isInexact = false := by
  cases v <;> simp only [Value.toConst?, Option.some.injEq, reduceCtorEq] at h <;> subst h <;>
    exact ⟨rfl, rfl⟩

theorem Res.refines_of_exact {w v : Value} (h : Res w v) (hex : w.isInexact = false) :
    Refines w v := by
  rcases h with h | rfl
  · exact h
  · simp [Value.isInexact] at hex

theorem onValues_operands {o : PyBinOp} {a b v : Value} (h : o.onValues a b = .ok v) :
    a.NumOrInexact ∧ b.NumOrInexact := by
  have key : ∀ {f : Num → Num → R}, arith f a b = .ok v → a.NumOrInexact ∧ b.NumOrInexact := by
    intro f h
    obtain ⟨x, y, _, _, _, hx, hy⟩ := arith_ok_view h
    exact ⟨Or.inr ⟨_, _, hx⟩, Or.inr ⟨_, _, hy⟩⟩
  cases o <;> simp only [PyBinOp.onValues] at h
  case band =>
    obtain ⟨m, n, hm, hn, _⟩ := bitop_ok land_compat h
    exact ⟨Or.inr ⟨_, _, int?_view hm⟩, Or.inr ⟨_, _, int?_view hn⟩⟩
  case bor =>
    obtain ⟨m, n, hm, hn, _⟩ := bitop_ok lor_compat h
    exact ⟨Or.inr ⟨_, _, int?_view hm⟩, Or.inr ⟨_, _, int?_view hn⟩⟩
  case bxor =>
    obtain ⟨m, n, hm, hn, _⟩ := bitop_ok xor_compat h
    exact ⟨Or.inr ⟨_, _, int?_view hm⟩, Or.inr ⟨_, _, int?_view hn⟩⟩
  all_goals exact key h

theorem onValue_operand {o : PyUnOp} {a v : Value} (h : o.onValue a = .ok v) :
    a.NumOrInexact ∧ v.NumOrInexact := by
  cases o
  · simp only [PyUnOp.onValue] at h
    obtain ⟨q, f, ha, hv⟩ := neg_view h
    exact ⟨Or.inr ⟨_, _, ha⟩, Or.inr ⟨_, _, hv⟩⟩
  · obtain ⟨q, f, ha, hv⟩ := pos_view h
    exact ⟨Or.inr ⟨_, _, ha⟩, Or.inr ⟨_, _, hv⟩⟩
  · simp only [PyUnOp.onValue] at h
    obtain ⟨n, hn, rfl⟩ := invert_int? h
    exact ⟨Or.inr ⟨_, _, int?_view hn⟩, noi_int _⟩

theorem notInexactR_ok {w : Value} (h : notInexactR (.ok w) = true) : w.isInexact = false := by
  simpa [notInexactR] using h

/-- Main induction: the tree built by an operator program refines the plain value. -/
theorem program_refines : ∀ (p : OpProg) (t : Expr) (v : Value), p.build = .ok t →
    OpProg.plain env p = .ok v → OpProg.sideOK env p = true → OpProg.treeExact env p = true →
    v.NumOrInexact → ∃ w, den env t = .ok w ∧ Refines w v := by
  intro p
  induction p with
  | leaf e =>
    intro t v hb hp _ _ hv
    simp only [OpProg.build, pure, Except.pure, Except.ok.injEq] at hb
    subst hb
    simp only [OpProg.plain] at hp
    exact ⟨v, hp, Refines.refl_of hv⟩
  | bin o p q ihp ihq =>
    intro t v hb hp hs hte _
    have hb0 := hb
    simp only [OpProg.build, bind, Except.bind] at hb
    cases hpa : p.build with
    | error e => rw [hpa] at hb; cases hb
    | ok a =>
      rw [hpa] at hb; simp only at hb
      cases hqb : q.build with
      | error e => rw [hqb] at hb; cases hb
      | ok b =>
        rw [hqb] at hb; simp only at hb
        simp only [OpProg.plain, bind, Except.bind] at hp
        cases hpv : OpProg.plain env p with
        | error e => rw [hpv] at hp; cases hp
        | ok va =>
          rw [hpv] at hp; simp only at hp
          cases hqv : OpProg.plain env q with
          | error e => rw [hqv] at hp; cases hp
          | ok vb =>
            rw [hqv] at hp; simp only at hp
            simp only [OpProg.sideOK, Bool.and_eq_true, hpa, hqb, hpv, hqv, hp] at hs
            simp only [OpProg.treeExact, Bool.and_eq_true, hb0] at hte
            obtain ⟨hna, hnb⟩ := onValues_operands hp
            obtain ⟨wa, hwa, hra⟩ := ihp a va hpa hpv hs.1.1 hte.1.1 hna
            obtain ⟨wb, hwb, hrb⟩ := ihq b vb hqb hqv hs.1.2 hte.1.2 hnb
            split at hb
            · rename_i x y
              obtain ⟨w', hw', hres⟩ := onValues_congr hra hrb hp
              unfold constBin at hb
              split at hb
              · rename_i wx wy hx hy
                have h1 := toValue_den (env := env) hx
                have h2 := toValue_den (env := env) hy
                rw [hwa] at h1; rw [hwb] at h2
                cases h1; cases h2
                rw [hw'] at hb
                simp only at hb
                split at hb
                · rename_i c hc
                  cases hb
                  obtain ⟨hd, hex⟩ := toConst_den (env := env) hc
                  exact ⟨w', hd, hres.refines_of_exact hex⟩
                · cases hb
              · cases hb
            · obtain ⟨w, hw, hres⟩ := bin_sound_refines hb hwa hwb hra hrb hp hs.2
              rw [hw] at hte
              exact ⟨w, hw, hres.refines_of_exact (notInexactR_ok hte.2)⟩
  | un o p ih =>
    intro t v hb hp hs hte _
    have hb0 := hb
    simp only [OpProg.build, bind, Except.bind] at hb
    cases hpa : p.build with
    | error e => rw [hpa] at hb; cases hb
    | ok a =>
      rw [hpa] at hb; simp only at hb
      simp only [OpProg.plain, bind, Except.bind] at hp
      cases hpv : OpProg.plain env p with
      | error e => rw [hpv] at hp; cases hp
      | ok ve =>
        rw [hpv] at hp; simp only at hp
        simp only [OpProg.sideOK] at hs
        simp only [OpProg.treeExact, Bool.and_eq_true, hb0] at hte
        obtain ⟨we, hwe, hr⟩ := ih a ve hpa hpv hs hte.1 (onValue_operand hp).1
        split at hb
        · rename_i c
          obtain ⟨w', hw', href⟩ := un_congr hr hp
          split at hb
          · rename_i wv hc
            have h1 := toValue_den (env := env) hc
            rw [hwe] at h1; cases h1
            rw [hw'] at hb
            simp only at hb
            split at hb
            · rename_i c' hc'
              cases hb
              exact ⟨w', (toConst_den (env := env) hc').1, href⟩
            · cases hb
          · cases hb
        · exact un_sound_refines hb hwe hr hp

end PV
