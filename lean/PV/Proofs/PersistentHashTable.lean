import PV.Model.PersistentHashTable
import PV.Proofs.WalkTable
/-
  C17 (T-gen) — the hand-written `digest` (PV/Model/Pickle.lean) against the table-driven reading
  of `PersistentHashWalkMapper` (PV/Model/PersistentHashTable.lean).

  `c17HandBody` states, per constructor of `Expr`, what `digest` was written from: the three
  overrides of the class (`map_constant`, `map_variable`, `map_comparison`) and otherwise the
  inherited `WalkMapper` handler shape (`c04WalkBody`, the shape `walk` was written from).  This
  file proves — for ALL expressions — that `digest` is the table-driven step run on these shapes
  with `visit` feeding the class name and returning `True` and `post_visit` feeding nothing, that
  the step equations have one solution, and hence that `digest` is the fuel-iterated table digest.
  That the shapes ARE the rows of the tables regenerated from the current source is
  `digest_resolve_current` in PV/Properties/C17.lean (`rfl` against lean/PV/Generated/*.lean).
-/
set_option linter.unusedSimpArgs false
namespace PV
open PV.Pickle

/-- the override rows `digest` was written from -/
def c17ConstRow : C17Handler := ⟨"map_constant", false, true, [.feed .reprSelf]⟩
def c17VarRow : C17Handler := ⟨"map_variable", false, false, [.feed (.field "name")]⟩
def c17CmpRow : C17Handler :=
  ⟨"map_comparison", true, false,
    [.recur ⟨"left", .one, false⟩, .feed (.reprField "operator"), .recur ⟨"right", .one, false⟩]⟩

/-- what runs for a node, as `digest` was written: an override, or the inherited walk handler -/
def c17HandBody : Expr → Except DepErr C17Body
  | .const (.str _) => .error .foreign
  | .const .none => .error .foreign
  | .const _ => .ok (.override c17ConstRow)
  | .var _ => .ok (.override c17VarRow)
  | .cmp _ _ _ => .ok (.override c17CmpRow)
  | e => match c04WalkBody e with
    | .ok b => .ok (.inherited b)
    | .error err => .error err

/-- the `visit` / `post_visit` behaviour `digest` was written from -/
structure C17Table.Std (T : C17Table) : Prop where
  visit : T.visitFeeds = [.className]
  returns : T.visitReturns = true
  post : T.postVisitFeeds = []

theorem digestL_eq_c04SeqL : ∀ cs : List Expr, digestL cs = c04SeqL digest cs
  | [] => by simp [digestL, c04SeqL]
  | c :: cs => by simp [digestL, c04SeqL, digestL_eq_c04SeqL cs]

theorem digestSlice_eq_c04SeqL : ∀ cs : List Expr,
    digestSlice cs = c04SeqL digest (cs.filter (fun c => !c.c04IsNone))
  | [] => by simp [digestSlice, c04SeqL]
  | c :: cs => by
    by_cases hn : c = .const .none
    · subst hn
      simp [digestSlice, Expr.c04IsNone, digestSlice_eq_c04SeqL cs]
    · have h1 : c.c04IsNone = false := by
        cases c with
        | const k => cases k <;> first | rfl | exact absurd rfl hn
        | _ => rfl
      have h2 : digestSlice (c :: cs) =
          (do let x ← digest c; let y ← digestSlice cs; pure (x ++ y)) := by
        cases c with
        | const k => cases k <;> first | (exact absurd rfl hn) | simp only [digestSlice]
        | _ => simp only [digestSlice]
      rw [h2, digestSlice_eq_c04SeqL cs, List.filter_cons]
      simp [h1, c04SeqL]

theorem c17PyReprStr_sym (o : CmpOp) : c17PyReprStr o.sym = "'" ++ o.sym ++ "'" := by
  cases o <;> decide

/-- an inherited guarded handler under the standard `visit` / `post_visit`: class name, then the
recursion sites -/
theorem c17StepB_guard {T : C17Table} (hT : T.Std) (recs : List C04Rec)
    (rec : Expr → Except DepErr (List String)) (e : Expr) (vf pf : Bool) :
    c17DigestStepB T (.ok (.inherited (.walk .guard vf recs true pf))) rec e =
      (do let inner ← c04SeqSites (fun _ c => rec c) false e recs; pure (e.kind :: inner)) := by
  simp only [c17DigestStepB, hT.visit, hT.returns, hT.post, c17Feeds, c17PieceStr]
  cases c04SeqSites (fun _ c => rec c) false e recs <;>
    simp [bind, Except.bind, pure, Except.pure]

/-- an inherited leaf handler: the class name -/
theorem c17StepB_leaf {T : C17Table} (hT : T.Std)
    (rec : Expr → Except DepErr (List String)) (e : Expr) (vf pf : Bool) :
    c17DigestStepB T (.ok (.inherited (.walk .plain vf [] true pf))) rec e = .ok [e.kind] := by
  simp [c17DigestStepB, hT.visit, hT.returns, hT.post, c17Feeds, c17PieceStr, c04SeqSites,
    bind, Except.bind, pure, Except.pure]

/-- **`digest` solves the table-driven equations**: on any node, `digest` is one handler call of
the shape `c17HandBody` gives for the node, recursing through `digest` itself. -/
theorem digest_eq_stepB {T : C17Table} (hT : T.Std) (e : Expr) :
    digest e = c17DigestStepB T (c17HandBody e) digest e := by
  cases e with
  | const k =>
    cases k <;>
      simp [c17HandBody, c17DigestStepB, c17ConstRow, c17RunSteps, c17PieceStr, digest, constRepr,
        bind, Except.bind, pure, Except.pure] <;> rfl
  | var x =>
    simp [c17HandBody, c17DigestStepB, c17VarRow, c17RunSteps, c17PieceStr, Expr.c17StrField,
      digest, bind, Except.bind, pure, Except.pure]
  | cmp o a b =>
    simp only [c17HandBody, c17DigestStepB, c17CmpRow, if_true, hT.visit, hT.returns, c17Feeds,
      c17PieceStr, Expr.kind, c17RunSteps, c04RecChildren, Expr.c04Field, Expr.c04Fields, c04Assoc,
      String.reduceBEq, ↓reduceIte, Bool.false_eq_true, c04SeqL, Expr.c17StrField, Option.map,
      c17PyReprStr_sym, digest]
    cases digest a <;> cases digest b <;> simp [bind, Except.bind, pure, Except.pure]
  | wildcard => simp [c17HandBody, c04WalkBody, c17StepB_leaf hT, digest, Expr.kind]; rfl
  | dotWild n => simp [c17HandBody, c04WalkBody, c17StepB_leaf hT, digest, Expr.kind]; rfl
  | starWild n => simp [c17HandBody, c04WalkBody, c17StepB_leaf hT, digest, Expr.kind]; rfl
  | funcSym => simp [c17HandBody, c04WalkBody, c17StepB_leaf hT, digest, Expr.kind]; rfl
  | nan => simp [c17HandBody, c04WalkBody, c17StepB_leaf hT, digest, Expr.kind]; rfl
  | bin o a b =>
    cases o <;>
      simp only [c17HandBody, c04WalkBody, c17StepB_guard hT, digest, c04SeqSites, c04RecChildren,
        Expr.c04Field, Expr.c04Fields, c04Assoc, String.reduceBEq, ↓reduceIte, Bool.false_eq_true,
        c04SeqL, Bool.and_true, Expr.kind, BinOp.name] <;>
      cases digest a <;> cases digest b <;> simp [bind, Except.bind, pure, Except.pure]
  | nary o cs =>
    simp only [c17HandBody, c04WalkBody, c17StepB_guard hT, digest, c04SeqSites, c04RecChildren,
      Expr.c04Field, Expr.c04Fields, c04Assoc, String.reduceBEq, ↓reduceIte, Bool.false_eq_true,
      Bool.and_true, digestL_eq_c04SeqL, Expr.kind]
    cases c04SeqL digest cs <;> simp [bind, Except.bind, pure, Except.pure]
  | tuple cs =>
    simp only [c17HandBody, c04WalkBody, c17StepB_guard hT, digest, c04SeqSites, c04RecChildren,
      Expr.c04Field, Expr.c04Fields, c04Assoc, String.reduceBEq, ↓reduceIte, Bool.false_eq_true,
      Bool.and_true, digestL_eq_c04SeqL, Expr.kind]
    cases c04SeqL digest cs <;> simp [bind, Except.bind, pure, Except.pure]
  | list cs =>
    simp only [c17HandBody, c04WalkBody, c17StepB_guard hT, digest, c04SeqSites, c04RecChildren,
      Expr.c04Field, Expr.c04Fields, c04Assoc, String.reduceBEq, ↓reduceIte, Bool.false_eq_true,
      Bool.and_true, digestL_eq_c04SeqL, Expr.kind]
    cases c04SeqL digest cs <;> simp [bind, Except.bind, pure, Except.pure]
  | slice cs =>
    simp only [c17HandBody, c04WalkBody, c17StepB_guard hT, digest, c04SeqSites, c04RecChildren,
      Expr.c04Field, Expr.c04Fields, c04Assoc, String.reduceBEq, ↓reduceIte, Bool.false_eq_true,
      Bool.and_true, digestSlice_eq_c04SeqL, Expr.kind]
    cases c04SeqL digest (cs.filter fun c => !c.c04IsNone) <;>
      simp [bind, Except.bind, pure, Except.pure]
  | un o a =>
    simp only [c17HandBody, c04WalkBody, c17StepB_guard hT, digest, c04SeqSites, c04RecChildren,
      Expr.c04Field, Expr.c04Fields, c04Assoc, String.reduceBEq, ↓reduceIte, Bool.false_eq_true,
      c04SeqL, Bool.and_true, Expr.kind]
    cases digest a <;> simp [bind, Except.bind, pure, Except.pure]
  | lookup a n =>
    simp only [c17HandBody, c04WalkBody, c17StepB_guard hT, digest, c04SeqSites, c04RecChildren,
      Expr.c04Field, Expr.c04Fields, c04Assoc, String.reduceBEq, ↓reduceIte, Bool.false_eq_true,
      c04SeqL, Bool.and_true, Expr.kind]
    cases digest a <;> simp [bind, Except.bind, pure, Except.pure]
  | cse a p s =>
    simp only [c17HandBody, c04WalkBody, c17StepB_guard hT, digest, c04SeqSites, c04RecChildren,
      Expr.c04Field, Expr.c04Fields, c04Assoc, String.reduceBEq, ↓reduceIte, Bool.false_eq_true,
      c04SeqL, Bool.and_true, Expr.kind]
    cases digest a <;> simp [bind, Except.bind, pure, Except.pure]
  | deriv a vs =>
    simp only [c17HandBody, c04WalkBody, c17StepB_guard hT, digest, c04SeqSites, c04RecChildren,
      Expr.c04Field, Expr.c04Fields, c04Assoc, String.reduceBEq, ↓reduceIte, Bool.false_eq_true,
      c04SeqL, Bool.and_true, Expr.kind]
    cases digest a <;> simp [bind, Except.bind, pure, Except.pure]
  | subscript a b =>
    simp only [c17HandBody, c04WalkBody, c17StepB_guard hT, digest, c04SeqSites, c04RecChildren,
      Expr.c04Field, Expr.c04Fields, c04Assoc, String.reduceBEq, ↓reduceIte, Bool.false_eq_true,
      c04SeqL, Bool.and_true, Expr.kind]
    cases digest a <;> cases digest b <;> simp [bind, Except.bind, pure, Except.pure]
  | ite a b c =>
    simp only [c17HandBody, c04WalkBody, c17StepB_guard hT, digest, c04SeqSites, c04RecChildren,
      Expr.c04Field, Expr.c04Fields, c04Assoc, String.reduceBEq, ↓reduceIte, Bool.false_eq_true,
      c04SeqL, Bool.and_true, Expr.kind]
    cases digest a <;> cases digest b <;> cases digest c <;>
      simp [bind, Except.bind, pure, Except.pure]
  | call f as =>
    simp only [c17HandBody, c04WalkBody, c17StepB_guard hT, digest, c04SeqSites, c04RecChildren,
      Expr.c04Field, Expr.c04Fields, c04Assoc, String.reduceBEq, ↓reduceIte, Bool.false_eq_true,
      c04SeqL, Bool.and_true, digestL_eq_c04SeqL, Expr.kind]
    cases digest f <;> cases c04SeqL digest as <;> simp [bind, Except.bind, pure, Except.pure]
  | subst f vs as =>
    simp only [c17HandBody, c04WalkBody, c17StepB_guard hT, digest, c04SeqSites, c04RecChildren,
      Expr.c04Field, Expr.c04Fields, c04Assoc, String.reduceBEq, ↓reduceIte, Bool.false_eq_true,
      c04SeqL, Bool.and_true, digestL_eq_c04SeqL, Expr.kind]
    cases digest f <;> cases c04SeqL digest as <;> simp [bind, Except.bind, pure, Except.pure]
  | callKw f as ns vs =>
    simp only [c17HandBody, c04WalkBody, c17StepB_guard hT, digest, c04SeqSites, c04RecChildren,
      Expr.c04Field, Expr.c04Fields, c04Assoc, String.reduceBEq, ↓reduceIte, Bool.false_eq_true,
      c04SeqL, Bool.and_true, digestL_eq_c04SeqL, Expr.kind]
    cases digest f <;> cases c04SeqL digest as <;> cases c04SeqL digest vs <;>
      simp [bind, Except.bind, pure, Except.pure]

/-! ### uniqueness and the fuel-iterated digest -/

theorem c17RunSteps_congr {f g : Expr → Except DepErr (List String)} {e : Expr}
    (h : ∀ c ∈ e.children, f c = g c) :
    ∀ steps : List C17Step, c17RunSteps f e steps = c17RunSteps g e steps
  | [] => rfl
  | .feed p :: rest => by simp only [c17RunSteps, c17RunSteps_congr h rest]
  | .recur site :: rest => by
    simp only [c17RunSteps]
    cases hr : c04RecChildren e site with
    | none => rfl
    | some cs =>
      simp only [c17RunSteps_congr h rest,
        c04SeqL_congr (fun c hc => h c (c04RecChildren_sub hr c hc))]

theorem c17DigestStepB_congr {T : C17Table} {body : Except DepErr C17Body}
    {f g : Expr → Except DepErr (List String)} {e : Expr} (h : ∀ c ∈ e.children, f c = g c) :
    c17DigestStepB T body f e = c17DigestStepB T body g e := by
  unfold c17DigestStepB
  split <;> try rfl
  · rw [c17RunSteps_congr h]
  · rw [c04SeqSites_congr (f := fun _ c => f c) (g := fun _ c => g c) (fun _ c hc => h c hc)]

/-- **The step equations have one solution**, whatever the tables are. -/
theorem c17Digest_unique (T : C17Table) (body : Expr → Except DepErr C17Body)
    (f g : Expr → Except DepErr (List String))
    (hf : ∀ e, f e = c17DigestStepB T (body e) f e)
    (hg : ∀ e, g e = c17DigestStepB T (body e) g e) : ∀ e, f e = g e := by
  intro e
  induction e using children_induct with
  | step e ih =>
    rw [hf, hg]
    exact c17DigestStepB_congr ih

/-- with enough fuel the iterated step is any solution of the step equations -/
theorem c17DigestFuel_eq (classes : List C04NodeClass) (walk : List C04Handler) (T : C17Table)
    (f : Expr → Except DepErr (List String))
    (hf : ∀ e, f e = c17DigestStep classes walk T f e) :
    ∀ (n : Nat) (e : Expr), e.size ≤ n → c17DigestFuel classes walk T n e = f e
  | 0, e, h => by
    have : 0 < e.size := by cases e <;> simp [Expr.size] <;> omega
    omega
  | n + 1, e, h => by
    rw [c17DigestFuel, hf e]
    exact c17DigestStepB_congr (fun c hc =>
      c17DigestFuel_eq classes walk T f hf n c
        (by have := Expr.size_lt_of_mem_children hc; omega))

end PV
