import PV.Proofs.AlgoTableArith
/-
  C19 (T-gen): `_sort_uniq` and the `Polynomial` methods — the hand-written list functions of
  PV/Model/Algo.lean (`sortUniq`, `neg`, `add`, `sub`, `mulRaw`, `mul`, `pow`, `divmodLoop`, …) are
  what the table interpreter computes on the bodies regenerated from the current source.
-/
namespace PV.Algo
open PV.Generated
variable {α : Type}

def c19EncTerm (t : Term) : C19V α := .tup [.int t.1, .int t.2]
def c19EncTerms (l : List Term) : List (C19V α) := l.map c19EncTerm
def c19EncLast : Option Nat → C19V α
  | none => .none
  | some e => .int e

def c19SuPat : C19P := .tuple [(.name "exp"), (.name "coeff")]
def c19SuBody : List C19S := [
  .ite (.cmp .eq (.var "last_exp") (.var "exp")) [
    .assign (.pat (.name "newcoeff")) (.bin .add (.index (.index (.var "uniq_result") (.int (-1))) (.int 1)) (.var "coeff")),
    .ite (.not (.var "newcoeff")) [
      .pop "uniq_result",
      .assign (.pat (.name "last_exp")) .none] [
      .assign (.index "uniq_result" (.int (-1))) (.tuple [(.var "last_exp"), (.var "newcoeff")])]] [
    .append "uniq_result" (.tuple [(.var "exp"), (.var "coeff")]),
    .assign (.pat (.name "last_exp")) (.var "exp")]]

theorem c19_sort_uniq_body_current :
    c19Fn_polynomial__sort_uniq = ⟨"polynomial._sort_uniq", .func, ["data"], [], [
      .sortByFirst "data",
      .assign (.pat (.name "uniq_result")) (.tuple []),
      .assign (.pat (.name "last_exp")) .none,
      .for c19SuPat (.var "data") c19SuBody,
      .ret (.var "uniq_result")]⟩ := rfl

/-- the three shapes the tail of the store goes through -/
def c19SuExtra : Nat → C19V α → C19V α → C19V α → C19Store α
  | 0, _, _, _ => []
  | 1, e, c, _ => [("exp", e), ("coeff", c)]
  | _, e, c, nc => [("exp", e), ("coeff", c), ("newcoeff", nc)]

def c19SuStore (d : C19V α) (us : List (C19V α)) (last : C19V α) (sh : Nat) (e c nc : C19V α) :
    C19Store α :=
  [("data", d), ("uniq_result", .tup us), ("last_exp", last)] ++ c19SuExtra sh e c nc


/-- one iteration: bind the loop target, run the body -/
def c19SuIter (cx : C19Cx α) (t : Term) (σ : C19Store α) : Option (C19O α) :=
  (c19Bind c19SuPat (c19EncTerm t) σ).bind (fun σ' => some (c19ExecL cx c19SuBody σ'))

/-- appending branch -/
theorem c19_su_body_append (cx : C19Cx α) (d : C19V α) (us : List (C19V α)) (last : Option Nat)
    (e : Nat) (c : Int) (hl : last ≠ some e) (sh : Nat) (e0 c0 nc0 : C19V α) :
    c19SuIter cx (e, c) (c19SuStore d us (c19EncLast last) sh e0 c0 nc0) =
      some (.next (c19SuStore d (us ++ [c19EncTerm (e, c)]) (.int e) (max sh 1) (.int e) (.int c) nc0)) := by
  unfold c19SuIter c19SuPat c19SuBody c19SuStore c19EncTerm
  rcases last with _ | e'
  · match sh with
    | 0 => simp only [c19SuExtra, c19EncLast]; c19_run []; rfl
    | 1 => simp only [c19SuExtra, c19EncLast]; c19_run []; rfl
    | (n + 2) => simp only [c19SuExtra, c19EncLast]; c19_run []; rfl
  · have hne : ((e' : Int) == (e : Int)) = false := by
      simp; intro h; exact hl (by rw [Int.ofNat_inj.mp h])
    match sh with
    | 0 => simp only [c19SuExtra, c19EncLast]; c19_run [hne]; rfl
    | 1 => simp only [c19SuExtra, c19EncLast]; c19_run [hne]; rfl
    | (n + 2) => simp only [c19SuExtra, c19EncLast]; c19_run [hne]; rfl

/-- merging branch, the sum is not zero -/
theorem c19_su_body_merge (cx : C19Cx α) (d : C19V α) (us : List (C19V α)) (e' : Nat) (c' : Int)
    (e : Nat) (c : Int) (hz : c' + c ≠ 0) (sh : Nat) (e0 c0 nc0 : C19V α) :
    c19SuIter cx (e, c) (c19SuStore d (us ++ [c19EncTerm (e', c')]) (.int e) sh e0 c0 nc0) =
      some (.next (c19SuStore d (us ++ [c19EncTerm (e, c' + c)]) (.int e) 2 (.int e) (.int c)
        (.int (c' + c)))) := by
  unfold c19SuIter c19SuPat c19SuBody c19SuStore c19EncTerm
  have hb : ((c' + c) != 0) = true := by simp [hz]
  have hn : c19NormIndex (us ++ [(.tup [.int e', .int c'] : C19V α)]).length (-1) = some us.length := by
    simp [c19NormIndex]
  have hs : (us ++ [(.tup [.int e', .int c'] : C19V α)]).set us.length (.tup [.int e, .int (c' + c)])
      = us ++ [.tup [.int e, .int (c' + c)]] := by simp
  match sh with
  | 0 => simp only [c19SuExtra]; c19_run [beq_self_eq_true, c19Index_last, hb, hn, hs]
  | 1 => simp only [c19SuExtra]; c19_run [beq_self_eq_true, c19Index_last, hb, hn, hs]
  | (n + 2) => simp only [c19SuExtra]; c19_run [beq_self_eq_true, c19Index_last, hb, hn, hs]

/-- merging branch, the sum is zero: the entry is popped and `last_exp` reset -/
theorem c19_su_body_pop (cx : C19Cx α) (d : C19V α) (us : List (C19V α)) (e' : Nat) (c' : Int)
    (e : Nat) (c : Int) (hz : c' + c = 0) (sh : Nat) (e0 c0 nc0 : C19V α) :
    c19SuIter cx (e, c) (c19SuStore d (us ++ [c19EncTerm (e', c')]) (.int e) sh e0 c0 nc0) =
      some (.next (c19SuStore d us .none 2 (.int e) (.int c) (.int (c' + c)))) := by
  unfold c19SuIter c19SuPat c19SuBody c19SuStore c19EncTerm
  have hb : ((c' + c) != 0) = false := by simp [hz]
  have he : (us ++ [(.tup [.int e', .int c'] : C19V α)]).isEmpty = false := by simp
  match sh with
  | 0 => simp only [c19SuExtra]; c19_run [beq_self_eq_true, c19Index_last, hb, he, List.dropLast_concat]
  | 1 => simp only [c19SuExtra]; c19_run [beq_self_eq_true, c19Index_last, hb, he, List.dropLast_concat]
  | (n + 2) => simp only [c19SuExtra]; c19_run [beq_self_eq_true, c19Index_last, hb, he, List.dropLast_concat]

theorem c19For_cons_next (bind : C19V α → C19Store α → Option (C19Store α))
    (body : C19Store α → C19O α) (v : C19V α) (vs : List (C19V α)) (σ σ'' : C19Store α)
    (h : (bind v σ).bind (fun σ' => some (body σ')) = some (.next σ'')) :
    c19For bind body (v :: vs) σ = c19For bind body vs σ'' := by
  cases hb : bind v σ with
  | none => rw [hb] at h; simp at h
  | some σ' =>
    rw [hb] at h
    simp only [Option.bind_some, Option.some.injEq] at h
    simp [c19For, hb, h]

theorem c19EncTerms_cons (t : Term) (l : List Term) :
    (c19EncTerms (t :: l) : List (C19V α)) = c19EncTerm t :: c19EncTerms l := rfl

theorem c19EncTerms_reverse_cons (t : Term) (acc : List Term) :
    (c19EncTerms (t :: acc).reverse : List (C19V α)) = c19EncTerms acc.reverse ++ [c19EncTerm t] := by
  simp [c19EncTerms]

/-- the `for` loop of `_sort_uniq` IS `mergeFix` (the merge loop WITH the reset of `last_exp`
after `pop()`) -/
theorem c19_su_loop (cx : C19Cx α) (d : C19V α) : ∀ (rest acc : List Term) (last : Option Nat)
    (sh : Nat) (e0 c0 nc0 : C19V α), (last.isSome → acc ≠ []) →
    ∃ σ', c19For (c19Bind c19SuPat) (c19ExecL cx c19SuBody) (c19EncTerms rest)
        (c19SuStore d (c19EncTerms acc.reverse) (c19EncLast last) sh e0 c0 nc0) = .next σ' ∧
      c19Get "uniq_result" σ' = some (.tup (c19EncTerms (mergeFix acc last rest))) := by
  intro rest
  induction rest with
  | nil =>
    intro acc last sh e0 c0 nc0 _
    refine ⟨_, rfl, ?_⟩
    simp [c19SuStore, c19Get, mergeFix]
  | cons t rest ih =>
    intro acc last sh e0 c0 nc0 hinv
    obtain ⟨e, c⟩ := t
    rw [c19EncTerms_cons]
    by_cases hl : last = some e
    · subst hl
      match acc, hinv with
      | [], hinv => exact absurd rfl (hinv rfl)
      | (e', c') :: acc', _ =>
        by_cases hz : c' + c = 0
        · have hb := c19_su_body_pop cx d (c19EncTerms acc'.reverse) e' c' e c hz sh e0 c0 nc0
          obtain ⟨σ', h1, h2⟩ := ih acc' none 2 (.int e) (.int c) (.int (c' + c)) (by simp)
          refine ⟨σ', ?_, ?_⟩
          · rw [c19EncTerms_reverse_cons]
            show c19For _ _ _ (c19SuStore d _ (.int e) sh e0 c0 nc0) = _
            rw [c19For_cons_next _ _ _ _ _ _ hb]
            exact h1
          · rw [h2]; simp [mergeFix, hz, c19EncTerms]
        · have hb := c19_su_body_merge cx d (c19EncTerms acc'.reverse) e' c' e c hz sh e0 c0 nc0
          obtain ⟨σ', h1, h2⟩ := ih ((e, c' + c) :: acc') (some e) 2 (.int e) (.int c)
            (.int (c' + c)) (by simp)
          refine ⟨σ', ?_, ?_⟩
          · rw [c19EncTerms_reverse_cons]
            show c19For _ _ _ (c19SuStore d _ (.int e) sh e0 c0 nc0) = _
            rw [c19For_cons_next _ _ _ _ _ _ hb]
            rw [c19EncTerms_reverse_cons] at h1
            exact h1
          · rw [h2]; simp [mergeFix, hz, c19EncTerms]
    · have hb := c19_su_body_append cx d (c19EncTerms acc.reverse) last e c hl sh e0 c0 nc0
      obtain ⟨σ', h1, h2⟩ := ih ((e, c) :: acc) (some e) (max sh 1) (.int e) (.int c) nc0 (by simp)
      refine ⟨σ', ?_, ?_⟩
      · rw [c19For_cons_next _ _ _ _ _ _ hb]
        rw [c19EncTerms_reverse_cons] at h1
        exact h1
      · rw [h2]; simp [mergeFix, hl, c19EncTerms]

/-! ### `data.sort(key=sortkey)` -/

theorem c19InsertByKey_enc (t : Term) (r : List Term) :
    c19InsertByKey (t.1 : Int) (c19EncTerm t : C19V α)
        (r.map fun u => ((u.1 : Int), (c19EncTerm u : C19V α)))
      = (insertByExp t r).map fun u => ((u.1 : Int), (c19EncTerm u : C19V α)) := by
  induction r with
  | nil => rfl
  | cons u us ih =>
    simp only [List.map_cons, c19InsertByKey, insertByExp]
    by_cases h : t.1 ≤ u.1
    · have : (t.1 : Int) ≤ (u.1 : Int) := by omega
      simp [h, this]
    · have : ¬ (t.1 : Int) ≤ (u.1 : Int) := by omega
      simp [h, this, ih]

theorem c19SortByKey_enc (l : List Term) :
    c19SortByKey (c19EncTerms l : List (C19V α))
      = some ((sortByExp l).map fun u => ((u.1 : Int), (c19EncTerm u : C19V α))) := by
  induction l with
  | nil => rfl
  | cons t ts ih =>
    have hk : c19KeyOf (c19EncTerm t : C19V α) = some (t.1 : Int) := rfl
    simp only [c19EncTerms, List.map_cons, c19SortByKey, hk]
    simp only [c19EncTerms] at ih
    rw [ih]
    simp only [sortByExp]
    rw [c19InsertByKey_enc]

theorem c19_find_sort_uniq :
    c19FindFn c19Table "polynomial._sort_uniq" = some c19Fn_polynomial__sort_uniq := rfl

/-- **`_sort_uniq` as regenerated IS `sortUniq`** (stable sort by exponent, then the merge loop
that resets `last_exp` after a `pop()`). -/
theorem c19_sort_uniq_run (ops : C19Ops α) (ext : String → List (C19V α) → C19R (C19V α))
    (l : List Term) (n : Nat) :
    c19RunFn ops c19Table ext (n + 1) "polynomial._sort_uniq" [.tup (c19EncTerms l)]
      = .ok (.tup (c19EncTerms (sortUniq l))) := by
  rw [c19RunFn_succ ops c19Table ext _ _ _ _ _ c19_find_sort_uniq
    (by rw [c19_sort_uniq_body_current]; rfl)]
  simp only [c19_sort_uniq_body_current]
  obtain ⟨σ', h1, h2⟩ := c19_su_loop (c19CxAt ops c19Table ext n (n + 1))
    (.tup (c19EncTerms (sortByExp l))) (sortByExp l) [] none 0 .none .none .none (by simp)
  have hmap : (List.map (fun x : Int × C19V α => x.2)
      (List.map (fun u : Term => ((u.1 : Int), (c19EncTerm u : C19V α))) (sortByExp l)))
      = c19EncTerms (sortByExp l) := by
    simp [c19EncTerms, List.map_map, Function.comp_def]
  simp only [c19SuStore, c19SuExtra, c19EncLast, c19EncTerms, List.reverse_nil, List.map_nil,
    List.append_nil] at h1
  c19_run [c19SortByKey_enc, hmap]
  simp only [c19EncTerms]
  rw [h1]
  c19_run [h2]
  rfl

/-! ## `Polynomial` objects -/

def c19Lmo : C19V α := .obj "LexicalMonomialOrder" [] []

/-- `Polynomial(base, data)` with the default unit and ordering, as `__init__` leaves it -/
def c19PolyObj (b : C19V α) (ts : List (C19V α)) : C19V α :=
  .obj "Polynomial" ["Base", "Unit", "VarLess", "Data"] [b, .int 1, c19Lmo, .tup ts]

def c19EncPoly (b : String) (p : Poly) : C19V α := c19PolyObj (.sym b) (c19EncTerms p)

theorem c19_find_poly_init :
    c19FindFn c19Table "Polynomial.__init__" = some c19Fn_Polynomial___init__ := rfl

theorem c19New_lmo (ops : C19Ops α) (ext : String → List (C19V α) → C19R (C19V α)) (n k : Nat) :
    c19New (c19CxAt ops c19Table ext n k) "LexicalMonomialOrder" [] = .ok c19Lmo := rfl

theorem c19_poly_init_run (ops : C19Ops α) (ext : String → List (C19V α) → C19R (C19V α))
    (b : C19V α) (ts : List (C19V α)) (n : Nat) :
    c19RunFn ops c19Table ext (n + 1) "Polynomial.__init__"
      [.obj "Polynomial" [] [], b, .tup ts, .int 1, .none] = .ok (c19PolyObj b ts) := by
  rw [c19RunFn_succ ops c19Table ext _ _ _ _ _ c19_find_poly_init rfl]
  simp only [c19Fn_Polynomial___init__]
  c19_run [c19New_lmo]
  rfl

theorem c19New_polynomial (ops : C19Ops α) (ext : String → List (C19V α) → C19R (C19V α))
    (n k : Nat) (b d u v : C19V α) :
    c19New (c19CxAt ops c19Table ext n k) "Polynomial" [b, d, u, v]
      = c19RunFn ops c19Table ext n "Polynomial.__init__" [.obj "Polynomial" [] [], b, d, u, v] := rfl

theorem c19Attr_poly_base (cx : C19Cx α) (b : C19V α) (ts : List (C19V α)) :
    c19Attr cx (c19PolyObj b ts) "Base" = .ok b := rfl
theorem c19Attr_poly_data (cx : C19Cx α) (b : C19V α) (ts : List (C19V α)) :
    c19Attr cx (c19PolyObj b ts) "Data" = .ok (.tup ts) := rfl
theorem c19Attr_poly_unit (cx : C19Cx α) (b : C19V α) (ts : List (C19V α)) :
    c19Attr cx (c19PolyObj b ts) "Unit" = .ok (.int 1) := rfl
theorem c19IsInst_poly (ops : C19Ops α) (ext : String → List (C19V α) → C19R (C19V α))
    (n k : Nat) (b : C19V α) (ts : List (C19V α)) :
    c19IsInst (c19CxAt ops c19Table ext n k) (c19PolyObj b ts) ["Polynomial"] = true := rfl
theorem c19TruthyM_poly (ops : C19Ops α) (ext : String → List (C19V α) → C19R (C19V α))
    (n k : Nat) (b : C19V α) (ts : List (C19V α)) :
    c19TruthyM (c19CxAt ops c19Table ext n k) (c19PolyObj b ts) = .ok true := rfl


theorem c19MapM_enc {β : Type} (f : C19V α → C19R (C19V α)) (enc : β → C19V α) (g : β → C19V α)
    (p : List β) (h : ∀ t, f (enc t) = .ok (g t)) :
    c19MapM f (p.map enc) = .ok (p.map g) := by
  induction p with
  | nil => rfl
  | cons t ts ih => simp [c19MapM, h, ih]

/-! ### `__neg__` -/

theorem c19_find_poly_neg :
    c19FindFn c19Table "Polynomial.__neg__" = some c19Fn_Polynomial___neg__ := rfl

theorem c19EncTerms_neg (p : Poly) :
    (p.map fun t => (c19EncTerm (t.1, -t.2) : C19V α)) = c19EncTerms (neg p) := by
  simp [c19EncTerms, neg, List.map_map, Function.comp_def]

/-- **`Polynomial.__neg__` as regenerated IS `neg`** -/
theorem c19_poly_neg_run (ops : C19Ops α) (ext : String → List (C19V α) → C19R (C19V α))
    (b : C19V α) (p : Poly) (n : Nat) :
    c19RunFn ops c19Table ext (n + 1 + 1) "Polynomial.__neg__" [c19PolyObj b (c19EncTerms p)]
      = .ok (c19PolyObj b (c19EncTerms (neg p))) := by
  rw [c19RunFn_succ ops c19Table ext _ _ _ _ _ c19_find_poly_neg rfl]
  simp only [c19Fn_Polynomial___neg__]
  c19_run [c19Attr_poly_base, c19Attr_poly_data]
  simp only [c19EncTerms]
  rw [c19MapM_enc _ c19EncTerm (fun t => c19EncTerm (t.1, -t.2)) p
    (by intro t; unfold c19EncTerm; c19_run [])]
  c19_run [c19New_polynomial, c19EncTerms_neg, c19_poly_init_run]
  rfl


/-! ### `__add__` -/

def c19AddPre : List C19S := [
  .ite (.not (.var "other")) [
    .ret (.var "self")] [],
  .ite (.not (.isinst (.var "other") ["Polynomial"])) [
    .assign (.pat (.name "other")) (.new "Polynomial" [(.attr (.var "self") "Base"), (.tuple [(.tuple [(.int 0), (.var "other")])]), (.int 1), .none])] [],
  .ite (.cmp .ne (.attr (.var "other") "Base") (.attr (.var "self") "Base")) [
    .assert (.cmp .eq (.attr (.var "self") "VarLess") (.attr (.var "other") "VarLess")),
    .ite (.method (.attr (.var "self") "VarLess") "__call__" [(.attr (.var "self") "Base"), (.attr (.var "other") "Base")]) [
      .assign (.pat (.name "other")) (.new "Polynomial" [(.attr (.var "self") "Base"), (.tuple [(.tuple [(.int 0), (.var "other")])]), (.int 1), .none])] [
      .ret (.method (.var "other") "__add__" [(.var "self")])]] [],
  .assign (.pat (.name "i_self")) (.int 0),
  .assign (.pat (.name "i_other")) (.int 0),
  .assign (.pat (.name "result")) (.tuple [])]

def c19AddC1 : C19E :=
  .and (.cmp .lt (.var "i_self") (.call "len" [(.attr (.var "self") "Data")])) (.cmp .lt (.var "i_other") (.call "len" [(.attr (.var "other") "Data")]))
def c19AddB1 : List C19S := [
  .assign (.pat (.name "exp_self")) (.index (.index (.attr (.var "self") "Data") (.var "i_self")) (.int 0)),
  .assign (.pat (.name "exp_other")) (.index (.index (.attr (.var "other") "Data") (.var "i_other")) (.int 0)),
  .ite (.cmp .eq (.var "exp_self") (.var "exp_other")) [
    .assign (.pat (.name "coeff")) (.bin .add (.index (.index (.attr (.var "self") "Data") (.var "i_self")) (.int 1)) (.index (.index (.attr (.var "other") "Data") (.var "i_other")) (.int 1))),
    .ite (.var "coeff") [
      .append "result" (.tuple [(.var "exp_self"), (.var "coeff")])] [],
    .aug "i_self" .add (.int 1),
    .aug "i_other" .add (.int 1)] [
    .ite (.cmp .gt (.var "exp_self") (.var "exp_other")) [
      .append "result" (.tuple [(.var "exp_other"), (.index (.index (.attr (.var "other") "Data") (.var "i_other")) (.int 1))]),
      .aug "i_other" .add (.int 1)] [
      .ite (.cmp .lt (.var "exp_self") (.var "exp_other")) [
        .append "result" (.tuple [(.var "exp_self"), (.index (.index (.attr (.var "self") "Data") (.var "i_self")) (.int 1))]),
        .aug "i_self" .add (.int 1)] []]]]
def c19AddC2 : C19E := .cmp .lt (.var "i_self") (.call "len" [(.attr (.var "self") "Data")])
def c19AddB2 : List C19S := [
  .assign (.pat (.name "exp_self")) (.index (.index (.attr (.var "self") "Data") (.var "i_self")) (.int 0)),
  .append "result" (.tuple [(.var "exp_self"), (.index (.index (.attr (.var "self") "Data") (.var "i_self")) (.int 1))]),
  .aug "i_self" .add (.int 1)]
def c19AddC3 : C19E := .cmp .lt (.var "i_other") (.call "len" [(.attr (.var "other") "Data")])
def c19AddB3 : List C19S := [
  .assign (.pat (.name "exp_other")) (.index (.index (.attr (.var "other") "Data") (.var "i_other")) (.int 0)),
  .append "result" (.tuple [(.var "exp_other"), (.index (.index (.attr (.var "other") "Data") (.var "i_other")) (.int 1))]),
  .aug "i_other" .add (.int 1)]
def c19AddRet : C19S :=
  .ret (.new "Polynomial" [(.attr (.var "self") "Base"), (.call "tuple" [(.var "result")]), (.int 1), .none])

/-- the body of `Polynomial.__add__` in the current source -/
theorem c19_poly_add_body_current :
    c19Fn_Polynomial___add__ = ⟨"Polynomial.__add__", .method, ["self", "other"], [],
      c19AddPre ++ [.while c19AddC1 c19AddB1, .while c19AddC2 c19AddB2, .while c19AddC3 c19AddB3,
        c19AddRet]⟩ := rfl

/-- what the loops of `__add__` keep in the store: the operands, the two indices, the result list -/
def c19AddInv (σ : C19Store α) (b : C19V α) (p q : Poly) (i j : Nat) (acc : List Term) : Prop :=
  c19Get "self" σ = some (c19PolyObj b (c19EncTerms p)) ∧
  c19Get "other" σ = some (c19PolyObj b (c19EncTerms q)) ∧
  c19Get "i_self" σ = some (.int i) ∧ c19Get "i_other" σ = some (.int j) ∧
  c19Get "result" σ = some (.tup (c19EncTerms acc))

theorem c19Index_enc (p : List Term) (i : Nat) (h : i < p.length) :
    c19Index (c19EncTerms p : List (C19V α)) (i : Int) = .ok (.tup [.int p[i].1, .int p[i].2]) := by
  rw [c19Index_nat _ _ (by simpa [c19EncTerms] using h)]
  simp [c19EncTerms, c19EncTerm]

theorem c19EncTerms_length (p : List Term) : (c19EncTerms p : List (C19V α)).length = p.length := by
  simp [c19EncTerms]

theorem c19EncTerms_append (p q : List Term) :
    (c19EncTerms (p ++ q) : List (C19V α)) = c19EncTerms p ++ c19EncTerms q := by
  simp [c19EncTerms]

theorem c19_add_test1 (cx : C19Cx α) (σ : C19Store α) (b : C19V α) (p q : Poly) (i j : Nat)
    (acc : List Term) (h : c19AddInv σ b p q i j acc) :
    c19Test cx c19AddC1 σ = .ok (decide (i < p.length ∧ j < q.length)) := by
  obtain ⟨h1, h2, h3, h4, h5⟩ := h
  unfold c19AddC1
  by_cases hi : i < p.length
  · have hd : decide ((i : Int) < (p.length : Int)) = true := by simp; omega
    c19_run [h1, h2, h3, h4, c19Attr_poly_data, c19EncTerms_length, hd]
    simp [hi]
  · have hd : decide ((i : Int) < (p.length : Int)) = false := by simp; omega
    c19_run [h1, h2, h3, h4, c19Attr_poly_data, c19EncTerms_length, hd]
    simp [hi]

theorem c19_add_body1_eq (cx : C19Cx α) (σ : C19Store α) (b : C19V α) (p q : Poly) (i j : Nat)
    (acc : List Term) (h : c19AddInv σ b p q i j acc) (hi : i < p.length) (hj : j < q.length)
    (he : p[i].1 = q[j].1) (hz : p[i].2 + q[j].2 ≠ 0) :
    ∃ σ', c19ExecL cx c19AddB1 σ = .next σ' ∧
      c19AddInv σ' b p q (i + 1) (j + 1) (acc ++ [(p[i].1, p[i].2 + q[j].2)]) := by
  obtain ⟨h1, h2, h3, h4, h5⟩ := h
  unfold c19AddB1
  have hbe : ((p[i].1 : Int) == (q[j].1 : Int)) = true := by simp [he]
  have hb : (p[i].2 + q[j].2 != 0) = true := by simp [hz]
  refine ⟨_, by c19_run [h1, h2, h3, h4, h5, c19Attr_poly_data, c19Index_enc _ _ hi,
    c19Index_enc _ _ hj, hbe, hb]; rfl, ?_⟩
  unfold c19AddInv
  c19_run [h1, h2, h3, h4, h5, c19EncTerms_append]
  simp [c19EncTerms, c19EncTerm]

theorem c19_add_body1_cancel (cx : C19Cx α) (σ : C19Store α) (b : C19V α) (p q : Poly) (i j : Nat)
    (acc : List Term) (h : c19AddInv σ b p q i j acc) (hi : i < p.length) (hj : j < q.length)
    (he : p[i].1 = q[j].1) (hz : p[i].2 + q[j].2 = 0) :
    ∃ σ', c19ExecL cx c19AddB1 σ = .next σ' ∧ c19AddInv σ' b p q (i + 1) (j + 1) acc := by
  obtain ⟨h1, h2, h3, h4, h5⟩ := h
  unfold c19AddB1
  have hbe : ((p[i].1 : Int) == (q[j].1 : Int)) = true := by simp [he]
  have hb : (p[i].2 + q[j].2 != 0) = false := by simp [hz]
  refine ⟨_, by c19_run [h1, h2, h3, h4, h5, c19Attr_poly_data, c19Index_enc _ _ hi,
    c19Index_enc _ _ hj, hbe, hb]; rfl, ?_⟩
  unfold c19AddInv
  c19_run [h1, h2, h3, h4, h5]
  simp

theorem c19_add_body1_gt (cx : C19Cx α) (σ : C19Store α) (b : C19V α) (p q : Poly) (i j : Nat)
    (acc : List Term) (h : c19AddInv σ b p q i j acc) (hi : i < p.length) (hj : j < q.length)
    (he : p[i].1 > q[j].1) :
    ∃ σ', c19ExecL cx c19AddB1 σ = .next σ' ∧ c19AddInv σ' b p q i (j + 1) (acc ++ [q[j]]) := by
  obtain ⟨h1, h2, h3, h4, h5⟩ := h
  unfold c19AddB1
  have hbe : ((p[i].1 : Int) == (q[j].1 : Int)) = false := by simp; omega
  have hgt : decide ((p[i].1 : Int) > (q[j].1 : Int)) = true := by simp; omega
  refine ⟨_, by c19_run [h1, h2, h3, h4, h5, c19Attr_poly_data, c19Index_enc _ _ hi,
    c19Index_enc _ _ hj, hbe, hgt]; rfl, ?_⟩
  unfold c19AddInv
  c19_run [h1, h2, h3, h4, h5, c19EncTerms_append]
  simp [c19EncTerms, c19EncTerm]

theorem c19_add_body1_lt (cx : C19Cx α) (σ : C19Store α) (b : C19V α) (p q : Poly) (i j : Nat)
    (acc : List Term) (h : c19AddInv σ b p q i j acc) (hi : i < p.length) (hj : j < q.length)
    (he : p[i].1 < q[j].1) :
    ∃ σ', c19ExecL cx c19AddB1 σ = .next σ' ∧ c19AddInv σ' b p q (i + 1) j (acc ++ [p[i]]) := by
  obtain ⟨h1, h2, h3, h4, h5⟩ := h
  unfold c19AddB1
  have hbe : ((p[i].1 : Int) == (q[j].1 : Int)) = false := by simp; omega
  have hgt : decide ((p[i].1 : Int) > (q[j].1 : Int)) = false := by simp; omega
  have hlt : decide ((p[i].1 : Int) < (q[j].1 : Int)) = true := by simp; omega
  refine ⟨_, by c19_run [h1, h2, h3, h4, h5, c19Attr_poly_data, c19Index_enc _ _ hi,
    c19Index_enc _ _ hj, hbe, hgt, hlt]; rfl, ?_⟩
  unfold c19AddInv
  c19_run [h1, h2, h3, h4, h5, c19EncTerms_append]
  simp [c19EncTerms, c19EncTerm]


theorem c19_add_nil_right (p : Poly) : add p [] = p := by
  cases p <;> simp [add]

/-- the first `while` loop of `__add__` (the merge) -/
theorem c19_add_loop1 (cx : C19Cx α) (b : C19V α) (p q : Poly) :
    ∀ (m : Nat) (σ : C19Store α) (i j : Nat) (acc : List Term) (k : Nat),
      (p.length - i) + (q.length - j) ≤ m → m + 1 ≤ k → c19AddInv σ b p q i j acc →
      ∃ σ' i' j' acc', c19While (c19Test cx c19AddC1) (c19ExecL cx c19AddB1) k σ = .next σ' ∧
        c19AddInv σ' b p q i' j' acc' ∧ ¬ (i' < p.length ∧ j' < q.length) ∧
        acc' ++ add (p.drop i') (q.drop j') = acc ++ add (p.drop i) (q.drop j) := by
  intro m
  induction m with
  | zero =>
    intro σ i j acc k hm hk hinv
    obtain ⟨k, rfl⟩ : ∃ k', k = k' + 1 := ⟨k - 1, by omega⟩
    have hc : ¬ (i < p.length ∧ j < q.length) := by omega
    refine ⟨σ, i, j, acc, ?_, hinv, hc, rfl⟩
    rw [c19While_succ_false _ _ _ _ (by rw [c19_add_test1 cx σ b p q i j acc hinv]; simp [hc])]
  | succ m ih =>
    intro σ i j acc k hm hk hinv
    obtain ⟨k, rfl⟩ : ∃ k', k = k' + 1 := ⟨k - 1, by omega⟩
    by_cases hc : i < p.length ∧ j < q.length
    · obtain ⟨hi, hj⟩ := hc
      have ht : c19Test cx c19AddC1 σ = .ok true := by
        rw [c19_add_test1 cx σ b p q i j acc hinv]; simp [hi, hj]
      have hdp : p.drop i = p[i] :: p.drop (i + 1) := List.drop_eq_getElem_cons hi
      have hdq : q.drop j = q[j] :: q.drop (j + 1) := List.drop_eq_getElem_cons hj
      rcases Nat.lt_trichotomy p[i].1 q[j].1 with hlt | heq | hgt
      · obtain ⟨σ1, hb, hinv1⟩ := c19_add_body1_lt cx σ b p q i j acc hinv hi hj hlt
        obtain ⟨σ', i', j', acc', h1, h2, h3, h4⟩ := ih σ1 (i + 1) j _ k (by omega) (by omega) hinv1
        refine ⟨σ', i', j', acc', ?_, h2, h3, ?_⟩
        · rw [c19While_succ_true _ _ _ _ _ ht hb]; exact h1
        · rw [h4, hdp, hdq]
          have : ¬ p[i].1 = q[j].1 := by omega
          have h' : ¬ p[i].1 > q[j].1 := by omega
          rw [show (p[i] :: p.drop (i+1)) = ((p[i].1, p[i].2) :: p.drop (i+1)) from rfl,
            show (q[j] :: q.drop (j+1)) = ((q[j].1, q[j].2) :: q.drop (j+1)) from rfl]
          simp [add, this, h']
      · by_cases hz : p[i].2 + q[j].2 = 0
        · obtain ⟨σ1, hb, hinv1⟩ := c19_add_body1_cancel cx σ b p q i j acc hinv hi hj heq hz
          obtain ⟨σ', i', j', acc', h1, h2, h3, h4⟩ :=
            ih σ1 (i + 1) (j + 1) _ k (by omega) (by omega) hinv1
          refine ⟨σ', i', j', acc', ?_, h2, h3, ?_⟩
          · rw [c19While_succ_true _ _ _ _ _ ht hb]; exact h1
          · rw [h4, hdp, hdq]
            rw [show (p[i] :: p.drop (i+1)) = ((p[i].1, p[i].2) :: p.drop (i+1)) from rfl,
              show (q[j] :: q.drop (j+1)) = ((q[j].1, q[j].2) :: q.drop (j+1)) from rfl]
            simp [add, heq, hz]
        · obtain ⟨σ1, hb, hinv1⟩ := c19_add_body1_eq cx σ b p q i j acc hinv hi hj heq hz
          obtain ⟨σ', i', j', acc', h1, h2, h3, h4⟩ :=
            ih σ1 (i + 1) (j + 1) _ k (by omega) (by omega) hinv1
          refine ⟨σ', i', j', acc', ?_, h2, h3, ?_⟩
          · rw [c19While_succ_true _ _ _ _ _ ht hb]; exact h1
          · rw [h4, hdp, hdq]
            rw [show (p[i] :: p.drop (i+1)) = ((p[i].1, p[i].2) :: p.drop (i+1)) from rfl,
              show (q[j] :: q.drop (j+1)) = ((q[j].1, q[j].2) :: q.drop (j+1)) from rfl]
            simp [add, heq, hz]
      · obtain ⟨σ1, hb, hinv1⟩ := c19_add_body1_gt cx σ b p q i j acc hinv hi hj hgt
        obtain ⟨σ', i', j', acc', h1, h2, h3, h4⟩ := ih σ1 i (j + 1) _ k (by omega) (by omega) hinv1
        refine ⟨σ', i', j', acc', ?_, h2, h3, ?_⟩
        · rw [c19While_succ_true _ _ _ _ _ ht hb]; exact h1
        · rw [h4, hdp, hdq]
          have : ¬ p[i].1 = q[j].1 := by omega
          rw [show (p[i] :: p.drop (i+1)) = ((p[i].1, p[i].2) :: p.drop (i+1)) from rfl,
            show (q[j] :: q.drop (j+1)) = ((q[j].1, q[j].2) :: q.drop (j+1)) from rfl]
          simp [add, this, hgt]
    · refine ⟨σ, i, j, acc, ?_, hinv, hc, rfl⟩
      rw [c19While_succ_false _ _ _ _ (by rw [c19_add_test1 cx σ b p q i j acc hinv]; simp [hc])]


theorem c19_add_test2 (cx : C19Cx α) (σ : C19Store α) (b : C19V α) (p q : Poly) (i j : Nat)
    (acc : List Term) (h : c19AddInv σ b p q i j acc) :
    c19Test cx c19AddC2 σ = .ok (decide (i < p.length)) := by
  obtain ⟨h1, h2, h3, h4, h5⟩ := h
  unfold c19AddC2
  c19_run [h1, h3, c19Attr_poly_data, c19EncTerms_length]
  simp

theorem c19_add_test3 (cx : C19Cx α) (σ : C19Store α) (b : C19V α) (p q : Poly) (i j : Nat)
    (acc : List Term) (h : c19AddInv σ b p q i j acc) :
    c19Test cx c19AddC3 σ = .ok (decide (j < q.length)) := by
  obtain ⟨h1, h2, h3, h4, h5⟩ := h
  unfold c19AddC3
  c19_run [h2, h4, c19Attr_poly_data, c19EncTerms_length]
  simp

theorem c19_add_body2 (cx : C19Cx α) (σ : C19Store α) (b : C19V α) (p q : Poly) (i j : Nat)
    (acc : List Term) (h : c19AddInv σ b p q i j acc) (hi : i < p.length) :
    ∃ σ', c19ExecL cx c19AddB2 σ = .next σ' ∧ c19AddInv σ' b p q (i + 1) j (acc ++ [p[i]]) := by
  obtain ⟨h1, h2, h3, h4, h5⟩ := h
  unfold c19AddB2
  refine ⟨_, by c19_run [h1, h2, h3, h4, h5, c19Attr_poly_data, c19Index_enc _ _ hi]; rfl, ?_⟩
  unfold c19AddInv
  c19_run [h1, h2, h3, h4, h5, c19EncTerms_append]
  simp [c19EncTerms, c19EncTerm]

theorem c19_add_body3 (cx : C19Cx α) (σ : C19Store α) (b : C19V α) (p q : Poly) (i j : Nat)
    (acc : List Term) (h : c19AddInv σ b p q i j acc) (hj : j < q.length) :
    ∃ σ', c19ExecL cx c19AddB3 σ = .next σ' ∧ c19AddInv σ' b p q i (j + 1) (acc ++ [q[j]]) := by
  obtain ⟨h1, h2, h3, h4, h5⟩ := h
  unfold c19AddB3
  refine ⟨_, by c19_run [h1, h2, h3, h4, h5, c19Attr_poly_data, c19Index_enc _ _ hj]; rfl, ?_⟩
  unfold c19AddInv
  c19_run [h1, h2, h3, h4, h5, c19EncTerms_append]
  simp [c19EncTerms, c19EncTerm]

/-- the second `while` loop of `__add__` (the rest of `self`) -/
theorem c19_add_loop2 (cx : C19Cx α) (b : C19V α) (p q : Poly) :
    ∀ (m : Nat) (σ : C19Store α) (i j : Nat) (acc : List Term) (k : Nat),
      p.length - i ≤ m → m + 1 ≤ k → c19AddInv σ b p q i j acc →
      ∃ σ', c19While (c19Test cx c19AddC2) (c19ExecL cx c19AddB2) k σ = .next σ' ∧
        c19AddInv σ' b p q (max i p.length) j (acc ++ p.drop i) := by
  intro m
  induction m with
  | zero =>
    intro σ i j acc k hm hk hinv
    obtain ⟨k, rfl⟩ : ∃ k', k = k' + 1 := ⟨k - 1, by omega⟩
    have hc : ¬ i < p.length := by omega
    refine ⟨σ, ?_, ?_⟩
    · rw [c19While_succ_false _ _ _ _ (by rw [c19_add_test2 cx σ b p q i j acc hinv]; simp [hc])]
    · rw [List.drop_eq_nil_of_le (by omega), List.append_nil, Nat.max_eq_left (by omega)]
      exact hinv
  | succ m ih =>
    intro σ i j acc k hm hk hinv
    obtain ⟨k, rfl⟩ : ∃ k', k = k' + 1 := ⟨k - 1, by omega⟩
    by_cases hi : i < p.length
    · have ht : c19Test cx c19AddC2 σ = .ok true := by
        rw [c19_add_test2 cx σ b p q i j acc hinv]; simp [hi]
      obtain ⟨σ1, hb, hinv1⟩ := c19_add_body2 cx σ b p q i j acc hinv hi
      obtain ⟨σ', h1, h2⟩ := ih σ1 (i + 1) j _ k (by omega) (by omega) hinv1
      refine ⟨σ', ?_, ?_⟩
      · rw [c19While_succ_true _ _ _ _ _ ht hb]; exact h1
      · rw [List.drop_eq_getElem_cons hi]
        rw [show max i p.length = max (i + 1) p.length by omega]
        simpa using h2
    · refine ⟨σ, ?_, ?_⟩
      · rw [c19While_succ_false _ _ _ _ (by rw [c19_add_test2 cx σ b p q i j acc hinv]; simp [hi])]
      · rw [List.drop_eq_nil_of_le (by omega), List.append_nil, Nat.max_eq_left (by omega)]
        exact hinv

/-- the third `while` loop of `__add__` (the rest of `other`) -/
theorem c19_add_loop3 (cx : C19Cx α) (b : C19V α) (p q : Poly) :
    ∀ (m : Nat) (σ : C19Store α) (i j : Nat) (acc : List Term) (k : Nat),
      q.length - j ≤ m → m + 1 ≤ k → c19AddInv σ b p q i j acc →
      ∃ σ', c19While (c19Test cx c19AddC3) (c19ExecL cx c19AddB3) k σ = .next σ' ∧
        c19AddInv σ' b p q i (max j q.length) (acc ++ q.drop j) := by
  intro m
  induction m with
  | zero =>
    intro σ i j acc k hm hk hinv
    obtain ⟨k, rfl⟩ : ∃ k', k = k' + 1 := ⟨k - 1, by omega⟩
    have hc : ¬ j < q.length := by omega
    refine ⟨σ, ?_, ?_⟩
    · rw [c19While_succ_false _ _ _ _ (by rw [c19_add_test3 cx σ b p q i j acc hinv]; simp [hc])]
    · rw [List.drop_eq_nil_of_le (by omega), List.append_nil, Nat.max_eq_left (by omega)]
      exact hinv
  | succ m ih =>
    intro σ i j acc k hm hk hinv
    obtain ⟨k, rfl⟩ : ∃ k', k = k' + 1 := ⟨k - 1, by omega⟩
    by_cases hj : j < q.length
    · have ht : c19Test cx c19AddC3 σ = .ok true := by
        rw [c19_add_test3 cx σ b p q i j acc hinv]; simp [hj]
      obtain ⟨σ1, hb, hinv1⟩ := c19_add_body3 cx σ b p q i j acc hinv hj
      obtain ⟨σ', h1, h2⟩ := ih σ1 i (j + 1) _ k (by omega) (by omega) hinv1
      refine ⟨σ', ?_, ?_⟩
      · rw [c19While_succ_true _ _ _ _ _ ht hb]; exact h1
      · rw [List.drop_eq_getElem_cons hj]
        rw [show max j q.length = max (j + 1) q.length by omega]
        simpa using h2
    · refine ⟨σ, ?_, ?_⟩
      · rw [c19While_succ_false _ _ _ _ (by rw [c19_add_test3 cx σ b p q i j acc hinv]; simp [hj])]
      · rw [List.drop_eq_nil_of_le (by omega), List.append_nil, Nat.max_eq_left (by omega)]
        exact hinv

theorem c19_find_poly_add :
    c19FindFn c19Table "Polynomial.__add__" = some c19Fn_Polynomial___add__ := rfl

theorem c19_add_nil_left (q : Poly) : add [] q = q := by
  cases q <;> simp [add]

/-- **`Polynomial.__add__` as regenerated IS `add`** (same base, both operands polynomials): the
three `while` loops merge the two exponent-sorted lists, dropping a term whose summed coefficient
is zero, and the result is handed to the constructor. -/
theorem c19_poly_add_run (ops : C19Ops α) (ext : String → List (C19V α) → C19R (C19V α))
    (b : String) (p q : Poly) (n : Nat) (hn : p.length + q.length + 1 ≤ n) :
    c19RunFn ops c19Table ext (n + 1) "Polynomial.__add__" [c19EncPoly b p, c19EncPoly b q]
      = .ok (c19EncPoly b (add p q)) := by
  obtain ⟨n, rfl⟩ : ∃ n', n = n' + 1 := ⟨n - 1, by omega⟩
  have hpre : c19ExecL (c19CxAt ops c19Table ext (n + 1) (n + 1 + 1)) c19AddPre [("self", c19EncPoly b p), ("other", c19EncPoly b q)]
      = .next [("self", c19EncPoly b p), ("other", c19EncPoly b q), ("i_self", .int 0),
          ("i_other", .int 0), ("result", .tup [])] := by
    unfold c19AddPre c19EncPoly
    c19_run [c19TruthyM_poly, c19IsInst_poly, c19Attr_poly_base, beq_self_eq_true]
  have hinv0 : c19AddInv ([("self", c19EncPoly b p), ("other", c19EncPoly b q), ("i_self", .int 0),
      ("i_other", .int 0), ("result", .tup [])] : C19Store α) (.sym b) p q 0 0 [] := by
    unfold c19AddInv c19EncPoly
    c19_run []
    simp [c19EncTerms]
  obtain ⟨σ1, i1, j1, acc1, hl1, hinv1, hstop, heq1⟩ :=
    c19_add_loop1 (c19CxAt ops c19Table ext (n + 1) (n + 1 + 1)) (.sym b) p q (p.length + q.length) _ 0 0 [] (n + 1 + 1) (by omega) (by omega) hinv0
  obtain ⟨σ2, hl2, hinv2⟩ :=
    c19_add_loop2 (c19CxAt ops c19Table ext (n + 1) (n + 1 + 1)) (.sym b) p q p.length σ1 i1 j1 acc1 (n + 1 + 1) (by omega) (by omega) hinv1
  obtain ⟨σ3, hl3, hinv3⟩ :=
    c19_add_loop3 (c19CxAt ops c19Table ext (n + 1) (n + 1 + 1)) (.sym b) p q q.length σ2 _ j1 _ (n + 1 + 1) (by omega) (by omega) hinv2
  have hres : acc1 ++ p.drop i1 ++ q.drop j1 = add p q := by
    have h0 : acc1 ++ add (p.drop i1) (q.drop j1) = add p q := by simpa using heq1
    rw [← h0, List.append_assoc]
    congr 1
    by_cases hi : i1 < p.length
    · have : q.drop j1 = [] := List.drop_eq_nil_of_le (by omega)
      rw [this, c19_add_nil_right, List.append_nil]
    · have : p.drop i1 = [] := List.drop_eq_nil_of_le (by omega)
      rw [this, c19_add_nil_left, List.nil_append]
  rw [c19RunFn_succ ops c19Table ext _ _ _ _ _ c19_find_poly_add
    (by rw [c19_poly_add_body_current]; rfl)]
  simp only [c19_poly_add_body_current]
  rw [c19ExecL_append, hpre, C19O.andThen_next, c19ExecL_while, c19CxAt_fuel, hl1,
    C19O.andThen_next, c19ExecL_while, c19CxAt_fuel, hl2, C19O.andThen_next, c19ExecL_while,
    c19CxAt_fuel, hl3, C19O.andThen_next]
  obtain ⟨g1, g2, g3, g4, g5⟩ := hinv3
  unfold c19AddRet
  c19_run [g1, g5, c19Attr_poly_base, c19New_polynomial, c19_poly_init_run, hres]
  rfl


/-! ### `__sub__` -/

theorem c19BinOp_poly_add (ops : C19Ops α) (ext : String → List (C19V α) → C19R (C19V α))
    (n k : Nat) (b : C19V α) (ts : List (C19V α)) (v : C19V α) :
    c19BinOp (c19CxAt ops c19Table ext n k) .add (c19PolyObj b ts) v
      = c19RunFn ops c19Table ext n "Polynomial.__add__" [c19PolyObj b ts, v] := rfl
theorem c19BinOp_poly_sub (ops : C19Ops α) (ext : String → List (C19V α) → C19R (C19V α))
    (n k : Nat) (b : C19V α) (ts : List (C19V α)) (v : C19V α) :
    c19BinOp (c19CxAt ops c19Table ext n k) .sub (c19PolyObj b ts) v
      = c19RunFn ops c19Table ext n "Polynomial.__sub__" [c19PolyObj b ts, v] := rfl
theorem c19BinOp_poly_mul (ops : C19Ops α) (ext : String → List (C19V α) → C19R (C19V α))
    (n k : Nat) (b : C19V α) (ts : List (C19V α)) (v : C19V α) :
    c19BinOp (c19CxAt ops c19Table ext n k) .mul (c19PolyObj b ts) v
      = c19RunFn ops c19Table ext n "Polynomial.__mul__" [c19PolyObj b ts, v] := rfl
theorem c19Neg_poly (ops : C19Ops α) (ext : String → List (C19V α) → C19R (C19V α))
    (n k : Nat) (b : C19V α) (ts : List (C19V α)) :
    c19Neg (c19CxAt ops c19Table ext n k) (c19PolyObj b ts)
      = c19RunFn ops c19Table ext n "Polynomial.__neg__" [c19PolyObj b ts] := rfl

theorem c19_find_poly_sub :
    c19FindFn c19Table "Polynomial.__sub__" = some c19Fn_Polynomial___sub__ := rfl

theorem c19_neg_length (q : Poly) : (neg q).length = q.length := by simp [neg]

/-- **`Polynomial.__sub__` as regenerated IS `sub`** (`self + (-other)`) -/
theorem c19_poly_sub_run (ops : C19Ops α) (ext : String → List (C19V α) → C19R (C19V α))
    (b : String) (p q : Poly) (n : Nat) (hn : p.length + q.length + 2 ≤ n) :
    c19RunFn ops c19Table ext (n + 1) "Polynomial.__sub__" [c19EncPoly b p, c19EncPoly b q]
      = .ok (c19EncPoly b (sub p q)) := by
  obtain ⟨n, rfl⟩ : ∃ n', n = n' + 1 := ⟨n - 1, by omega⟩
  obtain ⟨n, rfl⟩ : ∃ n', n = n' + 1 := ⟨n - 1, by omega⟩
  have hneg := c19_poly_neg_run ops ext (.sym b) q n
  have hadd := c19_poly_add_run ops ext b p (neg q) (n + 1) (by rw [c19_neg_length]; omega)
  rw [c19RunFn_succ ops c19Table ext _ _ _ _ _ c19_find_poly_sub rfl]
  simp only [c19Fn_Polynomial___sub__]
  unfold c19EncPoly at *
  c19_run [c19Neg_poly, hneg, c19BinOp_poly_add, hadd]
  rfl

/-! ### `__mul__` -/

def c19MulPre : List C19S := [
  .ite (.not (.isinst (.var "other") ["Polynomial"])) [
    .ite (.cmp .eq (.var "other") (.attr (.var "self") "Base")) [
      .assign (.pat (.name "other")) (.new "Polynomial" [(.attr (.var "self") "Base"), .none, (.int 1), .none])] [
      .ret (.new "Polynomial" [(.attr (.var "self") "Base"), (.comp (.tuple [(.var "exp"), (.bin .mul (.var "coeff") (.var "other"))]) (.tuple [(.name "exp"), (.name "coeff")]) (.attr (.var "self") "Data")), (.int 1), .none])]] [],
  .ite (.cmp .ne (.attr (.var "other") "Base") (.attr (.var "self") "Base")) [
    .assert (.cmp .eq (.attr (.var "self") "VarLess") (.attr (.var "other") "VarLess")),
    .ite (.method (.attr (.var "self") "VarLess") "__call__" [(.attr (.var "self") "Base"), (.attr (.var "other") "Base")]) [
      .ret (.new "Polynomial" [(.attr (.var "self") "Base"), (.comp (.tuple [(.var "exp"), (.bin .mul (.var "coeff") (.var "other"))]) (.tuple [(.name "exp"), (.name "coeff")]) (.attr (.var "self") "Data")), (.int 1), .none])] [
      .ret (.method (.var "other") "__mul__" [(.var "self")])]] [],
  .assign (.pat (.name "result")) (.tuple [])]

def c19MulP1 : C19P := .tuple [(.name "s_exp"), (.name "s_coeff")]
def c19MulP2 : C19P := .tuple [(.name "o_exp"), (.name "o_coeff")]
def c19MulB2 : List C19S := [
  .append "result" (.tuple [(.bin .add (.var "s_exp") (.var "o_exp")), (.bin .mul (.var "s_coeff") (.var "o_coeff"))])]
def c19MulB1 : List C19S := [.for c19MulP2 (.attr (.var "other") "Data") c19MulB2]
def c19MulRet : C19S :=
  .ret (.new "Polynomial" [(.attr (.var "self") "Base"), (.call "tuple" [(.call "polynomial._sort_uniq" [(.var "result")])]), (.int 1), .none])

/-- the body of `Polynomial.__mul__` in the current source -/
theorem c19_poly_mul_body_current :
    c19Fn_Polynomial___mul__ = ⟨"Polynomial.__mul__", .method, ["self", "other"], [],
      c19MulPre ++ [.for c19MulP1 (.attr (.var "self") "Data") c19MulB1, c19MulRet]⟩ := rfl

def c19MulInvO (σ : C19Store α) (b : C19V α) (p q : Poly) (acc : List Term) : Prop :=
  c19Get "self" σ = some (c19PolyObj b (c19EncTerms p)) ∧
  c19Get "other" σ = some (c19PolyObj b (c19EncTerms q)) ∧
  c19Get "result" σ = some (.tup (c19EncTerms acc))

def c19MulInvI (σ : C19Store α) (b : C19V α) (p q : Poly) (e : Nat) (c : Int) (acc : List Term) :
    Prop :=
  c19MulInvO σ b p q acc ∧ c19Get "s_exp" σ = some (.int e) ∧ c19Get "s_coeff" σ = some (.int c)

theorem c19For_cons (bind : C19V α → C19Store α → Option (C19Store α))
    (body : C19Store α → C19O α) (v : C19V α) (vs : List (C19V α)) (σ σ1 σ2 : C19Store α)
    (hb : bind v σ = some σ1) (he : body σ1 = .next σ2) :
    c19For bind body (v :: vs) σ = c19For bind body vs σ2 := by
  simp [c19For, hb, he]

/-- the inner `for` loop of `__mul__`: the products of one term of `self` with all of `other` -/
theorem c19_mul_inner (cx : C19Cx α) (b : C19V α) (p q : Poly) (e : Nat) (c : Int) :
    ∀ (rest : List Term) (σ : C19Store α) (acc : List Term), c19MulInvI σ b p q e c acc →
    ∃ σ', c19For (c19Bind c19MulP2) (c19ExecL cx c19MulB2) (c19EncTerms rest) σ = .next σ' ∧
      c19MulInvI σ' b p q e c (acc ++ rest.map fun o => (e + o.1, c * o.2)) := by
  intro rest
  induction rest with
  | nil => intro σ acc h; exact ⟨σ, rfl, by simpa using h⟩
  | cons o rest ih =>
    intro σ acc h
    obtain ⟨⟨h1, h2, h3⟩, h4, h5⟩ := h
    have hb : c19Bind c19MulP2 (c19EncTerm o) σ
        = some (c19Set "o_coeff" (.int o.2) (c19Set "o_exp" (.int o.1) σ)) := by
      unfold c19MulP2 c19EncTerm; c19_run []
    have he : c19ExecL cx c19MulB2 (c19Set "o_coeff" (.int o.2) (c19Set "o_exp" (.int o.1) σ))
        = .next (c19Set "result" (.tup (c19EncTerms acc ++ [.tup [.int (e + o.1), .int (c * o.2)]]))
            (c19Set "o_coeff" (.int o.2) (c19Set "o_exp" (.int o.1) σ))) := by
      unfold c19MulB2; c19_run [h3, h4, h5]
    obtain ⟨σ', hl, hinv⟩ := ih
      (c19Set "result" (.tup (c19EncTerms acc ++ [.tup [.int (e + o.1), .int (c * o.2)]]))
            (c19Set "o_coeff" (.int o.2) (c19Set "o_exp" (.int o.1) σ)))
      (acc ++ [(e + o.1, c * o.2)]) (by
      unfold c19MulInvI c19MulInvO
      c19_run [h1, h2, h3, h4, h5, c19EncTerms_append]
      simp [c19EncTerms, c19EncTerm])
    refine ⟨σ', ?_, ?_⟩
    · rw [c19EncTerms_cons, c19For_cons _ _ _ _ _ _ _ hb he]; exact hl
    · simpa using hinv

theorem c19_mul_outer (cx : C19Cx α) (b : C19V α) (p q : Poly) :
    ∀ (rest : List Term) (σ : C19Store α) (acc : List Term), c19MulInvO σ b p q acc →
    ∃ σ', c19For (c19Bind c19MulP1) (c19ExecL cx c19MulB1) (c19EncTerms rest) σ = .next σ' ∧
      c19MulInvO σ' b p q (acc ++ mulRaw rest q) := by
  intro rest
  induction rest with
  | nil => intro σ acc h; exact ⟨σ, rfl, by simpa [mulRaw] using h⟩
  | cons s rest ih =>
    intro σ acc h
    obtain ⟨h1, h2, h3⟩ := h
    have hb : c19Bind c19MulP1 (c19EncTerm s) σ
        = some (c19Set "s_coeff" (.int s.2) (c19Set "s_exp" (.int s.1) σ)) := by
      unfold c19MulP1 c19EncTerm; c19_run []
    obtain ⟨σ1, hl1, ⟨hO, _, _⟩⟩ := c19_mul_inner cx b p q s.1 s.2 q
      (c19Set "s_coeff" (.int s.2) (c19Set "s_exp" (.int s.1) σ)) acc (by
        unfold c19MulInvI c19MulInvO
        c19_run [h1, h2, h3]
        simp)
    have he : c19ExecL cx c19MulB1 (c19Set "s_coeff" (.int s.2) (c19Set "s_exp" (.int s.1) σ))
        = .next σ1 := by
      unfold c19MulB1
      rw [c19ExecL_for cx _ _ _ _ _ (c19EncTerms q) (by c19_run [h2, c19Attr_poly_data]), hl1]
      rfl
    obtain ⟨σ', hl, hinv⟩ := ih σ1 _ hO
    refine ⟨σ', ?_, ?_⟩
    · rw [c19EncTerms_cons, c19For_cons _ _ _ _ _ _ _ hb he]; exact hl
    · simpa [mulRaw, List.flatMap_cons] using hinv

theorem c19_find_poly_mul :
    c19FindFn c19Table "Polynomial.__mul__" = some c19Fn_Polynomial___mul__ := rfl

theorem c19Call_sort_uniq (cx : C19Cx α) (a : C19V α) :
    c19Call cx "polynomial._sort_uniq" [a] = cx.calls "polynomial._sort_uniq" [a] := rfl

/-- **`Polynomial.__mul__` as regenerated IS `mul`** (same base, both operands polynomials): the
double loop builds all products in the order of `mulRaw`, `_sort_uniq` merges them. -/
theorem c19_poly_mul_run (ops : C19Ops α) (ext : String → List (C19V α) → C19R (C19V α))
    (b : String) (p q : Poly) (n : Nat) :
    c19RunFn ops c19Table ext (n + 1 + 1) "Polynomial.__mul__" [c19EncPoly b p, c19EncPoly b q]
      = .ok (c19EncPoly b (mul p q)) := by
  have hpre : c19ExecL (c19CxAt ops c19Table ext (n + 1) (n + 1 + 1)) c19MulPre
      [("self", c19EncPoly b p), ("other", c19EncPoly b q)]
      = .next [("self", c19EncPoly b p), ("other", c19EncPoly b q), ("result", .tup [])] := by
    unfold c19MulPre c19EncPoly
    c19_run [c19IsInst_poly, c19Attr_poly_base, beq_self_eq_true]
  obtain ⟨σ1, hl, g1, g2, g3⟩ := c19_mul_outer (c19CxAt ops c19Table ext (n + 1) (n + 1 + 1))
    (.sym b) p q p [("self", c19EncPoly b p), ("other", c19EncPoly b q), ("result", .tup [])] [] (by
      unfold c19MulInvO c19EncPoly
      c19_run []
      simp [c19EncTerms])
  rw [c19RunFn_succ ops c19Table ext _ _ _ _ _ c19_find_poly_mul
    (by rw [c19_poly_mul_body_current]; rfl)]
  simp only [c19_poly_mul_body_current]
  rw [c19ExecL_append, hpre, C19O.andThen_next,
    c19ExecL_for _ _ _ _ _ _ (c19EncTerms p) (by unfold c19EncPoly; c19_run [c19Attr_poly_data]),
    hl, C19O.andThen_next]
  unfold c19MulRet
  c19_run [g1, g3, c19Attr_poly_base, c19Call_sort_uniq, c19_sort_uniq_run, c19New_polynomial,
    c19_poly_init_run]
  rfl


/-! ### `__pow__` -/

theorem c19_find_poly_pow :
    c19FindFn c19Table "Polynomial.__pow__" = some c19Fn_Polynomial___pow__ := rfl

theorem c19Call_integer_power (cx : C19Cx α) (a b c : C19V α) :
    c19Call cx "algorithm.integer_power" [a, b, c] = cx.calls "algorithm.integer_power" [a, b, c] := rfl

/-- **`Polynomial.__pow__` as regenerated IS `pow`**: `integer_power` run on polynomial objects,
whose `*` is `Polynomial.__mul__`, starting from the constant polynomial one. -/
theorem c19_poly_pow_run (ops : C19Ops α) (ext : String → List (C19V α) → C19R (C19V α))
    (b : String) (p : Poly) (m n : Nat) (hn : m ≤ n + 2) :
    c19RunFn ops c19Table ext (n + 1 + 1 + 1 + 1) "Polynomial.__pow__" [c19EncPoly b p, .int m]
      = .ok (c19EncPoly b (pow p m)) := by
  have hip := c19_integer_power_run ops ext (c19EncPoly b) mul (n + 1 + 1)
    (by intro x y; unfold c19EncPoly; rw [c19BinOp_poly_mul]; exact c19_poly_mul_run ops ext b x y n)
    p one m (by omega)
  rw [c19RunFn_succ ops c19Table ext _ _ _ _ _ c19_find_poly_pow rfl]
  simp only [c19Fn_Polynomial___pow__]
  have hone : (c19PolyObj (.sym b) [.tup [.int 0, .int 1]] : C19V α) = c19EncPoly b one := rfl
  unfold c19EncPoly at *
  c19_run [c19Attr_poly_base, c19New_polynomial, c19_poly_init_run, c19Call_integer_power, hone,
    hip]
  rfl


/-! ### `degree`, `traits` -/

theorem c19_find_poly_degree :
    c19FindFn c19Table "Polynomial.degree" = some c19Fn_Polynomial_degree := rfl

theorem c19_leadTerm_concat (l : List Term) (t : Term) : leadTerm (l ++ [t]) = t := by
  simp [leadTerm]

theorem c19_degree_concat (l : List Term) (t : Term) : degree (l ++ [t]) = (t.1 : Int) := by
  simp [degree]

theorem c19_concat_of_ne_nil (p : List Term) (hp : p ≠ []) : ∃ l t, p = l ++ [t] :=
  ⟨p.dropLast, p.getLast hp, (List.dropLast_concat_getLast hp).symm⟩

theorem c19Index_enc_last (p : List Term) (hp : p ≠ []) :
    c19Index (c19EncTerms p : List (C19V α)) (-1)
      = .ok (.tup [.int (leadTerm p).1, .int (leadTerm p).2]) := by
  obtain ⟨l, t, rfl⟩ := c19_concat_of_ne_nil p hp
  rw [c19EncTerms_append, c19_leadTerm_concat]
  exact c19Index_last _ _

theorem c19_degree_of_ne_nil (p : List Term) (hp : p ≠ []) : degree p = ((leadTerm p).1 : Int) := by
  obtain ⟨l, t, rfl⟩ := c19_concat_of_ne_nil p hp
  rw [c19_degree_concat, c19_leadTerm_concat]

/-- the property `degree`: last exponent, `-1` through the `except IndexError` -/
theorem c19_poly_degree_run (ops : C19Ops α) (ext : String → List (C19V α) → C19R (C19V α))
    (b : C19V α) (p : Poly) (n : Nat) :
    c19RunFn ops c19Table ext (n + 1) "Polynomial.degree" [c19PolyObj b (c19EncTerms p)]
      = .ok (.int (degree p)) := by
  rw [c19RunFn_succ ops c19Table ext _ _ _ _ _ c19_find_poly_degree rfl]
  simp only [c19Fn_Polynomial_degree]
  by_cases hp : p = []
  · subst hp
    have : (c19EncTerms [] : List (C19V α)) = [] := rfl
    c19_run [c19Attr_poly_data, this, c19Index_nil]
    rfl
  · c19_run [c19Attr_poly_data, c19Index_enc_last p hp, c19_degree_of_ne_nil p hp]
    rfl

theorem c19Attr_poly_degree (ops : C19Ops α) (ext : String → List (C19V α) → C19R (C19V α))
    (n k : Nat) (b : C19V α) (ts : List (C19V α)) :
    c19Attr (c19CxAt ops c19Table ext n k) (c19PolyObj b ts) "degree"
      = c19RunFn ops c19Table ext n "Polynomial.degree" [c19PolyObj b ts] := rfl

/-! ### `__divmod__` -/

def c19DmMixed : List C19S := [
  .ite (.not (.isinst (.var "other") ["Polynomial"])) [
    .assign (.pat (.name "dm_list")) (.comp (.tuple [(.var "exp"), (.call "divmod" [(.var "coeff"), (.var "other")])]) (.tuple [(.name "exp"), (.name "coeff")]) (.attr (.var "self") "Data")),
    .ret (.tuple [(.new "Polynomial" [(.attr (.var "self") "Base"), (.comp (.tuple [(.var "exp"), (.var "quot")]) (.tuple [(.name "exp"), (.tuple [(.name "quot"), (.name "_")])]) (.var "dm_list")), (.int 1), .none]), (.new "Polynomial" [(.attr (.var "self") "Base"), (.comp (.tuple [(.var "exp"), (.var "rem")]) (.tuple [(.name "exp"), (.tuple [(.name "_"), (.name "rem")])]) (.var "dm_list")), (.int 1), .none])])] [],
  .ite (.cmp .ne (.attr (.var "other") "Base") (.attr (.var "self") "Base")) [
    .assert (.cmp .eq (.attr (.var "self") "VarLess") (.attr (.var "other") "VarLess")),
    .ite (.method (.attr (.var "self") "VarLess") "__call__" [(.attr (.var "self") "Base"), (.attr (.var "other") "Base")]) [
      .assign (.pat (.name "dm_list")) (.comp (.tuple [(.var "exp"), (.call "divmod" [(.var "coeff"), (.var "other")])]) (.tuple [(.name "exp"), (.name "coeff")]) (.attr (.var "self") "Data")),
      .ret (.tuple [(.new "Polynomial" [(.attr (.var "self") "Base"), (.comp (.tuple [(.var "exp"), (.var "quot")]) (.tuple [(.name "exp"), (.tuple [(.name "quot"), (.name "_")])]) (.var "dm_list")), (.int 1), .none]), (.new "Polynomial" [(.attr (.var "self") "Base"), (.comp (.tuple [(.var "exp"), (.var "rem")]) (.tuple [(.name "exp"), (.tuple [(.name "_"), (.name "rem")])]) (.var "dm_list")), (.int 1), .none])])] [
      .assign (.pat (.name "other_unit")) (.new "Polynomial" [(.attr (.var "other") "Base"), (.tuple [(.tuple [(.int 0), (.attr (.var "other") "unit")])]), (.attr (.var "self") "VarLess"), .none]),
      .assign (.pat (.tuple [(.name "quot"), (.name "rem")])) (.call "divmod" [(.var "other_unit"), (.var "other")]),
      .ret (.tuple [(.bin .mul (.var "quot") (.var "self")), (.bin .mul (.var "rem") (.var "self"))])]] []]

def c19DmPre : List C19S := [
  .ite (.cmp .eq (.attr (.var "other") "degree") (.int (-1))) [
    .raise "ZeroDivisionError"] [],
  .assign (.pat (.name "quot")) (.new "Polynomial" [(.attr (.var "self") "Base"), (.tuple []), (.int 1), .none]),
  .assign (.pat (.name "rem")) (.var "self"),
  .assign (.pat (.name "other_lead_coeff")) (.index (.index (.attr (.var "other") "Data") (.int (-1))) (.int 1)),
  .assign (.pat (.name "other_lead_exp")) (.index (.index (.attr (.var "other") "Data") (.int (-1))) (.int 0)),
  .assign (.pat (.name "coeffs_are_field")) (.isinst (.call "traits.traits" [(.attr (.var "self") "Unit")]) ["FieldTraits"])]

def c19DmCond : C19E := .cmp .ge (.attr (.var "rem") "degree") (.attr (.var "other") "degree")

def c19DmBody : List C19S := [
  .ite (.var "coeffs_are_field") [
    .assign (.pat (.name "coeff_factor")) (.call "primitives.quotient" [(.index (.index (.attr (.var "rem") "Data") (.int (-1))) (.int 1)), (.var "other_lead_coeff")])] [
    .assign (.pat (.tuple [(.name "coeff_factor"), (.name "lead_rem")])) (.call "divmod" [(.index (.index (.attr (.var "rem") "Data") (.int (-1))) (.int 1)), (.var "other_lead_coeff")]),
    .ite (.var "lead_rem") [
      .ret (.tuple [(.var "quot"), (.var "rem")])] []],
  .assign (.pat (.name "deg_diff")) (.bin .sub (.index (.index (.attr (.var "rem") "Data") (.int (-1))) (.int 0)) (.var "other_lead_exp")),
  .assign (.pat (.name "this_fac")) (.new "Polynomial" [(.attr (.var "self") "Base"), (.tuple [(.tuple [(.var "deg_diff"), (.var "coeff_factor")])]), (.int 1), .none]),
  .aug "quot" .add (.var "this_fac"),
  .aug "rem" .sub (.bin .mul (.var "this_fac") (.var "other"))]

def c19DmRet : C19S := .ret (.tuple [(.var "quot"), (.var "rem")])

/-- the body of `Polynomial.__divmod__` in the current source -/
theorem c19_poly_divmod_body_current :
    c19Fn_Polynomial___divmod__ = ⟨"Polynomial.__divmod__", .method, ["self", "other"], [],
      c19DmMixed ++ (c19DmPre ++ [.while c19DmCond c19DmBody, c19DmRet])⟩ := rfl

/-- what the loop of `__divmod__` keeps in the store -/
def c19DmInv (σ : C19Store α) (b : String) (p other quot rem : Poly) : Prop :=
  c19Get "self" σ = some (c19EncPoly b p) ∧ c19Get "other" σ = some (c19EncPoly b other) ∧
  c19Get "quot" σ = some (c19EncPoly b quot) ∧ c19Get "rem" σ = some (c19EncPoly b rem) ∧
  c19Get "other_lead_coeff" σ = some (.int (leadTerm other).2) ∧
  c19Get "other_lead_exp" σ = some (.int (leadTerm other).1) ∧
  c19Get "coeffs_are_field" σ = some (.bool false)

section
variable (ops : C19Ops α) (ext : String → List (C19V α) → C19R (C19V α))

theorem c19_dm_test (b : String) (p other quot rem : Poly) (σ : C19Store α) (n kf : Nat)
    (h : c19DmInv σ b p other quot rem) :
    c19Test (c19CxAt ops c19Table ext (n + 1) kf) c19DmCond σ
      = .ok (decide (degree rem ≥ degree other)) := by
  obtain ⟨h1, h2, h3, h4, h5, h6, h7⟩ := h
  unfold c19DmCond
  unfold c19EncPoly at *
  c19_run [h2, h4, c19Attr_poly_degree, c19_poly_degree_run]

theorem c19_dm_body_stop (b : String) (p other quot rem : Poly) (σ : C19Store α) (n kf : Nat)
    (h : c19DmInv σ b p other quot rem) (hrem : rem ≠ [])
    (hlc : (leadTerm other).2 ≠ 0)
    (hlr : Int.fmod (leadTerm rem).2 (leadTerm other).2 ≠ 0) :
    c19ExecL (c19CxAt ops c19Table ext n kf) c19DmBody σ
      = .ret (.tup [c19EncPoly b quot, c19EncPoly b rem]) := by
  obtain ⟨h1, h2, h3, h4, h5, h6, h7⟩ := h
  unfold c19DmBody
  have hb : (Int.fmod (leadTerm rem).2 (leadTerm other).2 != 0) = true := by simp [hlr]
  unfold c19EncPoly at *
  c19_run [h1, h2, h3, h4, h5, h6, h7, c19Attr_poly_data, c19Index_enc_last rem hrem,
    c19Call_divmod_ne _ _ _ hlc, hb]

theorem c19_dm_body_zero (b : String) (p other quot rem : Poly) (σ : C19Store α) (n kf : Nat)
    (h : c19DmInv σ b p other quot rem) (hrem : rem ≠ [])
    (hlc : (leadTerm other).2 = 0) :
    c19ExecL (c19CxAt ops c19Table ext n kf) c19DmBody σ = .raise "ZeroDivisionError" := by
  obtain ⟨h1, h2, h3, h4, h5, h6, h7⟩ := h
  unfold c19DmBody
  rw [hlc] at h5
  unfold c19EncPoly at *
  c19_run [h1, h2, h3, h4, h5, h6, h7, c19Attr_poly_data, c19Index_enc_last rem hrem,
    c19Call_divmod_zero]


/-- the factor one iteration of the division loop subtracts -/
def c19DmFac (other rem : Poly) : Poly :=
  [((leadTerm rem).1 - (leadTerm other).1, Int.fdiv (leadTerm rem).2 (leadTerm other).2)]

theorem c19_dm_body_step (b : String) (p other quot rem : Poly) (σ : C19Store α) (n kf : Nat)
    (h : c19DmInv σ b p other quot rem) (hrem : rem ≠ []) (hother : other ≠ [])
    (hge : degree rem ≥ degree other) (hlc : (leadTerm other).2 ≠ 0)
    (hlr : Int.fmod (leadTerm rem).2 (leadTerm other).2 = 0)
    (hn : quot.length + rem.length + (mul (c19DmFac other rem) other).length + 3 ≤ n) :
    ∃ σ', c19ExecL (c19CxAt ops c19Table ext (n + 1 + 1) kf) c19DmBody σ = .next σ' ∧
      c19DmInv σ' b p other (add quot (c19DmFac other rem))
        (sub rem (mul (c19DmFac other rem) other)) := by
  obtain ⟨h1, h2, h3, h4, h5, h6, h7⟩ := h
  have hb : (Int.fmod (leadTerm rem).2 (leadTerm other).2 != 0) = false := by simp [hlr]
  have hdd : ((leadTerm rem).1 : Int) - ((leadTerm other).1 : Int)
      = (((leadTerm rem).1 - (leadTerm other).1 : Nat) : Int) := by
    rw [c19_degree_of_ne_nil rem hrem, c19_degree_of_ne_nil other hother] at hge
    omega
  have hfac : (c19PolyObj (.sym b) [.tup [.int (((leadTerm rem).1 - (leadTerm other).1 : Nat) : Int),
      .int (Int.fdiv (leadTerm rem).2 (leadTerm other).2)]] : C19V α)
      = c19PolyObj (.sym b) (c19EncTerms (c19DmFac other rem)) := rfl
  have hadd := c19_poly_add_run ops ext b quot (c19DmFac other rem) (n + 1)
    (by simp [c19DmFac]; omega)
  have hmul := c19_poly_mul_run ops ext b (c19DmFac other rem) other n
  have hsub := c19_poly_sub_run ops ext b rem (mul (c19DmFac other rem) other) (n + 1) (by omega)
  unfold c19DmBody
  unfold c19EncPoly at *
  refine ⟨_, (by
    c19_run [h1, h2, h3, h4, h5, h6, h7, c19Attr_poly_data, c19Attr_poly_base,
      c19Index_enc_last rem hrem, c19Call_divmod_ne _ _ _ hlc, hb, hdd, c19New_polynomial,
      c19_poly_init_run, hfac, c19BinOp_poly_add, hadd, c19BinOp_poly_mul, hmul, c19BinOp_poly_sub,
      hsub]
    rfl), ?_⟩
  unfold c19DmInv c19EncPoly
  c19_run [h1, h2, h3, h4, h5, h6, h7]
  simp


theorem c19_dm_ret (cx : C19Cx α) (b : String) (p other quot rem : Poly) (σ : C19Store α)
    (h : c19DmInv σ b p other quot rem) :
    c19ExecL cx [c19DmRet] σ = .ret (.tup [c19EncPoly b quot, c19EncPoly b rem]) := by
  obtain ⟨h1, h2, h3, h4, h5, h6, h7⟩ := h
  unfold c19DmRet
  c19_run [h3, h4]

theorem c19_degree_nil : degree ([] : Poly) = -1 := rfl

theorem c19_degree_nonneg (p : Poly) (hp : p ≠ []) : 0 ≤ degree p := by
  rw [c19_degree_of_ne_nil p hp]; omega

/-- the `while rem.degree >= other.degree:` loop of `__divmod__` followed by its `return` IS
`divmodLoop` (whenever the model's fuel suffices) -/
theorem c19_dm_loop (b : String) (p other : Poly) (hother : other ≠ [])
    (hlc : (leadTerm other).2 ≠ 0) :
    ∀ (F : Nat) (quot rem : Poly) (r : Poly × Poly), divmodLoop other F quot rem = some r →
    ∃ N, ∀ n, N ≤ n → ∀ (kf k : Nat), F ≤ k → ∀ σ : C19Store α, c19DmInv σ b p other quot rem →
      (c19While (c19Test (c19CxAt ops c19Table ext n kf) c19DmCond)
        (c19ExecL (c19CxAt ops c19Table ext n kf) c19DmBody) k σ).andThen
          (c19ExecL (c19CxAt ops c19Table ext n kf) [c19DmRet])
        = .ret (.tup [c19EncPoly b r.1, c19EncPoly b r.2]) := by
  intro F
  induction F with
  | zero => intro quot rem r h; simp [divmodLoop] at h
  | succ F ih =>
    intro quot rem r h
    unfold divmodLoop at h
    by_cases hge : degree rem ≥ degree other
    · have hrem : rem ≠ [] := by
        intro hr; subst hr
        have := c19_degree_nonneg other hother
        rw [c19_degree_nil] at hge; omega
      simp only [hge, if_true] at h
      by_cases hlr : Int.fmod (leadTerm rem).2 (leadTerm other).2 ≠ 0
      · simp only [hlr, if_true, ne_eq, not_false_eq_true, Option.some.injEq] at h
        subst h
        refine ⟨1, fun n hn kf k hk σ hinv => ?_⟩
        obtain ⟨n, rfl⟩ : ∃ n', n = n' + 1 := ⟨n - 1, by omega⟩
        obtain ⟨k, rfl⟩ : ∃ k', k = k' + 1 := ⟨k - 1, by omega⟩
        rw [c19While_succ_ret _ _ _ _ _
          (by rw [c19_dm_test ops ext b p other quot rem σ n kf hinv]; simp [hge])
          (c19_dm_body_stop ops ext b p other quot rem σ (n + 1) kf hinv hrem hlc hlr)]
        rfl
      · have hlr' : Int.fmod (leadTerm rem).2 (leadTerm other).2 = 0 := by
          simpa using hlr
        simp only [hlr', ne_eq, not_true_eq_false, if_false] at h
        obtain ⟨N, hN⟩ := ih _ _ r h
        refine ⟨max N (quot.length + rem.length + (mul (c19DmFac other rem) other).length + 5),
          fun n hn kf k hk σ hinv => ?_⟩
        obtain ⟨n, rfl⟩ : ∃ n', n = n' + 1 + 1 := ⟨n - 2, by omega⟩
        obtain ⟨k, rfl⟩ : ∃ k', k = k' + 1 := ⟨k - 1, by omega⟩
        obtain ⟨σ', hb, hinv'⟩ := c19_dm_body_step ops ext b p other quot rem σ n kf hinv hrem hother
          hge hlc hlr' (by omega)
        rw [c19While_succ_true _ _ _ _ _
          (by rw [c19_dm_test ops ext b p other quot rem σ (n + 1) kf hinv]; simp [hge]) hb]
        exact hN (n + 1 + 1) (by omega) kf k (by omega) σ' hinv'
    · simp only [hge, if_false, Option.some.injEq] at h
      subst h
      refine ⟨1, fun n hn kf k hk σ hinv => ?_⟩
      obtain ⟨n, rfl⟩ : ∃ n', n = n' + 1 := ⟨n - 1, by omega⟩
      obtain ⟨k, rfl⟩ : ∃ k', k = k' + 1 := ⟨k - 1, by omega⟩
      rw [c19While_succ_false _ _ _ _
        (by rw [c19_dm_test ops ext b p other quot rem σ n kf hinv]; simp [hge])]
      rw [C19O.andThen_next]
      exact c19_dm_ret _ b p other quot rem σ hinv


theorem c19_find_poly_divmod :
    c19FindFn c19Table "Polynomial.__divmod__" = some c19Fn_Polynomial___divmod__ := rfl

theorem c19_dm_mixed (b : String) (p other : Poly) (n kf : Nat) :
    c19ExecL (c19CxAt ops c19Table ext n kf) c19DmMixed
        [("self", c19EncPoly b p), ("other", c19EncPoly b other)]
      = .next [("self", c19EncPoly b p), ("other", c19EncPoly b other)] := by
  unfold c19DmMixed c19EncPoly
  c19_run [c19IsInst_poly, c19Attr_poly_base, beq_self_eq_true]

def c19DmStore (b : String) (p other : Poly) : C19Store α :=
  [("self", c19EncPoly b p), ("other", c19EncPoly b other), ("quot", c19EncPoly b []),
   ("rem", c19EncPoly b p), ("other_lead_coeff", .int (leadTerm other).2),
   ("other_lead_exp", .int (leadTerm other).1), ("coeffs_are_field", .bool false)]

theorem c19_dm_pre (b : String) (p other : Poly) (hother : other ≠ []) (n kf : Nat) :
    c19ExecL (c19CxAt ops c19Table ext (n + 1 + 1) kf) c19DmPre
        [("self", c19EncPoly b p), ("other", c19EncPoly b other)]
      = .next (c19DmStore b p other) := by
  have hd : (degree other == -1) = false := by
    have := c19_degree_nonneg other hother
    simp; omega
  have hf : c19IsInst (c19CxAt ops c19Table ext (n + 1 + 1) kf) (.obj "IntegerTraits" [] [])
      ["FieldTraits"] = false := rfl
  unfold c19DmPre c19DmStore c19EncPoly
  c19_run [c19Attr_poly_degree, c19_poly_degree_run, hd, c19Attr_poly_base, c19New_polynomial,
    c19_poly_init_run, c19Attr_poly_data, c19Index_enc_last other hother, c19Attr_poly_unit,
    c19Call_traits, c19_traits_int_run, hf]
  rfl

theorem c19_dm_pre_zero (b : String) (p : Poly) (n kf : Nat) :
    c19ExecL (c19CxAt ops c19Table ext (n + 1) kf) c19DmPre
        [("self", c19EncPoly b p), ("other", c19EncPoly b [])]
      = .raise "ZeroDivisionError" := by
  unfold c19DmPre c19EncPoly
  c19_run [c19Attr_poly_degree, c19_poly_degree_run, c19_degree_nil]

theorem c19_dm_inv0 (b : String) (p other : Poly) :
    c19DmInv (c19DmStore b p other : C19Store α) b p other [] p := by
  exact ⟨rfl, rfl, rfl, rfl, rfl, rfl, rfl⟩

/-- what `__divmod__` answers -/
def c19EncDivmod (b : String) : Option (Poly × Poly) → C19R (C19V α)
  | some r => .ok (.tup [c19EncPoly b r.1, c19EncPoly b r.2])
  | none => .raise "ZeroDivisionError"

/-- **`Polynomial.__divmod__` as regenerated IS `divmodPy`** (same base, integer coefficients),
whenever the model's loop fuel suffices (it does on well-formed operands: `divmod_total`):
`ZeroDivisionError` for an empty divisor, the division loop otherwise — the division by a stored
zero leading coefficient raises only when the loop is entered. -/
theorem c19_poly_divmod_run (b : String) (p other : Poly)
    (hfuel : degree other ≠ -1 → (leadTerm other).2 ≠ 0 → divmodPy p other ≠ none) :
    ∃ N, ∀ n, N ≤ n →
      c19RunFn ops c19Table ext n "Polynomial.__divmod__" [c19EncPoly b p, c19EncPoly b other]
        = c19EncDivmod b (divmodPy p other) := by
  by_cases h0 : other = []
  · subst h0
    refine ⟨2, fun n hn => ?_⟩
    obtain ⟨n, rfl⟩ : ∃ n', n = n' + 1 + 1 := ⟨n - 2, by omega⟩
    rw [c19RunFn_succ ops c19Table ext _ _ _ _ _ c19_find_poly_divmod
      (by rw [c19_poly_divmod_body_current]; rfl)]
    simp only [c19_poly_divmod_body_current]
    rw [c19ExecL_append, c19_dm_mixed, C19O.andThen_next, c19ExecL_append, c19_dm_pre_zero]
    simp [divmodPy, c19_degree_nil, c19EncDivmod]
  · have hdeg : degree other ≠ -1 := by
      have := c19_degree_nonneg other h0; omega
    by_cases hlc : (leadTerm other).2 = 0
    · by_cases hge : degree p ≥ degree other
      · -- the loop is entered and divides by zero
        have hp : p ≠ [] := by
          intro hr; subst hr
          have := c19_degree_nonneg other h0
          rw [c19_degree_nil] at hge; omega
        refine ⟨3, fun n hn => ?_⟩
        obtain ⟨n, rfl⟩ : ∃ n', n = n' + 1 + 1 + 1 := ⟨n - 3, by omega⟩
        rw [c19RunFn_succ ops c19Table ext _ _ _ _ _ c19_find_poly_divmod
          (by rw [c19_poly_divmod_body_current]; rfl)]
        simp only [c19_poly_divmod_body_current]
        rw [c19ExecL_append, c19_dm_mixed, C19O.andThen_next, c19ExecL_append,
          c19_dm_pre ops ext b p other h0, C19O.andThen_next, c19ExecL_while, c19CxAt_fuel]
        rw [c19While_succ_raise _ _ _ _ _
          (by rw [c19_dm_test ops ext b p other [] p _ (n + 1) _ (c19_dm_inv0 b p other)]; simp [hge])
          (c19_dm_body_zero ops ext b p other [] p _ _ _ (c19_dm_inv0 b p other) hp hlc)]
        simp [divmodPy, hdeg, hlc, hge, c19EncDivmod]
      · refine ⟨3, fun n hn => ?_⟩
        obtain ⟨n, rfl⟩ : ∃ n', n = n' + 1 + 1 + 1 := ⟨n - 3, by omega⟩
        rw [c19RunFn_succ ops c19Table ext _ _ _ _ _ c19_find_poly_divmod
          (by rw [c19_poly_divmod_body_current]; rfl)]
        simp only [c19_poly_divmod_body_current]
        rw [c19ExecL_append, c19_dm_mixed, C19O.andThen_next, c19ExecL_append,
          c19_dm_pre ops ext b p other h0, C19O.andThen_next, c19ExecL_while, c19CxAt_fuel]
        rw [c19While_succ_false _ _ _ _
          (by rw [c19_dm_test ops ext b p other [] p _ (n + 1) _ (c19_dm_inv0 b p other)]; simp [hge])]
        rw [C19O.andThen_next, c19_dm_ret _ b p other [] p _ (c19_dm_inv0 b p other)]
        simp [divmodPy, hdeg, hlc, hge, c19EncDivmod]
    · have hsome := hfuel hdeg hlc
      cases hr : divmodPy p other with
      | none => exact absurd hr hsome
      | some r =>
        have hr' : divmodLoop other (p.length + (degree p).toNat + 2) [] p = some r := by
          simpa [divmodPy, hdeg, hlc] using hr
        obtain ⟨N, hN⟩ := c19_dm_loop ops ext b p other h0 hlc _ [] p r hr'
        refine ⟨max N (p.length + (degree p).toNat + 2) + 3, fun n hn => ?_⟩
        obtain ⟨n, rfl⟩ : ∃ n', n = n' + 1 + 1 + 1 := ⟨n - 3, by omega⟩
        rw [c19RunFn_succ ops c19Table ext _ _ _ _ _ c19_find_poly_divmod
          (by rw [c19_poly_divmod_body_current]; rfl)]
        simp only [c19_poly_divmod_body_current]
        rw [c19ExecL_append, c19_dm_mixed, C19O.andThen_next, c19ExecL_append,
          c19_dm_pre ops ext b p other h0, C19O.andThen_next, c19ExecL_while, c19CxAt_fuel,
          hN (n + 1 + 1) (by omega) _ _ (by omega) _ (c19_dm_inv0 b p other)]
        rfl

end


end PV.Algo
