import PV.Proofs.GATableMV
/-
  C18 (T-gen), part 3: `MultiVector._generic_product` of the expected function table — the double
  loop over blade pairs with accumulation and pruning — is `genericProductZ`; the product dunders.
-/
set_option linter.unusedSectionVars false
set_option linter.unusedVariables false
set_option linter.unusedSimpArgs false
namespace PV.GA.C18T

section
variable {R : Type} [Add R] [Mul R] [Neg R] [OfNat R 0] [OfNat R 1]

/-! ## dict facts -/

theorem dictGet_dictSet_self (d : MVOf R) (k : Nat) (v : R) : dictGet (dictSet d k v) k = some v := by
  induction d with
  | nil => simp [dictSet, dictGet]
  | cons p d ih =>
    obtain ⟨k', v'⟩ := p
    by_cases h : k' = k <;> simp [dictSet, dictGet, h, ih]

theorem dictSet_dictSet (d : MVOf R) (k : Nat) (v w : R) :
    dictSet (dictSet d k v) k w = dictSet d k w := by
  induction d with
  | nil => simp [dictSet]
  | cons p d ih =>
    obtain ⟨k', v'⟩ := p
    by_cases h : k' = k <;> simp [dictSet, h, ih]

theorem dictDel_absent (d : MVOf R) (k : Nat) (h : dictGet d k = none) : dictDel d k = d := by
  induction d with
  | nil => rfl
  | cons p d ih =>
    obtain ⟨k', v'⟩ := p
    by_cases hk : k' = k
    · simp [dictGet, hk] at h
    · simp only [dictGet, hk, if_false] at h
      simp [dictDel, hk, ih h]

theorem dictDel_dictSet_absent (d : MVOf R) (k : Nat) (v : R) (h : dictGet d k = none) :
    dictDel (dictSet d k v) k = d := by
  induction d with
  | nil => simp [dictSet, dictDel]
  | cons p d ih =>
    obtain ⟨k', v'⟩ := p
    by_cases hk : k' = k
    · simp [dictGet, hk] at h
    · simp only [dictGet, hk, if_false] at h
      simp [dictSet, dictDel, hk, ih h]

/-! ## `_generic_product` -/

/-- a blade-product weight as the table's functions return it: the int `0`, the int `1`, or a
coefficient -/
def IsW (v : C18Val R) : Prop := v = .nat 0 ∨ v = .nat 1 ∨ ∃ w, v = .coef w

/-- the local variables of the loops of `_generic_product` -/
structure GPVars (R : Type) where
  sb : C18Val R
  sc : C18Val R
  ob : C18Val R
  oc : C18Val R
  nb : C18Val R
  w : C18Val R
  co : C18Val R
  nc : C18Val R

def gpEnv (x y : MVOf R) (cn q : String) (acc : MVOf R) (v : GPVars R) : C18Env R :=
  [("self", .mv x), ("other", .mv y), ("product_class", .cls cn), ("bpw", .fn q),
   ("is_zero", .prim "pymbolic.primitives.is_zero"), ("new_data", .dict acc),
   ("sbits", v.sb), ("scoeff", v.sc), ("obits", v.ob), ("ocoeff", v.oc), ("new_bits", v.nb),
   ("weight", v.w), ("coeff", v.co), ("new_coeff", v.nc)]

def gpInnerBody : List C18Stmt := [
  .assign [.name "new_bits"] false (.bin .bxor (.name "sbits") (.name "obits")),
  .assign [.name "weight"] false (.call (.name "bpw") [(.name "sbits"), (.name "obits"), (.attr (.name "self") "space")] [] []),
  .ifThen (.un .not (.call (.name "is_zero") [(.name "weight")] [] []))
    [
      .assign [.name "coeff"] false (.bin .mul (.bin .mul (.bin .mul (.name "weight") (.call (.name "canonical_reordering_sign") [(.name "sbits"), (.name "obits")] [] [])) (.name "scoeff")) (.name "ocoeff")),
      .assign [.name "new_coeff"] false (.bin .add (.callMethod (.name "new_data") "setdefault" [(.name "new_bits"), (.nat 0)] [] []) (.name "coeff")),
      .ifThen (.call (.name "is_zero") [(.name "new_coeff")] [] [])
        [
          .del "new_data" (.name "new_bits")
        ]
        [
          .assign [.index "new_data" (.name "new_bits")] false (.name "new_coeff")
        ]
    ]
    []]

/-- one blade pair, on the accumulator: the model's step -/
def gpStep (z : R → Bool) (w : Nat → Nat → R) (sb : Nat) (sc : R) (acc : MVOf R) (ob : Nat)
    (oc : R) : MVOf R :=
  if z (w sb ob) then acc
  else dictAccumZ z acc (sb ^^^ ob) (w sb ob * reorderSignR sb ob * sc * oc)

section Inner
variable (Γ : C18Ctx R) (fuel : Nat) (callee : C18Callee R) (q : String)
  (wv : Nat → Nat → C18Val R)

/-- what `_generic_product` needs of the weight function it selected -/
def C18HasW (fuel : Nat) (callee : C18Callee R) (q : String) (wv : Nat → Nat → C18Val R) : Prop :=
  ∀ a b, a < fuel → callee q [.nat a, .nat b, .space] [] = .ok (wv a b) ∧ IsW (wv a b)

theorem gp_inner_step (h1 : ∀ r : R, 1 * r = r) (hz0 : Γ.z 0 = true)
    (hw : C18HasW fuel callee q wv) (hcrs : C18HasCrs fuel callee)
    (x y : MVOf R) (cn : String) (acc : MVOf R) (v : GPVars R) (sb ob : Nat) (sc oc : R)
    (hsb : sb < fuel) (hv : v.sb = .nat sb ∧ v.sc = .coef sc ∧ v.ob = .nat ob ∧ v.oc = .coef oc) :
    ∃ (acc' : MVOf R) (v' : GPVars R),
      c18ExecList (c18Rt Γ fuel callee) gpInnerBody (gpEnv x y cn q acc v) =
        .normal (gpEnv x y cn q acc' v') ∧
      acc' = gpStep Γ.z (fun a b => c18ValR (wv a b)) sb sc acc ob oc ∧
      v'.sb = .nat sb ∧ v'.sc = .coef sc := by
  obtain ⟨vsb, vsc, vob, voc, vnb, vw, vco, vnc⟩ := v
  obtain ⟨rfl, rfl, rfl, rfl⟩ := hv
  obtain ⟨hwv, hisw⟩ := hw sb ob hsb
  have hsg := hcrs sb ob hsb
  generalize hE : c18ExecList (c18Rt Γ fuel callee) gpInnerBody
    (gpEnv x y cn q acc ⟨.nat sb, .coef sc, .nat ob, .coef oc, vnb, vw, vco, vnc⟩) = out
  rcases hisw with h0 | h0 | ⟨w, h0⟩
  · -- the int weight 0: skipped
    c18sym [gpInnerBody, gpEnv, hwv, h0, hz0] at hE
    subst hE
    exact ⟨_, ⟨_, _, _, _, _, _, _, _⟩, rfl, by simp [gpStep, h0, c18ValR, hz0], rfl, rfl⟩
  · -- the int weight 1
    cases hz1 : Γ.z 1
    · rcases Nat.mod_two_eq_zero_or_one (reorderSignExp sb ob) with hs | hs <;>
      cases hg : dictGet acc (sb ^^^ ob) <;>
      (c18sym [gpInnerBody, gpEnv, hwv, h0, hz1, hsg, reorderSign, hs, hg,
          dictGet_dictSet_self, c18Branch_ok] at hE
       split at hE <;>
       (subst hE
        refine ⟨_, ⟨_, _, _, _, _, _, _, _⟩, rfl, ?_, rfl, rfl⟩
        simp_all [gpStep, dictAccumZ, c18ValR, reorderSignR, h1, dictDel_dictSet_absent, dictDel_absent,
          dictSet_dictSet]))
    · c18sym [gpInnerBody, gpEnv, hwv, h0, hz1] at hE
      subst hE
      exact ⟨_, ⟨_, _, _, _, _, _, _, _⟩, rfl, by simp [gpStep, h0, c18ValR, hz1], rfl, rfl⟩
  · -- a coefficient weight
    cases hzw : Γ.z w
    · rcases Nat.mod_two_eq_zero_or_one (reorderSignExp sb ob) with hs | hs <;>
      cases hg : dictGet acc (sb ^^^ ob) <;>
      (c18sym [gpInnerBody, gpEnv, hwv, h0, hzw, hsg, reorderSign, hs, hg,
          dictGet_dictSet_self, c18Branch_ok] at hE
       split at hE <;>
       (subst hE
        refine ⟨_, ⟨_, _, _, _, _, _, _, _⟩, rfl, ?_, rfl, rfl⟩
        simp_all [gpStep, dictAccumZ, c18ValR, reorderSignR, dictDel_dictSet_absent, dictDel_absent,
          dictSet_dictSet]))
    · c18sym [gpInnerBody, gpEnv, hwv, h0, hzw] at hE
      subst hE
      exact ⟨_, ⟨_, _, _, _, _, _, _, _⟩, rfl, by simp [gpStep, h0, c18ValR, hzw], rfl, rfl⟩

/-- one item of `other.data.items()` on the accumulator -/
def gpInnerVal (z : R → Bool) (w : Nat → Nat → R) (sb : Nat) (sc : R) (acc : MVOf R) :
    C18Val R → MVOf R
  | .tuple [.nat ob, .coef oc] => gpStep z w sb sc acc ob oc
  | _ => acc

/-- one item of `self.data.items()` on the accumulator -/
def gpOuterVal (z : R → Bool) (w : Nat → Nat → R) (y : MVOf R) (acc : MVOf R) :
    C18Val R → MVOf R
  | .tuple [.nat sb, .coef sc] => (c18Items y).foldl (gpInnerVal z w sb sc) acc
  | _ => acc

theorem gp_outer_eq (z : R → Bool) (w : Nat → Nat → R) (x y : MVOf R) :
    (c18Items x).foldl (gpOuterVal z w y) [] = genericProductZ z w x y := by
  unfold genericProductZ
  generalize ([] : MVOf R) = acc
  induction x generalizing acc with
  | nil => rfl
  | cons p x ih =>
    obtain ⟨sb, sc⟩ := p
    simp only [c18Items, List.map_cons, List.foldl_cons, gpOuterVal] at ih ⊢
    rw [ih]
    congr 1
    clear ih
    induction y generalizing acc with
    | nil => rfl
    | cons p' y ih' =>
      obtain ⟨ob, oc⟩ := p'
      simp only [List.map_cons, List.foldl_cons, gpInnerVal, gpStep]
      exact ih' _

theorem gp_inner_loop (h1 : ∀ r : R, 1 * r = r) (hz0 : Γ.z 0 = true)
    (hw : C18HasW fuel callee q wv) (hcrs : C18HasCrs fuel callee)
    (x y : MVOf R) (cn : String) (acc : MVOf R) (v : GPVars R) (sb : Nat) (sc : R)
    (hsb : sb < fuel) (hv : v.sb = .nat sb ∧ v.sc = .coef sc) :
    ∃ v' : GPVars R, c18For (c18BindNames ["obits", "ocoeff"])
        (c18ExecList (c18Rt Γ fuel callee) gpInnerBody) (c18Items y) (gpEnv x y cn q acc v) =
      .normal (gpEnv x y cn q
        ((c18Items y).foldl (gpInnerVal Γ.z (fun a b => c18ValR (wv a b)) sb sc) acc) v') := by
  obtain ⟨env', hfor, v', rfl, _⟩ := c18For_fold
    (bind := c18BindNames ["obits", "ocoeff"])
    (body := c18ExecList (c18Rt Γ fuel callee) gpInnerBody)
    (fun env acc => ∃ v : GPVars R, env = gpEnv x y cn q acc v ∧ v.sb = .nat sb ∧ v.sc = .coef sc)
    (gpInnerVal Γ.z (fun a b => c18ValR (wv a b)) sb sc) (c18Items y)
    (gpEnv x y cn q acc v) acc ⟨v, rfl, hv⟩
    (by
      intro env acc0 xv hx ⟨v0, henv, hv0⟩
      obtain ⟨ob, oc, hmem, rfl⟩ := mem_c18Items hx
      subst henv
      obtain ⟨acc', v', hex, hacc, hv'⟩ := gp_inner_step Γ fuel callee q wv h1 hz0 hw hcrs x y cn
        acc0 { v0 with ob := .nat ob, oc := .coef oc } sb ob sc oc hsb ⟨hv0.1, hv0.2, rfl, rfl⟩
      refine ⟨_, _, ?_, hex, ⟨v', ?_, hv'⟩⟩
      · simp [c18BindNames, c18Set, gpEnv]
      · simp [gpInnerVal, hacc])
  exact ⟨v', hfor⟩

end Inner

/-- what `_generic_product` needs to know about the class it is handed: the class rows of the
table resolve its weight attribute to the function `q` -/
def C18WeightOf (cn attr q : String) : Prop :=
  c18ClassAttr c18ExpectedModule cn attr = some (.method q "static")

section Outer
variable (Γ : C18Ctx R) (fuel : Nat) (callee : C18Callee R) (q : String)
  (wv : Nat → Nat → C18Val R)

/-- **`_generic_product` of the table is `genericProductZ`** (orthogonal space): the double loop
over blade pairs, the weight test, the accumulation with `setdefault` and the pruning -/
theorem c18_generic_product (h1 : ∀ r : R, 1 * r = r) (hz0 : Γ.z 0 = true) (horth : Γ.orth = true)
    (cn : String) (hq : C18WeightOf cn "orthogonal_blade_product_weight" q)
    (hw : C18HasW fuel callee q wv) (hcrs : C18HasCrs fuel callee) (hinit : C18HasInit callee)
    (x y : MVOf R) (hk : ∀ k ∈ dkeys x, k < fuel) :
    c18RunFn c18ExpectedModule Γ fuel callee c18X_MultiVector__generic_product
      [.mv x, .mv y, .cls cn] []
      = .ok (.mv (genericProductZ Γ.z (fun a b => c18ValR (wv a b)) x y)) := by
  simp only [c18RunFn, c18X_MultiVector__generic_product, c18BindArgs, List.nil_append,
    List.cons_append, List.map_cons, List.map_nil]
  have hattr : c18GetAttr (c18Rt Γ fuel callee) (.cls cn) "orthogonal_blade_product_weight"
      = .ok (.fn q) := by
    simp only [c18GetAttr]
    rw [hq]
    rfl
  obtain ⟨env', hfor, v', rfl⟩ := c18For_fold
    (bind := c18BindNames ["sbits", "scoeff"])
    (body := c18ExecList (c18Rt Γ fuel callee) [
      .forIn ["obits", "ocoeff"] (.callMethod (.attr (.name "other") "data") "items" [] [] [])
        gpInnerBody])
    (fun env acc => ∃ v : GPVars R, env = gpEnv x y cn q acc v)
    (gpOuterVal Γ.z (fun a b => c18ValR (wv a b)) y) (c18Items x)
    (gpEnv x y cn q [] ⟨.unbound, .unbound, .unbound, .unbound, .unbound, .unbound, .unbound,
      .unbound⟩) [] ⟨_, rfl⟩
    (by
      intro env acc0 xv hx ⟨v0, henv⟩
      obtain ⟨sb, sc, hmem, rfl⟩ := mem_c18Items hx
      have hsb : sb < fuel := hk sb (List.mem_map.mpr ⟨(sb, sc), hmem, rfl⟩)
      subst henv
      obtain ⟨v', hin⟩ := gp_inner_loop Γ fuel callee q wv h1 hz0 hw hcrs x y cn acc0
        { v0 with sb := .nat sb, sc := .coef sc } sb sc hsb ⟨rfl, rfl⟩
      refine ⟨gpEnv x y cn q acc0 { v0 with sb := .nat sb, sc := .coef sc }, _, ?_, ?_,
        ⟨v', rfl⟩⟩
      · simp [c18BindNames, c18Set, gpEnv]
      · c18sym [gpEnv]
        simp only [gpEnv] at hin
        rw [hin]
        c18sym [gpOuterVal, gpEnv])
  simp only [gpEnv, gpInnerBody] at hfor
  c18sym [horth, hattr, hfor, hinit _, gp_outer_eq]

end Outer
/-! ## `MultiVector(scalar, space)`, `_cast_or_ni` -/

section Cast
variable (Γ : C18Ctx R) (fuel : Nat) (callee : C18Callee R)

@[simp] theorem c18Global__GeometricProduct :
    (c18Global c18ExpectedModule "_GeometricProduct" : C18Res (C18Val R))
      = .ok (.cls "_GeometricProduct") := rfl
@[simp] theorem c18Global__OuterProduct :
    (c18Global c18ExpectedModule "_OuterProduct" : C18Res (C18Val R))
      = .ok (.cls "_OuterProduct") := rfl
@[simp] theorem c18Global__InnerProduct :
    (c18Global c18ExpectedModule "_InnerProduct" : C18Res (C18Val R))
      = .ok (.cls "_InnerProduct") := rfl
@[simp] theorem c18Global__LeftContractionProduct :
    (c18Global c18ExpectedModule "_LeftContractionProduct" : C18Res (C18Val R))
      = .ok (.cls "_LeftContractionProduct") := rfl
@[simp] theorem c18Global__RightContractionProduct :
    (c18Global c18ExpectedModule "_RightContractionProduct" : C18Res (C18Val R))
      = .ok (.cls "_RightContractionProduct") := rfl
@[simp] theorem c18Global__ScalarProduct :
    (c18Global c18ExpectedModule "_ScalarProduct" : C18Res (C18Val R))
      = .ok (.cls "_ScalarProduct") := rfl

/-- **`MultiVector(x, space)` for a scalar `x`** is `ofScalarZ`: `{}` for a zero, `{0: x}`
otherwise -/
theorem c18_init_scalar (c : R) :
    c18RunFn c18ExpectedModule Γ fuel callee c18X_MultiVector___init__
      [.obj false none, .coef c, .space] [] = .ok (.mv (ofScalarZ Γ.z c)) := by
  simp only [c18RunFn, c18X_MultiVector___init__, c18BindArgs, List.nil_append, List.cons_append,
    List.map_cons, List.map_nil]
  have hgen := init_keys_gen (c18Rt Γ fuel callee) rfl [(0, c)] (.prim "pymbolic.primitives.is_zero")
    [(0, c)] []
  simp only [initEnv, List.map_cons, List.map_nil, List.nil_append] at hgen
  cases hz : Γ.z c
  · c18sym [hz, c18DictPut, dictSet, hgen, ofScalarZ]
  · c18sym [hz, c18DictPut, dictSet, ofScalarZ]

/-- what a body that wraps a scalar needs of its callee -/
def C18HasInitScalar (Γ : C18Ctx R) (callee : C18Callee R) : Prop :=
  ∀ c : R, callee "MultiVector.__init__" [.obj false none, .coef c, .space] []
    = .ok (.mv (ofScalarZ Γ.z c))

/-- `_cast_or_ni`: a `MultiVector` is handed back, a scalar is wrapped -/
theorem c18_cast_mv (y : MVOf R) :
    c18RunFn c18ExpectedModule Γ fuel callee c18X__cast_or_ni [.mv y, .space] [] = .ok (.mv y) := by
  simp only [c18RunFn, c18X__cast_or_ni, c18BindArgs, List.nil_append, List.cons_append,
    List.map_cons, List.map_nil]
  c18sym

theorem c18_cast_scalar (hs : C18HasInitScalar Γ callee) (c : R) :
    c18RunFn c18ExpectedModule Γ fuel callee c18X__cast_or_ni [.coef c, .space] []
      = .ok (.mv (ofScalarZ Γ.z c)) := by
  simp only [c18RunFn, c18X__cast_or_ni, c18BindArgs, List.nil_append, List.cons_append,
    List.map_cons, List.map_nil]
  c18sym [hs c]

/-- the value `_cast_or_ni` turns an operand into -/
def c18CastOf (z : R → Bool) : C18Val R → Option (MVOf R)
  | .obj true (some y) => some y
  | .coef c => some (ofScalarZ z c)
  | _ => none

/-- what a body that calls `_cast_or_ni` needs of its callee -/
def C18HasCast (Γ : C18Ctx R) (callee : C18Callee R) : Prop :=
  ∀ (v : C18Val R) (y : MVOf R), c18CastOf Γ.z v = some y →
    callee "_cast_or_ni" [v, .space] [] = .ok (.mv y)

end Cast

/-! ## the product dunders: which class is handed to `_generic_product` -/

section Dunders
variable (Γ : C18Ctx R) (fuel : Nat) (callee : C18Callee R)

@[simp] theorem c18CallMethod_obj_gp (rt : C18Rt R) (hM : rt.M = c18ExpectedModule) (s : Bool)
    (d : Option (MVOf R)) (args : List (C18Val R)) :
    c18CallMethod rt (.obj s d) "_generic_product" args []
      = rt.callee "MultiVector._generic_product" (.obj s d :: args) [] := by
  simp only [c18CallMethod, hM]; rfl

/-- `self OP other` for the six products: `other` is cast, the class named in the body is handed
to `_generic_product` -/
theorem c18_dunder (hc : C18HasCast Γ callee) (f : C18Fn) (cn : String)
    (hf : f = c18X_MultiVector___mul__ ∧ cn = "_GeometricProduct" ∨
      f = c18X_MultiVector___xor__ ∧ cn = "_OuterProduct" ∨
      f = c18X_MultiVector___or__ ∧ cn = "_InnerProduct" ∨
      f = c18X_MultiVector___lshift__ ∧ cn = "_LeftContractionProduct" ∨
      f = c18X_MultiVector___rshift__ ∧ cn = "_RightContractionProduct")
    (x : MVOf R) (v : C18Val R) (y : MVOf R) (hv : c18CastOf Γ.z v = some y) :
    c18RunFn c18ExpectedModule Γ fuel callee f [.mv x, v] []
      = callee "MultiVector._generic_product" [.mv x, .mv y, .cls cn] [] := by
  have hcast := hc v y hv
  have hvv : v = .mv y ∨ ∃ c, v = .coef c := by
    cases v <;> simp [c18CastOf] at hv
    · right; exact ⟨_, rfl⟩
    · rename_i s d
      cases s <;> cases d <;> simp [c18CastOf] at hv
      left; subst hv; rfl
  rcases hf with ⟨rfl, rfl⟩ | ⟨rfl, rfl⟩ | ⟨rfl, rfl⟩ | ⟨rfl, rfl⟩ | ⟨rfl, rfl⟩ <;>
    rcases hvv with rfl | ⟨c, rfl⟩ <;>
    simp only [c18RunFn, c18X_MultiVector___mul__, c18X_MultiVector___xor__,
      c18X_MultiVector___or__, c18X_MultiVector___lshift__, c18X_MultiVector___rshift__,
      c18BindArgs, List.nil_append, List.cons_append, List.map_cons, List.map_nil] <;>
    c18sym [hcast] <;>
    cases callee "MultiVector._generic_product" _ [] <;> rfl

end Dunders

end
end PV.GA.C18T
