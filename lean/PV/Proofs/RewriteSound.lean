import PV.Model.Rewrite
import Mathlib.Algebra.Field.Defs
import Mathlib.Algebra.Field.Basic
import Mathlib.Algebra.GroupWithZero.Basic
import Mathlib.Data.Int.Cast.Lemmas
import Mathlib.Tactic.Ring
set_option linter.unusedSimpArgs false
/-
  C11, part 1: value semantics `evalK` over an arbitrary field, and soundness of the smart
  constructors `flattenedSum` / `flattenedProduct`, of the inherited `IdentityMapper` handlers
  (`idMap`) and of `flattenM`.
-/
namespace PV

universe u
variable {K : Type u} [Field K]

/-- `a + b` or `a * b` -/
def opK (isProd : Bool) (a b : K) : K := if isProd then a * b else a + b
/-- `0` or `1` -/
def unitK (isProd : Bool) : K := if isProd then 1 else 0

theorem opK_comm (p : Bool) (a b : K) : opK p a b = opK p b a := by
  cases p <;> simp [opK, mul_comm, add_comm]

theorem opK_assoc (p : Bool) (a b c : K) : opK p (opK p a b) c = opK p a (opK p b c) := by
  cases p <;> simp [opK, mul_assoc, add_assoc]

theorem opK_unit_left (p : Bool) (a : K) : opK p (unitK p) a = a := by
  cases p <;> simp [opK, unitK]

theorem opK_unit_right (p : Bool) (a : K) : opK p a (unitK p) = a := by
  cases p <;> simp [opK, unitK]

@[simp] theorem opK_false (a b : K) : opK false a b = a + b := rfl
@[simp] theorem opK_true (a b : K) : opK true a b = a * b := rfl
@[simp] theorem unitK_false : (unitK false : K) = 0 := rfl
@[simp] theorem unitK_true : (unitK true : K) = 1 := rfl

variable [DecidableEq K]

def divK : Option K → Option K → Option K
  | some x, some y => if y = 0 then none else some (x / y)
  | _, _ => none

/-- the exponent of a power, when it is an integer literal -/
def expInt? : Expr → Option Int
  | .const (.int n) => some n
  | _ => none

def powK : Option K → Option Int → Option K
  | some x, some n => if n < 0 ∧ x = 0 then none else some (x ^ n)
  | _, _ => none

mutual
/-- Value of an expression of the polynomial / rational fragment in a field: integer constants,
variables, sums, products, quotients (undefined when the denominator is 0), powers with an
integer-literal exponent (`zpow`; undefined for `0 ** negative`), CSE wrappers (transparent).
`none` everywhere else. -/
def evalK (ρ : String → K) : Expr → Option K
  | .const c => match c with
    | .int n => some (n : K)
    | _ => none
  | .var x => some (ρ x)
  | .nary o cs => match o with
    | .sum => evalKL ρ false cs
    | .prod => evalKL ρ true cs
    | _ => none
  | .bin o a b => match o with
    | .quot => divK (evalK ρ a) (evalK ρ b)
    | .pow => powK (evalK ρ a) (expInt? b)
    | _ => none
  | .cse c _ _ => evalK ρ c
  | _ => none
/-- sum (`isProd = false`) or product (`isProd = true`) of the values of a list -/
def evalKL (ρ : String → K) (isProd : Bool) : List Expr → Option K
  | [] => some (unitK isProd)
  | c :: cs => match evalK ρ c, evalKL ρ isProd cs with
    | some a, some b => some (opK isProd a b)
    | _, _ => none
end

section
variable (ρ : String → K)

theorem evalKL_cons {p : Bool} {c : Expr} {cs : List Expr} {v : K}
    (h : evalKL ρ p (c :: cs) = some v) :
    ∃ a b, evalK ρ c = some a ∧ evalKL ρ p cs = some b ∧ v = opK p a b := by
  simp only [evalKL] at h
  cases ha : evalK ρ c with
  | none => rw [ha] at h; simp at h
  | some a =>
    cases hb : evalKL ρ p cs with
    | none => rw [ha, hb] at h; simp at h
    | some b =>
      rw [ha, hb] at h; simp only [Option.some.injEq] at h
      exact ⟨a, b, rfl, rfl, h.symm⟩

theorem evalKL_cons_mk {p : Bool} {c : Expr} {cs : List Expr} {a b : K}
    (ha : evalK ρ c = some a) (hb : evalKL ρ p cs = some b) :
    evalKL ρ p (c :: cs) = some (opK p a b) := by
  simp only [evalKL, ha, hb]

theorem evalKL_append {p : Bool} : ∀ {as bs : List Expr} {v : K},
    evalKL ρ p (as ++ bs) = some v →
    ∃ a b, evalKL ρ p as = some a ∧ evalKL ρ p bs = some b ∧ v = opK p a b
  | [], bs, v, h => ⟨unitK p, v, rfl, h, (opK_unit_left p v).symm⟩
  | c :: as, bs, v, h => by
      rw [List.cons_append] at h
      obtain ⟨x, y, hx, hy, rfl⟩ := evalKL_cons ρ h
      obtain ⟨a, b, ha, hb, rfl⟩ := evalKL_append hy
      exact ⟨opK p x a, b, evalKL_cons_mk ρ hx ha, hb, (opK_assoc p x a b).symm⟩

theorem evalKL_append_mk {p : Bool} : ∀ {as bs : List Expr} {a b : K},
    evalKL ρ p as = some a → evalKL ρ p bs = some b →
    evalKL ρ p (as ++ bs) = some (opK p a b)
  | [], bs, a, b, ha, hb => by
      simp only [evalKL, Option.some.injEq] at ha
      subst ha; rw [opK_unit_left]; exact hb
  | c :: as, bs, a, b, ha, hb => by
      obtain ⟨x, y, hx, hy, rfl⟩ := evalKL_cons ρ ha
      rw [List.cons_append, opK_assoc]
      exact evalKL_cons_mk ρ hx (evalKL_append_mk hy hb)

theorem evalKL_singleton {p : Bool} {c : Expr} {a : K} (h : evalK ρ c = some a) :
    evalKL ρ p [c] = some a := by
  simp only [evalKL, h, opK_unit_right]

theorem evalK_sum (cs : List Expr) : evalK ρ (.nary .sum cs) = evalKL ρ false cs := by
  simp only [evalK]

theorem evalK_prod (cs : List Expr) : evalK ρ (.nary .prod cs) = evalKL ρ true cs := by
  simp only [evalK]

theorem evalK_zero : evalK ρ zero = some (0 : K) := by
  simp only [zero, evalK, Int.cast_zero]

theorem evalK_one : evalK ρ one = some (1 : K) := by
  simp only [one, evalK, Int.cast_one]

theorem evalK_const {c : Const} {k : K} (h : evalK ρ (.const c) = some k) :
    ∃ n : Int, c = .int n ∧ k = (n : K) := by
  cases c <;> simp only [evalK] at h <;> try contradiction
  · injection h with h; exact ⟨_, rfl, h.symm⟩

/-! ### falsy expressions have value 0, `isOne` expressions value 1 -/

theorem evalKL_prod_zero_left : ∀ (cs : List Expr) (k : K) (c : Expr),
    evalK ρ c = some 0 → evalKL ρ true (c :: cs) = some k → k = 0 := by
  intro cs k c hc h
  obtain ⟨a, b, ha, _, rfl⟩ := evalKL_cons ρ h
  rw [hc] at ha; injection ha with ha; subst ha
  simp [opK]

mutual
theorem falsy_K : ∀ (e : Expr) (k : K), e.truthy = false → evalK ρ e = some k → k = 0
  | .const c, k, ht, he => by
      obtain ⟨n, rfl, rfl⟩ := evalK_const ρ he
      simp only [Expr.truthy, Const.truthy, bne_eq_false_iff_eq] at ht
      subst ht; exact Int.cast_zero
  | .nary .sum cs, k, ht, he => by
      simp only [Expr.truthy] at ht; rw [evalK_sum] at he
      exact falsySum_K cs k ht he
  | .nary .prod cs, k, ht, he => by
      simp only [Expr.truthy] at ht; rw [evalK_prod] at he
      exact falsyProd_K cs k ht he
  | .bin .quot a b, k, ht, he => by
      simp only [Expr.truthy] at ht
      simp only [evalK] at he
      cases ha : evalK ρ a with
      | none => rw [ha] at he; simp [divK] at he
      | some x =>
        cases hb : evalK ρ b with
        | none => rw [ha, hb] at he; simp [divK] at he
        | some y =>
          rw [ha, hb] at he
          simp only [divK] at he
          split at he
          · contradiction
          · injection he with he
            have := falsy_K a x ht ha
            subst this; subst he; simp
  | .var _, _, ht, _ => by simp [Expr.truthy] at ht
  | .bin .pow _ _, _, ht, _ => by simp [Expr.truthy] at ht
  | .cse .., _, ht, _ => by simp [Expr.truthy] at ht
  | .nary .bor _, _, _, he | .nary .bxor _, _, _, he | .nary .band _, _, _, he
  | .nary .lor _, _, _, he | .nary .land _, _, _, he | .nary .min _, _, _, he
  | .nary .max _, _, _, he => by simp [evalK] at he
  | .bin .floordiv _ _, _, _, he | .bin .rem _ _, _, _, he | .bin .lshift _ _, _, _, he
  | .bin .rshift _ _, _, _, he => by simp [evalK] at he
  | .un .., _, _, he | .cmp .., _, _, he | .ite .., _, _, he
  | .call .., _, _, he | .callKw .., _, _, he | .subscript .., _, _, he | .lookup .., _, _, he
  | .subst .., _, _, he | .deriv .., _, _, he | .slice .., _, _, he
  | .nan, _, _, he | .wildcard, _, _, he | .dotWild .., _, _, he | .starWild .., _, _, he
  | .funcSym, _, _, he | .tuple .., _, _, he | .list .., _, _, he => by simp [evalK] at he
theorem falsySum_K : ∀ (cs : List Expr) (k : K), Expr.truthySum cs = false →
    evalKL ρ false cs = some k → k = 0
  | [], _, ht, _ => by simp [Expr.truthySum] at ht
  | [c], k, ht, he => by
      simp only [Expr.truthySum] at ht
      obtain ⟨a, b, ha, hb, rfl⟩ := evalKL_cons ρ he
      simp only [evalKL, Option.some.injEq] at hb
      subst hb
      rw [falsy_K c a ht ha]; simp [opK, unitK]
  | _ :: _ :: _, _, ht, _ => by simp [Expr.truthySum] at ht
theorem falsyProd_K : ∀ (cs : List Expr) (k : K), Expr.truthyProd cs = false →
    evalKL ρ true cs = some k → k = 0
  | [], _, ht, _ => by simp [Expr.truthyProd] at ht
  | c :: cs, k, ht, he => by
      simp only [Expr.truthyProd, Bool.and_eq_false_iff] at ht
      obtain ⟨a, b, ha, hb, rfl⟩ := evalKL_cons ρ he
      rcases ht with ht | ht
      · rw [falsy_K c a ht ha]; simp [opK]
      · rw [falsyProd_K cs b ht hb]; simp [opK]
end

theorem isZero_K {e : Expr} {k : K} (hz : e.isZero = true) (he : evalK ρ e = some k) : k = 0 := by
  simp only [Expr.isZero, Bool.not_eq_true'] at hz
  exact falsy_K ρ e k hz he

theorem isOne_K {e : Expr} {k : K} (h1 : e.isOne = true) (he : evalK ρ e = some k) : k = 1 := by
  cases e <;> simp only [Expr.isOne] at h1 <;> try contradiction
  obtain ⟨n, rfl, rfl⟩ := evalK_const ρ he
  simp only [Const.isOne, beq_iff_eq] at h1
  subst h1; exact Int.cast_one

/-! ### the queue loops of `flattened_sum` / `flattened_product` -/

theorem sizeL_append : ∀ (as bs : List Expr), Expr.sizeL (as ++ bs) = Expr.sizeL as + Expr.sizeL bs
  | [], bs => by simp [Expr.sizeL]
  | a :: as, bs => by simp only [List.cons_append, Expr.sizeL, sizeL_append as bs]; omega

theorem size_pos (e : Expr) : 0 < e.size := by
  cases e <;> simp only [Expr.size] <;> omega

/-- the value of `done ++ queue` is an invariant of the loop (given enough fuel) -/
theorem flattenedSumLoop_value : ∀ (fuel : Nat) (queue done : List Expr) (v : K),
    Expr.sizeL queue < fuel → evalKL ρ false (done ++ queue) = some v →
    evalKL ρ false (flattenedSumLoop fuel queue done) = some v
  | 0, _, _, _, hf, _ => by omega
  | fuel + 1, [], done, v, _, h => by
      simpa only [flattenedSumLoop, List.append_nil] using h
  | fuel + 1, item :: queue, done, v, hf, h => by
      obtain ⟨d, r, hd, hr, rfl⟩ := evalKL_append ρ h
      obtain ⟨x, q, hx, hq, rfl⟩ := evalKL_cons ρ hr
      simp only [Expr.sizeL] at hf
      have hpos := size_pos item
      simp only [flattenedSumLoop]
      split
      · -- zero item dropped
        rename_i hz
        have := isZero_K ρ hz hx; subst this
        apply flattenedSumLoop_value fuel queue done _ (by omega)
        rw [evalKL_append_mk ρ hd hq]; simp [opK]
      · split
        · -- a sum: children are spliced in place (front of the queue)
          rw [evalK_sum] at hx
          apply flattenedSumLoop_value fuel _ done _
            (by simp only [sizeL_append, Expr.size] at hf ⊢; omega)
          rw [evalKL_append_mk ρ hd (evalKL_append_mk ρ hx hq)]
        · apply flattenedSumLoop_value fuel queue (done ++ [item]) _ (by omega)
          rw [evalKL_append_mk ρ (evalKL_append_mk ρ hd (evalKL_singleton ρ hx)) hq]
          simp only [opK_false, opK_true, Option.some.injEq]; ring

/-- **`flattened_sum` preserves the value**: if the terms sum to `v`, so does the result. -/
theorem flattenedSum_value {terms : List Expr} {v : K} (h : evalKL ρ false terms = some v) :
    evalK ρ (flattenedSum terms) = some v := by
  have := flattenedSumLoop_value ρ (Expr.sizeL terms + terms.length + 1) terms [] v (by omega)
    (by simpa using h)
  simp only [flattenedSum]
  split
  · rename_i heq; rw [heq] at this
    simp only [evalKL, unitK, Option.some.injEq] at this
    rw [evalK_zero]; simp at this; rw [this]
  · rename_i x heq; rw [heq] at this
    obtain ⟨a, b, ha, hb, rfl⟩ := evalKL_cons ρ this
    simp only [evalKL, Option.some.injEq] at hb; subst hb
    rw [ha, opK_unit_right]
  · rename_i xs _ _ heq
    rw [evalK_sum]; exact this

/-- outcome of the product loop: early `return 0` (then the value is 0) or the factors -/
def ProdLoopOK (v : K) : Option (List Expr) → Prop
  | none => v = 0
  | some xs => evalKL ρ true xs = some v

theorem flattenedProductLoop_value : ∀ (fuel : Nat) (queue done : List Expr) (v : K),
    Expr.sizeL queue < fuel → evalKL ρ true (done ++ queue) = some v →
    ProdLoopOK ρ v (flattenedProductLoop fuel queue done)
  | 0, _, _, _, hf, _ => by omega
  | fuel + 1, [], done, v, _, h => by
      simpa only [flattenedProductLoop, List.append_nil, ProdLoopOK] using h
  | fuel + 1, item :: queue, done, v, hf, h => by
      obtain ⟨d, r, hd, hr, rfl⟩ := evalKL_append ρ h
      obtain ⟨x, q, hx, hq, rfl⟩ := evalKL_cons ρ hr
      simp only [Expr.sizeL] at hf
      have hpos := size_pos item
      simp only [flattenedProductLoop]
      split
      · rename_i hz
        have := isZero_K ρ hz hx; subst this
        simp [ProdLoopOK]
      · split
        · rename_i h1
          have := isOne_K ρ h1 hx; subst this
          apply flattenedProductLoop_value fuel queue done _ (by omega)
          rw [evalKL_append_mk ρ hd hq]; simp [opK]
        · split
          · rw [evalK_prod] at hx
            apply flattenedProductLoop_value fuel _ done _
              (by simp only [sizeL_append, Expr.size] at hf ⊢; omega)
            rw [evalKL_append_mk ρ hd (evalKL_append_mk ρ hx hq)]
          · apply flattenedProductLoop_value fuel queue (done ++ [item]) _ (by omega)
            rw [evalKL_append_mk ρ (evalKL_append_mk ρ hd (evalKL_singleton ρ hx)) hq]
            simp only [opK_false, opK_true, Option.some.injEq]; ring

/-- **`flattened_product` preserves the value.** -/
theorem flattenedProduct_value {terms : List Expr} {v : K} (h : evalKL ρ true terms = some v) :
    evalK ρ (flattenedProduct terms) = some v := by
  have := flattenedProductLoop_value ρ (Expr.sizeL terms + terms.length + 1) terms [] v (by omega)
    (by simpa using h)
  simp only [flattenedProduct]
  split
  · rename_i heq; rw [heq] at this
    simp only [ProdLoopOK] at this; subst this; exact evalK_zero ρ
  · rename_i heq; rw [heq] at this
    simp only [ProdLoopOK, evalKL, unitK, Option.some.injEq] at this
    rw [evalK_one]; simp at this; rw [this]
  · rename_i x heq; rw [heq] at this
    simp only [ProdLoopOK] at this
    obtain ⟨a, b, ha, hb, rfl⟩ := evalKL_cons ρ this
    simp only [evalKL, Option.some.injEq] at hb; subst hb
    rw [ha, opK_unit_right]
  · rename_i xs _ _ heq
    rw [heq] at this
    rw [evalK_prod]; exact this

theorem flatProd_value {items : List Expr} {e : Expr} {v : K} (h : flatProd items = .ok e)
    (hv : evalKL ρ true items = some v) : evalK ρ e = some v := by
  simp only [flatProd] at h
  split at h
  · contradiction
  · injection h with h; subst h; exact flattenedProduct_value ρ hv

end

end PV

namespace PV

universe u
variable {K : Type u} [Field K] [DecidableEq K]

/-! ### `Except` plumbing -/

theorem bind_ok {ε α β : Type} {x : Except ε α} {f : α → Except ε β} {r : β}
    (h : x >>= f = .ok r) : ∃ a, x = .ok a ∧ f a = .ok r := by
  cases x with
  | error e => simp [bind, Except.bind] at h
  | ok a => exact ⟨a, rfl, h⟩

theorem mapM_ok {ε : Type} {f : Expr → Except ε Expr} : ∀ {cs cs' : List Expr},
    cs.mapM f = .ok cs' → List.Forall₂ (fun c c' => f c = .ok c') cs cs'
  | [], cs', h => by
      simp only [List.mapM_nil, pure, Except.pure] at h
      injection h with h; subst h; exact .nil
  | c :: cs, cs', h => by
      rw [List.mapM_cons] at h
      obtain ⟨b, hb, h⟩ := bind_ok h
      obtain ⟨bs, hbs, h⟩ := bind_ok h
      simp only [pure, Except.pure] at h
      injection h with h; subst h
      exact .cons hb (mapM_ok hbs)

theorem mapM_ok' {ε α β : Type} {f : α → Except ε β} : ∀ {cs : List α} {cs' : List β},
    cs.mapM f = .ok cs' → List.Forall₂ (fun c c' => f c = .ok c') cs cs'
  | [], cs', h => by
      simp only [List.mapM_nil, pure, Except.pure] at h
      injection h with h; subst h; exact .nil
  | c :: cs, cs', h => by
      rw [List.mapM_cons] at h
      obtain ⟨b, hb, h⟩ := bind_ok h
      obtain ⟨bs, hbs, h⟩ := bind_ok h
      simp only [pure, Except.pure] at h
      injection h with h; subst h
      exact .cons hb (mapM_ok' hbs)

section
variable (ρ : String → K)

theorem divK_some {a b : Option K} {v : K} (h : divK a b = some v) :
    ∃ x y, a = some x ∧ b = some y ∧ y ≠ 0 ∧ v = x / y := by
  cases a <;> cases b <;> simp only [divK] at h <;> try contradiction
  split at h
  · contradiction
  · injection h with h; exact ⟨_, _, rfl, rfl, ‹_›, h.symm⟩

theorem divK_mk {x y : K} (hy : y ≠ 0) : divK (some x) (some y) = some (x / y) := by
  simp [divK, hy]

theorem powK_some {a : Option K} {n? : Option Int} {v : K} (h : powK a n? = some v) :
    ∃ x n, a = some x ∧ n? = some n ∧ ¬ (n < 0 ∧ x = 0) ∧ v = x ^ n := by
  cases a <;> cases n? <;> simp only [powK] at h <;> try contradiction
  split at h
  · contradiction
  · injection h with h; exact ⟨_, _, rfl, rfl, ‹_›, h.symm⟩

theorem expInt?_some {b : Expr} {n : Int} (h : expInt? b = some n) : b = .const (.int n) := by
  cases b <;> simp only [expInt?] at h <;> try contradiction
  rename_i c
  cases c <;> simp only [expInt?] at h <;> try contradiction
  injection h with h; subst h; rfl

theorem evalK_pow_lit (a : Expr) (n : Int) :
    evalK ρ (.bin .pow a (.const (.int n))) = powK (evalK ρ a) (some n) := by
  simp only [evalK, expInt?]

/-- a list mapped element-wise by a value-preserving function keeps its sum / product -/
theorem evalKL_forall₂ {f : Expr → RwR} (p : Bool)
    (hrec : ∀ c c' v, f c = .ok c' → evalK ρ c = some v → evalK ρ c' = some v) :
    ∀ {cs cs' : List Expr} {v : K}, List.Forall₂ (fun c c' => f c = .ok c') cs cs' →
      evalKL ρ p cs = some v → evalKL ρ p cs' = some v
  | _, _, _, .nil, h => h
  | _, _, _, .cons hc hcs, h => by
      obtain ⟨a, b, ha, hb, rfl⟩ := evalKL_cons ρ h
      exact evalKL_cons_mk ρ (hrec _ _ _ hc ha) (evalKL_forall₂ p hrec hcs hb)

/-- **The inherited `IdentityMapper` handlers preserve the value** when `rec` does (and returns
constants unchanged). -/
theorem idMap_value {rec : Expr → RwR}
    (hconst : ∀ c r, rec (.const c) = .ok r → r = .const c)
    (hrec : ∀ c c' v, rec c = .ok c' → evalK ρ c = some v → evalK ρ c' = some v)
    {e e' : Expr} {v : K} (h : idMap rec e = .ok e') (hv : evalK ρ e = some v) :
    evalK ρ e' = some v := by
  cases e with
  | const c =>
    obtain ⟨n, rfl, rfl⟩ := evalK_const ρ hv
    simp only [idMap, pure, Except.pure] at h
    injection h with h; subst h; exact hv
  | var x =>
    simp only [idMap, pure, Except.pure] at h
    injection h with h; subst h; exact hv
  | nary o cs =>
    simp only [idMap] at h
    obtain ⟨cs', hcs, h⟩ := bind_ok h
    simp only [pure, Except.pure] at h
    injection h with h; subst h
    cases o <;> simp only [evalK] at hv ⊢ <;> try contradiction
    · exact evalKL_forall₂ ρ false hrec (mapM_ok hcs) hv
    · exact evalKL_forall₂ ρ true hrec (mapM_ok hcs) hv
  | bin o a b =>
    simp only [idMap] at h
    obtain ⟨a', ha, h⟩ := bind_ok h
    obtain ⟨b', hb, h⟩ := bind_ok h
    simp only [pure, Except.pure] at h
    injection h with h; subst h
    cases o <;> simp only [evalK] at hv ⊢ <;> try contradiction
    · obtain ⟨x, y, hx, hy, hy0, rfl⟩ := divK_some hv
      rw [hrec _ _ _ ha hx, hrec _ _ _ hb hy]; exact divK_mk hy0
    · obtain ⟨x, n, hx, hn, hdef, rfl⟩ := powK_some hv
      have := expInt?_some hn; subst this
      have := hconst _ _ hb; subst this
      rw [hrec _ _ _ ha hx, hn]
      simp only [powK, hdef, if_false]
  | cse c p s =>
    simp only [idMap] at h
    obtain ⟨c', hc, h⟩ := bind_ok h
    simp only [evalK] at hv
    have hc' := hrec _ _ _ hc hv
    split at h
    · rename_i hz
      simp only [pure, Except.pure] at h
      injection h with h; subst h
      rw [isZero_K ρ hz hc']; exact evalK_zero ρ
    · simp only [pure, Except.pure] at h
      injection h with h; subst h
      simpa only [evalK] using hc'
  | _ => simp [evalK] at hv

/-! ### FlattenMapper -/

theorem flattenM_const : ∀ (fuel : Nat) (c : Const) (r : Expr),
    flattenM fuel (.const c) = .ok r → r = .const c
  | 0, _, _, h => by simp [flattenM, throw, throwThe, MonadExceptOf.throw] at h
  | fuel + 1, c, r, h => by
      cases c <;> simp only [flattenM, idMap, pure, Except.pure, throw, throwThe,
        MonadExceptOf.throw] at h <;> first | contradiction | (injection h with h; exact h.symm)

/-- **`flatten` preserves the value**: wherever the input has a value (in any field, under any
assignment), the flattened expression has the same value. -/
theorem flattenM_value : ∀ (fuel : Nat) (e e' : Expr) (v : K),
    flattenM fuel e = .ok e' → evalK ρ e = some v → evalK ρ e' = some v
  | 0, _, _, _, h, _ => by simp [flattenM, throw, throwThe, MonadExceptOf.throw] at h
  | fuel + 1, e, e', v, h, hv => by
      have ih := flattenM_value fuel
      have hc := flattenM_const fuel
      cases e with
      | nary o cs =>
        cases o with
        | sum =>
          simp only [flattenM] at h
          obtain ⟨cs', hcs, h⟩ := bind_ok h
          simp only [pure, Except.pure] at h
          injection h with h; subst h
          rw [evalK_sum] at hv
          exact flattenedSum_value ρ (evalKL_forall₂ ρ false ih (mapM_ok hcs) hv)
        | prod =>
          simp only [flattenM] at h
          obtain ⟨cs', hcs, h⟩ := bind_ok h
          rw [evalK_prod] at hv
          exact flatProd_value ρ h (evalKL_forall₂ ρ true ih (mapM_ok hcs) hv)
        | _ => simp [evalK] at hv
      | _ =>
        simp only [flattenM] at h
        exact idMap_value ρ hc ih h hv

end

end PV
