import PV.Model.AlgoScalar
import PV.Proofs.AlgoPoly
/-!
  Proofs for `PV.Model.AlgoScalar`: values of polynomial (op) constant, and the run of the
  regenerated `Polynomial.__divmod__` on an int divisor.
-/
namespace PV.Algo

theorem evalSpec_divmod_scalar (p : Poly) (d x : ℤ) :
    evalSpec p x = evalSpec (p.map fun t => (t.1, Int.fdiv t.2 d)) x * d
      + evalSpec (p.map fun t => (t.1, Int.fmod t.2 d)) x := by
  induction p with
  | nil => simp
  | cons t p ih =>
    obtain ⟨e, c⟩ := t
    simp only [List.map_cons, evalSpec_cons] at ih ⊢
    have h := Int.fmod_add_mul_fdiv c d
    rw [ih]
    have h2 : c * x ^ e = (c.fmod d + d * c.fdiv d) * x ^ e := by rw [h]
    rw [h2]; ring

theorem divmodScalar_spec (p q r : Poly) (d x : ℤ) (h : divmodScalar p d = some (q, r)) :
    evalSpec p x = evalSpec q x * d + evalSpec r x := by
  unfold divmodScalar at h
  by_cases hd : d = 0
  · simp only [hd, if_true] at h
    cases p with
    | nil => simp at h; obtain ⟨rfl, rfl⟩ := h; simp
    | cons t p => simp at h
  · simp only [hd, if_false, Option.some.injEq, Prod.mk.injEq] at h
    obtain ⟨rfl, rfl⟩ := h
    exact evalSpec_divmod_scalar p d x

theorem addScalar_eval (p : Poly) (k x : ℤ) : evalSpec (addScalar p k) x = evalSpec p x + k := by
  unfold addScalar
  by_cases hk : k = 0
  · simp [hk]
  · simp only [hk, if_false, add_eval, evalSpec_cons]; simp

theorem subScalar_eval (p : Poly) (k x : ℤ) : evalSpec (subScalar p k) x = evalSpec p x - k := by
  rw [subScalar, addScalar_eval]; ring

theorem rsubScalarPy_eval (p : Poly) (k x : ℤ) :
    evalSpec (rsubScalarPy p k) x = evalSpec p x - k := by
  rw [rsubScalarPy, addScalar_eval]; ring

theorem rsubScalar_eval (p : Poly) (k x : ℤ) : evalSpec (rsubScalar p k) x = k - evalSpec p x := by
  rw [rsubScalar, addScalar_eval, neg_eval]; ring

theorem rscale_eval (p : Poly) (k x : ℤ) : evalSpec (rscale p k) x = k * evalSpec p x := by
  induction p with
  | nil => simp [rscale]
  | cons t p ih =>
    obtain ⟨e, c⟩ := t
    simp only [rscale, List.map_cons, evalSpec_cons] at ih ⊢
    rw [ih]; ring

end PV.Algo
