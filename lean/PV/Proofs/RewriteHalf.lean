import PV.Model.Eval
import PV.Proofs.OpsSound
/-
  C11 (clauses): Python's `//`, `%`, `/` with the divisor 1 at the rational point `x = 1/2`
  (helper facts for the witnesses of PV/Properties/C11Clauses.lean).
-/
namespace PV.C11
open PV

/-- the environment `x = 1/2` -/
def halfEnv : Env := [("x", .frac (1 / 2))]

theorem half_floordiv_one : Value.floordiv (.frac (1/2)) (.int 1) = .ok (.int 0) := by
  simp [Value.floordiv, arith, Value.isInexact, Value.isSeq, Value.num?, floordivN, Num.toRat,
    pure, Except.pure, rat_floor_eq]
  norm_num

theorem half_mod_one : Value.mod (.frac (1/2)) (.int 1) = .ok (.frac (1/2)) := by
  simp [Value.mod, arith, Value.isInexact, Value.isSeq, Value.num?, modN, Num.toRat,
    pure, Except.pure, rat_floor_eq]
  norm_num

theorem half_div_one : Value.div (.frac (1/2)) (.int 1) = .ok (.frac (1/2)) := by
  simp [Value.div, arith, Value.isInexact, Value.isSeq, Value.num?, divN, Num.toRat,
    pure, Except.pure]

theorem den_half_bin (o : BinOp) :
    den halfEnv (.bin o (.var "x") one) = o.apply (.frac (1/2)) (.int 1) := by
  simp [den, halfEnv, Env.get, one, Const.den, bind, Except.bind, pure, Except.pure]

end PV.C11
