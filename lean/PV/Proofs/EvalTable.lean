import PV.Model.EvalTable
/-
  Helper lemmas for the T-gen tie of C02 (table-free): the list-consuming loops of the hand-written
  evaluator (`evalFold`, `evalReduce`, `evalAny`, `evalAll`, `evalMinMax`, `evalList`) are the
  generic consumers of PV/Model/EvalTable.lean applied to the suspended recursive calls.
-/
namespace PV

/-- `self.rec(c)` for every child, suspended — as the hand-written evaluator performs them -/
def c02ModelRuns (cached : Bool) (env : Env) : List Expr → List (EvM Value)
  | [] => []
  | c :: cs => withMemo cached c (evalNode cached env c) :: c02ModelRuns cached env cs

theorem evalFold_eq_runs (cached : Bool) (env : Env) (o : NaryOp) :
    ∀ (acc : Value) (cs : List Expr),
      evalFold cached env o acc cs = c02FoldRuns o.apply acc (c02ModelRuns cached env cs)
  | _, [] => by simp only [evalFold, c02ModelRuns, c02FoldRuns]
  | acc, c :: cs => by
      simp only [evalFold, c02ModelRuns, c02FoldRuns]
      congr 1; funext v; congr 1; funext acc'
      exact evalFold_eq_runs cached env o acc' cs

theorem evalReduce_eq_runs (cached : Bool) (env : Env) (o : NaryOp) :
    ∀ (cs : List Expr),
      evalReduce cached env o cs = c02ReduceRuns o.apply (c02ModelRuns cached env cs)
  | [] => by simp only [evalReduce, c02ModelRuns, c02ReduceRuns]
  | c :: cs => by
      simp only [evalReduce, c02ModelRuns, c02ReduceRuns]
      congr 1; funext v
      exact evalFold_eq_runs cached env o v cs

theorem evalAny_eq_runs (cached : Bool) (env : Env) :
    ∀ (cs : List Expr), evalAny cached env cs = c02AnyRuns (c02ModelRuns cached env cs)
  | [] => by simp only [evalAny, c02ModelRuns, c02AnyRuns]
  | c :: cs => by
      simp only [evalAny, c02ModelRuns, c02AnyRuns]
      congr 1; funext v; congr 1; funext t
      rw [evalAny_eq_runs cached env cs]

theorem evalAll_eq_runs (cached : Bool) (env : Env) :
    ∀ (cs : List Expr), evalAll cached env cs = c02AllRuns (c02ModelRuns cached env cs)
  | [] => by simp only [evalAll, c02ModelRuns, c02AllRuns]
  | c :: cs => by
      simp only [evalAll, c02ModelRuns, c02AllRuns]
      congr 1; funext v; congr 1; funext t
      rw [evalAll_eq_runs cached env cs]

theorem evalMinMax_eq_runs (cached : Bool) (env : Env) (isMin : Bool) :
    ∀ (cur : Option Value) (cs : List Expr),
      evalMinMax cached env isMin cur cs = c02MinMaxRuns isMin cur (c02ModelRuns cached env cs)
  | cur, [] => by cases cur <;> simp only [evalMinMax, c02ModelRuns, c02MinMaxRuns]
  | cur, c :: cs => by
      simp only [evalMinMax, c02ModelRuns, c02MinMaxRuns]
      congr 1; funext v
      cases cur with
      | none => exact evalMinMax_eq_runs cached env isMin (some v) cs
      | some m =>
        simp only []
        congr 1; funext better
        exact evalMinMax_eq_runs cached env isMin _ cs

theorem evalList_eq_runs (cached : Bool) (env : Env) :
    ∀ (cs : List Expr), evalList cached env cs = c02ListRuns (c02ModelRuns cached env cs)
  | [] => by simp only [evalList, c02ModelRuns, c02ListRuns]
  | c :: cs => by
      simp only [evalList, c02ModelRuns, c02ListRuns]
      congr 1; funext v
      rw [evalList_eq_runs cached env cs]

end PV
