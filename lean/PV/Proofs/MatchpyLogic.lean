import PV.Model.Eval
import PV.Model.Matchpy
/-
  C16, matchpy bridge: the commutative / associative flags on `LogicalOr` / `LogicalAnd` are sound
  for the evaluator's meaning `den` (exact Python semantics, C02) whenever every operand evaluates
  and has a truth value — and NOT beyond: `any` / `all` short-circuit, so an operand that raises is
  reached or not depending on the order.
-/
namespace PV.Matchpy
open PV

/-- the truth values of the operands, all evaluated (`error`: some operand raises or has no exact
truth value) -/
def truths (env : Env) : List Expr → Except Err (List Bool)
  | [] => pure []
  | c :: cs => do
      let v ← den env c
      let b ← v.truthy
      let bs ← truths env cs
      pure (b :: bs)

theorem truths_cons {env : Env} {c : Expr} {cs : List Expr} {bs : List Bool}
    (h : truths env (c :: cs) = .ok bs) :
    ∃ v b bs', bs = b :: bs' ∧ den env c = .ok v ∧ v.truthy = .ok b ∧ truths env cs = .ok bs' := by
  simp only [truths] at h
  cases h1 : den env c with
  | error e => simp [h1, bind, Except.bind] at h
  | ok v =>
    cases h2 : v.truthy with
    | error e => simp [h1, h2, bind, Except.bind] at h
    | ok b =>
      cases h3 : truths env cs with
      | error e => simp [h1, h2, h3, bind, Except.bind] at h
      | ok bs' =>
        simp [h1, h2, h3, bind, Except.bind, pure, Except.pure] at h
        exact ⟨v, b, bs', h.symm, rfl, h2, rfl⟩

theorem truths_cons_ok {env : Env} {c : Expr} {cs : List Expr} {v : Value} {b : Bool}
    {bs : List Bool} (h1 : den env c = .ok v) (h2 : v.truthy = .ok b)
    (h3 : truths env cs = .ok bs) : truths env (c :: cs) = .ok (b :: bs) := by
  simp [truths, h1, h2, h3, bind, Except.bind, pure, Except.pure]

theorem denAny_of_truths {env : Env} : ∀ {cs : List Expr} {bs : List Bool},
    truths env cs = .ok bs → denAny env cs = .ok (.bool (bs.any id))
  | [], bs, h => by
    simp [truths, pure, Except.pure] at h; subst h; rfl
  | c :: cs, bs, h => by
    obtain ⟨v, b, bs', rfl, h1, h2, h3⟩ := truths_cons h
    have ih := denAny_of_truths h3
    cases b <;> simp [denAny, h1, h2, ih, bind, Except.bind, pure, Except.pure]

theorem denAll_of_truths {env : Env} : ∀ {cs : List Expr} {bs : List Bool},
    truths env cs = .ok bs → denAll env cs = .ok (.bool (bs.all id))
  | [], bs, h => by
    simp [truths, pure, Except.pure] at h; subst h; rfl
  | c :: cs, bs, h => by
    obtain ⟨v, b, bs', rfl, h1, h2, h3⟩ := truths_cons h
    have ih := denAll_of_truths h3
    cases b <;> simp [denAll, h1, h2, ih, bind, Except.bind, pure, Except.pure]

theorem truths_perm {env : Env} {cs ds : List Expr} (h : cs.Perm ds) :
    ∀ {bs : List Bool}, truths env cs = .ok bs → ∃ bs', truths env ds = .ok bs' ∧ bs.Perm bs' := by
  induction h with
  | nil => intro bs h; exact ⟨bs, h, .refl _⟩
  | cons x _ ih =>
    intro bs h
    obtain ⟨v, b, bs0, rfl, h1, h2, h3⟩ := truths_cons h
    obtain ⟨bs1, h4, hp⟩ := ih h3
    exact ⟨b :: bs1, truths_cons_ok h1 h2 h4, hp.cons b⟩
  | swap x y l =>
    intro bs h
    obtain ⟨v1, b1, bs0, rfl, h1, h2, h3⟩ := truths_cons h
    obtain ⟨v2, b2, bs1, rfl, h4, h5, h6⟩ := truths_cons h3
    exact ⟨b2 :: b1 :: bs1, truths_cons_ok h4 h5 (truths_cons_ok h1 h2 h6), .swap _ _ _⟩
  | trans _ _ ih1 ih2 =>
    intro bs h
    obtain ⟨bs1, h1, hp1⟩ := ih1 h
    obtain ⟨bs2, h2, hp2⟩ := ih2 h1
    exact ⟨bs2, h2, hp1.trans hp2⟩

theorem truths_append {env : Env} : ∀ {xs ys : List Expr} {bs : List Bool},
    truths env (xs ++ ys) = .ok bs →
    ∃ b1 b2, bs = b1 ++ b2 ∧ truths env xs = .ok b1 ∧ truths env ys = .ok b2
  | [], ys, bs, h => ⟨[], bs, rfl, rfl, by simpa using h⟩
  | x :: xs, ys, bs, h => by
    obtain ⟨v, b, bs', rfl, h1, h2, h3⟩ := truths_cons (by simpa using h)
    obtain ⟨b1, b2, rfl, h4, h5⟩ := truths_append h3
    exact ⟨b :: b1, b2, rfl, truths_cons_ok h1 h2 h4, h5⟩

theorem truths_append_ok {env : Env} : ∀ {xs ys : List Expr} {b1 b2 : List Bool},
    truths env xs = .ok b1 → truths env ys = .ok b2 → truths env (xs ++ ys) = .ok (b1 ++ b2)
  | [], ys, b1, b2, h1, h2 => by
    simp [truths, pure, Except.pure] at h1; subst h1; simpa using h2
  | x :: xs, ys, b1, b2, h1, h2 => by
    obtain ⟨v, b, bs', rfl, h3, h4, h5⟩ := truths_cons h1
    exact truths_cons_ok h3 h4 (truths_append_ok h5 h2)

/-- is the operator one of the two logical n-ary operators -/
def isLogical (o : NaryOp) : Prop := o = .lor ∨ o = .land

/-- value of a logical node over operands that all evaluate -/
theorem den_logical_of_truths {env : Env} {o : NaryOp} (ho : isLogical o) {cs : List Expr}
    {bs : List Bool} (h : truths env cs = .ok bs) :
    den env (.nary o cs) = .ok (.bool (if o = .lor then bs.any id else bs.all id)) := by
  rcases ho with rfl | rfl
  · simp [den, denAny_of_truths h]
  · simp [den, denAll_of_truths h]

/-- **commutative is sound for `LogicalOr` / `LogicalAnd`** (evaluator semantics) when every
operand evaluates and has a truth value: the value does not depend on the order -/
theorem den_logical_perm {env : Env} {o : NaryOp} (ho : isLogical o) {cs ds : List Expr}
    {bs : List Bool} (h : truths env cs = .ok bs) (hp : cs.Perm ds) :
    den env (.nary o cs) = den env (.nary o ds) := by
  obtain ⟨bs', h', hpb⟩ := truths_perm hp h
  rw [den_logical_of_truths ho h, den_logical_of_truths ho h']
  rcases ho with rfl | rfl
  · simp [hpb.any_eq]
  · simp [hpb.all_eq]

/-- **associative is sound for `LogicalOr` / `LogicalAnd`** under the same hypothesis: merging a
nested application into its parent keeps the value -/
theorem den_logical_flat {env : Env} {o : NaryOp} (ho : isLogical o) (xs ys zs : List Expr)
    {bs : List Bool} (h : truths env (xs ++ ys ++ zs) = .ok bs) :
    den env (.nary o (xs ++ .nary o ys :: zs)) = den env (.nary o (xs ++ ys ++ zs)) := by
  obtain ⟨b12, b3, rfl, h12, h3⟩ := truths_append h
  obtain ⟨b1, b2, rfl, h1, h2⟩ := truths_append h12
  have hy := den_logical_of_truths ho h2
  have hin : truths env (.nary o ys :: zs)
      = .ok ((if o = .lor then b2.any id else b2.all id) :: b3) :=
    truths_cons_ok hy rfl h3
  have hl := truths_append_ok h1 hin
  rw [den_logical_of_truths ho hl, den_logical_of_truths ho h]
  rcases ho with rfl | rfl
  · simp [List.any_append]
  · simp [List.all_append]

end PV.Matchpy
