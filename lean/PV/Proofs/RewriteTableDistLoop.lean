import PV.Proofs.RewriteTableCollect
import PV.Proofs.RewriteTableFold
set_option linter.unusedSimpArgs false
set_option linter.unusedVariables false
/-
  C11 (T-gen), part 6: the nested function `dist` of `DistributeMapper.map_product`, as the table
  has it and interpreted, is `distLoop`: the `for … break` loop collects `takeWhile (not a Sum)`,
  `prod.children[len(leading)]` / `[len(leading)+1:]` are head and tail of `dropWhile`, the
  comprehension multiplies `flattened_product(leading)` from the LEFT onto `dist(sumchild*rest)`,
  one unit of fuel per (recursive) call.
-/
namespace PV
open PV.Generated (c04Classes c04IdentityTable)
open PV.C11Expected

/-- a result of the tree model as a value of the table language -/
def c11LiftE : RwR → C11R C11Val
  | .ok e => .ok (.expr e)
  | .error er => .error (.py er)

theorem c11ToRw_liftE (r : RwR) : c11ToRw (c11LiftE r) = r := by cases r <;> rfl

/-! ### the nested function `dist` -/

def c11DistDefs : List C11Def := c11_DistributeMapper_map_product.defs

def c11DistEnv (p : Expr) (lead i result sum rest : C11Val) : C11Env :=
  [("prod", .expr p), ("leading", lead), ("i", i), ("result", result), ("sum", sum), ("rest", rest),
   ("dist", .closure "dist")]

def c11DistLeadStmts : List C11Stmt := [
            .ifThen (.call (.glob .pyIsinstance) [(.var "i"), (.glob .clsSum)]) [
              .brk]
              [
              .append "leading" (.var "i")]]

def c11DistLeadBody (ctx : C11Ctx) (F : Nat) (item : C11Val) (env : C11Env) : C11Out :=
  match c11Bind c11Set ["i"] item env with
  | some env' => c11ExecL ctx F c11DistLeadStmts env'
  | none => .fail .stuck

theorem c11_dist_leading (ctx : C11Ctx) (F : Nat) (p : Expr) (result sum rest : C11Val) :
    ∀ (cs lead : List Expr) (iv : C11Val), ∃ iv',
      c11For (c11DistLeadBody ctx F) (cs.map .expr)
        (c11DistEnv p (.list (lead.map .expr)) iv result sum rest) =
      .fell (c11DistEnv p (.list ((lead ++ cs.takeWhile (fun c => !isSum c)).map .expr)) iv' result
        sum rest)
  | [], lead, iv => ⟨iv, by simp [c11For]⟩
  | c :: cs, lead, iv => by
    cases hs : isSum c with
    | true =>
      refine ⟨.expr c, ?_⟩
      simp [c11For, c11DistLeadBody, c11Bind, c11Set, c11DistEnv, c11DistLeadStmts, c11ExecL, c11Exec,
        c11Eval, c11EvalL, c11Get, c11Apply, c11IsInstance, hs, c11Truthy, pure, Except.pure, bind,
        Except.bind, List.takeWhile]
    | false =>
      obtain ⟨iv', h⟩ := c11_dist_leading ctx F p result sum rest cs (lead ++ [c]) (.expr c)
      refine ⟨iv', ?_⟩
      simp [c11For, c11DistLeadBody, c11Bind, c11Set, c11DistEnv, c11DistLeadStmts, c11ExecL, c11Exec,
        c11Eval, c11EvalL, c11Get, c11Apply, c11IsInstance, hs, c11Truthy, pure, Except.pure, bind,
        Except.bind, List.takeWhile] at h ⊢
      exact h

/-! list facts about `takeWhile` / `dropWhile` used for `prod.children[len(leading)]` etc. -/

theorem c11_tw_len_eq {α : Type} (p : α → Bool) : ∀ cs : List α,
    ((cs.takeWhile p).length == cs.length) = (cs.dropWhile p).isEmpty
  | [] => rfl
  | c :: cs => by
    cases h : p c <;> simp [List.takeWhile, List.dropWhile, h, c11_tw_len_eq p cs]

theorem c11_tw_index {α : Type} (p : α → Bool) : ∀ cs : List α,
    cs[(cs.takeWhile p).length]? = (cs.dropWhile p).head?
  | [] => rfl
  | c :: cs => by
    cases h : p c <;> simp [List.takeWhile, List.dropWhile, h, c11_tw_index p cs]

theorem c11_tw_drop {α : Type} (p : α → Bool) : ∀ cs : List α,
    cs.drop ((cs.takeWhile p).length + 1) = (cs.dropWhile p).tail
  | [] => rfl
  | c :: cs => by
    cases h : p c <;> simp [List.takeWhile, List.dropWhile, h, c11_tw_drop p cs]

theorem c11_dw_head_isSum : ∀ (cs : List Expr) (x : Expr) (r : List Expr),
    cs.dropWhile (fun c => !isSum c) = x :: r → isSum x = true
  | [], x, r, h => by simp at h
  | c :: cs, x, r, h => by
    cases hc : isSum c with
    | true =>
      simp only [List.dropWhile, hc, Bool.not_true, List.cons.injEq] at h
      rw [← h.1]; exact hc
    | false =>
      simp only [List.dropWhile, hc, Bool.not_false] at h
      exact c11_dw_head_isSum cs x r h


theorem c11MapM_exprs (f : C11Val → C11R C11Val) (g : Expr → RwR)
    (hf : ∀ c : Expr, f (.expr c) = c11LiftE (g c)) :
    ∀ cs : List Expr, c11MapM f (cs.map .expr) =
      (match cs.mapM g with
       | .ok ts => .ok (ts.map .expr)
       | .error er => .error (.py er))
  | [] => rfl
  | c :: cs => by
    rw [List.map_cons, c11MapM, hf, c11MapM_exprs f g hf cs, List.mapM_cons]
    cases g c with
    | error er => rfl
    | ok t => cases cs.mapM g <;> rfl

def c11DistComp : C11Tm :=
  (.comp (.bin .mul (.call (.glob .flattenedProduct) [(.var "leading")]) (.call (.var "dist") [(.bin .mul (.var "sumchild") (.var "rest"))])) ["sumchild"] (.attr (.var "sum") "children"))

def c11DistTailG (T : C11Tm) : List C11Stmt := [
          .ifThen (.cmp .eq (.call (.glob .pyLen) [(.var "leading")]) (.call (.glob .pyLen) [(.attr (.var "prod") "children")])) [
            .assign "result" (.call (.glob .flattenedProduct) [(.attr (.var "prod") "children")]),
            .ret (.var "result")]
            [
            .assign "sum" (.index (.attr (.var "prod") "children") (.call (.glob .pyLen) [(.var "leading")])),
            .assertS (.call (.glob .pyIsinstance) [(.var "sum"), (.glob .clsSum)]),
            .assign "rest" (.sliceFrom (.attr (.var "prod") "children") (.bin .add (.call (.glob .pyLen) [(.var "leading")]) (.int 1))),
            .ifThen (.var "rest") [
              .assign "rest" (.call (.var "dist") [(.call (.glob .clsProduct) [(.var "rest")])])]
              [
              .assign "rest" (.int 1)],
            .assign "result" (.selfCall "collect" [(.call (.glob .flattenedSum) [T])]),
            .ret (.var "result")]]

def c11DistTail : List C11Stmt := c11DistTailG c11DistComp

theorem c11Exec_dist_for (ctx : C11Ctx) (F : Nat) (env : C11Env) :
    c11Exec ctx F (.for ["i"] (.attr (.var "prod") "children") c11DistLeadStmts) env =
      (match c11Eval ctx env (.attr (.var "prod") "children") with
       | .error e => .fail e
       | .ok v => match c11Items v with
         | .error e => .fail e
         | .ok items => c11For (c11DistLeadBody ctx F) items env) := rfl

/-- one summand of `dist`: `flattened_product(leading) * dist(sumchild*rest)` -/
def c11DistTerm (dist : Expr → RwR) (tw : List Expr) (rest' : Expr) (sc : Expr) : RwR := do
  let lead ← flatProd tw
  let p ← pyMul sc rest'
  let d ← dist p
  pyMul lead d

theorem c11_dist_comp (ctx : C11Ctx) (dist : Expr → RwR)
    (hdist : ∀ e, ctx.callLocal "dist" [.expr e] = c11LiftE (dist e))
    (p : Expr) (tw : List Expr) (iv result : C11Val) (scs : List Expr) (rest' : Expr) :
    c11Eval ctx (c11DistEnv p (.list (tw.map .expr)) iv result (.expr (.nary .sum scs)) (.expr rest'))
      c11DistComp =
    (match scs.mapM (c11DistTerm dist tw rest') with
     | .ok ts => .ok (.list (ts.map .expr))
     | .error er => .error (.py er)) := by
  simp [c11DistComp, c11Eval, c11DistEnv, c11Get, c11Attr, Expr.c04Field, Expr.c04Fields, c04Assoc,
    c11Items, bind, Except.bind, pure, Except.pure]
  rw [c11MapM_exprs _ (c11DistTerm dist tw rest')]
  · cases scs.mapM (c11DistTerm dist tw rest') <;> rfl
  · intro c
    simp only [c11DistTerm, bind, Except.bind]
    cases h1 : flatProd tw with
    | error er =>
      simp [c11Bind, c11Push, c11Get, c11Eval, c11EvalL, c11Apply, c11AsExprs_exprs, h1, c11Lift, c11LiftE, pure,
        Except.pure, bind, Except.bind]
    | ok lead =>
      cases h2 : pyMul c rest' with
      | error er =>
        simp [c11Bind, c11Push, c11Get, c11Eval, c11EvalL, c11Apply, c11AsExprs_exprs, h1, c11Lift, c11LiftE,
          pure, Except.pure, bind, Except.bind, c11Bin, h2]
      | ok pp =>
        cases h3 : dist pp with
        | error er =>
          simp [c11Bind, c11Push, c11Get, c11Eval, c11EvalL, c11Apply, c11AsExprs_exprs, h1, c11Lift, c11LiftE,
            pure, Except.pure, bind, Except.bind, c11Bin, h2, hdist, h3]
        | ok dd =>
          cases h4 : pyMul lead dd <;>
          simp [c11Bind, c11Push, c11Get, c11Eval, c11EvalL, c11Apply, c11AsExprs_exprs, h1, c11Lift, c11LiftE,
            pure, Except.pure, bind, Except.bind, c11Bin, h2, hdist, h3, h4]

theorem c11EvalL_cons_nostar (ctx : C11Ctx) (env : C11Env) (T : C11Tm) (r : List C11Tm)
    (h : ∀ t, T ≠ .star t) :
    c11EvalL ctx env (T :: r) = (do
      let v ← c11Eval ctx env T
      let rs ← c11EvalL ctx env r
      pure (v :: rs)) := by
  cases T <;> first | rfl | exact absurd rfl (h _)

/-- the part of `dist` after the `leading` loop, for any term `T` in the place of the comprehension
that evaluates as the comprehension does -/
theorem c11_dist_tail (ctx : C11Ctx) (F : Nat) (collect : Expr → RwR)
    (hcol : ∀ e, ctx.callSelf "collect" [.expr e] = c11LiftE (collect e))
    (dist : Expr → RwR) (hdist : ∀ e, ctx.callLocal "dist" [.expr e] = c11LiftE (dist e))
    (T : C11Tm) (hns : ∀ t, T ≠ .star t) (cs : List Expr)
    (hT : ∀ (tw : List Expr) (iv result : C11Val) (scs : List Expr) (rest' : Expr),
      c11Eval ctx (c11DistEnv (.nary .prod cs) (.list (tw.map .expr)) iv result
        (.expr (.nary .sum scs)) (.expr rest')) T =
      (match scs.mapM (c11DistTerm dist tw rest') with
       | .ok ts => .ok (.list (ts.map .expr))
       | .error er => .error (.py er)))
    (iv result sum rest : C11Val) :
    c11OutToR (c11ExecL ctx F (c11DistTailG T)
      (c11DistEnv (.nary .prod cs) (.list ((cs.takeWhile (fun c => !isSum c)).map .expr)) iv result
        sum rest)) =
    c11LiftE (match cs.dropWhile (fun c => !isSum c) with
      | [] => flatProd cs
      | .nary .sum scs :: rest => do
          let rest' ← (if rest.isEmpty then pure one else dist (.nary .prod rest))
          let terms ← scs.mapM (c11DistTerm dist (cs.takeWhile (fun c => !isSum c)) rest')
          collect (flattenedSum terms)
      | _ :: _ => throw .assertion) := by
  have hlen := c11_tw_len_eq (fun c => !isSum c) cs
  have hidx := c11_tw_index (fun c => !isSum c) cs
  have hdrop := c11_tw_drop (fun c => !isSum c) cs
  cases hdw : cs.dropWhile (fun c => !isSum c) with
  | nil =>
    rw [hdw] at hlen
    simp only [List.isEmpty_nil, beq_iff_eq] at hlen
    cases hf : flatProd cs <;>
    simp [c11DistTailG, c11DistEnv, c11ExecL, c11Exec, c11Eval, c11EvalL, c11Get, c11Apply, c11Items,
      c11Attr, Expr.c04Field, Expr.c04Fields, c04Assoc, c11Cmp, c11Eq, c11Eq1, c11Eq0, hlen,
      c11Truthy, c11AsExprs_exprs, hf, c11Lift, c11Set, c11OutToR, c11LiftE, pure, Except.pure, bind,
      Except.bind, throw, throwThe, MonadExceptOf.throw]
  | cons x r =>
    have hx := c11_dw_head_isSum cs x r hdw
    rw [hdw] at hlen hidx hdrop
    simp only [List.isEmpty_cons, List.head?_cons, List.tail_cons] at hlen hidx hdrop
    cases x with
    | nary o scs =>
      cases o <;> simp [isSum] at hx
      have hs : isSum (.nary .sum scs) = true := rfl
      generalize cs.takeWhile (fun c => !isSum c) = tw at *
      have hlen' : (tw.length == cs.length) = false := hlen
      cases r with
      | nil =>
        have hT' := hT tw iv result scs one
        simp only [c11DistEnv, one] at hT'
        cases hm : scs.mapM (c11DistTerm dist tw (.const (.int 1))) with
        | error er =>
          rw [hm] at hT'
          simp [c11DistTailG, c11DistEnv, c11ExecL, c11Exec, c11Eval, c11EvalL, c11Get, c11Apply, c11Items,
      c11Attr, Expr.c04Field, Expr.c04Fields, c04Assoc, c11Cmp, c11Eq, c11Eq1, c11Eq0, hlen',
      c11Truthy, c11AsExprs_exprs, c11Lift, c11Set, c11OutToR, c11LiftE, pure, Except.pure, bind,
      Except.bind, throw, throwThe, MonadExceptOf.throw, List.getElem?_map, hidx, c11IsInstance, hs,
      c11Bin, ← List.map_drop, hdrop, hdist, hcol, c11EvalL_cons_nostar _ _ T _ hns, one, hT', hm]
        | ok ts =>
          rw [hm] at hT'
          cases hc : collect (flattenedSum ts) <;>
          simp [c11DistTailG, c11DistEnv, c11ExecL, c11Exec, c11Eval, c11EvalL, c11Get, c11Apply, c11Items,
      c11Attr, Expr.c04Field, Expr.c04Fields, c04Assoc, c11Cmp, c11Eq, c11Eq1, c11Eq0, hlen',
      c11Truthy, c11AsExprs_exprs, c11Lift, c11Set, c11OutToR, c11LiftE, pure, Except.pure, bind,
      Except.bind, throw, throwThe, MonadExceptOf.throw, List.getElem?_map, hidx, c11IsInstance, hs,
      c11Bin, ← List.map_drop, hdrop, hdist, hcol, c11EvalL_cons_nostar _ _ T _ hns, one, hT', hm, hc]
      | cons y r' =>
        have hae : c11AsExprs (.list (.expr y :: r'.map .expr)) = .ok (y :: r') :=
          c11AsExprs_exprs (y :: r')
        cases hd : dist (.nary .prod (y :: r')) with
        | error er => simp [c11DistTailG, c11DistEnv, c11ExecL, c11Exec, c11Eval, c11EvalL, c11Get, c11Apply, c11Items,
      c11Attr, Expr.c04Field, Expr.c04Fields, c04Assoc, c11Cmp, c11Eq, c11Eq1, c11Eq0, hlen',
      c11Truthy, c11AsExprs_exprs, c11Lift, c11Set, c11OutToR, c11LiftE, pure, Except.pure, bind,
      Except.bind, throw, throwThe, MonadExceptOf.throw, List.getElem?_map, hidx, c11IsInstance, hs,
      c11Bin, ← List.map_drop, hdrop, hdist, hcol, c11EvalL_cons_nostar _ _ T _ hns, hd, hae]
        | ok rest' =>
          have hT' := hT tw iv result scs rest'
          simp only [c11DistEnv] at hT'
          cases hm : scs.mapM (c11DistTerm dist tw rest') with
          | error er =>
            rw [hm] at hT'
            simp [c11DistTailG, c11DistEnv, c11ExecL, c11Exec, c11Eval, c11EvalL, c11Get, c11Apply, c11Items,
      c11Attr, Expr.c04Field, Expr.c04Fields, c04Assoc, c11Cmp, c11Eq, c11Eq1, c11Eq0, hlen',
      c11Truthy, c11AsExprs_exprs, c11Lift, c11Set, c11OutToR, c11LiftE, pure, Except.pure, bind,
      Except.bind, throw, throwThe, MonadExceptOf.throw, List.getElem?_map, hidx, c11IsInstance, hs,
      c11Bin, ← List.map_drop, hdrop, hdist, hcol, c11EvalL_cons_nostar _ _ T _ hns, hd, hae, hT', hm]
          | ok ts =>
            rw [hm] at hT'
            cases hc : collect (flattenedSum ts) <;>
            simp [c11DistTailG, c11DistEnv, c11ExecL, c11Exec, c11Eval, c11EvalL, c11Get, c11Apply, c11Items,
      c11Attr, Expr.c04Field, Expr.c04Fields, c04Assoc, c11Cmp, c11Eq, c11Eq1, c11Eq0, hlen',
      c11Truthy, c11AsExprs_exprs, c11Lift, c11Set, c11OutToR, c11LiftE, pure, Except.pure, bind,
      Except.bind, throw, throwThe, MonadExceptOf.throw, List.getElem?_map, hidx, c11IsInstance, hs,
      c11Bin, ← List.map_drop, hdrop, hdist, hcol, c11EvalL_cons_nostar _ _ T _ hns, hd, hae, hT', hm, hc]
    | _ => simp [isSum] at hx

theorem c11_dist_body : (c11FindDef "dist" c11DistDefs) = some
    { name := "dist", params := ["prod"], locals := ["leading", "i", "result", "sum", "rest"],
      recursive := true,
      body := [.ifThen (.not (.call (.glob .pyIsinstance) [(.var "prod"), (.glob .clsProduct)])) [
                .ret (.var "prod")] [],
              .assign "leading" (.seq []),
              .for ["i"] (.attr (.var "prod") "children") c11DistLeadStmts] ++ c11DistTail } := rfl

/-- one level of `distLoop` with the recursive calls left open -/
def c11DistStep (collect dist : Expr → RwR) : Expr → RwR
  | .nary .prod cs =>
    match cs.dropWhile (fun c => !isSum c) with
    | [] => flatProd cs
    | .nary .sum scs :: rest => do
        let rest' ← (if rest.isEmpty then pure one else dist (.nary .prod rest))
        let terms ← scs.mapM (c11DistTerm dist (cs.takeWhile (fun c => !isSum c)) rest')
        collect (flattenedSum terms)
    | _ :: _ => throw .assertion
  | e => pure e

theorem distLoop_succ (collect : Expr → RwR) (n : Nat) (e : Expr) :
    distLoop collect (n + 1) e = c11DistStep collect (distLoop collect n) e := by
  cases e with
  | nary o cs =>
    cases o <;> rfl
  | _ => rfl

/-- the body of `dist`, run in a context whose `dist` is any function of the tree model -/
theorem c11_dist_run (ctx : C11Ctx) (F : Nat) (collect : Expr → RwR)
    (hcol : ∀ e, ctx.callSelf "collect" [.expr e] = c11LiftE (collect e))
    (dist : Expr → RwR) (hdist : ∀ e, ctx.callLocal "dist" [.expr e] = c11LiftE (dist e))
    (p : Expr) :
    c11RunBody ctx F ["prod"] ["leading", "i", "result", "sum", "rest"] [("dist", .closure "dist")]
      ([.ifThen (.not (.call (.glob .pyIsinstance) [(.var "prod"), (.glob .clsProduct)])) [
          .ret (.var "prod")] [],
        .assign "leading" (.seq []),
        .for ["i"] (.attr (.var "prod") "children") c11DistLeadStmts] ++ c11DistTail) [.expr p] =
    c11LiftE (c11DistStep collect dist p) := by
  have hframe : c11Frame ["prod"] ["leading", "i", "result", "sum", "rest"]
      [("dist", .closure "dist")] [.expr p] =
      some (c11DistEnv p .unbound .unbound .unbound .unbound .unbound) := rfl
  simp only [c11RunBody, hframe]
  by_cases hp : isProdE p = true
  · cases p with
    | nary o cs =>
      cases o <;> simp [isProdE] at hp
      obtain ⟨iv', hl⟩ := c11_dist_leading ctx F (.nary .prod cs) .unbound .unbound .unbound cs []
        .unbound
      simp only [List.map_nil, List.nil_append] at hl
      simp only [List.cons_append, List.nil_append, c11ExecL, c11Exec_dist_for]
      simp [c11Exec, c11ExecL, c11Eval, c11EvalL, c11DistEnv, c11Get, c11Set, c11Apply, c11IsInstance, isProdE,
        c11Truthy, c11Attr, Expr.c04Field, Expr.c04Fields, c04Assoc, c11Items, pure, Except.pure, bind,
        Except.bind]
      simp only [c11DistEnv] at hl
      rw [hl]
      have := c11_dist_tail ctx F collect hcol dist hdist c11DistComp (by intro t h; cases h) cs
        (fun tw iv result scs rest' => c11_dist_comp ctx dist hdist _ tw iv result scs rest')
        iv' .unbound .unbound .unbound
      simp only [c11DistEnv] at this
      exact this
    | _ => simp [isProdE] at hp
  · have hp' : isProdE p = false := by simpa using hp
    have : c11DistStep collect dist p = pure p := by
      cases p with
      | nary o cs => cases o <;> first | rfl | simp [isProdE] at hp'
      | _ => rfl
    rw [this]
    simp [c11ExecL, c11Exec, c11Eval, c11EvalL, c11DistEnv, c11Get, c11Apply, c11IsInstance, hp',
      c11Truthy, pure, Except.pure, bind, Except.bind, c11OutToR, c11LiftE]

theorem c11_dist_call (ctx : C11Ctx) (collect : Expr → RwR)
    (hcol : ∀ e, ctx.callSelf "collect" [.expr e] = c11LiftE (collect e)) :
    ∀ (F : Nat) (p : Expr),
      c11CallLocal ctx c11DistDefs F "dist" [.expr p] = c11LiftE (distLoop collect F p)
  | 0, p => by
    simp only [c11CallLocal, c11_dist_body, if_true]; rfl
  | n + 1, p => by
    simp only [c11CallLocal, c11_dist_body, if_true, distLoop_succ]
    exact c11_dist_run { ctx with callLocal := c11CallLocal ctx c11DistDefs n } n collect hcol
      (distLoop collect n) (fun e => c11_dist_call ctx collect hcol n e) p
end PV
