import PV.Proofs.CoeffTableMain
import PV.Proofs.CoeffTableGauss
import PV.Proofs.CoeffSolve
/-
  C15, T-gen tie, part 3: `solve_affine_equations_for` (pymbolic/algorithm.py) as read from the
  source — the look-up tables, the parameter set, the matrix assembly with its three-way key test
  and the accumulating `+=`, the call of `gaussian_elimination`, the read-off of every unknown
  (`np.where`, the uniqueness and `abs(...) != 1` tests, `int(...) // div`, the `zip` loop with
  `unknown_val += …`) — run by the table interpreter IS `solveAffine` (PV/Model/Coeff.lean).
-/
set_option linter.unusedSimpArgs false
set_option linter.unusedVariables false
set_option linter.unnecessarySeqFocus false
namespace PV.Coeff
open PV

/-! ### duplicate-free lists, look-up tables -/

/-- no element is `==` to a later one (a Python `set` / the key list of a `dict`) -/
def DistinctE (l : List Expr) : Prop := l.Pairwise fun a b => a.pyEq b = false

theorem distinct_vars : ∀ names : List String, names.Nodup → DistinctE (names.map Expr.var)
  | [], _ => List.Pairwise.nil
  | n :: ns, h => by
    have h' := List.nodup_cons.1 h
    refine List.pairwise_cons.2 ⟨?_, distinct_vars ns h'.2⟩
    intro b hb
    obtain ⟨m, hm, rfl⟩ := List.mem_map.1 hb
    simp only [Expr.pyEq]
    have : n ≠ m := fun he => h'.1 (he ▸ hm)
    simp [this]

theorem unionPy_distinct : ∀ (l acc : List Expr), (∀ a ∈ acc, ∀ b ∈ l, a.pyEq b = false) →
    DistinctE l → unionPy acc l = acc ++ l
  | [], acc, _, _ => by simp [unionPy]
  | x :: l, acc, hacc, hd => by
    have hd' := List.pairwise_cons.1 hd
    have hx : acc.any (fun y => y.pyEq x) = false := by
      simp only [List.any_eq_false]
      intro a ha
      simp [hacc a ha x (by simp)]
    have ih := unionPy_distinct l (acc ++ [x]) (by
      intro a ha b hb
      simp only [List.mem_append, List.mem_singleton] at ha
      rcases ha with ha | rfl
      · exact hacc a ha b (by simp [hb])
      · exact hd'.1 b hb) hd'.2
    simp only [unionPy, List.foldl_cons, hx, Bool.false_eq_true, if_false] at ih ⊢
    rw [ih]; simp

theorem set_of_distinct (l : List Expr) (h : DistinctE l) : unionPy [] l = l := by
  simpa using unionPy_distinct l [] (by simp) h

/-- `{x: i for i, x in enumerate(l)}` -/
def lutFrom : Nat → List Expr → Dict
  | _, [] => []
  | i, x :: xs => (x, .const (.int i)) :: lutFrom (i + 1) xs

theorem find_lutFrom : ∀ (l : List Expr) (i : Nat) (k : Expr),
    Dict.find (lutFrom i l) k = (idxOf l k).map fun j => .const (.int ((i + j : Nat) : Int))
  | [], i, k => rfl
  | x :: xs, i, k => by
    by_cases hx : x.pyEq k = true
    · simp [lutFrom, Dict.find, idxOf, hx]
    · simp only [lutFrom, Dict.find, idxOf, hx, Bool.false_eq_true, if_false, find_lutFrom xs (i + 1) k,
        Option.map_map]
      cases idxOf xs k with
      | none => rfl
      | some j => simp only [Option.map_some, Function.comp]; congr 3; omega

theorem idxOf_isSome : ∀ (l : List Expr) (k : Expr), (idxOf l k).isSome = l.any fun x => x.pyEq k
  | [], k => rfl
  | x :: xs, k => by
    by_cases hx : x.pyEq k = true
    · simp [idxOf, hx]
    · simp [idxOf, hx, idxOf_isSome xs k]

theorem idxOf_lt : ∀ (l : List Expr) (k : Expr) (j : Nat), idxOf l k = some j → j < l.length
  | [], k, j, h => by simp [idxOf] at h
  | x :: xs, k, j, h => by
    by_cases hx : x.pyEq k = true
    · simp [idxOf, hx] at h; subst h; simp
    · simp only [idxOf, hx, Bool.false_eq_true, if_false] at h
      cases hj : idxOf xs k with
      | none => simp [hj] at h
      | some j' =>
        simp [hj] at h; subst h
        have := idxOf_lt xs k j' hj
        simp; omega

/-- one step of the look-up table comprehension `{K: idx for idx, K in enumerate(L)}` -/
def lutStep (ctx : C15Ctx) (kn : String) (st : C15Env) : Dict → C15Val → C15R Dict := fun acc item =>
  match c15Bind (.tup2 (.name "idx") (.name kn)) item st with
  | Option.none => throw C15Err.stuck
  | some st' => do
    let kv ← (C15E.var kn).eval ctx st'
    let vv ← (C15E.var "idx").eval ctx st'
    match kv.toExpr?, vv.toExpr? with
    | some ke, some ve => pure (c15DictSet acc ke ve)
    | _, _ => throw C15Err.stuck

theorem lut_fold (ctx : C15Ctx) (kn : String) (hkn : kn ≠ "idx") (st : C15Env) :
    ∀ (l : List Expr) (i : Nat) (acc : Dict), (∀ a ∈ acc, ∀ b ∈ l, a.1.pyEq b = false) → DistinctE l →
      List.foldlM (lutStep ctx kn st) acc (c15Enum i (l.map C15Val.ex)) = .ok (acc ++ lutFrom i l)
  | [], i, acc, _, _ => by simp [c15Enum, lutFrom, pure, Except.pure]
  | x :: l, i, acc, hacc, hd => by
    have hd' := List.pairwise_cons.1 hd
    have hstep : lutStep ctx kn st acc (.pair (.int i) (.ex x)) = .ok (acc ++ [(x, .const (.int i))]) := by
      simp only [lutStep, c15Bind, Option.bind, C15E.eval, c15Get_set_eq, bind, Except.bind, pure,
        Except.pure]
      rw [c15Get_set_ne _ hkn, c15Get_set_eq]
      simp only [C15Val.toExpr?]
      rw [dictSet_append acc x _ (fun a ha => hacc a ha x (by simp))]
    simp only [List.map_cons, c15Enum, List.foldlM_cons, hstep, bind, Except.bind, lutFrom]
    have ih := lut_fold ctx kn hkn st l (i + 1) (acc ++ [(x, Expr.const (Const.int (i : Int)))]) (by
      intro a ha b hb
      simp only [List.mem_append, List.mem_singleton] at ha
      rcases ha with ha | rfl
      · exact hacc a ha b (by simp [hb])
      · exact hd'.1 b hb) hd'.2
    rw [ih]
    simp

theorem eval_lut (ctx : C15Ctx) (st : C15Env) (kn src : String) (hkn : kn ≠ "idx") (l : List Expr)
    (hsrc : c15Get src st = some (.list (l.map .ex))) (hd : DistinctE l) :
    (C15E.dictComp (.var kn) (.var "idx") (.tup2 (.name "idx") (.name kn))
      (.call "enumerate" [.var src])).eval ctx st = .ok (.dict (lutFrom 0 l)) := by
  have hun : (C15E.dictComp (.var kn) (.var "idx") (.tup2 (.name "idx") (.name kn))
      (.call "enumerate" [.var src])).eval ctx st = (do
        let it ← (C15E.call "enumerate" [.var src]).eval ctx st
        match c15Items st it with
        | Option.none => throw C15Err.stuck
        | some items =>
          let d ← items.foldlM (lutStep ctx kn st) []
          pure (C15Val.dict d)) := by
    simp only [C15E.eval]
    rfl
  rw [hun, eval_enumerate ctx st src _ hsrc]
  simp only [bind, Except.bind, c15Items, lut_fold ctx kn hkn st l 0 [] (by simp) hd]
  simp [pure, Except.pure]

/-! ### the preamble: unknowns, the parameter set -/

def varStep (ctx : C15Ctx) (st : C15Env) : C15Val → C15R C15Val := fun item =>
  match c15Bind (.name "u") item st with
  | Option.none => throw C15Err.stuck
  | some st' => (C15E.mkNode "Variable" [.var "u"]).eval ctx st'

theorem vars_mapM (ctx : C15Ctx) (st : C15Env) : ∀ names : List String,
    (names.map C15Val.str).mapM (varStep ctx st) = .ok ((names.map Expr.var).map C15Val.ex)
  | [] => rfl
  | n :: ns => by
    have h1 : varStep ctx st (.str n) = .ok (.ex (.var n)) := by
      simp [varStep, c15Bind, C15E.eval, C15E.evalL, c15Get_set_eq, bind, Except.bind, pure, Except.pure,
        c15MkNode]
    simp only [List.map_cons, List.mapM_cons, h1, vars_mapM ctx st ns, bind, Except.bind, pure,
      Except.pure]

theorem eval_varsComp (ctx : C15Ctx) (st : C15Env) (names : List String)
    (h : c15Get "unknowns" st = some (.list (names.map .str))) :
    (C15E.listComp (.mkNode "Variable" [.var "u"]) (.name "u") (.var "unknowns")).eval ctx st =
      .ok (.list ((names.map Expr.var).map .ex)) := by
  have hun : (C15E.listComp (.mkNode "Variable" [.var "u"]) (.name "u") (.var "unknowns")).eval ctx st =
      (do
        let it ← (C15E.var "unknowns").eval ctx st
        match c15Items st it with
        | Option.none => throw C15Err.stuck
        | some items =>
          let l ← items.mapM (varStep ctx st)
          pure (C15Val.list l)) := by
    simp only [C15E.eval]
    rfl
  rw [hun, eval_var ctx _ st _ h]
  simp only [bind, Except.bind, c15Items, vars_mapM]
  rfl

/-- the parameter set as the loop builds it (`parameters.update(dep_map(lhs) - unknowns_set)`, then
the same for `rhs`, equation by equation) -/
def paramSetL (U : List Expr) : List Expr → List (Expr × Expr) → CR (List Expr)
  | acc, [] => pure acc
  | acc, (l, r) :: rest => do
      let dl ← (deps compositeFlags l).mapError depErr
      let acc1 := unionPy acc (dl.filter fun e => !(U.any fun u => u.pyEq e))
      let dr ← (deps compositeFlags r).mapError depErr
      paramSetL U (unionPy acc1 (dr.filter fun e => !(U.any fun u => u.pyEq e))) rest

def expParamBody : List C15S := [
  .setUpdate "parameters" (.bin .sub (.callVar "dep_map" [.var "lhs"]) (.var "unknowns_set")),
  .setUpdate "parameters" (.bin .sub (.callVar "dep_map" [.var "rhs"]) (.var "unknowns_set"))]

def eqVal (lr : Expr × Expr) : C15Val := .pair (.ex lr.1) (.ex lr.2)

def paramVars : List String := ["lhs", "rhs", "parameters"]

theorem exec_update (ctx : C15Ctx) (st : C15Env) (x : String) (U acc : List Expr) (e : Expr)
    (hx : c15Get x st = some (.ex e)) (hd : c15Get "dep_map" st = some (.depMapper compositeFlags))
    (hU : c15Get "unknowns_set" st = some (.eset U)) (hp : c15Get "parameters" st = some (.eset acc)) :
    C15S.exec ctx (.setUpdate "parameters" (.bin .sub (.callVar "dep_map" [.var x])
        (.var "unknowns_set"))) st =
      match (deps compositeFlags e).mapError depErr with
      | .ok dl => .ok (c15Set "parameters"
          (.eset (unionPy acc (dl.filter fun e => !(U.any fun u => u.pyEq e)))) st)
      | .error err => .err (.py err) := by
  cases hde : deps compositeFlags e with
  | error err =>
    simp [C15S.exec, C15E.eval, C15E.evalL, hx, hd, hU, hp, bind, Except.bind, pure, Except.pure,
      c15CallObj, C15Val.toExpr?, hde, c15DepErr, c15OfR, Except.mapError, throw, throwThe,
      MonadExceptOf.throw]
  | ok dl =>
    simp [C15S.exec, C15E.eval, C15E.evalL, hx, hd, hU, hp, bind, Except.bind, pure, Except.pure,
      c15CallObj, C15Val.toExpr?, hde, c15Bin, c15OfR, Except.mapError]

theorem param_loop (ctx : C15Ctx) (U : List Expr) : ∀ (eqs : List (Expr × Expr)) (st : C15Env)
    (acc : List Expr), c15Get "dep_map" st = some (.depMapper compositeFlags) →
    c15Get "unknowns_set" st = some (.eset U) → c15Get "parameters" st = some (.eset acc) →
    match paramSetL U acc eqs with
    | .ok S => ∃ st', c15For (forStep ctx (.tup2 (.name "lhs") (.name "rhs")) expParamBody)
          (eqs.map eqVal) st = .ok st' ∧ c15Get "parameters" st' = some (.eset S) ∧
        ∀ x, x ∉ paramVars → c15Get x st' = c15Get x st
    | .error e => c15For (forStep ctx (.tup2 (.name "lhs") (.name "rhs")) expParamBody)
          (eqs.map eqVal) st = .err (.py e)
  | [], st, acc, _, _, hp => by
    simp only [paramSetL, pure, Except.pure, List.map_nil, c15For]
    exact ⟨st, rfl, hp, fun _ _ => rfl⟩
  | (l, r) :: rest, st, acc, hd, hU, hp => by
    generalize hst1 : c15Set "rhs" (.ex r) (c15Set "lhs" (.ex l) st) = st1
    have hd1 : c15Get "dep_map" st1 = some (.depMapper compositeFlags) := by
      subst hst1; simp [c15Get_set, hd]
    have hU1 : c15Get "unknowns_set" st1 = some (.eset U) := by subst hst1; simp [c15Get_set, hU]
    have hp1 : c15Get "parameters" st1 = some (.eset acc) := by subst hst1; simp [c15Get_set, hp]
    have hl1 : c15Get "lhs" st1 = some (.ex l) := by subst hst1; simp [c15Get_set]
    have hr1 : c15Get "rhs" st1 = some (.ex r) := by subst hst1; simp [c15Get_set]
    have hfr1 : ∀ x, x ∉ paramVars → c15Get x st1 = c15Get x st := by
      intro x hx
      subst hst1
      rw [c15Get_set_ne, c15Get_set_ne]
      · intro he; subst he; simp [paramVars] at hx
      · intro he; subst he; simp [paramVars] at hx
    have hfs : forStep ctx (.tup2 (.name "lhs") (.name "rhs")) expParamBody (eqVal (l, r)) st =
        C15S.execL ctx expParamBody st1 := by
      simp only [forStep, eqVal, c15Bind, Option.bind, hst1]
    simp only [List.map_cons, c15For, hfs, paramSetL, bind, Except.bind]
    have e1 := exec_update ctx st1 "lhs" U acc l hl1 hd1 hU1 hp1
    cases hdl : (deps compositeFlags l).mapError depErr with
    | error err =>
      simp only [hdl] at e1
      simp [expParamBody, C15S.execL, e1]
    | ok dl =>
      simp only [hdl] at e1
      generalize hst2 : c15Set "parameters"
        (.eset (unionPy acc (dl.filter fun e => !(U.any fun u => u.pyEq e)))) st1 = st2 at e1
      have e2 := exec_update ctx st2 "rhs" U
        (unionPy acc (dl.filter fun e => !(U.any fun u => u.pyEq e))) r
        (by subst hst2; simp [c15Get_set, hr1])
        (by subst hst2; simp [c15Get_set, hd1]) (by subst hst2; simp [c15Get_set, hU1])
        (by subst hst2; simp [c15Get_set])
      cases hdr : (deps compositeFlags r).mapError depErr with
      | error err =>
        simp only [hdr] at e2
        simp [expParamBody, C15S.execL, e1, e2]
      | ok dr =>
        simp only [hdr] at e2
        generalize hst3 : c15Set "parameters" (.eset (unionPy
          (unionPy acc (dl.filter fun e => !(U.any fun u => u.pyEq e)))
          (dr.filter fun e => !(U.any fun u => u.pyEq e)))) st2 = st3 at e2
        have hexec : C15S.execL ctx expParamBody st1 = .ok st3 := by
          simp [expParamBody, C15S.execL, e1, e2]
        simp only [hexec]
        have hfr3 : ∀ x, x ∉ paramVars → c15Get x st3 = c15Get x st := by
          intro x hx
          subst hst3 hst2
          rw [c15Get_set_ne, c15Get_set_ne, hfr1 x hx]
          · intro he; subst he; simp [paramVars] at hx
          · intro he; subst he; simp [paramVars] at hx
        have ih := param_loop ctx U rest st3 (unionPy
            (unionPy acc (dl.filter fun e => !(U.any fun u => u.pyEq e)))
            (dr.filter fun e => !(U.any fun u => u.pyEq e)))
          (by rw [hfr3 _ (by simp [paramVars]), hd]) (by rw [hfr3 _ (by simp [paramVars]), hU])
          (by subst hst3; simp [c15Get_set])
        cases hps : paramSetL U (unionPy (unionPy acc (dl.filter fun e => !(U.any fun u => u.pyEq e)))
          (dr.filter fun e => !(U.any fun u => u.pyEq e))) rest with
        | error err => simp only [hps] at ih; exact ih
        | ok S =>
          simp only [hps] at ih
          obtain ⟨st', h1, h2, h3⟩ := ih
          exact ⟨st', h1, h2, fun x hx => by rw [h3 x hx, hfr3 x hx]⟩

/-! ### the matrix assembly -/

/-- the bindings the preamble leaves and no later statement changes -/
structure SSt (st : C15Env) (U S params : List Expr) : Prop where
  hU : c15Get "unknowns" st = some (.list (U.map .ex))
  hUs : c15Get "unknowns_set" st = some (.eset U)
  hUl : c15Get "unknown_idx_lut" st = some (.dict (lutFrom 0 U))
  hP : c15Get "parameters" st = some (.eset S)
  hPl : c15Get "parameters_list" st = some (.list (params.map .ex))
  hPlut : c15Get "parameter_idx_lut" st = some (.dict (lutFrom 0 params))
  hcc : c15Get "coeff_coll" st = some (.collector none)

def sCore : List String := ["unknowns", "unknowns_set", "unknown_idx_lut", "parameters",
  "parameters_list", "parameter_idx_lut", "coeff_coll"]

theorem SSt.set {st : C15Env} {U S params : List Expr} (h : SSt st U S params) (x : String)
    (v : C15Val) (hx : x ∉ sCore) : SSt (c15Set x v st) U S params := by
  have hne : ∀ y ∈ sCore, x ≠ y := fun y hy he => hx (he ▸ hy)
  constructor
  · rw [c15Get_set_ne _ (hne _ (by simp [sCore]))]; exact h.hU
  · rw [c15Get_set_ne _ (hne _ (by simp [sCore]))]; exact h.hUs
  · rw [c15Get_set_ne _ (hne _ (by simp [sCore]))]; exact h.hUl
  · rw [c15Get_set_ne _ (hne _ (by simp [sCore]))]; exact h.hP
  · rw [c15Get_set_ne _ (hne _ (by simp [sCore]))]; exact h.hPl
  · rw [c15Get_set_ne _ (hne _ (by simp [sCore]))]; exact h.hPlut
  · rw [c15Get_set_ne _ (hne _ (by simp [sCore]))]; exact h.hcc

theorem SSt.frame {st st' : C15Env} {U S params : List Expr} (h : SSt st U S params)
    (hf : ∀ x ∈ sCore, c15Get x st' = c15Get x st) : SSt st' U S params := by
  constructor
  · rw [hf _ (by simp [sCore])]; exact h.hU
  · rw [hf _ (by simp [sCore])]; exact h.hUs
  · rw [hf _ (by simp [sCore])]; exact h.hUl
  · rw [hf _ (by simp [sCore])]; exact h.hP
  · rw [hf _ (by simp [sCore])]; exact h.hPl
  · rw [hf _ (by simp [sCore])]; exact h.hPlut
  · rw [hf _ (by simp [sCore])]; exact h.hcc

/-- the outcome of `X[i, j] += v` given the value of `v` -/
def accumOut (R : C15R C15Val) (f : Int → C15Env) : C15Out :=
  match R with
  | .error e => .err e
  | .ok vv => match vv.toInt? with
    | Option.none => .err (.py .noClaim)
    | some w => .ok (f w)

/-- `X[i, j] += v` on an integer array -/
theorem exec_accum (ctx : C15Ctx) (st : C15Env) (x : String) (i j v : C15E) (cols : Nat)
    (rows : List Row) (k : Nat) (jv : C15Val) (jj : Int) (col : Nat) (r : Row)
    (hx : c15Get x st = some (.arr cols rows)) (hi : i.eval ctx st = .ok (.int k))
    (hj : j.eval ctx st = .ok jv) (hjv : jv.toInt? = some jj) (hcol : c15ColIdx? cols jj = some col)
    (hr : rows[k]? = some r) :
    C15S.exec ctx (.augSub2 x i j .add v) st =
      accumOut (v.eval ctx st) fun w =>
        c15Set x (.arr cols (rows.set k (r.set col (rowGet r col + w)))) st := by
  have hnk : ¬ ((k : Int) < 0) := by omega
  have hki : (C15Val.int (k : Int)).toInt? = some (k : Int) := rfl
  simp only [C15S.exec, hi, hj, hx, bind, Except.bind, hki, hjv, hnk, if_false,
    Int.toNat_natCast, hr, hcol, accumOut]
  cases v.eval ctx st with
  | error e => rfl
  | ok vv =>
    simp only
    cases vv.toInt? with
    | none => rfl
    | some w => simp [c15IntOp, pure, Except.pure, c15OfR, bind, Except.bind]

/-- what `assembleSide` does with one entry `(key, coeff)` of a coefficient dictionary -/
def assembleEntry (unknowns params : List Expr) (factor : Int) (row : ARow) (key coeff : Expr) :
    CR ARow :=
  match idxOf unknowns key with
  | some j => do
      let v ← intOf (← pyBin .mul (.const (.int factor)) coeff)
      pure (row.1.set j (rowGet row.1 j + v), row.2)
  | none =>
    match idxOf params key with
    | some j => do
        let v ← intOf (← pyBin .mul (.const (.int (-factor))) coeff)
        pure (row.1, row.2.set j (rowGet row.2 j + v))
    | none =>
      if key.pyEq one then do
        let v ← intOf (← pyBin .mul (.const (.int (-factor))) coeff)
        pure (row.1, row.2.set params.length (rowGet row.2 params.length + v))
      else throw .keyNotUnderstood

theorem assembleSide_cons (unknowns params : List Expr) (factor : Int) (row : ARow) (key coeff : Expr)
    (rest : Dict) :
    assembleSide unknowns params factor row ((key, coeff) :: rest) =
      (assembleEntry unknowns params factor row key coeff) >>= fun row' =>
        assembleSide unknowns params factor row' rest := by
  simp only [assembleSide, assembleEntry]
  cases idxOf unknowns key with
  | some j =>
    simp only [bind, Except.bind]
    cases pyBin .mul (.const (.int factor)) coeff with
    | error e => rfl
    | ok t => cases hio : intOf t <;> simp [pure, Except.pure, hio]
  | none =>
    cases idxOf params key with
    | some j =>
      simp only [bind, Except.bind]
      cases pyBin .mul (.const (.int (-factor))) coeff with
      | error e => rfl
      | ok t => cases hio : intOf t <;> simp [pure, Except.pure, hio]
    | none =>
      by_cases hk : key.pyEq one = true
      · simp only [hk, if_true, bind, Except.bind]
        cases pyBin .mul (.const (.int (-factor))) coeff with
        | error e => rfl
        | ok t => cases hio : intOf t <;> simp [pure, Except.pure, hio]
      · simp only [hk, Bool.false_eq_true, if_false]
        rfl

theorem toInt_intOf (t : Expr) :
    (match (C15Val.ex t).toInt? with
      | none => (Except.error CErr.noClaim : CR Int)
      | some w => .ok w) = intOf t := by
  cases t with
  | const c => cases c <;> rfl
  | _ => rfl

def expKeyBody : List C15S := [
  .ifThen (.in_ (.var "key") (.var "unknowns_set"))
    [.augSub2 "mat" (.var "i_eqn") (.index (.var "unknown_idx_lut") (.var "key")) .add
      (.bin .mul (.var "lhs_factor") (.var "coeff"))]
    [.ifThen (.in_ (.var "key") (.var "parameters"))
      [.augSub2 "rhs_mat" (.var "i_eqn") (.index (.var "parameter_idx_lut") (.var "key")) .add
        (.bin .mul (.neg (.var "lhs_factor")) (.var "coeff"))]
      [.ifThen (.cmp .eq (.var "key") (.lit 1))
        [.augSub2 "rhs_mat" (.var "i_eqn") (.lit (-1)) .add
          (.bin .mul (.neg (.var "lhs_factor")) (.var "coeff"))]
        [.raise_ "ValueError" "key '{}' not understood"]]]]

/-- the assembly's view of the state: the two arrays, the current equation and side -/
structure ASt (st : C15Env) (n P : Nat) (rowsM rowsR : List Row) (k : Nat) (f : Int) : Prop where
  hmat : c15Get "mat" st = some (.arr n rowsM)
  hrhs : c15Get "rhs_mat" st = some (.arr (P + 1) rowsR)
  hi : c15Get "i_eqn" st = some (.int k)
  hf : c15Get "lhs_factor" st = some (.int f)

theorem eval_factor_mul (ctx : C15Ctx) (st : C15Env) (f : Int) (c : Expr)
    (hf : c15Get "lhs_factor" st = some (.int f)) (hc : c15Get "coeff" st = some (.ex c)) :
    (C15E.bin .mul (.var "lhs_factor") (.var "coeff")).eval ctx st =
      (c15LiftCR (pyBin .mul (.const (.int f)) c)).map .ex := by
  simp only [eval_bin, eval_var ctx _ st _ hf, eval_var ctx _ st _ hc, bind, Except.bind]
  exact c15Bin_scal_ex st .mul (.int f) _ c (Or.inr ⟨f, rfl, rfl⟩)

theorem eval_negfactor_mul (ctx : C15Ctx) (st : C15Env) (f : Int) (c : Expr)
    (hf : c15Get "lhs_factor" st = some (.int f)) (hc : c15Get "coeff" st = some (.ex c)) :
    (C15E.bin .mul (.neg (.var "lhs_factor")) (.var "coeff")).eval ctx st =
      (c15LiftCR (pyBin .mul (.const (.int (-f))) c)).map .ex := by
  have hneg : (C15E.neg (.var "lhs_factor")).eval ctx st = .ok (.int (-f)) := by
    simp [C15E.eval, hf, bind, Except.bind, pure, Except.pure]
  simp only [eval_bin, hneg, eval_var ctx _ st _ hc, bind, Except.bind]
  exact c15Bin_scal_ex st .mul (.int (-f)) _ c (Or.inr ⟨-f, rfl, rfl⟩)

/-- the result of `accumOut` on a product `factor*coeff` -/
theorem accumOut_mul (F : Int) (c : Expr) (g : Int → C15Env) :
    accumOut ((c15LiftCR (pyBin .mul (.const (.int F)) c)).map .ex) g =
      match (do let v ← intOf (← pyBin .mul (.const (.int F)) c); pure v : CR Int) with
      | .ok w => .ok (g w)
      | .error e => .err (.py e) := by
  cases hm : pyBin .mul (.const (.int F)) c with
  | error e => rfl
  | ok t =>
    have := toInt_intOf t
    simp only [accumOut, c15LiftCR, Except.map, bind, Except.bind, pure, Except.pure]
    cases hi : (C15Val.ex t).toInt? with
    | none => simp only [hi] at this; rw [← this]
    | some w => simp only [hi] at this; rw [← this]

theorem colIdx_nat (cols j : Nat) (h : j < cols) : c15ColIdx? cols (j : Int) = some j := by
  have : ¬ ((j : Int) < 0) := by omega
  simp [c15ColIdx?, this, h]

theorem colIdx_last (P : Nat) : c15ColIdx? (P + 1) (-1) = some P := by
  simp [c15ColIdx?]

theorem key_step (ctx : C15Ctx) (st : C15Env) (U S params : List Expr) (n P : Nat)
    (rowsM rowsR : List Row) (k : Nat) (f : Int) (key c : Expr) (a b : Row)
    (hs : SSt st U S params) (ha : ASt st n P rowsM rowsR k f)
    (hkey : c15Get "key" st = some (.ex key)) (hc : c15Get "coeff" st = some (.ex c))
    (hra : rowsM[k]? = some a) (hrb : rowsR[k]? = some b) (hperm : params.Perm S)
    (hn : U.length = n) (hP : params.length = P) :
    match assembleEntry U params f (a, b) key c with
    | .ok row' => ∃ st', C15S.execL ctx expKeyBody st = .ok st' ∧
        c15Get "mat" st' = some (.arr n (rowsM.set k row'.1)) ∧
        c15Get "rhs_mat" st' = some (.arr (P + 1) (rowsR.set k row'.2)) ∧
        ∀ x, x ≠ "mat" → x ≠ "rhs_mat" → c15Get x st' = c15Get x st
    | .error e => C15S.execL ctx expKeyBody st = .err (.py e) := by
  have hc1 : c15Cond ctx (.in_ (.var "key") (.var "unknowns_set")) st = .ok (idxOf U key).isSome := by
    simp [c15Cond, C15E.eval, hkey, hs.hUs, bind, Except.bind, pure, Except.pure, c15In,
      C15Val.toExpr?, c15Truthy, idxOf_isSome]
  have hc2 : c15Cond ctx (.in_ (.var "key") (.var "parameters")) st = .ok (idxOf params key).isSome := by
    simp [c15Cond, C15E.eval, hkey, hs.hP, bind, Except.bind, pure, Except.pure, c15In,
      C15Val.toExpr?, c15Truthy, idxOf_isSome, hperm.any_eq]
  have hc3 : c15Cond ctx (.cmp .eq (.var "key") (.lit 1)) st = .ok (key.pyEq one) := by
    simp [c15Cond, C15E.eval, hkey, bind, Except.bind, pure, Except.pure, c15Cmp, c15ValEq,
      C15Val.toExpr?, c15Truthy, one]
  have hi : (C15E.var "i_eqn").eval ctx st = .ok (.int k) := eval_var ctx _ st _ ha.hi
  have hsa : rowsM.set k a = rowsM := set_self rowsM k a hra
  have hsb : rowsR.set k b = rowsR := set_self rowsR k b hrb
  simp only [expKeyBody, execL_single, exec_ifThen, hc1, assembleEntry]
  cases hu : idxOf U key with
  | some j =>
    have hj : (C15E.index (.var "unknown_idx_lut") (.var "key")).eval ctx st =
        .ok (.ex (.const (.int (j : Int)))) := by
      have := find_lutFrom U 0 key
      simp only [hu, Option.map_some, Nat.zero_add] at this
      simp [C15E.eval, hs.hUl, hkey, bind, Except.bind, pure, Except.pure, C15Val.toExpr?, this]
    have e := exec_accum ctx st "mat" (.var "i_eqn") _ (.bin .mul (.var "lhs_factor") (.var "coeff")) n
      rowsM k _ j j a ha.hmat hi hj rfl (colIdx_nat n j (by rw [← hn]; exact idxOf_lt U key j hu)) hra
    rw [eval_factor_mul ctx st f c ha.hf hc, accumOut_mul] at e
    simp only [Option.isSome_some, execL_single, e]
    cases hv : (do let v ← intOf (← pyBin .mul (.const (.int f)) c); pure v : CR Int) with
    | error err =>
      simp only [bind, Except.bind, pure, Except.pure] at hv ⊢
      cases hm : pyBin .mul (.const (.int f)) c with
      | error e2 => simp [hm] at hv ⊢; exact hv.symm
      | ok t =>
        simp only [hm] at hv ⊢
        cases hio : intOf t with
        | error e3 => simp [hio] at hv ⊢; exact hv.symm
        | ok w => simp [hio] at hv
    | ok w =>
      simp only [bind, Except.bind, pure, Except.pure] at hv ⊢
      cases hm : pyBin .mul (.const (.int f)) c with
      | error e2 => simp [hm] at hv
      | ok t =>
        simp only [hm] at hv ⊢
        cases hio : intOf t with
        | error e3 => simp [hio] at hv
        | ok w' =>
          simp [hio] at hv; subst hv
          refine ⟨_, rfl, by simp [c15Get_set], ?_, ?_⟩
          · rw [c15Get_set_ne _ (by decide), hsb]; exact ha.hrhs
          · intro x hx _; rw [c15Get_set_ne _ (Ne.symm hx)]
  | none =>
    simp only [Option.isSome_none, execL_single, exec_ifThen, hc2]
    cases hp : idxOf params key with
    | some j =>
      have hj : (C15E.index (.var "parameter_idx_lut") (.var "key")).eval ctx st =
          .ok (.ex (.const (.int (j : Int)))) := by
        have := find_lutFrom params 0 key
        simp only [hp, Option.map_some, Nat.zero_add] at this
        simp [C15E.eval, hs.hPlut, hkey, bind, Except.bind, pure, Except.pure, C15Val.toExpr?, this]
      have e := exec_accum ctx st "rhs_mat" (.var "i_eqn") _
        (.bin .mul (.neg (.var "lhs_factor")) (.var "coeff")) (P + 1) rowsR k _ j j b ha.hrhs hi hj rfl
        (colIdx_nat (P + 1) j (by have := idxOf_lt params key j hp; omega)) hrb
      rw [eval_negfactor_mul ctx st f c ha.hf hc, accumOut_mul] at e
      simp only [Option.isSome_some, execL_single, e]
      cases hv : (do let v ← intOf (← pyBin .mul (.const (.int (-f))) c); pure v : CR Int) with
      | error err =>
        simp only [bind, Except.bind, pure, Except.pure] at hv ⊢
        cases hm : pyBin .mul (.const (.int (-f))) c with
        | error e2 => simp [hm] at hv ⊢; exact hv.symm
        | ok t =>
          simp only [hm] at hv ⊢
          cases hio : intOf t with
          | error e3 => simp [hio] at hv ⊢; exact hv.symm
          | ok w => simp [hio] at hv
      | ok w =>
        simp only [bind, Except.bind, pure, Except.pure] at hv ⊢
        cases hm : pyBin .mul (.const (.int (-f))) c with
        | error e2 => simp [hm] at hv
        | ok t =>
          simp only [hm] at hv ⊢
          cases hio : intOf t with
          | error e3 => simp [hio] at hv
          | ok w' =>
            simp [hio] at hv; subst hv
            refine ⟨_, rfl, ?_, by simp [c15Get_set], ?_⟩
            · rw [c15Get_set_ne _ (by decide), hsa]; exact ha.hmat
            · intro x _ hx; rw [c15Get_set_ne _ (Ne.symm hx)]
    | none =>
      simp only [Option.isSome_none, execL_single, exec_ifThen, hc3]
      by_cases hk1 : key.pyEq one = true
      · have hj : (C15E.lit (-1)).eval ctx st = .ok (.int (-1)) := eval_lit ctx _ st
        have e := exec_accum ctx st "rhs_mat" (.var "i_eqn") (.lit (-1))
          (.bin .mul (.neg (.var "lhs_factor")) (.var "coeff")) (P + 1) rowsR k _ (-1) P b ha.hrhs hi hj
          rfl (colIdx_last P) hrb
        rw [eval_negfactor_mul ctx st f c ha.hf hc, accumOut_mul] at e
        simp only [hk1, if_true, execL_single, e, hP]
        cases hv : (do let v ← intOf (← pyBin .mul (.const (.int (-f))) c); pure v : CR Int) with
        | error err =>
          simp only [bind, Except.bind, pure, Except.pure] at hv ⊢
          cases hm : pyBin .mul (.const (.int (-f))) c with
          | error e2 => simp [hm] at hv ⊢; exact hv.symm
          | ok t =>
            simp only [hm] at hv ⊢
            cases hio : intOf t with
            | error e3 => simp [hio] at hv ⊢; exact hv.symm
            | ok w => simp [hio] at hv
        | ok w =>
          simp only [bind, Except.bind, pure, Except.pure] at hv ⊢
          cases hm : pyBin .mul (.const (.int (-f))) c with
          | error e2 => simp [hm] at hv
          | ok t =>
            simp only [hm] at hv ⊢
            cases hio : intOf t with
            | error e3 => simp [hio] at hv
            | ok w' =>
              simp [hio] at hv; subst hv
              refine ⟨_, rfl, ?_, by simp [c15Get_set], ?_⟩
              · rw [c15Get_set_ne _ (by decide), hsa]; exact ha.hmat
              · intro x _ hx; rw [c15Get_set_ne _ (Ne.symm hx)]
      · simp [hk1, C15S.execL, C15S.exec, c15ErrOf, throw, throwThe, MonadExceptOf.throw]

def sideVars : List String := ["mat", "rhs_mat", "key", "coeff"]

theorem side_loop (ctx : C15Ctx) (U S params : List Expr) (n P k : Nat) (f : Int)
    (hperm : params.Perm S) (hn : U.length = n) (hP : params.length = P) :
    ∀ (d : Dict) (st : C15Env) (rowsM rowsR : List Row) (a b : Row), SSt st U S params →
      ASt st n P rowsM rowsR k f → rowsM[k]? = some a → rowsR[k]? = some b →
      match assembleSide U params f (a, b) d with
      | .ok row' => ∃ st', c15For (forStep ctx (.tup2 (.name "key") (.name "coeff")) expKeyBody)
            (itemsOf d) st = .ok st' ∧ SSt st' U S params ∧
          ASt st' n P (rowsM.set k row'.1) (rowsR.set k row'.2) k f ∧
          ∀ x, x ∉ sideVars → c15Get x st' = c15Get x st
      | .error e => c15For (forStep ctx (.tup2 (.name "key") (.name "coeff")) expKeyBody)
            (itemsOf d) st = .err (.py e)
  | [], st, rowsM, rowsR, a, b, hs, ha, hra, hrb => by
    simp only [assembleSide, pure, Except.pure, itemsOf, List.map_nil, c15For]
    refine ⟨st, rfl, hs, ?_, fun _ _ => rfl⟩
    rw [set_self rowsM k a hra, set_self rowsR k b hrb]; exact ha
  | (key, c) :: rest, st, rowsM, rowsR, a, b, hs, ha, hra, hrb => by
    generalize hst1 : c15Set "coeff" (.ex c) (c15Set "key" (.ex key) st) = st1
    have hs1 : SSt st1 U S params := by
      subst hst1; exact (hs.set _ _ (by simp [sCore])).set _ _ (by simp [sCore])
    have ha1 : ASt st1 n P rowsM rowsR k f := by
      subst hst1
      exact ⟨by simp [c15Get_set, ha.hmat], by simp [c15Get_set, ha.hrhs], by simp [c15Get_set, ha.hi],
        by simp [c15Get_set, ha.hf]⟩
    have hfr1 : ∀ x, x ∉ sideVars → c15Get x st1 = c15Get x st := by
      intro x hx
      subst hst1
      rw [c15Get_set_ne, c15Get_set_ne]
      · intro he; subst he; simp [sideVars] at hx
      · intro he; subst he; simp [sideVars] at hx
    have hks := key_step ctx st1 U S params n P rowsM rowsR k f key c a b hs1 ha1
      (by subst hst1; simp [c15Get_set]) (by subst hst1; simp [c15Get_set]) hra hrb hperm hn hP
    have hfs : forStep ctx (.tup2 (.name "key") (.name "coeff")) expKeyBody
        (.pair (.ex key) (.ex c)) st = C15S.execL ctx expKeyBody st1 := by
      simp only [forStep, c15Bind, Option.bind, hst1]
    simp only [itemsOf, List.map_cons, c15For, hfs, assembleSide_cons, bind, Except.bind]
    cases he : assembleEntry U params f (a, b) key c with
    | error e => simp only [he] at hks; simp [hks]
    | ok row1 =>
      simp only [he] at hks
      obtain ⟨st2, e2, hm2, hr2, hfr2⟩ := hks
      simp only [e2]
      have hkM : k < rowsM.length := (List.getElem?_eq_some_iff.1 hra).1
      have hkR : k < rowsR.length := (List.getElem?_eq_some_iff.1 hrb).1
      have hs2 : SSt st2 U S params := hs1.frame (fun x hx => hfr2 x
        (by intro he; subst he; simp [sCore] at hx) (by intro he; subst he; simp [sCore] at hx))
      have ha2 : ASt st2 n P (rowsM.set k row1.1) (rowsR.set k row1.2) k f :=
        ⟨hm2, hr2, by rw [hfr2 _ (by decide) (by decide)]; exact ha1.hi,
          by rw [hfr2 _ (by decide) (by decide)]; exact ha1.hf⟩
      have ih := side_loop ctx U S params n P k f hperm hn hP rest st2 _ _ row1.1 row1.2 hs2 ha2
        (by simp [List.getElem?_set, hkM]) (by simp [List.getElem?_set, hkR])
      have hrow : (row1.1, row1.2) = row1 := rfl
      rw [hrow] at ih
      simp only [itemsOf] at ih
      cases hr : assembleSide U params f row1 rest with
      | error e => simp only [hr] at ih; exact ih
      | ok row' =>
        simp only [hr, List.set_set] at ih
        obtain ⟨st3, e3, hs3, ha3, hfr3⟩ := ih
        refine ⟨st3, e3, hs3, ha3, ?_⟩
        intro x hx
        rw [hfr3 x hx, hfr2 x (by intro he; subst he; simp [sideVars] at hx)
          (by intro he; subst he; simp [sideVars] at hx), hfr1 x hx]

def expSideBody : List C15S := [
  .forIn (.tup2 (.name "key") (.name "coeff")) (.meth (.var "coeffs") "items") expKeyBody]

def expSidesList : C15E :=
  .listLit [.tuple2 (.lit 1) (.callVar "coeff_coll" [.var "lhs"]),
    .tuple2 (.lit (-1)) (.callVar "coeff_coll" [.var "rhs"])]

def expEqnBody : List C15S := [
  .forIn (.tup2 (.name "lhs_factor") (.name "coeffs")) expSidesList expSideBody]

theorem eval_callVar (ctx : C15Ctx) (f : String) (args : List C15E) (st : C15Env) :
    (C15E.callVar f args).eval ctx st = (match c15Get f st with
      | some fv => do c15CallObj ctx fv (← C15E.evalL ctx args st)
      | Option.none => throw .stuck) := by
  simp only [C15E.eval]
  rfl

theorem eval_listLit (ctx : C15Ctx) (es : List C15E) (st : C15Env) :
    (C15E.listLit es).eval ctx st = (do pure (.list (← C15E.evalL ctx es st))) := by
  simp only [C15E.eval]

theorem eval_tuple2 (ctx : C15Ctx) (a b : C15E) (st : C15Env) :
    (C15E.tuple2 a b).eval ctx st = (do
      let x ← a.eval ctx st
      let y ← b.eval ctx st
      pure (.pair x y)) := by
  simp only [C15E.eval]

def eqnVars : List String := ["mat", "rhs_mat", "key", "coeff", "lhs_factor", "coeffs"]

/-- the arrays and the equation index, before a side is chosen -/
structure BSt (st : C15Env) (n P : Nat) (rowsM rowsR : List Row) (k : Nat) : Prop where
  hmat : c15Get "mat" st = some (.arr n rowsM)
  hrhs : c15Get "rhs_mat" st = some (.arr (P + 1) rowsR)
  hi : c15Get "i_eqn" st = some (.int k)

theorem side_exec (ctx : C15Ctx) (U S params : List Expr) (n P k : Nat) (f : Int)
    (hperm : params.Perm S) (hn : U.length = n) (hP : params.length = P) (d : Dict) (st : C15Env)
    (rowsM rowsR : List Row) (a b : Row) (hs : SSt st U S params) (hb : BSt st n P rowsM rowsR k)
    (hra : rowsM[k]? = some a) (hrb : rowsR[k]? = some b) :
    match assembleSide U params f (a, b) d with
    | .ok row' => ∃ st', forStep ctx (.tup2 (.name "lhs_factor") (.name "coeffs")) expSideBody
          (.pair (.int f) (.dict d)) st = .ok st' ∧ SSt st' U S params ∧
        BSt st' n P (rowsM.set k row'.1) (rowsR.set k row'.2) k ∧
        ∀ x, x ∉ eqnVars → c15Get x st' = c15Get x st
    | .error e => forStep ctx (.tup2 (.name "lhs_factor") (.name "coeffs")) expSideBody
          (.pair (.int f) (.dict d)) st = .err (.py e) := by
  generalize hst1 : c15Set "coeffs" (.dict d) (c15Set "lhs_factor" (.int f) st) = st1
  have hs1 : SSt st1 U S params := by
    subst hst1; exact (hs.set _ _ (by simp [sCore])).set _ _ (by simp [sCore])
  have ha1 : ASt st1 n P rowsM rowsR k f := by
    subst hst1
    exact ⟨by simp [c15Get_set, hb.hmat], by simp [c15Get_set, hb.hrhs], by simp [c15Get_set, hb.hi],
      by simp [c15Get_set]⟩
  have hfs : forStep ctx (.tup2 (.name "lhs_factor") (.name "coeffs")) expSideBody
      (.pair (.int f) (.dict d)) st =
      c15For (forStep ctx (.tup2 (.name "key") (.name "coeff")) expKeyBody) (itemsOf d) st1 := by
    simp only [forStep, c15Bind, Option.bind, hst1, expSideBody, execL_single, exec_forIn]
    have : (C15E.meth (.var "coeffs") "items").eval ctx st1 = .ok (.list (itemsOf d)) := by
      subst hst1; simp [C15E.eval, c15Get_set, bind, Except.bind, pure, Except.pure, itemsOf]
    simp only [this, c15Items]
  rw [hfs]
  have hl := side_loop ctx U S params n P k f hperm hn hP d st1 rowsM rowsR a b hs1 ha1 hra hrb
  cases hr : assembleSide U params f (a, b) d with
  | error e => simp only [hr] at hl; exact hl
  | ok row' =>
    simp only [hr] at hl
    obtain ⟨st2, e2, hs2, ha2, hfr2⟩ := hl
    refine ⟨st2, e2, hs2, ⟨ha2.hmat, ha2.hrhs, ha2.hi⟩, ?_⟩
    intro x hx
    rw [hfr2 x (by intro h; simp [sideVars] at h; simp [eqnVars] at hx; tauto)]
    subst hst1
    rw [c15Get_set_ne, c15Get_set_ne]
    · intro he; subst he; simp [eqnVars] at hx
    · intro he; subst he; simp [eqnVars] at hx

/-- the row `assembleRow` builds, started from the current content `(a, b)` of row `k` -/
def assembleRowFrom (unknowns params : List Expr) (ab : ARow) (eq : Expr × Expr) : CR ARow := do
  let dl ← coeffs none eq.1
  let dr ← coeffs none eq.2
  let row ← assembleSide unknowns params 1 ab dl
  assembleSide unknowns params (-1) row dr

theorem eqn_exec (ctx : C15Ctx) (hcoll : ctx.collect = c15CoeffsT c15ExpTable) (U S params : List Expr)
    (n P k : Nat) (hperm : params.Perm S) (hn : U.length = n) (hP : params.length = P)
    (l r : Expr) (st : C15Env) (rowsM rowsR : List Row) (a b : Row) (hs : SSt st U S params)
    (hb : BSt st n P rowsM rowsR k) (hl : c15Get "lhs" st = some (.ex l))
    (hr : c15Get "rhs" st = some (.ex r)) (hra : rowsM[k]? = some a) (hrb : rowsR[k]? = some b) :
    match assembleRowFrom U params (a, b) (l, r) with
    | .ok row' => ∃ st', C15S.execL ctx expEqnBody st = .ok st' ∧ SSt st' U S params ∧
        BSt st' n P (rowsM.set k row'.1) (rowsR.set k row'.2) k ∧
        ∀ x, x ∉ eqnVars → c15Get x st' = c15Get x st
    | .error e => C15S.execL ctx expEqnBody st = .err (.py e) := by
  have hcall : ∀ (x : String) (e : Expr), c15Get x st = some (.ex e) →
      (C15E.callVar "coeff_coll" [.var x]).eval ctx st = (c15LiftCR (coeffs none e)).map .dict := by
    intro x e hx
    rw [eval_callVar, hs.hcc]
    simp only [evalL_cons, evalL_nil, eval_var ctx x st _ hx, bind, Except.bind, pure,
      Except.pure, c15CallObj, C15Val.toExpr?, hcoll, coeffsT_exp]
    cases coeffs none e <;> rfl
  have hgen : expSidesList.eval ctx st = (do
      let a ← (c15LiftCR (coeffs none l)).map C15Val.dict
      let b ← (c15LiftCR (coeffs none r)).map C15Val.dict
      pure (C15Val.list [.pair (.int 1) a, .pair (.int (-1)) b])) := by
    simp only [expSidesList, eval_listLit, evalL_cons, evalL_nil, eval_tuple2, eval_lit,
      hcall "lhs" l hl, hcall "rhs" r hr, bind, Except.bind, pure, Except.pure]
    cases coeffs none l <;> cases coeffs none r <;> rfl
  simp only [expEqnBody, execL_single, exec_forIn, assembleRowFrom, bind, Except.bind, hgen]
  cases hdl : coeffs none l with
  | error e => simp [c15LiftCR, Except.map]
  | ok dl =>
    cases hdr : coeffs none r with
    | error e => simp [c15LiftCR, Except.map]
    | ok dr =>
      simp only [c15LiftCR, Except.map, pure, Except.pure]
      simp only [c15Items, c15For]
      have h1 := side_exec ctx U S params n P k 1 hperm hn hP dl st rowsM rowsR a b hs hb hra hrb
      cases hs1 : assembleSide U params 1 (a, b) dl with
      | error e => simp only [hs1] at h1; simp [h1]
      | ok row1 =>
        simp only [hs1] at h1
        obtain ⟨st1, e1, hss1, hb1, hfr1⟩ := h1
        simp only [e1]
        have hkM : k < rowsM.length := (List.getElem?_eq_some_iff.1 hra).1
        have hkR : k < rowsR.length := (List.getElem?_eq_some_iff.1 hrb).1
        have h2 := side_exec ctx U S params n P k (-1) hperm hn hP dr st1 _ _ row1.1 row1.2 hss1 hb1
          (by simp [List.getElem?_set, hkM]) (by simp [List.getElem?_set, hkR])
        have hrow : (row1.1, row1.2) = row1 := rfl
        rw [hrow] at h2
        cases hs2 : assembleSide U params (-1) row1 dr with
        | error e => simp only [hs2] at h2; simp [h2]
        | ok row2 =>
          simp only [hs2, List.set_set] at h2
          obtain ⟨st2, e2, hss2, hb2, hfr2⟩ := h2
          simp only [e2]
          exact ⟨st2, rfl, hss2, hb2, fun x hx => by rw [hfr2 x hx, hfr1 x hx]⟩

def asmVars : List String :=
  ["mat", "rhs_mat", "key", "coeff", "lhs_factor", "coeffs", "i_eqn", "lhs", "rhs"]

theorem assembleRow_from (U params : List Expr) (eq : Expr × Expr) :
    assembleRow U params eq =
      assembleRowFrom U params (zeroRow U.length, zeroRow (params.length + 1)) eq := by
  simp only [assembleRow, assembleRowFrom]

theorem set_append_mid {α : Type} (pre : List α) (z : α) (zs : List α) (v : α) :
    (pre ++ z :: zs).set pre.length v = (pre ++ [v]) ++ zs := by
  simp [List.set_append]

theorem assemble_loop (ctx : C15Ctx) (hcoll : ctx.collect = c15CoeffsT c15ExpTable)
    (U S params : List Expr) (hperm : params.Perm S) :
    ∀ (eqs : List (Expr × Expr)) (st : C15Env) (doneM doneR : List Row), SSt st U S params →
      c15Get "mat" st = some (.arr U.length (doneM ++ List.replicate eqs.length (zeroRow U.length))) →
      c15Get "rhs_mat" st = some (.arr (params.length + 1)
        (doneR ++ List.replicate eqs.length (zeroRow (params.length + 1)))) →
      doneM.length = doneR.length →
      match eqs.mapM (assembleRow U params) with
      | .ok rows => ∃ st', c15For (forStep ctx (.tup2 (.name "i_eqn") (.tup2 (.name "lhs") (.name "rhs")))
            expEqnBody) (c15Enum doneM.length (eqs.map eqVal)) st = .ok st' ∧ SSt st' U S params ∧
          c15Get "mat" st' = some (.arr U.length (doneM ++ rows.map (·.1))) ∧
          c15Get "rhs_mat" st' = some (.arr (params.length + 1) (doneR ++ rows.map (·.2))) ∧
          ∀ x, x ∉ asmVars → c15Get x st' = c15Get x st
      | .error e => c15For (forStep ctx (.tup2 (.name "i_eqn") (.tup2 (.name "lhs") (.name "rhs")))
            expEqnBody) (c15Enum doneM.length (eqs.map eqVal)) st = .err (.py e)
  | [], st, doneM, doneR, hs, hm, hr, _ => by
    simp only [List.mapM_nil, pure, Except.pure, List.map_nil, c15Enum, c15For]
    exact ⟨st, rfl, hs, by simpa using hm, by simpa using hr, fun _ _ => rfl⟩
  | (l, r) :: rest, st, doneM, doneR, hs, hm, hr, hlen => by
    generalize hst1 : c15Set "rhs" (.ex r) (c15Set "lhs" (.ex l)
      (c15Set "i_eqn" (.int (doneM.length : Int)) st)) = st1
    have hs1 : SSt st1 U S params := by
      subst hst1
      exact ((hs.set _ _ (by simp [sCore])).set _ _ (by simp [sCore])).set _ _ (by simp [sCore])
    have hb1 : BSt st1 U.length params.length
        (doneM ++ zeroRow U.length :: List.replicate rest.length (zeroRow U.length))
        (doneR ++ zeroRow (params.length + 1) :: List.replicate rest.length (zeroRow (params.length + 1)))
        doneM.length := by
      subst hst1
      refine ⟨?_, ?_, by simp [c15Get_set]⟩
      · simpa [c15Get_set, List.replicate_succ] using hm
      · simpa [c15Get_set, List.replicate_succ] using hr
    have hfr1 : ∀ x, x ∉ asmVars → c15Get x st1 = c15Get x st := by
      intro x hx
      subst hst1
      rw [c15Get_set_ne, c15Get_set_ne, c15Get_set_ne]
      · intro he; subst he; simp [asmVars] at hx
      · intro he; subst he; simp [asmVars] at hx
      · intro he; subst he; simp [asmVars] at hx
    have hfs : forStep ctx (.tup2 (.name "i_eqn") (.tup2 (.name "lhs") (.name "rhs"))) expEqnBody
        (.pair (.int (doneM.length : Int)) (eqVal (l, r))) st = C15S.execL ctx expEqnBody st1 := by
      simp only [forStep, eqVal, c15Bind, Option.bind, hst1]
    have he := eqn_exec ctx hcoll U S params U.length params.length doneM.length hperm rfl rfl l r st1 _ _
      (zeroRow U.length) (zeroRow (params.length + 1)) hs1 hb1
      (by subst hst1; simp [c15Get_set]) (by subst hst1; simp [c15Get_set])
      (by simp) (by rw [hlen]; simp)
    simp only [List.mapM_cons, List.map_cons, c15Enum, c15For, hfs, assembleRow_from, bind, Except.bind]
    cases hrow : assembleRowFrom U params (zeroRow U.length, zeroRow (params.length + 1)) (l, r) with
    | error e => simp only [hrow] at he; simp [he]
    | ok row' =>
      simp only [hrow] at he
      obtain ⟨st2, e2, hs2, hb2, hfr2⟩ := he
      simp only [e2]
      have hm2 := hb2.hmat
      have hr2 := hb2.hrhs
      rw [set_append_mid] at hm2
      rw [hlen, set_append_mid] at hr2
      have ih := assemble_loop ctx hcoll U S params hperm rest st2 (doneM ++ [row'.1]) (doneR ++ [row'.2])
        hs2 hm2 hr2 (by simp [hlen])
      simp only [List.length_append, List.length_singleton, ← assembleRow_from] at ih
      cases hrs : rest.mapM (assembleRow U params) with
      | error e => simp only [hrs] at ih; simpa [assembleRow_from] using ih
      | ok rows =>
        simp only [hrs] at ih
        obtain ⟨st3, e3, hs3, hm3, hr3, hfr3⟩ := ih
        refine ⟨st3, by simpa [assembleRow_from] using e3, hs3, by simpa using hm3, by simpa using hr3, ?_⟩
        intro x hx
        rw [hfr3 x hx, hfr2 x (by intro h; simp [eqnVars] at h; simp [asmVars] at hx; tauto), hfr1 x hx]

/-! ### reading the unknowns off the reduced system -/

theorem where_spec (j : Nat) : ∀ (s : List ARow) (i0 : Nat),
    ∃ ks : List Nat, c15Where i0 (s.map fun r => rowGet r.1 j) = ks.map (fun (k : Nat) => C15Val.int (k : Int)) ∧
      ks.length = (s.filter fun r => rowGet r.1 j ≠ 0).length ∧
      ∀ k, ks = [k] → i0 ≤ k ∧ ∃ r, s[k - i0]? = some r ∧ (s.filter fun r => rowGet r.1 j ≠ 0) = [r]
  | [], i0 => ⟨[], rfl, rfl, by simp⟩
  | r :: t, i0 => by
    obtain ⟨ks', h1, h2, h3⟩ := where_spec j t (i0 + 1)
    by_cases hz : rowGet r.1 j = 0
    · refine ⟨ks', by simp [c15Where, hz, h1], by simp [hz, h2], ?_⟩
      intro k hk
      obtain ⟨hle, r', hr', hf⟩ := h3 k hk
      refine ⟨by omega, r', ?_, by rw [List.filter_cons_of_neg (by simp [hz])]; exact hf⟩
      rw [show k - i0 = (k - (i0 + 1)) + 1 by omega, List.getElem?_cons_succ]; exact hr'
    · refine ⟨i0 :: ks', by simp [c15Where, hz, h1], by simp [hz, h2], ?_⟩
      intro k hk
      simp only [List.cons.injEq] at hk
      obtain ⟨rfl, hnil⟩ := hk
      subst hnil
      simp only [List.length_nil] at h2
      have : (t.filter fun r => rowGet r.1 j ≠ 0) = [] := List.length_eq_zero_iff.1 h2.symm
      exact ⟨Nat.le_refl _, r, by simp, by rw [List.filter_cons_of_pos (by simp [hz]), this]⟩

def expZipBody : List C15S := [
  .aug "unknown_val" .add
    (.bin .mul (.bin .floordiv (.call "int" [.var "coeff"]) (.var "div")) (.var "parameter"))]

def zipVars : List String := ["parameter", "coeff", "unknown_val"]

theorem zip_loop (ctx : C15Ctx) (d : Int) (hd : d ≠ 0) : ∀ (ps : List Expr) (row : Row) (st : C15Env)
    (v : C15Val) (acc : Expr), c15Get "unknown_val" st = some v → Scal v acc →
    c15Get "div" st = some (.int d) →
    match assembleLoop acc ps (row.map (Int.fdiv · d)) with
    | .ok acc' => ∃ st' v', c15For (forStep ctx (.tup2 (.name "parameter") (.name "coeff")) expZipBody)
          (List.zipWith C15Val.pair (ps.map .ex) (row.map .int)) st = .ok st' ∧
        c15Get "unknown_val" st' = some v' ∧ Scal v' acc' ∧
        ∀ x, x ∉ zipVars → c15Get x st' = c15Get x st
    | .error e => c15For (forStep ctx (.tup2 (.name "parameter") (.name "coeff")) expZipBody)
          (List.zipWith C15Val.pair (ps.map .ex) (row.map .int)) st = .err (.py e)
  | [], row, st, v, acc, hv, hs, hdv => by
    simp only [assembleLoop, pure, Except.pure, List.map_nil, List.zipWith_nil_left, c15For]
    exact ⟨st, v, rfl, hv, hs, fun _ _ => rfl⟩
  | p :: ps, [], st, v, acc, hv, hs, hdv => by
    simp only [assembleLoop, pure, Except.pure, List.map_nil, List.map_cons, List.zipWith_nil_right,
      c15For]
    exact ⟨st, v, rfl, hv, hs, fun _ _ => rfl⟩
  | p :: ps, c :: row, st, v, acc, hv, hs, hdv => by
    generalize hst1 : c15Set "coeff" (.int c) (c15Set "parameter" (.ex p) st) = st1
    have hv1 : c15Get "unknown_val" st1 = some v := by subst hst1; simp [c15Get_set, hv]
    have hd1 : c15Get "div" st1 = some (.int d) := by subst hst1; simp [c15Get_set, hdv]
    have hfr1 : ∀ x, x ∉ zipVars → c15Get x st1 = c15Get x st := by
      intro x hx
      subst hst1
      rw [c15Get_set_ne, c15Get_set_ne]
      · intro he; subst he; simp [zipVars] at hx
      · intro he; subst he; simp [zipVars] at hx
    have hrhs : (C15E.bin .mul (.bin .floordiv (.call "int" [.var "coeff"]) (.var "div"))
        (.var "parameter")).eval ctx st1 =
        (c15LiftCR (pyBin .mul (.const (.int (Int.fdiv c d))) p)).map .ex := by
      have h1 : (C15E.call "int" [.var "coeff"]).eval ctx st1 = .ok (.int c) := by
        subst hst1
        simp [eval_call, evalL_cons, evalL_nil, C15E.eval, c15Get_set, bind, Except.bind, pure,
          Except.pure, c15Builtin]
      have h2 : (C15E.bin .floordiv (.call "int" [.var "coeff"]) (.var "div")).eval ctx st1 =
          .ok (.int (Int.fdiv c d)) := by
        simp [eval_bin, h1, eval_var ctx _ st1 _ hd1, bind, Except.bind, c15Bin, c15IntOp, hd, pure,
          Except.pure]
      have h3 : (C15E.var "parameter").eval ctx st1 = .ok (.ex p) := by
        subst hst1; simp [C15E.eval, c15Get_set, pure, Except.pure]
      rw [eval_bin, h2, h3]
      simp only [bind, Except.bind]
      exact c15Bin_scal_ex st1 .mul _ _ p (Or.inr ⟨_, rfl, rfl⟩)
    have hstep : forStep ctx (.tup2 (.name "parameter") (.name "coeff")) expZipBody
        (.pair (.ex p) (.int c)) st =
        match (do let t ← pyBin .mul (.const (.int (Int.fdiv c d))) p; pyBin .add acc t : CR Expr) with
        | .ok acc1 => .ok (c15Set "unknown_val" (.ex acc1) st1)
        | .error e => .err (.py e) := by
      simp only [forStep, c15Bind, Option.bind, hst1, expZipBody, execL_single, C15S.exec, hv1, hrhs,
        bind, Except.bind]
      cases hm : pyBin .mul (.const (.int (Int.fdiv c d))) p with
      | error e => rfl
      | ok t =>
        simp only [c15LiftCR, Except.map, c15Bin_scal_ex st1 .add v acc t hs, C15BinOp.py]
        cases pyBin .add acc t <;> rfl
    simp only [List.map_cons, List.zipWith_cons_cons, c15For, hstep, assembleLoop, bind, Except.bind]
    cases hm : pyBin .mul (.const (.int (Int.fdiv c d))) p with
    | error e => simp
    | ok t =>
      simp only
      cases ha : pyBin .add acc t with
      | error e => simp
      | ok acc1 =>
        simp only
        have ih := zip_loop ctx d hd ps row (c15Set "unknown_val" (.ex acc1) st1) (.ex acc1) acc1
          (c15Get_set_eq _ _ _) (Or.inl rfl) (by rw [c15Get_set_ne _ (by decide), hd1])
        cases hl : assembleLoop acc1 ps (row.map (Int.fdiv · d)) with
        | error e => simp only [hl] at ih; exact ih
        | ok acc' =>
          simp only [hl] at ih
          obtain ⟨st', v', h1, h2, h3, h4⟩ := ih
          refine ⟨st', v', h1, h2, h3, ?_⟩
          intro x hx
          rw [h4 x hx, c15Get_set_ne, hfr1 x hx]
          intro he; subst he; simp [zipVars] at hx

def expReadBody : List C15S := [
  .unpack1 "nonz_row" (.call "numpy.where" [.col (.var "mat") (.var "j")]),
  .ifThen (.cmp .ne (.call "len" [.var "nonz_row"]) (.lit 1))
    [.raise_ "RuntimeError" "cannot uniquely solve for '{}'"] [],
  .unpack1 "nonz_row" (.var "nonz_row"),
  .ifThen (.cmp .ne (.call "abs" [.index2 (.var "mat") (.var "nonz_row") (.var "j")]) (.lit 1))
    [.raise_ "RuntimeError" "division with remainder in linear solve for '{}'"] [],
  .assign (.name "div") (.index2 (.var "mat") (.var "nonz_row") (.var "j")),
  .assign (.name "unknown_val")
    (.bin .floordiv (.call "int" [.index2 (.var "rhs_mat") (.var "nonz_row") (.lit (-1))]) (.var "div")),
  .forIn (.tup2 (.name "parameter") (.name "coeff"))
    (.call "zip" [.var "parameters_list", .index (.var "rhs_mat") (.var "nonz_row")]) expZipBody,
  .setSubs ["result"] [.var "unknown"] [.var "unknown_val"]]

theorem execL_nil (ctx : C15Ctx) (st : C15Env) : C15S.execL ctx [] st = .ok st := by
  simp only [C15S.execL]

def readVars : List String := ["nonz_row", "div", "unknown_val", "parameter", "coeff", "result"]

theorem solveCol_notUnique (s : List ARow) (j : Nat)
    (h : (s.filter fun r => rowGet r.1 j ≠ 0).length ≠ 1) : solveCol s j = .error .notUnique := by
  unfold solveCol
  split
  · rename_i r hr; exact absurd (congrArg List.length hr) h
  · rfl

theorem getLastD_map_fdiv (l : Row) (P : Nat) (d : Int) (h : l.length = P + 1) :
    (l.map (Int.fdiv · d)).getLastD 0 = Int.fdiv (rowGet l P) d := by
  have hne : l ≠ [] := by intro h0; simp [h0] at h
  have hne' : l.map (Int.fdiv · d) ≠ [] := by simpa using hne
  rw [List.getLastD_eq_getLast?, List.getLast?_eq_some_getLast hne', List.getLast_map]
  · simp only [Option.getD_some, rowGet]
    congr 1
    rw [List.getLast_eq_getElem]
    have : l.length - 1 = P := by omega
    simp [this, List.getD_eq_getElem?_getD, h]

theorem read_step (ctx : C15Ctx) (st : C15Env) (U S params : List Expr) (n P j : Nat) (s : List ARow)
    (u : Expr) (res : Dict) (hs : SSt st U S params)
    (hmat : c15Get "mat" st = some (.arr n (s.map (·.1))))
    (hrhs : c15Get "rhs_mat" st = some (.arr (P + 1) (s.map (·.2))))
    (hj : c15Get "j" st = some (.int j)) (hjn : j < n) (hu : c15Get "unknown" st = some (.ex u))
    (hres : c15Get "result" st = some (.dict res)) (hrect : ∀ r ∈ s, r.2.length = P + 1)
    (hP : params.length = P) :
    match (do let row ← solveCol s j; assembleVal params row : CR Expr) with
    | .ok v => ∃ st', C15S.execL ctx expReadBody st = .ok st' ∧
        c15Get "result" st' = some (.dict (c15DictSet res u v)) ∧
        ∀ x, x ∉ readVars → c15Get x st' = c15Get x st
    | .error e => C15S.execL ctx expReadBody st = .err (.py e) := by
  obtain ⟨ks, hw1, hw2, hw3⟩ := where_spec j s 0
  -- `(nonz_row,) = np.where(mat[:, j])`
  have hcol : (C15E.call "numpy.where" [.col (.var "mat") (.var "j")]).eval ctx st =
      .ok (.list [.list (ks.map fun (k : Nat) => C15Val.int (k : Int))]) := by
    have hc : (C15E.col (.var "mat") (.var "j")).eval ctx st =
        .ok (.row (s.map fun r => rowGet r.1 j)) := by
      simp [C15E.eval, hmat, hj, bind, Except.bind, pure, Except.pure, C15Val.toInt?, colIdx_nat n j hjn,
        List.map_map, Function.comp]
    simp only [eval_call, evalL_cons, evalL_nil, hc, bind, Except.bind, pure, Except.pure, c15Builtin,
      hw1]
  generalize hst1 : c15Set "nonz_row" (.list (ks.map fun (k : Nat) => C15Val.int (k : Int))) st = st1
  have e1 : C15S.exec ctx (.unpack1 "nonz_row" (.call "numpy.where" [.col (.var "mat") (.var "j")])) st
      = .ok st1 := by
    simp only [C15S.exec, hcol, hst1]
  have hfr1 : ∀ x, x ∉ readVars → c15Get x st1 = c15Get x st := by
    intro x hx
    subst hst1
    rw [c15Get_set_ne]
    intro he; subst he; simp [readVars] at hx
  have hnz1 : c15Get "nonz_row" st1 = some (.list (ks.map fun (k : Nat) => C15Val.int (k : Int))) := by
    subst hst1; simp [c15Get_set]
  have hlen : c15Cond ctx (.cmp .ne (.call "len" [.var "nonz_row"]) (.lit 1)) st1 =
      .ok (decide (ks.length ≠ 1)) := by
    have hb : (((ks.length : Int) == 1) = (ks.length == 1)) := by
      by_cases hl : ks.length = 1
      · simp [hl]
      · have : (ks.length : Int) ≠ 1 := by omega
        rw [beq_eq_false_iff_ne.2 this, beq_eq_false_iff_ne.2 hl]
    simp only [c15Cond, eval_cmp, eval_call, evalL_cons, evalL_nil, eval_var ctx _ st1 _ hnz1, eval_lit,
      bind, Except.bind, pure, Except.pure, c15Builtin, List.length_map, c15Cmp, c15ValEq, hb, c15Truthy]
    by_cases hl : ks.length = 1 <;> simp [hl]
  simp only [expReadBody]
  rw [execL_cons_ok ctx _ _ st st1 e1, execL_cons, exec_ifThen, hlen]
  by_cases hl : ks.length = 1
  swap
  · -- not exactly one non-zero entry in the column
    have : solveCol s j = .error .notUnique := solveCol_notUnique s j (by rw [← hw2]; exact hl)
    simp [hl, this, bind, Except.bind, C15S.execL, C15S.exec, c15ErrOf]
  · obtain ⟨k, hk⟩ : ∃ k, ks = [k] := by
      match ks, hl with
      | [k], _ => exact ⟨k, rfl⟩
    subst hk
    obtain ⟨_, r, hr, hfil⟩ := hw3 k rfl
    simp only [Nat.sub_zero] at hr
    have hrs : r ∈ s := List.mem_of_getElem? hr
    have hrl : r.2.length = P + 1 := hrect r hrs
    simp only [List.length_singleton, ne_eq, not_true_eq_false, decide_false, execL_nil]
    -- `(nonz_row,) = nonz_row`
    generalize hst2 : c15Set "nonz_row" (.int (k : Int)) st1 = st2
    have e2 : C15S.exec ctx (.unpack1 "nonz_row" (.var "nonz_row")) st1 = .ok st2 := by
      simp only [C15S.exec, eval_var ctx _ st1 _ hnz1, List.map_cons, List.map_nil, hst2]
    have hfr2 : ∀ x, x ∉ readVars → c15Get x st2 = c15Get x st := by
      intro x hx
      subst hst2
      rw [c15Get_set_ne, hfr1 x hx]
      intro he; subst he; simp [readVars] at hx
    have hnz2 : c15Get "nonz_row" st2 = some (.int k) := by subst hst2; simp [c15Get_set]
    have hmat2 : c15Get "mat" st2 = some (.arr n (s.map (·.1))) := by
      rw [hfr2 _ (by simp [readVars]), hmat]
    have hrhs2 : c15Get "rhs_mat" st2 = some (.arr (P + 1) (s.map (·.2))) := by
      rw [hfr2 _ (by simp [readVars]), hrhs]
    have hj2 : c15Get "j" st2 = some (.int j) := by rw [hfr2 _ (by simp [readVars]), hj]
    have hent := eval_entry ctx st2 "mat" "nonz_row" "j" n (s.map (·.1)) k j r.1 hmat2 hnz2 hj2
      (by simp [hr]) hjn
    rw [execL_cons_ok ctx _ _ st1 st2 e2, execL_cons, exec_ifThen]
    have habs : c15Cond ctx (.cmp .ne (.call "abs" [.index2 (.var "mat") (.var "nonz_row") (.var "j")])
        (.lit 1)) st2 = .ok (decide ((rowGet r.1 j).natAbs ≠ 1)) := by
      have hb : ((((rowGet r.1 j).natAbs : Int) == 1) = ((rowGet r.1 j).natAbs == 1)) := by
        by_cases hl : (rowGet r.1 j).natAbs = 1
        · simp [hl]
        · have : ((rowGet r.1 j).natAbs : Int) ≠ 1 := by omega
          rw [beq_eq_false_iff_ne.2 this, beq_eq_false_iff_ne.2 hl]
      simp only [c15Cond, eval_cmp, eval_call, evalL_cons, evalL_nil, hent, eval_lit, bind, Except.bind,
        pure, Except.pure, c15Builtin, c15Cmp, c15ValEq, hb, c15Truthy]
      by_cases hl : (rowGet r.1 j).natAbs = 1 <;> simp [hl]
    rw [habs]
    have hsc : solveCol s j = if (rowGet r.1 j).natAbs ≠ 1 then .error .remainder
        else .ok (r.2.map (Int.fdiv · (rowGet r.1 j))) := by
      unfold solveCol
      rw [hfil]
      by_cases hd1 : (rowGet r.1 j).natAbs = 1 <;> simp [hd1, throw, throwThe, MonadExceptOf.throw, pure,
        Except.pure]
    by_cases hd1 : (rowGet r.1 j).natAbs = 1
    swap
    · simp [hd1, hsc, bind, Except.bind, C15S.execL, C15S.exec, c15ErrOf]
    · have hd0 : rowGet r.1 j ≠ 0 := by intro h0; rw [h0] at hd1; simp at hd1
      simp only [hd1, ne_eq, not_true_eq_false, decide_false, execL_nil, hsc, if_false, bind,
        Except.bind]
      -- `div = mat[nonz_row, j]`
      generalize hst3 : c15Set "div" (.int (rowGet r.1 j)) st2 = st3
      have e3 : C15S.exec ctx (.assign (.name "div") (.index2 (.var "mat") (.var "nonz_row") (.var "j")))
          st2 = .ok st3 := by rw [exec_assign_name, hent]; simp only [hst3]
      have hfr3 : ∀ x, x ∉ readVars → c15Get x st3 = c15Get x st := by
        intro x hx
        subst hst3
        rw [c15Get_set_ne, hfr2 x hx]
        intro he; subst he; simp [readVars] at hx
      have hnz3 : c15Get "nonz_row" st3 = some (.int k) := by subst hst3; simp [c15Get_set, hnz2]
      have hrhs3 : c15Get "rhs_mat" st3 = some (.arr (P + 1) (s.map (·.2))) := by
        subst hst3; simp [c15Get_set, hrhs2]
      have hdiv3 : c15Get "div" st3 = some (.int (rowGet r.1 j)) := by subst hst3; simp [c15Get_set]
      -- `unknown_val = int(rhs_mat[nonz_row, -1]) // div`
      have hlast : (C15E.index2 (.var "rhs_mat") (.var "nonz_row") (.lit (-1))).eval ctx st3 =
          .ok (.int (rowGet r.2 P)) := by
        have hnk : ¬ ((k : Int) < 0) := by omega
        simp [C15E.eval, hrhs3, hnz3, bind, Except.bind, pure, Except.pure, C15Val.toInt?, hnk, hr,
          colIdx_last]
      have huv : (C15E.bin .floordiv (.call "int" [.index2 (.var "rhs_mat") (.var "nonz_row")
          (.lit (-1))]) (.var "div")).eval ctx st3 =
          .ok (.int (Int.fdiv (rowGet r.2 P) (rowGet r.1 j))) := by
        simp [eval_bin, eval_call, evalL_cons, evalL_nil, hlast, eval_var ctx _ st3 _ hdiv3, bind,
          Except.bind, pure, Except.pure, c15Builtin, c15Bin, c15IntOp, hd0]
      generalize hst4 : c15Set "unknown_val" (.int (Int.fdiv (rowGet r.2 P) (rowGet r.1 j))) st3 = st4
      have e4 : C15S.exec ctx (.assign (.name "unknown_val") (.bin .floordiv (.call "int"
          [.index2 (.var "rhs_mat") (.var "nonz_row") (.lit (-1))]) (.var "div"))) st3 = .ok st4 := by
        rw [exec_assign_name, huv]; simp only [hst4]
      have hfr4 : ∀ x, x ∉ readVars → c15Get x st4 = c15Get x st := by
        intro x hx
        subst hst4
        rw [c15Get_set_ne, hfr3 x hx]
        intro he; subst he; simp [readVars] at hx
      -- the `zip` loop
      have hpl4 : c15Get "parameters_list" st4 = some (.list (params.map .ex)) := by
        rw [hfr4 _ (by simp [readVars]), hs.hPl]
      have hrhs4 : c15Get "rhs_mat" st4 = some (.arr (P + 1) (s.map (·.2))) := by
        subst hst4; simp [c15Get_set, hrhs3]
      have hnz4 : c15Get "nonz_row" st4 = some (.int k) := by subst hst4; simp [c15Get_set, hnz3]
      have hzip : (C15E.call "zip" [.var "parameters_list", .index (.var "rhs_mat") (.var "nonz_row")]).eval
          ctx st4 = .ok (.list (List.zipWith C15Val.pair (params.map .ex) (r.2.map .int))) := by
        have hnk : ¬ ((k : Int) < 0) := by omega
        have hkl : k < s.length := (List.getElem?_eq_some_iff.1 hr).1
        have hidx : (C15E.index (.var "rhs_mat") (.var "nonz_row")).eval ctx st4 =
            .ok (.rowRef "rhs_mat" k) := by
          simp [C15E.eval, hrhs4, hnz4, bind, Except.bind, pure, Except.pure, hnk, hkl]
        have hdr : c15Deref st4 (.rowRef "rhs_mat" k) = some r.2 := by simp [c15Deref, hrhs4, hr]
        simp only [eval_call, evalL_cons, evalL_nil, eval_var ctx _ st4 _ hpl4, hidx, bind, Except.bind,
          pure, Except.pure, c15Builtin, c15Items, hdr, Option.map_some]
      have hzl := zip_loop ctx (rowGet r.1 j) hd0 params r.2 st4 _
        (.const (.int (Int.fdiv (rowGet r.2 P) (rowGet r.1 j))))
        (by subst hst4; exact c15Get_set_eq _ _ _) (Or.inr ⟨_, rfl, rfl⟩)
        (by subst hst4; simp [c15Get_set, hdiv3])
      rw [execL_cons_ok ctx _ _ st2 st3 e3, execL_cons_ok ctx _ _ st3 st4 e4, execL_cons, exec_forIn, hzip]
      simp only [c15Items, assembleVal, getLastD_map_fdiv r.2 P _ hrl]
      cases hal : assembleLoop (.const (.int (Int.fdiv (rowGet r.2 P) (rowGet r.1 j)))) params
        (r.2.map (Int.fdiv · (rowGet r.1 j))) with
      | error e => simp only [hal] at hzl; simp only [hzl]
      | ok v =>
        simp only [hal] at hzl
        obtain ⟨st5, v5, e5, hv5, hsc5, hfr5⟩ := hzl
        simp only [e5, execL_single]
        have hu5 : c15Get "unknown" st5 = some (.ex u) := by
          rw [hfr5 _ (by simp [zipVars]), hfr4 _ (by simp [readVars]), hu]
        have hres5 : c15Get "result" st5 = some (.dict res) := by
          rw [hfr5 _ (by simp [zipVars])]
          subst hst4 hst3 hst2 hst1
          simp [c15Get_set, hres]
        refine ⟨c15Set "result" (.dict (c15DictSet res u v)) st5, ?_, by simp [c15Get_set], ?_⟩
        · have hue : (C15Val.ex u).toExpr? = some u := rfl
          simp [C15S.exec, evalL_cons, evalL_nil, eval_var ctx _ st5 _ hv5, eval_var ctx _ st5 _ hu5,
            bind, Except.bind, pure, Except.pure, c15StoreSubs, hres5, hue, scal_toExpr hsc5,
            c15OfR]
        · intro x hx
          rw [c15Get_set_ne, hfr5 x (by intro h; simp [zipVars] at h; simp [readVars] at hx; tauto),
            hfr4 x hx]
          intro he; subst he; simp [readVars] at hx

def loopVars : List String :=
  ["nonz_row", "div", "unknown_val", "parameter", "coeff", "result", "j", "unknown"]

theorem sCore_not_loop : ∀ x ∈ sCore, x ∉ loopVars := by decide

theorem read_loop (ctx : C15Ctx) (U S params : List Expr) (n P : Nat) (s : List ARow)
    (hrect : ∀ r ∈ s, r.2.length = P + 1) (hP : params.length = P) :
    ∀ (us : List Expr) (j0 : Nat) (st : C15Env) (res : Dict), SSt st U S params →
      c15Get "mat" st = some (.arr n (s.map (·.1))) →
      c15Get "rhs_mat" st = some (.arr (P + 1) (s.map (·.2))) →
      c15Get "result" st = some (.dict res) → j0 + us.length ≤ n →
      (∀ a ∈ res, ∀ b ∈ us, a.1.pyEq b = false) → DistinctE us →
      match solveRows params s (List.range' j0 us.length) with
      | .ok vals => ∃ st', c15For (forStep ctx (.tup2 (.name "j") (.name "unknown")) expReadBody)
            (c15Enum j0 (us.map .ex)) st = .ok st' ∧
          c15Get "result" st' = some (.dict (res ++ us.zip vals))
      | .error e => c15For (forStep ctx (.tup2 (.name "j") (.name "unknown")) expReadBody)
            (c15Enum j0 (us.map .ex)) st = .err (.py e)
  | [], j0, st, res, hs, hm, hr, hres, _, _, _ => by
    simp only [List.length_nil, List.range'_zero, solveRows, pure, Except.pure, List.map_nil, c15Enum,
      c15For]
    exact ⟨st, rfl, by simpa using hres⟩
  | u :: us, j0, st, res, hs, hm, hr, hres, hle, hdis, hd => by
    have hd' := List.pairwise_cons.1 hd
    generalize hst1 : c15Set "unknown" (.ex u) (c15Set "j" (.int (j0 : Int)) st) = st1
    have hs1 : SSt st1 U S params := by
      subst hst1; exact (hs.set _ _ (by simp [sCore])).set _ _ (by simp [sCore])
    have hstep := read_step ctx st1 U S params n P j0 s u res hs1
      (by subst hst1; simp [c15Get_set, hm]) (by subst hst1; simp [c15Get_set, hr])
      (by subst hst1; simp [c15Get_set]) (by simp at hle; omega) (by subst hst1; simp [c15Get_set])
      (by subst hst1; simp [c15Get_set, hres]) hrect hP
    have hfs : forStep ctx (.tup2 (.name "j") (.name "unknown")) expReadBody
        (.pair (.int (j0 : Int)) (.ex u)) st = C15S.execL ctx expReadBody st1 := by
      simp only [forStep, c15Bind, Option.bind, hst1]
    simp only [List.length_cons, List.range'_succ, solveRows, List.map_cons, c15Enum, c15For, hfs, bind,
      Except.bind]
    cases hsc : solveCol s j0 with
    | error e =>
      simp only [hsc, bind, Except.bind] at hstep
      simp [hstep]
    | ok row =>
      simp only [hsc, bind, Except.bind] at hstep ⊢
      cases hav : assembleVal params row with
      | error e => simp only [hav] at hstep; simp [hstep]
      | ok v =>
        simp only [hav] at hstep ⊢
        obtain ⟨st2, e2, hres2, hfr2⟩ := hstep
        simp only [e2]
        rw [dictSet_append res u v (fun a ha => hdis a ha u (by simp))] at hres2
        have hfr : ∀ x, x ∉ loopVars → c15Get x st2 = c15Get x st := by
          intro x hx
          rw [hfr2 x (by intro h; simp [readVars] at h; simp [loopVars] at hx; tauto)]
          subst hst1
          rw [c15Get_set_ne, c15Get_set_ne]
          · intro he; subst he; simp [loopVars] at hx
          · intro he; subst he; simp [loopVars] at hx
        have ih := read_loop ctx U S params n P s hrect hP us (j0 + 1) st2 (res ++ [(u, v)])
          (hs.frame (fun x hx => hfr x (sCore_not_loop x hx)))
          (by rw [hfr _ (by simp [loopVars]), hm]) (by rw [hfr _ (by simp [loopVars]), hr]) hres2
          (by simp at hle; omega)
          (by
            intro a ha b hb
            simp only [List.mem_append, List.mem_singleton] at ha
            rcases ha with ha | rfl
            · exact hdis a ha b (by simp [hb])
            · exact hd'.1 b hb) hd'.2
        cases hrs : solveRows params s (List.range' (j0 + 1) us.length) with
        | error e => simp only [hrs] at ih; exact ih
        | ok vals =>
          simp only [hrs] at ih
          obtain ⟨st3, e3, hres3⟩ := ih
          exact ⟨st3, e3, by simpa [pure, Except.pure] using hres3⟩

/-! ### `solve_affine_equations_for` -/

def expSolveBody : List C15S := [
  .importName "numpy" "" "np",
  .importName "pymbolic.mapper.dependency" "DependencyMapper" "DependencyMapper",
  .assign (.name "dep_map") (.construct "DependencyMapper" ["composite_leaves"] [.boolLit true]),
  .importName "pymbolic" "var" "var",
  .assign (.name "unknowns") (.listComp (.mkNode "Variable" [.var "u"]) (.name "u") (.var "unknowns")),
  .assign (.name "unknowns_set") (.call "set" [.var "unknowns"]),
  .assign (.name "unknown_idx_lut") (.dictComp (.var "tgt_name") (.var "idx")
    (.tup2 (.name "idx") (.name "tgt_name")) (.call "enumerate" [.var "unknowns"])),
  .assign (.name "parameters") (.call "set" []),
  .forIn (.tup2 (.name "lhs") (.name "rhs")) (.var "equations") expParamBody,
  .assign (.name "parameters_list") (.call "list" [.var "parameters"]),
  .assign (.name "parameter_idx_lut") (.dictComp (.var "var_name") (.var "idx")
    (.tup2 (.name "idx") (.name "var_name")) (.call "enumerate" [.var "parameters_list"])),
  .importName "pymbolic.mapper.coefficient" "CoefficientCollector" "CoefficientCollector",
  .assign (.name "coeff_coll") (.construct "CoefficientCollector" [] []),
  .assign (.name "mat") (.call "numpy.zeros"
    [.call "len" [.var "equations"], .call "len" [.var "unknowns_set"]]),
  .assign (.name "rhs_mat") (.call "numpy.zeros"
    [.call "len" [.var "equations"], .bin .add (.call "len" [.var "parameters"]) (.lit 1)]),
  .forIn (.tup2 (.name "i_eqn") (.tup2 (.name "lhs") (.name "rhs"))) (.call "enumerate" [.var "equations"])
    expEqnBody,
  .assign (.tup2 (.name "mat") (.name "rhs_mat"))
    (.call "gaussian_elimination" [.var "mat", .var "rhs_mat"]),
  .assign (.name "result") .emptyDict,
  .forIn (.tup2 (.name "j") (.name "unknown")) (.call "enumerate" [.var "unknowns"]) expReadBody,
  .deadIf,
  .ret (.var "result")]

def expSolveFn : C15Fn :=
  { name := "solve_affine_equations_for", definedIn := "solve_affine_equations_for",
    params := ["unknowns", "equations"], vararg := "", body := expSolveBody }

theorem exp_fn_solve : c15ExpTable.fn "solve_affine_equations_for" = some expSolveFn := by rfl

theorem exprsOf_map : ∀ l : List Expr, c15ExprsOf (l.map C15Val.ex) = some l
  | [] => rfl
  | x :: xs => by simp [c15ExprsOf, exprsOf_map xs]

theorem builtin_gauss (ctx : C15Ctx) (st : C15Env) (args : List C15Val) :
    c15Builtin ctx st "gaussian_elimination" args = ctx.callFn "gaussian_elimination" args := by
  unfold c15Builtin
  split <;> simp_all

/-- the state after the preamble (statements 1–15), or the error the parameter collection raised -/
theorem solve_preamble (ctx : C15Ctx) (hinit : ctx.init = c15ExpInit) (names : List String)
    (eqs : List (Expr × Expr)) (hn : names.Nodup) :
    match paramSetL (names.map Expr.var) [] eqs with
    | .error e => C15S.execL ctx expSolveBody
        (c15Set "equations" (.list (eqs.map eqVal)) (c15Set "unknowns" (.list (names.map .str)) []))
          = .err (.py e)
    | .ok S => match ctx.order S with
      | none => C15S.execL ctx expSolveBody
          (c15Set "equations" (.list (eqs.map eqVal)) (c15Set "unknowns" (.list (names.map .str)) []))
            = .err (.py .noClaim)
      | some params => DistinctE params → params.length = S.length →
        ∃ st', C15S.execL ctx expSolveBody
          (c15Set "equations" (.list (eqs.map eqVal)) (c15Set "unknowns" (.list (names.map .str)) []))
            = C15S.execL ctx (expSolveBody.drop 15) st' ∧
          SSt st' (names.map Expr.var) S params ∧
          c15Get "equations" st' = some (.list (eqs.map eqVal)) ∧
          c15Get "mat" st' = some (.arr names.length
            (List.replicate eqs.length (zeroRow names.length))) ∧
          c15Get "rhs_mat" st' = some (.arr (params.length + 1)
            (List.replicate eqs.length (zeroRow (params.length + 1)))) := by
  have hU : DistinctE (names.map Expr.var) := distinct_vars names hn
  -- statements 1–8
  generalize hst0 : (c15Set "equations" (.list (eqs.map eqVal))
    (c15Set "unknowns" (.list (names.map .str)) [])) = st0
  have h0u : c15Get "unknowns" st0 = some (.list (names.map .str)) := by subst hst0; simp [c15Get_set]
  have e3 : (C15E.construct "DependencyMapper" ["composite_leaves"] [.boolLit true]).eval ctx st0 =
      .ok (.depMapper compositeFlags) := by
    simp [C15E.eval, C15E.evalL, bind, Except.bind, pure, Except.pure, c15Construct]
  generalize hst3 : c15Set "dep_map" (.depMapper compositeFlags) st0 = st3
  have e5 := eval_varsComp ctx st3 names (by subst hst3; simp [c15Get_set, h0u])
  generalize hst5 : c15Set "unknowns" (.list ((names.map Expr.var).map .ex)) st3 = st5
  have h5u : c15Get "unknowns" st5 = some (.list ((names.map Expr.var).map .ex)) := by
    subst hst5; simp [c15Get_set]
  have e6 : (C15E.call "set" [.var "unknowns"]).eval ctx st5 = .ok (.eset (names.map Expr.var)) := by
    simp only [eval_call, evalL_cons, evalL_nil, eval_var ctx _ st5 _ h5u, bind, Except.bind, pure,
      Except.pure, c15Builtin, exprsOf_map, set_of_distinct _ hU]
  generalize hst6 : c15Set "unknowns_set" (.eset (names.map Expr.var)) st5 = st6
  have e7 := eval_lut ctx st6 "tgt_name" "unknowns" (by decide) (names.map Expr.var)
    (by subst hst6; simp [c15Get_set, h5u]) hU
  generalize hst7 : c15Set "unknown_idx_lut" (.dict (lutFrom 0 (names.map Expr.var))) st6 = st7
  have e8 : (C15E.call "set" []).eval ctx st7 = .ok (.eset []) := by
    simp [eval_call, evalL_nil, bind, Except.bind, c15Builtin, pure, Except.pure]
  generalize hst8 : c15Set "parameters" (.eset []) st7 = st8
  have hrun8 : C15S.execL ctx expSolveBody st0 = C15S.execL ctx (expSolveBody.drop 8) st8 := by
    simp only [expSolveBody, List.drop]
    rw [execL_cons_ok ctx _ _ st0 st0 (by simp [C15S.exec]),
      execL_cons_ok ctx _ _ st0 st0 (by simp [C15S.exec]),
      execL_cons_ok ctx _ _ st0 st3 (by rw [exec_assign_name, e3]; simp only [hst3]),
      execL_cons_ok ctx _ _ st3 st3 (by simp [C15S.exec]),
      execL_cons_ok ctx _ _ st3 st5 (by rw [exec_assign_name, e5]; simp only [hst5]),
      execL_cons_ok ctx _ _ st5 st6 (by rw [exec_assign_name, e6]; simp only [hst6]),
      execL_cons_ok ctx _ _ st6 st7 (by rw [exec_assign_name, e7]; simp only [hst7]),
      execL_cons_ok ctx _ _ st7 st8 (by rw [exec_assign_name, e8]; simp only [hst8])]
  rw [hrun8]
  -- the facts about `st8`
  have h8dep : c15Get "dep_map" st8 = some (.depMapper compositeFlags) := by
    subst hst8 hst7 hst6 hst5 hst3; simp [c15Get_set]
  have h8us : c15Get "unknowns_set" st8 = some (.eset (names.map Expr.var)) := by
    subst hst8 hst7 hst6; simp [c15Get_set]
  have h8p : c15Get "parameters" st8 = some (.eset []) := by subst hst8; simp [c15Get_set]
  have h8u : c15Get "unknowns" st8 = some (.list ((names.map Expr.var).map .ex)) := by
    subst hst8 hst7 hst6 hst5; simp [c15Get_set]
  have h8l : c15Get "unknown_idx_lut" st8 = some (.dict (lutFrom 0 (names.map Expr.var))) := by
    subst hst8 hst7; simp [c15Get_set]
  have h8eq : c15Get "equations" st8 = some (.list (eqs.map eqVal)) := by
    subst hst8 hst7 hst6 hst5 hst3 hst0; simp [c15Get_set]
  -- the parameter loop
  have hloop := param_loop ctx (names.map Expr.var) eqs st8 [] h8dep h8us h8p
  simp only [expSolveBody, List.drop]
  rw [execL_cons, exec_forIn, eval_var ctx _ st8 _ h8eq]
  simp only [c15Items]
  cases hps : paramSetL (names.map Expr.var) [] eqs with
  | error e => simp only [hps] at hloop; simp only [hloop]
  | ok S =>
    simp only [hps] at hloop
    obtain ⟨st9, e9, hP9, hfr9⟩ := hloop
    simp only [e9]
    have e10 : (C15E.call "list" [.var "parameters"]).eval ctx st9 =
        match ctx.order S with
        | some l => .ok (.list (l.map .ex))
        | none => .error (.py .noClaim) := by
      simp only [eval_call, evalL_cons, evalL_nil, eval_var ctx _ st9 _ hP9, bind, Except.bind, pure,
        Except.pure, c15Builtin]
      cases ctx.order S <;> rfl
    rw [execL_cons, exec_assign_name, e10]
    cases hord : ctx.order S with
    | none => rfl
    | some params =>
      intro hdp hlen
      simp only
      generalize hst10 : c15Set "parameters_list" (.list (params.map .ex)) st9 = st10
      have e11 := eval_lut ctx st10 "var_name" "parameters_list" (by decide) params
        (by subst hst10; simp [c15Get_set]) hdp
      generalize hst11 : c15Set "parameter_idx_lut" (.dict (lutFrom 0 params)) st10 = st11
      have e13 : (C15E.construct "CoefficientCollector" [] []).eval ctx st11 = .ok (.collector none) := by
        simp [C15E.eval, C15E.evalL, bind, Except.bind, pure, Except.pure, c15Construct, hinit, c15ExpInit]
      generalize hst13 : c15Set "coeff_coll" (.collector none) st11 = st13
      have g13 : ∀ x, x ∉ ["coeff_coll", "parameter_idx_lut", "parameters_list", "lhs", "rhs",
          "parameters"] → c15Get x st13 = c15Get x st8 := by
        intro x hx
        subst hst13 hst11 hst10
        rw [c15Get_set_ne, c15Get_set_ne, c15Get_set_ne, hfr9]
        · intro h; simp [paramVars] at h; simp at hx; tauto
        · intro he; subst he; simp at hx
        · intro he; subst he; simp at hx
        · intro he; subst he; simp at hx
      have h13P : c15Get "parameters" st13 = some (.eset S) := by
        subst hst13 hst11 hst10; simp [c15Get_set, hP9]
      have h13eq : c15Get "equations" st13 = some (.list (eqs.map eqVal)) := by
        rw [g13 _ (by simp), h8eq]
      have h13us : c15Get "unknowns_set" st13 = some (.eset (names.map Expr.var)) := by
        rw [g13 _ (by simp)]; exact h8us
      have e14 : (C15E.call "numpy.zeros" [.call "len" [.var "equations"],
          .call "len" [.var "unknowns_set"]]).eval ctx st13 =
          .ok (.arr names.length (List.replicate eqs.length (zeroRow names.length))) := by
        simp [eval_call, evalL_cons, evalL_nil, eval_var ctx _ st13 _ h13eq, eval_var ctx _ st13 _ h13us,
          bind, Except.bind, pure, Except.pure, c15Builtin, zeroRow]
      generalize hst14 : c15Set "mat" (.arr names.length
        (List.replicate eqs.length (zeroRow names.length))) st13 = st14
      have e15 : (C15E.call "numpy.zeros" [.call "len" [.var "equations"],
          .bin .add (.call "len" [.var "parameters"]) (.lit 1)]).eval ctx st14 =
          .ok (.arr (params.length + 1) (List.replicate eqs.length (zeroRow (params.length + 1)))) := by
        have hP14 : c15Get "parameters" st14 = some (.eset S) := by subst hst14; simp [c15Get_set, h13P]
        have heq14 : c15Get "equations" st14 = some (.list (eqs.map eqVal)) := by
          subst hst14; simp [c15Get_set, h13eq]
        simp [eval_call, evalL_cons, evalL_nil, eval_bin, eval_lit, eval_var ctx _ st14 _ heq14,
          eval_var ctx _ st14 _ hP14, bind, Except.bind, pure, Except.pure, c15Builtin, zeroRow, c15Bin,
          c15IntOp, hlen]
      refine ⟨c15Set "rhs_mat" (.arr (params.length + 1)
        (List.replicate eqs.length (zeroRow (params.length + 1)))) st14, ?_, ?_, ?_, ?_, ?_⟩
      · rw [execL_cons_ok ctx _ _ st10 st11 (by rw [exec_assign_name, e11]; simp only [hst11]),
          execL_cons_ok ctx _ _ st11 st11 (by simp [C15S.exec]),
          execL_cons_ok ctx _ _ st11 st13 (by rw [exec_assign_name, e13]; simp only [hst13]),
          execL_cons_ok ctx _ _ st13 st14 (by rw [exec_assign_name, e14]; simp only [hst14]),
          execL_cons_ok ctx _ _ st14 _ (by rw [exec_assign_name, e15])]
      · have hbase : ∀ x, x ∉ ["rhs_mat", "mat", "coeff_coll", "parameter_idx_lut", "parameters_list",
            "lhs", "rhs", "parameters"] → c15Get x (c15Set "rhs_mat" (.arr (params.length + 1)
              (List.replicate eqs.length (zeroRow (params.length + 1)))) st14) = c15Get x st8 := by
          intro x hx
          subst hst14
          rw [c15Get_set_ne, c15Get_set_ne, g13]
          · intro h; simp at h; simp at hx; tauto
          · intro he; subst he; simp at hx
          · intro he; subst he; simp at hx
        refine ⟨?_, ?_, ?_, ?_, ?_, ?_, ?_⟩
        · rw [hbase _ (by simp)]; exact h8u
        · rw [hbase _ (by simp)]; exact h8us
        · rw [hbase _ (by simp)]; exact h8l
        · subst hst14; simp [c15Get_set, h13P]
        · subst hst14 hst13 hst11 hst10; simp [c15Get_set]
        · subst hst14 hst13 hst11; simp [c15Get_set]
        · subst hst14 hst13; simp [c15Get_set]
      · subst hst14; simp [c15Get_set, h13eq]
      · subst hst14; simp [c15Get_set]
      · simp [c15Get_set]

theorem eraseDups_nodup : ∀ l : List String, l.Nodup → l.eraseDups = l
  | [], _ => rfl
  | a :: as, h => by
    have h' := List.nodup_cons.1 h
    have hf : as.filter (fun b => !b == a) = as := by
      rw [List.filter_eq_self]
      intro b hb
      have : b ≠ a := fun he => h'.1 (he ▸ hb)
      simp [this]
    rw [List.eraseDups_cons, hf, eraseDups_nodup as h'.2]

theorem rows_rect (U params : List Expr) (eqs : List (Expr × Expr)) (rows : List ARow)
    (h : eqs.mapM (assembleRow U params) = .ok rows) : Rect U.length (params.length + 1) rows := by
  intro r hr
  obtain ⟨eq, _, heq⟩ := mapM_mem eqs rows h r hr
  exact assembleRow_length heq

theorem mapM_length {α β : Type} {f : α → CR β} : ∀ (l : List α) (rs : List β),
    l.mapM f = .ok rs → rs.length = l.length
  | [], rs, h => by simp [pure, Except.pure] at h; subst h; rfl
  | a :: l, rs, h => by
    simp only [List.mapM_cons, bind, Except.bind] at h
    cases hfa : f a with
    | error e => simp [hfa] at h
    | ok b =>
      cases hr : l.mapM f with
      | error e => simp [hfa, hr] at h
      | ok bs =>
        simp [hfa, hr, pure, Except.pure] at h
        subst h
        simp [mapM_length l bs hr]

/-- **The call `solve_affine_equations_for(unknowns, equations)` of the literal table is
`solveAffine`.**  `S`: the parameter set as the loop builds it; `params`: the order in which
`list(parameters)` enumerates it (the oracle of the run). -/
theorem call_solve (base : C15Ctx) (f : Nat) (names : List String) (eqs : List (Expr × Expr))
    (hn : names.Nodup) (hw : base.wfuel = names.length)
    (hcoll : base.collect = c15CoeffsT c15ExpTable) (hinit : base.init = c15ExpInit) :
    match paramSetL (names.map Expr.var) [] eqs with
    | .error e => c15CallFn c15ExpTable base (f + 4) "solve_affine_equations_for"
        [.list (names.map .str), .list (eqs.map eqVal)] = .error (.py e)
    | .ok S => match base.order S with
      | none => c15CallFn c15ExpTable base (f + 4) "solve_affine_equations_for"
          [.list (names.map .str), .list (eqs.map eqVal)] = .error (.py .noClaim)
      | some params => DistinctE params → params.Perm S →
        c15CallFn c15ExpTable base (f + 4) "solve_affine_equations_for"
          [.list (names.map .str), .list (eqs.map eqVal)] =
            (c15LiftCR (solveAffine names eqs params)).map .dict := by
  rw [show f + 4 = (f + 3) + 1 from rfl, callFn_succ, exp_fn_solve]
  generalize hctx : ({ base with callFn := c15CallFn c15ExpTable base (f + 3) } : C15Ctx) = ctx
  have hcall : ctx.callFn = c15CallFn c15ExpTable base (f + 3) := by subst hctx; rfl
  have hwf : ctx.wfuel = names.length := by subst hctx; exact hw
  have hcoll' : ctx.collect = c15CoeffsT c15ExpTable := by subst hctx; exact hcoll
  have hinit' : ctx.init = c15ExpInit := by subst hctx; exact hinit
  have hord : ctx.order = base.order := by subst hctx; rfl
  simp only [expSolveFn, c15BindParams, if_true]
  have hpre := solve_preamble ctx hinit' names eqs hn
  rw [hord] at hpre
  cases hps : paramSetL (names.map Expr.var) [] eqs with
  | error e =>
    simp only [hps] at hpre; simp [hpre, c15Result, throw, throwThe, MonadExceptOf.throw]
  | ok S =>
    simp only [hps] at hpre
    cases hor : base.order S with
    | none =>
      simp only [hor] at hpre
      simp [hpre, c15Result, throw, throwThe, MonadExceptOf.throw, hor]
    | some params =>
      simp only [hor] at hpre ⊢
      intro hdp hperm
      obtain ⟨st15, e15, hs15, heq15, hm15, hr15⟩ := hpre hdp hperm.length_eq
      rw [e15]
      simp only [expSolveBody, List.drop]
      have hU : DistinctE (names.map Expr.var) := distinct_vars names hn
      have hUl : (names.map Expr.var).length = names.length := by simp
      -- the matrix assembly
      have hasm := assemble_loop ctx hcoll' (names.map Expr.var) S params hperm eqs st15 [] [] hs15
        (by simpa [hUl] using hm15) (by simpa using hr15) rfl
      rw [execL_cons, exec_forIn, eval_enumerate ctx st15 "equations" _ heq15]
      simp only [c15Items]
      have hnd : (names.eraseDups.length != names.length) = false := by
        rw [eraseDups_nodup names hn]; simp
      simp only [solveAffine, hnd, Bool.false_eq_true, if_false, bind, Except.bind]
      cases hrows : eqs.mapM (assembleRow (names.map Expr.var) params) with
      | error e =>
        simp only [hrows] at hasm
        simp only [List.length_nil] at hasm
        simp only [hasm]
        simp [c15Result, c15LiftCR, Except.map, throw, throwThe, MonadExceptOf.throw]
      | ok rows =>
        simp only [hrows, List.length_nil, List.nil_append] at hasm
        obtain ⟨st16, e16, hs16, hm16, hr16, hfr16⟩ := hasm
        simp only [e16]
        -- the elimination
        have hrl : rows.length = eqs.length := mapM_length eqs rows hrows
        have hgauss : (C15E.call "gaussian_elimination" [.var "mat", .var "rhs_mat"]).eval ctx st16 =
            .ok (.pair (.arr names.length ((gaussElim eqs.length names.length rows).map (·.1)))
              (.arr (params.length + 1) ((gaussElim eqs.length names.length rows).map (·.2)))) := by
          simp only [eval_call, evalL_cons, evalL_nil, eval_var ctx _ st16 _ hm16,
            eval_var ctx _ st16 _ hr16, bind, Except.bind, pure, Except.pure, builtin_gauss, hcall, hUl]
          rw [call_gauss base f names.length (params.length + 1) rows hw, hrl]
        generalize hst17 : c15Set "rhs_mat" (.arr (params.length + 1)
            ((gaussElim eqs.length names.length rows).map (·.2)))
          (c15Set "mat" (.arr names.length ((gaussElim eqs.length names.length rows).map (·.1))) st16)
            = st17
        have e17 : C15S.exec ctx (.assign (.tup2 (.name "mat") (.name "rhs_mat"))
            (.call "gaussian_elimination" [.var "mat", .var "rhs_mat"])) st16 = .ok st17 := by
          simp only [C15S.exec, hgauss, c15Bind, Option.bind, hst17]
        have hs17 : SSt st17 (names.map Expr.var) S params := by
          subst hst17; exact (hs16.set _ _ (by simp [sCore])).set _ _ (by simp [sCore])
        generalize hst18 : c15Set "result" (.dict []) st17 = st18
        have e18 : C15S.exec ctx (.assign (.name "result") .emptyDict) st17 = .ok st18 := by
          simp [exec_assign_name, C15E.eval, pure, Except.pure, hst18]
        have hs18 : SSt st18 (names.map Expr.var) S params := by
          subst hst18; exact hs17.set _ _ (by simp [sCore])
        rw [execL_cons_ok ctx _ _ st16 st17 e17, execL_cons_ok ctx _ _ st17 st18 e18]
        -- the read-off
        have hrect : ∀ r ∈ gaussElim eqs.length names.length rows, r.2.length = params.length + 1 := by
          have h1 := rows_rect (names.map Expr.var) params eqs rows hrows
          have h2 := (gaussElim_spec (x := fun _ => 0) (p := fun _ => 0) eqs.length names.length rows h1).2
          exact fun r hr => (h2 r hr).2
        have hread := read_loop ctx (names.map Expr.var) S params names.length params.length
          (gaussElim eqs.length names.length rows) hrect rfl (names.map Expr.var) 0 st18 [] hs18
          (by subst hst18 hst17; simp [c15Get_set]) (by subst hst18 hst17; simp [c15Get_set])
          (by subst hst18; simp [c15Get_set]) (by simp) (by simp) hU
        have hun18 : c15Get "unknowns" st18 = some (.list ((names.map Expr.var).map .ex)) := hs18.hU
        rw [execL_cons, exec_forIn, eval_enumerate ctx st18 "unknowns" _ hun18]
        simp only [c15Items]
        simp only [List.length_map, List.nil_append] at hread
        rw [List.range_eq_range']
        cases hsr : solveRows params (gaussElim eqs.length names.length rows)
            (List.range' 0 names.length) with
        | error e =>
          simp only [hsr, hUl] at hread ⊢
          simp only [hread]
          simp [c15Result, c15LiftCR, Except.map, throw, throwThe, MonadExceptOf.throw]
        | ok vals =>
          simp only [hsr, hUl] at hread ⊢
          obtain ⟨st19, e19, hres19⟩ := hread
          simp only [e19]
          simp [C15S.execL, C15S.exec, C15E.eval, hres19, c15Result, c15LiftCR, Except.map, pure,
            Except.pure]

theorem unionPy_forward (l : List Expr) : ∀ acc : List Expr, DistinctE acc → DistinctE (unionPy acc l) := by
  induction l with
  | nil => intro acc h; simpa [unionPy] using h
  | cons x l ih =>
    intro acc h
    simp only [unionPy, List.foldl_cons]
    by_cases hx : acc.any (fun y => y.pyEq x) = true
    · simp only [hx, if_true]; exact ih acc h
    · simp only [hx, Bool.false_eq_true, if_false]
      apply ih
      unfold DistinctE at *
      rw [List.pairwise_append]
      refine ⟨h, List.pairwise_singleton _ _, ?_⟩
      intro a ha b hb
      simp only [List.mem_singleton] at hb
      subst hb
      simp only [List.any_eq_true, not_exists, not_and] at hx
      simpa using hx a ha

/-- the parameter set the loop builds has no two `==` elements (in its own order) -/
theorem paramSetL_distinct (U : List Expr) : ∀ (eqs : List (Expr × Expr)) (acc S : List Expr),
    DistinctE acc → paramSetL U acc eqs = .ok S → DistinctE S
  | [], acc, S, h, hS => by simp [paramSetL, pure, Except.pure] at hS; subst hS; exact h
  | (l, r) :: rest, acc, S, h, hS => by
    simp only [paramSetL, bind, Except.bind] at hS
    cases hdl : (deps compositeFlags l).mapError depErr with
    | error e => simp [hdl] at hS
    | ok dl =>
      cases hdr : (deps compositeFlags r).mapError depErr with
      | error e => simp [hdl, hdr] at hS
      | ok dr =>
        simp only [hdl, hdr] at hS
        exact paramSetL_distinct U rest _ S (unionPy_forward _ _ (unionPy_forward _ _ h)) hS

/-- **`solve_affine_equations_for` as the literal table has it IS `solveAffine`.**  `order`: the
enumeration order of the parameter set (the one thing the program text does not determine). -/
theorem runSolve_exp (order : List Expr → Option (List Expr)) (names : List String)
    (eqs : List (Expr × Expr)) (hn : names.Nodup) :
    match paramSetL (names.map Expr.var) [] eqs with
    | .error e => c15RunSolve c15ExpTable order names eqs = .error (.py e)
    | .ok S => match order S with
      | none => c15RunSolve c15ExpTable order names eqs = .error (.py .noClaim)
      | some params => DistinctE params → params.Perm S →
        c15RunSolve c15ExpTable order names eqs = c15LiftCR (solveAffine names eqs params) := by
  have h := call_solve (c15AlgoCtx c15ExpTable order names.length) 1 names eqs hn rfl rfl rfl
  have hmap : (eqs.map fun lr => C15Val.pair (.ex lr.1) (.ex lr.2)) = eqs.map eqVal := rfl
  unfold c15RunSolve
  rw [hmap]
  cases hps : paramSetL (names.map Expr.var) [] eqs with
  | error e =>
    simp only [hps] at h
    simp only [show (5 : Nat) = 1 + 4 from rfl, h, bind, Except.bind]
  | ok S =>
    simp only [hps] at h ⊢
    have hord : (c15AlgoCtx c15ExpTable order names.length).order = order := rfl
    rw [hord] at h
    cases hor : order S with
    | none =>
      simp only [hor] at h
      simp only [show (5 : Nat) = 1 + 4 from rfl, h, bind, Except.bind]
    | some params =>
      simp only [hor] at h ⊢
      intro hd hp
      simp only [show (5 : Nat) = 1 + 4 from rfl, h hd hp, bind, Except.bind]
      cases solveAffine names eqs params <;> rfl

end PV.Coeff
