import PV.Model.CCodeTable
/-
  C14 (T-gen).  Lemmas for the tie of the hand-written C mapper model (PV/Model/CCode.lean) to the
  table interpreter (PV/Model/CCodeTable.lean): what the printed structure `Doc` renders to, in
  terms of Python's string operations (`join`, `%`-formatting, `+`), independent of any table.
-/
namespace PV.C14
open PV

/-- the text of a printer result -/
def outText (x : COut) : String × List String × CSt := (x.1.render, x.2.1, x.2.2)

/-- a structure printer seen as a text printer -/
def textPrinter (f : CSt → Expr → Nat → Except CErr COut) : C14Printer :=
  fun st e enc => (f st e enc).map outText

def outsText (x : List Doc × List String × CSt) : List String × List String × CSt :=
  (x.1.map Doc.render, x.2.1, x.2.2)

theorem printAll_text (f : CSt → Expr → Nat → Except CErr COut) :
    ∀ pl st, (printAll f st pl).map outsText = c14PrintAll (textPrinter f) st pl := by
  intro pl
  induction pl with
  | nil => intro st; rfl
  | cons x rest ih =>
    intro st
    obtain ⟨e, enc⟩ := x
    simp only [printAll, c14PrintAll, textPrinter, bind, Except.bind]
    cases h1 : f st e enc with
    | error err => rfl
    | ok v =>
      obtain ⟨d1, r1, st1⟩ := v
      simp only [Except.map, outText]
      rw [← ih st1]
      cases h2 : printAll f st1 rest with
      | error err => rfl
      | ok w =>
        obtain ⟨ds2, r2, st2⟩ := w
        rfl

theorem printAll_length (f : CSt → Expr → Nat → Except CErr COut) :
    ∀ pl st ds r st', printAll f st pl = .ok (ds, r, st') → ds.length = pl.length := by
  intro pl
  induction pl with
  | nil =>
    intro st ds r st' h
    simp only [printAll, pure, Except.pure, Except.ok.injEq, Prod.mk.injEq] at h
    rw [← h.1]
    rfl
  | cons x rest ih =>
    intro st ds r st' h
    obtain ⟨e, enc⟩ := x
    simp only [printAll, bind, Except.bind] at h
    cases h1 : f st e enc with
    | error err => simp [h1] at h
    | ok v =>
      obtain ⟨d1, r1, st1⟩ := v
      simp only [h1] at h
      cases h2 : printAll f st1 rest with
      | error err => simp [h2] at h
      | ok w =>
        obtain ⟨ds2, r2, st2⟩ := w
        simp only [h2, pure, Except.pure, Except.ok.injEq, Prod.mk.injEq] at h
        rw [← h.1, List.length_cons, List.length_cons, ih st1 ds2 r2 st2 h2]

/-! ### `join` -/

/-- `sep + x1 + sep + x2 + …` -/
def tailJoin (sep : String) : List String → String
  | [] => ""
  | x :: xs => sep ++ x ++ tailJoin sep xs

theorem intercalate_cons (sep t : String) (l : List String) :
    sep.intercalate (t :: l) = t ++ tailJoin sep l := by
  induction l generalizing t with
  | nil => simp [tailJoin]
  | cons u l ih =>
    rw [String.intercalate_cons_cons, ih u]
    simp [tailJoin, String.append_assoc]

theorem render_foldl_bin (op : COp) (ds : List Doc) (acc : Doc) :
    (ds.foldl (fun a x => Doc.bin a op x) acc).render
      = acc.render ++ tailJoin op.text (ds.map Doc.render) := by
  induction ds generalizing acc with
  | nil => simp [tailJoin]
  | cons d ds ih =>
    simp only [List.foldl_cons, List.map_cons, ih, Doc.render, tailJoin, String.append_assoc]

/-- `joiner.join(strings)` is what the chain of infix nodes renders to -/
theorem render_joinDocs (op : COp) (ds : List Doc) :
    (joinDocs op ds).render = op.text.intercalate (ds.map Doc.render) := by
  cases ds with
  | nil => simp [joinDocs, Doc.render]
  | cons d ds =>
    simp only [joinDocs, List.map_cons, intercalate_cons, render_foldl_bin]

/-! ### `sort` -/

theorem insertDoc_render (rev : Bool) (x : Doc) (ds : List Doc) :
    (insertDoc rev x ds).map Doc.render = c14InsertStr rev x.render (ds.map Doc.render) := by
  induction ds with
  | nil => rfl
  | cons y ys ih =>
    simp only [insertDoc, List.map_cons, c14InsertStr]
    split
    · rfl
    · simp only [List.map_cons, ih]

theorem sortDocs_render (rev : Bool) (ds : List Doc) :
    (sortDocs rev ds).map Doc.render = c14SortStrs rev (ds.map Doc.render) := by
  induction ds with
  | nil => rfl
  | cons x xs ih => simp only [sortDocs, insertDoc_render, ih, List.map_cons, c14SortStrs]

/-! ### `%`-formatting of the negatives of a sum -/

theorem formatEach_one (a b : String) (l : List String) :
    c14FormatEach [a, b] l = some (l.map fun x => a ++ x ++ b) := by
  induction l with
  | nil => rfl
  | cons x xs ih => simp [c14FormatEach, c14Format, ih]

theorem intercalate_empty_map (a : String) (l : List String) :
    "".intercalate (l.map fun x => a ++ x ++ "") = tailJoin a l := by
  cases l with
  | nil => simp [tailJoin]
  | cons x xs =>
    rw [List.map_cons, intercalate_cons]
    induction xs generalizing x with
    | nil => simp [tailJoin]
    | cons y ys ih =>
      simp only [List.map_cons, tailJoin, String.empty_append, String.append_empty] at ih ⊢
      rw [← ih y]

/-! ### forced parentheses -/

theorem parenIfD_render (d : Doc) (enc my : Nat) :
    (parenIfD d enc my).render = if enc > my then "(" ++ d.render ++ ")" else d.render := by
  unfold parenIfD
  split <;> rfl

/-! ## the model against a table row with the expected entries

Each `…Spec` lists what the hand-written model assumes about one piece of the source; the lemmas
prove the model equal to the table interpreter for ANY row with these entries
(PV/Properties/C14Table.lean shows that the regenerated rows have them). -/

/-- what the model's `negProd` assumes about `get_neg_product` -/
structure SumNegSpec (r : C14SumRow) : Prop where
  cls : r.negCls = "Product"
  field : r.negField = "children"
  nonEmpty : r.negNonEmpty = true
  headIndex : r.negHeadIndex = 0
  headPlus : r.negHeadPlus = 1
  twoLen : r.negTwoLen = 2
  twoIndex : r.negTwoIndex = 1
  restCls : r.negRestCls = "Product"
  restFrom : r.negRestFrom = 1

theorem negProd_eq_row (r : C14SumRow) (h : SumNegSpec r) (ch : Expr) :
    negProd ch = c14NegProdT r ch := by
  unfold c14NegProdT
  rw [h.cls, h.field, h.nonEmpty, h.headIndex, h.headPlus, h.twoLen, h.twoIndex, h.restCls,
    h.restFrom]
  cases ch with
  | nary o cs =>
    cases o <;> try rfl
    cases cs with
    | nil => rfl
    | cons c0 rest =>
      simp only [negProd]
      have : c14IsInst (.nary .prod (c0 :: rest)) "Product" = true := rfl
      rw [this]
      simp only [if_true]
      have hz : c14PlusIsZero c0 1 = plusOneIsZero c0 := rfl
      show _ = (match c14PlusIsZero c0 1 with | .error err => _ | .ok false => _ | .ok true => _)
      rw [hz]
      cases plusOneIsZero c0 with
      | error err => rfl
      | ok b =>
        cases b with
        | false => rfl
        | true =>
          cases rest with
          | nil => rfl
          | cons b1 rest2 =>
            cases rest2 with
            | nil => rfl
            | cons b2 rest3 => rfl
  | bin o _ _ => cases o <;> rfl
  | un o _ => cases o <;> rfl
  | _ => rfl

theorem sumPlan_eq_row (S : PrintPrec) (r : C14SumRow) (h : SumNegSpec r)
    (hn : r.negPrec = .named "PREC_PRODUCT") (hp : r.posPrec = .named "PREC_SUM") (enc : Nat) :
    ∀ cs, sumPlan S cs = c14SumPlanL r S enc cs := by
  intro cs
  induction cs with
  | nil => rfl
  | cons ch cs ih =>
    simp only [sumPlan, c14SumPlanL, ← negProd_eq_row r h, hn, hp, bind, Except.bind, ← ih]
    cases negProd ch with
    | error err => rfl
    | ok np =>
      cases np with
      | none => cases sumPlan S cs <;> rfl
      | some x => cases sumPlan S cs <;> rfl

theorem sumSplit_eq_row (r : C14SumRow) (h : SumNegSpec r) :
    ∀ (cs : List Expr) (ds : List Doc),
      ((sumSplit cs ds).1.map Doc.render, (sumSplit cs ds).2.map Doc.render)
        = c14SumSplit r cs (ds.map Doc.render) := by
  intro cs
  induction cs with
  | nil => intro ds; rfl
  | cons ch cs ih =>
    intro ds
    cases ds with
    | nil => rfl
    | cons d ds =>
      simp only [sumSplit, c14SumSplit, List.map_cons, ← negProd_eq_row r h, ← ih ds]
      cases negProd ch with
      | error err => rfl
      | ok np => cases np <;> rfl

/-- the case distinction of the model's `powPlan`, with the squared base written as `c14MulE` -/
theorem powPlan_eq (a b : Expr) : powPlan a b = (match b with
    | .const c =>
      if !b.isConstant then pure .powCall else if !c.truthy then pure .one
      else if c.isOne then pure .base
      else if c.isTwo then (c14MulE a a).map PowPlan.square else pure .powCall
    | _ => pure .powCall) := by
  cases b with
  | const c =>
    simp only [powPlan]
    split
    · rfl
    split
    · rfl
    split
    · rfl
    split
    · cases a <;> simp only [c14MulE] <;> split <;>
        (try simp_all [Except.map, pure, Except.pure]) <;> (try rfl)
    · rfl
  | _ => rfl

/-- what the model assumes about the helper methods of the stringifier -/
structure HelpersSpec (H : C14Helpers) : Prop where
  format : H.formatIsPercent = true
  joinRec : H.joinRecIsJoinOfForced = true
  join : H.joinIsJoin = true
  forceTest : H.forceTest = "isinstance"
  forceDefault : H.forceDefaultEmpty = true
  forceOpen : H.forceOpen = "("
  forceClose : H.forceClose = ")"
  parenOpen : H.parenOpen = "("
  parenClose : H.parenClose = ")"
  parenIfCmp : H.parenIfCmp = "gt"
  parenIfOpen : H.parenIfOpen = "("
  parenIfClose : H.parenIfClose = ")"

theorem parenIfS_spec {H : C14Helpers} (h : HelpersSpec H) (s : String) (enc my : Nat) :
    c14ParenIfS H s enc my = .ok (if enc > my then "(" ++ s ++ ")" else s) := by
  simp only [c14ParenIfS, h.parenIfCmp, h.parenIfOpen, h.parenIfClose, c14Cmp]
  by_cases hh : enc > my <;> simp [hh, pure, Except.pure]

theorem isMult_eq (a : Expr) :
    isMultiplicative a = c14AnyInst a ["Product", "Quotient", "FloorDiv", "Remainder"] := by
  cases a with
  | nary o _ => cases o <;> rfl
  | bin o _ _ => cases o <;> rfl
  | un o _ => cases o <;> rfl
  | _ => rfl

theorem forceWrapD_render {H : C14Helpers} (h : HelpersSpec H) (a : Expr) (x : Doc) :
    (forceWrapD a x).render
      = c14ForceS H ["Product", "Quotient", "FloorDiv", "Remainder"] a x.render := by
  simp only [forceWrapD, c14ForceS, isMult_eq, h.forceOpen, h.forceClose]
  split <;> rfl

theorem forceAll_nil (H : C14Helpers) : ∀ (cs : List Expr) (ss : List String),
    cs.length = ss.length → c14ForceAll H [] cs ss = ss
  | [], [], _ => rfl
  | c :: cs, s :: ss, h => by
      have : c14ForceS H [] c s = s := rfl
      simp only [c14ForceAll, this, forceAll_nil H cs ss (by simpa using h)]
  | [], _ :: _, h => by simp at h
  | _ :: _, [], h => by simp at h

theorem len0 {α : Type} {l : List α} (h : l.length = 0) : l = [] := List.eq_nil_of_length_eq_zero h
theorem len1 {α : Type} {l : List α} (h : l.length = 1) : ∃ x, l = [x] := by
  match l, h with
  | [x], _ => exact ⟨x, rfl⟩
theorem len2 {α : Type} {l : List α} (h : l.length = 2) : ∃ x y, l = [x, y] := by
  match l, h with
  | [x, y], _ => exact ⟨x, y, rfl⟩
theorem len3 {α : Type} {l : List α} (h : l.length = 3) : ∃ x y z, l = [x, y, z] := by
  match l, h with
  | [x, y, z], _ => exact ⟨x, y, z, rfl⟩

theorem take_len_map {α β : Type} (f : α → β) (l : List α) :
    (l.map f).take l.length = l.map f := by
  have := List.take_length (l := l.map f)
  simpa using this

theorem drop_len_map {α β : Type} (f : α → β) (l : List α) : (l.map f).drop l.length = [] := by
  have := List.drop_length (l := l.map f)
  simpa using this

theorem isInst_variable (g : Expr) :
    c14IsInst g "Variable" = (match g with | .var _ => true | _ => false) := by
  cases g with
  | nary o _ => cases o <;> rfl
  | bin o _ _ => cases o <;> rfl
  | un o _ => cases o <;> rfl
  | _ => rfl

/-- what the model's sum assumes about the rest of `map_sum` -/
structure SumAsmSpec (r : C14SumRow) : Prop where
  field : r.field = "children"
  posSorted : r.posSorted = true
  negSorted : r.negSorted = true
  posSep : r.posSep = " + "
  negPieces : r.negPieces = [" - ", ""]
  negSep : r.negSep = ""
  posFirst : r.posFirst = true
  ownEnc : r.ownEnc = .enclosing
  ownPrec : r.ownPrec = .named "PREC_SUM"

theorem sumAsm_eq_row (r : C14SumRow) (hn : SumNegSpec r) (ha : SumAsmSpec r) {H : C14Helpers}
    (hH : HelpersSpec H) (S : PrintPrec) (rev : Bool) (enc : Nat) (cs : List Expr) (ds : List Doc) :
    (assemble S rev (.nary .sum cs) enc ds).map Doc.render
      = c14SumAsm r S H rev (.nary .sum cs) enc (ds.map Doc.render) := by
  unfold c14SumAsm
  rw [ha.field, ha.posSorted, ha.negSorted, ha.posSep, ha.negPieces, ha.negSep, ha.posFirst,
    ha.ownEnc, ha.ownPrec]
  have he : c14Elems (.nary .sum cs) "children" = .ok cs := rfl
  simp only [he, ← sumSplit_eq_row r hn cs ds, if_true, ← sortDocs_render, formatEach_one,
    intercalate_empty_map, C14Prec.eval, c14PrecNamed, parenIfS_spec hH, assemble, pure,
    Except.pure, Except.map, parenIfD_render, render_foldl_bin, render_joinDocs, COp.text]

theorem render_parens (ps : List Piece) : render (parens ps) = "(" ++ render ps ++ ")" := by
  apply String.toList_inj.mp
  simp [render, parens, String.toList_join, String.toList_append, sy, Tok.text]

/-- what the model's `constDoc` assumes about `map_constant` -/
structure ConstSpec (r : C14ConstRow) : Prop where
  textOf : r.textOf = "str"
  bracketOpen : r.bracketOpen = "("
  bracketClose : r.bracketClose = ")"
  signs : r.signs = ["-", "+"]
  guardCmp : r.guardCmp = "gt"
  guardPrec : r.guardPrec = .named "PREC_SUM"
  wraps : r.wrapsWithParenthesize = true

theorem constAsm_eq_row (r : C14ConstRow) (hr : ConstSpec r) {H : C14Helpers} (hH : HelpersSpec H)
    (S : PrintPrec) (c : Const) (enc : Nat) :
    (constDoc S c enc).map Doc.render = c14ConstAsm r S H c enc := by
  unfold c14ConstAsm
  rw [hr.signs, hr.guardCmp, hr.guardPrec, hr.wraps, hH.parenOpen, hH.parenClose]
  cases c with
  | int n =>
    simp [constDoc, c14ConstBody, C14Prec.eval, c14PrecNamed, c14Cmp, c14ConstBracketed,
      c14ConstHas, pure, Except.pure, Except.map]
    by_cases h1 : n < 0 <;> by_cases h2 : enc > S.sum <;> simp [h1, h2, Doc.render]
  | bool b =>
    simp [constDoc, constPieces, c14ConstBody, C14Prec.eval, c14PrecNamed, c14Cmp,
      c14ConstBracketed, c14ConstHas, pure, Except.pure, Except.map, Doc.render]
  | flt s n d =>
    by_cases hd : d = 0
    · simp [constDoc, constPieces, c14ConstBody, hd, Except.map]
      rfl
    · simp [constDoc, constPieces, c14ConstBody, hd, C14Prec.eval, c14PrecNamed, c14Cmp,
        c14ConstBracketed, c14ConstHas, pure, Except.pure, Except.map]
      by_cases hneg : ['-'] <+: s.toList <;> by_cases hpl : '+' ∈ s.toList <;>
        by_cases hm : '-' ∈ s.toList <;> by_cases h2 : S.sum < enc <;>
        simp [hneg, hpl, hm, h2, Doc.render, render_parens]
  | str s => rfl
  | none => rfl

/-- what the model's `ccodeCse` / `candName` assume about `map_common_subexpression` -/
structure CseSpec (r : C14CseRow) : Prop where
  keyField : r.keyField = "child"
  missExc : r.missExc = "KeyError"
  recArg : r.recArg = .field "child"
  recPrec : r.recPrec = .named "PREC_NONE"
  prefixField : r.prefixField = "prefix"
  withFirst : r.withFirst = [.selfPrefix, .lit "_", .exprPrefix]
  withStart : r.withStart = 2
  withNext : r.withNext = [.selfPrefix, .lit "_", .exprPrefix, .lit "_", .counter]
  withoutStart : r.withoutStart = 0
  withoutNext : r.withoutNext = [.selfPrefix, .counter]
  takenIn : r.takenIn = "cse_names"
  effects : r.effects = [.appendList true, .storeToName "child", .addName, .assertSameLen]
  returnsName : r.returnsName = true

theorem cand_eq_row (r : C14CseRow) (h : CseSpec r) (pfx : String) (p : Option String) :
    c14CandT r pfx p = candName pfx p := by
  funext i
  unfold c14CandT candName
  rw [h.withFirst, h.withStart, h.withNext, h.withoutStart, h.withoutNext]
  cases p with
  | none => simp [c14Cat, C14NamePart.text]
  | some q =>
    by_cases hi : i = 0
    · simp [hi, c14Cat, C14NamePart.text]
    · have : 2 + (i - 1) = i + 1 := by omega
      simp [hi, c14Cat, C14NamePart.text, this]

theorem cse_eq_row (r : C14CseRow) (h : CseSpec r) (S : PrintPrec)
    (f : CSt → Expr → Nat → Except CErr COut) (st : CSt) (c : Expr) (p : Option String)
    (sc : String) (enc : Nat) :
    (ccodeCse S f st c p).map outText = c14CseT r S (textPrinter f) st c p sc enc := by
  unfold c14CseT ccodeCse
  rw [h.keyField, h.missExc, h.recArg, h.recPrec, h.prefixField, h.takenIn, h.effects,
    h.returnsName]
  simp only [cand_eq_row r h]
  have hk : c14CseKey "child" c p sc = .ok c := rfl
  simp only [hk]
  by_cases hl : c.hasList = true
  · simp [hl]; rfl
  · simp only [hl]
    cases hf : st.toName.find? (fun kv => kv.1.eq (.expr c)) with
    | some kv => simp [Except.map, outText, pure, Except.pure, Doc.render]
    | none =>
      simp [C14Arg.eval, c14Field, C14Prec.eval, c14PrecNamed, textPrinter, pure, Except.pure]
      cases hff : f st c S.none with
      | error err => rfl
      | ok v =>
        obtain ⟨d, rr, st1⟩ := v
        simp [Except.map, outText, freshName]
        cases firstFree st1.names (candName st1.pfx p) (st1.names.length + 1) 0 with
        | none => rfl
        | some n =>
          have hk2 : c14CseKey "child" c p sc = .ok c := rfl
          simp only [c14CseEffects, c14CseEffectRun, hk2, if_true]
          cases hf1 : st1.toName.find? (fun kv => kv.1.eq (.expr c)) with
          | some kv => simp [hf1, pure, Except.pure, throw, throwThe, MonadExceptOf.throw]
          | none => simp [hf1, pure, Except.pure, Doc.render]

theorem dictOf_second_first (l : List CEntry) :
    c14DictOf .second .first l = some (l.foldl (fun d e => dictSet d e.val e.name) []) := by
  unfold c14DictOf
  generalize ([] : List (CCKey × String)) = d
  induction l generalizing d with
  | nil => rfl
  | cons e l ih =>
    simp only [List.foldl_cons, C14Sel.str, C14Sel.key] at ih ⊢
    exact ih _

end PV.C14
