import PV.Proofs.StrTable
/-
  C06, T-gen tie — the unfolding tactic and the step lemmas of PV/Properties/C06Table.lean.
-/
namespace PV.C06T
open PV

/-- everything the interpreter is made of, and every entry of the regenerated table -/
macro "c06t_run" : tactic => `(tactic|
  simp [c06tStr, strE, c06tClass, c06tForeign, c06tRunHandler, c06tEvalP, c06tEvalE, c06tEvalArgs,
    c06tEvalCond, c06tAssoc, c06tPrec, c06tPrecBase, c06tFill, c06tJoin, c06tOpt, c06tBad,
    C06TCmp.holds, C06TVal.pieces, C06TVal.list, C06TCtx.items, c06t_h_parenthesize, c06t_h_parenIfCmp, c06t_h_parenIfWrap,
    c06t_h_forceDefault, c06t_h_forceWrap,
    NaryOp.name, BinOp.name, UnOp.name, BinOp.c06tFields, parenIf, parens,
    c06t_cls_Variable, c06t_cls_Sum, c06t_cls_Product, c06t_cls_BitwiseOr, c06t_cls_BitwiseXor,
    c06t_cls_BitwiseAnd, c06t_cls_LogicalOr, c06t_cls_LogicalAnd, c06t_cls_Min, c06t_cls_Max,
    c06t_cls_Quotient, c06t_cls_FloorDiv, c06t_cls_Remainder, c06t_cls_Power, c06t_cls_LeftShift,
    c06t_cls_RightShift, c06t_cls_BitwiseNot, c06t_cls_LogicalNot, c06t_cls_Comparison, c06t_cls_If,
    c06t_cls_Call, c06t_cls_CallWithKwargs, c06t_cls_Subscript, c06t_cls_Lookup,
    c06t_cls_CommonSubexpression, c06t_cls_Substitution, c06t_cls_Derivative, c06t_cls_Slice,
    c06t_cls_NaN, c06t_cls_Wildcard, c06t_cls_DotWildcard, c06t_cls_StarWildcard,
    c06t_cls_FunctionSymbol,
    c06t_body_map_algebraic_leaf, c06t_body_map_bitwise_and, c06t_body_map_bitwise_not,
    c06t_body_map_bitwise_or, c06t_body_map_bitwise_xor, c06t_body_map_call,
    c06t_body_map_call_with_kwargs, c06t_body_map_common_subexpression, c06t_body_map_comparison,
    c06t_body_map_constant, c06t_body_map_derivative, c06t_body_map_floor_div,
    c06t_body_map_function_symbol, c06t_body_map_if, c06t_body_map_left_shift, c06t_body_map_list,
    c06t_body_map_logical_and, c06t_body_map_logical_not, c06t_body_map_logical_or,
    c06t_body_map_lookup, c06t_body_map_max, c06t_body_map_min, c06t_body_map_nan,
    c06t_body_map_power, c06t_body_map_product, c06t_body_map_quotient, c06t_body_map_remainder,
    c06t_body_map_right_shift, c06t_body_map_slice, c06t_body_map_subscript,
    c06t_body_map_substitution, c06t_body_map_sum, c06t_body_map_tuple, c06t_body_map_variable,
    c06t_body_map_wildcard,
    c06t_lit_0, c06t_lit_1, c06t_lit_2, c06t_lit_3, c06t_lit_4, c06t_lit_5, c06t_lit_6, c06t_lit_7,
    c06t_lit_8, c06t_lit_9, c06t_lit_10, c06t_lit_11, c06t_lit_12, c06t_lit_13, c06t_lit_14,
    c06t_lit_15, c06t_lit_16, c06t_lit_17, c06t_lit_18, c06t_lit_19, c06t_lit_20, c06t_lit_21,
    c06t_lit_22, c06t_lit_23, c06t_lit_24, c06t_lit_25, c06t_lit_26, c06t_lit_27, c06t_lit_28,
    c06t_lit_29, c06t_lit_30, c06t_lit_31, c06t_lit_32, c06t_lit_33, c06t_lit_34,
    c06t_foreign_int, c06t_foreign_bool, c06t_foreign_float, c06t_foreign_str, c06t_foreign_none, c06t_foreign_tuple, c06t_foreign_list, c06t_foreign_else,
    runAll_plain, runAll_force_nil, runAll_force_div, runAllOpt_eq, recForce_mult, recForce_nil,
    recForce_div, forceWrap, fillPairs_kw, kidsOf_length, constPieces, Const.c06tBody,
    Const.c06tTest, Const.c06tKind, c06tErrOfExc, ite_pure_eq, *])

/-- `map_subscript` of the current source on a node whose index is not a tuple -/
theorem subscript_nt_step (S : PrintPrec) (a i : Expr) (hi : ∀ cs, i ≠ .tuple cs)
    (iha : c06tStr tableCurrent true S a = strE S a)
    (ihi : c06tStr tableCurrent true S i = strE S i) (enc : Nat) :
    c06tStr tableCurrent true S (.subscript a i) enc = strE S (.subscript a i) enc := by
  have hi' : ∀ cs, i = .tuple cs → False := hi
  have hc := cls_ne_tuple i hi
  rw [c06tStr, strE, iha, ihi]
  · generalize strE S i = fi
    generalize i.c06tCls = ci at hc
    c06t_run
  · exact hi'
  · exact hi'

/-- `map_constant` of the current source on a float -/
theorem const_flt_step (S : PrintPrec) (r : String) (n : Int) (d enc : Nat) :
    c06tStr tableCurrent true S (.const (.flt r n d)) enc = strE S (.const (.flt r n d)) enc := by
  c06t_run
  by_cases h1 : ['-'] <+: r.toList <;> by_cases h2 : '-' ∈ r.toList <;>
    by_cases h3 : '+' ∈ r.toList <;> by_cases hd : d = 0 <;> by_cases he : S.sum < enc <;>
    simp [*] <;> rfl

/-! ### trees without `Substitution` / `Derivative` nodes -/

mutual
/-- no `Substitution` / `Derivative` node anywhere in the tree -/
def c06tPlain : Expr → Bool
  | .subst .. => false
  | .deriv .. => false
  | .nary _ cs => c06tPlainL cs
  | .bin _ a b => c06tPlain a && c06tPlain b
  | .un _ a => c06tPlain a
  | .cmp _ a b => c06tPlain a && c06tPlain b
  | .ite c t e => c06tPlain c && c06tPlain t && c06tPlain e
  | .call f as => c06tPlain f && c06tPlainL as
  | .callKw f as _ vs => c06tPlain f && c06tPlainL as && c06tPlainL vs
  | .subscript a i => c06tPlain a && c06tPlain i
  | .lookup a _ => c06tPlain a
  | .cse c _ _ => c06tPlain c
  | .slice cs => c06tPlainL cs
  | .tuple cs => c06tPlainL cs
  | .list cs => c06tPlainL cs
  | _ => true
def c06tPlainL : List Expr → Bool
  | [] => true
  | c :: cs => c06tPlain c && c06tPlainL cs
end

mutual
/-- the limits of the model only matter below a `Substitution` / `Derivative` node (any table) -/
theorem full_eq_lim (T : C06TTable) (S : PrintPrec) :
    ∀ e, c06tPlain e = true → c06tStr T false S e = c06tStr T true S e
  | .const _, _ => by funext enc; simp only [c06tStr]
  | .var _, _ => by funext enc; simp only [c06tStr]
  | .nary o cs, h => by
      funext enc
      simp only [c06tPlain] at h
      simp only [c06tStr, full_eq_lim_kids T S cs h]
  | .bin o a b, h => by
      funext enc
      simp only [c06tPlain, Bool.and_eq_true] at h
      simp only [c06tStr, full_eq_lim T S a h.1, full_eq_lim T S b h.2]
  | .un o a, h => by
      funext enc
      simp only [c06tPlain] at h
      simp only [c06tStr, full_eq_lim T S a h]
  | .cmp o a b, h => by
      funext enc
      simp only [c06tPlain, Bool.and_eq_true] at h
      simp only [c06tStr, full_eq_lim T S a h.1, full_eq_lim T S b h.2]
  | .ite c t e, h => by
      funext enc
      simp only [c06tPlain, Bool.and_eq_true] at h
      simp only [c06tStr, full_eq_lim T S c h.1.1, full_eq_lim T S t h.1.2, full_eq_lim T S e h.2]
  | .call f as, h => by
      funext enc
      simp only [c06tPlain, Bool.and_eq_true] at h
      simp only [c06tStr, full_eq_lim T S f h.1, full_eq_lim_kids T S as h.2]
  | .callKw f as ns vs, h => by
      funext enc
      simp only [c06tPlain, Bool.and_eq_true] at h
      simp only [c06tStr, full_eq_lim T S f h.1.1, full_eq_lim_kids T S as h.1.2,
        full_eq_lim_kids T S vs h.2]
  | .subscript a i, h => by
      funext enc
      simp only [c06tPlain, Bool.and_eq_true] at h
      have iha := full_eq_lim T S a h.1
      have ihi := full_eq_lim T S i h.2
      cases i with
      | tuple cs =>
        have ihc := full_eq_lim_kids T S cs (by simpa only [c06tPlain] using h.2)
        simp only [c06tStr, iha, ihi, ihc]
      | _ =>
        rw [c06tStr, c06tStr, iha, ihi]
        all_goals (intro cs hc; cases hc)
  | .lookup a n, h => by
      funext enc
      simp only [c06tPlain] at h
      simp only [c06tStr, full_eq_lim T S a h]
  | .cse c p s, h => by
      funext enc
      simp only [c06tPlain] at h
      simp only [c06tStr, full_eq_lim T S c h]
  | .subst .., h => by simp [c06tPlain] at h
  | .deriv .., h => by simp [c06tPlain] at h
  | .slice cs, h => by
      funext enc
      simp only [c06tPlain] at h
      simp only [c06tStr, full_eq_lim_kids T S cs h]
  | .nan, _ => by funext enc; simp only [c06tStr]
  | .wildcard, _ => by funext enc; simp only [c06tStr]
  | .dotWild _, _ => by funext enc; simp only [c06tStr]
  | .starWild _, _ => by funext enc; simp only [c06tStr]
  | .funcSym, _ => by funext enc; simp only [c06tStr]
  | .tuple cs, h => by
      funext enc
      simp only [c06tPlain] at h
      simp only [c06tStr, full_eq_lim_kids T S cs h]
  | .list cs, h => by
      funext enc
      simp only [c06tPlain] at h
      simp only [c06tStr, full_eq_lim_kids T S cs h]
theorem full_eq_lim_kids (T : C06TTable) (S : PrintPrec) :
    ∀ cs, c06tPlainL cs = true → c06tKids T false S cs = c06tKids T true S cs
  | [], _ => by simp only [c06tKids]
  | c :: cs, h => by
      simp only [c06tPlainL, Bool.and_eq_true] at h
      simp only [c06tKids, full_eq_lim T S c h.1, full_eq_lim_kids T S cs h.2]
end

/-- `" ".join(f"d/d{v}" for v in expr.variables)` -/
theorem fillEach_deriv : ∀ vars : List String,
    c06tFillEach [.lit "d/d", .hole] (c06tIdents vars)
      = pure (vars.map fun v => [.tok (.ident "d"), sy "/", .tok (.ident "d"), .tok (.ident v)])
  | [] => rfl
  | v :: vs => by
      have ih := fillEach_deriv vs
      simp only [c06tIdents] at ih
      simp [c06tIdents, c06tFillEach, c06tFill, c06t_lit_12, ih]


end PV.C06T
