import PV.Model.Algo
import Mathlib.Algebra.Group.Defs
import Mathlib.Algebra.Group.Basic
import Mathlib.Algebra.Ring.Int.Defs
import Mathlib.Data.Int.GCD
import Mathlib.Tactic.Ring
import Mathlib.Tactic.Linarith

/-!
  Proofs about `PV.Model.Algo`.
-/

namespace PV.Algo

/-! ## integer_power -/

/-- Generic loop invariant: under any multiplicative map `f` into a monoid the loop computes
`f aux * f x ^ n`. -/
theorem integerPowerLoop_hom {α : Type*} {M : Type*} [Monoid M] (f : α → M) (mul : α → α → α)
    (hmul : ∀ a b, f (mul a b) = f a * f b) (aux x : α) (n : ℕ) :
    f (integerPowerLoop mul aux x n) = f aux * f x ^ n := by
  induction n using Nat.strong_induction_on generalizing aux x with
  | _ n ih =>
    rw [integerPowerLoop]
    split_ifs with h0 h1 h2
    · subst h2; simp [hmul]
    · rw [ih (n / 2) (by omega), hmul, hmul]
      have hn : n = 2 * (n / 2) + 1 := by omega
      conv_rhs => rw [hn]
      rw [← pow_two, ← pow_mul, mul_assoc, ← pow_succ']
    · rw [ih (n / 2) (by omega), hmul]
      have hn : n = 2 * (n / 2) := by omega
      conv_rhs => rw [hn]
      rw [← pow_two, ← pow_mul]
    · have : n = 0 := by omega
      subst this; simp

theorem integerPower_hom {α : Type*} {M : Type*} [Monoid M] (f : α → M) (mul : α → α → α)
    (one : α) (hmul : ∀ a b, f (mul a b) = f a * f b) (hone : f one = 1) (x : α) (n : ℕ) :
    f (integerPower mul one x n) = f x ^ n := by
  rw [integerPower, integerPowerLoop_hom f mul hmul, hone, one_mul]

theorem integerPower_eq_pow {M : Type*} [Monoid M] (x : M) (n : ℕ) :
    integerPower (· * ·) 1 x n = x ^ n :=
  integerPower_hom id (· * ·) 1 (fun _ _ => rfl) rfl x n

/-! ## extended_euclidean -/

theorem extEuclidLoop_bezout (q0 r0 q r Q0 Q1 R0 R1 : ℤ)
    (hQ : q = Q0 * q0 + Q1 * r0) (hR : r = R0 * q0 + R1 * r0) :
    (extEuclidLoop q r Q0 Q1 R0 R1).1 =
      (extEuclidLoop q r Q0 Q1 R0 R1).2.1 * q0 + (extEuclidLoop q r Q0 Q1 R0 R1).2.2 * r0 := by
  induction hn : r.natAbs using Nat.strong_induction_on generalizing q r Q0 Q1 R0 R1 with
  | _ n ih =>
    rw [extEuclidLoop]
    split_ifs with h
    · simpa using hQ
    · simp only
      apply ih _ _ r (Int.fmod q r) R0 R1 _ _ hR _ rfl
      · rw [← hn]; exact natAbs_fmod_lt q r h
      · rw [Int.fmod_def, hQ, hR]; ring

/-- The result of the loop does not depend on the coefficient accumulators. -/
theorem extEuclidLoop_fst (q r Q0 Q1 R0 R1 : ℤ) :
    (extEuclidLoop q r Q0 Q1 R0 R1).1 = (extEuclidLoop q r 1 0 0 1).1 := by
  induction hn : r.natAbs using Nat.strong_induction_on generalizing q r Q0 Q1 R0 R1 with
  | _ n ih =>
    rw [extEuclidLoop, extEuclidLoop.eq_1 q r 1 0 0 1]
    split_ifs with h
    · rfl
    · simp only
      have hlt : (Int.fmod q r).natAbs < n := by rw [← hn]; exact natAbs_fmod_lt q r h
      rw [ih _ hlt r (Int.fmod q r) _ _ _ _ rfl, ih _ hlt r (Int.fmod q r) 0 1 _ _ rfl]

theorem extEuclidLoop_dvd (q r Q0 Q1 R0 R1 : ℤ) :
    (extEuclidLoop q r Q0 Q1 R0 R1).1 ∣ q ∧ (extEuclidLoop q r Q0 Q1 R0 R1).1 ∣ r ∧
      ∀ d : ℤ, d ∣ q → d ∣ r → d ∣ (extEuclidLoop q r Q0 Q1 R0 R1).1 := by
  induction hn : r.natAbs using Nat.strong_induction_on generalizing q r Q0 Q1 R0 R1 with
  | _ n ih =>
    rw [extEuclidLoop]
    split_ifs with h
    · subst h; exact ⟨dvd_refl _, dvd_zero _, fun d hq _ => hq⟩
    · simp only
      have hlt : (Int.fmod q r).natAbs < n := by rw [← hn]; exact natAbs_fmod_lt q r h
      obtain ⟨h1, h2, h3⟩ := ih _ hlt r (Int.fmod q r) R0 R1
        (Q0 - Int.fdiv q r * R0) (Q1 - Int.fdiv q r * R1) rfl
      refine ⟨?_, h1, ?_⟩
      · have := Int.dvd_add h2 (Dvd.dvd.mul_right h1 (Int.fdiv q r))
        rwa [Int.fmod_add_mul_fdiv] at this
      · intro d hdq hdr
        apply h3 d hdr
        rw [Int.fmod_def]
        exact Int.dvd_sub hdq (Dvd.dvd.mul_right hdr _)

/-- Sign behaviour of the loop: with floor division every remainder has the sign of the
divisor, so the returned "gcd" has the sign of the initial `r` (and is `q` when `r = 0`). -/
theorem extEuclidLoop_sign (q r Q0 Q1 R0 R1 : ℤ) :
    (r = 0 → (extEuclidLoop q r Q0 Q1 R0 R1).1 = q) ∧
    (0 < r → 0 < (extEuclidLoop q r Q0 Q1 R0 R1).1) ∧
    (r < 0 → (extEuclidLoop q r Q0 Q1 R0 R1).1 < 0) := by
  induction hn : r.natAbs using Nat.strong_induction_on generalizing q r Q0 Q1 R0 R1 with
  | _ n ih =>
    rw [extEuclidLoop]
    split_ifs with h
    · subst h; simp
    · simp only
      have hlt : (Int.fmod q r).natAbs < n := by rw [← hn]; exact natAbs_fmod_lt q r h
      obtain ⟨h1, h2, h3⟩ := ih _ hlt r (Int.fmod q r) R0 R1
        (Q0 - Int.fdiv q r * R0) (Q1 - Int.fdiv q r * R1) rfl
      refine ⟨fun h0 => absurd h0 h, fun hpos => ?_, fun hneg => ?_⟩
      · have hnn := Int.fmod_nonneg_of_pos q hpos
        rcases eq_or_lt_of_le hnn with h0 | h0
        · rw [h1 h0.symm]; exact hpos
        · exact h2 h0
      · have hnn := Int.fmod_nonneg_of_pos (-q) (b := -r) (by omega)
        rw [Int.neg_fmod_neg] at hnn
        have hnp : Int.fmod q r ≤ 0 := by omega
        rcases eq_or_lt_of_le hnp with h0 | h0
        · rw [h1 h0]; exact hneg
        · exact h3 h0

theorem extEuclid_bezout (q r : ℤ) :
    (extEuclid q r).1 = (extEuclid q r).2.1 * q + (extEuclid q r).2.2 * r := by
  rw [extEuclid]
  split_ifs with h
  · have h' : ¬ r.natAbs < q.natAbs := by omega
    rw [extEuclid, dif_neg h']
    simp only
    have := extEuclidLoop_bezout r q r q 1 0 0 1 (by ring) (by ring)
    rw [this]; ring
  · exact extEuclidLoop_bezout q r q r 1 0 0 1 (by ring) (by ring)

theorem extEuclid_dvd (q r : ℤ) :
    (extEuclid q r).1 ∣ q ∧ (extEuclid q r).1 ∣ r ∧
      ∀ d : ℤ, d ∣ q → d ∣ r → d ∣ (extEuclid q r).1 := by
  rw [extEuclid]
  split_ifs with h
  · have h' : ¬ r.natAbs < q.natAbs := by omega
    rw [extEuclid, dif_neg h']
    simp only
    obtain ⟨h1, h2, h3⟩ := extEuclidLoop_dvd r q 1 0 0 1
    exact ⟨h2, h1, fun d hq hr => h3 d hr hq⟩
  · exact extEuclidLoop_dvd q r 1 0 0 1

theorem extEuclid_natAbs (q r : ℤ) : (extEuclid q r).1.natAbs = Int.gcd q r := by
  obtain ⟨h1, h2, h3⟩ := extEuclid_dvd q r
  apply Nat.dvd_antisymm
  · exact Int.natAbs_dvd_natAbs.mpr (Int.dvd_coe_gcd h1 h2) |> fun h => by simpa using h
  · have := h3 (Int.gcd q r) (Int.gcd_dvd_left q r) (Int.gcd_dvd_right q r)
    simpa using Int.natAbs_dvd_natAbs.mpr this

/-- Which sign the returned gcd has, case by case (floor division makes it follow the sign of
the argument of smaller absolute value, the second one on ties). -/
theorem extEuclid_sign (q r : ℤ) :
    (r.natAbs ≤ q.natAbs →
      (r = 0 → (extEuclid q r).1 = q) ∧ (0 < r → 0 < (extEuclid q r).1) ∧
        (r < 0 → (extEuclid q r).1 < 0)) ∧
    (q.natAbs < r.natAbs →
      (q = 0 → (extEuclid q r).1 = r) ∧ (0 < q → 0 < (extEuclid q r).1) ∧
        (q < 0 → (extEuclid q r).1 < 0)) := by
  constructor
  · intro h
    have h' : ¬ q.natAbs < r.natAbs := by omega
    rw [extEuclid, dif_neg h']
    exact extEuclidLoop_sign q r 1 0 0 1
  · intro h
    have h' : ¬ r.natAbs < q.natAbs := by omega
    rw [extEuclid, dif_pos h, extEuclid, dif_neg h']
    exact extEuclidLoop_sign r q 1 0 0 1

theorem gcd_natAbs (q r : ℤ) : (gcd q r).natAbs = Int.gcd q r := extEuclid_natAbs q r

theorem gcd_eq_zero_iff (q r : ℤ) : gcd q r = 0 ↔ q = 0 ∧ r = 0 := by
  rw [← Int.natAbs_eq_zero, gcd_natAbs, Int.gcd_eq_zero_iff]

theorem gcd_dvd_mul (q r : ℤ) : gcd q r ∣ ((q * r).natAbs : ℤ) := by
  rw [Int.dvd_natAbs]
  exact Dvd.dvd.mul_right (extEuclid_dvd q r).1 r

/-! ## lcm -/

theorem lcm_eq_none_iff (q r : ℤ) : lcm q r = none ↔ q = 0 ∧ r = 0 := by
  rw [← gcd_eq_zero_iff]
  unfold lcm
  simp only
  split_ifs with h <;> simp [h]

theorem lcm_mul_gcd (q r l : ℤ) (h : lcm q r = some l) :
    l * gcd q r = ((q * r).natAbs : ℤ) := by
  unfold lcm at h
  simp only at h
  split_ifs at h with h0
  simp only [Option.some.injEq] at h
  rw [← h]
  exact Int.fdiv_mul_cancel (gcd_dvd_mul q r)

theorem lcm_natAbs (q r l : ℤ) (h : lcm q r = some l) : l.natAbs = Int.lcm q r := by
  have h1 := congrArg Int.natAbs (lcm_mul_gcd q r l h)
  rw [Int.natAbs_mul, gcd_natAbs, Int.natAbs_natCast] at h1
  have h2 := Int.gcd_mul_lcm q r
  have hg : 0 < Int.gcd q r := by
    rcases Nat.eq_zero_or_pos (Int.gcd q r) with h0 | h0
    · exfalso
      have : lcm q r = none := (lcm_eq_none_iff q r).mpr (Int.gcd_eq_zero_iff.mp h0)
      rw [this] at h; cases h
    · exact h0
  apply Nat.eq_of_mul_eq_mul_left hg
  rw [h2, ← Int.natAbs_mul, ← h1, Nat.mul_comm]

/-- The sign of the computed lcm is the sign of the computed gcd. -/
theorem lcm_sign (q r l : ℤ) (h : lcm q r = some l) (hl : l ≠ 0) :
    (0 < l ↔ 0 < gcd q r) := by
  have h1 := lcm_mul_gcd q r l h
  have h2 : (0 : ℤ) ≤ ((q * r).natAbs : ℤ) := Int.natCast_nonneg _
  have hg : gcd q r ≠ 0 := by
    intro h0
    have : lcm q r = none := (lcm_eq_none_iff q r).mpr ((gcd_eq_zero_iff q r).mp h0)
    rw [this] at h; cases h
  constructor
  · intro hpos
    by_contra hng
    have : gcd q r < 0 := by omega
    have := Int.mul_neg_of_pos_of_neg hpos this
    omega
  · intro hpos
    by_contra hnl
    have : l < 0 := by omega
    have := Int.mul_neg_of_neg_of_pos this hpos
    omega

/-! ## find_factors and fft index splitting -/

theorem findFactorsLoop_spec (n n1 m : ℕ) :
    n1 ≤ findFactorsLoop n n1 m ∧
      (n % findFactorsLoop n n1 m = 0 ∨ m < findFactorsLoop n n1 m) ∧
      (∀ d, n1 ≤ d → d < findFactorsLoop n n1 m → n % d ≠ 0) := by
  fun_induction findFactorsLoop n n1 m with
  | case1 n1 h ih =>
    refine ⟨by omega, ih.2.1, fun d hd hlt => ?_⟩
    rcases Nat.eq_or_lt_of_le hd with rfl | hd'
    · exact h.1
    · exact ih.2.2 d hd' hlt
  | case2 n1 h =>
    refine ⟨le_refl _, ?_, fun d hd hlt => by omega⟩
    by_cases h0 : n % n1 = 0
    · exact Or.inl h0
    · right; by_contra hle; exact h ⟨h0, by omega⟩

theorem findFactors_fst_dvd (n : ℕ) : (findFactors n).1 ∣ n := by
  unfold findFactors
  simp only
  split_ifs with h
  · exact dvd_refl n
  · have := (findFactorsLoop_spec n 2 (Nat.sqrt n + 1)).2.1
    rcases this with h0 | h0
    · exact Nat.dvd_of_mod_eq_zero h0
    · exact absurd h0 h

/-- `N1 * N2 == n`: the two factors returned by `find_factors` multiply back to `n`. -/
theorem findFactors_mul (n : ℕ) : (findFactors n).1 * (findFactors n).2 = n := by
  have h := findFactors_fst_dvd n
  have : (findFactors n).2 = n / (findFactors n).1 := rfl
  rw [this]
  exact Nat.mul_div_cancel' h

/-- `find_factors` fails (ZeroDivisionError) exactly for `n = 0`. -/
theorem findFactorsPy_eq_none_iff (n : ℕ) : findFactorsPy n = none ↔ n = 0 := by
  unfold findFactorsPy
  constructor
  · intro h
    split_ifs at h with h0
    have := findFactors_mul n
    rw [h0, Nat.zero_mul] at this
    exact this.symm
  · rintro rfl
    decide +kernel

/-- For `n ≥ 2` the first factor is at least 2, hence the sub-FFT size `N2` is strictly smaller
than `n`: the recursion of `fft` terminates. -/
theorem findFactors_lt (n : ℕ) (hn : 2 ≤ n) :
    2 ≤ (findFactors n).1 ∧ 0 < (findFactors n).2 ∧ (findFactors n).2 < n := by
  have hmul := findFactors_mul n
  have h2 : 2 ≤ (findFactors n).1 := by
    unfold findFactors
    simp only
    split_ifs with h
    · exact hn
    · exact (findFactorsLoop_spec n 2 (Nat.sqrt n + 1)).1
  have hpos : 0 < (findFactors n).2 := by
    rcases Nat.eq_zero_or_pos (findFactors n).2 with h0 | h0
    · rw [h0] at hmul; omega
    · exact h0
  refine ⟨h2, hpos, ?_⟩
  calc (findFactors n).2 < 2 * (findFactors n).2 := by omega
    _ ≤ (findFactors n).1 * (findFactors n).2 := Nat.mul_le_mul_right _ h2
    _ = n := hmul

/-- No `d` with `2 ≤ d < N1` that was inspected by the loop divides `n`
(the first factor is the least divisor found by trial division). -/
theorem findFactors_least (n d : ℕ) (hd : 2 ≤ d) (hlt : d < (findFactors n).1)
    (hle : d ≤ Nat.sqrt n + 1) : n % d ≠ 0 := by
  have hs := findFactorsLoop_spec n 2 (Nat.sqrt n + 1)
  unfold findFactors at hlt
  simp only at hlt
  split_ifs at hlt with h
  · exact hs.2.2 d hd (by omega)
  · exact hs.2.2 d hd hlt

theorem stride_getElem? {α : Type*} (x : List α) (s k j : ℕ) (hk : 1 ≤ k) :
    (stride x s k)[j]? = x[s + k * j]? := by
  induction j generalizing x s with
  | zero =>
    rw [stride]
    split
    · rename_i h
      have : x.length ≤ s := by
        have := congrArg List.length h
        simp at this; omega
      simp [this]
    · rename_i a rest h
      have : (x.drop s)[0]? = some a := by rw [h]; rfl
      simpa using this.symm
  | succ j ih =>
    rw [stride]
    split
    · rename_i h
      have : x.length ≤ s := by
        have := congrArg List.length h
        simp at this; omega
      rw [List.getElem?_eq_none (by simp), List.getElem?_eq_none (by omega)]
    · rename_i a rest h
      rw [List.getElem?_cons_succ, ih]
      have : (x.drop s)[1 + (k - 1 + k * j)]? = rest[k - 1 + k * j]? := by
        rw [h, Nat.add_comm 1, List.getElem?_cons_succ]
      rw [← this, List.getElem?_drop]
      congr 1
      rw [Nat.mul_succ]; omega

theorem stride_lt_length {α : Type*} (x : List α) (s k j : ℕ) (hk : 1 ≤ k) :
    j < (stride x s k).length ↔ s + k * j < x.length := by
  rw [← not_le, ← not_le, ← List.getElem?_eq_none_iff, ← List.getElem?_eq_none_iff,
    stride_getElem? x s k j hk]

/-- One level of `fft`: if `len(x) = N1 * N2` then `x[n1::N1]` has length `N2`. -/
theorem stride_length {α : Type*} (x : List α) (N1 N2 n1 : ℕ) (hlen : x.length = N1 * N2)
    (hn1 : n1 < N1) : (stride x n1 N1).length = N2 := by
  have hk : 1 ≤ N1 := by omega
  apply Nat.le_antisymm
  · by_contra h
    have h' : N2 < (stride x n1 N1).length := by omega
    rw [stride_lt_length x n1 N1 N2 hk, hlen] at h'
    omega
  · by_contra h
    have h' : (stride x n1 N1).length < N2 := by omega
    have hno : ¬ ((stride x n1 N1).length < (stride x n1 N1).length) := by omega
    rw [stride_lt_length x n1 N1 _ hk, hlen] at hno
    apply hno
    calc n1 + N1 * (stride x n1 N1).length < N1 + N1 * (stride x n1 N1).length := by omega
      _ = N1 * ((stride x n1 N1).length + 1) := by rw [Nat.mul_succ]; omega
      _ ≤ N1 * N2 := Nat.mul_le_mul_left _ h'

/-- Index splitting of the Cooley–Tukey step: input index `j` is element `j / N1` of
sub-problem `j % N1`, and `(j % N1, j / N1)` ranges over `range(N1) × range(N2)`. -/
theorem fft_index_split {α : Type*} (x : List α) (N1 N2 j : ℕ) (hlen : x.length = N1 * N2)
    (hj : j < x.length) :
    j % N1 < N1 ∧ j / N1 < N2 ∧ (stride x (j % N1) N1)[j / N1]? = x[j]? := by
  have hN1 : 0 < N1 := by
    rcases Nat.eq_zero_or_pos N1 with h | h
    · rw [h, Nat.zero_mul] at hlen; omega
    · exact h
  refine ⟨Nat.mod_lt _ hN1, ?_, ?_⟩
  · apply Nat.div_lt_of_lt_mul; rw [← hlen]; exact hj
  · rw [stride_getElem? x _ _ _ hN1, Nat.mod_add_div]

/-- The sub-problems produced by one `fft` level all have length `N2 = find_factors(n)[1]`. -/
theorem fftSplit_lengths {α : Type*} (x : List α) :
    (fftSplit x).length = (findFactors x.length).1 ∧
      ∀ l ∈ fftSplit x, l.length = (findFactors x.length).2 := by
  unfold fftSplit
  simp only [List.length_map, List.length_range, List.mem_map, List.mem_range, true_and]
  rintro l ⟨n1, hn1, rfl⟩
  exact stride_length x _ _ n1 (findFactors_mul x.length).symm hn1

end PV.Algo
