import PV.Model.Compile
import PV.Model.PyPrec
import PV.Proofs.SyntaxStrFlatten
import PV.Proofs.SyntaxBEq
import PV.Proofs.C13Cse
/-
  C13.  The source text of `compile()` under PYTHON's grammar.

  Since the repair of `CompileMapper.map_constant` (`repr` + the sign parenthesisation of the base
  class) the compile printer IS the stringifier on the modelled constants
  (`constPiecesRepr_eq`), so the round-trip theorem of C06 applies to the compiled source as it
  stands; here:
  * `GPos`, `notAdmitted`, `notOk`: where Python's grammar admits an unparenthesised `not …`
    operand (the parser scheme has ONE level for all prefix operators and cannot express that
    `not` ranks below the comparisons).
  * `gOk`: the local condition of C13 = the C06 condition `okTriple` for (Python table,
    stringifier table), plus the `not` rule; `gBadPairs` the finite list of (position, child
    class) pairs that fail it.
  * `InFragmentPy`: the fragment of `PV.C13.compile_source_groups_current`.
-/
namespace PV.C13
open PV PV.Syntax

/-- **the repaired constant printer of `CompileMapper` is the stringifier's** (on ints, bools,
floats: `repr` and `str` give the same text, and the sign parenthesisation is the same code) -/
theorem constPiecesRepr_eq (S : PrintPrec) : constPiecesRepr S = constPieces S := by
  funext c enc
  cases c <;> rfl

/-! ### the keyword `not`, which the parser scheme cannot rank -/

/-- child positions of C13: the C06 positions, with the operand of `not` told apart from the
operand of `~` -/
inductive GPos where
  | std (p : Pos)
  | notArg
  deriving Repr, DecidableEq

def GPos.pos : GPos → Pos
  | .std p => p
  | .notArg => .unArg

/-- Python's grammar (`not_test: 'not' not_test | comparison`) admits an unparenthesised
`not …` operand exactly where an operand of level `not` or lower is expected: operands of `and` /
`or`, the three parts of a conditional, arguments, elements, indices, the whole expression, and
the operand of another `not`.  In table terms: as if `not …` carried an operator of level
`pyNotLevel` at both ends. -/
def notAdmitted (P : ParserPrec) : GPos → Bool
  | .notArg => true
  | .std p => decide (p.lge P ≤ pyNotLevel) && decide (p.rge P ≤ pyNotLevel)

def isLnot : Expr → Bool
  | .un .lnot _ => true
  | _ => false

/-- a `not` child is parenthesised by the printer or stands where Python admits it -/
def notAt (P : ParserPrec) (S : PrintPrec) (g : GPos) (c : Expr) : Bool :=
  !isLnot c || parenthesised S g.pos (.un .lnot) || notAdmitted P g

mutual
/-- every `LogicalNot` child of the tree is parenthesised or admitted by Python's grammar
(child positions as in `Printable`) -/
def notOk (P : ParserPrec) (S : PrintPrec) : Expr → Bool
  | .nary .sum (c :: cs) =>
      notAt P S (.std (.left .plus)) c && notOk P S c && notOkAll P S (.std (.right .plus)) cs
  | .nary .prod cs => notOkProd P S cs
  | .nary .bor cs => notOkAll P S (.std (.left .bor)) cs
  | .nary .bxor cs => notOkAll P S (.std (.left .bxor)) cs
  | .nary .band cs => notOkAll P S (.std (.left .band)) cs
  | .nary .lor cs => notOkAll P S (.std (.left .lor)) cs
  | .nary .land cs => notOkAll P S (.std (.left .land)) cs
  | .nary _ cs => notOkAll P S (.std .arg) cs
  | .bin o a b =>
      notAt P S (.std (.left (binInfix o))) a && notAt P S (.std (.right (binInfix o))) b
        && notOk P S a && notOk P S b
  | .un .bnot a => notAt P S (.std .unArg) a && notOk P S a
  | .un .lnot a => notAt P S .notArg a && notOk P S a
  | .cmp o a b =>
      notAt P S (.std (.left (.cmp o))) a && notAt P S (.std (.right (.cmp o))) b
        && notOk P S a && notOk P S b
  | .ite c t e =>
      notAt P S (.std .iteCond) c && notAt P S (.std .iteThen) t && notAt P S (.std .iteElse) e
        && notOk P S c && notOk P S t && notOk P S e
  | .call f as => notAt P S (.std .callee) f && notOk P S f && notOkAll P S (.std .arg) as
  | .callKw f as _ vs =>
      notAt P S (.std .callee) f && notOk P S f && notOkAll P S (.std .arg) as
        && notOkAll P S (.std .arg) vs
  | .subscript a i => notAt P S (.std .callee) a && notOk P S a && notAt P S (.std .index) i
      && notOk P S i
  | .lookup a _ => notAt P S (.std .callee) a && notOk P S a
  | .tuple cs => notOkAll P S (.std .elemRest) cs
  | .list cs => notOkAll P S (.std .elemRest) cs
  | .slice cs => notOkAll P S (.std .sliceLast) cs
  | _ => true
def notOkAll (P : ParserPrec) (S : PrintPrec) (g : GPos) : List Expr → Bool
  | [] => true
  | c :: cs => notAt P S g c && notOk P S c && notOkAll P S g cs
/-- operands of a product: the last one is a right operand -/
def notOkProd (P : ParserPrec) (S : PrintPrec) : List Expr → Bool
  | [] => true
  | [c] => notAt P S (.std (.right .times)) c && notOk P S c
  | c :: cs => notAt P S (.std (.left .times)) c && notOk P S c && notOkProd P S cs
end

/-! ### the local condition of C13 and its finite table -/

/-- THE local condition for the compiled source under Python's grammar:
* the C06 condition `okTriple` for (parser table, stringifier table);
* a `not` child is parenthesised or admitted by Python's grammar. -/
def gOk (P : ParserPrec) (S : PrintPrec) (g : GPos) (k : Kind) : Bool :=
  okTriple P S g.pos k
  && (!(k == .un .lnot) || parenthesised S g.pos k || notAdmitted P g)

def allGPos : List GPos := allPos.map .std ++ [.notArg]

/-- all (position, child class) pairs that fail the local condition of C13 -/
def gBadPairs (P : ParserPrec) (S : PrintPrec) : List (GPos × Kind) :=
  (allGPos.flatMap fun g => allKinds.map fun k => (g, k)).filter fun gk => !gOk P S gk.1 gk.2

/-- the fragment of `PV.C13.compile_source_groups_current`: no wrapper where the base class
looks at the node type of a child (`cseShapeOk`); the tree WITHOUT its wrappers has covered node
shapes and every child passes `okTriple` in its position (hence `gOk`: every `not` child passes
`notAt`) -/
def InFragmentPy (P : ParserPrec) (S : PrintPrec) (e : Expr) : Bool :=
  cseShapeOk e && InFragment P S (stripCse e) && notOk P S (stripCse e)

/-- the same with arbitrarily nested sums and products -/
def InFragmentPyFlat (P : ParserPrec) (S : PrintPrec) (e : Expr) : Bool :=
  cseShapeOk e && InFragmentFlat P S (stripCse e) && notOk P S (flattenAssoc (stripCse e))

end PV.C13
