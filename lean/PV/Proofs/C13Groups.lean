import PV.Model.Compile
import PV.Model.PyPrec
import PV.Proofs.SyntaxStrFlatten
import PV.Proofs.SyntaxBEq
import PV.Proofs.C13SynStrFlatten
/-
  C13.  The source text of `compile()` under PYTHON's grammar.

  * The round trip for the printer of `compile()` itself is PV/Proofs/C13Syn*.lean (namespace
    `PV.C13R`: the C06 development replayed for `strG S constPiecesRepr`, whose constants are
    never parenthesised); here:
  * `reprSame S e enc`: every signed constant of `e` (negative number, float whose repr carries an
    exponent sign) sits in a position where the generic stringifier prints it without parentheses;
    there `CompileMapper` prints what `str` prints (`strG_repr_eq_strE`), and the C06 round-trip
    theorem itself applies to the compiled source.
  * `GPos`, `notAdmitted`, `notOk`: where Python's grammar admits an unparenthesised `not …`
    operand (the parser scheme has ONE level for all prefix operators and cannot express that
    `not` ranks below the comparisons).
  * `gOk`: the local condition of C13 = the C06 condition for (Python table, stringifier table)
    with constants never parenthesised (`C13R.okTriple`), plus the `not` rule; `gBadPairs` the
    finite list of (position, child class) pairs that fail it.
  * `InFragmentPy`: the fragment of `PV.C13.compile_source_groups_current`.
  (The case enumerations of `strG_repr_eq_strE` are generated text; the file is plain Lean.)
-/
namespace PV.C13
open PV PV.Syntax

/-- a constant whose printed form carries a sign: `str` parenthesises it when the context binds
tighter than a sum, `repr` never does -/
def signedC : Const → Bool
  | .int n => decide (n < 0)
  | .flt r _ d => decide (d ≠ 0) && (r.startsWith "-" || r.contains '+' || r.contains '-')
  | _ => false

mutual
/-- every signed constant is printed at an enclosing precedence `≤ PREC_SUM` (mirrors the
recursion of `strG` / `strE`) -/
def reprSame (S : PrintPrec) : Expr → Nat → Bool
  | .const c, enc => !signedC c || decide (enc ≤ S.sum)
  | .var _, _ => true
  | .wildcard, _ => true
  | .call f as, _ => reprSame S f S.call && reprSameL S as S.none
  | .callKw f as _ vs, _ => reprSame S f S.call && reprSameL S as S.none && reprSameL S vs S.none
  | .subscript a (.tuple cs), _ => reprSame S a S.call && reprSameL S cs S.none
  | .subscript a i, _ => reprSame S a S.call && reprSame S i S.none
  | .lookup a _, _ => reprSame S a S.call
  | .nary .sum cs, _ => reprSameL S cs S.sum
  | .nary .prod cs, _ => reprSameL S cs S.product
  | .bin .quot a b, _ => reprSame S a S.product && reprSame S b S.product
  | .bin .floordiv a b, _ => reprSame S a S.product && reprSame S b S.product
  | .bin .rem a b, _ => reprSame S a S.product && reprSame S b S.product
  | .bin .pow a b, _ => reprSame S a (S.power + 1) && reprSame S b S.power
  | .bin .lshift a b, _ => reprSame S a (S.shift + 1) && reprSame S b (S.shift + 1)
  | .bin .rshift a b, _ => reprSame S a (S.shift + 1) && reprSame S b (S.shift + 1)
  | .un _ a, _ => reprSame S a S.unary
  | .nary .bor cs, _ => reprSameL S cs S.bor
  | .nary .bxor cs, _ => reprSameL S cs S.bxor
  | .nary .band cs, _ => reprSameL S cs S.band
  | .nary .lor cs, _ => reprSameL S cs S.lor
  | .nary .land cs, _ => reprSameL S cs S.land
  | .cmp _ a b, _ => reprSame S a (S.comparison + 1) && reprSame S b (S.comparison + 1)
  | .ite c t e, _ => reprSame S t S.lor && reprSame S c S.lor && reprSame S e S.lor
  | .tuple cs, _ => reprSameL S cs S.none
  | .list cs, _ => reprSameL S cs S.none
  | .slice cs, _ => reprSameSlice S cs
  | .nary .min cs, _ => reprSameL S cs S.none
  | .nary .max cs, _ => reprSameL S cs S.none
  | .cse c _ _, _ => reprSame S c S.none
  | _, _ => true
def reprSameL (S : PrintPrec) : List Expr → Nat → Bool
  | [], _ => true
  | c :: cs, enc => reprSame S c enc && reprSameL S cs enc
def reprSameSlice (S : PrintPrec) : List Expr → Bool
  | [] => true
  | .const .none :: cs => reprSameSlice S cs
  | c :: cs => reprSame S c S.none && reprSameSlice S cs
end

theorem constRepr_eq (S : PrintPrec) (c : Const) (enc : Nat)
    (h : (!signedC c || decide (enc ≤ S.sum)) = true) :
    constPiecesRepr c enc = constPieces S c enc := by
  cases c with
  | int n =>
    simp only [signedC, Bool.or_eq_true, Bool.not_eq_true', decide_eq_false_iff_not,
      decide_eq_true_eq] at h
    simp only [constPiecesRepr, constPieces]
    split
    · rename_i hn
      have : ¬ enc > S.sum := by rcases h with h | h <;> omega
      simp [this]
    · rfl
  | bool b => rfl
  | flt r n d =>
    simp only [constPiecesRepr, constPieces]
    by_cases hd : d = 0
    · simp [hd]
    · simp only [signedC, hd, ne_eq, not_false_eq_true, decide_true, Bool.true_and] at h
      simp only [hd, if_false]
      generalize r.contains '+' = bp at h ⊢
      generalize r.contains '-' = bm at h ⊢
      generalize r.startsWith "-" = bn at h ⊢
      by_cases hgt : enc > S.sum
      · have : ¬ enc ≤ S.sum := by omega
        cases bn <;> cases bp <;> cases bm <;> simp_all <;> omega
      · have hng : ¬ S.sum < enc := by omega
        cases bn <;> cases bp <;> cases bm <;> simp [hng]
  | str s => rfl
  | none => rfl

mutual
/-- **where no signed constant needs parentheses, `CompileMapper` prints what `str` prints** -/
theorem strG_repr_eq_strE (S : PrintPrec) : ∀ (e : Expr) (enc : Nat), reprSame S e enc = true →
    strG S constPiecesRepr e enc = strE S e enc
  | .const c, enc, h => by
      simp only [reprSame] at h
      simp only [strG, strE, constRepr_eq S c enc h]
  | .var x, _, _ => by simp only [strG, strE]
  | .wildcard, _, _ => by simp only [strG, strE]
  | .call f as, _, h => by
      simp only [reprSame, Bool.and_eq_true] at h
      simp only [strG, strE, strG_repr_eq_strE S f _ h.1, strGL_repr_eq S as _ h.2]
  | .callKw f as ns vs, _, h => by
      simp only [reprSame, Bool.and_eq_true] at h
      simp only [strG, strE, strG_repr_eq_strE S f _ h.1.1, strGL_repr_eq S as _ h.1.2,
        strGL_repr_eq S vs _ h.2]
  | .subscript a (.tuple cs), enc, h => by
      simp only [reprSame, Bool.and_eq_true] at h
      simp only [strG, strE, strG_repr_eq_strE S a _ h.1, strGL_repr_eq S cs _ h.2]
  | .subscript a (.const (.int n)), enc, h => by
      have h' : reprSame S a S.call = true ∧ reprSame S (.const (.int n)) S.none = true := by
        rw [reprSame] at h
        · simpa [Bool.and_eq_true] using h
        all_goals (intro _ h; cases h)
      rw [strG, strE, strG_repr_eq_strE S a _ h'.1, strG_repr_eq_strE S (.const (.int n)) _ h'.2]
      all_goals (intro _ h; cases h)
  | .subscript a (.const (.bool n)), enc, h => by
      have h' : reprSame S a S.call = true ∧ reprSame S (.const (.bool n)) S.none = true := by
        rw [reprSame] at h
        · simpa [Bool.and_eq_true] using h
        all_goals (intro _ h; cases h)
      rw [strG, strE, strG_repr_eq_strE S a _ h'.1, strG_repr_eq_strE S (.const (.bool n)) _ h'.2]
      all_goals (intro _ h; cases h)
  | .subscript a (.const (.flt r n d)), enc, h => by
      have h' : reprSame S a S.call = true ∧ reprSame S (.const (.flt r n d)) S.none = true := by
        rw [reprSame] at h
        · simpa [Bool.and_eq_true] using h
        all_goals (intro _ h; cases h)
      rw [strG, strE, strG_repr_eq_strE S a _ h'.1, strG_repr_eq_strE S (.const (.flt r n d)) _ h'.2]
      all_goals (intro _ h; cases h)
  | .subscript a (.const (.str n)), enc, h => by
      have h' : reprSame S a S.call = true ∧ reprSame S (.const (.str n)) S.none = true := by
        rw [reprSame] at h
        · simpa [Bool.and_eq_true] using h
        all_goals (intro _ h; cases h)
      rw [strG, strE, strG_repr_eq_strE S a _ h'.1, strG_repr_eq_strE S (.const (.str n)) _ h'.2]
      all_goals (intro _ h; cases h)
  | .subscript a (.var x), enc, h => by
      have h' : reprSame S a S.call = true ∧ reprSame S (.var x) S.none = true := by
        rw [reprSame] at h
        · simpa [Bool.and_eq_true] using h
        all_goals (intro _ h; cases h)
      rw [strG, strE, strG_repr_eq_strE S a _ h'.1, strG_repr_eq_strE S (.var x) _ h'.2]
      all_goals (intro _ h; cases h)
  | .subscript a (.nary o xs), enc, h => by
      have h' : reprSame S a S.call = true ∧ reprSame S (.nary o xs) S.none = true := by
        rw [reprSame] at h
        · simpa [Bool.and_eq_true] using h
        all_goals (intro _ h; cases h)
      rw [strG, strE, strG_repr_eq_strE S a _ h'.1, strG_repr_eq_strE S (.nary o xs) _ h'.2]
      all_goals (intro _ h; cases h)
  | .subscript a (.bin o x y), enc, h => by
      have h' : reprSame S a S.call = true ∧ reprSame S (.bin o x y) S.none = true := by
        rw [reprSame] at h
        · simpa [Bool.and_eq_true] using h
        all_goals (intro _ h; cases h)
      rw [strG, strE, strG_repr_eq_strE S a _ h'.1, strG_repr_eq_strE S (.bin o x y) _ h'.2]
      all_goals (intro _ h; cases h)
  | .subscript a (.un o x), enc, h => by
      have h' : reprSame S a S.call = true ∧ reprSame S (.un o x) S.none = true := by
        rw [reprSame] at h
        · simpa [Bool.and_eq_true] using h
        all_goals (intro _ h; cases h)
      rw [strG, strE, strG_repr_eq_strE S a _ h'.1, strG_repr_eq_strE S (.un o x) _ h'.2]
      all_goals (intro _ h; cases h)
  | .subscript a (.cmp o x y), enc, h => by
      have h' : reprSame S a S.call = true ∧ reprSame S (.cmp o x y) S.none = true := by
        rw [reprSame] at h
        · simpa [Bool.and_eq_true] using h
        all_goals (intro _ h; cases h)
      rw [strG, strE, strG_repr_eq_strE S a _ h'.1, strG_repr_eq_strE S (.cmp o x y) _ h'.2]
      all_goals (intro _ h; cases h)
  | .subscript a (.ite x y z), enc, h => by
      have h' : reprSame S a S.call = true ∧ reprSame S (.ite x y z) S.none = true := by
        rw [reprSame] at h
        · simpa [Bool.and_eq_true] using h
        all_goals (intro _ h; cases h)
      rw [strG, strE, strG_repr_eq_strE S a _ h'.1, strG_repr_eq_strE S (.ite x y z) _ h'.2]
      all_goals (intro _ h; cases h)
  | .subscript a (.call f as), enc, h => by
      have h' : reprSame S a S.call = true ∧ reprSame S (.call f as) S.none = true := by
        rw [reprSame] at h
        · simpa [Bool.and_eq_true] using h
        all_goals (intro _ h; cases h)
      rw [strG, strE, strG_repr_eq_strE S a _ h'.1, strG_repr_eq_strE S (.call f as) _ h'.2]
      all_goals (intro _ h; cases h)
  | .subscript a (.callKw f as ns vs), enc, h => by
      have h' : reprSame S a S.call = true ∧ reprSame S (.callKw f as ns vs) S.none = true := by
        rw [reprSame] at h
        · simpa [Bool.and_eq_true] using h
        all_goals (intro _ h; cases h)
      rw [strG, strE, strG_repr_eq_strE S a _ h'.1, strG_repr_eq_strE S (.callKw f as ns vs) _ h'.2]
      all_goals (intro _ h; cases h)
  | .subscript a (.subscript x y), enc, h => by
      have h' : reprSame S a S.call = true ∧ reprSame S (.subscript x y) S.none = true := by
        rw [reprSame] at h
        · simpa [Bool.and_eq_true] using h
        all_goals (intro _ h; cases h)
      rw [strG, strE, strG_repr_eq_strE S a _ h'.1, strG_repr_eq_strE S (.subscript x y) _ h'.2]
      all_goals (intro _ h; cases h)
  | .subscript a (.lookup x n), enc, h => by
      have h' : reprSame S a S.call = true ∧ reprSame S (.lookup x n) S.none = true := by
        rw [reprSame] at h
        · simpa [Bool.and_eq_true] using h
        all_goals (intro _ h; cases h)
      rw [strG, strE, strG_repr_eq_strE S a _ h'.1, strG_repr_eq_strE S (.lookup x n) _ h'.2]
      all_goals (intro _ h; cases h)
  | .subscript a (.cse x p s), enc, h => by
      have h' : reprSame S a S.call = true ∧ reprSame S (.cse x p s) S.none = true := by
        rw [reprSame] at h
        · simpa [Bool.and_eq_true] using h
        all_goals (intro _ h; cases h)
      rw [strG, strE, strG_repr_eq_strE S a _ h'.1, strG_repr_eq_strE S (.cse x p s) _ h'.2]
      all_goals (intro _ h; cases h)
  | .subscript a (.subst x vs xs), enc, h => by
      have h' : reprSame S a S.call = true ∧ reprSame S (.subst x vs xs) S.none = true := by
        rw [reprSame] at h
        · simpa [Bool.and_eq_true] using h
        all_goals (intro _ h; cases h)
      rw [strG, strE, strG_repr_eq_strE S a _ h'.1, strG_repr_eq_strE S (.subst x vs xs) _ h'.2]
      all_goals (intro _ h; cases h)
  | .subscript a (.deriv x vs), enc, h => by
      have h' : reprSame S a S.call = true ∧ reprSame S (.deriv x vs) S.none = true := by
        rw [reprSame] at h
        · simpa [Bool.and_eq_true] using h
        all_goals (intro _ h; cases h)
      rw [strG, strE, strG_repr_eq_strE S a _ h'.1, strG_repr_eq_strE S (.deriv x vs) _ h'.2]
      all_goals (intro _ h; cases h)
  | .subscript a (.slice xs), enc, h => by
      have h' : reprSame S a S.call = true ∧ reprSame S (.slice xs) S.none = true := by
        rw [reprSame] at h
        · simpa [Bool.and_eq_true] using h
        all_goals (intro _ h; cases h)
      rw [strG, strE, strG_repr_eq_strE S a _ h'.1, strG_repr_eq_strE S (.slice xs) _ h'.2]
      all_goals (intro _ h; cases h)
  | .subscript a .nan, enc, h => by
      have h' : reprSame S a S.call = true ∧ reprSame S .nan S.none = true := by
        rw [reprSame] at h
        · simpa [Bool.and_eq_true] using h
        all_goals (intro _ h; cases h)
      rw [strG, strE, strG_repr_eq_strE S a _ h'.1, strG_repr_eq_strE S .nan _ h'.2]
      all_goals (intro _ h; cases h)
  | .subscript a .wildcard, enc, h => by
      have h' : reprSame S a S.call = true ∧ reprSame S .wildcard S.none = true := by
        rw [reprSame] at h
        · simpa [Bool.and_eq_true] using h
        all_goals (intro _ h; cases h)
      rw [strG, strE, strG_repr_eq_strE S a _ h'.1, strG_repr_eq_strE S .wildcard _ h'.2]
      all_goals (intro _ h; cases h)
  | .subscript a (.dotWild n), enc, h => by
      have h' : reprSame S a S.call = true ∧ reprSame S (.dotWild n) S.none = true := by
        rw [reprSame] at h
        · simpa [Bool.and_eq_true] using h
        all_goals (intro _ h; cases h)
      rw [strG, strE, strG_repr_eq_strE S a _ h'.1, strG_repr_eq_strE S (.dotWild n) _ h'.2]
      all_goals (intro _ h; cases h)
  | .subscript a (.starWild n), enc, h => by
      have h' : reprSame S a S.call = true ∧ reprSame S (.starWild n) S.none = true := by
        rw [reprSame] at h
        · simpa [Bool.and_eq_true] using h
        all_goals (intro _ h; cases h)
      rw [strG, strE, strG_repr_eq_strE S a _ h'.1, strG_repr_eq_strE S (.starWild n) _ h'.2]
      all_goals (intro _ h; cases h)
  | .subscript a .funcSym, enc, h => by
      have h' : reprSame S a S.call = true ∧ reprSame S .funcSym S.none = true := by
        rw [reprSame] at h
        · simpa [Bool.and_eq_true] using h
        all_goals (intro _ h; cases h)
      rw [strG, strE, strG_repr_eq_strE S a _ h'.1, strG_repr_eq_strE S .funcSym _ h'.2]
      all_goals (intro _ h; cases h)
  | .subscript a (.list xs), enc, h => by
      have h' : reprSame S a S.call = true ∧ reprSame S (.list xs) S.none = true := by
        rw [reprSame] at h
        · simpa [Bool.and_eq_true] using h
        all_goals (intro _ h; cases h)
      rw [strG, strE, strG_repr_eq_strE S a _ h'.1, strG_repr_eq_strE S (.list xs) _ h'.2]
      all_goals (intro _ h; cases h)
  | .subscript a (.const .none), enc, h => by
      have h' : reprSame S a S.call = true ∧ reprSame S (.const .none) S.none = true := by
        rw [reprSame] at h
        · simpa [Bool.and_eq_true] using h
        all_goals (intro _ h; cases h)
      rw [strG, strE, strG_repr_eq_strE S a _ h'.1, strG_repr_eq_strE S (.const .none) _ h'.2]
      all_goals (intro _ h; cases h)
  | .lookup a n, enc, h => by
      simp only [reprSame] at h
      simp only [strG, strE, strG_repr_eq_strE S a _ h]
  | .nary .sum cs, enc, h => by
      simp only [reprSame] at h
      simp only [strG, strE, strGL_repr_eq S cs _ h]
  | .nary .bor cs, enc, h => by
      simp only [reprSame] at h
      simp only [strG, strE, strGL_repr_eq S cs _ h]
  | .nary .bxor cs, enc, h => by
      simp only [reprSame] at h
      simp only [strG, strE, strGL_repr_eq S cs _ h]
  | .nary .band cs, enc, h => by
      simp only [reprSame] at h
      simp only [strG, strE, strGL_repr_eq S cs _ h]
  | .nary .lor cs, enc, h => by
      simp only [reprSame] at h
      simp only [strG, strE, strGL_repr_eq S cs _ h]
  | .nary .land cs, enc, h => by
      simp only [reprSame] at h
      simp only [strG, strE, strGL_repr_eq S cs _ h]
  | .nary .min cs, enc, h => by
      simp only [reprSame] at h
      simp only [strG, strE, strGL_repr_eq S cs _ h]
  | .nary .max cs, enc, h => by
      simp only [reprSame] at h
      simp only [strG, strE, strGL_repr_eq S cs _ h]
  | .nary .prod cs, enc, h => by
      simp only [reprSame] at h
      simp only [strG, strE, strGForceL_repr_eq S false cs _ h]
  | .bin .quot a b, enc, h => by
      simp only [reprSame, Bool.and_eq_true] at h
      simp only [strG, strE, strG_repr_eq_strE S a _ h.1, strG_repr_eq_strE S b _ h.2]
  | .bin .floordiv a b, enc, h => by
      simp only [reprSame, Bool.and_eq_true] at h
      simp only [strG, strE, strG_repr_eq_strE S a _ h.1, strG_repr_eq_strE S b _ h.2]
  | .bin .rem a b, enc, h => by
      simp only [reprSame, Bool.and_eq_true] at h
      simp only [strG, strE, strG_repr_eq_strE S a _ h.1, strG_repr_eq_strE S b _ h.2]
  | .bin .pow a b, enc, h => by
      simp only [reprSame, Bool.and_eq_true] at h
      simp only [strG, strE, strG_repr_eq_strE S a _ h.1, strG_repr_eq_strE S b _ h.2]
  | .bin .lshift a b, enc, h => by
      simp only [reprSame, Bool.and_eq_true] at h
      simp only [strG, strE, strG_repr_eq_strE S a _ h.1, strG_repr_eq_strE S b _ h.2]
  | .bin .rshift a b, enc, h => by
      simp only [reprSame, Bool.and_eq_true] at h
      simp only [strG, strE, strG_repr_eq_strE S a _ h.1, strG_repr_eq_strE S b _ h.2]
  | .un .bnot a, enc, h => by
      simp only [reprSame] at h
      simp only [strG, strE, strG_repr_eq_strE S a _ h]
  | .un .lnot a, enc, h => by
      simp only [reprSame] at h
      simp only [strG, strE, strG_repr_eq_strE S a _ h]
  | .cmp o a b, enc, h => by
      simp only [reprSame, Bool.and_eq_true] at h
      simp only [strG, strE, strG_repr_eq_strE S a _ h.1, strG_repr_eq_strE S b _ h.2]
  | .ite c t e, enc, h => by
      simp only [reprSame, Bool.and_eq_true] at h
      simp only [strG, strE, strG_repr_eq_strE S t _ h.1.1, strG_repr_eq_strE S c _ h.1.2,
        strG_repr_eq_strE S e _ h.2]
  | .tuple cs, _, h => by
      simp only [reprSame] at h
      simp only [strG, strE, strGL_repr_eq S cs _ h]
  | .list cs, _, h => by
      simp only [reprSame] at h
      simp only [strG, strE, strGL_repr_eq S cs _ h]
  | .slice cs, enc, h => by
      simp only [reprSame] at h
      simp only [strG, strE, strGSliceL_repr_eq S cs h]
  | .cse c _ _, _, h => by
      simp only [reprSame] at h
      simp only [strG, strE, strG_repr_eq_strE S c _ h]
  | .nan, _, _ => by simp only [strG, strE]
  | .funcSym, _, _ => by simp only [strG, strE]
  | .dotWild _, _, _ => by simp only [strG, strE]
  | .starWild _, _, _ => by simp only [strG, strE]
  | .subst .., _, _ => by simp only [strG, strE]
  | .deriv .., _, _ => by simp only [strG, strE]
theorem strGL_repr_eq (S : PrintPrec) : ∀ (cs : List Expr) (enc : Nat), reprSameL S cs enc = true →
    strGL S constPiecesRepr cs enc = strL S cs enc
  | [], _, _ => by simp only [strGL, strL]
  | c :: cs, enc, h => by
      simp only [reprSameL, Bool.and_eq_true] at h
      simp only [strGL, strL, strG_repr_eq_strE S c _ h.1, strGL_repr_eq S cs _ h.2]
theorem strGForceL_repr_eq (S : PrintPrec) (all : Bool) : ∀ (cs : List Expr) (enc : Nat),
    reprSameL S cs enc = true → strGForceL S constPiecesRepr all cs enc = strForceL S all cs enc
  | [], _, _ => by simp only [strGForceL, strForceL]
  | c :: cs, enc, h => by
      simp only [reprSameL, Bool.and_eq_true] at h
      simp only [strGForceL, strForceL, strG_repr_eq_strE S c _ h.1, strGForceL_repr_eq S all cs _ h.2]
theorem strGSliceL_repr_eq (S : PrintPrec) : ∀ (cs : List Expr), reprSameSlice S cs = true →
    strGSliceL S constPiecesRepr cs = strSliceL S cs
  | [], _ => by simp only [strGSliceL, strSliceL]
  | .const .none :: cs, h => by
      simp only [reprSameSlice] at h
      simp only [strGSliceL, strSliceL, strGSliceL_repr_eq S cs h]
  | .const (.int n) :: cs, h => by
      have h' : reprSame S (.const (.int n)) S.none = true ∧ reprSameSlice S cs = true := by
        rw [reprSameSlice] at h
        · simpa [Bool.and_eq_true] using h
        all_goals (intro h; cases h)
      rw [strGSliceL, strSliceL, strG_repr_eq_strE S (.const (.int n)) _ h'.1, strGSliceL_repr_eq S cs h'.2]
      all_goals (intro h; cases h)
  | .const (.bool n) :: cs, h => by
      have h' : reprSame S (.const (.bool n)) S.none = true ∧ reprSameSlice S cs = true := by
        rw [reprSameSlice] at h
        · simpa [Bool.and_eq_true] using h
        all_goals (intro h; cases h)
      rw [strGSliceL, strSliceL, strG_repr_eq_strE S (.const (.bool n)) _ h'.1, strGSliceL_repr_eq S cs h'.2]
      all_goals (intro h; cases h)
  | .const (.flt r n d) :: cs, h => by
      have h' : reprSame S (.const (.flt r n d)) S.none = true ∧ reprSameSlice S cs = true := by
        rw [reprSameSlice] at h
        · simpa [Bool.and_eq_true] using h
        all_goals (intro h; cases h)
      rw [strGSliceL, strSliceL, strG_repr_eq_strE S (.const (.flt r n d)) _ h'.1, strGSliceL_repr_eq S cs h'.2]
      all_goals (intro h; cases h)
  | .const (.str n) :: cs, h => by
      have h' : reprSame S (.const (.str n)) S.none = true ∧ reprSameSlice S cs = true := by
        rw [reprSameSlice] at h
        · simpa [Bool.and_eq_true] using h
        all_goals (intro h; cases h)
      rw [strGSliceL, strSliceL, strG_repr_eq_strE S (.const (.str n)) _ h'.1, strGSliceL_repr_eq S cs h'.2]
      all_goals (intro h; cases h)
  | .var x :: cs, h => by
      have h' : reprSame S (.var x) S.none = true ∧ reprSameSlice S cs = true := by
        rw [reprSameSlice] at h
        · simpa [Bool.and_eq_true] using h
        all_goals (intro h; cases h)
      rw [strGSliceL, strSliceL, strG_repr_eq_strE S (.var x) _ h'.1, strGSliceL_repr_eq S cs h'.2]
      all_goals (intro h; cases h)
  | .nary o xs :: cs, h => by
      have h' : reprSame S (.nary o xs) S.none = true ∧ reprSameSlice S cs = true := by
        rw [reprSameSlice] at h
        · simpa [Bool.and_eq_true] using h
        all_goals (intro h; cases h)
      rw [strGSliceL, strSliceL, strG_repr_eq_strE S (.nary o xs) _ h'.1, strGSliceL_repr_eq S cs h'.2]
      all_goals (intro h; cases h)
  | .bin o x y :: cs, h => by
      have h' : reprSame S (.bin o x y) S.none = true ∧ reprSameSlice S cs = true := by
        rw [reprSameSlice] at h
        · simpa [Bool.and_eq_true] using h
        all_goals (intro h; cases h)
      rw [strGSliceL, strSliceL, strG_repr_eq_strE S (.bin o x y) _ h'.1, strGSliceL_repr_eq S cs h'.2]
      all_goals (intro h; cases h)
  | .un o x :: cs, h => by
      have h' : reprSame S (.un o x) S.none = true ∧ reprSameSlice S cs = true := by
        rw [reprSameSlice] at h
        · simpa [Bool.and_eq_true] using h
        all_goals (intro h; cases h)
      rw [strGSliceL, strSliceL, strG_repr_eq_strE S (.un o x) _ h'.1, strGSliceL_repr_eq S cs h'.2]
      all_goals (intro h; cases h)
  | .cmp o x y :: cs, h => by
      have h' : reprSame S (.cmp o x y) S.none = true ∧ reprSameSlice S cs = true := by
        rw [reprSameSlice] at h
        · simpa [Bool.and_eq_true] using h
        all_goals (intro h; cases h)
      rw [strGSliceL, strSliceL, strG_repr_eq_strE S (.cmp o x y) _ h'.1, strGSliceL_repr_eq S cs h'.2]
      all_goals (intro h; cases h)
  | .ite x y z :: cs, h => by
      have h' : reprSame S (.ite x y z) S.none = true ∧ reprSameSlice S cs = true := by
        rw [reprSameSlice] at h
        · simpa [Bool.and_eq_true] using h
        all_goals (intro h; cases h)
      rw [strGSliceL, strSliceL, strG_repr_eq_strE S (.ite x y z) _ h'.1, strGSliceL_repr_eq S cs h'.2]
      all_goals (intro h; cases h)
  | .call f as :: cs, h => by
      have h' : reprSame S (.call f as) S.none = true ∧ reprSameSlice S cs = true := by
        rw [reprSameSlice] at h
        · simpa [Bool.and_eq_true] using h
        all_goals (intro h; cases h)
      rw [strGSliceL, strSliceL, strG_repr_eq_strE S (.call f as) _ h'.1, strGSliceL_repr_eq S cs h'.2]
      all_goals (intro h; cases h)
  | .callKw f as ns vs :: cs, h => by
      have h' : reprSame S (.callKw f as ns vs) S.none = true ∧ reprSameSlice S cs = true := by
        rw [reprSameSlice] at h
        · simpa [Bool.and_eq_true] using h
        all_goals (intro h; cases h)
      rw [strGSliceL, strSliceL, strG_repr_eq_strE S (.callKw f as ns vs) _ h'.1, strGSliceL_repr_eq S cs h'.2]
      all_goals (intro h; cases h)
  | .subscript x y :: cs, h => by
      have h' : reprSame S (.subscript x y) S.none = true ∧ reprSameSlice S cs = true := by
        rw [reprSameSlice] at h
        · simpa [Bool.and_eq_true] using h
        all_goals (intro h; cases h)
      rw [strGSliceL, strSliceL, strG_repr_eq_strE S (.subscript x y) _ h'.1, strGSliceL_repr_eq S cs h'.2]
      all_goals (intro h; cases h)
  | .lookup x n :: cs, h => by
      have h' : reprSame S (.lookup x n) S.none = true ∧ reprSameSlice S cs = true := by
        rw [reprSameSlice] at h
        · simpa [Bool.and_eq_true] using h
        all_goals (intro h; cases h)
      rw [strGSliceL, strSliceL, strG_repr_eq_strE S (.lookup x n) _ h'.1, strGSliceL_repr_eq S cs h'.2]
      all_goals (intro h; cases h)
  | .cse x p s :: cs, h => by
      have h' : reprSame S (.cse x p s) S.none = true ∧ reprSameSlice S cs = true := by
        rw [reprSameSlice] at h
        · simpa [Bool.and_eq_true] using h
        all_goals (intro h; cases h)
      rw [strGSliceL, strSliceL, strG_repr_eq_strE S (.cse x p s) _ h'.1, strGSliceL_repr_eq S cs h'.2]
      all_goals (intro h; cases h)
  | .subst x vs xs :: cs, h => by
      have h' : reprSame S (.subst x vs xs) S.none = true ∧ reprSameSlice S cs = true := by
        rw [reprSameSlice] at h
        · simpa [Bool.and_eq_true] using h
        all_goals (intro h; cases h)
      rw [strGSliceL, strSliceL, strG_repr_eq_strE S (.subst x vs xs) _ h'.1, strGSliceL_repr_eq S cs h'.2]
      all_goals (intro h; cases h)
  | .deriv x vs :: cs, h => by
      have h' : reprSame S (.deriv x vs) S.none = true ∧ reprSameSlice S cs = true := by
        rw [reprSameSlice] at h
        · simpa [Bool.and_eq_true] using h
        all_goals (intro h; cases h)
      rw [strGSliceL, strSliceL, strG_repr_eq_strE S (.deriv x vs) _ h'.1, strGSliceL_repr_eq S cs h'.2]
      all_goals (intro h; cases h)
  | .slice xs :: cs, h => by
      have h' : reprSame S (.slice xs) S.none = true ∧ reprSameSlice S cs = true := by
        rw [reprSameSlice] at h
        · simpa [Bool.and_eq_true] using h
        all_goals (intro h; cases h)
      rw [strGSliceL, strSliceL, strG_repr_eq_strE S (.slice xs) _ h'.1, strGSliceL_repr_eq S cs h'.2]
      all_goals (intro h; cases h)
  | .nan :: cs, h => by
      have h' : reprSame S .nan S.none = true ∧ reprSameSlice S cs = true := by
        rw [reprSameSlice] at h
        · simpa [Bool.and_eq_true] using h
        all_goals (intro h; cases h)
      rw [strGSliceL, strSliceL, strG_repr_eq_strE S .nan _ h'.1, strGSliceL_repr_eq S cs h'.2]
      all_goals (intro h; cases h)
  | .wildcard :: cs, h => by
      have h' : reprSame S .wildcard S.none = true ∧ reprSameSlice S cs = true := by
        rw [reprSameSlice] at h
        · simpa [Bool.and_eq_true] using h
        all_goals (intro h; cases h)
      rw [strGSliceL, strSliceL, strG_repr_eq_strE S .wildcard _ h'.1, strGSliceL_repr_eq S cs h'.2]
      all_goals (intro h; cases h)
  | .dotWild n :: cs, h => by
      have h' : reprSame S (.dotWild n) S.none = true ∧ reprSameSlice S cs = true := by
        rw [reprSameSlice] at h
        · simpa [Bool.and_eq_true] using h
        all_goals (intro h; cases h)
      rw [strGSliceL, strSliceL, strG_repr_eq_strE S (.dotWild n) _ h'.1, strGSliceL_repr_eq S cs h'.2]
      all_goals (intro h; cases h)
  | .starWild n :: cs, h => by
      have h' : reprSame S (.starWild n) S.none = true ∧ reprSameSlice S cs = true := by
        rw [reprSameSlice] at h
        · simpa [Bool.and_eq_true] using h
        all_goals (intro h; cases h)
      rw [strGSliceL, strSliceL, strG_repr_eq_strE S (.starWild n) _ h'.1, strGSliceL_repr_eq S cs h'.2]
      all_goals (intro h; cases h)
  | .funcSym :: cs, h => by
      have h' : reprSame S .funcSym S.none = true ∧ reprSameSlice S cs = true := by
        rw [reprSameSlice] at h
        · simpa [Bool.and_eq_true] using h
        all_goals (intro h; cases h)
      rw [strGSliceL, strSliceL, strG_repr_eq_strE S .funcSym _ h'.1, strGSliceL_repr_eq S cs h'.2]
      all_goals (intro h; cases h)
  | .tuple xs :: cs, h => by
      have h' : reprSame S (.tuple xs) S.none = true ∧ reprSameSlice S cs = true := by
        rw [reprSameSlice] at h
        · simpa [Bool.and_eq_true] using h
        all_goals (intro h; cases h)
      rw [strGSliceL, strSliceL, strG_repr_eq_strE S (.tuple xs) _ h'.1, strGSliceL_repr_eq S cs h'.2]
      all_goals (intro h; cases h)
  | .list xs :: cs, h => by
      have h' : reprSame S (.list xs) S.none = true ∧ reprSameSlice S cs = true := by
        rw [reprSameSlice] at h
        · simpa [Bool.and_eq_true] using h
        all_goals (intro h; cases h)
      rw [strGSliceL, strSliceL, strG_repr_eq_strE S (.list xs) _ h'.1, strGSliceL_repr_eq S cs h'.2]
      all_goals (intro h; cases h)
end

/-! ### the keyword `not`, which the parser scheme cannot rank -/

/-- child positions of C13: the C06 positions, with the operand of `not` told apart from the
operand of `~` -/
inductive GPos where
  | std (p : Pos)
  | notArg
  deriving Repr, DecidableEq

def GPos.pos : GPos → Pos
  | .std p => p
  | .notArg => .unArg

/-- Python's grammar (`not_test: 'not' not_test | comparison`) admits an unparenthesised
`not …` operand exactly where an operand of level `not` or lower is expected: operands of `and` /
`or`, the three parts of a conditional, arguments, elements, indices, the whole expression, and
the operand of another `not`.  In table terms: as if `not …` carried an operator of level
`pyNotLevel` at both ends. -/
def notAdmitted (P : ParserPrec) : GPos → Bool
  | .notArg => true
  | .std p => decide (p.lge P ≤ pyNotLevel) && decide (p.rge P ≤ pyNotLevel)

def isLnot : Expr → Bool
  | .un .lnot _ => true
  | _ => false

/-- a `not` child is parenthesised by the printer or stands where Python admits it -/
def notAt (P : ParserPrec) (S : PrintPrec) (g : GPos) (c : Expr) : Bool :=
  !isLnot c || parenthesised S g.pos (.un .lnot) || notAdmitted P g

mutual
/-- every `LogicalNot` child of the tree is parenthesised or admitted by Python's grammar
(child positions as in `Printable`) -/
def notOk (P : ParserPrec) (S : PrintPrec) : Expr → Bool
  | .nary .sum (c :: cs) =>
      notAt P S (.std (.left .plus)) c && notOk P S c && notOkAll P S (.std (.right .plus)) cs
  | .nary .prod cs => notOkProd P S cs
  | .nary .bor cs => notOkAll P S (.std (.left .bor)) cs
  | .nary .bxor cs => notOkAll P S (.std (.left .bxor)) cs
  | .nary .band cs => notOkAll P S (.std (.left .band)) cs
  | .nary .lor cs => notOkAll P S (.std (.left .lor)) cs
  | .nary .land cs => notOkAll P S (.std (.left .land)) cs
  | .nary _ cs => notOkAll P S (.std .arg) cs
  | .bin o a b =>
      notAt P S (.std (.left (binInfix o))) a && notAt P S (.std (.right (binInfix o))) b
        && notOk P S a && notOk P S b
  | .un .bnot a => notAt P S (.std .unArg) a && notOk P S a
  | .un .lnot a => notAt P S .notArg a && notOk P S a
  | .cmp o a b =>
      notAt P S (.std (.left (.cmp o))) a && notAt P S (.std (.right (.cmp o))) b
        && notOk P S a && notOk P S b
  | .ite c t e =>
      notAt P S (.std .iteCond) c && notAt P S (.std .iteThen) t && notAt P S (.std .iteElse) e
        && notOk P S c && notOk P S t && notOk P S e
  | .call f as => notAt P S (.std .callee) f && notOk P S f && notOkAll P S (.std .arg) as
  | .callKw f as _ vs =>
      notAt P S (.std .callee) f && notOk P S f && notOkAll P S (.std .arg) as
        && notOkAll P S (.std .arg) vs
  | .subscript a i => notAt P S (.std .callee) a && notOk P S a && notAt P S (.std .index) i
      && notOk P S i
  | .lookup a _ => notAt P S (.std .callee) a && notOk P S a
  | .tuple cs => notOkAll P S (.std .elemRest) cs
  | .list cs => notOkAll P S (.std .elemRest) cs
  | .slice cs => notOkAll P S (.std .sliceLast) cs
  | _ => true
def notOkAll (P : ParserPrec) (S : PrintPrec) (g : GPos) : List Expr → Bool
  | [] => true
  | c :: cs => notAt P S g c && notOk P S c && notOkAll P S g cs
/-- operands of a product: the last one is a right operand -/
def notOkProd (P : ParserPrec) (S : PrintPrec) : List Expr → Bool
  | [] => true
  | [c] => notAt P S (.std (.right .times)) c && notOk P S c
  | c :: cs => notAt P S (.std (.left .times)) c && notOk P S c && notOkProd P S cs
end

/-! ### the local condition of C13 and its finite table -/

/-- THE local condition for the compiled source under Python's grammar:
* the C06 condition for (parser table, stringifier table) with the constants of
  `CompileMapper` (`repr`, never parenthesised): `C13R.okTriple`;
* a `not` child is parenthesised or admitted by Python's grammar. -/
def gOk (P : ParserPrec) (S : PrintPrec) (g : GPos) (k : Kind) : Bool :=
  C13R.okTriple P S g.pos k
  && (!(k == .un .lnot) || parenthesised S g.pos k || notAdmitted P g)

def allGPos : List GPos := allPos.map .std ++ [.notArg]

/-- all (position, child class) pairs that fail the local condition of C13 -/
def gBadPairs (P : ParserPrec) (S : PrintPrec) : List (GPos × Kind) :=
  (allGPos.flatMap fun g => allKinds.map fun k => (g, k)).filter fun gk => !gOk P S gk.1 gk.2

/-- the fragment of `PV.C13.compile_source_groups_current`: covered node shapes, every child
passes `C13R.okTriple` in its position (hence `gOk`: every `not` child passes `notAt`) -/
def InFragmentPy (P : ParserPrec) (S : PrintPrec) (e : Expr) : Bool :=
  C13R.InFragment P S e && notOk P S e

/-- the same with arbitrarily nested sums and products -/
def InFragmentPyFlat (P : ParserPrec) (S : PrintPrec) (e : Expr) : Bool :=
  C13R.InFragmentFlat P S e && notOk P S (flattenAssoc e)

end PV.C13
