import PV.Model.ParserTableRef
/-
  C07, T-gen.  The table interpreter of `PV/Model/ParserTable.lean`, run on the table the
  hand-written parser model is tied to (`c07ModelTable`, `PV/Model/ParserTableRef.lean`), IS the
  hand-written parser `PV/Model/Parser.lean` — for all token lists, levels, loop states and fuel.

  This file: the infrastructure (projections of the table, evaluation lemmas for the conditions and
  statements that test a literal token, the dispatch tactic) and the loop of `parse_expression`
  around `parse_postfix`, one lemma per token.  `ParserTableMain.lean`: `parse_prefix`,
  `parse_arglist`, the induction on the fuel, `Parser.__call__`.
-/
set_option linter.unusedSimpArgs false
namespace PV

/-- the four functions agree at fuel `f` -/
def c07Agree (P : ParserPrec) (f : Nat) : Prop :=
  (∀ m ts, c07ExprT c07ModelTable P f m ts = parseExpr P f m ts) ∧
  (∀ ts, c07PrefixT c07ModelTable P f ts = parsePrefix P f ts) ∧
  (∀ m l fin ts, c07LoopT c07ModelTable P f m l fin ts = postfixLoop P f m l fin ts) ∧
  (∀ ts a kn kv ca, c07ArglistT c07ModelTable P f ts a kn kv ca = parseArglist P f ts a kn kv ca)

@[simp] theorem c07M_comp : c07ModelTable.compTable = c07ModelComp := rfl
@[simp] theorem c07M_join : c07ModelTable.joinToSlice = c07ModelJoin := rfl
@[simp] theorem c07M_terminals : c07ModelTable.terminals = c07ModelTerminals := rfl
@[simp] theorem c07M_prefixes : c07ModelTable.prefixes = c07ModelPrefixes := rfl
@[simp] theorem c07M_postfixes : c07ModelTable.postfixes = c07ModelPostfixes := rfl
@[simp] theorem c07M_exprDefault : c07ModelTable.exprDefault = 0 := rfl
@[simp] theorem c07M_exprExit : c07ModelTable.exprExit = c07ModelExit := rfl
@[simp] theorem c07M_arglist : c07ModelTable.arglist = c07ModelArglist := rfl

/-- the tail of `parse_expression` (`FinalizedTuple` → `tuple`) does not change the tree -/
theorem c07Exit_model (l : Expr) (fin : Bool) : c07Exit c07ModelTable l fin = pure l := by
  cases fin <;> cases l <;>
    simp [c07Exit, c07ModelExit, c07EvalTm, c07EvalCond, c07Get, c07IsInst, c07Build, c07NaryOf,
      c07BinOf, c07AsExpr, bind, Except.bind, pure, Except.pure]

theorem c07_isSym_cons (s : String) (t : Tok) (r : List Tok) : isSym s (t :: r) = isSym s [t] := by
  cases t <;> rfl

theorem c07_symMatch (s : String) (tok : Tok) :
    C07Tok.matches (.sym s) tok = isSym s [tok] := by
  cases tok <;> simp [C07Tok.matches, isSym]
  exact BEq.comm

/-- `pstate.is_next(_t)` for a literal token -/
theorem c07_isNext_sym (env : C07Env) (toks : List Tok) (n s : String) :
    c07EvalCond env toks (.isNext ⟨n, .sym s⟩) = .ok (isSym s toks) := by
  cases toks with
  | nil => simp [c07EvalCond, isSym, pure, Except.pure]
  | cons t r =>
    rw [c07_isSym_cons]
    simp [c07EvalCond, C07Tag.matches, c07_symMatch, pure, Except.pure]

/-- `pstate.is_at_end() or pstate.next_tag() is _t` for a literal token -/
theorem c07_endOrNext_sym (env : C07Env) (toks : List Tok) (n s : String) :
    c07EvalCond env toks (.or (.atEnd 0) (.nextTagIs 0 ⟨n, .sym s⟩)) =
      .ok (toks.isEmpty || isSym s toks) := by
  cases toks with
  | nil => simp [c07EvalCond, isSym, pure, Except.pure, bind, Except.bind]
  | cons t r =>
    rw [c07_isSym_cons]
    simp [c07EvalCond, C07Tag.matches, c07_symMatch, pure, Except.pure, bind, Except.bind]

/-- `pstate.expect(_t)` for a literal token -/
theorem c07_expect_sym (R : C07Run) (st : C07St) (n s : String) :
    c07ExecStmt R st (.expect ⟨n, .sym s⟩) =
      if isSym s st.toks then .ok st else .error .parse := by
  cases h : st.toks with
  | nil => simp [c07ExecStmt, h, isSym, throw, throwThe, MonadExceptOf.throw]
  | cons t r =>
    rw [c07_isSym_cons]
    simp [c07ExecStmt, h, C07Tag.matches, c07_symMatch, throw, throwThe,
      MonadExceptOf.throw, pure, Except.pure]

/-- the extracted body of `_join_to_slice` is `joinToSlice` -/
theorem c07Jts_model (cx : C07Ctx) (a b : Expr) (fa fb : Bool) :
    c07Jts c07ModelJoin cx (.expr a fa) (.expr b fb) = .ok (.expr (joinToSlice a b) false) := by
  cases b <;>
    simp [c07Jts, c07ModelJoin, joinToSlice, c07EvalTm, c07EvalCond, c07Get, c07AsExpr, c07AsTuple,
      c07AsIter, c07Build, c07NaryOf, c07BinOf, c07IsInst, bind, Except.bind, pure, Except.pure]

theorem spliceNary_eq (op : NaryOp) (left r : Expr) :
    spliceNary op left r = match left with
      | .nary o cs => if o = op then .nary op (cs ++ [r]) else .nary op [left, r]
      | _ => .nary op [left, r] := by
  unfold spliceNary
  split <;> simp_all

/-- evaluate the `if … elif …` chain of `parse_postfix` on a concrete token -/
macro "c07_find" : tactic => `(tactic|
  simp [c07FindPost, c07ModelPostfixes, c07ModelComp, C07Test.holds, C07Tag.matches,
      C07Tok.matches, C07PostRow.guardOk, C07Prec.get, c07CompOf,
      c07Post_openpar, c07Post_openbracket, c07Post_if, c07Post_dot, c07Post_plus, c07Post_minus,
      c07Post_times, c07Post_floordiv, c07Post_over, c07Post_modulo, c07Post_exp, c07Post_and,
      c07Post_or, c07Post_bitwiseor, c07Post_bitwisexor, c07Post_bitwiseand, c07Post_rightshift,
      c07Post_leftshift, c07Post_comp, c07Post_colon, c07Post_comma])

/-- run a body on a state in which every recursive call has been replaced by its result -/
macro "c07_body" : tactic => `(tactic|
  simp [c07RunBody, c07ExecCmd, c07ExecStmt, c07ExecStmts, C07Lvl.get, C07Prec.get, c07Set,
    C07Run.tm, C07Run.cx, c07EvalTm, c07EvalCond, c07Get, c07AsExpr, c07AsTuple, c07AsIter,
    c07Build, c07NaryOf, c07BinOf, c07IsInst, c07Left, c07CompOf, c07ModelComp, C07Tag.matches,
    C07Tok.matches, CmpOp.ofSym?, c07Jts_model,
    ↓c07_isNext_sym, ↓c07_endOrNext_sym, ↓c07_expect_sym, spliceNary, parseNeg,
    bind, Except.bind, pure, Except.pure, throw, throwThe, MonadExceptOf.throw, c07Exit_model, *])

set_option hygiene false in
/-- a binary operator row: `left_exp = C(left_exp, self.parse_expression(pstate, L))` -/
macro "c07_binrow" row:ident tok:term:max lvl:term : tactic => `(tactic| (
  obtain ⟨ihE, ihP, ihL, ihA⟩ := ih
  simp only [postfixLoop, c07LoopT]
  by_cases hg : C07PostRow.guardOk $row P m = true
  · have hfind : c07FindPost c07ModelTable.compTable P m (.sym $tok) c07ModelTable.postfixes = some $row := by
      simp [C07PostRow.guardOk, C07Prec.get, $row:ident] at hg; c07_find; omega
    rw [hfind]
    simp [C07PostRow.guardOk, C07Prec.get, $row:ident] at hg
    simp only [$row:ident]
    cases hp : parseExpr P f $lvl rest with
    | error e => c07_body
    | ok v => obtain ⟨r, rest'⟩ := v; c07_body
  · have hfind : c07FindPost c07ModelTable.compTable P m (.sym $tok) c07ModelTable.postfixes = none := by
      simp [C07PostRow.guardOk, C07Prec.get, $row:ident] at hg; c07_find; omega
    rw [hfind]
    simp [C07PostRow.guardOk, C07Prec.get, $row:ident] at hg
    c07_body
    intro h; omega))

theorem c07L_floordiv {P : ParserPrec} {f : Nat} (ih : c07Agree P f) (m : Nat) (l : Expr) (fin : Bool)
    (rest : List Tok) : c07LoopT c07ModelTable P (f+1) m l fin (.sym "//" :: rest) =
    postfixLoop P (f+1) m l fin (.sym "//" :: rest) := by
  c07_binrow c07Post_floordiv "//" P.times

theorem c07L_over {P : ParserPrec} {f : Nat} (ih : c07Agree P f) (m : Nat) (l : Expr) (fin : Bool)
    (rest : List Tok) : c07LoopT c07ModelTable P (f+1) m l fin (.sym "/" :: rest) =
    postfixLoop P (f+1) m l fin (.sym "/" :: rest) := by
  c07_binrow c07Post_over "/" P.times

theorem c07L_modulo {P : ParserPrec} {f : Nat} (ih : c07Agree P f) (m : Nat) (l : Expr) (fin : Bool)
    (rest : List Tok) : c07LoopT c07ModelTable P (f+1) m l fin (.sym "%" :: rest) =
    postfixLoop P (f+1) m l fin (.sym "%" :: rest) := by
  c07_binrow c07Post_modulo "%" P.times

theorem c07L_exp {P : ParserPrec} {f : Nat} (ih : c07Agree P f) (m : Nat) (l : Expr) (fin : Bool)
    (rest : List Tok) : c07LoopT c07ModelTable P (f+1) m l fin (.sym "**" :: rest) =
    postfixLoop P (f+1) m l fin (.sym "**" :: rest) := by
  c07_binrow c07Post_exp "**" P.times

theorem c07L_rightshift {P : ParserPrec} {f : Nat} (ih : c07Agree P f) (m : Nat) (l : Expr) (fin : Bool)
    (rest : List Tok) : c07LoopT c07ModelTable P (f+1) m l fin (.sym ">>" :: rest) =
    postfixLoop P (f+1) m l fin (.sym ">>" :: rest) := by
  c07_binrow c07Post_rightshift ">>" P.shift

theorem c07L_leftshift {P : ParserPrec} {f : Nat} (ih : c07Agree P f) (m : Nat) (l : Expr) (fin : Bool)
    (rest : List Tok) : c07LoopT c07ModelTable P (f+1) m l fin (.sym "<<" :: rest) =
    postfixLoop P (f+1) m l fin (.sym "<<" :: rest) := by
  c07_binrow c07Post_leftshift "<<" P.shift

theorem c07L_and {P : ParserPrec} {f : Nat} (ih : c07Agree P f) (m : Nat) (l : Expr) (fin : Bool)
    (rest : List Tok) : c07LoopT c07ModelTable P (f+1) m l fin (.sym "and" :: rest) =
    postfixLoop P (f+1) m l fin (.sym "and" :: rest) := by
  c07_binrow c07Post_and "and" P.land

theorem c07L_or {P : ParserPrec} {f : Nat} (ih : c07Agree P f) (m : Nat) (l : Expr) (fin : Bool)
    (rest : List Tok) : c07LoopT c07ModelTable P (f+1) m l fin (.sym "or" :: rest) =
    postfixLoop P (f+1) m l fin (.sym "or" :: rest) := by
  c07_binrow c07Post_or "or" P.lor

theorem c07L_bitwiseor {P : ParserPrec} {f : Nat} (ih : c07Agree P f) (m : Nat) (l : Expr) (fin : Bool)
    (rest : List Tok) : c07LoopT c07ModelTable P (f+1) m l fin (.sym "|" :: rest) =
    postfixLoop P (f+1) m l fin (.sym "|" :: rest) := by
  c07_binrow c07Post_bitwiseor "|" P.bor

theorem c07L_bitwisexor {P : ParserPrec} {f : Nat} (ih : c07Agree P f) (m : Nat) (l : Expr) (fin : Bool)
    (rest : List Tok) : c07LoopT c07ModelTable P (f+1) m l fin (.sym "^" :: rest) =
    postfixLoop P (f+1) m l fin (.sym "^" :: rest) := by
  c07_binrow c07Post_bitwisexor "^" P.bxor

theorem c07L_bitwiseand {P : ParserPrec} {f : Nat} (ih : c07Agree P f) (m : Nat) (l : Expr) (fin : Bool)
    (rest : List Tok) : c07LoopT c07ModelTable P (f+1) m l fin (.sym "&" :: rest) =
    postfixLoop P (f+1) m l fin (.sym "&" :: rest) := by
  c07_binrow c07Post_bitwiseand "&" P.band

theorem c07L_eq {P : ParserPrec} {f : Nat} (ih : c07Agree P f) (m : Nat) (l : Expr) (fin : Bool)
    (rest : List Tok) : c07LoopT c07ModelTable P (f+1) m l fin (.sym "==" :: rest) =
    postfixLoop P (f+1) m l fin (.sym "==" :: rest) := by
  c07_binrow c07Post_comp "==" P.comparison

theorem c07L_ne {P : ParserPrec} {f : Nat} (ih : c07Agree P f) (m : Nat) (l : Expr) (fin : Bool)
    (rest : List Tok) : c07LoopT c07ModelTable P (f+1) m l fin (.sym "!=" :: rest) =
    postfixLoop P (f+1) m l fin (.sym "!=" :: rest) := by
  c07_binrow c07Post_comp "!=" P.comparison

theorem c07L_lt {P : ParserPrec} {f : Nat} (ih : c07Agree P f) (m : Nat) (l : Expr) (fin : Bool)
    (rest : List Tok) : c07LoopT c07ModelTable P (f+1) m l fin (.sym "<" :: rest) =
    postfixLoop P (f+1) m l fin (.sym "<" :: rest) := by
  c07_binrow c07Post_comp "<" P.comparison

theorem c07L_le {P : ParserPrec} {f : Nat} (ih : c07Agree P f) (m : Nat) (l : Expr) (fin : Bool)
    (rest : List Tok) : c07LoopT c07ModelTable P (f+1) m l fin (.sym "<=" :: rest) =
    postfixLoop P (f+1) m l fin (.sym "<=" :: rest) := by
  c07_binrow c07Post_comp "<=" P.comparison

theorem c07L_gt {P : ParserPrec} {f : Nat} (ih : c07Agree P f) (m : Nat) (l : Expr) (fin : Bool)
    (rest : List Tok) : c07LoopT c07ModelTable P (f+1) m l fin (.sym ">" :: rest) =
    postfixLoop P (f+1) m l fin (.sym ">" :: rest) := by
  c07_binrow c07Post_comp ">" P.comparison

theorem c07L_ge {P : ParserPrec} {f : Nat} (ih : c07Agree P f) (m : Nat) (l : Expr) (fin : Bool)
    (rest : List Tok) : c07LoopT c07ModelTable P (f+1) m l fin (.sym ">=" :: rest) =
    postfixLoop P (f+1) m l fin (.sym ">=" :: rest) := by
  c07_binrow c07Post_comp ">=" P.comparison

set_option hygiene false in
/-- a row that first passes its guard: reduce both sides to the body of the row -/
macro "c07_guard" row:ident tok:term:max : tactic => `(tactic| (
  obtain ⟨ihE, ihP, ihL, ihA⟩ := ih
  simp only [postfixLoop, c07LoopT]
  by_cases hg : C07PostRow.guardOk $row P m = true
  case neg =>
    have hfind : c07FindPost c07ModelTable.compTable P m (.sym $tok) c07ModelTable.postfixes
        = none := by
      simp [C07PostRow.guardOk, C07Prec.get, $row:ident] at hg; c07_find; omega
    rw [hfind]
    simp [C07PostRow.guardOk, C07Prec.get, $row:ident] at hg
    c07_body
    intro h; omega
  have hfind : c07FindPost c07ModelTable.compTable P m (.sym $tok) c07ModelTable.postfixes
      = some $row := by
    simp [C07PostRow.guardOk, C07Prec.get, $row:ident] at hg; c07_find; omega
  rw [hfind]
  simp [C07PostRow.guardOk, C07Prec.get, $row:ident] at hg
  simp only [$row:ident]))

theorem c07L_plus {P : ParserPrec} {f : Nat} (ih : c07Agree P f) (m : Nat) (l : Expr) (fin : Bool)
    (rest : List Tok) : c07LoopT c07ModelTable P (f+1) m l fin (.sym "+" :: rest) =
    postfixLoop P (f+1) m l fin (.sym "+" :: rest) := by
  c07_guard c07Post_plus "+"
  cases hp : parseExpr P f P.plus rest with
  | error e => c07_body
  | ok v =>
    obtain ⟨r, rest'⟩ := v
    cases l with
    | nary o cs => cases o <;> c07_body
    | _ => c07_body

theorem c07L_times {P : ParserPrec} {f : Nat} (ih : c07Agree P f) (m : Nat) (l : Expr) (fin : Bool)
    (rest : List Tok) : c07LoopT c07ModelTable P (f+1) m l fin (.sym "*" :: rest) =
    postfixLoop P (f+1) m l fin (.sym "*" :: rest) := by
  c07_guard c07Post_times "*"
  cases hp : parseExpr P f P.plus rest with
  | error e => c07_body
  | ok v =>
    obtain ⟨r, rest'⟩ := v
    cases l with
    | nary o cs => cases o <;> c07_body
    | _ => c07_body

theorem c07L_minus {P : ParserPrec} {f : Nat} (ih : c07Agree P f) (m : Nat) (l : Expr) (fin : Bool)
    (rest : List Tok) : c07LoopT c07ModelTable P (f+1) m l fin (.sym "-" :: rest) =
    postfixLoop P (f+1) m l fin (.sym "-" :: rest) := by
  c07_guard c07Post_minus "-"
  cases hp : parseExpr P f P.plus rest with
  | error e => c07_body
  | ok v =>
    obtain ⟨r, rest'⟩ := v
    cases hn : negE r with
    | error e => cases e <;> cases l with
      | nary o cs => cases o <;> c07_body
      | _ => c07_body
    | ok n =>
      cases l with
      | nary o cs => cases o <;> c07_body
      | _ => c07_body

theorem c07L_openpar {P : ParserPrec} {f : Nat} (ih : c07Agree P f) (m : Nat) (l : Expr) (fin : Bool)
    (rest : List Tok) : c07LoopT c07ModelTable P (f+1) m l fin (.sym "(" :: rest) =
    postfixLoop P (f+1) m l fin (.sym "(" :: rest) := by
  c07_guard c07Post_openpar "("
  cases hp : parseArglist P f rest [] [] [] false with
  | error e => c07_body
  | ok v =>
    obtain ⟨⟨args, kn, kv⟩, rest'⟩ := v
    cases kn <;> c07_body

theorem c07L_openbracket {P : ParserPrec} {f : Nat} (ih : c07Agree P f) (m : Nat) (l : Expr)
    (fin : Bool) (rest : List Tok) : c07LoopT c07ModelTable P (f+1) m l fin (.sym "[" :: rest) =
    postfixLoop P (f+1) m l fin (.sym "[" :: rest) := by
  c07_guard c07Post_openbracket "["
  cases rest with
  | nil => c07_body
  | cons t r =>
    cases hp : parseExpr P f 0 (t :: r) with
    | error e => c07_body
    | ok v =>
      obtain ⟨idx, rest'⟩ := v
      by_cases hc : isSym "]" rest' = true <;> c07_body

theorem c07L_if {P : ParserPrec} {f : Nat} (ih : c07Agree P f) (m : Nat) (l : Expr)
    (fin : Bool) (rest : List Tok) : c07LoopT c07ModelTable P (f+1) m l fin (.sym "if" :: rest) =
    postfixLoop P (f+1) m l fin (.sym "if" :: rest) := by
  c07_guard c07Post_if "if"
  cases rest with
  | nil => c07_body
  | cons t r =>
    cases hp : parseExpr P f P.ifp (t :: r) with
    | error e => c07_body
    | ok v =>
      obtain ⟨c, rest'⟩ := v
      by_cases hc : isSym "else" rest' = true
      · cases hp2 : parseExpr P f 0 rest'.tail with
        | error e => c07_body
        | ok v => obtain ⟨e, rest''⟩ := v; c07_body
      · c07_body

theorem c07L_dot {P : ParserPrec} {f : Nat} (ih : c07Agree P f) (m : Nat) (l : Expr)
    (fin : Bool) (rest : List Tok) : c07LoopT c07ModelTable P (f+1) m l fin (.sym "." :: rest) =
    postfixLoop P (f+1) m l fin (.sym "." :: rest) := by
  c07_guard c07Post_dot "."
  cases rest with
  | nil => c07_body
  | cons t r => cases t <;> c07_body

theorem c07L_colon {P : ParserPrec} {f : Nat} (ih : c07Agree P f) (m : Nat) (l : Expr)
    (fin : Bool) (rest : List Tok) : c07LoopT c07ModelTable P (f+1) m l fin (.sym ":" :: rest) =
    postfixLoop P (f+1) m l fin (.sym ":" :: rest) := by
  c07_guard c07Post_colon ":"
  cases hp : parseExpr P f P.slice rest with
  | error e => cases e <;> cases l <;> c07_body
  | ok v =>
    obtain ⟨nx, rest'⟩ := v
    cases l <;> c07_body

theorem c07L_comma {P : ParserPrec} {f : Nat} (ih : c07Agree P f) (m : Nat) (l : Expr)
    (fin : Bool) (rest : List Tok) : c07LoopT c07ModelTable P (f+1) m l fin (.sym "," :: rest) =
    postfixLoop P (f+1) m l fin (.sym "," :: rest) := by
  c07_guard c07Post_comma ","
  by_cases hc : (rest.isEmpty || isSym ")" rest) = true
  · cases fin <;> cases l <;> c07_body
  · cases hp : parseExpr P f P.comma rest with
    | error e => c07_body
    | ok v =>
      obtain ⟨el, rest'⟩ := v
      cases fin <;> cases l <;> c07_body

/-- a token that is no operator or punctuation mark ends the loop -/
theorem c07L_nonsym {P : ParserPrec} {f : Nat} (m : Nat) (l : Expr) (fin : Bool) (tok : Tok)
    (rest : List Tok) (h : ∀ s, tok ≠ .sym s) :
    c07LoopT c07ModelTable P (f+1) m l fin (tok :: rest) =
      postfixLoop P (f+1) m l fin (tok :: rest) := by
  have hfind : c07FindPost c07ModelTable.compTable P m tok c07ModelTable.postfixes = none := by
    cases tok <;> first | exact absurd rfl (h _) | c07_find
  simp only [c07LoopT, hfind]
  cases tok <;> first | exact absurd rfl (h _) | simp [postfixLoop, c07Exit_model, bind, Except.bind, pure, Except.pure]

/-- the symbols `parse_postfix` knows -/
def c07PostSyms : List String :=
  ["(", "[", "if", ".", "+", "-", "*", "//", "/", "%", "**", "and", "or", "|", "^", "&", ">>", "<<",
   "==", "!=", "<", "<=", ">", ">=", ":", ","]

/-- any other symbol ends the loop -/
theorem c07L_othersym {P : ParserPrec} {f : Nat} (m : Nat) (l : Expr) (fin : Bool) (s : String)
    (rest : List Tok) (h : s ∉ c07PostSyms) :
    c07LoopT c07ModelTable P (f+1) m l fin (.sym s :: rest) =
      postfixLoop P (f+1) m l fin (.sym s :: rest) := by
  simp only [c07PostSyms, List.mem_cons, List.not_mem_nil, or_false, not_or] at h
  obtain ⟨h1, h2, h3, h4, h5, h6, h7, h8, h9, h10, h11, h12, h13, h14, h15, h16, h17, h18, h19, h20,
    h21, h22, h23, h24, h25, h26⟩ := h
  have hfind : c07FindPost c07ModelTable.compTable P m (.sym s) c07ModelTable.postfixes = none := by
    c07_find
    simp [Ne.symm h1, Ne.symm h2, Ne.symm h3, Ne.symm h4, Ne.symm h5, Ne.symm h6, Ne.symm h7,
      Ne.symm h8, Ne.symm h9, Ne.symm h10, Ne.symm h11, Ne.symm h12, Ne.symm h13, Ne.symm h14,
      Ne.symm h15, Ne.symm h16, Ne.symm h17, Ne.symm h18, Ne.symm h19, Ne.symm h20, Ne.symm h21,
      Ne.symm h22, Ne.symm h23, Ne.symm h24, Ne.symm h25, Ne.symm h26]
  have hcmp : CmpOp.ofSym? s = none := by
    unfold CmpOp.ofSym?
    split <;> simp_all
  simp only [c07LoopT, hfind, postfixLoop]
  split <;> simp_all [c07Exit_model, bind, Except.bind, pure, Except.pure]

/-- one more unit of fuel for the loop around `parse_postfix` -/
theorem c07L_step {P : ParserPrec} {f : Nat} (ih : c07Agree P f) (m : Nat) (l : Expr) (fin : Bool)
    (ts : List Tok) :
    c07LoopT c07ModelTable P (f+1) m l fin ts = postfixLoop P (f+1) m l fin ts := by
  cases ts with
  | nil => simp [c07LoopT, postfixLoop]
  | cons tok rest =>
    cases tok with
    | sym s =>
      by_cases hs : s ∈ c07PostSyms
      · simp only [c07PostSyms, List.mem_cons, List.not_mem_nil, or_false] at hs
        rcases hs with h | h | h | h | h | h | h | h | h | h | h | h | h | h | h | h | h | h | h | h
          | h | h | h | h | h | h <;> subst h
        · exact c07L_openpar ih m l fin rest
        · exact c07L_openbracket ih m l fin rest
        · exact c07L_if ih m l fin rest
        · exact c07L_dot ih m l fin rest
        · exact c07L_plus ih m l fin rest
        · exact c07L_minus ih m l fin rest
        · exact c07L_times ih m l fin rest
        · exact c07L_floordiv ih m l fin rest
        · exact c07L_over ih m l fin rest
        · exact c07L_modulo ih m l fin rest
        · exact c07L_exp ih m l fin rest
        · exact c07L_and ih m l fin rest
        · exact c07L_or ih m l fin rest
        · exact c07L_bitwiseor ih m l fin rest
        · exact c07L_bitwisexor ih m l fin rest
        · exact c07L_bitwiseand ih m l fin rest
        · exact c07L_rightshift ih m l fin rest
        · exact c07L_leftshift ih m l fin rest
        · exact c07L_eq ih m l fin rest
        · exact c07L_ne ih m l fin rest
        · exact c07L_lt ih m l fin rest
        · exact c07L_le ih m l fin rest
        · exact c07L_gt ih m l fin rest
        · exact c07L_ge ih m l fin rest
        · exact c07L_colon ih m l fin rest
        · exact c07L_comma ih m l fin rest
      · exact c07L_othersym m l fin s rest hs
    | _ => exact c07L_nonsym m l fin _ rest (by intro s h; cases h)

end PV
