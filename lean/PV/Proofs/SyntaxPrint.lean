import PV.Proofs.SyntaxDefs
/-
  C06.  Inversion lemmas for the stringifier model: what `strE S t enc = .ok ps` says about the
  token list `toks ps`, per node shape of the fragment.
-/
namespace PV.Syntax
open PV

theorem bind_eq_ok {ε α β : Type} {x : Except ε α} {f : α → Except ε β} {b : β} :
    (x >>= f) = .ok b ↔ ∃ a, x = .ok a ∧ f a = .ok b := by
  cases x <;> simp [bind, Except.bind]

@[simp] theorem toks_nil : toks [] = [] := rfl
@[simp] theorem toks_sp (ps : Pieces) : toks (.sp :: ps) = toks ps := by simp [toks]
@[simp] theorem toks_tok (t : Tok) (ps : Pieces) : toks (.tok t :: ps) = t :: toks ps := by
  simp [toks]
@[simp] theorem toks_sy (s : String) (ps : Pieces) : toks (sy s :: ps) = .sym s :: toks ps := by
  simp [toks, sy]
@[simp] theorem toks_append (a b : Pieces) : toks (a ++ b) = toks a ++ toks b := by
  simp [toks]
@[simp] theorem toks_parens (a : Pieces) : toks (parens a) = .sym "(" :: toks a ++ [.sym ")"] := by
  simp [parens]

/-- token-level parentheses -/
def wrapT (b : Bool) (ts : List Tok) : List Tok := if b then .sym "(" :: ts ++ [.sym ")"] else ts

theorem toks_parenIf (a : Pieces) (enc my : Nat) :
    toks (parenIf a enc my) = wrapT (decide (enc > my)) (toks a) := by
  unfold parenIf wrapT; split <;> simp_all <;> omega

def wrappedE (S : PrintPrec) (enc : Nat) (t : Expr) : Bool :=
  match kind t with
  | some k => wrappedK S enc k
  | none => false


/-- forced parentheses around an operand of `o` (`rec_with_force_parens_around`) -/
def forcesE (o : Infix) (c : Expr) : Bool :=
  match o with
  | .times => isDivision c
  | .quot | .floordiv | .rem => isMultiplicative c
  | _ => false

theorem fltKind_cases {r : String} {d : Nat} {k : Kind} (h : fltKind r d = some k) :
    k = .neg ∨ k = .sfloat ∨ k = .atom := by
  unfold fltKind at h
  repeat' split at h
  all_goals simp_all

theorem forcesE_kind {o : Infix} {c : Expr} {k : Kind} (h : kind c = some k) :
    forcesE o c = o.forces k := by
  cases c with
  | const c =>
    cases c <;> simp [kind] at h
    · subst h; cases o <;> simp [forcesE, isDivision, isMultiplicative, Infix.forces] <;>
        split <;> rfl
    · subst h; cases o <;> rfl
    · rcases fltKind_cases h with rfl | rfl | rfl <;> cases o <;> rfl
  | nary op cs =>
    cases op <;> simp [kind] at h <;> subst h <;> cases o <;> rfl
  | bin op a b =>
    cases op <;> simp [kind] at h <;> subst h <;> cases o <;> rfl
  | var _ | un _ _ | cmp _ _ _ | ite _ _ _ | call _ _ | callKw _ _ _ _ | subscript _ _
  | lookup _ _ | tuple _ | list _ | slice _ =>
    simp [kind] at h; subst h; cases o <;> rfl
  | _ => simp [kind] at h

theorem toks_forceWrap (all : Bool) (c : Expr) (x : Pieces) :
    toks (forceWrap all c x)
      = wrapT (if all then isMultiplicative c else isDivision c) (toks x) := by
  simp only [forceWrap, wrapT]; split <;> simp_all <;> split <;> simp_all

theorem strE_bin {S o a b enc ps} (h : strE S (.bin o a b) enc = .ok ps) :
    ∃ x y, strE S a (encL S (binInfix o)) = .ok x ∧ strE S b (encR S (binInfix o)) = .ok y ∧
      toks ps = wrapT (wrappedE S enc (.bin o a b))
        (wrapT (forcesE (binInfix o) a) (toks x) ++ .sym (binInfix o).sym ::
          wrapT (forcesE (binInfix o) b) (toks y)) := by
  cases o <;> simp only [strE, bind_eq_ok, pure, Except.pure, Except.ok.injEq] at h <;>
    obtain ⟨x, hx, y, hy, rfl⟩ := h <;> refine ⟨x, y, hx, hy, ?_⟩
  all_goals simp [toks_parenIf, toks_forceWrap, wrappedE, kind, wrappedK, Kind.myPrec, binInfix,
    Infix.sym, forcesE, wrapT]
  all_goals first | rfl | (split <;> rfl)


/-- nodes that print as `left op right` and are rebuilt by one step of the postfix loop -/
def infixOf : Expr → Option (Infix × Expr × Expr)
  | .bin o a b => some (binInfix o, a, b)
  | .cmp o a b => some (.cmp o, a, b)
  | .nary .bor [a, b] => some (.bor, a, b)
  | .nary .bxor [a, b] => some (.bxor, a, b)
  | .nary .band [a, b] => some (.band, a, b)
  | .nary .lor [a, b] => some (.lor, a, b)
  | .nary .land [a, b] => some (.land, a, b)
  | _ => none

theorem joinWith_two (sep x y : Pieces) : joinWith sep [x, y] = x ++ sep ++ y := by
  simp [joinWith]

theorem strL_two {S a b enc xs} (h : strL S [a, b] enc = .ok xs) :
    ∃ x y, strE S a enc = .ok x ∧ strE S b enc = .ok y ∧ xs = [x, y] := by
  simp only [strL, bind_eq_ok, pure, Except.pure, Except.ok.injEq] at h
  obtain ⟨x, hx, _, ⟨y, hy, _, rfl, rfl⟩, rfl⟩ := h
  exact ⟨x, y, hx, hy, rfl⟩

theorem strE_infix {S t o a b enc ps} (hv : infixOf t = some (o, a, b))
    (h : strE S t enc = .ok ps) :
    ∃ x y, strE S a (encL S o) = .ok x ∧ strE S b (encR S o) = .ok y ∧
      toks ps = wrapT (wrappedE S enc t)
        (wrapT (forcesE o a) (toks x) ++ .sym o.sym :: wrapT (forcesE o b) (toks y)) := by
  cases t with
  | bin op a' b' =>
    simp only [infixOf, Option.some.injEq, Prod.mk.injEq] at hv
    obtain ⟨rfl, rfl, rfl⟩ := hv
    exact strE_bin h
  | cmp op a' b' =>
    simp only [infixOf, Option.some.injEq, Prod.mk.injEq] at hv
    obtain ⟨rfl, rfl, rfl⟩ := hv
    simp only [strE, bind_eq_ok, pure, Except.pure, Except.ok.injEq] at h
    obtain ⟨x, hx, y, hy, rfl⟩ := h
    refine ⟨x, y, hx, hy, ?_⟩
    simp [toks_parenIf, wrappedE, kind, wrappedK, Kind.myPrec, Infix.sym, forcesE, wrapT]
  | nary op cs =>
    cases op <;> simp only [infixOf] at hv <;> (try contradiction)
    all_goals
      match cs, hv with
      | [a', b'], hv =>
        simp only [Option.some.injEq, Prod.mk.injEq] at hv
        obtain ⟨rfl, rfl, rfl⟩ := hv
        simp only [strE, bind_eq_ok, pure, Except.pure, Except.ok.injEq] at h
        obtain ⟨xs, hxs, rfl⟩ := h
        obtain ⟨x, y, hx, hy, rfl⟩ := strL_two hxs
        refine ⟨x, y, hx, hy, ?_⟩
        simp [toks_parenIf, joinWith_two, wrappedE, kind, wrappedK, Kind.myPrec, Infix.sym,
          forcesE, wrapT]
  | _ => simp [infixOf] at hv


def infixKind : Infix → Kind
  | .plus => .nary .sum | .times => .nary .prod | .quot => .bin .quot | .floordiv => .bin .floordiv
  | .rem => .bin .rem | .pow => .bin .pow | .lshift => .bin .lshift | .rshift => .bin .rshift
  | .band => .nary .band | .bxor => .nary .bxor | .bor => .nary .bor | .land => .nary .land
  | .lor => .nary .lor | .cmp _ => .cmp

theorem infixKind_lguard (P : ParserPrec) (o : Infix) :
    (infixKind o).lguard P = some (o.guard P) := by
  cases o <;> rfl

theorem infixKind_rlevel (P : ParserPrec) (o : Infix) :
    (infixKind o).rlevel P = some (o.rhs P) := by
  cases o <;> rfl

theorem infixOf_facts {P : ParserPrec} {S : PrintPrec} {t o a b}
    (hv : infixOf t = some (o, a, b)) :
    kind t = some (infixKind o) ∧ pnf t = o.build (pnf a) (pnf b) ∧
    Printable P S t = (okAt P S (.left o) a && okAt P S (.right o) b && Printable P S a
      && Printable P S b) ∧ a.size < t.size ∧ b.size < t.size := by
  cases t with
  | bin op a' b' =>
    simp only [infixOf, Option.some.injEq, Prod.mk.injEq] at hv
    obtain ⟨rfl, rfl, rfl⟩ := hv
    cases op <;> simp [kind, infixKind, binInfix, pnf, Infix.build, Printable, Expr.size] <;> omega
  | cmp op a' b' =>
    simp only [infixOf, Option.some.injEq, Prod.mk.injEq] at hv
    obtain ⟨rfl, rfl, rfl⟩ := hv
    simp [kind, infixKind, pnf, Infix.build, Printable, Expr.size]; omega
  | nary op cs =>
    cases op <;> simp only [infixOf] at hv <;> (try contradiction)
    all_goals
      match cs, hv with
      | [a', b'], hv =>
        simp only [Option.some.injEq, Prod.mk.injEq] at hv
        obtain ⟨rfl, rfl, rfl⟩ := hv
        simp [kind, infixKind, pnf, pnfL, Infix.build, Printable, naryInfix, Expr.size,
          Expr.sizeL]
        omega
  | _ => simp [infixOf] at hv


def UnOp.symS : UnOp → String
  | .bnot => "~" | .lnot => "not"

theorem strE_un {S o a enc ps} (h : strE S (.un o a) enc = .ok ps) :
    ∃ x, strE S a S.unary = .ok x ∧
      toks ps = wrapT (wrappedE S enc (.un o a)) (.sym (UnOp.symS o) :: toks x) := by
  cases o <;> simp only [strE, bind_eq_ok, pure, Except.pure, Except.ok.injEq] at h <;>
    obtain ⟨x, hx, rfl⟩ := h <;> refine ⟨x, hx, ?_⟩ <;>
    simp [toks_parenIf, wrappedE, kind, wrappedK, Kind.myPrec, UnOp.symS, wrapT]

theorem strE_ite {S c t e enc ps} (h : strE S (.ite c t e) enc = .ok ps) :
    ∃ x y z, strE S t S.lor = .ok x ∧ strE S c S.lor = .ok y ∧ strE S e S.lor = .ok z ∧
      toks ps = wrapT (wrappedE S enc (.ite c t e))
        (toks x ++ .sym "if" :: (toks y ++ .sym "else" :: toks z)) := by
  simp only [strE, bind_eq_ok, pure, Except.pure, Except.ok.injEq] at h
  obtain ⟨x, hx, y, hy, z, hz, rfl⟩ := h
  refine ⟨x, y, z, hx, hy, hz, ?_⟩
  simp [toks_parenIf, wrappedE, kind, wrappedK, Kind.myPrec, wrapT]

theorem strE_int {S n enc ps} (h : strE S (.const (.int n)) enc = .ok ps) :
    toks ps = wrapT (wrappedE S enc (.const (.int n)))
      (if n < 0 then [.sym "-", .int n.natAbs] else [.int n.toNat]) := by
  simp only [strE, constPieces] at h
  split at h <;> simp only [pure, Except.pure, Except.ok.injEq] at h <;> subst h
  · simp [wrappedE, kind, wrappedK, Kind.myPrec, wrapT, *]
    split <;> simp
  · simp [wrappedE, kind, wrappedK, Kind.myPrec, wrapT, *]

theorem strE_flt {S r n d enc ps k} (hk : fltKind r d = some k)
    (h : strE S (.const (.flt r n d)) enc = .ok ps) :
    toks ps = wrapT (wrappedE S enc (.const (.flt r n d)))
      (if r.startsWith "-" then [.sym "-", .flt (r.drop 1).toString (-n) d] else [.flt r n d]) := by
  have hd : d ≠ 0 := by
    intro hd; simp [fltKind, hd] at hk
  simp only [strE, constPieces, hd, if_false, pure, Except.pure, Except.ok.injEq] at h
  subst h
  simp only [wrappedE, kind, hk]
  unfold fltKind at hk
  simp only [hd, if_false] at hk
  by_cases hneg : r.startsWith "-" = true
  · simp only [hneg, if_true, Bool.true_or] at hk ⊢
    split at hk
    · simp only [Option.some.injEq] at hk; subst hk
      simp only [wrappedK, Kind.myPrec, Bool.true_and, wrapT]
      split <;> simp_all
    · cases hk
  · simp only [hneg, Bool.false_eq_true, if_false, Bool.false_or] at hk ⊢
    split at hk
    · rename_i hsg
      simp only [Option.some.injEq] at hk; subst hk
      simp only [hsg, wrappedK, Kind.myPrec, Bool.true_and, wrapT]
      split <;> simp_all
    · rename_i hsg
      simp only [Option.some.injEq] at hk; subst hk
      simp only [wrappedK, Kind.myPrec, wrapT]
      simp_all

theorem strE_bool {S b enc ps} (h : strE S (.const (.bool b)) enc = .ok ps) :
    toks ps = [if b then .tTrue else .tFalse] := by
  simp only [strE, constPieces, pure, Except.pure, Except.ok.injEq] at h
  subst h; simp

theorem strE_var {S x enc ps} (h : strE S (.var x) enc = .ok ps) : toks ps = [.ident x] := by
  simp only [strE, pure, Except.pure, Except.ok.injEq] at h
  subst h; simp


/-! ### n-ary sums and products -/

/-- `op x₁ op x₂ …` -/
def chainT (s : String) : List Pieces → List Tok
  | [] => []
  | x :: xs => .sym s :: (toks x ++ chainT s xs)

theorem toks_joinWith {sep : Pieces} {s : String} (hsep : toks sep = [.sym s]) :
    ∀ (x : Pieces) (xs : List Pieces), toks (joinWith sep (x :: xs)) = toks x ++ chainT s xs
  | x, [] => by simp [joinWith, chainT]
  | x, y :: ys => by
    simp only [joinWith, toks_append, hsep, chainT, toks_joinWith hsep y ys]
    simp

theorem strL_nil {S enc xs} (h : strL S [] enc = .ok xs) : xs = [] := by
  simp only [strL, pure, Except.pure, Except.ok.injEq] at h; exact h.symm

theorem strL_cons {S c cs enc xs} (h : strL S (c :: cs) enc = .ok xs) :
    ∃ x xs', strE S c enc = .ok x ∧ strL S cs enc = .ok xs' ∧ xs = x :: xs' := by
  simp only [strL, bind_eq_ok, pure, Except.pure, Except.ok.injEq] at h
  obtain ⟨x, hx, xs', hxs, rfl⟩ := h
  exact ⟨x, xs', hx, hxs, rfl⟩

theorem strForceL_nil {S all enc xs} (h : strForceL S all [] enc = .ok xs) : xs = [] := by
  simp only [strForceL, pure, Except.pure, Except.ok.injEq] at h; exact h.symm

theorem strForceL_cons {S all c cs enc xs} (h : strForceL S all (c :: cs) enc = .ok xs) :
    ∃ x xs', strE S c enc = .ok x ∧ strForceL S all cs enc = .ok xs' ∧
      xs = forceWrap all c x :: xs' := by
  simp only [strForceL, bind_eq_ok, pure, Except.pure, Except.ok.injEq] at h
  obtain ⟨x, hx, xs', hxs, rfl⟩ := h
  exact ⟨x, xs', hx, hxs, rfl⟩

theorem strE_sum {S cs enc ps} (h : strE S (.nary .sum cs) enc = .ok ps) :
    ∃ xs, strL S cs S.sum = .ok xs ∧
      toks ps = wrapT (wrappedE S enc (.nary .sum cs)) (toks (joinWith [.sp, sy "+", .sp] xs)) := by
  simp only [strE, bind_eq_ok, pure, Except.pure, Except.ok.injEq] at h
  obtain ⟨xs, hxs, rfl⟩ := h
  refine ⟨xs, hxs, ?_⟩
  simp [toks_parenIf, wrappedE, kind, wrappedK, Kind.myPrec]

theorem strE_prod {S cs enc ps} (h : strE S (.nary .prod cs) enc = .ok ps) :
    ∃ xs, strForceL S false cs S.product = .ok xs ∧
      toks ps = wrapT (wrappedE S enc (.nary .prod cs)) (toks (joinWith [sy "*"] xs)) := by
  simp only [strE, bind_eq_ok, pure, Except.pure, Except.ok.injEq] at h
  obtain ⟨xs, hxs, rfl⟩ := h
  refine ⟨xs, hxs, ?_⟩
  simp [toks_parenIf, wrappedE, kind, wrappedK, Kind.myPrec]

theorem size_lt_of_mem {c : Expr} {cs : List Expr} (h : c ∈ cs) : c.size ≤ Expr.sizeL cs := by
  induction cs with
  | nil => cases h
  | cons d ds ih =>
    simp only [Expr.sizeL]
    rcases List.mem_cons.mp h with rfl | h
    · omega
    · have := ih h; omega


/-! ### postfix forms, tuples, lists -/

/-- `x₁ , x₂ , …`; `ca`: a comma comes first -/
def seqT (ca : Bool) : List Pieces → List Tok
  | [] => []
  | x :: xs => (if ca then [.sym ","] else []) ++ toks x ++ seqT true xs

theorem toks_joinWith_comma : ∀ (xs : List Pieces),
    toks (joinWith [sy ",", .sp] xs) = seqT false xs
  | [] => by simp [joinWith, seqT]
  | [x] => by simp [joinWith, seqT]
  | x :: y :: ys => by
    have ih := toks_joinWith_comma (y :: ys)
    simp only [joinWith, toks_append, ih, seqT]
    simp

theorem seqT_true_eq_chain : ∀ (xs : List Pieces), seqT true xs = chainT "," xs
  | [] => rfl
  | x :: xs => by simp [seqT, chainT, seqT_true_eq_chain xs]

theorem seqT_append (ca : Bool) : ∀ (xs ys : List Pieces),
    seqT ca (xs ++ ys) = seqT ca xs ++ seqT (ca || !xs.isEmpty) ys
  | [], ys => by simp [seqT]
  | x :: xs, ys => by simp [seqT, seqT_append true xs ys]

theorem strE_lookup {S a n enc ps} (h : strE S (.lookup a n) enc = .ok ps) :
    ∃ x, strE S a S.call = .ok x ∧
      toks ps = wrapT (wrappedE S enc (.lookup a n)) (toks x ++ [.sym ".", .ident n]) := by
  simp only [strE, bind_eq_ok, pure, Except.pure, Except.ok.injEq] at h
  obtain ⟨x, hx, rfl⟩ := h
  refine ⟨x, hx, ?_⟩
  simp [toks_parenIf, wrappedE, kind, wrappedK, Kind.myPrec]

theorem strE_subscript_tuple {S a cs enc ps} (h : strE S (.subscript a (.tuple cs)) enc = .ok ps) :
    ∃ x xs, strE S a S.call = .ok x ∧ strL S cs S.none = .ok xs ∧
      toks ps = wrapT (wrappedE S enc (.subscript a (.tuple cs)))
        (toks x ++ .sym "[" :: (seqT false xs ++ [.sym "]"])) := by
  simp only [strE, bind_eq_ok, pure, Except.pure, Except.ok.injEq] at h
  obtain ⟨xs, hxs, x, hx, rfl⟩ := h
  refine ⟨x, xs, hx, hxs, ?_⟩
  simp [toks_parenIf, wrappedE, kind, wrappedK, Kind.myPrec, toks_joinWith_comma]

theorem strE_subscript {S a i enc ps} (hi : ∀ cs, i ≠ .tuple cs)
    (h : strE S (.subscript a i) enc = .ok ps) :
    ∃ x y, strE S a S.call = .ok x ∧ strE S i S.none = .ok y ∧
      toks ps = wrapT (wrappedE S enc (.subscript a i))
        (toks x ++ .sym "[" :: (toks y ++ [.sym "]"])) := by
  have hi' : ∀ cs, i = .tuple cs → False := hi
  rw [strE] at h
  · simp only [bind_eq_ok, pure, Except.pure, Except.ok.injEq] at h
    obtain ⟨y, hy, x, hx, rfl⟩ := h
    refine ⟨x, y, hx, hy, ?_⟩
    simp [toks_parenIf, wrappedE, kind, wrappedK, Kind.myPrec]
  · exact hi'

theorem strE_call {S f as enc ps} (h : strE S (.call f as) enc = .ok ps) :
    ∃ x xs, strE S f S.call = .ok x ∧ strL S as S.none = .ok xs ∧
      toks ps = toks x ++ .sym "(" :: (seqT false xs ++ [.sym ")"]) := by
  simp only [strE, bind_eq_ok, pure, Except.pure, Except.ok.injEq] at h
  obtain ⟨x, hx, xs, hxs, rfl⟩ := h
  refine ⟨x, xs, hx, hxs, ?_⟩
  simp [toks_joinWith_comma]

/-- the pieces of the keyword arguments -/
def kwPieces (ns : List String) (vp : List Pieces) : List Pieces :=
  (ns.zip vp).map fun p => (.tok (.ident p.1) : Piece) :: sy "=" :: p.2

theorem strE_callKw {S f as ns vs enc ps} (h : strE S (.callKw f as ns vs) enc = .ok ps) :
    ∃ x xs ys, strE S f S.call = .ok x ∧ strL S as S.none = .ok xs ∧ strL S vs S.none = .ok ys ∧
      toks ps = toks x ++ .sym "(" :: (seqT false (xs ++ kwPieces ns ys) ++ [.sym ")"]) := by
  simp only [strE, bind_eq_ok, pure, Except.pure, Except.ok.injEq] at h
  obtain ⟨xs, hxs, ys, hys, x, hx, rfl⟩ := h
  refine ⟨x, xs, ys, hx, hxs, hys, ?_⟩
  simp [toks_joinWith_comma, kwPieces]

theorem strE_tuple {S cs enc ps} (h : strE S (.tuple cs) enc = .ok ps) :
    ∃ xs, strL S cs S.none = .ok xs ∧
      toks ps = .sym "(" :: (seqT false xs ++
        ((if cs.length == 1 then [.sym ","] else []) ++ [.sym ")"])) := by
  simp only [strE, bind_eq_ok, pure, Except.pure, Except.ok.injEq] at h
  obtain ⟨xs, hxs, rfl⟩ := h
  refine ⟨xs, hxs, ?_⟩
  split <;> simp [toks_joinWith_comma, *]

theorem strE_list {S cs enc ps} (h : strE S (.list cs) enc = .ok ps) :
    ∃ xs, strL S cs S.none = .ok xs ∧ toks ps = .sym "[" :: (seqT false xs ++ [.sym "]"]) := by
  simp only [strE, bind_eq_ok, pure, Except.pure, Except.ok.injEq] at h
  obtain ⟨xs, hxs, rfl⟩ := h
  refine ⟨xs, hxs, ?_⟩
  simp [toks_joinWith_comma]

/-! ### slices -/

theorem strE_slice {S cs enc ps} (h : strE S (.slice cs) enc = .ok ps) :
    ∃ xs, strSliceL S cs = .ok xs ∧
      toks ps = wrapT (wrappedE S enc (.slice cs)) (toks (joinWith [sy ":"] xs)) := by
  simp only [strE, bind_eq_ok, pure, Except.pure, Except.ok.injEq] at h
  obtain ⟨xs, hxs, rfl⟩ := h
  refine ⟨xs, hxs, ?_⟩
  simp [toks_parenIf, wrappedE, kind, wrappedK, Kind.myPrec]

theorem strSliceL_nil {S xs} (h : strSliceL S [] = .ok xs) : xs = [] := by
  simp only [strSliceL, pure, Except.pure, Except.ok.injEq] at h; exact h.symm

theorem strSliceL_none {S cs xs} (h : strSliceL S (.const .none :: cs) = .ok xs) :
    ∃ xs', strSliceL S cs = .ok xs' ∧ xs = [] :: xs' := by
  simp only [strSliceL, bind_eq_ok, pure, Except.pure, Except.ok.injEq] at h
  obtain ⟨xs', hxs, rfl⟩ := h
  exact ⟨xs', hxs, rfl⟩

theorem strSliceL_cons {S c cs xs} (hc : c ≠ .const .none) (h : strSliceL S (c :: cs) = .ok xs) :
    ∃ x xs', strE S c S.none = .ok x ∧ strSliceL S cs = .ok xs' ∧ xs = x :: xs' := by
  rw [strSliceL] at h
  · simp only [bind_eq_ok, pure, Except.pure, Except.ok.injEq] at h
    obtain ⟨x, hx, xs', hxs, rfl⟩ := h
    exact ⟨x, xs', hx, hxs, rfl⟩
  · exact fun h' => hc h'

end PV.Syntax
