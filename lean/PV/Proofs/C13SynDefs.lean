import PV.Model.Compile
import PV.Proofs.SyntaxStrFlatten
/-
  C13.  The fragment and the local condition of C06 (PV/Proofs/SyntaxDefs.lean) for the printer of
  `compile()`: `CompileMapper` is the stringifier with `map_constant = repr`, so a signed constant
  is NEVER parenthesised.  Only `Kind.myPrec` changes (`neg`, `sfloat`: no precedence of their
  own); `wrappedK`, `parenthesised`, `okTriple`, `okAt`, `Printable…` are the C06 definitions
  over it.  The files C13SynPrint / C13SynRoundtrip / C13SynPostfix / C13SynMain / C13SynFlatten
  are the C06 proofs replayed for this printer (generated from the C06 files by textual
  substitution of the printer functions; every proof is checked by Lean as it stands).
-/
namespace PV.C13R
open PV PV.Syntax

/-- second argument of `parenthesize_if_needed` for this class in `CompileMapper`; `none`: never
parenthesised — as `Kind.myPrec`, except that constants are printed by `repr` -/
def myPrecR (S : PrintPrec) : Kind → Option Nat
  | .neg => none
  | .sfloat => none
  | k => k.myPrec S

def wrappedK (S : PrintPrec) (enc : Nat) (k : Kind) : Bool :=
  match myPrecR S k with
  | some p => enc > p
  | none => false

/-- the printer puts the child in parentheses -/
def parenthesised (S : PrintPrec) (pos : Pos) (k : Kind) : Bool :=
  pos.forces k || wrappedK S (pos.enc S) k

/-- THE local condition: a parenthesised child is read at level 0 (every operator must be
absorbable there); an unparenthesised child must keep its top operator inside the parent's
operand (`lguard ≥ lge`) and must not swallow what follows (`rlevel ≥ rge`) -/
def okTriple (P : ParserPrec) (S : PrintPrec) (pos : Pos) (k : Kind) : Bool :=
  !pos.excludes k &&
  if parenthesised S pos k then decide (geO (k.lguard P) 1)
  else decide (geO (k.lguard P) (pos.lge P)) && decide (geO (k.rlevel P) (pos.rge P))

def okAt (P : ParserPrec) (S : PrintPrec) (pos : Pos) (c : Expr) : Bool :=
  match kind c with
  | some k => okTriple P S pos k
  | none => false

/-- keyword names are pairwise different (a repeated keyword overwrites the earlier value) -/
def nodupB : List String → Bool
  | [] => true
  | x :: xs => !xs.contains x && nodupB xs

mutual
/-- the fragment: every node has a covered shape and every child satisfies `okTriple` -/
def Printable (P : ParserPrec) (S : PrintPrec) : Expr → Bool
  | .const (.int _) => true
  | .const (.bool _) => true
  | .const (.flt r _ d) => (fltKind r d).isSome
  | .var _ => true
  | .nary .sum (c :: d :: cs) =>
      okAt P S (.left .plus) c && Printable P S c && PrintableAll P S (.right .plus) (d :: cs)
  | .nary .prod (c :: d :: cs) =>
      PrintableProd P S (c :: d :: cs) && (cs.isEmpty || decide (P.times > P.plus))
  | .nary o [a, b] =>
      match naryInfix o with
      | some i => okAt P S (.left i) a && okAt P S (.right i) b && Printable P S a && Printable P S b
      | none => false
  | .bin o a b =>
      okAt P S (.left (binInfix o)) a && okAt P S (.right (binInfix o)) b
        && Printable P S a && Printable P S b
  | .un _ a => okAt P S .unArg a && Printable P S a
  | .cmp o a b =>
      okAt P S (.left (.cmp o)) a && okAt P S (.right (.cmp o)) b
        && Printable P S a && Printable P S b
  | .ite c t e =>
      okAt P S .iteCond c && okAt P S .iteThen t && okAt P S .iteElse e
        && Printable P S c && Printable P S t && Printable P S e
  | .call f as => okAt P S .callee f && Printable P S f && PrintableAll P S .arg as
  | .callKw f as ns vs =>
      okAt P S .callee f && Printable P S f && PrintableAll P S .arg as
        && PrintableAll P S .arg vs && ns.length == vs.length && !ns.isEmpty && nodupB ns
  | .subscript a (.tuple (c :: d :: cs)) =>
      okAt P S .callee a && Printable P S a && okAt P S .elemFirst c && Printable P S c
        && PrintableAll P S .elemRest (d :: cs) && decide (P.comma > 0)
  | .subscript _ (.tuple _) => false
  | .subscript a i => okAt P S .callee a && Printable P S a && okAt P S .index i && Printable P S i
  | .lookup a _ => okAt P S .callee a && Printable P S a
  | .tuple [] => true
  | .tuple (c :: cs) =>
      okAt P S .elemFirst c && Printable P S c && PrintableAll P S .elemRest cs
        && decide (P.comma > 0)
  | .list [] => true
  | .list [c] => okAt P S .index c && Printable P S c
  | .list (c :: cs) =>
      okAt P S .elemFirst c && Printable P S c && PrintableAll P S .elemRest cs
        && decide (P.comma > 0)
  | .slice (c :: d :: cs) => PrintableSlice P S (c :: d :: cs)
  | _ => false
/-- parts of a slice: omitted parts (`None`) are allowed except in the last place -/
def PrintableSlice (P : ParserPrec) (S : PrintPrec) : List Expr → Bool
  | [] => false
  | [c] => okAt P S .sliceLast c && Printable P S c
  | .const .none :: cs => PrintableSlice P S cs
  | c :: cs => okAt P S .slicePart c && Printable P S c && PrintableSlice P S cs
def PrintableAll (P : ParserPrec) (S : PrintPrec) (pos : Pos) : List Expr → Bool
  | [] => true
  | c :: cs => okAt P S pos c && Printable P S c && PrintableAll P S pos cs
/-- operands of a product: the last one is the right operand of the last `*` -/
def PrintableProd (P : ParserPrec) (S : PrintPrec) : List Expr → Bool
  | [] => false
  | [c] => okAt P S (.right .times) c && Printable P S c
  | c :: cs => okAt P S (.left .times) c && Printable P S c && PrintableProd P S cs
end


/-- all (position, child class) pairs that fail the local condition -/
def badTriples (P : ParserPrec) (S : PrintPrec) : List (Pos × Kind) :=
  (allPos.flatMap fun p => allKinds.map fun k => (p, k)).filter fun pk => !okTriple P S pk.1 pk.2

/-- the fragment: every node has a covered shape, every child passes `okTriple` in its position,
the root passes it in position `top` -/
def InFragment (P : ParserPrec) (S : PrintPrec) (e : Expr) : Bool :=
  Printable P S e && okAt P S .top e

/-- the larger fragment: sums and products may be nested in any way -/
def InFragmentFlat (P : ParserPrec) (S : PrintPrec) (e : Expr) : Bool :=
  nonemptyNary e && InFragment P S (flattenAssoc e)

end PV.C13R
