import PV.Proofs.AlgoPoly

/-!
  Fuel sufficiency for `PV.Algo.divmod`: on data satisfying the class invariant the
  `while rem.degree >= other.degree` loop strictly decreases `rem.degree`, so the supplied fuel
  is never exhausted.
-/

namespace PV.Algo

theorem add_nil_left (q : Poly) : add [] q = q := by rw [add]

theorem add_nil_right (p : Poly) : add p [] = p := by
  cases p with
  | nil => rw [add]
  | cons t p => rw [add]; simp

theorem add_cons_cons (e1 : ℕ) (c1 : ℤ) (p : Poly) (e2 : ℕ) (c2 : ℤ) (q : Poly) :
    add ((e1, c1) :: p) ((e2, c2) :: q) =
      if e1 = e2 then
        if c1 + c2 ≠ 0 then (e1, c1 + c2) :: add p q else add p q
      else if e1 > e2 then (e2, c2) :: add ((e1, c1) :: p) q
      else (e1, c1) :: add p ((e2, c2) :: q) := by
  rw [add]

theorem add_upper_bound (m : ℕ) (p q : Poly) (hp : ∀ t ∈ p, t.1 < m) (hq : ∀ t ∈ q, t.1 < m) :
    ∀ t ∈ add p q, t.1 < m := by
  fun_induction add p q with
  | case1 q => exact hq
  | case2 p _ => exact hp
  | case3 c1 p e1 c2 q coeff hc ih =>
    intro t ht
    rcases List.mem_cons.mp ht with rfl | ht
    · exact hp (e1, c1) (List.mem_cons_self ..)
    · exact ih (fun t h => hp t (List.mem_cons_of_mem _ h))
        (fun t h => hq t (List.mem_cons_of_mem _ h)) t ht
  | case4 c1 p e1 c2 q coeff hc ih =>
    exact ih (fun t h => hp t (List.mem_cons_of_mem _ h))
      (fun t h => hq t (List.mem_cons_of_mem _ h))
  | case5 e1 c1 p e2 c2 q hne hgt ih =>
    intro t ht
    rcases List.mem_cons.mp ht with rfl | ht
    · exact hq _ (List.mem_cons_self ..)
    · exact ih hp (fun t h => hq t (List.mem_cons_of_mem _ h)) t ht
  | case6 e1 c1 p e2 c2 q hne hgt ih =>
    intro t ht
    rcases List.mem_cons.mp ht with rfl | ht
    · exact hp _ (List.mem_cons_self ..)
    · exact ih (fun t h => hp t (List.mem_cons_of_mem _ h)) hq t ht

/-- Top terms of equal exponent are combined last. -/
theorem add_single_append (d : ℕ) (a b : ℤ) (q : Poly) (hq : ∀ t ∈ q, t.1 < d) :
    add [(d, a)] (q ++ [(d, b)]) = q ++ (if a + b ≠ 0 then [(d, a + b)] else []) := by
  induction q with
  | nil =>
    rw [List.nil_append, add_cons_cons, if_pos rfl, add_nil_left]
    split_ifs <;> rfl
  | cons u q ih =>
    obtain ⟨e2, c2⟩ := u
    have h2 : e2 < d := hq (e2, c2) (List.mem_cons_self ..)
    rw [List.cons_append, add_cons_cons, if_neg (by omega), if_pos (by omega),
      ih (fun t h => hq t (List.mem_cons_of_mem _ h))]
    rfl

theorem add_append_single (d : ℕ) (a b : ℤ) (p : Poly) (hp : ∀ t ∈ p, t.1 < d) :
    add (p ++ [(d, a)]) [(d, b)] = p ++ (if a + b ≠ 0 then [(d, a + b)] else []) := by
  induction p with
  | nil =>
    rw [List.nil_append, add_cons_cons, if_pos rfl, add_nil_left]
    split_ifs <;> rfl
  | cons u p ih =>
    obtain ⟨e1, c1⟩ := u
    have h1 : e1 < d := hp (e1, c1) (List.mem_cons_self ..)
    rw [List.cons_append, add_cons_cons, if_neg (by omega), if_neg (by omega),
      ih (fun t h => hp t (List.mem_cons_of_mem _ h))]
    rfl

theorem add_append_top (p q : Poly) (d : ℕ) (a b : ℤ)
    (hp : ∀ t ∈ p, t.1 < d) (hq : ∀ t ∈ q, t.1 < d) :
    add (p ++ [(d, a)]) (q ++ [(d, b)]) =
      add p q ++ (if a + b ≠ 0 then [(d, a + b)] else []) := by
  fun_induction add p q with
  | case1 q => rw [List.nil_append]; exact add_single_append d a b q hq
  | case2 p _ => rw [List.nil_append]; exact add_append_single d a b p hp
  | case3 c1 p e1 c2 q coeff hc ih =>
    rw [List.cons_append, List.cons_append, add_cons_cons, if_pos rfl, if_pos hc,
      ih (fun t h => hp t (List.mem_cons_of_mem _ h)) (fun t h => hq t (List.mem_cons_of_mem _ h))]
    rfl
  | case4 c1 p e1 c2 q coeff hc ih =>
    rw [List.cons_append, List.cons_append, add_cons_cons, if_pos rfl, if_neg hc,
      ih (fun t h => hp t (List.mem_cons_of_mem _ h)) (fun t h => hq t (List.mem_cons_of_mem _ h))]
  | case5 e1 c1 p e2 c2 q hne hgt ih =>
    rw [List.cons_append, List.cons_append, add_cons_cons, if_neg hne, if_pos hgt,
      ← List.cons_append, ih hp (fun t h => hq t (List.mem_cons_of_mem _ h))]
    rfl
  | case6 e1 c1 p e2 c2 q hne hgt ih =>
    rw [List.cons_append, List.cons_append, add_cons_cons, if_neg hne, if_neg hgt,
      ← List.cons_append (a := (e2, c2)),
      ih (fun t h => hp t (List.mem_cons_of_mem _ h)) hq]
    rfl

/-! ### `_sort_uniq` is the identity on well-formed data -/

theorem insertByExp_of_le (t : Term) (l : List Term) (h : ∀ u ∈ l, t.1 ≤ u.1) :
    insertByExp t l = t :: l := by
  cases l with
  | nil => rfl
  | cons u us => rw [insertByExp, if_pos (h u (List.mem_cons_self ..))]

theorem sortByExp_of_sorted (l : List Term) (h : WeakSorted l) : sortByExp l = l := by
  induction l with
  | nil => rfl
  | cons t ts ih =>
    unfold WeakSorted at h ih
    rw [List.pairwise_cons] at h
    rw [sortByExp, ih h.2, insertByExp_of_le t ts h.1]

theorem mergeFix_of_sorted (acc : List Term) (last : Option ℕ) (rest : List Term)
    (h : StrictSorted rest) (hl : ∀ e, last = some e → ∀ t ∈ rest, e < t.1) :
    mergeFix acc last rest = acc.reverse ++ rest := by
  induction rest generalizing acc last with
  | nil => rw [mergeFix_nil, List.append_nil]
  | cons t rest ih =>
    obtain ⟨e, c⟩ := t
    unfold StrictSorted at h ih
    rw [List.pairwise_cons] at h
    have hne : ¬ last = some e := by
      intro hh
      have := hl e hh (e, c) (List.mem_cons_self ..)
      simp at this
    rw [mergeFix_cons, if_neg hne, ih _ _ h.2]
    · simp
    · intro e' he' t ht; cases he'; exact h.1 t ht

theorem sortUniq_of_sorted (l : List Term) (h : StrictSorted l) : sortUniq l = l := by
  rw [sortUniq, sortByExp_of_sorted l h.weak, mergeFix_of_sorted [] none l h (by simp)]
  rfl

theorem mul_single (dd : ℕ) (cf : ℤ) (other : Poly) (h : StrictSorted other) :
    mul [(dd, cf)] other = other.map fun o => (dd + o.1, cf * o.2) := by
  have : mulRaw [(dd, cf)] other = other.map fun o => (dd + o.1, cf * o.2) := by
    simp [mulRaw]
  rw [mul, this]
  apply sortUniq_of_sorted
  unfold StrictSorted at *
  rw [List.pairwise_map]
  exact List.Pairwise.imp (fun h => by simpa using h) h

/-! ### the degree of the remainder decreases -/

theorem degree_append_single (p : Poly) (t : Term) : degree (p ++ [t]) = (t.1 : ℤ) := by
  unfold degree; rw [List.getLast?_concat]

theorem leadTerm_append_single (p : Poly) (t : Term) : leadTerm (p ++ [t]) = t := by
  unfold leadTerm; rw [List.getLast?_concat]; rfl

theorem degree_ge_neg_one (p : Poly) : -1 ≤ degree p := by
  unfold degree
  cases p.getLast? with
  | none => simp
  | some t => simp only; omega

theorem degree_lt_of_bound (p : Poly) (d : ℕ) (h : ∀ t ∈ p, t.1 < d) : degree p < (d : ℤ) := by
  unfold degree
  cases hp : p.getLast? with
  | none => simp only; omega
  | some t =>
    have := h t (List.mem_of_getLast? hp)
    simp only; omega

theorem exists_of_degree_nonneg (p : Poly) (h : 0 ≤ degree p) :
    ∃ p' t, p = p' ++ [t] := by
  unfold degree at h
  cases hp : p.getLast? with
  | none => rw [hp] at h; simp at h
  | some t =>
    obtain ⟨ys, hys⟩ := List.getLast?_eq_some_iff.mp hp
    exact ⟨ys, t, hys⟩

theorem strictSorted_append_single (p : Poly) (t : Term) :
    StrictSorted (p ++ [t]) ↔ StrictSorted p ∧ ∀ u ∈ p, u.1 < t.1 := by
  unfold StrictSorted
  rw [List.pairwise_append]
  simp

/-- One iteration of the division loop keeps the remainder well formed and strictly
decreases its degree. -/
theorem divmod_step (rem other : Poly) (hrem : StrictSorted rem) (hother : StrictSorted other)
    (ho : 0 ≤ degree other) (hdeg : degree rem ≥ degree other)
    (hlead : Int.fmod (leadTerm rem).2 (leadTerm other).2 = 0) :
    let thisFac : Poly := [((leadTerm rem).1 - (leadTerm other).1,
      Int.fdiv (leadTerm rem).2 (leadTerm other).2)]
    StrictSorted (sub rem (mul thisFac other)) ∧
      degree (sub rem (mul thisFac other)) < degree rem := by
  obtain ⟨o', ⟨eo, lc⟩, rfl⟩ := exists_of_degree_nonneg other ho
  obtain ⟨r', ⟨d, rc⟩, rfl⟩ := exists_of_degree_nonneg rem (by omega)
  simp only [degree_append_single, leadTerm_append_single] at *
  have hle : eo ≤ d := by omega
  obtain ⟨hr's, hr'b⟩ := (strictSorted_append_single r' (d, rc)).mp hrem
  obtain ⟨ho's, ho'b⟩ := (strictSorted_append_single o' (eo, lc)).mp hother
  have hmul : Int.fdiv rc lc * lc = rc := Int.fdiv_mul_cancel_of_fmod_eq_zero hlead
  rw [mul_single _ _ _ hother, sub, neg, List.map_append, List.map_append]
  simp only [List.map_cons, List.map_nil]
  have hd : d - eo + eo = d := by omega
  rw [hd, hmul]
  set o'' : Poly := List.map (fun t => (t.1, -t.2))
    (List.map (fun o => (d - eo + o.1, Int.fdiv rc lc * o.2)) o') with ho''
  have ho''b : ∀ t ∈ o'', t.1 < d := by
    intro t ht
    rw [ho'', List.mem_map] at ht
    obtain ⟨u, hu, rfl⟩ := ht
    rw [List.mem_map] at hu
    obtain ⟨v, hv, rfl⟩ := hu
    have := ho'b v hv
    simp only at this ⊢
    omega
  have ho''s : StrictSorted o'' := by
    rw [ho'']
    unfold StrictSorted at *
    rw [List.pairwise_map, List.pairwise_map]
    exact List.Pairwise.imp (fun h => by simpa using h) ho's
  rw [add_append_top r' o'' d rc (-rc) hr'b ho''b]
  have hz : ¬ (rc + -rc ≠ 0) := by simp
  rw [if_neg hz, List.append_nil]
  exact ⟨add_sorted r' o'' hr's ho''s,
    degree_lt_of_bound _ d (add_upper_bound d r' o'' hr'b ho''b)⟩

/-- Fuel sufficiency for the division loop. -/
theorem divmodLoop_isSome (other : Poly) (hother : StrictSorted other) (ho : 0 ≤ degree other)
    (fuel : ℕ) (quot rem : Poly) (hrem : StrictSorted rem)
    (hfuel : degree rem + 2 ≤ (fuel : ℤ)) :
    (divmodLoop other fuel quot rem).isSome := by
  induction fuel generalizing quot rem with
  | zero => have := degree_ge_neg_one rem; omega
  | succ fuel ih =>
    rw [divmodLoop]
    by_cases hdeg : degree rem ≥ degree other
    · rw [if_pos hdeg]
      by_cases hlead : Int.fmod (leadTerm rem).2 (leadTerm other).2 ≠ 0
      · rw [if_pos hlead]; rfl
      · rw [if_neg hlead]
        have hlead' : Int.fmod (leadTerm rem).2 (leadTerm other).2 = 0 := by
          by_contra h; exact hlead h
        obtain ⟨h1, h2⟩ := divmod_step rem other hrem hother ho hdeg hlead'
        apply ih _ _ h1
        push_cast at hfuel
        omega
    · rw [if_neg hdeg]; rfl

/-- `divmod` on well-formed data fails exactly for the two `ZeroDivisionError` situations:
empty divisor, or a stored zero leading coefficient.  In particular the fuel never runs out. -/
theorem divmod_eq_none_iff (p other : Poly) (hp : StrictSorted p) (hother : StrictSorted other) :
    divmod p other = none ↔ degree other = -1 ∨ (leadTerm other).2 = 0 := by
  unfold divmod
  split_ifs with h1 h2
  · simp [h1]
  · simp [h2]
  · have ho : 0 ≤ degree other := by have := degree_ge_neg_one other; omega
    have hs := divmodLoop_isSome other hother ho (p.length + (degree p).toNat + 2) [] p hp
      (by push_cast; omega)
    constructor
    · intro h; rw [h] at hs; cases hs
    · rintro (h | h)
      · exact absurd h h1
      · exact absurd h h2

end PV.Algo
