import PV.Model.GATable
/- C18 (T-gen): the function table the model PV/Model/GA.lean was written against — the
   rendering of extract/geometric_algebra.py at the time the proofs of
   PV/Proofs/GATable*.lean were made (tools/mkc18expected.py).  `PV.C18.table_current`
   proves the table REGENERATED on every run equal to this literal. -/
namespace PV.GA
open PV

def c18X_MultiVector___rtruediv__ : C18Fn :=
  { qual := "MultiVector.__rtruediv__", name := "__rtruediv__", params := ["self", "other"],
    defaults := [], locals := [],
    decorators := [],
    body :=
    [
      .assign [.name "other"] false (.call (.name "MultiVector") [(.name "other"), (.attr (.name "self") "space")] [] []),
      .ret (.bin .mul (.name "other") (.callMethod (.name "self") "inv" [] [] []))
    ] }

def c18X_MultiVector___truediv__ : C18Fn :=
  { qual := "MultiVector.__truediv__", name := "__truediv__", params := ["self", "other"],
    defaults := [], locals := [],
    decorators := [],
    body :=
    [
      .assign [.name "other"] false (.call (.name "_cast_or_ni") [(.name "other"), (.attr (.name "self") "space")] [] []),
      .ifThen (.cmp .is (.name "other") (.name "NotImplemented"))
        [
          .ret (.name "NotImplemented")
        ]
        [],
      .ret (.bin .mul (.name "self") (.callMethod (.name "other") "inv" [] [] []))
    ] }

def c18X_MultiVector___pow__ : C18Fn :=
  { qual := "MultiVector.__pow__", name := "__pow__", params := ["self", "other"],
    defaults := [], locals := ["integer_power"],
    decorators := [],
    body :=
    [
      .assign [.name "other"] false (.call (.name "int") [(.name "other")] [] []),
      .importFrom "pymbolic.algorithm" "integer_power" "integer_power",
      .ret (.call (.name "integer_power") [(.name "self"), (.name "other")] ["one"] [(.call (.name "MultiVector") [(.dict [(.nat 0)] [(.nat 1)]), (.attr (.name "self") "space")] [] [])])
    ] }

def c18X_MultiVector___inv__ : C18Fn :=
  { qual := "MultiVector.__inv__", name := "__inv__", params := ["self"],
    defaults := [], locals := [],
    decorators := [],
    body :=
    [
      .ret (.callMethod (.name "self") "dual" [] [] [])
    ] }

def c18X_MultiVector_dual : C18Fn :=
  { qual := "MultiVector.dual", name := "dual", params := ["self"],
    defaults := [], locals := [],
    decorators := [],
    body :=
    [
      .ret (.bin .bor (.name "self") (.callMethod (.attr (.name "self") "I") "rev" [] [] []))
    ] }

def c18X_MultiVector_inv : C18Fn :=
  { qual := "MultiVector.inv", name := "inv", params := ["self"],
    defaults := [], locals := ["nsqr", "bits", "coeff", "grade"],
    decorators := [],
    body :=
    [
      .assign [.name "nsqr"] false (.callMethod (.name "self") "norm_squared" [] [] []),
      .ifThen (.cmp .eq (.call (.name "len") [(.attr (.name "self") "data")] [] []) (.nat 0))
        [
          .raise "ZeroDivisionError"
        ]
        [],
      .ifThen (.cmp .gt (.call (.name "len") [(.attr (.name "self") "data")] [] []) (.nat 1))
        [
          .ifThen (.cmp .isIn (.callMethod (.name "self") "get_pure_grade" [] [] []) (.list [(.nat 0), (.nat 1), (.attr (.attr (.name "self") "space") "dimensions")]))
            [
              .ret (.call (.name "MultiVector") [(.dictComp (.name "bits") (.bin .truediv (.name "coeff") (.name "nsqr")) ["bits", "coeff"] (.callMethod (.attr (.name "self") "data") "items" [] [] [])), (.attr (.name "self") "space")] [] [])
            ]
            [
              .raise "NotImplementedError"
            ]
        ]
        [],
      .assign [.names ["bits", "coeff"]] true (.callMethod (.attr (.name "self") "data") "items" [] [] []),
      .assign [.name "grade"] false (.call (.name "bit_count") [(.name "bits")] [] []),
      .ifThen (.bin .mod (.bin .floordiv (.bin .mul (.name "grade") (.bin .sub (.name "grade") (.nat 1))) (.nat 2)) (.nat 2))
        [
          .assign [.name "coeff"] false (.un .neg (.name "coeff"))
        ]
        [],
      .assign [.name "coeff"] false (.bin .truediv (.name "coeff") (.name "nsqr")),
      .ret (.call (.name "MultiVector") [(.dict [(.name "bits")] [(.name "coeff")]), (.attr (.name "self") "space")] [] [])
    ] }

def c18X_MultiVector_norm_squared : C18Fn :=
  { qual := "MultiVector.norm_squared", name := "norm_squared", params := ["self"],
    defaults := [], locals := [],
    decorators := [],
    body :=
    [
      .ret (.callMethod (.callMethod (.name "self") "rev" [] [] []) "scalar_product" [(.name "self")] [] [])
    ] }

def c18X_MultiVector_scalar_product : C18Fn :=
  { qual := "MultiVector.scalar_product", name := "scalar_product", params := ["self", "other"],
    defaults := [], locals := ["other_new"],
    decorators := [],
    body :=
    [
      .assign [.name "other_new"] false (.call (.name "_cast_or_ni") [(.name "other"), (.attr (.name "self") "space")] [] []),
      .ifThen (.cmp .is (.name "other_new") (.name "NotImplemented"))
        [
          .raise "NotImplementedError"
        ]
        [],
      .ret (.callMethod (.callMethod (.name "self") "_generic_product" [(.name "other_new"), (.name "_ScalarProduct")] [] []) "as_scalar" [] [] [])
    ] }

def c18X_MultiVector___rsub__ : C18Fn :=
  { qual := "MultiVector.__rsub__", name := "__rsub__", params := ["self", "other"],
    defaults := [], locals := [],
    decorators := [],
    body :=
    [
      .ret (.bin .add (.name "other") (.un .neg (.name "self")))
    ] }

def c18X_MultiVector___sub__ : C18Fn :=
  { qual := "MultiVector.__sub__", name := "__sub__", params := ["self", "other"],
    defaults := [], locals := [],
    decorators := [],
    body :=
    [
      .ret (.bin .add (.name "self") (.un .neg (.name "other")))
    ] }

def c18X_MultiVector___radd__ : C18Fn :=
  { qual := "MultiVector.__radd__", name := "__radd__", params := ["self", "other"],
    defaults := [], locals := [],
    decorators := [],
    body :=
    [
      .ret (.callMethod (.name "self") "__add__" [(.name "other")] [] [])
    ] }

def c18X_MultiVector___add__ : C18Fn :=
  { qual := "MultiVector.__add__", name := "__add__", params := ["self", "other"],
    defaults := [], locals := ["all_bits", "is_zero", "new_data", "bits", "new_coeff"],
    decorators := [],
    body :=
    [
      .assign [.name "other"] false (.call (.name "_cast_or_ni") [(.name "other"), (.attr (.name "self") "space")] [] []),
      .ifThen (.cmp .is (.name "other") (.name "NotImplemented"))
        [
          .ret (.name "NotImplemented")
        ]
        [],
      .ifThen (.cmp .isNot (.attr (.name "self") "space") (.attr (.name "other") "space"))
        [
          .raise "ValueError"
        ]
        [],
      .assign [.name "all_bits"] false (.bin .bor (.call (.name "set") [(.callMethod (.attr (.name "self") "data") "keys" [] [] [])] [] []) (.call (.name "set") [(.callMethod (.attr (.name "other") "data") "keys" [] [] [])] [] [])),
      .importFrom "pymbolic.primitives" "is_zero" "is_zero",
      .assign [.name "new_data"] false (.dict [] []),
      .forIn ["bits"] (.name "all_bits")
        [
          .assign [.name "new_coeff"] false (.bin .add (.callMethod (.attr (.name "self") "data") "get" [(.name "bits"), (.nat 0)] [] []) (.callMethod (.attr (.name "other") "data") "get" [(.name "bits"), (.nat 0)] [] [])),
          .ifThen (.un .not (.call (.name "is_zero") [(.name "new_coeff")] [] []))
            [
              .assign [.index "new_data" (.name "bits")] false (.name "new_coeff")
            ]
            []
        ],
      .ret (.call (.name "MultiVector") [(.name "new_data"), (.attr (.name "self") "space")] [] [])
    ] }

def c18X_MultiVector___neg__ : C18Fn :=
  { qual := "MultiVector.__neg__", name := "__neg__", params := ["self"],
    defaults := [], locals := [],
    decorators := [],
    body :=
    [
      .ret (.call (.name "MultiVector") [(.dictComp (.name "bits") (.un .neg (.name "coeff")) ["bits", "coeff"] (.callMethod (.attr (.name "self") "data") "items" [] [] [])), (.attr (.name "self") "space")] [] [])
    ] }

def c18X_MultiVector___mul__ : C18Fn :=
  { qual := "MultiVector.__mul__", name := "__mul__", params := ["self", "other"],
    defaults := [], locals := [],
    decorators := [],
    body :=
    [
      .assign [.name "other"] false (.call (.name "_cast_or_ni") [(.name "other"), (.attr (.name "self") "space")] [] []),
      .ifThen (.cmp .is (.name "other") (.name "NotImplemented"))
        [
          .ret (.name "NotImplemented")
        ]
        [],
      .ret (.callMethod (.name "self") "_generic_product" [(.name "other"), (.name "_GeometricProduct")] [] [])
    ] }

def c18X_MultiVector___rmul__ : C18Fn :=
  { qual := "MultiVector.__rmul__", name := "__rmul__", params := ["self", "other"],
    defaults := [], locals := [],
    decorators := [],
    body :=
    [
      .ret (.callMethod (.call (.name "MultiVector") [(.name "other"), (.attr (.name "self") "space")] [] []) "_generic_product" [(.name "self"), (.name "_GeometricProduct")] [] [])
    ] }

def c18X_MultiVector___xor__ : C18Fn :=
  { qual := "MultiVector.__xor__", name := "__xor__", params := ["self", "other"],
    defaults := [], locals := [],
    decorators := [],
    body :=
    [
      .assign [.name "other"] false (.call (.name "_cast_or_ni") [(.name "other"), (.attr (.name "self") "space")] [] []),
      .ifThen (.cmp .is (.name "other") (.name "NotImplemented"))
        [
          .ret (.name "NotImplemented")
        ]
        [],
      .ret (.callMethod (.name "self") "_generic_product" [(.name "other"), (.name "_OuterProduct")] [] [])
    ] }

def c18X_MultiVector___rxor__ : C18Fn :=
  { qual := "MultiVector.__rxor__", name := "__rxor__", params := ["self", "other"],
    defaults := [], locals := [],
    decorators := [],
    body :=
    [
      .ret (.callMethod (.call (.name "MultiVector") [(.name "other"), (.attr (.name "self") "space")] [] []) "_generic_product" [(.name "self"), (.name "_OuterProduct")] [] [])
    ] }

def c18X_MultiVector___or__ : C18Fn :=
  { qual := "MultiVector.__or__", name := "__or__", params := ["self", "other"],
    defaults := [], locals := [],
    decorators := [],
    body :=
    [
      .assign [.name "other"] false (.call (.name "_cast_or_ni") [(.name "other"), (.attr (.name "self") "space")] [] []),
      .ifThen (.cmp .is (.name "other") (.name "NotImplemented"))
        [
          .ret (.name "NotImplemented")
        ]
        [],
      .ret (.callMethod (.name "self") "_generic_product" [(.name "other"), (.name "_InnerProduct")] [] [])
    ] }

def c18X_MultiVector___ror__ : C18Fn :=
  { qual := "MultiVector.__ror__", name := "__ror__", params := ["self", "other"],
    defaults := [], locals := [],
    decorators := [],
    body :=
    [
      .ret (.callMethod (.call (.name "MultiVector") [(.name "other"), (.attr (.name "self") "space")] [] []) "_generic_product" [(.name "self"), (.name "_InnerProduct")] [] [])
    ] }

def c18X_MultiVector___lshift__ : C18Fn :=
  { qual := "MultiVector.__lshift__", name := "__lshift__", params := ["self", "other"],
    defaults := [], locals := [],
    decorators := [],
    body :=
    [
      .assign [.name "other"] false (.call (.name "_cast_or_ni") [(.name "other"), (.attr (.name "self") "space")] [] []),
      .ifThen (.cmp .is (.name "other") (.name "NotImplemented"))
        [
          .ret (.name "NotImplemented")
        ]
        [],
      .ret (.callMethod (.name "self") "_generic_product" [(.name "other"), (.name "_LeftContractionProduct")] [] [])
    ] }

def c18X_MultiVector___rlshift__ : C18Fn :=
  { qual := "MultiVector.__rlshift__", name := "__rlshift__", params := ["self", "other"],
    defaults := [], locals := [],
    decorators := [],
    body :=
    [
      .ret (.callMethod (.call (.name "MultiVector") [(.name "other"), (.attr (.name "self") "space")] [] []) "_generic_product" [(.name "self"), (.name "_LeftContractionProduct")] [] [])
    ] }

def c18X_MultiVector___rshift__ : C18Fn :=
  { qual := "MultiVector.__rshift__", name := "__rshift__", params := ["self", "other"],
    defaults := [], locals := [],
    decorators := [],
    body :=
    [
      .assign [.name "other"] false (.call (.name "_cast_or_ni") [(.name "other"), (.attr (.name "self") "space")] [] []),
      .ifThen (.cmp .is (.name "other") (.name "NotImplemented"))
        [
          .ret (.name "NotImplemented")
        ]
        [],
      .ret (.callMethod (.name "self") "_generic_product" [(.name "other"), (.name "_RightContractionProduct")] [] [])
    ] }

def c18X_MultiVector___rrshift__ : C18Fn :=
  { qual := "MultiVector.__rrshift__", name := "__rrshift__", params := ["self", "other"],
    defaults := [], locals := [],
    decorators := [],
    body :=
    [
      .ret (.callMethod (.call (.name "MultiVector") [(.name "other"), (.attr (.name "self") "space")] [] []) "_generic_product" [(.name "self"), (.name "_RightContractionProduct")] [] [])
    ] }

def c18X_MultiVector__generic_product : C18Fn :=
  { qual := "MultiVector._generic_product", name := "_generic_product", params := ["self", "other", "product_class"],
    defaults := [], locals := ["bpw", "is_zero", "new_data", "sbits", "scoeff", "obits", "ocoeff", "new_bits", "weight", "coeff", "new_coeff"],
    decorators := [],
    body :=
    [
      .ifThen (.attr (.attr (.name "self") "space") "is_orthogonal")
        [
          .assign [.name "bpw"] false (.attr (.name "product_class") "orthogonal_blade_product_weight")
        ]
        [
          .assign [.name "bpw"] false (.attr (.name "product_class") "generic_blade_product_weight")
        ],
      .ifThen (.cmp .isNot (.attr (.name "self") "space") (.attr (.name "other") "space"))
        [
          .raise "ValueError"
        ]
        [],
      .importFrom "pymbolic.primitives" "is_zero" "is_zero",
      .assign [.name "new_data"] false (.dict [] []),
      .forIn ["sbits", "scoeff"] (.callMethod (.attr (.name "self") "data") "items" [] [] [])
        [
          .forIn ["obits", "ocoeff"] (.callMethod (.attr (.name "other") "data") "items" [] [] [])
            [
              .assign [.name "new_bits"] false (.bin .bxor (.name "sbits") (.name "obits")),
              .assign [.name "weight"] false (.call (.name "bpw") [(.name "sbits"), (.name "obits"), (.attr (.name "self") "space")] [] []),
              .ifThen (.un .not (.call (.name "is_zero") [(.name "weight")] [] []))
                [
                  .assign [.name "coeff"] false (.bin .mul (.bin .mul (.bin .mul (.name "weight") (.call (.name "canonical_reordering_sign") [(.name "sbits"), (.name "obits")] [] [])) (.name "scoeff")) (.name "ocoeff")),
                  .assign [.name "new_coeff"] false (.bin .add (.callMethod (.name "new_data") "setdefault" [(.name "new_bits"), (.nat 0)] [] []) (.name "coeff")),
                  .ifThen (.call (.name "is_zero") [(.name "new_coeff")] [] [])
                    [
                      .del "new_data" (.name "new_bits")
                    ]
                    [
                      .assign [.index "new_data" (.name "new_bits")] false (.name "new_coeff")
                    ]
                ]
                []
            ]
        ],
      .ret (.call (.name "MultiVector") [(.name "new_data"), (.attr (.name "self") "space")] [] [])
    ] }

def c18X_MultiVector_rev : C18Fn :=
  { qual := "MultiVector.rev", name := "rev", params := ["self"],
    defaults := [], locals := ["new_data", "bits", "coeff", "grade"],
    decorators := [],
    body :=
    [
      .assign [.name "new_data"] false (.dict [] []),
      .forIn ["bits", "coeff"] (.callMethod (.attr (.name "self") "data") "items" [] [] [])
        [
          .assign [.name "grade"] false (.call (.name "bit_count") [(.name "bits")] [] []),
          .ifThen (.cmp .eq (.bin .mod (.bin .floordiv (.bin .mul (.name "grade") (.bin .sub (.name "grade") (.nat 1))) (.nat 2)) (.nat 2)) (.nat 0))
            [
              .assign [.index "new_data" (.name "bits")] false (.name "coeff")
            ]
            [
              .assign [.index "new_data" (.name "bits")] false (.un .neg (.name "coeff"))
            ]
        ],
      .ret (.call (.name "MultiVector") [(.name "new_data"), (.attr (.name "self") "space")] [] [])
    ] }

def c18X_MultiVector_invol : C18Fn :=
  { qual := "MultiVector.invol", name := "invol", params := ["self"],
    defaults := [], locals := ["new_data", "bits", "coeff", "grade"],
    decorators := [],
    body :=
    [
      .assign [.name "new_data"] false (.dict [] []),
      .forIn ["bits", "coeff"] (.callMethod (.attr (.name "self") "data") "items" [] [] [])
        [
          .assign [.name "grade"] false (.call (.name "bit_count") [(.name "bits")] [] []),
          .ifThen (.cmp .eq (.bin .mod (.name "grade") (.nat 2)) (.nat 0))
            [
              .assign [.index "new_data" (.name "bits")] false (.name "coeff")
            ]
            [
              .assign [.index "new_data" (.name "bits")] false (.un .neg (.name "coeff"))
            ]
        ],
      .ret (.call (.name "MultiVector") [(.name "new_data"), (.attr (.name "self") "space")] [] [])
    ] }

def c18X_MultiVector_I : C18Fn :=
  { qual := "MultiVector.I", name := "I", params := ["self"],
    defaults := [], locals := [],
    decorators := ["property"],
    body :=
    [
      .ret (.call (.name "MultiVector") [(.dict [(.bin .sub (.bin .pow (.nat 2) (.attr (.attr (.name "self") "space") "dimensions")) (.nat 1))] [(.nat 1)]), (.attr (.name "self") "space")] [] [])
    ] }

def c18X_MultiVector___hash__ : C18Fn :=
  { qual := "MultiVector.__hash__", name := "__hash__", params := ["self"],
    defaults := [], locals := ["result", "bits", "coeff"],
    decorators := ["memoize_method"],
    body :=
    [
      .assign [.name "result"] false (.call (.name "hash") [(.attr (.name "self") "space")] [] []),
      .forIn ["bits", "coeff"] (.callMethod (.attr (.name "self") "data") "items" [] [] [])
        [
          .aug (.name "result") .bxor (.bin .bxor (.call (.name "hash") [(.name "bits")] [] []) (.call (.name "hash") [(.name "coeff")] [] []))
        ],
      .ret (.name "result")
    ] }

def c18X_MultiVector___ne__ : C18Fn :=
  { qual := "MultiVector.__ne__", name := "__ne__", params := ["self", "other"],
    defaults := [], locals := [],
    decorators := [],
    body :=
    [
      .ret (.un .not (.callMethod (.name "self") "__eq__" [(.name "other")] [] []))
    ] }

def c18X_MultiVector___eq__ : C18Fn :=
  { qual := "MultiVector.__eq__", name := "__eq__", params := ["self", "other"],
    defaults := [], locals := [],
    decorators := [],
    body :=
    [
      .assign [.name "other"] false (.call (.name "_cast_or_ni") [(.name "other"), (.attr (.name "self") "space")] [] []),
      .ifThen (.cmp .is (.name "other") (.name "NotImplemented"))
        [
          .ret (.name "NotImplemented")
        ]
        [],
      .ret (.cmp .eq (.attr (.name "self") "data") (.attr (.name "other") "data"))
    ] }

def c18X_MultiVector___bool__ : C18Fn :=
  { qual := "MultiVector.__bool__", name := "__bool__", params := ["self"],
    defaults := [], locals := [],
    decorators := [],
    body :=
    [
      .ret (.call (.name "bool") [(.attr (.name "self") "data")] [] [])
    ] }

def c18X_MultiVector_project : C18Fn :=
  { qual := "MultiVector.project", name := "project", params := ["self", "r"],
    defaults := [], locals := ["new_data", "bits", "coeff"],
    decorators := [],
    body :=
    [
      .assign [.name "new_data"] false (.dict [] []),
      .forIn ["bits", "coeff"] (.callMethod (.attr (.name "self") "data") "items" [] [] [])
        [
          .ifThen (.cmp .eq (.call (.name "bit_count") [(.name "bits")] [] []) (.name "r"))
            [
              .assign [.index "new_data" (.name "bits")] false (.name "coeff")
            ]
            []
        ],
      .ret (.call (.name "MultiVector") [(.name "new_data"), (.attr (.name "self") "space")] [] [])
    ] }

def c18X_MultiVector_get_pure_grade : C18Fn :=
  { qual := "MultiVector.get_pure_grade", name := "get_pure_grade", params := ["self"],
    defaults := [], locals := ["result", "bits", "grade"],
    decorators := [],
    body :=
    [
      .ifThen (.un .not (.attr (.name "self") "data"))
        [
          .ret (.nat 0)
        ]
        [],
      .assign [.name "result"] false .none,
      .forIn ["bits"] (.callMethod (.attr (.name "self") "data") "keys" [] [] [])
        [
          .assign [.name "grade"] false (.call (.name "bit_count") [(.name "bits")] [] []),
          .ifThen (.cmp .is (.name "result") .none)
            [
              .assign [.name "result"] false (.name "grade")
            ]
            [
              .ifThen (.cmp .eq (.name "result") (.name "grade"))
                [
                  .pass
                ]
                [
                  .ret .none
                ]
            ]
        ],
      .ret (.name "result")
    ] }

def c18X_MultiVector_as_scalar : C18Fn :=
  { qual := "MultiVector.as_scalar", name := "as_scalar", params := ["self"],
    defaults := [], locals := ["result", "bits", "coeff"],
    decorators := [],
    body :=
    [
      .assign [.name "result"] false (.nat 0),
      .forIn ["bits", "coeff"] (.callMethod (.attr (.name "self") "data") "items" [] [] [])
        [
          .ifThen (.cmp .ne (.name "bits") (.nat 0))
            [
              .raise "ValueError"
            ]
            [],
          .assign [.name "result"] false (.name "coeff")
        ],
      .ret (.name "result")
    ] }

def c18X_MultiVector_odd : C18Fn :=
  { qual := "MultiVector.odd", name := "odd", params := ["self"],
    defaults := [], locals := ["new_data", "bits", "coeff"],
    decorators := [],
    body :=
    [
      .assign [.name "new_data"] false (.dict [] []),
      .forIn ["bits", "coeff"] (.callMethod (.attr (.name "self") "data") "items" [] [] [])
        [
          .ifThen (.bin .mod (.call (.name "bit_count") [(.name "bits")] [] []) (.nat 2))
            [
              .assign [.index "new_data" (.name "bits")] false (.name "coeff")
            ]
            []
        ],
      .ret (.call (.name "MultiVector") [(.name "new_data"), (.attr (.name "self") "space")] [] [])
    ] }

def c18X_MultiVector_even : C18Fn :=
  { qual := "MultiVector.even", name := "even", params := ["self"],
    defaults := [], locals := ["new_data", "bits", "coeff"],
    decorators := [],
    body :=
    [
      .assign [.name "new_data"] false (.dict [] []),
      .forIn ["bits", "coeff"] (.callMethod (.attr (.name "self") "data") "items" [] [] [])
        [
          .ifThen (.cmp .eq (.bin .mod (.call (.name "bit_count") [(.name "bits")] [] []) (.nat 2)) (.nat 0))
            [
              .assign [.index "new_data" (.name "bits")] false (.name "coeff")
            ]
            []
        ],
      .ret (.call (.name "MultiVector") [(.name "new_data"), (.attr (.name "self") "space")] [] [])
    ] }

def c18X__cast_or_ni : C18Fn :=
  { qual := "_cast_or_ni", name := "_cast_or_ni", params := ["obj", "space"],
    defaults := [], locals := [],
    decorators := [],
    body :=
    [
      .ifThen (.call (.name "isinstance") [(.name "obj"), (.name "MultiVector")] [] [])
        [
          .ret (.name "obj")
        ]
        [
          .ret (.call (.name "MultiVector") [(.name "obj"), (.name "space")] [] [])
        ]
    ] }

def c18X_MultiVector___init__ : C18Fn :=
  { qual := "MultiVector.__init__", name := "__init__", params := ["self", "data", "space"],
    defaults := [("space", .none)], locals := ["dimensions", "_is_zero", "single_valued", "is_zero", "new_data", "basis_indices", "coeff", "bits", "sign", "new_coeff"],
    decorators := [],
    body :=
    [
      .assign [.name "dimensions"] false .none,
      .ifThen (.call (.name "isinstance") [(.name "data"), (.attr (.name "np") "ndarray")] [] [])
        [
          .ifThen (.cmp .ne (.call (.name "len") [(.attr (.name "data") "shape")] [] []) (.nat 1))
            [
              .raise "ValueError"
            ]
            [],
          .assign [.name "dimensions"] true (.attr (.name "data") "shape"),
          .assign [.name "data"] false (.dictComp (.tuple [(.name "i")]) (.name "xi") ["i", "xi"] (.call (.name "enumerate") [(.name "data")] [] []))
        ]
        [
          .ifThen (.call (.name "isinstance") [(.name "data"), (.name "dict")] [] [])
            [
              .pass
            ]
            [
              .importFrom "pymbolic.primitives" "is_zero" "_is_zero",
              .assign [.name "data"] false (.ifExp (.call (.name "_is_zero") [(.name "data")] [] []) (.dict [] []) (.dict [(.nat 0)] [(.name "data")]))
            ]
        ],
      .ifThen (.cmp .is (.name "space") .none)
        [
          .assign [.name "space"] false (.call (.name "get_euclidean_space") [(.name "dimensions")] [] [])
        ]
        [
          .ifThen (.and (.cmp .isNot (.name "dimensions") .none) (.cmp .ne (.attr (.name "space") "dimensions") (.name "dimensions")))
            [
              .raise "ValueError"
            ]
            []
        ],
      .importFrom "pytools" "single_valued" "single_valued",
      .importFrom "pymbolic.primitives" "is_zero" "is_zero",
      .ifThen (.and (.name "data") (.call (.name "single_valued") [(.gen "gen" (.call (.name "isinstance") [(.name "k"), (.name "tuple")] [] []) ["k"] (.callMethod (.name "data") "keys" [] [] []) [])] [] []))
        [
          .assign [.name "new_data"] false (.dict [] []),
          .forIn ["basis_indices", "coeff"] (.callMethod (.name "data") "items" [] [] [])
            [
              .assign [.name "bits", .name "sign"] true (.callMethod (.name "space") "bits_and_sign" [(.name "basis_indices")] [] []),
              .assign [.name "new_coeff"] false (.bin .add (.callMethod (.name "new_data") "setdefault" [(.name "bits"), (.nat 0)] [] []) (.bin .mul (.name "sign") (.name "coeff"))),
              .ifThen (.call (.name "is_zero") [(.name "new_coeff")] [] [])
                [
                  .del "new_data" (.name "bits")
                ]
                [
                  .assign [.index "new_data" (.name "bits")] false (.name "new_coeff")
                ]
            ],
          .assign [.name "data"] false (.name "new_data")
        ]
        [],
      .assert "assert not any((isinstance(coeff, MultiVector) for coeff in data.values()))",
      .assign [.attr "self" "space"] false (.name "space"),
      .assign [.attr "self" "data"] false (.name "data")
    ] }

def c18X_Space_bits_and_sign : C18Fn :=
  { qual := "Space.bits_and_sign", name := "bits_and_sign", params := ["self", "basis_indices"],
    defaults := [], locals := ["sorted_basis_indices", "blade_permutation", "bits", "bi"],
    decorators := ["memoize_method"],
    body :=
    [
      .assert "assert len(set(basis_indices)) == len(basis_indices)",
      .assign [.name "sorted_basis_indices"] false (.call (.name "tuple") [(.call (.name "sorted") [(.gen "gen" (.tuple [(.name "bindex"), (.name "num")]) ["num", "bindex"] (.call (.name "enumerate") [(.name "basis_indices")] [] []) [])] [] [])] [] []),
      .assign [.name "blade_permutation"] false (.gen "list" (.name "num") ["bindex", "num"] (.name "sorted_basis_indices") []),
      .assign [.name "bits"] false (.nat 0),
      .forIn ["bi"] (.name "basis_indices")
        [
          .aug (.name "bits") .bor (.bin .pow (.nat 2) (.name "bi"))
        ],
      .ret (.tuple [(.name "bits"), (.call (.name "permutation_sign") [(.name "blade_permutation")] [] [])])
    ] }

def c18X_Space_blade_bits_to_str : C18Fn :=
  { qual := "Space.blade_bits_to_str", name := "blade_bits_to_str", params := ["self", "bits", "outer_operator"],
    defaults := [("outer_operator", (.str "^"))], locals := [],
    decorators := [],
    body :=
    [
      .ret (.callMethod (.name "outer_operator") "join" [(.gen "gen" (.name "name") ["bit_num", "name"] (.call (.name "enumerate") [(.attr (.name "self") "basis_names")] [] []) [(.bin .band (.name "bits") (.bin .shl (.nat 1) (.name "bit_num")))])] [] [])
    ] }

def c18X__OuterProduct_generic_blade_product_weight : C18Fn :=
  { qual := "_OuterProduct.generic_blade_product_weight", name := "generic_blade_product_weight", params := ["a_bits", "b_bits", "space"],
    defaults := [], locals := [],
    decorators := ["staticmethod"],
    body :=
    [
      .ret (.call (.name "int") [(.un .not (.bin .band (.name "a_bits") (.name "b_bits")))] [] [])
    ] }

def c18X__GeometricProduct_generic_blade_product_weight : C18Fn :=
  { qual := "_GeometricProduct.generic_blade_product_weight", name := "generic_blade_product_weight", params := ["a_bits", "b_bits", "space"],
    defaults := [], locals := [],
    decorators := ["staticmethod"],
    body :=
    [
      .raise "NotImplementedError"
    ] }

def c18X__GeometricProduct_orthogonal_blade_product_weight : C18Fn :=
  { qual := "_GeometricProduct.orthogonal_blade_product_weight", name := "orthogonal_blade_product_weight", params := ["a_bits", "b_bits", "space"],
    defaults := [], locals := ["shared_bits"],
    decorators := ["staticmethod"],
    body :=
    [
      .assign [.name "shared_bits"] false (.bin .band (.name "a_bits") (.name "b_bits")),
      .ifThen (.name "shared_bits")
        [
          .ret (.call (.name "_shared_metric_coeff") [(.name "shared_bits"), (.name "space")] [] [])
        ]
        [
          .ret (.nat 1)
        ]
    ] }

def c18X__InnerProduct_generic_blade_product_weight : C18Fn :=
  { qual := "_InnerProduct.generic_blade_product_weight", name := "generic_blade_product_weight", params := ["a_bits", "b_bits", "space"],
    defaults := [], locals := [],
    decorators := ["staticmethod"],
    body :=
    [
      .raise "NotImplementedError"
    ] }

def c18X__InnerProduct_orthogonal_blade_product_weight : C18Fn :=
  { qual := "_InnerProduct.orthogonal_blade_product_weight", name := "orthogonal_blade_product_weight", params := ["a_bits", "b_bits", "space"],
    defaults := [], locals := ["shared_bits"],
    decorators := ["staticmethod"],
    body :=
    [
      .assign [.name "shared_bits"] false (.bin .band (.name "a_bits") (.name "b_bits")),
      .ifThen (.or (.cmp .eq (.name "shared_bits") (.name "a_bits")) (.cmp .eq (.name "shared_bits") (.name "b_bits")))
        [
          .ret (.call (.name "_shared_metric_coeff") [(.name "shared_bits"), (.name "space")] [] [])
        ]
        [
          .ret (.nat 0)
        ]
    ] }

def c18X__LeftContractionProduct_generic_blade_product_weight : C18Fn :=
  { qual := "_LeftContractionProduct.generic_blade_product_weight", name := "generic_blade_product_weight", params := ["a_bits", "b_bits", "space"],
    defaults := [], locals := [],
    decorators := ["staticmethod"],
    body :=
    [
      .raise "NotImplementedError"
    ] }

def c18X__LeftContractionProduct_orthogonal_blade_product_weight : C18Fn :=
  { qual := "_LeftContractionProduct.orthogonal_blade_product_weight", name := "orthogonal_blade_product_weight", params := ["a_bits", "b_bits", "space"],
    defaults := [], locals := ["shared_bits"],
    decorators := ["staticmethod"],
    body :=
    [
      .assign [.name "shared_bits"] false (.bin .band (.name "a_bits") (.name "b_bits")),
      .ifThen (.cmp .eq (.name "shared_bits") (.name "a_bits"))
        [
          .ret (.call (.name "_shared_metric_coeff") [(.name "shared_bits"), (.name "space")] [] [])
        ]
        [
          .ret (.nat 0)
        ]
    ] }

def c18X__RightContractionProduct_generic_blade_product_weight : C18Fn :=
  { qual := "_RightContractionProduct.generic_blade_product_weight", name := "generic_blade_product_weight", params := ["a_bits", "b_bits", "space"],
    defaults := [], locals := [],
    decorators := ["staticmethod"],
    body :=
    [
      .raise "NotImplementedError"
    ] }

def c18X__RightContractionProduct_orthogonal_blade_product_weight : C18Fn :=
  { qual := "_RightContractionProduct.orthogonal_blade_product_weight", name := "orthogonal_blade_product_weight", params := ["a_bits", "b_bits", "space"],
    defaults := [], locals := ["shared_bits"],
    decorators := ["staticmethod"],
    body :=
    [
      .assign [.name "shared_bits"] false (.bin .band (.name "a_bits") (.name "b_bits")),
      .ifThen (.cmp .eq (.name "shared_bits") (.name "b_bits"))
        [
          .ret (.call (.name "_shared_metric_coeff") [(.name "shared_bits"), (.name "space")] [] [])
        ]
        [
          .ret (.nat 0)
        ]
    ] }

def c18X__ScalarProduct_generic_blade_product_weight : C18Fn :=
  { qual := "_ScalarProduct.generic_blade_product_weight", name := "generic_blade_product_weight", params := ["a_bits", "b_bits", "space"],
    defaults := [], locals := [],
    decorators := ["staticmethod"],
    body :=
    [
      .raise "NotImplementedError"
    ] }

def c18X__ScalarProduct_orthogonal_blade_product_weight : C18Fn :=
  { qual := "_ScalarProduct.orthogonal_blade_product_weight", name := "orthogonal_blade_product_weight", params := ["a_bits", "b_bits", "space"],
    defaults := [], locals := [],
    decorators := ["staticmethod"],
    body :=
    [
      .ifThen (.cmp .eq (.name "a_bits") (.name "b_bits"))
        [
          .ret (.call (.name "_shared_metric_coeff") [(.name "a_bits"), (.name "space")] [] [])
        ]
        [
          .ret (.nat 0)
        ]
    ] }

def c18X__shared_metric_coeff : C18Fn :=
  { qual := "_shared_metric_coeff", name := "_shared_metric_coeff", params := ["shared_bits", "space"],
    defaults := [], locals := ["result", "basis_idx", "bit"],
    decorators := [],
    body :=
    [
      .assign [.name "result"] false (.nat 1),
      .assign [.name "basis_idx"] false (.nat 0),
      .while (.name "shared_bits")
        [
          .assign [.name "bit"] false (.bin .shl (.nat 1) (.name "basis_idx")),
          .ifThen (.bin .band (.name "shared_bits") (.name "bit"))
            [
              .assign [.name "result"] false (.bin .mul (.name "result") (.index (.attr (.name "space") "metric_matrix") [(.name "basis_idx"), (.name "basis_idx")])),
              .aug (.name "shared_bits") .bxor (.name "bit")
            ]
            [],
          .aug (.name "basis_idx") .add (.nat 1)
        ],
      .ret (.name "result")
    ] }

def c18X_canonical_reordering_sign : C18Fn :=
  { qual := "canonical_reordering_sign", name := "canonical_reordering_sign", params := ["a_bits", "b_bits"],
    defaults := [], locals := ["s"],
    decorators := [],
    body :=
    [
      .assign [.name "a_bits"] false (.bin .shr (.name "a_bits") (.nat 1)),
      .assign [.name "s"] false (.nat 0),
      .while (.name "a_bits")
        [
          .assign [.name "s"] false (.bin .add (.name "s") (.call (.name "bit_count") [(.bin .band (.name "a_bits") (.name "b_bits"))] [] [])),
          .assign [.name "a_bits"] false (.bin .shr (.name "a_bits") (.nat 1))
        ],
      .ifThen (.bin .band (.name "s") (.nat 1))
        [
          .ret (.un .neg (.nat 1))
        ]
        [
          .ret (.nat 1)
        ]
    ] }

def c18X_bit_count : C18Fn :=
  { qual := "bit_count", name := "bit_count", params := ["i"],
    defaults := [], locals := ["count"],
    decorators := [],
    body :=
    [
      .assign [.name "count"] false (.nat 0),
      .while (.name "i")
        [
          .aug (.name "i") .band (.bin .sub (.name "i") (.nat 1)),
          .aug (.name "count") .add (.nat 1)
        ],
      .ret (.name "count")
    ] }

def c18X_permutation_sign : C18Fn :=
  { qual := "permutation_sign", name := "permutation_sign", params := ["p"],
    defaults := [], locals := ["s", "i", "j"],
    decorators := [],
    body :=
    [
      .assign [.name "p"] false (.call (.name "list") [(.name "p")] [] []),
      .assign [.name "s"] false (.un .pos (.nat 1)),
      .forIn ["i"] (.call (.name "range") [(.call (.name "len") [(.name "p")] [] [])] [] [])
        [
          .assign [.name "j"] false (.name "i"),
          .while (.cmp .ne (.index (.name "p") [(.name "j")]) (.name "i"))
            [
              .aug (.name "j") .add (.nat 1)
            ],
          .ifThen (.cmp .ne (.name "j") (.name "i"))
            [
              .assign [.index "p" (.name "i"), .index "p" (.name "j")] true (.tuple [(.index (.name "p") [(.name "j")]), (.index (.name "p") [(.name "i")])]),
              .assign [.name "s"] false (.un .neg (.name "s"))
            ]
            []
        ],
      .ret (.name "s")
    ] }

/-- the translated functions, callers first -/
def c18ExpectedFns : List C18Fn := [
  c18X_MultiVector___rtruediv__,
  c18X_MultiVector___truediv__,
  c18X_MultiVector___pow__,
  c18X_MultiVector___inv__,
  c18X_MultiVector_dual,
  c18X_MultiVector_inv,
  c18X_MultiVector_norm_squared,
  c18X_MultiVector_scalar_product,
  c18X_MultiVector___rsub__,
  c18X_MultiVector___sub__,
  c18X_MultiVector___radd__,
  c18X_MultiVector___add__,
  c18X_MultiVector___neg__,
  c18X_MultiVector___mul__,
  c18X_MultiVector___rmul__,
  c18X_MultiVector___xor__,
  c18X_MultiVector___rxor__,
  c18X_MultiVector___or__,
  c18X_MultiVector___ror__,
  c18X_MultiVector___lshift__,
  c18X_MultiVector___rlshift__,
  c18X_MultiVector___rshift__,
  c18X_MultiVector___rrshift__,
  c18X_MultiVector__generic_product,
  c18X_MultiVector_rev,
  c18X_MultiVector_invol,
  c18X_MultiVector_I,
  c18X_MultiVector___hash__,
  c18X_MultiVector___ne__,
  c18X_MultiVector___eq__,
  c18X_MultiVector___bool__,
  c18X_MultiVector_project,
  c18X_MultiVector_get_pure_grade,
  c18X_MultiVector_as_scalar,
  c18X_MultiVector_odd,
  c18X_MultiVector_even,
  c18X__cast_or_ni,
  c18X_MultiVector___init__,
  c18X_Space_bits_and_sign,
  c18X_Space_blade_bits_to_str,
  c18X__OuterProduct_generic_blade_product_weight,
  c18X__GeometricProduct_generic_blade_product_weight,
  c18X__GeometricProduct_orthogonal_blade_product_weight,
  c18X__InnerProduct_generic_blade_product_weight,
  c18X__InnerProduct_orthogonal_blade_product_weight,
  c18X__LeftContractionProduct_generic_blade_product_weight,
  c18X__LeftContractionProduct_orthogonal_blade_product_weight,
  c18X__RightContractionProduct_generic_blade_product_weight,
  c18X__RightContractionProduct_orthogonal_blade_product_weight,
  c18X__ScalarProduct_generic_blade_product_weight,
  c18X__ScalarProduct_orthogonal_blade_product_weight,
  c18X__shared_metric_coeff,
  c18X_canonical_reordering_sign,
  c18X_bit_count,
  c18X_permutation_sign]

def c18ExpectedClasses : List C18Class := [
  { name := "Space", bases := [],
    attrs := [
      ("__init__", .other "def"),
      ("dimensions", .other "def"),
      ("__getinitargs__", .other "def"),
      ("bits_and_sign", .method "Space.bits_and_sign" "plain"),
      ("is_orthogonal", .other "def"),
      ("is_euclidean", .other "def"),
      ("blade_bits_to_str", .method "Space.blade_bits_to_str" "plain"),
      ("__repr__", .other "def")] },
  { name := "_GAProduct", bases := [],
    attrs := [
] },
  { name := "_OuterProduct", bases := ["_GAProduct"],
    attrs := [
      ("generic_blade_product_weight", .method "_OuterProduct.generic_blade_product_weight" "static"),
      ("orthogonal_blade_product_weight", .alias "generic_blade_product_weight")] },
  { name := "_GeometricProduct", bases := ["_GAProduct"],
    attrs := [
      ("generic_blade_product_weight", .method "_GeometricProduct.generic_blade_product_weight" "static"),
      ("orthogonal_blade_product_weight", .method "_GeometricProduct.orthogonal_blade_product_weight" "static")] },
  { name := "_InnerProduct", bases := ["_GAProduct"],
    attrs := [
      ("generic_blade_product_weight", .method "_InnerProduct.generic_blade_product_weight" "static"),
      ("orthogonal_blade_product_weight", .method "_InnerProduct.orthogonal_blade_product_weight" "static")] },
  { name := "_LeftContractionProduct", bases := ["_GAProduct"],
    attrs := [
      ("generic_blade_product_weight", .method "_LeftContractionProduct.generic_blade_product_weight" "static"),
      ("orthogonal_blade_product_weight", .method "_LeftContractionProduct.orthogonal_blade_product_weight" "static")] },
  { name := "_RightContractionProduct", bases := ["_GAProduct"],
    attrs := [
      ("generic_blade_product_weight", .method "_RightContractionProduct.generic_blade_product_weight" "static"),
      ("orthogonal_blade_product_weight", .method "_RightContractionProduct.orthogonal_blade_product_weight" "static")] },
  { name := "_ScalarProduct", bases := ["_GAProduct"],
    attrs := [
      ("generic_blade_product_weight", .method "_ScalarProduct.generic_blade_product_weight" "static"),
      ("orthogonal_blade_product_weight", .method "_ScalarProduct.orthogonal_blade_product_weight" "static")] },
  { name := "MultiVector", bases := [],
    attrs := [
      ("__init__", .method "MultiVector.__init__" "plain"),
      ("__getinitargs__", .other "def"),
      ("mapper_method", .other "'map_multivector'"),
      ("stringify", .other "def"),
      ("__str__", .other "def"),
      ("__repr__", .other "def"),
      ("__neg__", .method "MultiVector.__neg__" "plain"),
      ("__add__", .method "MultiVector.__add__" "plain"),
      ("__radd__", .method "MultiVector.__radd__" "plain"),
      ("__sub__", .method "MultiVector.__sub__" "plain"),
      ("__rsub__", .method "MultiVector.__rsub__" "plain"),
      ("_generic_product", .method "MultiVector._generic_product" "plain"),
      ("__mul__", .method "MultiVector.__mul__" "plain"),
      ("__rmul__", .method "MultiVector.__rmul__" "plain"),
      ("__xor__", .method "MultiVector.__xor__" "plain"),
      ("__rxor__", .method "MultiVector.__rxor__" "plain"),
      ("__or__", .method "MultiVector.__or__" "plain"),
      ("__ror__", .method "MultiVector.__ror__" "plain"),
      ("__lshift__", .method "MultiVector.__lshift__" "plain"),
      ("__rlshift__", .method "MultiVector.__rlshift__" "plain"),
      ("__rshift__", .method "MultiVector.__rshift__" "plain"),
      ("__rrshift__", .method "MultiVector.__rrshift__" "plain"),
      ("scalar_product", .method "MultiVector.scalar_product" "plain"),
      ("x", .other "def"),
      ("__pow__", .method "MultiVector.__pow__" "plain"),
      ("__truediv__", .method "MultiVector.__truediv__" "plain"),
      ("__rtruediv__", .method "MultiVector.__rtruediv__" "plain"),
      ("__div__", .alias "__truediv__"),
      ("inv", .method "MultiVector.inv" "plain"),
      ("rev", .method "MultiVector.rev" "plain"),
      ("invol", .method "MultiVector.invol" "plain"),
      ("dual", .method "MultiVector.dual" "plain"),
      ("__inv__", .method "MultiVector.__inv__" "plain"),
      ("norm_squared", .method "MultiVector.norm_squared" "plain"),
      ("__abs__", .other "def"),
      ("I", .method "MultiVector.I" "property"),
      ("__hash__", .method "MultiVector.__hash__" "plain"),
      ("__bool__", .method "MultiVector.__bool__" "plain"),
      ("__nonzero__", .alias "__bool__"),
      ("__eq__", .method "MultiVector.__eq__" "plain"),
      ("__ne__", .method "MultiVector.__ne__" "plain"),
      ("zap_near_zeros", .other "def"),
      ("close_to", .other "def"),
      ("gen_blades", .other "def"),
      ("project", .method "MultiVector.project" "plain"),
      ("xproject", .other "def"),
      ("all_grades", .other "def"),
      ("get_pure_grade", .method "MultiVector.get_pure_grade" "plain"),
      ("odd", .method "MultiVector.odd" "plain"),
      ("even", .method "MultiVector.even" "plain"),
      ("project_min_grade", .other "def"),
      ("project_max_grade", .other "def"),
      ("as_scalar", .method "MultiVector.as_scalar" "plain"),
      ("as_vector", .other "def"),
      ("map", .other "def")] }]

/-- definitions that are not translated: normalised source text -/
def c18ExpectedPinned : List (String × String) := [
  ("Space.__init__", "def __init__(self, basis=None, metric_matrix=None):\n    \"\"\"\n        :arg basis: A sequence of names of basis vectors, or an integer (the\n            number of dimensions) to use the default names ``e0`` through ``eN``.\n        :arg metric_matrix: See :attr:`metric_matrix`.\n            If *None*, the Euclidean metric is assumed.\n        \"\"\"\n    if basis is None and metric_matrix is None:\n        raise TypeError(\"at least one of 'basis' and 'metric_matrix' must be passed\")\n    if basis is None:\n        basis = int(metric_matrix.shape[0])\n    from numbers import Integral\n    if isinstance(basis, Integral):\n        basis = [f'e{i}' for i in range(basis)]\n    if metric_matrix is None:\n        metric_matrix = np.eye(len(basis), dtype=object)\n    if not (len(metric_matrix.shape) == 2 and all((dim == len(basis) for dim in metric_matrix.shape))):\n        raise ValueError('metric_matrix has the wrong shape')\n    self.basis_names = basis\n    self.metric_matrix = metric_matrix"),
  ("Space.dimensions", "@property\ndef dimensions(self):\n    return len(self.basis_names)"),
  ("Space.__getinitargs__", "def __getinitargs__(self):\n    return (self.basis_names, self.metric_matrix)"),
  ("Space.is_orthogonal", "@property\n@memoize_method\ndef is_orthogonal(self):\n    return (self.metric_matrix - np.diag(np.diag(self.metric_matrix)) == 0).all()"),
  ("Space.is_euclidean", "@property\n@memoize_method\ndef is_euclidean(self):\n    return (self.metric_matrix == np.eye(self.metric_matrix.shape[0])).all()"),
  ("Space.__repr__", "def __repr__(self):\n    if self is get_euclidean_space(self.dimensions):\n        return f'Space({self.dimensions})'\n    elif self.is_euclidean:\n        return f'Space({self.basis_names!r})'\n    else:\n        return f'Space({self.basis_names!r}, {self.metric_matrix!r})'"),
  ("get_euclidean_space", "@memoize\ndef get_euclidean_space(n):\n    \"\"\"Return the canonical *n*-dimensional Euclidean :class:`Space`.\n    \"\"\"\n    return Space(n)"),
  ("MultiVector.__getinitargs__", "def __getinitargs__(self):\n    return (self.data, self.space)"),
  ("MultiVector.stringify", "def stringify(self, coeff_stringifier, enclosing_prec):\n    from pymbolic.mapper.stringifier import PREC_PRODUCT, PREC_SUM\n    terms = []\n    for bits in sorted(self.data.keys(), key=lambda _bits: (bit_count(_bits), _bits)):\n        coeff = self.data[bits]\n        strifier = None\n        if coeff_stringifier is None:\n            try:\n                strifier = coeff.stringifier()()\n            except AttributeError:\n                pass\n        else:\n            strifier = coeff_stringifier\n        if strifier is not None:\n            if bits:\n                coeff_str = strifier(coeff, PREC_PRODUCT)\n            else:\n                coeff_str = strifier(coeff, PREC_SUM)\n        else:\n            coeff_str = str(coeff)\n        blade_str = self.space.blade_bits_to_str(bits)\n        if bits:\n            terms.append(f'{blade_str} * {coeff_str}')\n        else:\n            terms.append(coeff_str)\n    if terms:\n        if any((len(t) > 15 for t in terms)):\n            result = '\\n    ' + '\\n    + '.join(terms)\n        else:\n            result = ' + '.join(terms)\n    else:\n        result = '0'\n    return f'MV({result})'"),
  ("MultiVector.__str__", "def __str__(self):\n    from pymbolic.mapper.stringifier import PREC_NONE\n    return self.stringify(None, PREC_NONE)"),
  ("MultiVector.__repr__", "def __repr__(self):\n    return f'MultiVector({self.data}, {self.space!r})'"),
  ("MultiVector.x", "def x(self, other):\n    \"\"\"Return the commutator product.\n\n        See (1.1.55) in [HS].\n\n        Often written :math:`A\\\\times B`.\n        \"\"\"\n    return (self * other - other * self) / 2"),
  ("MultiVector.__abs__", "def __abs__(self):\n    return self.norm_squared() ** 0.5"),
  ("MultiVector.zap_near_zeros", "def zap_near_zeros(self, tol=None):\n    \"\"\"Remove blades whose coefficient is close to zero\n        relative to the norm of *self*.\n        \"\"\"\n    if tol is None:\n        tol = 1e-12\n    new_data = {}\n    for bits, coeff in self.data.items():\n        if abs(coeff) > tol:\n            new_data[bits] = coeff\n    return MultiVector(new_data, self.space)"),
  ("MultiVector.close_to", "def close_to(self, other, tol=None):\n    return not (self - other).zap_near_zeros(tol=tol)"),
  ("MultiVector.gen_blades", "def gen_blades(self, grade=None):\n    \"\"\"Generate all blades in *self*, optionally only those of a specific\n        *grade*.\n        \"\"\"\n    if grade is None:\n        for bits, coeff in self.data.items():\n            yield MultiVector({bits: coeff}, self.space)\n    else:\n        for bits, coeff in self.data.items():\n            if bit_count(bits) == grade:\n                yield MultiVector({bits: coeff}, self.space)"),
  ("MultiVector.xproject", "def xproject(self, r, dtype=None):\n    \"\"\"If ``r == 0``, return ``self.project(0).as_scalar()``.\n        If ``r == 1``, return ``self.project(1).as_vector(dtype)``.\n        Otherwise, return ``self.project(r)``.\n        \"\"\"\n    if r == 0:\n        return self.project(0).as_scalar()\n    elif r == 1:\n        return self.project(1).as_vector(dtype)\n    else:\n        return self.project(r)"),
  ("MultiVector.all_grades", "def all_grades(self):\n    \"\"\"Return a :class:`set` of grades occurring in *self*.\"\"\"\n    return {bit_count(bits) for bits, coeff in self.data.items()}"),
  ("MultiVector.project_min_grade", "def project_min_grade(self):\n    \"\"\"\n        .. versionadded:: 2014.2\n        \"\"\"\n    return self.project(min(self.all_grades()))"),
  ("MultiVector.project_max_grade", "def project_max_grade(self):\n    \"\"\"\n        .. versionadded:: 2014.2\n        \"\"\"\n    return self.project(max(self.all_grades()))"),
  ("MultiVector.as_vector", "def as_vector(self, dtype=None):\n    \"\"\"Return a :mod:`numpy` vector corresponding to the grade-1\n        :class:`MultiVector` *self*.\n\n        If *self* is not grade-1, :exc:`ValueError` is raised.\n        \"\"\"\n    if dtype is not None:\n        result = np.zeros(self.space.dimensions, dtype=dtype)\n    else:\n        result = [0] * self.space.dimensions\n    log_table = {2 ** i: i for i in range(self.space.dimensions)}\n    try:\n        for bits, coeff in self.data.items():\n            result[log_table[bits]] = coeff\n    except KeyError:\n        raise ValueError('multivector is not a purely grade-1') from None\n    if dtype is not None:\n        return result\n    else:\n        return np.array(result)"),
  ("MultiVector.map", "def map(self, f):\n    \"\"\"Return a new :class:`MultiVector` with coefficients mapped by\n        function *f*, which takes a single coefficient as input and returns the\n        new coefficient.\n        \"\"\"\n    changed = False\n    new_data = {}\n    for bits, coeff in self.data.items():\n        new_coeff = f(coeff)\n        new_data[bits] = new_coeff\n        if coeff is not new_coeff:\n            changed = True\n    if not changed:\n        return self\n    else:\n        return MultiVector(new_data, self.space)"),
  ("componentwise", "def componentwise(f, expr):\n    \"\"\"Apply function *f* componentwise to object arrays and\n    :class:`MultiVector` instances. *expr* is also allowed to\n    be a scalar.\n    \"\"\"\n    if isinstance(expr, MultiVector):\n        return expr.map(f)\n    from pytools.obj_array import obj_array_vectorize\n    return obj_array_vectorize(f, expr)")]

def c18ExpectedModule : C18Module :=
  { fns := c18ExpectedFns,
    fnNames := ["MultiVector.__rtruediv__", "MultiVector.__truediv__", "MultiVector.__pow__", "MultiVector.__inv__", "MultiVector.dual", "MultiVector.inv", "MultiVector.norm_squared", "MultiVector.scalar_product", "MultiVector.__rsub__", "MultiVector.__sub__", "MultiVector.__radd__", "MultiVector.__add__", "MultiVector.__neg__", "MultiVector.__mul__", "MultiVector.__rmul__", "MultiVector.__xor__", "MultiVector.__rxor__", "MultiVector.__or__", "MultiVector.__ror__", "MultiVector.__lshift__", "MultiVector.__rlshift__", "MultiVector.__rshift__", "MultiVector.__rrshift__", "MultiVector._generic_product", "MultiVector.rev", "MultiVector.invol", "MultiVector.I", "MultiVector.__hash__", "MultiVector.__ne__", "MultiVector.__eq__", "MultiVector.__bool__", "MultiVector.project", "MultiVector.get_pure_grade", "MultiVector.as_scalar", "MultiVector.odd", "MultiVector.even", "_cast_or_ni", "MultiVector.__init__", "Space.bits_and_sign", "Space.blade_bits_to_str", "_OuterProduct.generic_blade_product_weight", "_GeometricProduct.generic_blade_product_weight", "_GeometricProduct.orthogonal_blade_product_weight", "_InnerProduct.generic_blade_product_weight", "_InnerProduct.orthogonal_blade_product_weight", "_LeftContractionProduct.generic_blade_product_weight", "_LeftContractionProduct.orthogonal_blade_product_weight", "_RightContractionProduct.generic_blade_product_weight", "_RightContractionProduct.orthogonal_blade_product_weight", "_ScalarProduct.generic_blade_product_weight", "_ScalarProduct.orthogonal_blade_product_weight", "_shared_metric_coeff", "canonical_reordering_sign", "bit_count", "permutation_sign"],
    classes := c18ExpectedClasses,
    imports := [("annotations", "__future__.annotations"), ("np", "numpy"), ("memoize", "pytools.memoize"), ("memoize_method", "pytools.memoize_method")],
    pinned := c18ExpectedPinned }

end PV.GA
