import PV.Proofs.UnifyAC
/-
  An invariant of AC-equivalence, used to refute `ACEq a b` for concrete trees (C16 witnesses):
  a weighted count of variable leaves (by name), constant leaves and tuple nodes.
-/
namespace PV.Unify
open PV

mutual
/-- weighted count: `v x` per occurrence of the variable `x`, `k` per constant, `τ` per tuple node;
nodes outside the C16 fragment count 0 and are not entered -/
def cnt (v : String → Nat) (k τ : Nat) : Expr → Nat
  | .var x => v x
  | .const _ => k
  | .nary _ cs => cntL v k τ cs
  | .bin _ a b => cnt v k τ a + cnt v k τ b
  | .un _ a => cnt v k τ a
  | .cmp _ a b => cnt v k τ a + cnt v k τ b
  | .ite c t e => cnt v k τ c + cnt v k τ t + cnt v k τ e
  | .call f as => cnt v k τ f + cntL v k τ as
  | .subscript a i => cnt v k τ a + cnt v k τ i
  | .lookup a _ => cnt v k τ a
  | .tuple cs => τ + cntL v k τ cs
  | _ => 0
def cntL (v : String → Nat) (k τ : Nat) : List Expr → Nat
  | [] => 0
  | c :: cs => cnt v k τ c + cntL v k τ cs
end

variable (v : String → Nat) (k τ : Nat)

theorem cntL_append : ∀ (as bs : List Expr), cntL v k τ (as ++ bs) = cntL v k τ as + cntL v k τ bs
  | [], bs => by simp [cntL]
  | a :: as, bs => by simp [cntL, cntL_append as bs]; omega

theorem cntL_perm {as bs : List Expr} (h : as.Perm bs) : cntL v k τ as = cntL v k τ bs := by
  induction h with
  | nil => rfl
  | cons x _ ih => simp [cntL, ih]
  | swap x y l => simp only [cntL]; omega
  | trans _ _ ih1 ih2 => exact ih1.trans ih2

theorem cntL_pyEqL : ∀ (cs ds : List Expr),
    (∀ c ∈ cs, ∀ b, c.pyEq b = true → cnt v k τ c = cnt v k τ b) →
    Expr.pyEqL cs ds = true → cntL v k τ cs = cntL v k τ ds
  | [], [], _, _ => rfl
  | c :: cs, d :: ds, ih, h => by
    simp only [Expr.pyEqL, Bool.and_eq_true] at h
    simp only [cntL, ih c (by simp) d h.1,
      cntL_pyEqL cs ds (fun c' hc' => ih c' (by simp [hc'])) h.2]
  | [], _ :: _, _, h => by simp [Expr.pyEqL] at h
  | _ :: _, [], _, h => by simp [Expr.pyEqL] at h

/-- Python equality preserves the count -/
theorem cnt_pyEq (a : Expr) : ∀ b, a.pyEq b = true → cnt v k τ a = cnt v k τ b := by
  induction a using Expr.induct with
  | h e ih =>
    intro b hb
    cases e <;> cases b <;> simp only [Expr.pyEq, Bool.and_eq_true, Bool.false_eq_true] at hb <;>
      simp only [cnt]
    case var.var => simp_all
    case nary.nary =>
      exact cntL_pyEqL v k τ _ _ (fun c hc => ih c (by simpa [Expr.children] using hc)) hb.2
    case bin.bin =>
      rw [ih _ (by simp [Expr.children]) _ hb.1.2, ih _ (by simp [Expr.children]) _ hb.2]
    case un.un => exact ih _ (by simp [Expr.children]) _ hb.2
    case cmp.cmp =>
      rw [ih _ (by simp [Expr.children]) _ hb.1.2, ih _ (by simp [Expr.children]) _ hb.2]
    case ite.ite =>
      rw [ih _ (by simp [Expr.children]) _ hb.1.1, ih _ (by simp [Expr.children]) _ hb.1.2,
        ih _ (by simp [Expr.children]) _ hb.2]
    case call.call =>
      rw [ih _ (by simp [Expr.children]) _ hb.1,
        cntL_pyEqL v k τ _ _ (fun c hc => ih c (by simp [Expr.children, hc])) hb.2]
    case subscript.subscript =>
      rw [ih _ (by simp [Expr.children]) _ hb.1, ih _ (by simp [Expr.children]) _ hb.2]
    case lookup.lookup => exact ih _ (by simp [Expr.children]) _ hb.1
    case tuple.tuple =>
      rw [cntL_pyEqL v k τ _ _ (fun c hc => ih c (by simpa [Expr.children] using hc)) hb]

mutual
/-- AC-equivalence preserves the count -/
theorem ACEq.cnt_eq : ∀ {a b : Expr}, ACEq a b → cnt v k τ a = cnt v k τ b
  | _, _, .refl _ => rfl
  | _, _, .py h => cnt_pyEq v k τ _ _ h
  | _, _, .symm h => (ACEq.cnt_eq h).symm
  | _, _, .trans h1 h2 => (ACEq.cnt_eq h1).trans (ACEq.cnt_eq h2)
  | _, _, .nary _ h => by simp only [cnt, ACEqL.cnt_eq h]
  | _, _, .bin _ h1 h2 => by simp only [cnt, ACEq.cnt_eq h1, ACEq.cnt_eq h2]
  | _, _, .un _ h => by simp only [cnt, ACEq.cnt_eq h]
  | _, _, .cmp _ h1 h2 => by simp only [cnt, ACEq.cnt_eq h1, ACEq.cnt_eq h2]
  | _, _, .ite h1 h2 h3 => by simp only [cnt, ACEq.cnt_eq h1, ACEq.cnt_eq h2, ACEq.cnt_eq h3]
  | _, _, .call h1 h2 => by simp only [cnt, ACEq.cnt_eq h1, ACEqL.cnt_eq h2]
  | _, _, .subscript h1 h2 => by simp only [cnt, ACEq.cnt_eq h1, ACEq.cnt_eq h2]
  | _, _, .lookup _ h => by simp only [cnt, ACEq.cnt_eq h]
  | _, _, .tuple h => by simp only [cnt, ACEqL.cnt_eq h]
  | _, _, .callKw _ _ _ _ => by simp only [cnt]
  | _, _, .cse _ _ _ => by simp only [cnt]
  | _, _, .subst _ _ _ => by simp only [cnt]
  | _, _, .deriv _ _ => by simp only [cnt]
  | _, _, .slice _ => by simp only [cnt]
  | _, _, .list _ => by simp only [cnt]
  | _, _, .perm _ h => by simp only [cnt, cntL_perm v k τ h]
  | _, _, .flat xs ys zs _ => by
      simp only [cnt, cntL_append, cntL]; omega
  | _, _, .single a _ => by simp only [cnt, cntL]; omega
theorem ACEqL.cnt_eq : ∀ {as bs : List Expr}, ACEqL as bs → cntL v k τ as = cntL v k τ bs
  | _, _, .nil => rfl
  | _, _, .cons h t => by simp only [cntL, ACEq.cnt_eq h, ACEqL.cnt_eq t]
end

end PV.Unify
