import PV.Proofs.UnifySound
/-
  Completeness of the unifier model under injective renamings (C16): if the target is the pattern
  with its candidate variables renamed injectively (the other variables fixed), at least one record
  is returned — the renaming itself, restricted to the variables met.
-/
namespace PV.Unify
open PV
set_option linter.unusedSectionVars false

mutual
/-- rename every variable -/
def rename (ρ : String → String) : Expr → Expr
  | .var x => .var (ρ x)
  | .const c => .const c
  | .nary o cs => .nary o (renameL ρ cs)
  | .bin o a b => .bin o (rename ρ a) (rename ρ b)
  | .un o a => .un o (rename ρ a)
  | .cmp o a b => .cmp o (rename ρ a) (rename ρ b)
  | .ite c t e => .ite (rename ρ c) (rename ρ t) (rename ρ e)
  | .call f as => .call (rename ρ f) (renameL ρ as)
  | .subscript a i => .subscript (rename ρ a) (rename ρ i)
  | .lookup a n => .lookup (rename ρ a) n
  | .tuple cs => .tuple (renameL ρ cs)
  | e => e
def renameL (ρ : String → String) : List Expr → List Expr
  | [] => []
  | c :: cs => rename ρ c :: renameL ρ cs
end

mutual
/-- the fragment of the completeness theorem: `patOk` plus tuples (subscript indices) -/
def patC : Expr → Bool
  | .const c => constOkPattern c
  | .var _ => true
  | .nary o cs => (o == .sum || o == .prod) && patCL cs
  | .bin _ a b => patC a && patC b
  | .un _ a => patC a
  | .cmp _ a b => patC a && patC b
  | .ite c t e => patC c && patC t && patC e
  | .call f as => patC f && patCL as
  | .subscript a i => patC a && patC i
  | .lookup a _ => patC a
  | .tuple cs => patCL cs
  | _ => false
def patCL : List Expr → Bool
  | [] => true
  | c :: cs => patC c && patCL cs
end

/-- the renaming: injective on the variables `V` of the whole pattern, identity off the candidates -/
structure Renaming (cands V : List String) (ρ : String → String) : Prop where
  inj : ∀ x ∈ V, ∀ y ∈ V, ρ x = ρ y → x = y
  fix : ∀ x ∈ V, x ∉ cands → ρ x = x

/-- a record that is a piece of the renaming -/
def Cons (V : List String) (ρ : String → String) (r : URec) : Prop :=
  (∀ p ∈ r.lmap, p.1 ∈ V ∧ p.2 = .var (ρ p.1)) ∧
  (∀ p ∈ r.rmap, ∃ x ∈ V, p.2 = .var x ∧ p.1 = ρ x)

theorem cons_empty (V : List String) (ρ : String → String) : Cons V ρ URec.empty := by
  simp [Cons, URec.empty]

/-- `unify_map` succeeds when common keys carry `==`-equal values; the result is made of entries
of the two maps -/
theorem unifyMapGo_total (m1 : AMap) : ∀ (m2 res : AMap),
    (∀ p ∈ m2, ∀ v1, AMap.get m1 p.1 = some v1 → v1.pyEq p.2 = true) →
    ∃ out, unifyMapGo m1 res m2 = some out ∧ ∀ q ∈ out, q ∈ res ∨ q ∈ m2
  | [], res, _ => ⟨res, rfl, fun q hq => Or.inl hq⟩
  | (k, v) :: rest, res, h => by
    simp only [unifyMapGo]
    cases hg : AMap.get m1 k with
    | some v1 =>
      have hpy := h (k, v) (by simp) v1 hg
      simp only [hpy, if_true]
      obtain ⟨out, h1, h2⟩ := unifyMapGo_total m1 rest res (fun p hp => h p (by simp [hp]))
      exact ⟨out, h1, fun q hq => (h2 q hq).imp id (fun h' => by simp [h'])⟩
    | none =>
      obtain ⟨out, h1, h2⟩ := unifyMapGo_total m1 rest (res ++ [(k, v)])
        (fun p hp => h p (by simp [hp]))
      refine ⟨out, h1, fun q hq => ?_⟩
      rcases h2 q hq with h' | h'
      · rcases List.mem_append.1 h' with h'' | h''
        · exact Or.inl h''
        · simp only [List.mem_singleton] at h''; exact Or.inr (by simp [h''])
      · exact Or.inr (by simp [h'])

/-- two pieces of one injective renaming always unify, to a piece of it -/
theorem unify_cons {cands V : List String} {ρ : String → String} (hρ : Renaming cands V ρ)
    {a b : URec} (ha : Cons V ρ a) (hb : Cons V ρ b) :
    ∃ r, a.unify b = some r ∧ Cons V ρ r := by
  obtain ⟨l, hl, hl'⟩ := unifyMapGo_total a.lmap b.lmap a.lmap (by
    intro p hp v1 hv1
    have h1 := ha.1 _ (AMap.get_some_mem hv1)
    have h2 := hb.1 p hp
    simp only at h1
    rw [h1.2, h2.2]; simp [Expr.pyEq])
  obtain ⟨r', hr, hr'⟩ := unifyMapGo_total a.rmap b.rmap a.rmap (by
    intro p hp v1 hv1
    obtain ⟨x1, hx1, e1, e1'⟩ := ha.2 _ (AMap.get_some_mem hv1)
    obtain ⟨x2, hx2, e2, e2'⟩ := hb.2 p hp
    simp only at e1 e1'
    have : x1 = x2 := hρ.inj x1 hx1 x2 hx2 (e1'.symm.trans e2')
    rw [e1, e2, this]; simp [Expr.pyEq])
  refine ⟨⟨l, r'⟩, by simp [URec.unify, unifyMap, hl, hr], ?_, ?_⟩
  · intro p hp
    rcases hl' p hp with h | h
    · exact ha.1 p h
    · exact hb.1 p h
  · intro p hp
    rcases hr' p hp with h | h
    · exact ha.2 p h
    · exact hb.2 p h

/-! ### the identity partition comes first -/

theorem combinations_one_cons (a : Nat) (s : List Nat) :
    ∃ rest, combinations (a :: s) 1 = [a] :: rest := by
  cases s <;> simp [combinations]

theorem subsetsUpTo_one_cons (a : Nat) (s : List Nat) :
    ∃ rest, subsetsUpTo (a :: s) 1 = [a] :: rest := by
  obtain ⟨rest, h⟩ := combinations_one_cons a s
  exact ⟨rest, by simp [subsetsUpTo, List.range_succ, h]⟩

theorem filter_not_head {a : Nat} {s : List Nat} (h : a ∉ s) :
    (a :: s).filter (fun i => ![a].contains i) = s := by
  simp only [List.filter_cons, List.contains_cons, List.contains_nil, Bool.or_false, BEq.rfl,
    Bool.not_true, Bool.false_eq_true, if_false]
  rw [List.filter_eq_self]
  intro i hi
  have : i ≠ a := fun e => h (e ▸ hi)
  simp [this]

/-- when there are exactly as many leftovers as plain variables, the FIRST partition tried gives
the i-th leftover to the i-th variable -/
theorem partitions_head : ∀ (k : Nat) (s : List Nat), s.length = k → 1 ≤ k → s.Nodup →
    ∃ rest, partitions k s = s.map (fun i => [i]) :: rest
  | 0, _, _, h, _ => by omega
  | 1, s, hl, _, _ => by
    match s, hl with
    | [a], _ => exact ⟨[], by simp [partitions]⟩
  | k + 2, s, hl, _, hn => by
    match s, hl, hn with
    | a :: s', hl, hn =>
      have hn' := List.nodup_cons.1 hn
      have hl' : s'.length = k + 1 := by simpa using hl
      obtain ⟨rest1, h1⟩ := subsetsUpTo_one_cons a s'
      obtain ⟨rest2, h2⟩ := partitions_head (k + 1) s' hl' (by omega) hn'.2
      have harg : (a :: s').length + 1 - (k + 2) = 1 := by simp [hl']
      simp only [partitions, harg, h1, List.flatMap_cons, filter_not_head hn'.1, h2, List.map_cons,
        List.cons_append]
      exact ⟨_, rfl⟩

/-! ### binding the plain variables -/

theorem factory_var {o : NaryOp} (hac : isAC o) (y : String) : factory o [.var y] = .var y := by
  rcases hac with rfl | rfl <;>
    simp [factory, flattenedSum, flattenedProduct, flattenedSumLoop, flattenedProductLoop,
      Expr.isZero, Expr.isOne, Expr.truthy, Expr.sizeL, Expr.size]

theorem recFromEq_var {cands : List String} {x y : String} (hx : x ∈ cands) :
    recFromEq cands x (.var y) = some ⟨[(x, .var y)], [(y, .var x)]⟩ := by
  simp [recFromEq, hx]

theorem bindParts_complete {cands V : List String} {ρ : String → String} (hρ : Renaming cands V ρ)
    {o : NaryOp} (hac : isAC o) {ds : List Expr} :
    ∀ (idx : List Nat) (names : List String) (urec : URec), Cons V ρ urec →
    idx.length = names.length →
    (∀ z ∈ idx.zip names, ds.getD z.1 zero = .var (ρ z.2) ∧ z.2 ∈ cands ∧ z.2 ∈ V) →
    ∃ res, bindParts cands o ds urec ((idx.map (fun i => [i])).zip names) = some res ∧ Cons V ρ res
  | [], [], urec, hc, _, _ => ⟨urec, rfl, hc⟩
  | i :: idx, x :: names, urec, hc, hl, h => by
    obtain ⟨hd, hxc, hxV⟩ := h (i, x) (by simp)
    simp only at hd hxc hxV
    have hn : Cons V ρ ⟨[(x, .var (ρ x))], [(ρ x, .var x)]⟩ := by
      constructor
      · intro p hp; simp only [List.mem_singleton] at hp; subst hp; exact ⟨hxV, rfl⟩
      · intro p hp; simp only [List.mem_singleton] at hp; subst hp; exact ⟨x, hxV, rfl, rfl⟩
    obtain ⟨u, hu, hcu⟩ := unify_cons hρ hc hn
    obtain ⟨res, hres, hcr⟩ := bindParts_complete hρ hac idx names u hcu (by simpa using hl)
      (fun z hz => h z (by simp [hz]))
    refine ⟨res, ?_, hcr⟩
    simp only [List.map_cons, List.zip_cons_cons, bindParts, List.map_nil, hd, factory_var hac,
      recFromEq_var hxc, hu, hres]
  | [], _ :: _, _, _, hl, _ => by simp at hl
  | _ :: _, [], _, _, hl, _ => by simp at hl

/-- `match_plain_var_candidates` finds the renaming when the leftovers are exactly the renamed plain
variables, in order -/
theorem matchPlain_complete {cands V : List String} {ρ : String → String}
    (hρ : Renaming cands V ρ) {o : NaryOp} (hac : isAC o) {plain : List String} {hasNonvar : Bool}
    {ds : List Expr} {urecs : List URec} {urec : URec} {left : List Nat}
    (hc : Cons V ρ urec) (hu : ∃ u ∈ urecs, Cons V ρ u) (hl : left.length = plain.length)
    (hnd : left.Nodup)
    (hz : ∀ z ∈ left.zip plain, ds.getD z.1 zero = .var (ρ z.2) ∧ z.2 ∈ cands ∧ z.2 ∈ V) :
    ∃ r ∈ matchPlain cands o plain hasNonvar ds urecs urec left, Cons V ρ r := by
  unfold matchPlain
  split
  · exact ⟨urec, by simp, hc⟩
  · rename_i hne
    have hk : 1 ≤ plain.length := by
      cases plain with
      | nil =>
        have : left = [] := List.length_eq_zero_iff.1 (by simpa using hl)
        simp [this] at hne
      | cons _ _ => simp
    obtain ⟨rest, hparts⟩ := partitions_head plain.length left hl hk hnd
    obtain ⟨res, hres, hcr⟩ := bindParts_complete hρ hac (o := o) (ds := ds) left plain urec hc hl hz
    simp only
    split
    · refine ⟨res, ?_, hcr⟩
      rw [hparts]
      simp [hres]
    · obtain ⟨u, hu', hcu⟩ := hu
      obtain ⟨r, hr, hcr'⟩ := unify_cons hρ hcu hcr
      refine ⟨r, ?_, hcr'⟩
      rw [hparts]
      simp only [List.filterMap_cons, hres, List.flatMap_cons, List.mem_append]
      exact Or.inl (mem_unifyMany.2 ⟨u, hu', hr⟩)

/-! ### positions of the plain and the other operands -/

def nonvarIdx (cands : List String) : List Expr → Nat → List Nat
  | [], _ => []
  | c :: cs, off =>
    if isPlain cands c then nonvarIdx cands cs (off + 1) else off :: nonvarIdx cands cs (off + 1)

def plainIdx (cands : List String) : List Expr → Nat → List Nat
  | [], _ => []
  | c :: cs, off =>
    if isPlain cands c then off :: plainIdx cands cs (off + 1) else plainIdx cands cs (off + 1)

/-- `other_leftovers` after the operands `js` have been matched one after the other -/
def finalLeft (left js : List Nat) : List Nat := js.foldl (fun l j => l.filter (· != j)) left

theorem nonvarIdx_sublist (cands : List String) : ∀ (cs : List Expr) (off : Nat),
    (nonvarIdx cands cs off).Sublist (List.range' off cs.length)
  | [], _ => by simp [nonvarIdx]
  | c :: cs, off => by
    simp only [nonvarIdx, List.length_cons, List.range'_succ]
    split
    · exact (nonvarIdx_sublist cands cs (off + 1)).cons _
    · exact (nonvarIdx_sublist cands cs (off + 1)).cons_cons _

theorem plainIdx_sublist (cands : List String) : ∀ (cs : List Expr) (off : Nat),
    (plainIdx cands cs off).Sublist (List.range' off cs.length)
  | [], _ => by simp [plainIdx]
  | c :: cs, off => by
    simp only [plainIdx, List.length_cons, List.range'_succ]
    split
    · exact (plainIdx_sublist cands cs (off + 1)).cons_cons _
    · exact (plainIdx_sublist cands cs (off + 1)).cons _

theorem filter_ne_mid {pre R : List Nat} {off : Nat} (hpre : ∀ i ∈ pre, i ≠ off)
    (hR : ∀ i ∈ R, i ≠ off) : (pre ++ off :: R).filter (· != off) = pre ++ R := by
  rw [List.filter_append, List.filter_cons]
  simp only [bne_self_eq_false, Bool.false_eq_true, if_false]
  rw [List.filter_eq_self.2 (fun i hi => by simpa using hpre i hi),
    List.filter_eq_self.2 (fun i hi => by simpa using hR i hi)]

theorem finalLeft_spec (cands : List String) : ∀ (cs : List Expr) (off : Nat) (pre : List Nat),
    (∀ i ∈ pre, i < off) →
    finalLeft (pre ++ List.range' off cs.length) (nonvarIdx cands cs off) = pre ++ plainIdx cands cs off
  | [], off, pre, _ => by simp [finalLeft, nonvarIdx, plainIdx]
  | c :: cs, off, pre, hpre => by
    simp only [nonvarIdx, plainIdx, List.length_cons, List.range'_succ]
    split
    · have ih := finalLeft_spec cands cs (off + 1) (pre ++ [off]) (by
        intro i hi
        rcases List.mem_append.1 hi with h | h
        · have := hpre i h; omega
        · simp only [List.mem_singleton] at h; omega)
      simpa using ih
    · have ih := finalLeft_spec cands cs (off + 1) pre (fun i hi => by have := hpre i hi; omega)
      simp only [finalLeft, List.foldl_cons] at ih ⊢
      rw [filter_ne_mid (fun i hi => by have := hpre i hi; omega)
        (fun i hi => by have := (List.mem_range'_1.1 hi).1; omega)]
      exact ih

/-- the target operands are the renamed pattern operands, position by position (from `off` on) -/
def Aligned (ρ : String → String) (ds cs : List Expr) (off : Nat) : Prop :=
  ∀ k c, cs[k]? = some c → ds.getD (off + k) zero = rename ρ c ∧ off + k < ds.length

theorem Aligned.tail {ρ : String → String} {ds : List Expr} {c : Expr} {cs : List Expr} {off : Nat}
    (h : Aligned ρ ds (c :: cs) off) : Aligned ρ ds cs (off + 1) := by
  intro k c' hk
  have := h (k + 1) c' (by simpa using hk)
  have e : off + (k + 1) = off + 1 + k := by omega
  rwa [e] at this

theorem Aligned.head {ρ : String → String} {ds : List Expr} {c : Expr} {cs : List Expr} {off : Nat}
    (h : Aligned ρ ds (c :: cs) off) : ds.getD off zero = rename ρ c ∧ off < ds.length := by
  simpa using h 0 c rfl

theorem plainIdx_spec {cands V : List String} {ρ : String → String} {ds : List Expr} :
    ∀ (cs : List Expr) (off : Nat), Aligned ρ ds cs off → (∀ x ∈ varsOfL cs, x ∈ V) →
    (plainIdx cands cs off).length = (plainNames cands cs).length ∧
    ∀ z ∈ (plainIdx cands cs off).zip (plainNames cands cs),
      ds.getD z.1 zero = .var (ρ z.2) ∧ z.2 ∈ cands ∧ z.2 ∈ V
  | [], _, _, _ => by simp [plainIdx, plainNames]
  | c :: cs, off, hal, hV => by
    have ih := plainIdx_spec (cands := cands) cs (off + 1) hal.tail
      (fun x hx => hV x (by simp [varsOfL, hx]))
    by_cases hp : isPlain cands c = true
    · obtain ⟨x, rfl, hx⟩ : ∃ x, c = .var x ∧ cands.contains x = true := by
        cases c <;> simp_all [isPlain]
      have hxc : x ∈ cands := by simpa using hx
      simp only [plainIdx, hp, if_true, plainNames, hx, List.length_cons, List.zip_cons_cons,
        List.mem_cons]
      refine ⟨by rw [ih.1], ?_⟩
      rintro z (rfl | hz)
      · refine ⟨by simpa [rename] using hal.head.1, hxc, hV x (by simp [varsOfL, varsOf])⟩
      · exact ih.2 z hz
    · have hpn : plainNames cands (c :: cs) = plainNames cands cs := by
        cases c <;> simp_all [isPlain, plainNames]
      simp only [plainIdx, hp, Bool.false_eq_true, if_false, hpn]
      exact ih

/-! ### `match_children` finds the position-by-position pairing -/

/-- the k-th row of the table offers the k-th position, with a record that is a piece of the
renaming -/
def RowsC (V : List String) (ρ : String → String) : List Row → List Nat → Prop
  | [], [] => True
  | row :: t, j :: js => (∃ prs, (j, prs) ∈ row ∧ ∃ pr ∈ prs, Cons V ρ pr) ∧ RowsC V ρ t js
  | _, _ => False

theorem matchChildren_complete {cands V : List String} {ρ : String → String}
    (hρ : Renaming cands V ρ) {o : NaryOp} {plain : List String} {hasNonvar : Bool}
    {ds : List Expr} {urecs : List URec} :
    ∀ (table : List Row) (js : List Nat), RowsC V ρ table js →
    ∀ (urec : URec) (left : List Nat), Cons V ρ urec → (∀ j ∈ js, j ∈ left) → js.Nodup →
    (∀ urec', Cons V ρ urec' →
      ∃ r ∈ matchPlain cands o plain hasNonvar ds urecs urec' (finalLeft left js), Cons V ρ r) →
    ∃ r ∈ matchChildren cands o plain hasNonvar ds urecs table urec left, Cons V ρ r
  | [], [], _, urec, left, hc, _, _, hplain => by
    simpa [matchChildren, finalLeft] using hplain urec hc
  | row :: table, j :: js, hrows, urec, left, hc, hmem, hnd, hplain => by
    obtain ⟨⟨prs, hrow, pr, hpr, hcpr⟩, hrows'⟩ := hrows
    obtain ⟨cu, hunify, hccu⟩ := unify_cons hρ hcpr hc
    have hnd' := List.nodup_cons.1 hnd
    obtain ⟨r, hr, hcr⟩ := matchChildren_complete hρ table js hrows' cu (left.filter (· != j)) hccu
      (fun j' hj' => List.mem_filter.2 ⟨hmem j' (by simp [hj']), by
        have : j' ≠ j := fun e => hnd'.1 (e ▸ hj')
        simpa using this⟩)
      hnd'.2 (by simpa [finalLeft] using hplain)
    refine ⟨r, ?_, hcr⟩
    simp only [matchChildren, List.mem_flatMap]
    refine ⟨(j, prs), hrow, ?_⟩
    have hj : left.contains j = true := by simpa using hmem j (by simp)
    simp only [hj, if_true, List.mem_flatMap]
    exact ⟨cu, List.mem_filterMap.2 ⟨pr, hpr, hunify⟩, hr⟩
  | [], _ :: _, hrows, _, _, _, _, _, _ => by simp [RowsC] at hrows
  | _ :: _, [], hrows, _, _, _, _, _, _ => by simp [RowsC] at hrows

/-! ### the main induction -/

theorem renameL_eq_map (ρ : String → String) : ∀ cs : List Expr, renameL ρ cs = cs.map (rename ρ)
  | [] => rfl
  | c :: cs => by simp [renameL, renameL_eq_map ρ cs]

theorem aligned_renameL (ρ : String → String) (cs : List Expr) : Aligned ρ (renameL ρ cs) cs 0 := by
  intro k c hk
  have hlt : k < cs.length := (List.getElem?_eq_some_iff.1 hk).1
  have hc : cs[k] = c := (List.getElem?_eq_some_iff.1 hk).2
  simp [renameL_eq_map, List.getD_eq_getElem?_getD, hlt, hc]

theorem isTuple1_rename (ρ : String → String) (i : Expr) : isTuple1 (rename ρ i) = isTuple1 i := by
  cases i with
  | tuple cs =>
    match cs with
    | [] => rfl
    | [_] => rfl
    | _ :: _ :: _ => rfl
  | _ => rfl

theorem constOk_pyEq {c : Const} (h : constOkPattern c = true) :
    (Expr.const c).pyEq (.const c) = true := by
  cases c <;> simp [constOkPattern] at h <;> simp [Expr.pyEq, Const.pyEq, Const.numVal?]

section
variable {cands V : List String} {ρ : String → String} (hρ : Renaming cands V ρ)
include hρ

theorem mapVariable_complete {x : String} (hxV : x ∈ V) {urecs : List URec}
    (hu : ∃ u ∈ urecs, Cons V ρ u) :
    ∃ r ∈ mapVariable cands x (.var (ρ x)) urecs, Cons V ρ r := by
  obtain ⟨u, hu', hcu⟩ := hu
  by_cases hx : x ∈ cands
  · have hn : Cons V ρ ⟨[(x, .var (ρ x))], [(ρ x, .var x)]⟩ := by
      constructor
      · intro p hp; simp only [List.mem_singleton] at hp; subst hp; exact ⟨hxV, rfl⟩
      · intro p hp; simp only [List.mem_singleton] at hp; subst hp; exact ⟨x, hxV, rfl, rfl⟩
    obtain ⟨r, hr, hcr⟩ := unify_cons hρ hcu hn
    refine ⟨r, ?_, hcr⟩
    simp only [mapVariable, recFromEq_var hx]
    exact mem_unifyMany.2 ⟨u, hu', hr⟩
  · refine ⟨u, ?_, hcu⟩
    have hfix := hρ.fix x hxV hx
    simp [mapVariable, recFromEq, hx, hfix, hu']

mutual
theorem unifyE_complete : ∀ (p : Expr) (urecs : List URec), patC p = true →
    (∀ x ∈ varsOf p, x ∈ V) → (∃ u ∈ urecs, Cons V ρ u) →
    ∃ r ∈ unifyE cands p (rename ρ p) urecs, Cons V ρ r
  | .const c, urecs, hp, _, hu => by
      obtain ⟨u, hu', hcu⟩ := hu
      simp only [patC] at hp
      exact ⟨u, by simp [unifyE, rename, constOk_pyEq hp, hu'], hcu⟩
  | .var x, urecs, _, hV, hu => by
      simp only [unifyE, rename]
      exact mapVariable_complete hρ (hV x (by simp [varsOf])) hu
  | .bin o a b, urecs, hp, hV, hu => by
      simp only [patC, Bool.and_eq_true] at hp
      simp only [unifyE, rename, if_true]
      exact unifyE_complete a _ hp.1 (fun x hx => hV x (by simp [varsOf, hx]))
        (unifyE_complete b urecs hp.2 (fun x hx => hV x (by simp [varsOf, hx])) hu)
  | .cmp o a b, urecs, hp, hV, hu => by
      simp only [patC, Bool.and_eq_true] at hp
      simp only [unifyE, rename, if_true]
      exact unifyE_complete a _ hp.1 (fun x hx => hV x (by simp [varsOf, hx]))
        (unifyE_complete b urecs hp.2 (fun x hx => hV x (by simp [varsOf, hx])) hu)
  | .un o a, urecs, hp, hV, hu => by
      simp only [patC] at hp
      simp only [unifyE, rename, if_true]
      exact unifyE_complete a urecs hp (fun x hx => hV x (by simpa [varsOf] using hx)) hu
  | .lookup a n, urecs, hp, hV, hu => by
      simp only [patC] at hp
      simp only [unifyE, rename, if_true]
      exact unifyE_complete a urecs hp (fun x hx => hV x (by simpa [varsOf] using hx)) hu
  | .ite c t e, urecs, hp, hV, hu => by
      simp only [patC, Bool.and_eq_true] at hp
      simp only [unifyE, rename]
      exact unifyE_complete c _ hp.1.1 (fun x hx => hV x (by simp [varsOf, hx]))
        (unifyE_complete t _ hp.1.2 (fun x hx => hV x (by simp [varsOf, hx]))
          (unifyE_complete e urecs hp.2 (fun x hx => hV x (by simp [varsOf, hx])) hu))
  | .call f as, urecs, hp, hV, hu => by
      simp only [patC, Bool.and_eq_true] at hp
      simp only [unifyE, rename]
      exact unifyE_complete f _ hp.1 (fun x hx => hV x (by simp [varsOf, hx]))
        (unifyL_complete as urecs hp.2 (fun x hx => hV x (by simp [varsOf, hx])) hu)
  | .tuple cs, urecs, hp, hV, hu => by
      simp only [patC] at hp
      simp only [unifyE, rename]
      exact unifyL_complete cs urecs hp (fun x hx => hV x (by simpa [varsOf] using hx)) hu
  | .subscript a i, urecs, hp, hV, hu => by
      simp only [patC, Bool.and_eq_true] at hp
      have hVa : ∀ x ∈ varsOf a, x ∈ V := fun x hx => hV x (by simp [varsOf, hx])
      have hVi : ∀ x ∈ varsOf i, x ∈ V := fun x hx => hV x (by simp [varsOf, hx])
      have ihi := unifyE_complete i urecs hp.2 hVi hu
      by_cases hi : isTuple1 i = true
      · obtain ⟨i1, hi1⟩ := isTuple1_iff.1 hi
        -- the 1-tuple against its renamed copy is the element against its renamed copy
        have hmid : ∃ r ∈ unifyE cands i1 (rename ρ i1) urecs, Cons V ρ r := by
          obtain ⟨r, hr, hcr⟩ := ihi
          rw [hi1] at hr
          simp only [rename, renameL, unifyE, unifyL] at hr
          split at hr
          · simp at hr
          · exact ⟨r, hr, hcr⟩
        have := unifyE_complete a _ hp.1 hVa hmid
        simpa [hi1, rename, renameL, unifyE, unpackIndex] using this
      · simp only [Bool.not_eq_true] at hi
        simp only [rename]
        rw [unifyE_subscript hi]
        simp only
        rw [unpackIndex_of_not_tuple1 (by rw [isTuple1_rename]; exact hi)]
        exact unifyE_complete a _ hp.1 hVa ihi
  | .nary o cs, urecs, hp, hV, hu => by
      simp only [patC, Bool.and_eq_true, Bool.or_eq_true, beq_iff_eq] at hp
      have hac : isAC o := hp.1
      simp only [unifyE, rename]
      rw [if_pos (by rcases hp.1 with h | h <;> simp [h])]
      have hVL : ∀ x ∈ varsOfL cs, x ∈ V := fun x hx => hV x (by simpa [varsOf] using hx)
      have hal := aligned_renameL ρ cs
      have hlen : (renameL ρ cs).length = cs.length := by simp [renameL_eq_map]
      have hrows := candTable_complete cs (renameL ρ cs) 0 urecs hp.2 hVL hal hu
      have hsub := nonvarIdx_sublist cands cs 0
      refine matchChildren_complete hρ _ _ hrows URec.empty _ (cons_empty V ρ) ?_ ?_ ?_
      · intro j hj
        rw [hlen, List.range_eq_range']
        exact hsub.subset hj
      · exact (List.nodup_range' (s := 0) (n := cs.length)).sublist hsub
      · intro urec' hc'
        have hfl : finalLeft (List.range (renameL ρ cs).length) (nonvarIdx cands cs 0)
            = plainIdx cands cs 0 := by
          have := finalLeft_spec cands cs 0 [] (by simp)
          rw [hlen, List.range_eq_range']
          simpa using this
        rw [hfl]
        obtain ⟨hl, hz⟩ := plainIdx_spec (cands := cands) (V := V) cs 0 hal hVL
        exact matchPlain_complete hρ hac hc' hu hl
          ((List.nodup_range' (s := 0) (n := cs.length)).sublist (plainIdx_sublist cands cs 0)) hz
  | .callKw .., _, hp, _, _ => by simp [patC] at hp
  | .cse .., _, hp, _, _ => by simp [patC] at hp
  | .subst .., _, hp, _, _ => by simp [patC] at hp
  | .deriv .., _, hp, _, _ => by simp [patC] at hp
  | .slice .., _, hp, _, _ => by simp [patC] at hp
  | .nan, _, hp, _, _ => by simp [patC] at hp
  | .wildcard, _, hp, _, _ => by simp [patC] at hp
  | .dotWild .., _, hp, _, _ => by simp [patC] at hp
  | .starWild .., _, hp, _, _ => by simp [patC] at hp
  | .funcSym, _, hp, _, _ => by simp [patC] at hp
  | .list .., _, hp, _, _ => by simp [patC] at hp
theorem unifyL_complete : ∀ (ps : List Expr) (urecs : List URec), patCL ps = true →
    (∀ x ∈ varsOfL ps, x ∈ V) → (∃ u ∈ urecs, Cons V ρ u) →
    ∃ r ∈ unifyL cands ps (renameL ρ ps) urecs, Cons V ρ r
  | [], urecs, _, _, hu => by simpa [unifyL, renameL] using hu
  | c :: cs, urecs, hp, hV, hu => by
      simp only [patCL, Bool.and_eq_true] at hp
      have h1 := unifyE_complete c urecs hp.1 (fun x hx => hV x (by simp [varsOfL, hx])) hu
      have h2 := unifyL_complete cs _ hp.2 (fun x hx => hV x (by simp [varsOfL, hx])) h1
      simp only [unifyL, renameL]
      split
      · rename_i hemp
        obtain ⟨r, hr, _⟩ := h1
        rw [List.isEmpty_iff.1 hemp] at hr; simp at hr
      · exact h2
theorem candTable_complete : ∀ (cs ds : List Expr) (off : Nat) (urecs : List URec),
    patCL cs = true → (∀ x ∈ varsOfL cs, x ∈ V) → Aligned ρ ds cs off →
    (∃ u ∈ urecs, Cons V ρ u) →
    RowsC V ρ (candTable cands cs ds urecs) (nonvarIdx cands cs off)
  | [], _, _, _, _, _, _, _ => by simp [candTable, nonvarIdx, RowsC]
  | c :: cs, ds, off, urecs, hp, hV, hal, hu => by
      simp only [patCL, Bool.and_eq_true] at hp
      have ih := candTable_complete cs ds (off + 1) urecs hp.2
        (fun x hx => hV x (by simp [varsOfL, hx])) hal.tail hu
      by_cases hpl : isPlain cands c = true
      · simp only [candTable, nonvarIdx, hpl, if_true]
        exact ih
      · simp only [candTable, nonvarIdx, hpl, Bool.false_eq_true, if_false]
        refine ⟨?_, ih⟩
        obtain ⟨r, hr, hcr⟩ :=
          unifyE_complete c urecs hp.1 (fun x hx => hV x (by simp [varsOfL, hx])) hu
        obtain ⟨hd, hlt⟩ := hal.head
        refine ⟨unifyE cands c (ds.getD off zero) urecs, ?_, r, by rw [hd]; exact hr, hcr⟩
        refine List.mem_filterMap.2 ⟨off, List.mem_range.2 hlt, ?_⟩
        have hne : (unifyE cands c (ds.getD off zero) urecs).isEmpty = false := by
          rw [hd]; cases h : unifyE cands c (rename ρ c) urecs with
          | nil => rw [h] at hr; simp at hr
          | cons _ _ => rfl
        simp only [hne, Bool.false_eq_true, if_false]
end
end

end PV.Unify
