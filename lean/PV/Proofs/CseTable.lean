import PV.Model.CseTable
import PV.Proofs.WalkTable
/-
  C12 (T-gen) — the hand-written common-subexpression models against the table-driven reading of
  the source (PV/Model/CseTable.lean).

  `c12KeyHand`, `c12CountHand`, `c12MapHand`, `c12TagAllHand`, `c12CtorHand`, `c12WrapHand`,
  `c12MakeHand`, `c12HistHand`, `c12TagHand` are the tables the models of PV/Model/Cse.lean and
  PV/Model/CseTagger.lean were written against; `c12CountBody`, `c12MapBody`, `c12HistBody`,
  `c12TagBody` state, per constructor of `Expr`, the handler body that runs.  This file proves —
  for ALL expressions, dictionaries, tables of canonical wrappers, prefixes and scopes, by case
  analysis on the constructor — that the models are exactly the table interpreters run on these
  tables, and the only functions that are.  That the tables ARE what extract/cse.py regenerates
  from the current source is the `…_current` family in PV/Properties/C12Table.lean.
-/
set_option linter.unusedSimpArgs false
set_option linter.unusedVariables false
namespace PV

/-! ### the tables the models were written against -/

def c12KeyHand : C12KeyTable :=
  { commClasses := ["Product", "Sum"], field := "children", start := 0, step := 1,
    withType := true, items := true, elseExpr := true }

def c12CtorHand : C12CtorTable :=
  { fields := ["child", "prefix", "scope"], scopeDefault := "pymbolic_eval",
    noneScopeBecomes := some "pymbolic_eval" }

def c12WrapHand : C12WTree :=
  .ite (.isInst ["Subscript", "Variable"]) .same
    (.ite (.isInst ["CommonSubexpression"])
      (.ite (.argNone "prefix") .same
        (.ite (.and (.fieldNone "prefix") (.exact "CommonSubexpression"))
          (.mk (.field "child") (.arg "prefix") .omitted) .same))
      (.mk .self (.arg "prefix") .omitted))

def c12MakeHand : C12WTree :=
  .ite (.and (.isInst ["CommonSubexpression"])
      (.or (.argNone "scope") (.or (.argEq "scope" "pymbolic_eval") (.fieldEqArg "scope" "scope"))))
    .same
    (.ite .isMultiVector .componentwise
      (.ite .isObjArray .componentwise
        (.ite .isConstant .same (.mk .self (.arg "prefix") (.arg "scope")))))

/-! ### `NormalizedKeyGetter` -/

theorem c12KidAddT_hand (c : Expr) : ∀ acc, c12KidAddT 0 1 c acc = kidCountAdd c acc
  | [] => rfl
  | (k, n) :: rest => by simp [c12KidAddT, kidCountAdd, c12KidAddT_hand c rest]

theorem c12KidFromT_hand : ∀ cs acc, c12KidFromT 0 1 acc cs = kidCountFrom acc cs
  | [], _ => rfl
  | c :: cs, acc => by simp [c12KidFromT, kidCountFrom, c12KidAddT_hand, c12KidFromT_hand cs]

/-- **`normalizedKey` is the key the table describes**, for every node. -/
theorem normalizedKey_eq_table (e : Expr) : c12KeyT c12KeyHand e = some (normalizedKey e) := by
  cases e with
  | const k => cases k <;> rfl
  | nary o cs =>
    cases o <;> simp [c12KeyT, c12KeyHand, Expr.kind, NaryOp.name, normalizedKey, Expr.c04Field,
      Expr.c04Fields, c04Assoc, c12KidFromT_hand, kidCount]
  | bin o a b => cases o <;> rfl
  | un o a => cases o <;> rfl
  | _ => rfl

/-! ### the wrapping helpers -/

/-- **`wrapInCse` is the decision tree of `wrap_in_cse`**, for every node and prefix. -/
theorem wrapInCse_eq_table (e : Expr) (p : Option String) :
    c12WTreeT c12CtorHand e [("prefix", p)] c12WrapHand = some (wrapInCse e p) := by
  cases e with
  | const k => cases k <;> rfl
  | nary o cs => cases o <;> rfl
  | bin o a b => cases o <;> rfl
  | un o a => cases o <;> rfl
  | cse c q s => cases p <;> cases q <;> rfl
  | _ => rfl

/-- **`makeCse` is the decision tree of `make_common_subexpression`** on scalar fields. -/
theorem makeCse_eq_table (e : Expr) (p sc : Option String) :
    c12WTreeT c12CtorHand e [("prefix", p), ("scope", sc)] c12MakeHand = some (makeCse e p sc) := by
  cases e with
  | const k => cases k <;> cases sc <;> rfl
  | nary o cs => cases o <;> cases sc <;> rfl
  | bin o a b => cases o <;> cases sc <;> rfl
  | un o a => cases o <;> cases sc <;> rfl
  | cse c q s =>
    cases sc with
    | none => rfl
    | some t =>
      simp only [c12WTreeT, c12MakeHand, c12CondT, Expr.kind, c04Assoc, Expr.c12StrField, makeCse,
        List.contains_cons, List.contains_nil, beq_self_eq_true, Bool.or_false, Bool.true_or,
        String.reduceBEq, ↓reduceIte, Option.map_some, Option.isNone_some, Option.isNone,
        Bool.false_eq_true, Bool.false_or, evalScope, Expr.isConstant]
      by_cases h1 : t = "pymbolic_eval"
      · subst h1; simp
      · have e1 : (t == "pymbolic_eval") = false := by simpa using h1
        by_cases h2 : s = t
        · subst h2; simp [e1]
        · have e2 : (s == t) = false := by simpa using h2
          have h3 : ¬ t = s := fun h => h2 h.symm
          simp [e1, e2, h1, h2, h3, c12WArgT, c04Assoc, c12MkCse, c12CtorHand, Expr.isConstant]
  | _ => cases sc <;> rfl

/-! ### `UseCountMapper` -/

def c12VisitHand : C12Prog := .getKey (.ifIn (.incr 1 (.ret false)) (.assign 1 (.ret true)))

def c12CseProgHand : C12Prog :=
  .getKey (.ifIn (.incr 1 .done) (.recur ⟨"child", .one, false⟩ (.assign 1 .done)))

def c12CountHand : C12CountTable :=
  { cls := "UseCountMapper", base := "WalkMapper", dictAttr := "subexpr_counts",
    keyAttr := some "get_key", visit := c12VisitHand,
    overrides := [("map_common_subexpression", c12CseProgHand)] }

/-- the key getter the model uses, as the interpreters take it -/
def c12KeyH : Expr → Option CKey := fun e => some (normalizedKey e)

/-- the handler body `useCount` was written from, per node: the override for wrappers, the
`WalkMapper` row (`c04WalkBody`, tied to the source by C04) otherwise -/
def c12CountBody : Expr → Except DepErr C12CBody
  | .cse _ _ _ => .ok (.override c12CseProgHand)
  | e => match c04WalkBody e with
    | .ok b => .ok (.inherited b)
    | .error err => .error err

theorem c12Lift_ok {α : Type} (a : α) : c12Lift (.ok a : Except CseErr α) = .ok a := rfl
theorem c12Lift_pure {α : Type} (a : α) : c12Lift (pure a : Except CseErr α) = .ok a := rfl
theorem c12Lift_error {α : Type} (e : CseErr) :
    c12Lift (.error e : Except CseErr α) = .error (c12Err e) := rfl
theorem c12Lift_throw {α : Type} (e : CseErr) :
    c12Lift (throw e : Except CseErr α) = .error (c12Err e) := rfl

theorem c12Lift_bind {α β : Type} (x : Except CseErr α) (f : α → Except CseErr β) :
    c12Lift (x >>= f) = c12Lift x >>= fun a => c12Lift (f a) := by
  cases x <;> rfl

theorem c12_ok_bind {ε α β : Type} (a : α) (f : α → Except ε β) : (Except.ok a >>= f) = f a := rfl
theorem c12_error_bind {ε α β : Type} (e : ε) (f : α → Except ε β) :
    ((Except.error e : Except ε α) >>= f) = Except.error e := rfl

theorem c12CountSeqL_cons (rec : Expr → Counts → Except DepErr Counts) (x : Expr) (xs : List Expr)
    (c : Counts) : c12CountSeqL rec (x :: xs) c = rec x c >>= fun c1 => c12CountSeqL rec xs c1 := by
  simp only [c12CountSeqL]; cases rec x c <;> rfl

theorem c12CountSeqL_nil (rec : Expr → Counts → Except DepErr Counts) (c : Counts) :
    c12CountSeqL rec [] c = pure c := rfl

theorem c12CountSites_cons (rec : Expr → Counts → Except DepErr Counts) (e : Expr) (r : C04Rec)
    (rs : List C04Rec) (c : Counts) :
    c12CountSites rec e (r :: rs) c =
      (match c04RecChildren e r with
       | none => .error .unsupported
       | some cs => c12CountSeqL rec cs c >>= fun c1 => c12CountSites rec e rs c1) := by
  simp only [c12CountSites]
  cases c04RecChildren e r with
  | none => rfl
  | some cs => simp only []; cases c12CountSeqL rec cs c <;> rfl

theorem c12CountSites_nil (rec : Expr → Counts → Except DepErr Counts) (e : Expr) (c : Counts) :
    c12CountSites rec e [] c = pure c := rfl

theorem c12IncrBy_one (k : CKey) : ∀ c : Counts, c12IncrBy k 1 c = c.incr k
  | [] => rfl
  | (k', m) :: rest => by simp [c12IncrBy, Counts.incr, c12IncrBy_one k rest]

theorem Counts.set_of_find_none (k : CKey) (n : Nat) :
    ∀ c : Counts, c.find k = none → c.set k n = c ++ [(k, n)]
  | [], _ => rfl
  | (k', m) :: rest, h => by
    simp only [Counts.find] at h
    by_cases hk : k'.eq k = true
    · simp [hk] at h
    · simp only [hk, Bool.false_eq_true, ↓reduceIte] at h
      simp [Counts.set, hk, Counts.set_of_find_none k n rest h]

/-- `UseCountMapper.visit` as a program is `ucVisit` -/
theorem c12RunProg_visit (rec : Expr → Counts → Except DepErr Counts) (e : Expr) (c : Counts) :
    c12RunProg c12KeyH rec e c12VisitHand none c =
      (match c12Lift (ucVisit e c) with
       | .ok (go, c1) => .ok (some go, c1)
       | .error err => .error err) := by
  simp only [c12VisitHand, c12RunProg, c12KeyH, ucVisit]
  by_cases hl : e.hasList = true
  · cases normalizedKey e <;> simp [hl, c12Lift_throw, c12Err, c12RunProg]
  · cases hk : normalizedKey e <;>
      simp only [hl, Bool.false_eq_true, ↓reduceIte, c12RunProg] <;>
      (cases hf : c.find _ with
        | none => simp [hf, c12RunProg, c12Lift_pure, Counts.set_of_find_none _ _ _ hf, hk]
        | some v => simp [hf, c12RunProg, c12Lift_pure, c12IncrBy_one, hk])

/-- `useCount`, read in the table world -/
def c12UC : Expr → Counts → Except DepErr Counts := fun x s => c12Lift (useCount x s)

theorem useCountL_eq_seqL : ∀ (cs : List Expr) (c : Counts),
    c12CountSeqL c12UC cs c = c12Lift (useCountL cs c)
  | [], c => rfl
  | x :: xs, c => by
    simp only [c12CountSeqL_cons, useCountL, c12Lift_bind, useCountL_eq_seqL xs]; rfl

theorem useCountSlice_cons (x : Expr) (xs : List Expr) (c : Counts) :
    useCountSlice (x :: xs) c =
      if x.c04IsNone then useCountSlice xs c
      else (do let c1 ← useCount x c; useCountSlice xs c1) := by
  cases x with
  | const k => cases k <;> simp [useCountSlice, Expr.c04IsNone]
  | _ => simp [useCountSlice, Expr.c04IsNone]

theorem useCountSlice_eq_seqL : ∀ (cs : List Expr) (c : Counts),
    c12CountSeqL c12UC (cs.filter (fun x => !x.c04IsNone)) c = c12Lift (useCountSlice cs c)
  | [], c => rfl
  | x :: xs, c => by
    rw [useCountSlice_cons, List.filter_cons]
    by_cases hn : x.c04IsNone = true
    · simp only [hn, Bool.not_true, Bool.false_eq_true, ↓reduceIte]
      exact useCountSlice_eq_seqL xs c
    · have hn' : x.c04IsNone = false := by simpa using hn
      simp only [hn', Bool.not_false, ↓reduceIte, c12CountSeqL_cons, c12Lift_bind,
        Bool.false_eq_true, useCountSlice_eq_seqL xs]; rfl

/-- a guarded `WalkMapper` row under `UseCountMapper.visit` -/
theorem c12CountStepB_guard (vf pf post : Bool) (recs : List C04Rec)
    (rec : Expr → Counts → Except DepErr Counts) (e : Expr) (c : Counts) :
    c12CountStepB c12KeyH c12VisitHand (.ok (.inherited (.walk .guard vf recs post pf))) rec e c =
      c12Lift (ucVisit e c) >>= fun p => if p.1 then c12CountSites rec e recs p.2 else pure p.2 := by
  simp only [c12CountStepB, c12RunProg_visit]
  cases h : c12Lift (ucVisit e c) with
  | error err => rfl
  | ok p => obtain ⟨go, c1⟩ := p; cases go <;> simp [c12_ok_bind] <;> rfl

/-- a leaf row: `visit` (its answer ignored), no children -/
theorem c12CountStepB_leaf (vf pf post : Bool)
    (rec : Expr → Counts → Except DepErr Counts) (e : Expr) (c : Counts) :
    c12CountStepB c12KeyH c12VisitHand (.ok (.inherited (.walk .plain vf [] post pf))) rec e c =
      c12Lift (ucLeaf e c) := by
  simp only [c12CountStepB, c12RunProg_visit, ucLeaf, c12Lift_bind, c12CountSites]
  cases h : ucVisit e c with
  | error err => rfl
  | ok p => obtain ⟨go, c1⟩ := p; rfl

macro "c12_count_guard" : tactic =>
  `(tactic| (simp only [c12CountBody, c04WalkBody, c12CountStepB_guard, useCount, c12Lift_bind];
             congr 1; funext p; obtain ⟨go, c1⟩ := p; cases go <;>
             simp only [↓reduceIte, Bool.false_eq_true, c12Lift_pure, c12CountSites_cons,
               c12CountSites_nil, c12CountSeqL_cons, c12CountSeqL_nil, c04RecChildren,
               Expr.c04Field, Expr.c04Fields, c04Assoc, String.reduceBEq, useCountL_eq_seqL,
               useCountSlice_eq_seqL, c12Lift_bind, bind_pure, bind_assoc, pure_bind] <;>
             rfl))

/-- **`useCount` solves the table-driven equations**: a call of `useCount` on any node and
dictionary is one handler call of the body `c12CountBody` gives for the node (the class's
override, else the `WalkMapper` row under the class's `visit`), recursing through `useCount`. -/
theorem useCount_eq_stepB (e : Expr) (c : Counts) :
    c12Lift (useCount e c) = c12CountStepB c12KeyH c12VisitHand (c12CountBody e) c12UC e c := by
  cases e with
  | const k =>
    cases k <;> simp only [c12CountBody, c04WalkBody, c12CountStepB_leaf, useCount] <;> rfl
  | var x => simp only [c12CountBody, c04WalkBody, c12CountStepB_leaf, useCount]
  | wildcard => simp only [c12CountBody, c04WalkBody, c12CountStepB_leaf, useCount]
  | dotWild n => simp only [c12CountBody, c04WalkBody, c12CountStepB_leaf, useCount]
  | starWild n => simp only [c12CountBody, c04WalkBody, c12CountStepB_leaf, useCount]
  | funcSym => simp only [c12CountBody, c04WalkBody, c12CountStepB_leaf, useCount]
  | nan => simp only [c12CountBody, c04WalkBody, c12CountStepB_leaf, useCount]
  | nary o cs => c12_count_guard
  | bin o a b => cases o <;> c12_count_guard
  | un o a => c12_count_guard
  | cmp o a b => c12_count_guard
  | ite a b d => c12_count_guard
  | call f as => c12_count_guard
  | callKw f as ns vs => c12_count_guard
  | subscript a i => c12_count_guard
  | lookup a n => c12_count_guard
  | subst a vs xs => c12_count_guard
  | deriv a vs => c12_count_guard
  | slice cs =>
    simp only [c12CountBody, c04WalkBody, c12CountStepB_guard, useCount, c12Lift_bind]
    congr 1; funext p; obtain ⟨go, c1⟩ := p
    cases go <;>
      simp only [↓reduceIte, Bool.false_eq_true, c12Lift_pure, c12CountSites_cons,
        c12CountSites_nil, c04RecChildren, Expr.c04Field, Expr.c04Fields, c04Assoc,
        String.reduceBEq, useCountSlice_eq_seqL, bind_pure] <;> rfl
  | tuple cs => c12_count_guard
  | list cs => c12_count_guard
  | cse a p s =>
    simp only [c12CountBody, c12CountStepB, c12CseProgHand, c12RunProg, c12KeyH, normalizedKey,
      useCount, Expr.hasList, c04RecChildren, Expr.c04Field, Expr.c04Fields, c04Assoc,
      String.reduceBEq, ↓reduceIte, c12CountSeqL]
    by_cases hl : a.hasList = true
    · simp [hl, c12Lift_throw, c12Err]
    · simp only [hl, Bool.false_eq_true, ↓reduceIte]
      cases hf : c.find (.plain (.cse a p s)) with
      | some v => simp [c12Lift_pure, c12IncrBy_one]
      | none =>
        simp only [c12UC, c12Lift_bind]
        cases useCount a c with
        | error err => rfl
        | ok c1 => simp [c12_ok_bind, c12Lift_ok, c12Lift_pure]

/-! #### the counting equations have one solution -/

theorem c12CountSeqL_congr {f g : Expr → Counts → Except DepErr Counts} :
    ∀ {cs : List Expr} (c : Counts), (∀ x ∈ cs, ∀ s, f x s = g x s) →
      c12CountSeqL f cs c = c12CountSeqL g cs c
  | [], _, _ => rfl
  | x :: xs, c, h => by
    simp only [c12CountSeqL, h x (by simp)]
    cases g x c with
    | error err => rfl
    | ok c1 => exact c12CountSeqL_congr c1 (fun y hy => h y (List.mem_cons_of_mem _ hy))

theorem c12CountSites_congr {f g : Expr → Counts → Except DepErr Counts} {e : Expr}
    (h : ∀ x ∈ e.children, ∀ s, f x s = g x s) :
    ∀ (recs : List C04Rec) (c : Counts), c12CountSites f e recs c = c12CountSites g e recs c
  | [], _ => rfl
  | r :: rs, c => by
    simp only [c12CountSites]
    cases hr : c04RecChildren e r with
    | none => rfl
    | some cs =>
      simp only [c12CountSeqL_congr c (fun x hx => h x (c04RecChildren_sub hr x hx))]
      cases c12CountSeqL g cs c with
      | error err => rfl
      | ok c1 => exact c12CountSites_congr h rs c1

theorem c12RunProg_congr {key : Expr → Option CKey} {f g : Expr → Counts → Except DepErr Counts}
    {e : Expr} (h : ∀ x ∈ e.children, ∀ s, f x s = g x s) :
    ∀ (p : C12Prog) (ky : Option CKey) (c : Counts),
      c12RunProg key f e p ky c = c12RunProg key g e p ky c := by
  intro p
  induction p with
  | done => intro ky c; rfl
  | ret b => intro ky c; rfl
  | getKey k ih =>
    intro ky c
    simp only [c12RunProg]
    split <;> simp only [ih]
  | keyIsExpr k ih => intro ky c; simp only [c12RunProg, ih]
  | ifIn t f' iht ihf =>
    intro ky c
    cases ky with
    | none => rfl
    | some k => simp only [c12RunProg, iht, ihf]
  | incr n k ih =>
    intro ky c
    cases ky with
    | none => rfl
    | some k' => simp only [c12RunProg, ih]
  | assign n k ih =>
    intro ky c
    cases ky with
    | none => rfl
    | some k' => simp only [c12RunProg, ih]
  | getPlus d n k ih =>
    intro ky c
    cases ky with
    | none => rfl
    | some k' => simp only [c12RunProg, ih]
  | recur site k ih =>
    intro ky c
    simp only [c12RunProg]
    cases hr : c04RecChildren e site with
    | none => rfl
    | some cs =>
      simp only [c12CountSeqL_congr c (fun x hx => h x (c04RecChildren_sub hr x hx)), ih]

theorem c12CountStepB_congr {key : Expr → Option CKey} {visit : C12Prog}
    {body : Except DepErr C12CBody} {f g : Expr → Counts → Except DepErr Counts} {e : Expr}
    (h : ∀ x ∈ e.children, ∀ s, f x s = g x s) (c : Counts) :
    c12CountStepB key visit body f e c = c12CountStepB key visit body g e c := by
  unfold c12CountStepB
  split
  · rfl
  · simp only [c12RunProg_congr h]
  · split <;> simp only [c12RunProg_congr h, c12CountSites_congr h]
  · rfl

/-- **The table-driven counting equations have one solution.**  Whatever the key getter, the
`visit` program and the handler bodies are: two functions that both run one handler call per node
and recurse through themselves agree on every tree and dictionary. -/
theorem c12Count_unique (key : Expr → Option CKey) (visit : C12Prog)
    (body : Expr → Except DepErr C12CBody) (f g : Expr → Counts → Except DepErr Counts)
    (hf : ∀ e c, f e c = c12CountStepB key visit (body e) f e c)
    (hg : ∀ e c, g e c = c12CountStepB key visit (body e) g e c) : ∀ e c, f e c = g e c := by
  intro e
  induction e using children_induct with
  | step e ih =>
    intro c
    rw [hf, hg]
    exact c12CountStepB_congr ih c

/-- a step function iterated `n` times from the everywhere-failing function -/
def c12Iter {α β : Type} (step : (Expr → α → β) → Expr → α → β) (bot : Expr → α → β) :
    Nat → Expr → α → β
  | 0 => bot
  | n + 1 => step (c12Iter step bot n)

/-- a solution of `f = step f`, where `step` consults its argument on direct children only, is
what `size` iterations of `step` compute -/
theorem c12Iter_eq {α β : Type} (step : (Expr → α → β) → Expr → α → β) (bot : Expr → α → β)
    (congr : ∀ (f g : Expr → α → β) (e : Expr), (∀ x ∈ e.children, ∀ s, f x s = g x s) →
      ∀ s, step f e s = step g e s)
    (f : Expr → α → β) (hf : ∀ e s, f e s = step f e s) :
    ∀ (n : Nat) (e : Expr), e.size ≤ n → ∀ s, c12Iter step bot n e s = f e s
  | 0, e, h => by have := Expr.size_pos e; omega
  | n + 1, e, h => by
    intro s
    rw [hf]
    exact congr _ _ e (fun x hx s' => c12Iter_eq step bot congr f hf n x
      (by have := Expr.size_lt_of_mem_children hx; omega) s') s

theorem c12CountFuel_eq_iter (classes : List C04NodeClass) (walk : List C04Handler)
    (K : C12KeyTable) (T : C12CountTable) : ∀ n,
    c12CountFuel classes walk K T n =
      c12Iter (c12CountStep classes walk K T) (fun _ _ => .error .unsupported) n
  | 0 => by funext e c; rfl
  | n + 1 => by
    funext e c
    simp only [c12CountFuel, c12Iter, c12CountFuel_eq_iter classes walk K T n]

/-- a solution of the one-step equations of the tables IS the table-driven walk `c12CountT` -/
theorem c12CountT_eq (classes : List C04NodeClass) (walk : List C04Handler) (K : C12KeyTable)
    (T : C12CountTable) (f : Expr → Counts → Except DepErr Counts)
    (hf : ∀ e c, f e c = c12CountStep classes walk K T f e c) (e : Expr) (c : Counts) :
    c12CountT classes walk K T e c = f e c := by
  unfold c12CountT
  rw [c12CountFuel_eq_iter]
  exact c12Iter_eq (c12CountStep classes walk K T) _
    (fun f g e h s => by unfold c12CountStep; exact c12CountStepB_congr h s) f hf e.size e
    (Nat.le_refl _) c

/-! ### `CSEWalkMapper` (pymbolic/mapper/cse_tagger.py) -/

def c12HistVisitHand : C12Prog := .keyIsExpr (.getPlus 0 1 (.ret true))

def c12HistHand : C12CountTable :=
  { cls := "CSEWalkMapper", base := "WalkMapper", dictAttr := "subexpr_histogram",
    keyAttr := none, visit := c12HistVisitHand, overrides := [] }

/-- the handler body `c12HistWalk` was written from: always the `WalkMapper` row -/
def c12HistBody (e : Expr) : Except DepErr C12CBody :=
  match c04WalkBody e with
  | .ok b => .ok (.inherited b)
  | .error err => .error err

def c12HW : Expr → Counts → Except DepErr Counts := fun x s => c12Lift (c12HistWalk x s)

theorem c12RunProg_histVisit (key : Expr → Option CKey)
    (rec : Expr → Counts → Except DepErr Counts) (e : Expr) (c : Counts) :
    c12RunProg key rec e c12HistVisitHand none c =
      (match c12Lift (c12HistVisit e c) with
       | .ok c1 => .ok (some true, c1)
       | .error err => .error err) := by
  simp only [c12HistVisitHand, c12RunProg, c12HistVisit]
  by_cases hl : e.hasList = true
  · simp [hl, c12Lift_throw, c12Err]
  · simp [hl, c12Lift_pure]

theorem c12HistStepB_guard (key : Expr → Option CKey) (vf pf post : Bool) (recs : List C04Rec)
    (rec : Expr → Counts → Except DepErr Counts) (e : Expr) (c : Counts) :
    c12CountStepB key c12HistVisitHand (.ok (.inherited (.walk .guard vf recs post pf))) rec e c =
      c12Lift (c12HistVisit e c) >>= fun c1 => c12CountSites rec e recs c1 := by
  simp only [c12CountStepB, c12RunProg_histVisit]
  cases h : c12Lift (c12HistVisit e c) with
  | error err => rfl
  | ok c1 => simp [c12_ok_bind]

theorem c12HistStepB_leaf (key : Expr → Option CKey) (vf pf post : Bool)
    (rec : Expr → Counts → Except DepErr Counts) (e : Expr) (c : Counts) :
    c12CountStepB key c12HistVisitHand (.ok (.inherited (.walk .plain vf [] post pf))) rec e c =
      c12Lift (c12HistVisit e c) := by
  simp only [c12CountStepB, c12RunProg_histVisit, c12CountSites]
  cases h : c12Lift (c12HistVisit e c) <;> rfl

theorem c12HistWalkL_eq_seqL : ∀ (cs : List Expr) (c : Counts),
    c12CountSeqL c12HW cs c = c12Lift (c12HistWalkL cs c)
  | [], c => rfl
  | x :: xs, c => by
    simp only [c12CountSeqL_cons, c12HistWalkL, c12Lift_bind, c12HistWalkL_eq_seqL xs]; rfl

theorem c12HistWalkSlice_cons (x : Expr) (xs : List Expr) (c : Counts) :
    c12HistWalkSlice (x :: xs) c =
      if x.c04IsNone then c12HistWalkSlice xs c
      else (do let c1 ← c12HistWalk x c; c12HistWalkSlice xs c1) := by
  cases x with
  | const k => cases k <;> simp [c12HistWalkSlice, Expr.c04IsNone]
  | _ => simp [c12HistWalkSlice, Expr.c04IsNone]

theorem c12HistWalkSlice_eq_seqL : ∀ (cs : List Expr) (c : Counts),
    c12CountSeqL c12HW (cs.filter (fun x => !x.c04IsNone)) c = c12Lift (c12HistWalkSlice cs c)
  | [], c => rfl
  | x :: xs, c => by
    rw [c12HistWalkSlice_cons, List.filter_cons]
    by_cases hn : x.c04IsNone = true
    · simp only [hn, Bool.not_true, Bool.false_eq_true, ↓reduceIte]
      exact c12HistWalkSlice_eq_seqL xs c
    · have hn' : x.c04IsNone = false := by simpa using hn
      simp only [hn', Bool.not_false, ↓reduceIte, c12CountSeqL_cons, c12Lift_bind,
        Bool.false_eq_true, c12HistWalkSlice_eq_seqL xs]; rfl

macro "c12_hist_guard" : tactic =>
  `(tactic| (simp only [c12HistBody, c04WalkBody, c12HistStepB_guard, c12HistWalk, c12Lift_bind];
             congr 1; funext c1;
             simp only [↓reduceIte, Bool.false_eq_true, c12CountSites_cons,
               c12CountSites_nil, c12CountSeqL_cons, c12CountSeqL_nil, c04RecChildren,
               Expr.c04Field, Expr.c04Fields, c04Assoc, String.reduceBEq, c12HistWalkL_eq_seqL,
               c12Lift_bind, bind_pure, bind_assoc, pure_bind] <;>
             rfl))

/-- **`c12HistWalk` solves the table-driven equations** of `CSEWalkMapper`. -/
theorem histWalk_eq_stepB (key : Expr → Option CKey) (e : Expr) (c : Counts) :
    c12Lift (c12HistWalk e c) = c12CountStepB key c12HistVisitHand (c12HistBody e) c12HW e c := by
  cases e with
  | const k =>
    cases k <;> simp only [c12HistBody, c04WalkBody, c12HistStepB_leaf, c12HistWalk] <;> rfl
  | var x => simp only [c12HistBody, c04WalkBody, c12HistStepB_leaf, c12HistWalk]
  | wildcard => simp only [c12HistBody, c04WalkBody, c12HistStepB_leaf, c12HistWalk]
  | dotWild n => simp only [c12HistBody, c04WalkBody, c12HistStepB_leaf, c12HistWalk]
  | starWild n => simp only [c12HistBody, c04WalkBody, c12HistStepB_leaf, c12HistWalk]
  | funcSym => simp only [c12HistBody, c04WalkBody, c12HistStepB_leaf, c12HistWalk]
  | nan => simp only [c12HistBody, c04WalkBody, c12HistStepB_leaf, c12HistWalk]
  | nary o cs => c12_hist_guard
  | bin o a b => cases o <;> c12_hist_guard
  | un o a => c12_hist_guard
  | cmp o a b => c12_hist_guard
  | ite a b d => c12_hist_guard
  | call f as => c12_hist_guard
  | callKw f as ns vs => c12_hist_guard
  | subscript a i => c12_hist_guard
  | lookup a n => c12_hist_guard
  | cse a p s => c12_hist_guard
  | subst a vs xs => c12_hist_guard
  | deriv a vs => c12_hist_guard
  | slice cs =>
    simp only [c12HistBody, c04WalkBody, c12HistStepB_guard, c12HistWalk, c12Lift_bind]
    congr 1; funext c1
    simp only [↓reduceIte, Bool.false_eq_true, c12CountSites_cons, c12CountSites_nil,
      c04RecChildren, Expr.c04Field,
      Expr.c04Fields, c04Assoc, String.reduceBEq, c12HistWalkSlice_eq_seqL, bind_pure]
  | tuple cs => c12_hist_guard
  | list cs => c12_hist_guard

/-! ### rebuilding mappers: one `IdentityMapper` row, the table of wrappers threaded through -/

/-- the node rebuilt from its mapped children, children taken in `IdentityMapper` order (what
every inherited handler of `CSEMapper` / `CSETagMapper` does, wrappers apart) -/
def c12CoreD (rec : C12Rec) : Expr → Tbl → Except DepErr (Expr × Tbl)
  | .nary o cs, T => c12MapSeqM rec cs T >>= fun p => pure (.nary o p.1, p.2)
  | .bin o a b, T => rec a T >>= fun p => rec b p.2 >>= fun q => pure (.bin o p.1 q.1, q.2)
  | .un o a, T => rec a T >>= fun p => pure (.un o p.1, p.2)
  | .cmp o a b, T => rec a T >>= fun p => rec b p.2 >>= fun q => pure (.cmp o p.1 q.1, q.2)
  | .ite c t e, T =>
      rec c T >>= fun p => rec t p.2 >>= fun q => rec e q.2 >>= fun r => pure (.ite p.1 q.1 r.1, r.2)
  | .call f as, T => rec f T >>= fun p => c12MapSeqM rec as p.2 >>= fun q => pure (.call p.1 q.1, q.2)
  | .callKw f as ns vs, T =>
      rec f T >>= fun p => c12MapSeqM rec as p.2 >>= fun q => c12MapSeqM rec vs q.2 >>= fun r =>
        pure (.callKw p.1 q.1 ns r.1, r.2)
  | .subscript a i, T => rec a T >>= fun p => rec i p.2 >>= fun q => pure (.subscript p.1 q.1, q.2)
  | .lookup a n, T => rec a T >>= fun p => pure (.lookup p.1 n, p.2)
  | .cse c pf s, T =>
      rec c T >>= fun p => if p.1.isZero then pure (zero, p.2) else pure (.cse p.1 pf s, p.2)
  | .subst c vs xs, T =>
      rec c T >>= fun p => c12MapSeqM rec xs p.2 >>= fun q => pure (.subst p.1 vs q.1, q.2)
  | .deriv c vs, T => rec c T >>= fun p => pure (.deriv p.1 vs, p.2)
  | .slice cs, T => c12MapSeqNotNoneM rec cs T >>= fun p => pure (.slice p.1, p.2)
  | .tuple cs, T => c12MapSeqM rec cs T >>= fun p => pure (.tuple p.1, p.2)
  | .list cs, T => c12MapSeqM rec cs T >>= fun p => pure (.list p.1, p.2)
  | e, T => pure (e, T)

/-- **one inherited `IdentityMapper` row**, run with the table threaded through, rebuilds the
node from its mapped children in field order (a wrapper whose mapped child is zero collapses) -/
theorem c12RebuildM_ident (rec : C12Rec) (e : Expr) (b : C04Body) (T : Tbl)
    (h : c04IdentBody e = .ok b) : c12RebuildM rec e b T = c12CoreD rec e T := by
  cases e with
  | const k =>
    cases k <;> simp only [c04IdentBody, Except.ok.injEq, reduceCtorEq] at h <;> subst h <;> rfl
  | var x => simp only [c04IdentBody, Except.ok.injEq] at h; subst h; rfl
  | wildcard => simp only [c04IdentBody, Except.ok.injEq] at h; subst h; rfl
  | dotWild n => simp only [c04IdentBody, Except.ok.injEq] at h; subst h; rfl
  | starWild n => simp only [c04IdentBody, Except.ok.injEq] at h; subst h; rfl
  | funcSym => simp only [c04IdentBody, Except.ok.injEq] at h; subst h; rfl
  | nan => simp only [c04IdentBody, Except.ok.injEq] at h; subst h; rfl
  | nary o cs =>
    simp only [c04IdentBody, Except.ok.injEq] at h; subst h
    simp only [c12RebuildM, c12MapRecsM, c12MapRecM, Expr.c04Field, Expr.c04Fields, c04Assoc,
      String.reduceBEq, ↓reduceIte, Bool.false_eq_true, c12CoreD, bind, Except.bind]
    cases h1 : c12MapSeqM rec cs T with
    | error err => rfl
    | ok p1 =>
      obtain ⟨x1, T1⟩ := p1
      try dsimp only
      rfl
  | un o a =>
    simp only [c04IdentBody, Except.ok.injEq] at h; subst h
    simp only [c12RebuildM, c12MapRecsM, c12MapRecM, Expr.c04Field, Expr.c04Fields, c04Assoc,
      String.reduceBEq, ↓reduceIte, Bool.false_eq_true, c12CoreD, bind, Except.bind]
    cases h1 : rec a T with
    | error err => rfl
    | ok p1 =>
      obtain ⟨x1, T1⟩ := p1
      try dsimp only
      rfl
  | cmp o a b =>
    simp only [c04IdentBody, Except.ok.injEq] at h; subst h
    simp only [c12RebuildM, c12MapRecsM, c12MapRecM, Expr.c04Field, Expr.c04Fields, c04Assoc,
      String.reduceBEq, ↓reduceIte, Bool.false_eq_true, c12CoreD, bind, Except.bind]
    cases h1 : rec a T with
    | error err => rfl
    | ok p1 =>
      obtain ⟨x1, T1⟩ := p1
      try dsimp only
      cases h2 : rec b T1 with
      | error err => rfl
      | ok p2 =>
        obtain ⟨x2, T2⟩ := p2
        try dsimp only
        rfl
  | ite a b d =>
    simp only [c04IdentBody, Except.ok.injEq] at h; subst h
    simp only [c12RebuildM, c12MapRecsM, c12MapRecM, Expr.c04Field, Expr.c04Fields, c04Assoc,
      String.reduceBEq, ↓reduceIte, Bool.false_eq_true, c12CoreD, bind, Except.bind]
    cases h1 : rec a T with
    | error err => rfl
    | ok p1 =>
      obtain ⟨x1, T1⟩ := p1
      try dsimp only
      cases h2 : rec b T1 with
      | error err => rfl
      | ok p2 =>
        obtain ⟨x2, T2⟩ := p2
        try dsimp only
        cases h3 : rec d T2 with
        | error err => rfl
        | ok p3 =>
          obtain ⟨x3, T3⟩ := p3
          try dsimp only
          rfl
  | call f as =>
    simp only [c04IdentBody, Except.ok.injEq] at h; subst h
    simp only [c12RebuildM, c12MapRecsM, c12MapRecM, Expr.c04Field, Expr.c04Fields, c04Assoc,
      String.reduceBEq, ↓reduceIte, Bool.false_eq_true, c12CoreD, bind, Except.bind]
    cases h1 : rec f T with
    | error err => rfl
    | ok p1 =>
      obtain ⟨x1, T1⟩ := p1
      try dsimp only
      cases h2 : c12MapSeqM rec as T1 with
      | error err => rfl
      | ok p2 =>
        obtain ⟨x2, T2⟩ := p2
        try dsimp only
        rfl
  | callKw f as ns vs =>
    simp only [c04IdentBody, Except.ok.injEq] at h; subst h
    simp only [c12RebuildM, c12MapRecsM, c12MapRecM, Expr.c04Field, Expr.c04Fields, c04Assoc,
      String.reduceBEq, ↓reduceIte, Bool.false_eq_true, c12CoreD, bind, Except.bind]
    cases h1 : rec f T with
    | error err => rfl
    | ok p1 =>
      obtain ⟨x1, T1⟩ := p1
      try dsimp only
      cases h2 : c12MapSeqM rec as T1 with
      | error err => rfl
      | ok p2 =>
        obtain ⟨x2, T2⟩ := p2
        try dsimp only
        cases h3 : c12MapSeqM rec vs T2 with
        | error err => rfl
        | ok p3 =>
          obtain ⟨x3, T3⟩ := p3
          try dsimp only
          rfl
  | subscript a i =>
    simp only [c04IdentBody, Except.ok.injEq] at h; subst h
    simp only [c12RebuildM, c12MapRecsM, c12MapRecM, Expr.c04Field, Expr.c04Fields, c04Assoc,
      String.reduceBEq, ↓reduceIte, Bool.false_eq_true, c12CoreD, bind, Except.bind]
    cases h1 : rec a T with
    | error err => rfl
    | ok p1 =>
      obtain ⟨x1, T1⟩ := p1
      try dsimp only
      cases h2 : rec i T1 with
      | error err => rfl
      | ok p2 =>
        obtain ⟨x2, T2⟩ := p2
        try dsimp only
        rfl
  | lookup a n =>
    simp only [c04IdentBody, Except.ok.injEq] at h; subst h
    simp only [c12RebuildM, c12MapRecsM, c12MapRecM, Expr.c04Field, Expr.c04Fields, c04Assoc,
      String.reduceBEq, ↓reduceIte, Bool.false_eq_true, c12CoreD, bind, Except.bind]
    cases h1 : rec a T with
    | error err => rfl
    | ok p1 =>
      obtain ⟨x1, T1⟩ := p1
      try dsimp only
      rfl
  | subst a vs xs =>
    simp only [c04IdentBody, Except.ok.injEq] at h; subst h
    simp only [c12RebuildM, c12MapRecsM, c12MapRecM, Expr.c04Field, Expr.c04Fields, c04Assoc,
      String.reduceBEq, ↓reduceIte, Bool.false_eq_true, c12CoreD, bind, Except.bind]
    cases h1 : rec a T with
    | error err => rfl
    | ok p1 =>
      obtain ⟨x1, T1⟩ := p1
      try dsimp only
      cases h2 : c12MapSeqM rec xs T1 with
      | error err => rfl
      | ok p2 =>
        obtain ⟨x2, T2⟩ := p2
        try dsimp only
        rfl
  | deriv a vs =>
    simp only [c04IdentBody, Except.ok.injEq] at h; subst h
    simp only [c12RebuildM, c12MapRecsM, c12MapRecM, Expr.c04Field, Expr.c04Fields, c04Assoc,
      String.reduceBEq, ↓reduceIte, Bool.false_eq_true, c12CoreD, bind, Except.bind]
    cases h1 : rec a T with
    | error err => rfl
    | ok p1 =>
      obtain ⟨x1, T1⟩ := p1
      try dsimp only
      rfl
  | slice cs =>
    simp only [c04IdentBody, Except.ok.injEq] at h; subst h
    simp only [c12RebuildM, c12MapRecsM, c12MapRecM, Expr.c04Field, Expr.c04Fields, c04Assoc,
      String.reduceBEq, ↓reduceIte, Bool.false_eq_true, c12CoreD, bind, Except.bind]
    cases h1 : c12MapSeqNotNoneM rec cs T with
    | error err => rfl
    | ok p1 =>
      obtain ⟨x1, T1⟩ := p1
      try dsimp only
      rfl
  | tuple cs =>
    simp only [c04IdentBody, Except.ok.injEq] at h; subst h
    simp only [c12RebuildM, c12MapRecsM, c12MapRecM, Expr.c04Field, Expr.c04Fields, c04Assoc,
      String.reduceBEq, ↓reduceIte, Bool.false_eq_true, c12CoreD, bind, Except.bind]
    cases h1 : c12MapSeqM rec cs T with
    | error err => rfl
    | ok p1 =>
      obtain ⟨x1, T1⟩ := p1
      try dsimp only
      rfl
  | list cs =>
    simp only [c04IdentBody, Except.ok.injEq] at h; subst h
    simp only [c12RebuildM, c12MapRecsM, c12MapRecM, Expr.c04Field, Expr.c04Fields, c04Assoc,
      String.reduceBEq, ↓reduceIte, Bool.false_eq_true, c12CoreD, bind, Except.bind]
    cases h1 : c12MapSeqM rec cs T with
    | error err => rfl
    | ok p1 =>
      obtain ⟨x1, T1⟩ := p1
      try dsimp only
      rfl
  | bin o a b =>
    cases o <;> (
    simp only [c04IdentBody, Except.ok.injEq] at h; subst h
    simp only [c12RebuildM, c12MapRecsM, c12MapRecM, Expr.c04Field, Expr.c04Fields, c04Assoc,
      String.reduceBEq, ↓reduceIte, Bool.false_eq_true, c12CoreD, bind, Except.bind]
    cases h1 : rec a T with
    | error err => rfl
    | ok p1 =>
      obtain ⟨x1, T1⟩ := p1
      try dsimp only
      cases h2 : rec b T1 with
      | error err => rfl
      | ok p2 =>
        obtain ⟨x2, T2⟩ := p2
        try dsimp only
        rfl)
  | cse a pf s =>
    simp only [c04IdentBody, Except.ok.injEq] at h; subst h
    simp only [c12RebuildM, c12MapRecsM, c12MapRecM, Expr.c04Field, Expr.c04Fields, c04Assoc,
      String.reduceBEq, ↓reduceIte, Bool.false_eq_true, c12CoreD, bind, Except.bind]
    cases h1 : rec a T with
    | error err => rfl
    | ok p1 =>
      obtain ⟨x1, T1⟩ := p1
      try dsimp only
      by_cases hz : x1.isZero = true <;> simp [hz, c04Rebuild, c04ArgVal, c04Assoc, c04OptSeq, Expr.c04Construct, Expr.c04Field, Expr.c04Fields, pure, Except.pure]

/-! ### `CSEMapper` -/

def c12KeyedHand : C12MBody := .keyed .getCse (.expr .identity)

def c12CseBodyHand : C12MBody :=
  .ifExact "CommonSubexpression" (.expr (.wrapCse (.recField "child") true))
    (.expr (.ctorSame (.unwrapExact (.recField "child") "CommonSubexpression") ["prefix"] true))

def c12SubstRowHand : C04Body :=
  .rebuild [⟨"values", .each, false⟩] false [] false
    (.sameClass [.copied "child", .copied "variables", .rebuilt "values"] false)

def c12GetCseHand : C12GetCse :=
  { keyDefaults := true, lookupFirst := true, fresh := .wrapCse .identity false, stores := true }

def c12MapHand : C12MapTable :=
  { cls := "CSEMapper", base := "IdentityMapper", keyAttr := some "get_key",
    elimAttr := some "to_eliminate", tableAttr := some "canonical_subexprs", histAttr := none,
    getCse := some c12GetCseHand,
    rows := [
      ⟨"map_call", "map_sum", c12KeyedHand⟩,
      ⟨"map_common_subexpression", "map_common_subexpression", c12CseBodyHand⟩,
      ⟨"map_floor_div", "map_sum", c12KeyedHand⟩,
      ⟨"map_power", "map_sum", c12KeyedHand⟩,
      ⟨"map_product", "map_sum", c12KeyedHand⟩,
      ⟨"map_quotient", "map_sum", c12KeyedHand⟩,
      ⟨"map_remainder", "map_sum", c12KeyedHand⟩,
      ⟨"map_substitution", "map_substitution", .rebuild c12SubstRowHand⟩,
      ⟨"map_sum", "map_sum", c12KeyedHand⟩] }

/-- the handler body `cseMap` was written from, per node -/
def c12MapBody (e : Expr) : Except DepErr C12MBodyR :=
  match e with
  | .cse _ _ _ => .ok (.own c12CseBodyHand)
  | .subst _ _ _ => .ok (.own (.rebuild c12SubstRowHand))
  | e =>
    if e.isCseOp then .ok (.own c12KeyedHand)
    else match c04IdentBody e with
      | .ok b => .ok (.inherited b)
      | .error err => .error err

/-- `getattr(IdentityMapper, expr.mapper_method)` per node: the `IdentityMapper` row of the node's
own class; constants and containers have no `mapper_method` -/
def c12IdentOwnHand : Expr → Except DepErr C04Body
  | .const _ => .error .unsupported
  | .tuple _ => .error .unsupported
  | .list _ => .error .unsupported
  | e => c04IdentBody e

/-- what the handlers of `CSEMapper` / `CSETagMapper` consult, as the models have it -/
def c12EnvHand (rec : C12Rec) (g : Option C12GetCse) : C12MEnv :=
  { keyOf := c12KeyH, wrap := fun r p => some (wrapInCse r p),
    mkCse := fun x => some (.cse x none evalScope), identOf := c12IdentOwnHand, getCse := g,
    recur := rec }

/-- `cseMap`, read in the table world -/
def c12CM (elim : List CKey) : C12Rec := fun x t => c12Lift (cseMap elim x t)

theorem c12CM_apply (elim : List CKey) (x : Expr) (T : Tbl) :
    c12CM elim x T = c12Lift (cseMap elim x T) := rfl

theorem cseMapL_eq_seqM (elim : List CKey) : ∀ (cs : List Expr) (T : Tbl),
    c12MapSeqM (c12CM elim) cs T = c12Lift (cseMapL elim cs T)
  | [], T => rfl
  | x :: xs, T => by
    simp only [c12MapSeqM, cseMapL, c12CM_apply, bind, Except.bind]
    cases h : cseMap elim x T with
    | error err => rfl
    | ok p =>
      obtain ⟨x', T1⟩ := p
      have ih := cseMapL_eq_seqM elim xs T1
      simp only [c12Lift_ok, ih]
      cases cseMapL elim xs T1 with
      | error err => rfl
      | ok q => rfl

theorem cseMapSlice_cons (elim : List CKey) (x : Expr) (xs : List Expr) (T : Tbl) :
    cseMapSlice elim (x :: xs) T =
      if x.c04IsNone then (do let (cs', T1) ← cseMapSlice elim xs T; pure (x :: cs', T1))
      else (do
        let (c', T1) ← cseMap elim x T
        let (cs', T2) ← cseMapSlice elim xs T1
        pure (c' :: cs', T2)) := by
  cases x with
  | const k => cases k <;> simp [cseMapSlice, Expr.c04IsNone]
  | _ => simp [cseMapSlice, Expr.c04IsNone]

theorem cseMapSlice_eq_seqM (elim : List CKey) : ∀ (cs : List Expr) (T : Tbl),
    c12MapSeqNotNoneM (c12CM elim) cs T = c12Lift (cseMapSlice elim cs T)
  | [], T => rfl
  | x :: xs, T => by
    rw [cseMapSlice_cons]
    by_cases hn : x.c04IsNone = true
    · have ih := cseMapSlice_eq_seqM elim xs T
      simp only [c12MapSeqNotNoneM, hn, ↓reduceIte, ih, bind, Except.bind]
      cases cseMapSlice elim xs T with
      | error err => rfl
      | ok q => rfl
    · have hn' : x.c04IsNone = false := by simpa using hn
      simp only [c12MapSeqNotNoneM, hn', Bool.false_eq_true, ↓reduceIte, c12CM_apply, bind, Except.bind]
      cases h : cseMap elim x T with
      | error err => rfl
      | ok p =>
        obtain ⟨x', T1⟩ := p
        have ih := cseMapSlice_eq_seqM elim xs T1
        simp only [c12Lift_ok, ih]
        cases cseMapSlice elim xs T1 with
        | error err => rfl
        | ok q => rfl

/-- sums, products, …, bitwise / logical operators, quotients, powers, shifts, calls: the nodes
`cseMap` treats through `opMode` -/
def c12OpShape : Expr → Bool
  | .nary _ _ | .bin _ _ _ | .call _ _ => true
  | _ => false

/-- the other nodes, wrappers, substitutions and constants apart -/
def c12PlainShape : Expr → Bool
  | .nary _ _ | .bin _ _ _ | .call _ _ | .cse _ _ _ | .subst _ _ _ | .const _ => false
  | _ => true

/-- on the nodes whose handler `CSEMapper` inherits unchanged, `cseMap` rebuilds the node from its
mapped children -/
theorem cseMap_plain (elim : List CKey) (e : Expr) (T : Tbl) :
    c12PlainShape e = true →
    c12Lift (cseMap elim e T) = c12CoreD (c12CM elim) e T := by
  cases e with
  | const k => intro h; cases h
  | nary o cs => intro h; cases h
  | bin o a b => intro h; cases h
  | call f as => intro h; cases h
  | cse a p s => intro h; cases h
  | subst a vs xs => intro h; cases h
  | var x => intro _; rfl
  | wildcard => intro _; rfl
  | dotWild n => intro _; rfl
  | starWild n => intro _; rfl
  | funcSym => intro _; rfl
  | nan => intro _; rfl
  | un o a =>
    intro _
    simp only [cseMap, c12CoreD, cseMapL_eq_seqM, cseMapSlice_eq_seqM, c12CM_apply, bind, Except.bind]
    cases h1 : cseMap elim a T with
    | error err => rfl
    | ok p1 =>
      obtain ⟨x1, T1⟩ := p1
      try simp only [c12Lift_ok, c12Lift_error]
      rfl
  | cmp o a b =>
    intro _
    simp only [cseMap, c12CoreD, cseMapL_eq_seqM, cseMapSlice_eq_seqM, c12CM_apply, bind, Except.bind]
    cases h1 : cseMap elim a T with
    | error err => rfl
    | ok p1 =>
      obtain ⟨x1, T1⟩ := p1
      try simp only [c12Lift_ok, c12Lift_error]
      cases h2 : cseMap elim b T1 with
      | error err => rfl
      | ok p2 =>
        obtain ⟨x2, T2⟩ := p2
        try simp only [c12Lift_ok, c12Lift_error]
        rfl
  | ite a b d =>
    intro _
    simp only [cseMap, c12CoreD, cseMapL_eq_seqM, cseMapSlice_eq_seqM, c12CM_apply, bind, Except.bind]
    cases h1 : cseMap elim a T with
    | error err => rfl
    | ok p1 =>
      obtain ⟨x1, T1⟩ := p1
      try simp only [c12Lift_ok, c12Lift_error]
      cases h2 : cseMap elim b T1 with
      | error err => rfl
      | ok p2 =>
        obtain ⟨x2, T2⟩ := p2
        try simp only [c12Lift_ok, c12Lift_error]
        cases h3 : cseMap elim d T2 with
        | error err => rfl
        | ok p3 =>
          obtain ⟨x3, T3⟩ := p3
          try simp only [c12Lift_ok, c12Lift_error]
          rfl
  | callKw f as ns vs =>
    intro _
    simp only [cseMap, c12CoreD, cseMapL_eq_seqM, cseMapSlice_eq_seqM, c12CM_apply, bind, Except.bind]
    cases h1 : cseMap elim f T with
    | error err => rfl
    | ok p1 =>
      obtain ⟨x1, T1⟩ := p1
      try simp only [c12Lift_ok, c12Lift_error]
      cases h2 : cseMapL elim as T1 with
      | error err => rfl
      | ok p2 =>
        obtain ⟨x2, T2⟩ := p2
        try simp only [c12Lift_ok, c12Lift_error]
        cases h3 : cseMapL elim vs T2 with
        | error err => rfl
        | ok p3 =>
          obtain ⟨x3, T3⟩ := p3
          try simp only [c12Lift_ok, c12Lift_error]
          rfl
  | subscript a i =>
    intro _
    simp only [cseMap, c12CoreD, cseMapL_eq_seqM, cseMapSlice_eq_seqM, c12CM_apply, bind, Except.bind]
    cases h1 : cseMap elim a T with
    | error err => rfl
    | ok p1 =>
      obtain ⟨x1, T1⟩ := p1
      try simp only [c12Lift_ok, c12Lift_error]
      cases h2 : cseMap elim i T1 with
      | error err => rfl
      | ok p2 =>
        obtain ⟨x2, T2⟩ := p2
        try simp only [c12Lift_ok, c12Lift_error]
        rfl
  | lookup a n =>
    intro _
    simp only [cseMap, c12CoreD, cseMapL_eq_seqM, cseMapSlice_eq_seqM, c12CM_apply, bind, Except.bind]
    cases h1 : cseMap elim a T with
    | error err => rfl
    | ok p1 =>
      obtain ⟨x1, T1⟩ := p1
      try simp only [c12Lift_ok, c12Lift_error]
      rfl
  | deriv a vs =>
    intro _
    simp only [cseMap, c12CoreD, cseMapL_eq_seqM, cseMapSlice_eq_seqM, c12CM_apply, bind, Except.bind]
    cases h1 : cseMap elim a T with
    | error err => rfl
    | ok p1 =>
      obtain ⟨x1, T1⟩ := p1
      try simp only [c12Lift_ok, c12Lift_error]
      rfl
  | slice cs =>
    intro _
    simp only [cseMap, c12CoreD, cseMapL_eq_seqM, cseMapSlice_eq_seqM, c12CM_apply, bind, Except.bind]
    cases h1 : cseMapSlice elim cs T with
    | error err => rfl
    | ok p1 =>
      obtain ⟨x1, T1⟩ := p1
      try simp only [c12Lift_ok, c12Lift_error]
      rfl
  | tuple cs =>
    intro _
    simp only [cseMap, c12CoreD, cseMapL_eq_seqM, cseMapSlice_eq_seqM, c12CM_apply, bind, Except.bind]
    cases h1 : cseMapL elim cs T with
    | error err => rfl
    | ok p1 =>
      obtain ⟨x1, T1⟩ := p1
      try simp only [c12Lift_ok, c12Lift_error]
      rfl
  | list cs =>
    intro _
    simp only [cseMap, c12CoreD, cseMapL_eq_seqM, cseMapSlice_eq_seqM, c12CM_apply, bind, Except.bind]
    cases h1 : cseMapL elim cs T with
    | error err => rfl
    | ok p1 =>
      obtain ⟨x1, T1⟩ := p1
      try simp only [c12Lift_ok, c12Lift_error]
      rfl

/-- on sums, products, quotients, powers, calls, …: what `map_sum` decides first (`opMode`), then
the same rebuild, then `get_cse`'s bookkeeping (`finishOp`) -/
theorem cseMap_op (elim : List CKey) (e : Expr) (T : Tbl) :
    c12OpShape e = true →
    c12Lift (cseMap elim e T) =
      (match c12Lift (opMode elim T e) with
       | .error err => .error err
       | .ok (.hit w) => .ok (w, T)
       | .ok m =>
         match c12CoreD (c12CM elim) e T with
         | .error err => .error err
         | .ok p => .ok (finishOp m p.1 p.2)) := by
  cases e with
  | nary o cs =>
    intro _
    simp only [cseMap, c12CoreD, cseMapL_eq_seqM, c12CM_apply, bind, Except.bind]
    cases hm : opMode elim T (.nary o cs) with
    | error err => rfl
    | ok m =>
      cases m <;> try simp only [c12Lift_ok, c12Lift_error]
      · cases h1 : cseMapL elim cs T with
        | error err => rfl
        | ok p1 =>
          obtain ⟨x1, T1⟩ := p1
          try simp only [c12Lift_ok, c12Lift_error]
          rfl
      · rfl
      · cases h1 : cseMapL elim cs T with
        | error err => rfl
        | ok p1 =>
          obtain ⟨x1, T1⟩ := p1
          try simp only [c12Lift_ok, c12Lift_error]
          rfl
  | bin o a b =>
    intro _
    simp only [cseMap, c12CoreD, cseMapL_eq_seqM, c12CM_apply, bind, Except.bind]
    cases hm : opMode elim T (.bin o a b) with
    | error err => rfl
    | ok m =>
      cases m <;> try simp only [c12Lift_ok, c12Lift_error]
      · cases h1 : cseMap elim a T with
        | error err => rfl
        | ok p1 =>
          obtain ⟨x1, T1⟩ := p1
          try simp only [c12Lift_ok, c12Lift_error]
          cases h2 : cseMap elim b T1 with
          | error err => rfl
          | ok p2 =>
            obtain ⟨x2, T2⟩ := p2
            try simp only [c12Lift_ok, c12Lift_error]
            rfl
      · rfl
      · cases h1 : cseMap elim a T with
        | error err => rfl
        | ok p1 =>
          obtain ⟨x1, T1⟩ := p1
          try simp only [c12Lift_ok, c12Lift_error]
          cases h2 : cseMap elim b T1 with
          | error err => rfl
          | ok p2 =>
            obtain ⟨x2, T2⟩ := p2
            try simp only [c12Lift_ok, c12Lift_error]
            rfl
  | call f as =>
    intro _
    simp only [cseMap, c12CoreD, cseMapL_eq_seqM, c12CM_apply, bind, Except.bind]
    cases hm : opMode elim T (.call f as) with
    | error err => rfl
    | ok m =>
      cases m <;> try simp only [c12Lift_ok, c12Lift_error]
      · cases h1 : cseMap elim f T with
        | error err => rfl
        | ok p1 =>
          obtain ⟨x1, T1⟩ := p1
          try simp only [c12Lift_ok, c12Lift_error]
          cases h2 : cseMapL elim as T1 with
          | error err => rfl
          | ok p2 =>
            obtain ⟨x2, T2⟩ := p2
            try simp only [c12Lift_ok, c12Lift_error]
            rfl
      · rfl
      · cases h1 : cseMap elim f T with
        | error err => rfl
        | ok p1 =>
          obtain ⟨x1, T1⟩ := p1
          try simp only [c12Lift_ok, c12Lift_error]
          cases h2 : cseMapL elim as T1 with
          | error err => rfl
          | ok p2 =>
            obtain ⟨x2, T2⟩ := p2
            try simp only [c12Lift_ok, c12Lift_error]
            rfl
  | _ => intro h; cases h

/-- the handler `map_sum` (bound to seven node classes) with `get_cse`, in closed form -/
theorem c12MapStepB_keyed (rec : C12Rec) (elim : List CKey) (hist : Counts) (e : Expr) (T : Tbl)
    (b : C04Body) (hb : c12IdentOwnHand e = .ok b) (hi : c04IdentBody e = .ok b) :
    c12MapStepB (c12EnvHand rec (some c12GetCseHand)) elim hist (.ok (.own c12KeyedHand)) e T =
      if e.hasList then .error .unhashable
      else if inElim elim (normalizedKey e) then
        match T.find (normalizedKey e) with
        | some w => .ok (w, T)
        | none =>
          match c12CoreD rec e T with
          | .error err => .error err
          | .ok p => .ok (wrapInCse p.1 none, p.2.set (normalizedKey e) (wrapInCse p.1 none))
      else c12CoreD rec e T := by
  simp only [c12MapStepB, c12KeyedHand, c12EnvHand, c12KeyH, c12RetM, c12GetCseHand, c12EvalM, hb,
    ↓reduceIte, c12RebuildM_ident rec e b _ hi]
  by_cases hl : e.hasList = true
  · simp only [hl, ↓reduceIte]
  · simp only [hl, Bool.false_eq_true, ↓reduceIte]
    by_cases he : inElim elim (normalizedKey e) = true
    · simp only [he, ↓reduceIte]
      cases hf : T.find (normalizedKey e) with
      | some w => rfl
      | none =>
        simp only []
        cases c12CoreD rec e T with
        | error err => rfl
        | ok p => rfl
    · simp only [he, Bool.false_eq_true, ↓reduceIte]

theorem c12_isCseOp_ident (e : Expr) (hop : e.isCseOp = true) :
    ∃ b, c12IdentOwnHand e = .ok b ∧ c04IdentBody e = .ok b := by
  cases e <;> simp only [Expr.isCseOp, Bool.false_eq_true] at hop
  case nary o cs => exact ⟨_, rfl, rfl⟩
  case bin o a b => cases o <;> simp only [Expr.isCseOp, Bool.false_eq_true] at hop <;> exact ⟨_, rfl, rfl⟩
  case call f as => exact ⟨_, rfl, rfl⟩

theorem c12_isCseOp_shape (e : Expr) (hop : e.isCseOp = true) : c12OpShape e = true := by
  cases e <;> simp only [Expr.isCseOp, Bool.false_eq_true] at hop <;> rfl

/-- `cseMap` on a node whose handler is `CSEMapper.map_sum` -/
theorem cseMap_keyed (elim : List CKey) (hist : Counts) (e : Expr) (T : Tbl)
    (hop : e.isCseOp = true) :
    c12Lift (cseMap elim e T) =
      c12MapStepB (c12EnvHand (c12CM elim) (some c12GetCseHand)) elim hist
        (.ok (.own c12KeyedHand)) e T := by
  obtain ⟨b, hb, hi⟩ := c12_isCseOp_ident e hop
  rw [c12MapStepB_keyed _ elim hist e T b hb hi, cseMap_op elim e T (c12_isCseOp_shape e hop)]
  simp only [opMode, hop, ↓reduceIte]
  by_cases hl : e.hasList = true
  · simp only [hl, ↓reduceIte, c12Lift_throw, c12Err]
  · simp only [hl, Bool.false_eq_true, ↓reduceIte]
    by_cases he : inElim elim (normalizedKey e) = true
    · simp only [he, ↓reduceIte]
      cases hf : T.find (normalizedKey e) with
      | some w => rfl
      | none =>
        simp only [c12Lift_pure]
        cases c12CoreD (c12CM elim) e T with
        | error err => rfl
        | ok p => rfl
    · simp only [he, Bool.false_eq_true, ↓reduceIte, c12Lift_pure]
      cases c12CoreD (c12CM elim) e T with
      | error err => rfl
      | ok p => rfl

/-- `cseMap` on a sum-like node whose handler `CSEMapper` inherits (bitwise / logical operators,
`Min` / `Max`, shifts) -/
theorem cseMap_op_plain (elim : List CKey) (e : Expr) (T : Tbl)
    (hs : c12OpShape e = true) (hop : e.isCseOp = false) :
    c12Lift (cseMap elim e T) = c12CoreD (c12CM elim) e T := by
  rw [cseMap_op elim e T hs]
  simp only [opMode, hop, Bool.false_eq_true, ↓reduceIte, c12Lift_pure]
  cases c12CoreD (c12CM elim) e T with
  | error err => rfl
  | ok p => rfl

theorem c12MapStepB_inherited (env : C12MEnv) (elim : List CKey) (hist : Counts) (e : Expr)
    (T : Tbl) (body : Expr → Except DepErr C12MBodyR)
    (hm : body e = (match c04IdentBody e with
      | .ok b => .ok (.inherited b)
      | .error err => .error err))
    (hi : (match c04IdentBody e with
      | .ok _ => true
      | .error _ => false) = true) :
    c12MapStepB env elim hist (body e) e T = c12CoreD env.recur e T := by
  rw [hm]
  cases h : c04IdentBody e with
  | error err => simp [h] at hi
  | ok b =>
    simp only [c12MapStepB]
    exact c12RebuildM_ident _ e b T h

/-- **`cseMap` solves the table-driven equations**: a call of `cseMap` on any node, with any set
`to_eliminate` and any table of canonical wrappers, is one handler call of the body `c12MapBody`
gives for the node — `map_sum` with `get_cse`, the wrapper handler, `map_substitution`, else the
inherited `IdentityMapper` row — recursing through `cseMap`. -/
theorem cseMap_eq_stepB (elim : List CKey) (hist : Counts) (e : Expr) (T : Tbl) :
    c12Lift (cseMap elim e T) =
      c12MapStepB (c12EnvHand (c12CM elim) (some c12GetCseHand)) elim hist (c12MapBody e) e T := by
  cases e with
  | const k => cases k <;> rfl
  | var x => rfl
  | wildcard => rfl
  | dotWild n => rfl
  | starWild n => rfl
  | funcSym => rfl
  | nan => rfl
  | nary o cs =>
    cases o
    case sum => exact cseMap_keyed elim hist _ T rfl
    case prod => exact cseMap_keyed elim hist _ T rfl
    all_goals
      rw [cseMap_op_plain elim _ T rfl rfl]
      exact Eq.symm (c12MapStepB_inherited _ elim hist _ T c12MapBody (by rfl) (by rfl))
  | bin o a b =>
    cases o
    case lshift =>
      rw [cseMap_op_plain elim _ T rfl rfl]
      exact Eq.symm (c12MapStepB_inherited _ elim hist _ T c12MapBody (by rfl) (by rfl))
    case rshift =>
      rw [cseMap_op_plain elim _ T rfl rfl]
      exact Eq.symm (c12MapStepB_inherited _ elim hist _ T c12MapBody (by rfl) (by rfl))
    all_goals exact cseMap_keyed elim hist _ T rfl
  | call f as => exact cseMap_keyed elim hist _ T rfl
  | un o a =>
    rw [cseMap_plain elim _ T rfl]
    exact Eq.symm (c12MapStepB_inherited _ elim hist _ T c12MapBody (by rfl) (by rfl))
  | cmp o a b =>
    rw [cseMap_plain elim _ T rfl]
    exact Eq.symm (c12MapStepB_inherited _ elim hist _ T c12MapBody (by rfl) (by rfl))
  | ite a b d =>
    rw [cseMap_plain elim _ T rfl]
    exact Eq.symm (c12MapStepB_inherited _ elim hist _ T c12MapBody (by rfl) (by rfl))
  | callKw f as ns vs =>
    rw [cseMap_plain elim _ T rfl]
    exact Eq.symm (c12MapStepB_inherited _ elim hist _ T c12MapBody (by rfl) (by rfl))
  | subscript a i =>
    rw [cseMap_plain elim _ T rfl]
    exact Eq.symm (c12MapStepB_inherited _ elim hist _ T c12MapBody (by rfl) (by rfl))
  | lookup a n =>
    rw [cseMap_plain elim _ T rfl]
    exact Eq.symm (c12MapStepB_inherited _ elim hist _ T c12MapBody (by rfl) (by rfl))
  | deriv a vs =>
    rw [cseMap_plain elim _ T rfl]
    exact Eq.symm (c12MapStepB_inherited _ elim hist _ T c12MapBody (by rfl) (by rfl))
  | slice cs =>
    rw [cseMap_plain elim _ T rfl]
    exact Eq.symm (c12MapStepB_inherited _ elim hist _ T c12MapBody (by rfl) (by rfl))
  | tuple cs =>
    rw [cseMap_plain elim _ T rfl]
    exact Eq.symm (c12MapStepB_inherited _ elim hist _ T c12MapBody (by rfl) (by rfl))
  | list cs =>
    rw [cseMap_plain elim _ T rfl]
    exact Eq.symm (c12MapStepB_inherited _ elim hist _ T c12MapBody (by rfl) (by rfl))
  | cse a p s =>
    simp only [cseMap, c12MapBody, c12MapStepB, c12CseBodyHand, Expr.kind, beq_self_eq_true,
      ↓reduceIte, c12RetM, c12EvalM, Expr.c04Field, Expr.c04Fields, c04Assoc, String.reduceBEq,
      c12EnvHand, c12CM_apply, Expr.c12StrField, bind, Except.bind]
    cases cseMap elim a T with
    | error err => rfl
    | ok q => rfl
  | subst a vs xs =>
    simp only [cseMap, c12MapBody, c12MapStepB, c12SubstRowHand, c12RebuildM, c12MapRecsM,
      c12MapRecM, Expr.c04Field, Expr.c04Fields, c04Assoc, String.reduceBEq, ↓reduceIte,
      Bool.false_eq_true, c12EnvHand, cseMapL_eq_seqM, bind, Except.bind]
    cases cseMapL elim xs T with
    | error err => rfl
    | ok q => rfl

/-! #### the rebuilding equations have one solution -/

theorem c12MapSeqM_congr {f g : C12Rec} : ∀ {cs : List Expr} (T : Tbl),
    (∀ x ∈ cs, ∀ t, f x t = g x t) → c12MapSeqM f cs T = c12MapSeqM g cs T
  | [], _, _ => rfl
  | x :: xs, T, h => by
    simp only [c12MapSeqM, h x (by simp)]
    cases g x T with
    | error err => rfl
    | ok p =>
      obtain ⟨x', T1⟩ := p
      simp only [c12MapSeqM_congr T1 (fun y hy => h y (List.mem_cons_of_mem _ hy))]

theorem c12MapSeqNotNoneM_congr {f g : C12Rec} : ∀ {cs : List Expr} (T : Tbl),
    (∀ x ∈ cs, ∀ t, f x t = g x t) → c12MapSeqNotNoneM f cs T = c12MapSeqNotNoneM g cs T
  | [], _, _ => rfl
  | x :: xs, T, h => by
    have ih := fun T1 => c12MapSeqNotNoneM_congr (f := f) (g := g) (cs := xs) T1
      (fun y hy => h y (List.mem_cons_of_mem _ hy))
    simp only [c12MapSeqNotNoneM, h x (by simp), ih]

theorem c12MapRecM_congr {f g : C12Rec} {e : Expr} (h : ∀ x ∈ e.children, ∀ t, f x t = g x t)
    (r : C04Rec) (T : Tbl) : c12MapRecM f e r T = c12MapRecM g e r T := by
  unfold c12MapRecM
  cases hf : e.c04Field r.field with
  | none => rfl
  | some v =>
    have hsub := c04Field_exprs_sub hf
    cases v with
    | one c =>
      have : ∀ t, f c t = g c t := h c (hsub c (by simp [C04Val.exprs]))
      cases r.iter <;> simp [this]
    | many cs =>
      have h1 := c12MapSeqM_congr (f := f) (g := g) (cs := cs) T
        (fun c hc => h c (hsub c (by simpa [C04Val.exprs] using hc)))
      have h2 := c12MapSeqNotNoneM_congr (f := f) (g := g) (cs := cs) T
        (fun c hc => h c (hsub c (by simpa [C04Val.exprs] using hc)))
      cases r.iter <;> simp [h1, h2]
    | dict vs =>
      have h1 := c12MapSeqM_congr (f := f) (g := g) (cs := vs) T
        (fun c hc => h c (hsub c (by simpa [C04Val.exprs] using hc)))
      cases r.iter <;> simp [h1]
    | data => cases r.iter <;> rfl

theorem c12MapRecsM_congr {f g : C12Rec} {e : Expr} (h : ∀ x ∈ e.children, ∀ t, f x t = g x t) :
    ∀ (recs : List C04Rec) (T : Tbl), c12MapRecsM f e recs T = c12MapRecsM g e recs T
  | [], _ => rfl
  | r :: rs, T => by
    simp only [c12MapRecsM, c12MapRecM_congr h r T]
    cases c12MapRecM g e r T with
    | error err => rfl
    | ok p => obtain ⟨v, T1⟩ := p; simp only [c12MapRecsM_congr h rs T1]

theorem c12RebuildM_congr {f g : C12Rec} {e : Expr} (h : ∀ x ∈ e.children, ∀ t, f x t = g x t)
    (b : C04Body) (T : Tbl) : c12RebuildM f e b T = c12RebuildM g e b T := by
  unfold c12RebuildM
  split <;> try rfl
  rw [c12MapRecsM_congr h]

/-- the environment with another `rec` -/
def C12MEnv.withRec (env : C12MEnv) (r : C12Rec) : C12MEnv := { env with recur := r }

theorem c12EvalM_congr (env : C12MEnv) {f g : C12Rec} {e : Expr}
    (h : ∀ x ∈ e.children, ∀ t, f x t = g x t) :
    ∀ (a : C12MExpr) (T : Tbl), c12EvalM (env.withRec f) e a T = c12EvalM (env.withRec g) e a T := by
  intro a
  induction a with
  | identity =>
    intro T
    simp only [c12EvalM, C12MEnv.withRec]
    cases env.identOf e with
    | error err => rfl
    | ok b => exact c12RebuildM_congr h b T
  | wrapCse a wp ih => intro T; simp only [c12EvalM, ih]; rfl
  | recField fl =>
    intro T
    simp only [c12EvalM, C12MEnv.withRec]
    cases hf : e.c04Field fl with
    | none => rfl
    | some v =>
      cases v with
      | one c => exact h c (c04Field_exprs_sub hf c (by simp [C04Val.exprs])) T
      | _ => rfl
  | unwrapExact a cls ih => intro T; simp only [c12EvalM, ih]
  | ctorSame a cp ex ih => intro T; simp only [c12EvalM, ih]
  | newCse => intro T; rfl

theorem c12RetM_congr (env : C12MEnv) {f g : C12Rec} {e : Expr}
    (h : ∀ x ∈ e.children, ∀ t, f x t = g x t) (ky : Option CKey) (r : C12MRet) (T : Tbl) :
    c12RetM (env.withRec f) e ky r T = c12RetM (env.withRec g) e ky r T := by
  cases r with
  | expr a => exact c12EvalM_congr env h a T
  | getCse =>
    simp only [c12RetM, c12EvalM_congr env h]
    rfl

theorem c12MapStepB_congr (env : C12MEnv) {elim : List CKey} {hist : Counts}
    {body : Except DepErr C12MBodyR} {f g : C12Rec} {e : Expr}
    (h : ∀ x ∈ e.children, ∀ t, f x t = g x t) (T : Tbl) :
    c12MapStepB (env.withRec f) elim hist body e T =
      c12MapStepB (env.withRec g) elim hist body e T := by
  unfold c12MapStepB
  split
  · rfl
  · simp only [c12RetM_congr env h]; rfl
  · simp only [c12RetM_congr env h]
  · simp only [c12RetM_congr env h]
  · exact c12RebuildM_congr h _ T
  · exact c12RebuildM_congr h _ T

/-- **The table-driven rebuilding equations have one solution.** -/
theorem c12Map_unique (env : C12MEnv) (elim : List CKey) (hist : Counts)
    (body : Expr → Except DepErr C12MBodyR) (f g : C12Rec)
    (hf : ∀ e T, f e T = c12MapStepB (env.withRec f) elim hist (body e) e T)
    (hg : ∀ e T, g e T = c12MapStepB (env.withRec g) elim hist (body e) e T) :
    ∀ e T, f e T = g e T := by
  intro e
  induction e using children_induct with
  | step e ih =>
    intro T
    rw [hf, hg]
    exact c12MapStepB_congr env ih T

theorem c12MapFuel_eq_iter (classes : List C04NodeClass) (ident : List C04Handler)
    (K : C12KeyTable) (C : C12CtorTable) (W : C12WTree) (Tb : C12MapTable) (elim : List CKey)
    (hist : Counts) : ∀ n,
    c12MapFuel classes ident K C W Tb elim hist n =
      c12Iter (fun rec => c12MapStep classes ident K C W Tb elim hist rec)
        (fun _ _ => .error .unsupported) n
  | 0 => by funext e c; rfl
  | n + 1 => by
    funext e c
    simp only [c12MapFuel, c12Iter, c12MapFuel_eq_iter classes ident K C W Tb elim hist n]

/-- a solution of the one-step equations of the tables IS the table-driven mapper `c12MapT` -/
theorem c12MapT_eq (classes : List C04NodeClass) (ident : List C04Handler) (K : C12KeyTable)
    (C : C12CtorTable) (W : C12WTree) (Tb : C12MapTable) (elim : List CKey) (hist : Counts)
    (f : C12Rec) (hf : ∀ e T, f e T = c12MapStep classes ident K C W Tb elim hist f e T)
    (e : Expr) (T : Tbl) : c12MapT classes ident K C W Tb elim hist e T = f e T := by
  unfold c12MapT
  rw [c12MapFuel_eq_iter]
  exact c12Iter_eq (fun rec => c12MapStep classes ident K C W Tb elim hist rec) _
    (fun f g e h s => by
      unfold c12MapStep
      exact c12MapStepB_congr
        { keyOf := c12KeyT K, wrap := fun r p => c12WTreeT C r [("prefix", p)] W,
          mkCse := fun x => c12MkCse C x none none, identOf := c12IdentOwn classes ident,
          getCse := Tb.getCse, recur := f } h s)
    f hf e.size e (Nat.le_refl _) T

/-! ### `CSETagMapper` (pymbolic/mapper/cse_tagger.py) -/

def c12HistoHand : C12MBody := .histo 0 ⟨.gt, 1⟩ (.expr .newCse) (.expr .identity)

def c12TagHand : C12MapTable :=
  { cls := "CSETagMapper", base := "IdentityMapper", keyAttr := none, elimAttr := none,
    tableAttr := none, histAttr := some "subexpr_histogram", getCse := none,
    rows := [
      ⟨"map_bitwise_and", "map_call", c12HistoHand⟩, ⟨"map_bitwise_not", "map_call", c12HistoHand⟩,
      ⟨"map_bitwise_or", "map_call", c12HistoHand⟩, ⟨"map_bitwise_xor", "map_call", c12HistoHand⟩,
      ⟨"map_call", "map_call", c12HistoHand⟩, ⟨"map_comparison", "map_call", c12HistoHand⟩,
      ⟨"map_floor_div", "map_call", c12HistoHand⟩, ⟨"map_if", "map_call", c12HistoHand⟩,
      ⟨"map_if_positive", "map_call", c12HistoHand⟩, ⟨"map_left_shift", "map_call", c12HistoHand⟩,
      ⟨"map_logical_and", "map_call", c12HistoHand⟩, ⟨"map_logical_not", "map_call", c12HistoHand⟩,
      ⟨"map_logical_or", "map_call", c12HistoHand⟩, ⟨"map_polynomial", "map_call", c12HistoHand⟩,
      ⟨"map_power", "map_call", c12HistoHand⟩, ⟨"map_product", "map_call", c12HistoHand⟩,
      ⟨"map_quotient", "map_call", c12HistoHand⟩, ⟨"map_remainder", "map_call", c12HistoHand⟩,
      ⟨"map_right_shift", "map_call", c12HistoHand⟩, ⟨"map_sum", "map_call", c12HistoHand⟩] }

/-- the handler body `c12HistTag` was written from, per node -/
def c12TagBody (e : Expr) : Except DepErr C12MBodyR :=
  if e.isTagOp then .ok (.own c12HistoHand)
  else match c04IdentBody e with
    | .ok b => .ok (.inherited b)
    | .error err => .error err

/-- `c12HistTag`, read in the table world (the mapper has no table of wrappers: `T` is handed on) -/
def c12HT (hist : Counts) : C12Rec := fun x T =>
  match c12Lift (c12HistTag hist x) with
  | .ok r => .ok (r, T)
  | .error err => .error err

def c12HTL (hist : Counts) (cs : List Expr) (T : Tbl) : Except DepErr (List Expr × Tbl) :=
  match c12Lift (c12HistTagL hist cs) with
  | .ok r => .ok (r, T)
  | .error err => .error err

def c12HTS (hist : Counts) (cs : List Expr) (T : Tbl) : Except DepErr (List Expr × Tbl) :=
  match c12Lift (c12HistTagSlice hist cs) with
  | .ok r => .ok (r, T)
  | .error err => .error err

theorem c12HT_apply (hist : Counts) (x : Expr) (T : Tbl) :
    c12HT hist x T = (match c12Lift (c12HistTag hist x) with
      | .ok r => .ok (r, T)
      | .error err => .error err) := rfl

theorem histTagL_eq_seqM (hist : Counts) : ∀ (cs : List Expr) (T : Tbl),
    c12MapSeqM (c12HT hist) cs T = c12HTL hist cs T
  | [], T => rfl
  | x :: xs, T => by
    simp only [c12MapSeqM, c12HistTagL, c12HT_apply, c12HTL, histTagL_eq_seqM hist xs, bind,
      Except.bind]
    cases h : c12HistTag hist x with
    | error err => rfl
    | ok x' =>
      simp only [c12Lift_ok]
      cases c12HistTagL hist xs with
      | error err => rfl
      | ok q => rfl

theorem c12HistTagSlice_cons (hist : Counts) (x : Expr) (xs : List Expr) :
    c12HistTagSlice hist (x :: xs) =
      if x.c04IsNone then (do let cs' ← c12HistTagSlice hist xs; pure (x :: cs'))
      else (do
        let c' ← c12HistTag hist x
        let cs' ← c12HistTagSlice hist xs
        pure (c' :: cs')) := by
  cases x with
  | const k => cases k <;> simp [c12HistTagSlice, Expr.c04IsNone]
  | _ => simp [c12HistTagSlice, Expr.c04IsNone]

theorem histTagSlice_eq_seqM (hist : Counts) : ∀ (cs : List Expr) (T : Tbl),
    c12MapSeqNotNoneM (c12HT hist) cs T = c12HTS hist cs T
  | [], T => rfl
  | x :: xs, T => by
    have ih := histTagSlice_eq_seqM hist xs T
    simp only [c12HTS] at ih ⊢
    rw [c12HistTagSlice_cons]
    by_cases hn : x.c04IsNone = true
    · simp only [c12MapSeqNotNoneM, hn, ↓reduceIte, ih, bind, Except.bind]
      cases c12HistTagSlice hist xs with
      | error err => rfl
      | ok q => rfl
    · have hn' : x.c04IsNone = false := by simpa using hn
      simp only [c12MapSeqNotNoneM, hn', Bool.false_eq_true, ↓reduceIte, c12HT_apply, ih, bind,
        Except.bind]
      cases h : c12HistTag hist x with
      | error err => rfl
      | ok x' =>
        simp only [c12Lift_ok, ih]
        cases c12HistTagSlice hist xs with
        | error err => rfl
        | ok q => rfl

/-- the nodes `c12HistTag` treats through `c12TagMode` -/
def c12TagShape : Expr → Bool
  | .nary _ _ | .bin _ _ _ | .un _ _ | .cmp _ _ _ | .ite _ _ _ | .call _ _ => true
  | _ => false

/-- the other composite nodes -/
def c12TagPlainShape : Expr → Bool
  | .callKw _ _ _ _ | .subscript _ _ | .lookup _ _ | .cse _ _ _ | .subst _ _ _ | .deriv _ _
  | .slice _ | .tuple _ | .list _ => true
  | _ => false

theorem histTag_plain (hist : Counts) (e : Expr) (T : Tbl) :
    c12TagPlainShape e = true → c12HT hist e T = c12CoreD (c12HT hist) e T := by
  cases e with
  | callKw f as ns vs =>
    intro _
    simp only [c12HT_apply, c12HistTag, c12CoreD, histTagL_eq_seqM, histTagSlice_eq_seqM, c12HTL,
      c12HTS, bind, Except.bind]
    cases h1 : c12HistTag hist f with
    | error err => rfl
    | ok x1 =>
      try simp only [c12Lift_ok, c12Lift_error]
      cases h2 : c12HistTagL hist as with
      | error err => rfl
      | ok x2 =>
        try simp only [c12Lift_ok, c12Lift_error]
        cases h3 : c12HistTagL hist vs with
        | error err => rfl
        | ok x3 =>
          try simp only [c12Lift_ok, c12Lift_error]
          rfl
  | subscript a i =>
    intro _
    simp only [c12HT_apply, c12HistTag, c12CoreD, histTagL_eq_seqM, histTagSlice_eq_seqM, c12HTL,
      c12HTS, bind, Except.bind]
    cases h1 : c12HistTag hist a with
    | error err => rfl
    | ok x1 =>
      try simp only [c12Lift_ok, c12Lift_error]
      cases h2 : c12HistTag hist i with
      | error err => rfl
      | ok x2 =>
        try simp only [c12Lift_ok, c12Lift_error]
        rfl
  | lookup a n =>
    intro _
    simp only [c12HT_apply, c12HistTag, c12CoreD, histTagL_eq_seqM, histTagSlice_eq_seqM, c12HTL,
      c12HTS, bind, Except.bind]
    cases h1 : c12HistTag hist a with
    | error err => rfl
    | ok x1 =>
      try simp only [c12Lift_ok, c12Lift_error]
      rfl
  | subst a vs xs =>
    intro _
    simp only [c12HT_apply, c12HistTag, c12CoreD, histTagL_eq_seqM, histTagSlice_eq_seqM, c12HTL,
      c12HTS, bind, Except.bind]
    cases h1 : c12HistTag hist a with
    | error err => rfl
    | ok x1 =>
      try simp only [c12Lift_ok, c12Lift_error]
      cases h2 : c12HistTagL hist xs with
      | error err => rfl
      | ok x2 =>
        try simp only [c12Lift_ok, c12Lift_error]
        rfl
  | deriv a vs =>
    intro _
    simp only [c12HT_apply, c12HistTag, c12CoreD, histTagL_eq_seqM, histTagSlice_eq_seqM, c12HTL,
      c12HTS, bind, Except.bind]
    cases h1 : c12HistTag hist a with
    | error err => rfl
    | ok x1 =>
      try simp only [c12Lift_ok, c12Lift_error]
      rfl
  | slice cs =>
    intro _
    simp only [c12HT_apply, c12HistTag, c12CoreD, histTagL_eq_seqM, histTagSlice_eq_seqM, c12HTL,
      c12HTS, bind, Except.bind]
    cases h1 : c12HistTagSlice hist cs with
    | error err => rfl
    | ok x1 =>
      try simp only [c12Lift_ok, c12Lift_error]
      rfl
  | tuple cs =>
    intro _
    simp only [c12HT_apply, c12HistTag, c12CoreD, histTagL_eq_seqM, histTagSlice_eq_seqM, c12HTL,
      c12HTS, bind, Except.bind]
    cases h1 : c12HistTagL hist cs with
    | error err => rfl
    | ok x1 =>
      try simp only [c12Lift_ok, c12Lift_error]
      rfl
  | list cs =>
    intro _
    simp only [c12HT_apply, c12HistTag, c12CoreD, histTagL_eq_seqM, histTagSlice_eq_seqM, c12HTL,
      c12HTS, bind, Except.bind]
    cases h1 : c12HistTagL hist cs with
    | error err => rfl
    | ok x1 =>
      try simp only [c12Lift_ok, c12Lift_error]
      rfl
  | cse a pf s =>
    intro _
    simp only [c12HT_apply, c12HistTag, c12CoreD, histTagL_eq_seqM, histTagSlice_eq_seqM, c12HTL,
      c12HTS, bind, Except.bind]
    cases h1 : c12HistTag hist a with
    | error err => rfl
    | ok x1 =>
      try simp only [c12Lift_ok, c12Lift_error]
      by_cases hz : x1.isZero = true <;> simp [hz, c12Lift, pure, Except.pure]
  | _ => intro h; cases h

theorem histTag_op (hist : Counts) (e : Expr) (T : Tbl) :
    c12TagShape e = true →
    c12HT hist e T =
      (match c12Lift (c12TagMode hist e) with
       | .error err => .error err
       | .ok (some w) => .ok (w, T)
       | .ok none => c12CoreD (c12HT hist) e T) := by
  cases e with
  | nary o cs =>
    intro _
    simp only [c12HT_apply, c12HistTag, c12CoreD, histTagL_eq_seqM, histTagSlice_eq_seqM, c12HTL,
      c12HTS, bind, Except.bind]
    cases hm : c12TagMode hist (.nary o cs) with
    | error err => rfl
    | ok m =>
      cases m <;> try simp only [c12Lift_ok]
      · cases h1 : c12HistTagL hist cs with
        | error err => rfl
        | ok x1 =>
          try simp only [c12Lift_ok, c12Lift_error]
          rfl
      · rfl
  | bin o a b =>
    intro _
    simp only [c12HT_apply, c12HistTag, c12CoreD, histTagL_eq_seqM, histTagSlice_eq_seqM, c12HTL,
      c12HTS, bind, Except.bind]
    cases hm : c12TagMode hist (.bin o a b) with
    | error err => rfl
    | ok m =>
      cases m <;> try simp only [c12Lift_ok]
      · cases h1 : c12HistTag hist a with
        | error err => rfl
        | ok x1 =>
          try simp only [c12Lift_ok, c12Lift_error]
          cases h2 : c12HistTag hist b with
          | error err => rfl
          | ok x2 =>
            try simp only [c12Lift_ok, c12Lift_error]
            rfl
      · rfl
  | un o a =>
    intro _
    simp only [c12HT_apply, c12HistTag, c12CoreD, histTagL_eq_seqM, histTagSlice_eq_seqM, c12HTL,
      c12HTS, bind, Except.bind]
    cases hm : c12TagMode hist (.un o a) with
    | error err => rfl
    | ok m =>
      cases m <;> try simp only [c12Lift_ok]
      · cases h1 : c12HistTag hist a with
        | error err => rfl
        | ok x1 =>
          try simp only [c12Lift_ok, c12Lift_error]
          rfl
      · rfl
  | cmp o a b =>
    intro _
    simp only [c12HT_apply, c12HistTag, c12CoreD, histTagL_eq_seqM, histTagSlice_eq_seqM, c12HTL,
      c12HTS, bind, Except.bind]
    cases hm : c12TagMode hist (.cmp o a b) with
    | error err => rfl
    | ok m =>
      cases m <;> try simp only [c12Lift_ok]
      · cases h1 : c12HistTag hist a with
        | error err => rfl
        | ok x1 =>
          try simp only [c12Lift_ok, c12Lift_error]
          cases h2 : c12HistTag hist b with
          | error err => rfl
          | ok x2 =>
            try simp only [c12Lift_ok, c12Lift_error]
            rfl
      · rfl
  | ite a b d =>
    intro _
    simp only [c12HT_apply, c12HistTag, c12CoreD, histTagL_eq_seqM, histTagSlice_eq_seqM, c12HTL,
      c12HTS, bind, Except.bind]
    cases hm : c12TagMode hist (.ite a b d) with
    | error err => rfl
    | ok m =>
      cases m <;> try simp only [c12Lift_ok]
      · cases h1 : c12HistTag hist a with
        | error err => rfl
        | ok x1 =>
          try simp only [c12Lift_ok, c12Lift_error]
          cases h2 : c12HistTag hist b with
          | error err => rfl
          | ok x2 =>
            try simp only [c12Lift_ok, c12Lift_error]
            cases h3 : c12HistTag hist d with
            | error err => rfl
            | ok x3 =>
              try simp only [c12Lift_ok, c12Lift_error]
              rfl
      · rfl
  | call f as =>
    intro _
    simp only [c12HT_apply, c12HistTag, c12CoreD, histTagL_eq_seqM, histTagSlice_eq_seqM, c12HTL,
      c12HTS, bind, Except.bind]
    cases hm : c12TagMode hist (.call f as) with
    | error err => rfl
    | ok m =>
      cases m <;> try simp only [c12Lift_ok]
      · cases h1 : c12HistTag hist f with
        | error err => rfl
        | ok x1 =>
          try simp only [c12Lift_ok, c12Lift_error]
          cases h2 : c12HistTagL hist as with
          | error err => rfl
          | ok x2 =>
            try simp only [c12Lift_ok, c12Lift_error]
            rfl
      · rfl
  | _ => intro h; cases h

/-- the handler `map_call` of `CSETagMapper` (bound to twenty node classes), in closed form -/
theorem c12MapStepB_histo (rec : C12Rec) (elim : List CKey) (hist : Counts) (e : Expr) (T : Tbl)
    (b : C04Body) (hb : c12IdentOwnHand e = .ok b) (hi : c04IdentBody e = .ok b) :
    c12MapStepB (c12EnvHand rec none) elim hist (.ok (.own c12HistoHand)) e T =
      if e.hasList then .error .unhashable
      else if decide ((hist.find (.plain e)).getD 0 > 1) then .ok (.cse e none evalScope, T)
      else c12CoreD rec e T := by
  simp only [c12MapStepB, c12HistoHand, c12EnvHand, c12RetM, c12EvalM, hb, C12Thr.holds,
    c12RebuildM_ident rec e b _ hi]

theorem c12_isTagOp_ident (e : Expr) (hop : e.isTagOp = true) :
    ∃ b, c12IdentOwnHand e = .ok b ∧ c04IdentBody e = .ok b := by
  cases e <;> simp only [Expr.isTagOp, Bool.false_eq_true] at hop
  case nary o cs => exact ⟨_, rfl, rfl⟩
  case bin o a b => cases o <;> exact ⟨_, rfl, rfl⟩
  case un o a => exact ⟨_, rfl, rfl⟩
  case cmp o a b => exact ⟨_, rfl, rfl⟩
  case ite a b c => exact ⟨_, rfl, rfl⟩
  case call f as => exact ⟨_, rfl, rfl⟩

theorem c12_isTagOp_shape (e : Expr) (hop : e.isTagOp = true) : c12TagShape e = true := by
  cases e <;> simp only [Expr.isTagOp, Bool.false_eq_true] at hop <;> rfl

theorem histTag_keyed (elim : List CKey) (hist : Counts) (e : Expr) (T : Tbl)
    (hop : e.isTagOp = true) :
    c12HT hist e T =
      c12MapStepB (c12EnvHand (c12HT hist) none) elim hist (.ok (.own c12HistoHand)) e T := by
  obtain ⟨b, hb, hi⟩ := c12_isTagOp_ident e hop
  rw [c12MapStepB_histo _ elim hist e T b hb hi, histTag_op hist e T (c12_isTagOp_shape e hop)]
  simp only [c12TagMode, hop, ↓reduceIte]
  by_cases hl : e.hasList = true
  · simp only [hl, ↓reduceIte, c12Lift_throw, c12Err]
  · simp only [hl, Bool.false_eq_true, ↓reduceIte]
    by_cases hc : decide ((hist.find (.plain e)).getD 0 > 1) = true
    · simp only [hc, ↓reduceIte, c12Lift_pure]
    · simp only [hc, Bool.false_eq_true, ↓reduceIte, c12Lift_pure]

theorem histTag_op_plain (hist : Counts) (e : Expr) (T : Tbl)
    (hs : c12TagShape e = true) (hop : e.isTagOp = false) :
    c12HT hist e T = c12CoreD (c12HT hist) e T := by
  rw [histTag_op hist e T hs]
  simp only [c12TagMode, hop, Bool.false_eq_true, ↓reduceIte, c12Lift_pure]

/-- **`c12HistTag` solves the table-driven equations** of `CSETagMapper`: for every histogram, a
call on any node is one handler call of the body `c12TagBody` gives for the node — `map_call` with
the histogram test for the twenty aliased classes, else the inherited `IdentityMapper` row (the
wrapper row with its `is_zero` collapse included) — recursing through `c12HistTag`. -/
theorem histTag_eq_stepB (elim : List CKey) (hist : Counts) (e : Expr) (T : Tbl) :
    c12HT hist e T =
      c12MapStepB (c12EnvHand (c12HT hist) none) elim hist (c12TagBody e) e T := by
  cases e with
  | const k => cases k <;> rfl
  | var x => rfl
  | wildcard => rfl
  | dotWild n => rfl
  | starWild n => rfl
  | funcSym => rfl
  | nan => rfl
  | nary o cs =>
    cases o
    case min =>
      rw [histTag_op_plain hist _ T rfl rfl]
      exact Eq.symm (c12MapStepB_inherited _ elim hist _ T c12TagBody (by rfl) (by rfl))
    case max =>
      rw [histTag_op_plain hist _ T rfl rfl]
      exact Eq.symm (c12MapStepB_inherited _ elim hist _ T c12TagBody (by rfl) (by rfl))
    all_goals exact histTag_keyed elim hist _ T rfl
  | bin o a b => exact histTag_keyed elim hist _ T rfl
  | un o a => exact histTag_keyed elim hist _ T rfl
  | cmp o a b => exact histTag_keyed elim hist _ T rfl
  | ite a b d => exact histTag_keyed elim hist _ T rfl
  | call f as => exact histTag_keyed elim hist _ T rfl
  | callKw f as ns vs =>
    rw [histTag_plain hist _ T rfl]
    exact Eq.symm (c12MapStepB_inherited _ elim hist _ T c12TagBody (by rfl) (by rfl))
  | subscript a i =>
    rw [histTag_plain hist _ T rfl]
    exact Eq.symm (c12MapStepB_inherited _ elim hist _ T c12TagBody (by rfl) (by rfl))
  | lookup a n =>
    rw [histTag_plain hist _ T rfl]
    exact Eq.symm (c12MapStepB_inherited _ elim hist _ T c12TagBody (by rfl) (by rfl))
  | cse a p s =>
    rw [histTag_plain hist _ T rfl]
    exact Eq.symm (c12MapStepB_inherited _ elim hist _ T c12TagBody (by rfl) (by rfl))
  | subst a vs xs =>
    rw [histTag_plain hist _ T rfl]
    exact Eq.symm (c12MapStepB_inherited _ elim hist _ T c12TagBody (by rfl) (by rfl))
  | deriv a vs =>
    rw [histTag_plain hist _ T rfl]
    exact Eq.symm (c12MapStepB_inherited _ elim hist _ T c12TagBody (by rfl) (by rfl))
  | slice cs =>
    rw [histTag_plain hist _ T rfl]
    exact Eq.symm (c12MapStepB_inherited _ elim hist _ T c12TagBody (by rfl) (by rfl))
  | tuple cs =>
    rw [histTag_plain hist _ T rfl]
    exact Eq.symm (c12MapStepB_inherited _ elim hist _ T c12TagBody (by rfl) (by rfl))
  | list cs =>
    rw [histTag_plain hist _ T rfl]
    exact Eq.symm (c12MapStepB_inherited _ elim hist _ T c12TagBody (by rfl) (by rfl))

/-! ### `tag_common_subexpressions` -/

def c12TagAllHand : C12TagAllTable :=
  { threshold := ⟨.gt, 1⟩, keyGetter := "NormalizedKeyGetter", counter := "UseCountMapper",
    mapper := "CSEMapper", oneCounter := true, oneMapper := true, sharedKeyGetter := true,
    rejectsExpression := true }

theorem c12ElimT_hand (cnt : Counts) : c12ElimT c12TagAllHand cnt = elimKeys cnt := by
  simp [c12ElimT, elimKeys, c12TagAllHand, C12Thr.holds]

/-- **`tagAll` is `tag_common_subexpressions` as the table describes it**, run with the two
hand-written mappers: one counting walk over the whole list, the keys counted more than once, one
rebuilding mapper (one table of canonical wrappers) over the whole list. -/
theorem tagAll_eq_table (es : List Expr) :
    c12Lift (tagAll es) = c12TagAllT c12TagAllHand c12UC c12CM es := by
  simp only [c12TagAllT, c12TagAllHand, Bool.and_self, ↓reduceIte, useCountL_eq_seqL, tagAll,
    c12MapAllM, bind, Except.bind]
  cases h : useCountL es [] with
  | error err => rfl
  | ok cnt =>
    simp only [c12Lift_ok]
    have := c12ElimT_hand cnt
    simp only [c12TagAllHand] at this
    rw [this, cseMapL_eq_seqM]
    cases cseMapL (elimKeys cnt) es [] with
    | error err => rfl
    | ok p => rfl

end PV
