import PV.Proofs.MatchpyBridge
/-
  C16, matchpy bridge: the conversion round trip `fromM (toM e)` returns `e` up to `BridgeEq`
  (operand order of the operators declared commutative, merging of nested applications of an
  operator declared associative, every subscript index written as a tuple).
-/
namespace PV.Matchpy
open PV

mutual
/-- does the tree contain a dot / star wildcard (they convert to matchpy wildcards, which have no
way back) — only the node types that convert are descended into -/
def hasWild : Expr → Bool
  | .dotWild _ => true
  | .starWild _ => true
  | .nary _ cs => hasWildL cs
  | .bin _ a b => hasWild a || hasWild b
  | .un _ a => hasWild a
  | .cmp _ a b => hasWild a || hasWild b
  | .ite c t e => hasWild c || hasWild t || hasWild e
  | .call f as => hasWild f || hasWildL as
  | .subscript a i => hasWild a || hasWild i
  | .tuple cs => hasWildL cs
  | _ => false
def hasWildL : List Expr → Bool
  | [] => false
  | c :: cs => hasWild c || hasWildL cs
end

/-- the n-ary operators the bridge declares commutative and associative -/
def bridgeAC (o : NaryOp) : Prop := (mopOfNary o).isSome = true

instance (o : NaryOp) : Decidable (bridgeAC o) := by unfold bridgeAC; infer_instance

mutual
/-- **what the round trip may change** (the parenthesis of the property, plus the flattening that
matchpy itself performs): the least congruence on the convertible node types containing
permutation of the operands of an operator the bridge declares commutative (`perm`), merging a
nested application of an operator it declares associative into its parent (`flat`), and writing a
non-tuple subscript index as a 1-tuple (`index`) -/
inductive BridgeEq : Expr → Expr → Prop
  | refl (a : Expr) : BridgeEq a a
  | symm {a b : Expr} : BridgeEq a b → BridgeEq b a
  | trans {a b c : Expr} : BridgeEq a b → BridgeEq b c → BridgeEq a c
  | nary (o : NaryOp) {cs ds : List Expr} : BridgeEqL cs ds → BridgeEq (.nary o cs) (.nary o ds)
  | bin (o : BinOp) {a a' b b' : Expr} : BridgeEq a a' → BridgeEq b b' →
      BridgeEq (.bin o a b) (.bin o a' b')
  | un (o : UnOp) {a a' : Expr} : BridgeEq a a' → BridgeEq (.un o a) (.un o a')
  | cmp (o : CmpOp) {a a' b b' : Expr} : BridgeEq a a' → BridgeEq b b' →
      BridgeEq (.cmp o a b) (.cmp o a' b')
  | ite {c c' t t' e e' : Expr} : BridgeEq c c' → BridgeEq t t' → BridgeEq e e' →
      BridgeEq (.ite c t e) (.ite c' t' e')
  | call {f f' : Expr} {as as' : List Expr} : BridgeEq f f' → BridgeEqL as as' →
      BridgeEq (.call f as) (.call f' as')
  | subscript {a a' i i' : Expr} : BridgeEq a a' → BridgeEq i i' →
      BridgeEq (.subscript a i) (.subscript a' i')
  | tuple {cs ds : List Expr} : BridgeEqL cs ds → BridgeEq (.tuple cs) (.tuple ds)
  | perm {o : NaryOp} {cs ds : List Expr} : bridgeAC o → cs.Perm ds →
      BridgeEq (.nary o cs) (.nary o ds)
  | flat {o : NaryOp} (xs ys zs : List Expr) : bridgeAC o →
      BridgeEq (.nary o (xs ++ .nary o ys :: zs)) (.nary o (xs ++ ys ++ zs))
  | index (a i : Expr) : (∀ cs, i ≠ .tuple cs) →
      BridgeEq (.subscript a i) (.subscript a (.tuple [i]))
/-- operand lists related pointwise -/
inductive BridgeEqL : List Expr → List Expr → Prop
  | nil : BridgeEqL [] []
  | cons {a b : Expr} {as bs : List Expr} : BridgeEq a b → BridgeEqL as bs →
      BridgeEqL (a :: as) (b :: bs)
end

theorem BridgeEqL.refl : ∀ cs : List Expr, BridgeEqL cs cs
  | [] => .nil
  | c :: cs => .cons (.refl c) (BridgeEqL.refl cs)

theorem MR.bind_ok {α β : Type} {x : MR α} {f : α → MR β} {r : β} (h : (x >>= f) = .ok r) :
    ∃ a, x = .ok a ∧ f a = .ok r := by
  cases x with
  | error e => simp [bind, Except.bind] at h
  | ok a => exact ⟨a, rfl, by simpa [bind, Except.bind] using h⟩

theorem MR.pure_ok {α : Type} {a r : α} (h : (pure a : MR α) = .ok r) : a = r := by
  simpa [pure, Except.pure] using h

/-! ### flattening on both sides -/

theorem fromML_flatten {mo : MOp} {o : NaryOp} (hn : mo.nary? = some o) :
    ∀ {ts : List MTerm} {es : List Expr}, fromML ts = .ok es →
      ∃ es2, fromML (flattenOps mo ts) = .ok es2 ∧
        ∀ pre, BridgeEq (.nary o (pre ++ es)) (.nary o (pre ++ es2))
  | [], es, h => ⟨es, by simpa [flattenOps] using h, fun _ => .refl _⟩
  | t :: ts, es, h => by
    obtain ⟨e, es', rfl, ht, hts⟩ := fromML_cons h
    obtain ⟨es2', h2, hrel⟩ := fromML_flatten hn hts
    have keep : fromML (t :: flattenOps mo ts) = .ok (e :: es2') ∧
        ∀ pre, BridgeEq (.nary o (pre ++ e :: es')) (.nary o (pre ++ e :: es2')) := by
      refine ⟨fromML_cons_ok ht h2, fun pre => ?_⟩
      have := hrel (pre ++ [e])
      simpa [List.append_assoc] using this
    cases t with
    | op o' as vn =>
      by_cases ho : o' = mo
      · subst ho
        rw [fromM_ac hn] at ht
        cases hl : fromML as with
        | error err => simp [hl, Except.map] at ht
        | ok as' =>
          simp [hl, Except.map] at ht
          subst ht
          refine ⟨as' ++ es2', ?_, fun pre => ?_⟩
          · simp only [flattenOps, beq_self_eq_true, if_true]
            exact fromML_append hl h2
          · have h1 : BridgeEq (.nary o (pre ++ .nary o as' :: es')) (.nary o (pre ++ as' ++ es')) :=
              .flat pre as' es' (by simp [bridgeAC, nary?_mopOfNary hn])
            have h3 := hrel (pre ++ as')
            exact h1.trans (by simpa [List.append_assoc] using h3)
      · refine ⟨e :: es2', ?_, keep.2⟩
        have : (o' == mo) = false := by simpa using ho
        simp only [flattenOps, this, Bool.false_eq_true, if_false]
        exact keep.1
    | scalar c vn => exact ⟨e :: es2', by simpa [flattenOps] using keep.1, keep.2⟩
    | id s vn => exact ⟨e :: es2', by simpa [flattenOps] using keep.1, keep.2⟩
    | cmpOp s vn => exact ⟨e :: es2', by simpa [flattenOps] using keep.1, keep.2⟩
    | wild k n => exact ⟨e :: es2', by simpa [flattenOps] using keep.1, keep.2⟩

/-! ### the round trip -/

theorem cmp_ofSym_sym (o : CmpOp) : CmpOp.ofSym? o.sym = some o := by cases o <;> rfl

theorem Expr.sizeL_mem {c : Expr} {cs : List Expr} (h : c ∈ cs) : c.size ≤ Expr.sizeL cs := by
  induction cs with
  | nil => cases h
  | cons d ds ih =>
    simp only [Expr.sizeL]
    rcases List.mem_cons.1 h with rfl | h'
    · omega
    · have := ih h'; omega

/-- round trip of trees and of operand lists, by induction on the size -/
theorem roundtrip_aux : ∀ n : Nat,
    (∀ e : Expr, e.size ≤ n → ∀ t, toM e = .ok t → hasWild e = false →
      ∃ e', fromM t = .ok e' ∧ BridgeEq e e') ∧
    (∀ es : List Expr, Expr.sizeL es ≤ n → ∀ ts, toML es = .ok ts → hasWildL es = false →
      ∃ es', fromML ts = .ok es' ∧ BridgeEqL es es') := by
  intro n
  induction n with
  | zero =>
    refine ⟨fun e he => ?_, fun es hes ts h _ => ?_⟩
    · cases e <;> simp [Expr.size] at he <;> omega
    · cases es with
      | nil =>
        simp [toML, pure, Except.pure] at h; subst h
        exact ⟨[], rfl, .nil⟩
      | cons c cs =>
        have := c.size; simp [Expr.sizeL] at hes
        cases c <;> simp [Expr.size] at hes <;> omega
  | succ n ih =>
    obtain ⟨ihE, ihL⟩ := ih
    have listCase : ∀ es : List Expr, Expr.sizeL es ≤ n + 1 → ∀ ts, toML es = .ok ts →
        hasWildL es = false → (∀ c ∈ es, c.size ≤ n + 1 → ∀ t, toM c = .ok t → hasWild c = false →
          ∃ e', fromM t = .ok e' ∧ BridgeEq c e') →
        ∃ es', fromML ts = .ok es' ∧ BridgeEqL es es' := by
      intro es
      induction es with
      | nil =>
        intro _ ts h _ _
        simp [toML, pure, Except.pure] at h; subst h
        exact ⟨[], rfl, .nil⟩
      | cons c cs ihcs =>
        intro hs ts h hw hel
        simp only [toML] at h
        obtain ⟨c', hc, h⟩ := MR.bind_ok h
        obtain ⟨cs', hcs, h⟩ := MR.bind_ok h
        have := MR.pure_ok h; subst this
        simp only [hasWildL, Bool.or_eq_false_iff] at hw
        simp only [Expr.sizeL] at hs
        obtain ⟨e', he', hrel⟩ := hel c (by simp) (by omega) c' hc hw.1
        obtain ⟨es', hes', hrels⟩ := ihcs (by omega) cs' hcs hw.2
          (fun d hd => hel d (by simp [hd]))
        exact ⟨e' :: es', fromML_cons_ok he' hes', .cons hrel hrels⟩
    have treeCase : ∀ e : Expr, e.size ≤ n + 1 → ∀ t, toM e = .ok t → hasWild e = false →
        ∃ e', fromM t = .ok e' ∧ BridgeEq e e' := by
      intro e he t h hw
      cases e with
      | const c =>
        cases c <;> simp [toM, pure, Except.pure, throw, throwThe, MonadExceptOf.throw] at h <;>
          subst h <;> exact ⟨_, rfl, .refl _⟩
      | var x =>
        simp [toM, pure, Except.pure] at h; subst h
        exact ⟨.var x, by rw [mk_plain (by rfl)]; rfl, .refl _⟩
      | nary o cs =>
        simp only [toM] at h
        cases hm : mopOfNary o with
        | none => simp [hm, throw, throwThe, MonadExceptOf.throw] at h
        | some mo =>
          simp only [hm] at h
          obtain ⟨ts, hts, h⟩ := MR.bind_ok h
          have := MR.pure_ok h; subst this
          simp only [hasWild] at hw
          simp only [Expr.size] at he
          obtain ⟨es, hes, hrel⟩ := ihL cs (by omega) ts hts hw
          have hac := mopOfNary_isAC hm
          have hn := mopOfNary_nary? hm
          obtain ⟨es2, hfl, hrel2⟩ := fromML_flatten hn hes
          obtain ⟨es3, hs, hp⟩ := fromML_perm (pySort_perm MTerm.lt (flattenOps mo ts)).symm hfl
          refine ⟨.nary o es3, ?_, ?_⟩
          · rw [mk_ac hac, fromM_ac hn, hs]; rfl
          · have h2 := hrel2 []
            simp only [List.nil_append] at h2
            exact ((BridgeEq.nary o hrel).trans h2).trans (.perm (by simp [bridgeAC, hm]) hp)
      | bin o a b =>
        simp only [toM] at h
        obtain ⟨a', ha, h⟩ := MR.bind_ok h
        obtain ⟨b', hb, h⟩ := MR.bind_ok h
        have := MR.pure_ok h; subst this
        simp only [hasWild, Bool.or_eq_false_iff] at hw
        simp only [Expr.size] at he
        obtain ⟨ea, hfa, hea⟩ := ihE a (by omega) a' ha hw.1
        obtain ⟨eb, hfb, heb⟩ := ihE b (by omega) b' hb hw.2
        refine ⟨.bin o ea eb, ?_, .bin o hea heb⟩
        cases o <;> rw [mk_plain (by rfl)] <;>
          simp [mopOfBin, fromM, hfa, hfb, bind, Except.bind, pure, Except.pure]
      | un o a =>
        simp only [toM] at h
        obtain ⟨a', ha, h⟩ := MR.bind_ok h
        have := MR.pure_ok h; subst this
        simp only [hasWild] at hw
        simp only [Expr.size] at he
        obtain ⟨ea, hfa, hea⟩ := ihE a (by omega) a' ha hw
        refine ⟨.un o ea, ?_, .un o hea⟩
        cases o <;> rw [mk_plain (by rfl)] <;>
          simp [mopOfUn, fromM, hfa, bind, Except.bind, pure, Except.pure]
      | cmp o a b =>
        simp only [toM] at h
        obtain ⟨a', ha, h⟩ := MR.bind_ok h
        obtain ⟨b', hb, h⟩ := MR.bind_ok h
        have := MR.pure_ok h; subst this
        simp only [hasWild, Bool.or_eq_false_iff] at hw
        simp only [Expr.size] at he
        obtain ⟨ea, hfa, hea⟩ := ihE a (by omega) a' ha hw.1
        obtain ⟨eb, hfb, heb⟩ := ihE b (by omega) b' hb hw.2
        refine ⟨.cmp o ea eb, ?_, .cmp o hea heb⟩
        rw [mk_plain (by rfl)]
        simp [fromM, hfa, hfb, cmp_ofSym_sym, bind, Except.bind, pure, Except.pure]
      | ite c x y =>
        simp only [toM] at h
        obtain ⟨c', hc, h⟩ := MR.bind_ok h
        obtain ⟨x', hx, h⟩ := MR.bind_ok h
        obtain ⟨y', hy, h⟩ := MR.bind_ok h
        have := MR.pure_ok h; subst this
        simp only [hasWild, Bool.or_eq_false_iff] at hw
        simp only [Expr.size] at he
        obtain ⟨ec, hfc, hec⟩ := ihE c (by omega) c' hc hw.1.1
        obtain ⟨ex, hfx, hex⟩ := ihE x (by omega) x' hx hw.1.2
        obtain ⟨ey, hfy, hey⟩ := ihE y (by omega) y' hy hw.2
        refine ⟨.ite ec ex ey, ?_, .ite hec hex hey⟩
        rw [mk_plain (by rfl)]
        simp [fromM, hfc, hfx, hfy, bind, Except.bind, pure, Except.pure]
      | call f as =>
        simp only [toM] at h
        obtain ⟨f', hf, h⟩ := MR.bind_ok h
        obtain ⟨as', has, h⟩ := MR.bind_ok h
        have := MR.pure_ok h; subst this
        simp only [hasWild, Bool.or_eq_false_iff] at hw
        simp only [Expr.size] at he
        obtain ⟨ef, hff, hef⟩ := ihE f (by omega) f' hf hw.1
        obtain ⟨eas, hfas, heas⟩ := ihL as (by omega) as' has hw.2
        refine ⟨.call ef eas, ?_, .call hef heas⟩
        rw [mk_plain (by rfl), mk_plain (by rfl)]
        simp [fromM, hff, hfas, bind, Except.bind, pure, Except.pure]
      | subscript a i =>
        simp only [hasWild, Bool.or_eq_false_iff] at hw
        simp only [Expr.size] at he
        by_cases hi : ∃ cs, i = .tuple cs
        · obtain ⟨cs, rfl⟩ := hi
          simp only [toM] at h
          obtain ⟨a', ha, h⟩ := MR.bind_ok h
          obtain ⟨is', his, h⟩ := MR.bind_ok h
          have := MR.pure_ok h; subst this
          simp only [Expr.size] at he
          simp only [hasWild] at hw
          obtain ⟨ea, hfa, hea⟩ := ihE a (by omega) a' ha hw.1
          obtain ⟨eis, hfis, heis⟩ := ihL cs (by omega) is' his hw.2
          refine ⟨.subscript ea (.tuple eis), ?_, .subscript hea (.tuple heis)⟩
          rw [mk_plain (by rfl), mk_plain (by rfl)]
          simp [fromM, hfa, hfis, bind, Except.bind, pure, Except.pure]
        · have hi' : ∀ cs, i ≠ .tuple cs := fun cs hc => hi ⟨cs, hc⟩
          have hto : toM (.subscript a i) = (do
              let a' ← toM a
              let i' ← toM i
              pure (mk .subscript [a', mk .tupleOp [i']])) := by
            cases i <;> first | rfl | (exact absurd rfl (hi' _))
          rw [hto] at h
          obtain ⟨a', ha, h⟩ := MR.bind_ok h
          obtain ⟨i', hi2, h⟩ := MR.bind_ok h
          have := MR.pure_ok h; subst this
          obtain ⟨ea, hfa, hea⟩ := ihE a (by omega) a' ha hw.1
          obtain ⟨ei, hfi, hei⟩ := ihE i (by omega) i' hi2 hw.2
          refine ⟨.subscript ea (.tuple [ei]), ?_, ?_⟩
          · rw [mk_plain (by rfl), mk_plain (by rfl)]
            simp [fromM, fromML, hfa, hfi, bind, Except.bind, pure, Except.pure]
          · exact (BridgeEq.index a i hi').trans
              (.subscript hea (.tuple (.cons hei .nil)))
      | dotWild s => simp [hasWild] at hw
      | starWild s => simp [hasWild] at hw
      | callKw f as ns vs => simp [toM, throw, throwThe, MonadExceptOf.throw] at h
      | lookup a s => simp [toM, throw, throwThe, MonadExceptOf.throw] at h
      | cse c p s => simp [toM, throw, throwThe, MonadExceptOf.throw] at h
      | subst c vs xs => simp [toM, throw, throwThe, MonadExceptOf.throw] at h
      | deriv c vs => simp [toM, throw, throwThe, MonadExceptOf.throw] at h
      | slice cs => simp [toM, throw, throwThe, MonadExceptOf.throw] at h
      | nan => simp [toM, throw, throwThe, MonadExceptOf.throw] at h
      | wildcard => simp [toM, throw, throwThe, MonadExceptOf.throw] at h
      | funcSym => simp [toM, throw, throwThe, MonadExceptOf.throw] at h
      | tuple cs => simp [toM, throw, throwThe, MonadExceptOf.throw] at h
      | list cs => simp [toM, throw, throwThe, MonadExceptOf.throw] at h
    exact ⟨treeCase, fun es hes ts h hw =>
      listCase es hes ts h hw (fun c _ hc => treeCase c hc)⟩

end PV.Matchpy
