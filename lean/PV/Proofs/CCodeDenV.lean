import PV.Model.CCodeFrag
import PV.Proofs.PyEqEquiv
/-
  C14.  The reference meaning `denV` of the C-expressible integer fragment and its tie to the
  evaluator's denotation `den` (`denV_sound`).

  Values are Python ints or bools (`CVal`); `CVal.toInt` is the number C computes where Python has
  `True`/`False` (1/0).  `denV` is defined where the evaluation succeeds on integer variables with
    * every `//` and `%` applied to a non-negative dividend and a positive divisor,
    * every `<<` / `>>` applied to a non-negative value and an amount in `0 … 4096`,
    * every `&`, `^`, `|` applied to non-negative operands,
  `and`/`or`/`if` evaluating only the operands Python evaluates.
-/
namespace PV.C14
open PV

@[simp] theorem toValue_i (n : Int) : (CVal.i n).toValue = .int n := rfl
@[simp] theorem toValue_b (x : Bool) : (CVal.b x).toValue = .bool x := rfl
@[simp] theorem toInt_i (n : Int) : (CVal.i n).toInt = n := rfl

/-! ### Python's operators on ints and bools -/

theorem envInt_get {env : Env} {x : String} {n : Int} (h : envInt env x = some n) :
    env.get x = some (.int n) := by
  unfold envInt at h
  split at h
  · simp only [Option.some.injEq] at h; subst h; assumption
  · cases h

theorem num_toValue (x : CVal) : x.toValue.num? = some (.i x.toInt) := by
  cases x with
  | i n => rfl
  | b p => cases p <;> rfl

theorem flags_toValue (x : CVal) : x.toValue.isInexact = false ∧ x.toValue.isSeq = false ∧
    x.toValue.hasInexact = false := by
  cases x <;> simp [CVal.toValue, Value.isInexact, Value.isSeq, Value.hasInexact]

theorem arith_toValue (f : Num → Num → R) (x y : CVal) :
    arith f x.toValue y.toValue = f (.i x.toInt) (.i y.toInt) := by
  simp [arith, flags_toValue, num_toValue]

theorem add_cv (a : Int) (x : CVal) : Value.add (.int a) x.toValue = .ok (.int (a + x.toInt)) := by
  have := arith_toValue addN (.i a) x
  simpa [Value.add, CVal.toValue, CVal.toInt, addN, pure, Except.pure] using this

theorem mul_cv (a : Int) (x : CVal) : Value.mul (.int a) x.toValue = .ok (.int (a * x.toInt)) := by
  have := arith_toValue mulN (.i a) x
  simpa [Value.mul, CVal.toValue, CVal.toInt, mulN, pure, Except.pure] using this

theorem floordiv_cv (x y : CVal) (hy : 0 < y.toInt) :
    Value.floordiv x.toValue y.toValue = .ok (.int (x.toInt / y.toInt)) := by
  have hy0 : y.toInt ≠ 0 := by omega
  simp [Value.floordiv, arith_toValue, floordivN, hy0,
    Int.fdiv_eq_ediv_of_nonneg x.toInt (Int.le_of_lt hy), pure, Except.pure]

theorem mod_cv (x y : CVal) (hy : 0 < y.toInt) :
    Value.mod x.toValue y.toValue = .ok (.int (x.toInt % y.toInt)) := by
  have hy0 : y.toInt ≠ 0 := by omega
  simp [Value.mod, arith_toValue, modN, hy0,
    Int.fmod_eq_emod_of_nonneg x.toInt (Int.le_of_lt hy), pure, Except.pure]

theorem pow_two_cv (x : CVal) :
    Value.pow x.toValue (.int 2) = .ok (.int (x.toInt * x.toInt)) := by
  have h2 : x.toInt ^ (2 : Nat) = x.toInt * x.toInt := by
    rw [Int.pow_succ, Int.pow_succ, Int.pow_zero, Int.one_mul]
  have := arith_toValue powN x (.i 2)
  rw [show (CVal.i 2).toValue = Value.int 2 from rfl, show (CVal.i 2).toInt = 2 from rfl] at this
  simp [Value.pow, this, powN, bigLimit, pure, Except.pure, h2]

theorem lshift_cv (x y : CVal) (h0 : 0 ≤ y.toInt) (h1 : y.toInt ≤ 4096) :
    Value.lshift x.toValue y.toValue = .ok (.int (x.toInt * 2 ^ y.toInt.toNat)) := by
  have h2 : ¬ y.toInt < 0 := by omega
  have h3 : y.toInt ≤ (bigLimit : Nat) := by simp only [bigLimit]; omega
  simp [Value.lshift, arith_toValue, lshiftN, intOnly, h2, h3, pure, Except.pure]

theorem rshift_cv (x y : CVal) (h0 : 0 ≤ y.toInt) (h1 : y.toInt ≤ 4096) :
    Value.rshift x.toValue y.toValue = .ok (.int (x.toInt / 2 ^ y.toInt.toNat)) := by
  have h2 : ¬ y.toInt < 0 := by omega
  have h3 : y.toInt ≤ (bigLimit : Nat) := by simp only [bigLimit]; omega
  have h4 : (0 : Int) ≤ 2 ^ y.toInt.toNat := Int.le_of_lt (Int.pow_pos (by decide))
  simp [Value.rshift, arith_toValue, rshiftN, intOnly, h2, h3, pure, Except.pure,
    Int.fdiv_eq_ediv_of_nonneg x.toInt h4]

theorem invert_cv (x : CVal) : Value.invert x.toValue = .ok (.int (-x.toInt - 1)) := by
  simp [Value.invert, flags_toValue, num_toValue, pure, Except.pure]

theorem truthy_cv (x : CVal) : x.toValue.truthy = .ok (x.toInt != 0) := by
  cases x with
  | i n => simp [CVal.toValue, CVal.toInt, Value.truthy, pure, Except.pure]
  | b p => cases p <;> simp [CVal.toValue, CVal.toInt, Value.truthy, c14B2I, pure, Except.pure]

theorem pyEq_cv (x y : CVal) : x.toValue.pyEq y.toValue = (x.toInt == y.toInt) := by
  have key : ∀ a b : Int, (((a : Rat) == (b : Rat)) : Bool) = (a == b) := by
    intro a b
    rw [Bool.eq_iff_iff]
    simp [Rat.intCast_inj]
  cases x <;> cases y <;>
    simp [CVal.toValue, CVal.toInt, Value.pyEq, Value.num?, Num.toRat] <;>
    first
    | exact key _ _
    | (rename_i p q; cases p <;> cases q <;> simp [c14B2I])
    | (rename_i p; cases p <;> simp [c14B2I, key] <;> exact key _ _)
    | skip

theorem cmp_cv (o : CmpOp) (x y : CVal) :
    Value.cmp o x.toValue y.toValue = .ok (.bool (c14CmpInt o x.toInt y.toInt)) := by
  have hlt : ∀ a b : Int, decide ((a : Rat) < (b : Rat)) = decide (a < b) := by
    intro a b
    simp [Rat.intCast_lt_intCast]
  have hle : ∀ a b : Int, decide ((a : Rat) ≤ (b : Rat)) = decide (a ≤ b) := by
    intro a b
    simp [Rat.intCast_le_intCast]
  cases o <;>
    simp [Value.cmp, flags_toValue, num_toValue, pyEq_cv, c14CmpInt, CmpOp.evalRat, Num.toRat,
      pure, Except.pure, bne] <;>
    first | exact hlt _ _ | exact hle _ _

theorem better_cv (isMin : Bool) (x m : CVal) :
    Value.better isMin x.toValue m.toValue =
      .ok (if isMin then decide (x.toInt < m.toInt) else decide (m.toInt < x.toInt)) := by
  cases isMin <;>
    simp [Value.better, Value.lt, cmp_cv, c14CmpInt, bind, Except.bind, pure, Except.pure]

theorem land'_nonneg (a b : Int) (ha : 0 ≤ a) (hb : 0 ≤ b) :
    Int.land' a b = Int.ofNat (a.toNat &&& b.toNat) := by
  cases a <;> cases b <;> first | rfl | omega

theorem lor'_nonneg (a b : Int) (ha : 0 ≤ a) (hb : 0 ≤ b) :
    Int.lor' a b = Int.ofNat (a.toNat ||| b.toNat) := by
  cases a <;> cases b <;> first | rfl | omega

theorem xor'_nonneg (a b : Int) (ha : 0 ≤ a) (hb : 0 ≤ b) :
    Int.xor' a b = Int.ofNat (a.toNat ^^^ b.toNat) := by
  cases a <;> cases b <;> first | rfl | omega

theorem bitop_cv (fi : Int → Int → Int) (fb : Bool → Bool → Bool) (x y : CVal)
    (h : ¬ (∃ p q, x = .b p ∧ y = .b q)) :
    bitop fi fb x.toValue y.toValue = .ok (.int (fi x.toInt y.toInt)) := by
  have := arith_toValue (intOnly fun a b => pure (.int (fi a b))) x y
  cases x <;> cases y <;> simp_all [bitop, CVal.toValue, CVal.toInt, intOnly, pure, Except.pure]

theorem bitV_sound (op : NaryOp) (x y r : CVal) (h : bitV op x y = some r) :
    op.apply x.toValue y.toValue = .ok r.toValue := by
  cases op <;> first | (simp [bitV] at h; done) | skip
  -- bor
  · cases x with
    | b p =>
      cases y with
      | b q => simp only [bitV, Option.some.injEq] at h; subst h; rfl
      | i n =>
        simp only [bitV] at h
        split at h
        · rename_i hg
          simp only [Option.some.injEq] at h; subst h
          simp only [NaryOp.apply, Value.bor]
          rw [bitop_cv _ _ _ _ (by simp), lor'_nonneg _ _ hg.1 hg.2]
          rfl
        · cases h
    | i m =>
      have hne : ¬ (∃ p q, CVal.i m = .b p ∧ y = .b q) := by simp
      have hb : bitV .bor (.i m) y = if 0 ≤ (CVal.i m).toInt ∧ 0 ≤ y.toInt then
          some (.i (Int.ofNat ((CVal.i m).toInt.toNat ||| y.toInt.toNat))) else none := by
        cases y <;> rfl
      rw [hb] at h
      split at h
      · rename_i hg
        simp only [Option.some.injEq] at h; subst h
        simp only [NaryOp.apply, Value.bor]
        rw [bitop_cv _ _ _ _ hne, lor'_nonneg _ _ hg.1 hg.2]
        rfl
      · cases h
  -- bxor
  · cases x with
    | b p =>
      cases y with
      | b q => simp only [bitV, Option.some.injEq] at h; subst h; rfl
      | i n =>
        simp only [bitV] at h
        split at h
        · rename_i hg
          simp only [Option.some.injEq] at h; subst h
          simp only [NaryOp.apply, Value.bxor]
          rw [bitop_cv _ _ _ _ (by simp), xor'_nonneg _ _ hg.1 hg.2]
          rfl
        · cases h
    | i m =>
      have hne : ¬ (∃ p q, CVal.i m = .b p ∧ y = .b q) := by simp
      have hb : bitV .bxor (.i m) y = if 0 ≤ (CVal.i m).toInt ∧ 0 ≤ y.toInt then
          some (.i (Int.ofNat ((CVal.i m).toInt.toNat ^^^ y.toInt.toNat))) else none := by
        cases y <;> rfl
      rw [hb] at h
      split at h
      · rename_i hg
        simp only [Option.some.injEq] at h; subst h
        simp only [NaryOp.apply, Value.bxor]
        rw [bitop_cv _ _ _ _ hne, xor'_nonneg _ _ hg.1 hg.2]
        rfl
      · cases h
  -- band
  · cases x with
    | b p =>
      cases y with
      | b q => simp only [bitV, Option.some.injEq] at h; subst h; rfl
      | i n =>
        simp only [bitV] at h
        split at h
        · rename_i hg
          simp only [Option.some.injEq] at h; subst h
          simp only [NaryOp.apply, Value.band]
          rw [bitop_cv _ _ _ _ (by simp), land'_nonneg _ _ hg.1 hg.2]
          rfl
        · cases h
    | i m =>
      have hne : ¬ (∃ p q, CVal.i m = .b p ∧ y = .b q) := by simp
      have hb : bitV .band (.i m) y = if 0 ≤ (CVal.i m).toInt ∧ 0 ≤ y.toInt then
          some (.i (Int.ofNat ((CVal.i m).toInt.toNat &&& y.toInt.toNat))) else none := by
        cases y <;> rfl
      rw [hb] at h
      split at h
      · rename_i hg
        simp only [Option.some.injEq] at h; subst h
        simp only [NaryOp.apply, Value.band]
        rw [bitop_cv _ _ _ _ hne, land'_nonneg _ _ hg.1 hg.2]
        rfl
      · cases h

def bitNat : NaryOp → Nat → Nat → Nat
  | .band, a, b => a &&& b
  | .bxor, a, b => a ^^^ b
  | .bor, a, b => a ||| b
  | _, _, _ => 0

/-- the number C computes for `&`, `^`, `|` is the number of Python's result -/
theorem bitV_toInt (op : NaryOp) (x y r : CVal) (h : bitV op x y = some r) :
    0 ≤ x.toInt ∧ 0 ≤ y.toInt ∧ r.toInt = Int.ofNat (bitNat op x.toInt.toNat y.toInt.toNat) := by
  cases op <;> first | (simp [bitV] at h; done) | skip
  all_goals
    cases x with
    | b p =>
      cases y with
      | b q =>
        simp only [bitV, Option.some.injEq] at h; subst h
        cases p <;> cases q <;> decide
      | i n =>
        simp only [bitV] at h
        split at h
        · rename_i hg
          simp only [Option.some.injEq] at h; subst h
          exact ⟨hg.1, hg.2, rfl⟩
        · cases h
    | i m =>
      cases y with
      | b q =>
        simp only [bitV] at h
        split at h
        · rename_i hg
          simp only [Option.some.injEq] at h; subst h
          exact ⟨hg.1, hg.2, rfl⟩
        · cases h
      | i n =>
        simp only [bitV] at h
        split at h
        · rename_i hg
          simp only [Option.some.injEq] at h; subst h
          exact ⟨hg.1, hg.2, rfl⟩
        · cases h

/-! ### `denV` is the evaluator's value -/

abbrev SoundAt (env : Env) (c : Expr) : Prop := ∀ w, denV env c = some w → den env c = .ok w.toValue

theorem denFold_sum_cv (env : Env) : ∀ (cs : List Expr) (vs : List CVal) (a : Int),
    (∀ c ∈ cs, SoundAt env c) → denVL env cs = some vs →
    denFold env .sum (.int a) cs = .ok (.int (a + sumL (vs.map CVal.toInt)))
  | [], vs, a, _, h => by
      simp only [denVL, Option.some.injEq] at h
      subst h
      simp [denFold, sumL, pure, Except.pure]
  | c :: cs, vs, a, ih, h => by
      simp only [denVL] at h
      cases hc : denV env c with
      | none => simp [hc] at h
      | some v =>
        cases hcs : denVL env cs with
        | none => simp [hc, hcs] at h
        | some ws =>
          simp only [hc, hcs, Option.some.injEq] at h
          subst h
          have h1 := ih c (by simp) v hc
          simp only [denFold, h1, bind, Except.bind, NaryOp.apply, add_cv]
          rw [denFold_sum_cv env cs ws (a + v.toInt) (fun c' hc' => ih c' (by simp [hc'])) hcs]
          simp [sumL, Int.add_assoc]

theorem denFold_prod_cv (env : Env) : ∀ (cs : List Expr) (vs : List CVal) (a : Int),
    (∀ c ∈ cs, SoundAt env c) → denVL env cs = some vs →
    denFold env .prod (.int a) cs = .ok (.int (a * prodL (vs.map CVal.toInt)))
  | [], vs, a, _, h => by
      simp only [denVL, Option.some.injEq] at h
      subst h
      simp [denFold, prodL, pure, Except.pure]
  | c :: cs, vs, a, ih, h => by
      simp only [denVL] at h
      cases hc : denV env c with
      | none => simp [hc] at h
      | some v =>
        cases hcs : denVL env cs with
        | none => simp [hc, hcs] at h
        | some ws =>
          simp only [hc, hcs, Option.some.injEq] at h
          subst h
          have h1 := ih c (by simp) v hc
          simp only [denFold, h1, bind, Except.bind, NaryOp.apply, mul_cv]
          rw [denFold_prod_cv env cs ws (a * v.toInt) (fun c' hc' => ih c' (by simp [hc'])) hcs]
          simp [prodL, Int.mul_assoc]

theorem denFold_bit_cv (env : Env) (op : NaryOp) : ∀ (cs : List Expr) (acc r : CVal),
    (∀ c ∈ cs, SoundAt env c) → denVBit env op acc cs = some r →
    denFold env op acc.toValue cs = .ok r.toValue
  | [], acc, r, _, h => by
      simp only [denVBit, Option.some.injEq] at h
      subst h
      simp [denFold, pure, Except.pure]
  | c :: cs, acc, r, ih, h => by
      simp only [denVBit] at h
      cases hc : denV env c with
      | none => simp [hc] at h
      | some w =>
        simp only [hc] at h
        cases hb : bitV op acc w with
        | none => simp [hb] at h
        | some acc' =>
          simp only [hb] at h
          have h1 := ih c (by simp) w hc
          simp only [denFold, h1, bind, Except.bind, bitV_sound op acc w acc' hb]
          exact denFold_bit_cv env op cs acc' r (fun c' hc' => ih c' (by simp [hc'])) h

theorem denAll_cv (env : Env) : ∀ (cs : List Expr) (r : CVal),
    (∀ c ∈ cs, SoundAt env c) → denVAll env cs = some r → denAll env cs = .ok r.toValue
  | [], r, _, h => by
      simp only [denVAll, Option.some.injEq] at h
      subst h
      simp [denAll, toValue_i, toValue_b, pure, Except.pure]
  | c :: cs, r, ih, h => by
      simp only [denVAll] at h
      cases hc : denV env c with
      | none => simp [hc] at h
      | some w =>
        simp only [hc] at h
        have h1 := ih c (by simp) w hc
        simp only [denAll, h1, bind, Except.bind, truthy_cv]
        by_cases hw : w.toInt = 0
        · simp only [hw, if_true, Option.some.injEq] at h
          subst h
          simp [hw, toValue_i, toValue_b, pure, Except.pure]
        · simp only [hw, if_false] at h
          simp only [bne_iff_ne, ne_eq, hw, not_false_eq_true, decide_true, if_true]
          exact denAll_cv env cs r (fun c' hc' => ih c' (by simp [hc'])) h

theorem denAny_cv (env : Env) : ∀ (cs : List Expr) (r : CVal),
    (∀ c ∈ cs, SoundAt env c) → denVAny env cs = some r → denAny env cs = .ok r.toValue
  | [], r, _, h => by
      simp only [denVAny, Option.some.injEq] at h
      subst h
      simp [denAny, toValue_i, toValue_b, pure, Except.pure]
  | c :: cs, r, ih, h => by
      simp only [denVAny] at h
      cases hc : denV env c with
      | none => simp [hc] at h
      | some w =>
        simp only [hc] at h
        have h1 := ih c (by simp) w hc
        simp only [denAny, h1, bind, Except.bind, truthy_cv]
        by_cases hw : w.toInt = 0
        · simp only [hw, if_true] at h
          simp only [hw, bne_self_eq_false, Bool.false_eq_true, if_false]
          exact denAny_cv env cs r (fun c' hc' => ih c' (by simp [hc'])) h
        · simp only [hw, if_false, Option.some.injEq] at h
          subst h
          simp [hw, toValue_i, toValue_b, pure, Except.pure]

/-- **`denV` is the evaluator's value**: where the fragment's meaning is defined, `den` returns
exactly that int or bool. -/
theorem denV_sound (env : Env) (e : Expr) : SoundAt env e := by
  induction e using Expr.induct with
  | h e ih =>
    intro v h
    cases e with
    | const c =>
      cases c <;> simp [denV] at h
      subst h
      simp [den, Const.den, toValue_i, toValue_b, pure, Except.pure]
    | var x =>
      simp only [denV] at h
      cases hx : envInt env x with
      | none => simp [hx] at h
      | some n =>
        simp only [hx, Option.map_some, Option.some.injEq] at h
        subst h
        simp [den, envInt_get hx, toValue_i, toValue_b, pure, Except.pure]
    | nary op cs =>
      have ihc : ∀ c ∈ cs, SoundAt env c := fun c hc => ih c (by simp [Expr.children, hc])
      cases op with
      | sum =>
        simp only [denV] at h
        cases hcs : denVL env cs with
        | none => simp [hcs] at h
        | some vs =>
          simp only [hcs, Option.map_some, Option.some.injEq] at h
          subst h
          simp only [den]
          rw [denFold_sum_cv env cs vs 0 ihc hcs]
          simp [toValue_i, toValue_b]
      | prod =>
        simp only [denV] at h
        cases hcs : denVL env cs with
        | none => simp [hcs] at h
        | some vs =>
          simp only [hcs, Option.map_some, Option.some.injEq] at h
          subst h
          simp only [den]
          rw [denFold_prod_cv env cs vs 1 ihc hcs]
          simp [toValue_i, toValue_b]
      | band =>
        cases cs with
        | nil => simp [denV] at h
        | cons c cs =>
          simp only [denV] at h
          cases hc : denV env c with
          | none => simp [hc] at h
          | some w =>
            simp only [hc] at h
            simp only [den, denReduce, ihc c (by simp) w hc, bind, Except.bind]
            exact denFold_bit_cv env .band cs w v (fun c' hc' => ihc c' (by simp [hc'])) h
      | bxor =>
        cases cs with
        | nil => simp [denV] at h
        | cons c cs =>
          simp only [denV] at h
          cases hc : denV env c with
          | none => simp [hc] at h
          | some w =>
            simp only [hc] at h
            simp only [den, denReduce, ihc c (by simp) w hc, bind, Except.bind]
            exact denFold_bit_cv env .bxor cs w v (fun c' hc' => ihc c' (by simp [hc'])) h
      | bor =>
        cases cs with
        | nil => simp [denV] at h
        | cons c cs =>
          simp only [denV] at h
          cases hc : denV env c with
          | none => simp [hc] at h
          | some w =>
            simp only [hc] at h
            simp only [den, denReduce, ihc c (by simp) w hc, bind, Except.bind]
            exact denFold_bit_cv env .bor cs w v (fun c' hc' => ihc c' (by simp [hc'])) h
      | land =>
        simp only [denV] at h
        simp only [den]
        exact denAll_cv env cs v ihc h
      | lor =>
        simp only [denV] at h
        simp only [den]
        exact denAny_cv env cs v ihc h
      | min =>
        match cs, h, ihc with
        | [a, b], h, ihc =>
          simp only [denV] at h
          cases ha : denV env a with
          | none => simp [ha] at h
          | some x =>
            cases hb : denV env b with
            | none => simp [ha, hb] at h
            | some y =>
              simp only [ha, hb, Option.some.injEq] at h
              subst h
              simp only [den, denMinMax, ihc a (by simp) x ha, ihc b (by simp) y hb, bind,
                Except.bind, better_cv, if_true, pure, Except.pure]
              by_cases hlt : y.toInt < x.toInt <;> simp [hlt]
        | [], h, _ => simp [denV] at h
        | [_], h, _ => simp [denV] at h
        | _ :: _ :: _ :: _, h, _ => simp [denV] at h
      | max =>
        match cs, h, ihc with
        | [a, b], h, ihc =>
          simp only [denV] at h
          cases ha : denV env a with
          | none => simp [ha] at h
          | some x =>
            cases hb : denV env b with
            | none => simp [ha, hb] at h
            | some y =>
              simp only [ha, hb, Option.some.injEq] at h
              subst h
              simp only [den, denMinMax, ihc a (by simp) x ha, ihc b (by simp) y hb, bind,
                Except.bind, better_cv, Bool.false_eq_true, if_false, pure, Except.pure]
              by_cases hlt : x.toInt < y.toInt <;> simp [hlt]
        | [], h, _ => simp [denV] at h
        | [_], h, _ => simp [denV] at h
        | _ :: _ :: _ :: _, h, _ => simp [denV] at h
    | bin op a b =>
      have iha := ih a (by simp [Expr.children])
      have ihb := ih b (by simp [Expr.children])
      cases op with
      | quot => simp [denV] at h
      | floordiv =>
        simp only [denV] at h
        cases ha : denV env a with
        | none => simp [ha] at h
        | some x =>
          cases hb : denV env b with
          | none => simp [ha, hb] at h
          | some y =>
            simp only [ha, hb] at h
            split at h
            · rename_i hxy
              simp only [Option.some.injEq] at h
              subst h
              simp [den, iha x ha, ihb y hb, bind, Except.bind, BinOp.apply,
                floordiv_cv x y hxy.2, toValue_i, toValue_b]
            · cases h
      | rem =>
        simp only [denV] at h
        cases ha : denV env a with
        | none => simp [ha] at h
        | some x =>
          cases hb : denV env b with
          | none => simp [ha, hb] at h
          | some y =>
            simp only [ha, hb] at h
            split at h
            · rename_i hxy
              simp only [Option.some.injEq] at h
              subst h
              simp [den, iha x ha, ihb y hb, bind, Except.bind, BinOp.apply, mod_cv x y hxy.2,
                toValue_i, toValue_b]
            · cases h
      | lshift =>
        simp only [denV] at h
        cases ha : denV env a with
        | none => simp [ha] at h
        | some x =>
          cases hb : denV env b with
          | none => simp [ha, hb] at h
          | some y =>
            simp only [ha, hb] at h
            split at h
            · rename_i hxy
              simp only [Option.some.injEq] at h
              subst h
              simp [den, iha x ha, ihb y hb, bind, Except.bind, BinOp.apply,
                lshift_cv x y hxy.2.1 hxy.2.2, toValue_i, toValue_b]
            · cases h
      | rshift =>
        simp only [denV] at h
        cases ha : denV env a with
        | none => simp [ha] at h
        | some x =>
          cases hb : denV env b with
          | none => simp [ha, hb] at h
          | some y =>
            simp only [ha, hb] at h
            split at h
            · rename_i hxy
              simp only [Option.some.injEq] at h
              subst h
              simp [den, iha x ha, ihb y hb, bind, Except.bind, BinOp.apply,
                rshift_cv x y hxy.2.1 hxy.2.2, toValue_i, toValue_b]
            · cases h
      | pow =>
        cases b with
        | const c =>
          cases c with
          | int n =>
            simp only [denV] at h
            split at h
            · rename_i hn
              subst hn
              cases ha : denV env a with
              | none => simp [ha] at h
              | some x =>
                simp only [ha, Option.map_some, Option.some.injEq] at h
                subst h
                simp [den, iha x ha, Const.den, bind, Except.bind, BinOp.apply, pow_two_cv,
                  toValue_i, toValue_b, pure, Except.pure]
            · cases h
          | _ => simp [denV] at h
        | _ => simp [denV] at h
    | un op a =>
      have iha := ih a (by simp [Expr.children])
      cases op with
      | lnot =>
        simp only [denV] at h
        cases ha : denV env a with
        | none => simp [ha] at h
        | some x =>
          simp only [ha, Option.map_some, Option.some.injEq] at h
          subst h
          simp only [den, iha x ha, bind, Except.bind, truthy_cv, pure, Except.pure, toValue_i, toValue_b]
          by_cases hx : x.toInt = 0 <;> simp [hx, bne]
      | bnot =>
        simp only [denV] at h
        cases ha : denV env a with
        | none => simp [ha] at h
        | some x =>
          simp only [ha, Option.map_some, Option.some.injEq] at h
          subst h
          simp [den, iha x ha, bind, Except.bind, invert_cv, toValue_i, toValue_b]
    | cmp o a b =>
      have iha := ih a (by simp [Expr.children])
      have ihb := ih b (by simp [Expr.children])
      simp only [denV] at h
      cases ha : denV env a with
      | none => simp [ha] at h
      | some x =>
        cases hb : denV env b with
        | none => simp [ha, hb] at h
        | some y =>
          simp only [ha, hb, Option.some.injEq] at h
          subst h
          simp [den, iha x ha, ihb y hb, bind, Except.bind, cmp_cv, toValue_i, toValue_b]
    | ite c t e =>
      have ihc := ih c (by simp [Expr.children])
      have iht := ih t (by simp [Expr.children])
      have ihe := ih e (by simp [Expr.children])
      simp only [denV] at h
      cases hc : denV env c with
      | none => simp [hc] at h
      | some w =>
        simp only [hc] at h
        simp only [den, ihc w hc, bind, Except.bind, truthy_cv]
        by_cases hw : w.toInt = 0
        · simp only [hw, if_true] at h
          simp only [hw, bne_self_eq_false, Bool.false_eq_true, if_false]
          exact ihe v h
        · simp only [hw, if_false] at h
          simp only [bne_iff_ne, ne_eq, hw, not_false_eq_true, decide_true, if_true]
          exact iht v h
    | _ => simp [denV] at h

end PV.C14
