import PV.Proofs.SyntaxPrint
/-
  C06.  Printing followed by parsing on the fragment `Printable P S`: the main lemma, in the
  continuation-passing form of `design-experiments/B5_PrattRoundtrip.lean`:

    if the postfix loop, started with the (normal form of the) tree `t` as its left operand on the
    remaining input `R`, returns `res`, then `parse_expression` on `tokens(t) ++ R` returns `res`.

  The two side conditions are the invariants of B5: every operator on the unparenthesised left
  spine of `t` is absorbed at the current level (`lguard > m`), and no loop that is still open
  at the right end of `t` absorbs the first token of `R`.  They are derived node by node from
  `okTriple`.  Fuel: `G k n = max (2 n + 1) (k + n)` for a printed form of `n` tokens.
-/
namespace PV.Syntax
open PV

variable {P : ParserPrec} {S : PrintPrec}

/-- fuel that suffices for a printed form of `n` tokens when the continuation needs `k` -/
def G (k n : Nat) : Nat := max (2 * n + 1) (k + n)

def lguardE (P : ParserPrec) (t : Expr) : Option Nat :=
  match kind t with | some k => k.lguard P | none => none
def rlevelE (P : ParserPrec) (t : Expr) : Option Nat :=
  match kind t with | some k => k.rlevel P | none => none

/-- the loop still open at level `rl` (if any) does not react to the head of `R` -/
def NAK (P : ParserPrec) (rl : Option Nat) (R : List Tok) : Prop :=
  match rl with | none => True | some l => ¬ absorbs P l R

def Goal (P : ParserPrec) (S : PrintPrec) (t : Expr) : Prop :=
  ∀ enc ps, strE S t enc = .ok ps → ∀ m R res k,
    (if wrappedE S enc t then gtO (lguardE P t) 0
      else gtO (lguardE P t) m ∧ NAK P (rlevelE P t) R) →
    PLok P k m (pnf t) (finOf t) R res → PEok P (G k (toks ps).length) m (toks ps ++ R) res

/-- the statement for the unparenthesised token list `T0` of `t` -/
def Bare (P : ParserPrec) (t : Expr) (T0 : List Tok) : Prop :=
  ∀ m R res k, gtO (lguardE P t) m → NAK P (rlevelE P t) R →
    PLok P k m (pnf t) (finOf t) R res → PEok P (G k T0.length) m (T0 ++ R) res

theorem NAK_rparen {rl R} : NAK P rl (.sym ")" :: R) := by
  unfold NAK; split
  · trivial
  · exact not_absorbs_rparen

theorem goal_of_bare {t : Expr} {T0 : List Tok} (hb : Bare P t T0)
    (hnt : ∀ cs, pnf t ≠ .tuple cs) (hfin : finOf t = false) {w : Bool} {T : List Tok}
    (hT : T = wrapT w T0) {m R res k}
    (hc : if w then gtO (lguardE P t) 0 else gtO (lguardE P t) m ∧ NAK P (rlevelE P t) R)
    (hl : PLok P k m (pnf t) (finOf t) R res) : PEok P (G k T.length) m (T ++ R) res := by
  subst hT
  rw [hfin] at hl
  cases w with
  | false =>
    simp only [wrapT] at *
    exact hb m R res k hc.1 hc.2 (by rw [hfin]; exact hl)
  | true =>
    simp only [wrapT, if_true] at *
    have h0 := hb 0 (.sym ")" :: R) (pnf t, .sym ")" :: R) 1 hc NAK_rparen
      (PL_stop not_absorbs_rparen)
    have h1 := PE_mk (PP_paren h0 hnt) hl
    simp only [List.cons_append, List.append_assoc, List.nil_append]
    refine h1.mono ?_
    simp only [G, List.length_cons, List.length_append, List.length_nil]
    omega


theorem okAt_iff {pos : Pos} {c : Expr} (h : okAt P S pos c = true) :
    ∃ kc, kind c = some kc ∧ okTriple P S pos kc = true := by
  unfold okAt at h
  split at h
  · exact ⟨_, ‹_›, h⟩
  · cases h

theorem spliceNary_isNary (op : NaryOp) (l r : Expr) : ∃ ys, spliceNary op l r = .nary op ys := by
  unfold spliceNary
  split
  · split <;> exact ⟨_, rfl⟩
  · exact ⟨_, rfl⟩

theorem pnfSum_isNary : ∀ (cs : List Expr) (xs : List Expr),
    ∃ ys, pnfSum (.nary .sum xs) cs = .nary .sum ys
  | [], xs => ⟨xs, by simp [pnfSum]⟩
  | c :: cs, xs => by
    obtain ⟨ys, hys⟩ := spliceNary_isNary .sum (.nary .sum xs) (pnf c)
    simp only [pnfSum, hys]
    exact pnfSum_isNary cs ys

theorem pnfProd_cons2 (c d : Expr) (ds : List Expr) :
    pnfProd (c :: d :: ds) = spliceNary .prod (pnf c) (pnfProd (d :: ds)) := by
  simp [pnfProd]

theorem pnfProd_one (c : Expr) : pnfProd [c] = pnf c := by simp [pnfProd]

theorem pnf_ne_tuple {t : Expr} (hp : Printable P S t = true) (hk : kind t ≠ some .tuple) :
    ∀ cs, pnf t ≠ .tuple cs := by
  intro cs
  cases t with
  | const c => simp [pnf]
  | var => simp [pnf]
  | nary o ds =>
    cases o with
    | sum =>
      match ds, hp with
      | c :: d :: ds', _ =>
        obtain ⟨ys, hys⟩ := spliceNary_isNary .sum (pnf c) (pnf d)
        obtain ⟨zs, hzs⟩ := pnfSum_isNary ds' ys
        simp [pnf, pnfSum, hys, hzs]
      | [], hp => simp [Printable] at hp
      | [_], hp => simp [Printable] at hp
    | prod =>
      match ds, hp with
      | c :: d :: ds', _ =>
        obtain ⟨ys, hys⟩ := spliceNary_isNary .prod (pnf c) (pnfProd (d :: ds'))
        simp only [pnf, pnfProd_cons2, hys]; simp
      | [], hp => simp [Printable] at hp
      | [_], hp => simp [Printable] at hp
    | _ => simp [pnf]
  | bin => simp [pnf]
  | un => simp [pnf]
  | cmp => simp [pnf]
  | ite => simp [pnf]
  | call => simp [pnf]
  | callKw => simp [pnf]
  | subscript => simp [pnf]
  | lookup => simp [pnf]
  | list => simp [pnf]
  | slice => simp [pnf]
  | tuple => simp [kind] at hk
  | _ => simp [Printable] at hp

theorem finOf_false {t : Expr} {k : Kind} (hk : kind t = some k) (h1 : k ≠ .tuple)
    (h2 : k ≠ .list) : finOf t = false := by
  cases t <;> simp_all [kind, finOf]

theorem paren_facts {c : Expr} {kc : Kind} (hp : Printable P S c = true) (hk : kind c = some kc)
    (h1 : kc ≠ .tuple) (h2 : kc ≠ .list) : (∀ cs, pnf c ≠ .tuple cs) ∧ finOf c = false :=
  ⟨pnf_ne_tuple hp (by rw [hk]; simpa using h1), finOf_false hk h1 h2⟩

theorem forces_kind {pos : Pos} {k : Kind} (h : pos.forces k = true) : k ≠ .tuple ∧ k ≠ .list := by
  constructor <;> rintro rfl <;> cases pos <;> simp [Pos.forces] at h <;>
    (rename_i o; cases o <;> simp [Infix.forces, Kind.isMult, Kind.isDiv] at h)

theorem wrapped_kind {S : PrintPrec} {enc : Nat} {k : Kind} (h : wrappedK S enc k = true) :
    k ≠ .tuple ∧ k ≠ .list := by
  constructor <;> rintro rfl <;> simp [wrappedK, Kind.myPrec] at h

theorem gtO_of_geO {a : Option Nat} {x y : Nat} (h : geO a x) (hxy : x > y) : gtO a y := by
  cases a <;> simp [geO, gtO] at * <;> omega

theorem NAK_of_geO {a : Option Nat} {x : Nat} {R} (h : geO a x) (hR : ¬ absorbs P x R) :
    NAK P a R := by
  cases a with
  | none => trivial
  | some l => exact fun hab => hR (absorbs_mono (by simpa [geO] using h) hab)

/-- an operand `c` at position `pos`: its printed form (with the forced parentheses of the
position) followed by `R`, read at level `m` -/
theorem operand {c : Expr} {pos : Pos} {kc : Kind} {x : Pieces} (hg : Goal P S c)
    (hk : kind c = some kc) (hok : okTriple P S pos kc = true)
    (hp : Printable P S c = true)
    (hx : strE S c (pos.enc S) = .ok x) {m : Nat} {R : List Tok} {res k}
    (hl : pos.lge P > m) (hr : ¬ absorbs P (pos.rge P) R)
    (hcont : PLok P k m (pnf c) (finOf c) R res) :
    PEok P (G k (wrapT (pos.forces kc) (toks x)).length) m
      (wrapT (pos.forces kc) (toks x) ++ R) res := by
  have hlg : lguardE P c = kc.lguard P := by simp [lguardE, hk]
  have hrl : rlevelE P c = kc.rlevel P := by simp [rlevelE, hk]
  have hw : wrappedE S (pos.enc S) c = wrappedK S (pos.enc S) kc := by simp [wrappedE, hk]
  simp only [okTriple, parenthesised, Bool.and_eq_true] at hok
  replace hok := hok.2
  cases hf : pos.forces kc with
  | true =>
    obtain ⟨hnt, hfin⟩ := paren_facts hp hk (forces_kind hf).1 (forces_kind hf).2
    simp only [hf, Bool.true_or, if_true, decide_eq_true_eq] at hok
    have h0 : gtO (kc.lguard P) 0 := gtO_of_geO hok (by omega)
    have hb : Bare P c (toks x) := by
      intro m' R' res' k' h1 h2 h3
      refine hg _ _ hx m' R' res' k' ?_ h3
      split
      · rw [hlg]; exact h0
      · exact ⟨h1, h2⟩
    exact goal_of_bare hb hnt hfin rfl (by simpa [hlg] using h0) hcont
  | false =>
    simp only [hf, Bool.false_or] at hok
    simp only [wrapT, Bool.false_eq_true, if_false]
    refine hg _ _ hx m R res k ?_ hcont
    rw [hw, hlg, hrl]
    cases hwk : wrappedK S (pos.enc S) kc with
    | true =>
      simp only [hwk, if_true, decide_eq_true_eq] at hok
      simpa using gtO_of_geO hok (by omega)
    | false =>
      simp only [hwk, Bool.false_eq_true, if_false, Bool.and_eq_true, decide_eq_true_eq] at hok
      simp only [Bool.false_eq_true, if_false]
      exact ⟨gtO_of_geO hok.1 hl, NAK_of_geO hok.2 hr⟩


theorem infix_case {t : Expr} {o : Infix} {a b : Expr} (hv : infixOf t = some (o, a, b))
    (hp : Printable P S t = true) (ha : Goal P S a) (hb : Goal P S b) : Goal P S t := by
  obtain ⟨hk, hpnf, hpr, -, -⟩ := infixOf_facts (P := P) (S := S) hv
  have hfin : finOf t = false := finOf_false hk (by cases o <;> simp [infixKind])
    (by cases o <;> simp [infixKind])
  rw [hpr] at hp
  simp only [Bool.and_eq_true] at hp
  obtain ⟨⟨⟨hoa, hob⟩, hpa⟩, hpb⟩ := hp
  obtain ⟨ka, hka, hoka⟩ := okAt_iff hoa
  obtain ⟨kb, hkb, hokb⟩ := okAt_iff hob
  intro enc ps hs m R res k hc hl
  obtain ⟨x, y, hx, hy, htoks⟩ := strE_infix hv hs
  rw [forcesE_kind hka, forcesE_kind hkb] at htoks
  have hlg : lguardE P t = some (o.guard P) := by simp [lguardE, hk, infixKind_lguard]
  have hrl : rlevelE P t = some (o.rhs P) := by simp [rlevelE, hk, infixKind_rlevel]
  refine goal_of_bare ?_ ?_ hfin htoks hc hl
  · intro m R res k hgm hna hl
    rw [hlg] at hgm; rw [hrl] at hna
    simp only [gtO, NAK] at hgm hna
    rw [hpnf, hfin] at hl
    have hr := operand (pos := .right o) hb hkb hokb hpb hy (m := o.rhs P)
      (R := R) (by simp [Pos.lge]) (by simpa [Pos.rge] using hna) (PL_stop hna)
    have hX := PL_infix o (l := pnf a) (fin := finOf a) hgm hr hl
    have hL := operand (pos := .left o) ha hka hoka hpa hx (m := m)
      (by simpa [Pos.lge] using hgm)
      (by simp only [Pos.rge]; rw [absorbs_infix]; omega) hX
    simp only [Pos.forces] at hr hX hL ⊢
    simp only [List.append_assoc, List.cons_append]
    refine hL.mono ?_
    simp only [G, List.length_append, List.length_cons]
    omega
  · rw [hpnf]; intro cs
    cases o with
    | plus => obtain ⟨ys, hys⟩ := spliceNary_isNary .sum (pnf a) (pnf b); simp [Infix.build, hys]
    | times => obtain ⟨ys, hys⟩ := spliceNary_isNary .prod (pnf a) (pnf b); simp [Infix.build, hys]
    | _ => simp [Infix.build]


theorem G_one (k : Nat) : max 1 k + 1 ≤ G k 1 := by simp only [G]; omega

theorem var_case (x : String) : Goal P S (.var x) := by
  intro enc ps hs m R res k _ hl
  rw [strE_var hs]
  exact (PE_mk PP_ident hl).mono (G_one k)

theorem bool_case (b : Bool) : Goal P S (.const (.bool b)) := by
  intro enc ps hs m R res k _ hl
  rw [strE_bool hs]
  cases b
  · exact (PE_mk PP_false hl).mono (G_one k)
  · exact (PE_mk PP_true hl).mono (G_one k)

theorem int_case (n : Int) : Goal P S (.const (.int n)) := by
  intro enc ps hs m R res k hc hl
  refine goal_of_bare ?_ (by simp [pnf]) rfl (strE_int hs) hc hl
  intro m R res k _ hna hl
  simp only [pnf, finOf] at hl
  by_cases hn : n < 0
  · simp only [hn, if_true]
    have hrl : rlevelE P (.const (.int n)) = some P.unary := by simp [rlevelE, kind, hn, Kind.rlevel]
    rw [hrl] at hna
    have h1 : PEok P _ P.unary (.int n.natAbs :: R) (.const (.int n.natAbs), R) :=
      PE_mk PP_int (PL_stop hna)
    have hneg : parseNeg (.const (.int (n.natAbs : Nat))) = .ok (.const (.int n)) := by
      have : -(n.natAbs : Int) = n := by omega
      simp [parseNeg, negE, Const.neg, this, pure, Except.pure]
    refine (PE_mk (PP_neg h1 hneg) hl).mono ?_
    simp only [G, List.length_cons, List.length_nil]; omega
  · simp only [hn, if_false]
    have : ((n.toNat : Nat) : Int) = n := by omega
    have h1 := PE_mk (P := P) (PP_int (n := n.toNat) (r := R)) (by rw [this]; exact hl)
    exact h1.mono (G_one k)

theorem flt_case (r : String) (n : Int) (d : Nat) {k : Kind} (hk : fltKind r d = some k) :
    Goal P S (.const (.flt r n d)) := by
  intro enc ps hs m R res k' hc hl
  refine goal_of_bare ?_ (by simp [pnf]) rfl (strE_flt hk hs) hc hl
  intro m R res k' _ hna hl
  simp only [pnf, finOf] at hl
  by_cases hneg : r.startsWith "-" = true
  · simp only [hneg, if_true]
    have hd : d ≠ 0 := by
      intro hd; simp [fltKind, hd] at hk
    have hok : negFloatOk r = true := by
      simp only [fltKind, hd, if_false, hneg, if_true] at hk
      split at hk
      · assumption
      · cases hk
    have hk' : fltKind r d = some .neg := by
      simp only [fltKind, hd, if_false, hneg, if_true, hok]
    have hrl : rlevelE P (.const (.flt r n d)) = some P.unary := by
      simp [rlevelE, kind, hk', Kind.rlevel]
    rw [hrl] at hna
    simp only [negFloatOk, Bool.and_eq_true, decide_eq_true_eq, Bool.not_eq_true'] at hok
    have h1 : PEok P _ P.unary (.flt (r.drop 1).toString (-n) d :: R)
        (.const (.flt (r.drop 1).toString (-n) d), R) := PE_mk PP_flt (PL_stop hna)
    have hnegE : parseNeg (.const (.flt (r.drop 1).toString (-n) d)) = .ok (.const (.flt r n d)) := by
      simp only [parseNeg, negE, Const.neg, hok.2, Bool.false_eq_true, if_false, hok.1,
        Int.neg_neg, pure, Except.pure]
    refine (PE_mk (PP_neg h1 hnegE) hl).mono ?_
    simp only [G, List.length_cons, List.length_nil]; omega
  · simp only [hneg, Bool.false_eq_true, if_false]
    exact (PE_mk PP_flt hl).mono (G_one k')

theorem un_case {o : UnOp} {a : Expr} (hp : Printable P S (.un o a) = true) (ha : Goal P S a) :
    Goal P S (.un o a) := by
  simp only [Printable, Bool.and_eq_true] at hp
  obtain ⟨hoa, hpa⟩ := hp
  obtain ⟨ka, hka, hoka⟩ := okAt_iff hoa
  intro enc ps hs m R res k hc hl
  obtain ⟨x, hx, htoks⟩ := strE_un hs
  refine goal_of_bare ?_ (by simp [pnf]) rfl htoks hc hl
  intro m R res k _ hna hl
  have hrl : rlevelE P (.un o a) = some P.unary := by simp [rlevelE, kind, Kind.rlevel]
  rw [hrl] at hna
  simp only [NAK] at hna
  have h1 := operand (pos := .unArg) ha hka hoka hpa hx (m := P.unary) (R := R)
    (by simp [Pos.lge]) (by simpa [Pos.rge] using hna) (PL_stop hna)
  simp only [Pos.forces, wrapT, Bool.false_eq_true, if_false] at h1
  simp only [pnf, finOf] at hl
  cases o with
  | bnot =>
    refine (PE_mk (PP_bnot h1) hl).mono ?_
    simp only [G, List.length_cons]; omega
  | lnot =>
    refine (PE_mk (PP_lnot h1) hl).mono ?_
    simp only [G, List.length_cons]; omega

theorem ite_case {c t e : Expr} (hp : Printable P S (.ite c t e) = true) (hc' : Goal P S c)
    (ht : Goal P S t) (he : Goal P S e) : Goal P S (.ite c t e) := by
  simp only [Printable, Bool.and_eq_true] at hp
  obtain ⟨⟨⟨⟨⟨hoc, hot⟩, hoe⟩, hpc⟩, hpt⟩, hpe⟩ := hp
  obtain ⟨kc, hkc, hokc⟩ := okAt_iff hoc
  obtain ⟨kt, hkt, hokt⟩ := okAt_iff hot
  obtain ⟨ke, hke, hoke⟩ := okAt_iff hoe
  intro enc ps hs m R res k hc hl
  obtain ⟨x, y, z, hx, hy, hz, htoks⟩ := strE_ite hs
  refine goal_of_bare ?_ (by simp [pnf]) rfl htoks hc hl
  intro m R res k hgm hna hl
  have hlg : lguardE P (.ite c t e) = some P.ifp := by simp [lguardE, kind, Kind.lguard]
  have hrl : rlevelE P (.ite c t e) = some 0 := by simp [rlevelE, kind, Kind.rlevel]
  rw [hlg] at hgm; rw [hrl] at hna
  simp only [NAK, gtO] at hna hgm
  simp only [pnf, finOf] at hl
  have h3 := operand (pos := .iteElse) he hke hoke hpe hz (m := 0) (R := R)
    (by simp [Pos.lge]) (by simpa [Pos.rge] using hna) (PL_stop hna)
  have h2 := operand (pos := .iteCond) hc' hkc hokc hpc hy (m := P.ifp)
    (R := .sym "else" :: (toks z ++ R))
    (by simp [Pos.lge]) not_absorbs_else (PL_stop not_absorbs_else)
  simp only [Pos.forces, wrapT, Bool.false_eq_true, if_false] at h2 h3
  have hX := PL_ite (l := pnf t) (fin := finOf t) hgm h2 h3 hl
  have h1 := operand (pos := .iteThen) ht hkt hokt hpt hx (m := m)
    (by simpa [Pos.lge] using hgm) (by simp only [Pos.rge]; rw [absorbs_if]; omega) hX
  simp only [Pos.forces, wrapT, Bool.false_eq_true, if_false] at h1
  simp only [List.append_assoc, List.cons_append]
  refine h1.mono ?_
  simp only [G, List.length_append, List.length_cons]
  omega


/-! ### sums: `c₁ + c₂ + … + cₙ`, spliced from the left -/

theorem sum_chain : ∀ (cs : List Expr) (xs : List Pieces), strL S cs S.sum = .ok xs →
    (∀ c ∈ cs, Goal P S c) → PrintableAll P S (.right .plus) cs = true →
    ∀ (L : Expr) (fin : Bool) (m : Nat) (R : List Tok) res k, (cs = [] → fin = false) →
      P.plus > m → ¬ absorbs P P.plus R →
      PLok P k m (pnfSum L cs) false R res →
      PLok P (G k (chainT "+" xs).length) m L fin (chainT "+" xs ++ R) res
  | [], xs, hs, _, _, L, fin, m, R, res, k, hfin, _, _, hl => by
      rw [strL_nil hs, hfin rfl]
      simp only [chainT, pnfSum, List.nil_append, List.length_nil] at *
      exact hl.mono (by simp only [G]; omega)
  | c :: cs, xs, hs, hg, hp, L, fin, m, R, res, k, _, hm, hna, hl => by
      obtain ⟨x, xs', hx, hxs, rfl⟩ := strL_cons hs
      simp only [PrintableAll, Bool.and_eq_true] at hp
      obtain ⟨⟨hoc, hpc⟩, hpcs⟩ := hp
      obtain ⟨kc, hkc, hokc⟩ := okAt_iff hoc
      have hna' : ¬ absorbs P P.plus (chainT "+" xs' ++ R) := by
        cases xs' with
        | nil => simpa [chainT] using hna
        | cons y ys => simp only [chainT, List.cons_append]; rw [absorbs_plus]; omega
      have hr := operand (pos := .right .plus) (hg c (List.mem_cons_self ..)) hkc hokc
        hpc hx (m := P.plus) (R := chainT "+" xs' ++ R)
        (by simp [Pos.lge, Infix.rhs]) (by simpa [Pos.rge, Infix.rhs] using hna') (PL_stop hna')
      have ih := sum_chain cs xs' hxs (fun c hc => hg c (List.mem_cons_of_mem _ hc)) hpcs
        (spliceNary .sum L (pnf c)) false m R res k (fun _ => rfl) hm hna
        (by simpa [pnfSum] using hl)
      have hX := PL_infix .plus (l := L) (fin := fin) hm hr ih
      simp only [Pos.forces, Infix.forces, wrapT, Bool.false_eq_true, if_false] at hX
      simp only [chainT, List.cons_append, List.append_assoc]
      refine hX.mono ?_
      simp only [G, List.length_append, List.length_cons]
      omega

theorem sum_case {c d : Expr} {cs : List Expr}
    (hp : Printable P S (.nary .sum (c :: d :: cs)) = true)
    (hg : ∀ e ∈ c :: d :: cs, Goal P S e) : Goal P S (.nary .sum (c :: d :: cs)) := by
  simp only [Printable, Bool.and_eq_true] at hp
  obtain ⟨⟨hoc, hpc⟩, hpcs⟩ := hp
  obtain ⟨kc, hkc, hokc⟩ := okAt_iff hoc
  have hnt : ∀ ys, pnf (.nary .sum (c :: d :: cs)) ≠ .tuple ys :=
    pnf_ne_tuple (P := P) (S := S) (by simp [Printable, hoc, hpc, hpcs]) (by simp [kind])
  intro enc ps hs m R res k hc hl
  obtain ⟨xs, hxs, htoks⟩ := strE_sum hs
  obtain ⟨x, xs', hx, hxs', rfl⟩ := strL_cons hxs
  rw [toks_joinWith (s := "+") (by simp)] at htoks
  refine goal_of_bare ?_ hnt rfl htoks hc hl
  intro m R res k hgm hna hl
  have hlg : lguardE P (.nary .sum (c :: d :: cs)) = some P.plus := by
    simp [lguardE, kind, Kind.lguard, naryInfix, Infix.guard]
  have hrl : rlevelE P (.nary .sum (c :: d :: cs)) = some P.plus := by
    simp [rlevelE, kind, Kind.rlevel, naryInfix, Infix.rhs]
  rw [hlg] at hgm; rw [hrl] at hna
  simp only [NAK, gtO] at hna hgm
  simp only [pnf, finOf] at hl
  have hX := sum_chain (d :: cs) xs' hxs' (fun e he => hg e (List.mem_cons_of_mem _ he)) hpcs
    (pnf c) (finOf c) m R res k (fun h => by cases h) hgm hna hl
  obtain ⟨y, ys, rfl⟩ : ∃ y ys, xs' = y :: ys := by
    obtain ⟨y, ys, _, _, rfl⟩ := strL_cons hxs'; exact ⟨y, ys, rfl⟩
  have h1 := operand (pos := .left .plus) (hg c (List.mem_cons_self ..)) hkc hokc
    hpc hx (m := m) (R := chainT "+" (y :: ys) ++ R)
    (by simpa [Pos.lge, Infix.guard] using hgm)
    (by simp only [Pos.rge, Infix.guard, chainT, List.cons_append]; rw [absorbs_plus]; omega) hX
  simp only [Pos.forces, Infix.forces, wrapT, Bool.false_eq_true, if_false] at h1
  simp only [List.append_assoc]
  refine h1.mono ?_
  simp only [G, List.length_append]
  omega

/-! ### products: `c₁*c₂*…*cₙ`, read as `c₁*(c₂*(…*cₙ))` -/

theorem prod_tail : ∀ (c : Expr) (cs : List Expr) (xs : List Pieces),
    strForceL S false (c :: cs) S.product = .ok xs →
    (∀ d ∈ c :: cs, Goal P S d) → PrintableProd P S (c :: cs) = true →
    (cs ≠ [] → P.times > P.plus) → ∀ R, ¬ absorbs P P.plus R →
    ∃ x xs', xs = x :: xs' ∧
      PEok P (G 1 (toks x ++ chainT "*" xs').length) P.plus
        (toks x ++ chainT "*" xs' ++ R) (pnfProd (c :: cs), R)
  | c, [], xs, hs, hg, hp, _, R, hna => by
      obtain ⟨x, xs', hx, hxs, rfl⟩ := strForceL_cons hs
      rw [strForceL_nil hxs]
      refine ⟨_, _, rfl, ?_⟩
      simp only [PrintableProd, Bool.and_eq_true] at hp
      obtain ⟨hoc, hpc⟩ := hp
      obtain ⟨kc, hkc, hokc⟩ := okAt_iff hoc
      have hr := operand (pos := .right .times) (hg c (List.mem_cons_self ..)) hkc hokc
        hpc hx (m := P.plus) (R := R)
        (by simp [Pos.lge, Infix.rhs]) (by simpa [Pos.rge, Infix.rhs] using hna) (PL_stop hna)
      simp only [toks_forceWrap, Bool.false_eq_true, if_false, chainT, List.append_nil,
        pnfProd_one]
      have : isDivision c = Infix.times.forces kc := forcesE_kind (o := .times) hkc
      rw [this]
      exact hr
  | c, d :: ds, xs, hs, hg, hp, htp, R, hna => by
      obtain ⟨x, xs', hx, hxs, rfl⟩ := strForceL_cons hs
      refine ⟨_, _, rfl, ?_⟩
      have hp' : (okAt P S (.left .times) c && Printable P S c
          && PrintableProd P S (d :: ds)) = true := by simpa [PrintableProd] using hp
      simp only [Bool.and_eq_true] at hp'
      obtain ⟨⟨hoc, hpc⟩, hpcs⟩ := hp'
      obtain ⟨kc, hkc, hokc⟩ := okAt_iff hoc
      have htp' : P.times > P.plus := htp (by simp)
      obtain ⟨y, ys, rfl, ih⟩ := prod_tail d ds xs' hxs
        (fun e he => hg e (List.mem_cons_of_mem _ he)) hpcs (fun _ => htp') R hna
      have hX := PL_infix .times (l := pnf c) (fin := finOf c) htp' ih (PL_stop hna)
      have h1 := operand (pos := .left .times) (hg c (List.mem_cons_self ..)) hkc hokc
        hpc hx (m := P.plus)
        (R := .sym "*" :: (toks y ++ chainT "*" ys ++ R))
        (by simpa [Pos.lge, Infix.guard] using htp')
        (by simp only [Pos.rge, Infix.guard]; rw [absorbs_times]; omega) hX
      simp only [toks_forceWrap, Bool.false_eq_true, if_false, chainT, pnfProd_cons2]
      have : isDivision c = Infix.times.forces kc := forcesE_kind (o := .times) hkc
      rw [this]
      simp only [Pos.forces, Infix.build] at h1
      simp only [List.append_assoc, List.cons_append] at h1 ⊢
      refine h1.mono ?_
      simp only [G, List.length_append, List.length_cons]
      omega

theorem prod_case {c d : Expr} {cs : List Expr}
    (hp : Printable P S (.nary .prod (c :: d :: cs)) = true)
    (hg : ∀ e ∈ c :: d :: cs, Goal P S e) : Goal P S (.nary .prod (c :: d :: cs)) := by
  have hnt : ∀ ys, pnf (.nary .prod (c :: d :: cs)) ≠ .tuple ys :=
    pnf_ne_tuple hp (by simp [kind])
  simp only [Printable, Bool.and_eq_true] at hp
  obtain ⟨hpp, htp⟩ := hp
  have hp' : (okAt P S (.left .times) c && Printable P S c
      && PrintableProd P S (d :: cs)) = true := by simpa [PrintableProd] using hpp
  simp only [Bool.and_eq_true] at hp'
  obtain ⟨⟨hoc, hpc⟩, hpcs⟩ := hp'
  obtain ⟨kc, hkc, hokc⟩ := okAt_iff hoc
  intro enc ps hs m R res k hc hl
  obtain ⟨xs, hxs, htoks⟩ := strE_prod hs
  obtain ⟨x, xs', hx, hxs', rfl⟩ := strForceL_cons hxs
  rw [toks_joinWith (s := "*") (by simp)] at htoks
  refine goal_of_bare ?_ hnt rfl htoks hc hl
  intro m R res k hgm hna hl
  have hlg : lguardE P (.nary .prod (c :: d :: cs)) = some P.times := by
    simp [lguardE, kind, Kind.lguard, naryInfix, Infix.guard]
  have hrl : rlevelE P (.nary .prod (c :: d :: cs)) = some P.plus := by
    simp [rlevelE, kind, Kind.rlevel, naryInfix, Infix.rhs]
  rw [hlg] at hgm; rw [hrl] at hna
  simp only [NAK, gtO] at hna hgm
  simp only [pnf, pnfProd_cons2, finOf] at hl
  obtain ⟨y, ys, rfl, hr⟩ := prod_tail d cs xs' hxs'
    (fun e he => hg e (List.mem_cons_of_mem _ he)) hpcs
    (fun hne => by
      cases cs with
      | nil => exact absurd rfl hne
      | cons _ _ => simpa using htp) R hna
  have hX := PL_infix .times (l := pnf c) (fin := finOf c) hgm hr hl
  have h1 := operand (pos := .left .times) (hg c (List.mem_cons_self ..)) hkc hokc
    hpc hx (m := m)
    (R := .sym "*" :: (toks y ++ chainT "*" ys ++ R))
    (by simpa [Pos.lge, Infix.guard] using hgm)
    (by simp only [Pos.rge, Infix.guard]; rw [absorbs_times]; omega) hX
  simp only [toks_forceWrap, Bool.false_eq_true, if_false, chainT]
  have : isDivision c = Infix.times.forces kc := forcesE_kind (o := .times) hkc
  rw [this]
  simp only [Pos.forces] at h1
  simp only [List.append_assoc, List.cons_append] at h1 ⊢
  refine h1.mono ?_
  simp only [G, List.length_append, List.length_cons]
  omega


end PV.Syntax
