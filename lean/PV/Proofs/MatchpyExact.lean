import PV.Proofs.MatchpyRoundtrip
/-
  C16, matchpy bridge: which trees convert (`convertible`), and which come back EXACTLY
  (`bridgeNormal`).
-/
namespace PV.Matchpy
open PV

mutual
theorem MTerm.beq_eq : ∀ (a b : MTerm), MTerm.beq a b = true → a = b
  | .scalar c v, .scalar c' v', h => by
    simp only [MTerm.beq, Bool.and_eq_true, beq_iff_eq] at h; rw [h.1, h.2]
  | .id s v, .id s' v', h => by
    simp only [MTerm.beq, Bool.and_eq_true, beq_iff_eq] at h; rw [h.1, h.2]
  | .cmpOp s v, .cmpOp s' v', h => by
    simp only [MTerm.beq, Bool.and_eq_true, beq_iff_eq] at h; rw [h.1, h.2]
  | .wild k n, .wild k' n', h => by
    simp only [MTerm.beq, Bool.and_eq_true, beq_iff_eq] at h; rw [h.1, h.2]
  | .op o as v, .op o' as' v', h => by
    simp only [MTerm.beq, Bool.and_eq_true, beq_iff_eq] at h
    rw [h.1.1, MTerm.beqL_eq as as' h.1.2, h.2]
  | .scalar .., .id .., h | .scalar .., .cmpOp .., h | .scalar .., .op .., h
  | .scalar .., .wild .., h | .id .., .scalar .., h | .id .., .cmpOp .., h | .id .., .op .., h
  | .id .., .wild .., h | .cmpOp .., .scalar .., h | .cmpOp .., .id .., h | .cmpOp .., .op .., h
  | .cmpOp .., .wild .., h | .op .., .scalar .., h | .op .., .id .., h | .op .., .cmpOp .., h
  | .op .., .wild .., h | .wild .., .scalar .., h | .wild .., .id .., h | .wild .., .cmpOp .., h
  | .wild .., .op .., h => by simp [MTerm.beq] at h
theorem MTerm.beqL_eq : ∀ (as bs : List MTerm), MTerm.beqL as bs = true → as = bs
  | [], [], _ => rfl
  | a :: as, b :: bs, h => by
    simp only [MTerm.beqL, Bool.and_eq_true] at h
    rw [MTerm.beq_eq a b h.1, MTerm.beqL_eq as bs h.2]
  | [], _ :: _, h => by simp [MTerm.beqL] at h
  | _ :: _, [], h => by simp [MTerm.beqL] at h
end

/-! ### which trees convert -/

mutual
/-- the trees `ToMatchpyExpressionMapper` accepts: numbers, variables, the seven n-ary operators
other than `Min` / `Max`, the six binary and two unary operators, comparisons, conditionals, calls,
subscripts (index: a tuple of convertible trees, or one convertible tree), dot / star wildcards -/
def convertible : Expr → Bool
  | .const (.int _) => true
  | .const (.bool _) => true
  | .const (.flt ..) => true
  | .var _ => true
  | .nary o cs => (mopOfNary o).isSome && convertibleL cs
  | .bin _ a b => convertible a && convertible b
  | .un _ a => convertible a
  | .cmp _ a b => convertible a && convertible b
  | .ite c t e => convertible c && convertible t && convertible e
  | .call f as => convertible f && convertibleL as
  | .subscript a (.tuple cs) => convertible a && convertibleL cs
  | .subscript a i => convertible a && convertible i
  | .dotWild _ => true
  | .starWild _ => true
  | _ => false
def convertibleL : List Expr → Bool
  | [] => true
  | c :: cs => convertible c && convertibleL cs
end

def MR.isOk {α : Type} : MR α → Bool
  | .ok _ => true
  | .error _ => false

theorem MR.isOk_bind {α β : Type} (x : MR α) (f : α → MR β) :
    MR.isOk (x >>= f) = match x with
      | .ok a => MR.isOk (f a)
      | .error _ => false := by
  cases x <;> rfl

theorem MR.isOk_pure {α : Type} (a : α) : MR.isOk (pure a : MR α) = true := rfl

theorem MR.isOk_throw {α : Type} (e : MErr) : MR.isOk (throw e : MR α) = false := rfl

theorem MR.isOk_iff {α : Type} (x : MR α) : MR.isOk x = true ↔ ∃ a, x = .ok a := by
  cases x <;> simp [MR.isOk]

/-- `toM` succeeds exactly on the convertible trees -/
theorem toM_isOk_aux : ∀ n : Nat,
    (∀ e : Expr, e.size ≤ n → MR.isOk (toM e) = convertible e) ∧
    (∀ es : List Expr, Expr.sizeL es ≤ n → MR.isOk (toML es) = convertibleL es) := by
  intro n
  induction n with
  | zero =>
    refine ⟨fun e he => ?_, fun es hes => ?_⟩
    · cases e <;> simp [Expr.size] at he <;> omega
    · cases es with
      | nil => rfl
      | cons c cs =>
        simp [Expr.sizeL] at hes
        cases c <;> simp [Expr.size] at hes <;> omega
  | succ n ih =>
    obtain ⟨ihE, ihL⟩ := ih
    have treeCase : ∀ e : Expr, e.size ≤ n + 1 → MR.isOk (toM e) = convertible e := by
      intro e he
      cases e with
      | const c => cases c <;> rfl
      | var x => rfl
      | nary o cs =>
        simp only [Expr.size] at he
        have := ihL cs (by omega)
        simp only [toM, convertible]
        cases hm : mopOfNary o with
        | none => rfl
        | some mo =>
          simp only [MR.isOk_bind, Option.isSome_some, Bool.true_and, ← this]
          cases toML cs <;> rfl
      | bin o a b =>
        simp only [Expr.size] at he
        have h1 := ihE a (by omega); have h2 := ihE b (by omega)
        simp only [toM, convertible, MR.isOk_bind, ← h1, ← h2]
        cases toM a <;> cases toM b <;> rfl
      | un o a =>
        simp only [Expr.size] at he
        have h1 := ihE a (by omega)
        simp only [toM, convertible, MR.isOk_bind, ← h1]
        cases toM a <;> rfl
      | cmp o a b =>
        simp only [Expr.size] at he
        have h1 := ihE a (by omega); have h2 := ihE b (by omega)
        simp only [toM, convertible, MR.isOk_bind, ← h1, ← h2]
        cases toM a <;> cases toM b <;> rfl
      | ite c x y =>
        simp only [Expr.size] at he
        have h1 := ihE c (by omega); have h2 := ihE x (by omega); have h3 := ihE y (by omega)
        simp only [toM, convertible, MR.isOk_bind, ← h1, ← h2, ← h3]
        cases toM c <;> cases toM x <;> cases toM y <;> rfl
      | call f as =>
        simp only [Expr.size] at he
        have h1 := ihE f (by omega); have h2 := ihL as (by omega)
        simp only [toM, convertible, MR.isOk_bind, ← h1, ← h2]
        cases toM f <;> cases toML as <;> rfl
      | subscript a i =>
        simp only [Expr.size] at he
        have h1 := ihE a (by omega)
        by_cases hi : ∃ cs, i = .tuple cs
        · obtain ⟨cs, rfl⟩ := hi
          simp only [Expr.size] at he
          have h2 := ihL cs (by omega)
          simp only [toM, convertible, MR.isOk_bind, ← h1, ← h2]
          cases toM a <;> cases toML cs <;> rfl
        · have hi' : ∀ cs, i ≠ .tuple cs := fun cs hc => hi ⟨cs, hc⟩
          have hto : toM (.subscript a i) = (do
              let a' ← toM a
              let i' ← toM i
              pure (mk .subscript [a', mk .tupleOp [i']])) := by
            cases i <;> first | rfl | (exact absurd rfl (hi' _))
          have hco : convertible (.subscript a i) = (convertible a && convertible i) := by
            cases i <;> first | rfl | (exact absurd rfl (hi' _))
          have h2 := ihE i (by omega)
          rw [hto, hco]
          simp only [MR.isOk_bind, ← h1, ← h2]
          cases toM a <;> cases toM i <;> rfl
      | dotWild s => rfl
      | starWild s => rfl
      | callKw f as ns vs => rfl
      | lookup a s => rfl
      | cse c p s => rfl
      | subst c vs xs => rfl
      | deriv c vs => rfl
      | slice cs => rfl
      | nan => rfl
      | wildcard => rfl
      | funcSym => rfl
      | tuple cs => rfl
      | list cs => rfl
    refine ⟨treeCase, fun es => ?_⟩
    induction es with
    | nil => intro _; rfl
    | cons c cs ihcs =>
      intro hs
      simp only [Expr.sizeL] at hs
      have h1 := treeCase c (by omega)
      have h2 := ihcs (by omega)
      simp only [toML, convertibleL, MR.isOk_bind, ← h1, ← h2]
      cases toM c <;> cases toML cs <;> rfl

/-- **which trees convert**: `ToMatchpyExpressionMapper` returns a term exactly for the trees that
satisfy the syntactic predicate `convertible` (every other node type is refused) -/
theorem toM_ok_iff (e : Expr) : (∃ t, toM e = .ok t) ↔ convertible e = true := by
  rw [← MR.isOk_iff, (toM_isOk_aux e.size).1 e (Nat.le_refl _)]

/-! ### which trees come back exactly -/

def isNaryOf (o : NaryOp) : Expr → Bool
  | .nary o' _ => o' == o
  | _ => false

/-- the operand terms are in the order `list.sort()` leaves them in -/
def sortedOps (cs : List Expr) : Bool :=
  match toML cs with
  | .ok ts => MTerm.beqL (pySort MTerm.lt ts) ts
  | .error _ => false

mutual
/-- the trees the round trip returns unchanged: convertible, without wildcards, no operator
declared associative applied directly to an application of itself, the operands of every operator
declared commutative already in `list.sort()` order, every subscript index a tuple -/
def bridgeNormal : Expr → Bool
  | .const (.int _) => true
  | .const (.bool _) => true
  | .const (.flt ..) => true
  | .var _ => true
  | .nary o cs =>
      (mopOfNary o).isSome && bridgeNormalL cs && cs.all (fun c => !isNaryOf o c) && sortedOps cs
  | .bin _ a b => bridgeNormal a && bridgeNormal b
  | .un _ a => bridgeNormal a
  | .cmp _ a b => bridgeNormal a && bridgeNormal b
  | .ite c t e => bridgeNormal c && bridgeNormal t && bridgeNormal e
  | .call f as => bridgeNormal f && bridgeNormalL as
  | .subscript a (.tuple cs) => bridgeNormal a && bridgeNormalL cs
  | _ => false
def bridgeNormalL : List Expr → Bool
  | [] => true
  | c :: cs => bridgeNormal c && bridgeNormalL cs
end

theorem flattenOps_id {mo : MOp} {o : NaryOp} (hn : mo.nary? = some o) :
    ∀ {ts : List MTerm} {cs : List Expr}, fromML ts = .ok cs →
      (∀ c ∈ cs, isNaryOf o c = false) → flattenOps mo ts = ts
  | [], _, _, _ => rfl
  | t :: ts, cs, h, hno => by
    obtain ⟨e, es', rfl, ht, hts⟩ := fromML_cons h
    have ih := flattenOps_id hn hts (fun c hc => hno c (by simp [hc]))
    cases t with
    | op o' as vn =>
      by_cases ho : o' = mo
      · subst ho
        rw [fromM_ac hn] at ht
        cases hl : fromML as with
        | error err => simp [hl, Except.map] at ht
        | ok as' =>
          simp [hl, Except.map] at ht
          have := hno e (by simp)
          rw [← ht] at this
          simp [isNaryOf] at this
      · have : (o' == mo) = false := by simpa using ho
        simp only [flattenOps, this, Bool.false_eq_true, if_false, ih]
    | scalar c vn => simp [flattenOps, ih]
    | id s vn => simp [flattenOps, ih]
    | cmpOp s vn => simp [flattenOps, ih]
    | wild k n => simp [flattenOps, ih]

theorem roundtrip_exact_aux : ∀ n : Nat,
    (∀ e : Expr, e.size ≤ n → bridgeNormal e = true → ∃ t, toM e = .ok t ∧ fromM t = .ok e) ∧
    (∀ es : List Expr, Expr.sizeL es ≤ n → bridgeNormalL es = true →
      ∃ ts, toML es = .ok ts ∧ fromML ts = .ok es) := by
  intro n
  induction n with
  | zero =>
    refine ⟨fun e he => ?_, fun es hes _ => ?_⟩
    · cases e <;> simp [Expr.size] at he <;> omega
    · cases es with
      | nil => exact ⟨[], rfl, rfl⟩
      | cons c cs =>
        simp [Expr.sizeL] at hes
        cases c <;> simp [Expr.size] at hes <;> omega
  | succ n ih =>
    obtain ⟨ihE, ihL⟩ := ih
    have treeCase : ∀ e : Expr, e.size ≤ n + 1 → bridgeNormal e = true →
        ∃ t, toM e = .ok t ∧ fromM t = .ok e := by
      intro e he hn
      cases e with
      | const c =>
        cases c <;> simp [bridgeNormal] at hn <;> exact ⟨_, rfl, rfl⟩
      | var x => exact ⟨_, rfl, by rw [mk_plain (by rfl)]; rfl⟩
      | nary o cs =>
        simp only [bridgeNormal, Bool.and_eq_true] at hn
        obtain ⟨⟨⟨hm, hl⟩, hno⟩, hs⟩ := hn
        simp only [Expr.size] at he
        obtain ⟨ts, hts, hfs⟩ := ihL cs (by omega) hl
        cases hm' : mopOfNary o with
        | none => simp [hm'] at hm
        | some mo =>
          have hac := mopOfNary_isAC hm'
          have hnn := mopOfNary_nary? hm'
          have hfl : flattenOps mo ts = ts := flattenOps_id hnn hfs (fun c hc => by
            have := List.all_eq_true.1 hno c hc
            simpa using this)
          have hso : pySort MTerm.lt ts = ts := by
            simp only [sortedOps, hts] at hs
            exact MTerm.beqL_eq _ _ hs
          refine ⟨mk mo ts, by simp [toM, hm', hts, bind, Except.bind, pure, Except.pure], ?_⟩
          rw [mk_ac hac, hfl, hso, fromM_ac hnn, hfs]; rfl
      | bin o a b =>
        simp only [bridgeNormal, Bool.and_eq_true] at hn
        simp only [Expr.size] at he
        obtain ⟨a', ha, hfa⟩ := ihE a (by omega) hn.1
        obtain ⟨b', hb, hfb⟩ := ihE b (by omega) hn.2
        refine ⟨mk (mopOfBin o) [a', b'],
          by simp [toM, ha, hb, bind, Except.bind, pure, Except.pure], ?_⟩
        cases o <;> rw [mk_plain (by rfl)] <;>
          simp [mopOfBin, fromM, hfa, hfb, bind, Except.bind, pure, Except.pure]
      | un o a =>
        simp only [bridgeNormal] at hn
        simp only [Expr.size] at he
        obtain ⟨a', ha, hfa⟩ := ihE a (by omega) hn
        refine ⟨mk (mopOfUn o) [a'], by simp [toM, ha, bind, Except.bind, pure, Except.pure], ?_⟩
        cases o <;> rw [mk_plain (by rfl)] <;>
          simp [mopOfUn, fromM, hfa, bind, Except.bind, pure, Except.pure]
      | cmp o a b =>
        simp only [bridgeNormal, Bool.and_eq_true] at hn
        simp only [Expr.size] at he
        obtain ⟨a', ha, hfa⟩ := ihE a (by omega) hn.1
        obtain ⟨b', hb, hfb⟩ := ihE b (by omega) hn.2
        refine ⟨mk .comparison [a', .cmpOp o.sym none, b'],
          by simp [toM, ha, hb, bind, Except.bind, pure, Except.pure], ?_⟩
        rw [mk_plain (by rfl)]
        simp [fromM, hfa, hfb, cmp_ofSym_sym, bind, Except.bind, pure, Except.pure]
      | ite c x y =>
        simp only [bridgeNormal, Bool.and_eq_true] at hn
        simp only [Expr.size] at he
        obtain ⟨c', hc, hfc⟩ := ihE c (by omega) hn.1.1
        obtain ⟨x', hx, hfx⟩ := ihE x (by omega) hn.1.2
        obtain ⟨y', hy, hfy⟩ := ihE y (by omega) hn.2
        refine ⟨mk .ite [c', x', y'],
          by simp [toM, hc, hx, hy, bind, Except.bind, pure, Except.pure], ?_⟩
        rw [mk_plain (by rfl)]
        simp [fromM, hfc, hfx, hfy, bind, Except.bind, pure, Except.pure]
      | call f as =>
        simp only [bridgeNormal, Bool.and_eq_true] at hn
        simp only [Expr.size] at he
        obtain ⟨f', hf, hff⟩ := ihE f (by omega) hn.1
        obtain ⟨as', has, hfas⟩ := ihL as (by omega) hn.2
        refine ⟨mk .call [f', mk .tupleOp as'],
          by simp [toM, hf, has, bind, Except.bind, pure, Except.pure], ?_⟩
        rw [mk_plain (by rfl), mk_plain (by rfl)]
        simp [fromM, hff, hfas, bind, Except.bind, pure, Except.pure]
      | subscript a i =>
        cases i with
        | tuple cs =>
          simp only [bridgeNormal, Bool.and_eq_true] at hn
          simp only [Expr.size] at he
          obtain ⟨a', ha, hfa⟩ := ihE a (by omega) hn.1
          obtain ⟨is', his, hfis⟩ := ihL cs (by omega) hn.2
          refine ⟨mk .subscript [a', mk .tupleOp is'],
            by simp [toM, ha, his, bind, Except.bind, pure, Except.pure], ?_⟩
          rw [mk_plain (by rfl), mk_plain (by rfl)]
          simp [fromM, hfa, hfis, bind, Except.bind, pure, Except.pure]
        | _ => simp [bridgeNormal] at hn
      | dotWild s => simp [bridgeNormal] at hn
      | starWild s => simp [bridgeNormal] at hn
      | callKw f as ns vs => simp [bridgeNormal] at hn
      | lookup a s => simp [bridgeNormal] at hn
      | cse c p s => simp [bridgeNormal] at hn
      | subst c vs xs => simp [bridgeNormal] at hn
      | deriv c vs => simp [bridgeNormal] at hn
      | slice cs => simp [bridgeNormal] at hn
      | nan => simp [bridgeNormal] at hn
      | wildcard => simp [bridgeNormal] at hn
      | funcSym => simp [bridgeNormal] at hn
      | tuple cs => simp [bridgeNormal] at hn
      | list cs => simp [bridgeNormal] at hn
    refine ⟨treeCase, fun es => ?_⟩
    induction es with
    | nil => intro _ _; exact ⟨[], rfl, rfl⟩
    | cons c cs ihcs =>
      intro hs hn
      simp only [Expr.sizeL] at hs
      simp only [bridgeNormalL, Bool.and_eq_true] at hn
      obtain ⟨c', hc, hfc⟩ := treeCase c (by omega) hn.1
      obtain ⟨cs', hcs, hfcs⟩ := ihcs (by omega) hn.2
      exact ⟨c' :: cs', by simp [toML, hc, hcs, bind, Except.bind, pure, Except.pure],
        fromML_cons_ok hfc hfcs⟩

end PV.Matchpy
