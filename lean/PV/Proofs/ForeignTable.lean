import PV.Model.ForeignTable
/-
  C04 — the chain of `Mapper.map_foreign` as written in `foreignSourceLit`, run by `fRun`, IS the
  foreign routing of the dispatch model (`dispatchForeign`) applied to the kind the object has
  under the registry AT CALL TIME — for all registries and objects.
-/
namespace PV

theorem fRun_lit (live captured : Registry) (o : FObj) :
    fRun foreignSourceLit.chain live captured o = dispatchForeign (o.kind live) := by
  simp only [fRun, foreignSourceLit, List.find?, fTest, FObj.kind]
  cases o.isConst live <;> cases o.isArray <;> cases o.isList <;> cases o.isTuple <;>
    simp [dispatchForeign]

theorem any_contains_append (reg : List String) (c : String) (cs : List String) :
    cs.any (fun k => (reg ++ [c]).contains k)
      = (cs.any (fun k => reg.contains k) || cs.contains c) := by
  rw [Bool.eq_iff_iff]
  simp only [List.any_eq_true, Bool.or_eq_true, List.contains_iff_mem, List.mem_append,
    List.mem_singleton]
  constructor
  · rintro ⟨k, hk, h | h⟩
    · exact Or.inl ⟨k, hk, h⟩
    · exact Or.inr (h ▸ hk)
  · rintro (⟨k, hk, h⟩ | h)
    · exact ⟨k, hk, Or.inl h⟩
    · exact ⟨c, h, Or.inr rfl⟩

/-- an object of a registered class is a number -/
theorem isConst_register (reg : Registry) (c : String) (o : FObj) :
    o.isConst (reg.register c) = (o.isConst reg || o.classes.contains c) := by
  simp only [FObj.isConst, Registry.register]
  exact any_contains_append reg c o.classes

/-- the routes of a history under the literal chain are the property's words, whatever the
registry was when the module was imported -/
theorem fHistory_lit (captured : Registry) :
    ∀ (steps : List FStep) (live : Registry),
      fHistory foreignSourceLit.chain captured live steps = fHistorySpec live steps
  | [], _ => by simp [fHistory, fHistorySpec]
  | .op o :: rest, live => by
      simp only [fHistory, fHistorySpec]
      exact fHistory_lit captured rest (live.step o)
  | .call o :: rest, live => by
      simp only [fHistory, fHistorySpec, fRun_lit]
      rw [fHistory_lit captured rest live]

/-- a class registered once is gone after `unregister` -/
theorem unregister_removes (reg : Registry) (c : String) (hn : reg.Nodup) :
    (reg.unregister c).contains c = false := by
  simp only [Registry.unregister, List.contains_eq_mem, decide_eq_false_iff_not]
  intro h
  exact (hn.mem_erase_iff.1 h).1 rfl

end PV
