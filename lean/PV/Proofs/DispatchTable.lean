import PV.Model.DispatchTable
/-
  C04 — the statement interpreter `dRun` on the literal table `dispatchSourceLit` IS the dispatch
  model (`dispatchExpr`, `dispatchFallback`, `dispatchForeign`), for all handler sets and MROs.
-/
namespace PV

/-- one pass through the loop body of the literal table, on a class without handler name -/
theorem dBody_lit_none (hs : List String) (inp : DInput) (st : DState) :
    ∃ st', dExecBlock hs inp { st with cls := some none } dispatchLoopBodyLit = .cont st' := by
  simp [dispatchLoopBodyLit, dExecBlock, dExecStmt, DVal.ofOpt, dCond, DState.get]

/-- … on a class naming `m`: the handler is called iff the name is non-empty and implemented -/
theorem dBody_lit_some (hs : List String) (inp : DInput) (st : DState) (m : String) :
    (m ≠ "" ∧ m ∈ hs ∧
      dExecBlock hs inp { st with cls := some (some m) } dispatchLoopBodyLit
        = .done (.ret (.handler m))) ∨
    (¬ (m ≠ "" ∧ m ∈ hs) ∧
      ∃ st', dExecBlock hs inp { st with cls := some (some m) } dispatchLoopBodyLit = .cont st') := by
  by_cases hm : m = ""
  · right
    subst hm
    simp [dispatchLoopBodyLit, dExecBlock, dExecStmt, DVal.ofOpt, dCond, DState.get]
  · have hne : (m != "") = true := by simpa using hm
    by_cases hc : m ∈ hs
    · left
      simp [dispatchLoopBodyLit, dExecBlock, dExecStmt, DVal.ofOpt, dCond, DState.get, hm, hc, hne]
    · right
      simp [dispatchLoopBodyLit, dExecBlock, dExecStmt, DVal.ofOpt, dCond, DState.get, hm, hc, hne]

/-- the MRO loop of the literal table followed by its `else` clause: the model's ancestor scan -/
theorem dLoop_lit (hs : List String) (mro : List (Option String)) :
    ∀ (anc : List (Option String)) (st : DState),
      (match dLoop (fun s => dExecBlock hs (.expr mro) s dispatchLoopBodyLit) st anc with
        | .cont st' => dExecBlock hs (.expr mro) st' [.returnHook]
        | .done r => .done r)
      = .done (.ret (dispatchExpr.dispatchAncestors hs anc))
  | [], st => by
      simp [dLoop, dExecBlock, dExecStmt, dispatchExpr.dispatchAncestors]
  | none :: rest, st => by
      obtain ⟨st', h⟩ := dBody_lit_none hs (.expr mro) st
      simp only [dLoop, h, dispatchExpr.dispatchAncestors]
      exact dLoop_lit hs mro rest st'
  | some m :: rest, st => by
      rcases dBody_lit_some hs (.expr mro) st m with ⟨hm, hc, h⟩ | ⟨hn, st', h⟩
      · simp [dLoop, h, dispatchExpr.dispatchAncestors, hm, hc]
      · simp only [dLoop, h, dispatchExpr.dispatchAncestors]
        have : (m != "" && hs.contains m) = false := by
          by_cases hm : m = ""
          · simp [hm]
          · have : m ∉ hs := fun hc => hn ⟨hm, hc⟩
            simp [this]
        simp only [this, Bool.false_eq_true, if_false]
        exact dLoop_lit hs mro rest st'

/-- the second `if` of `__call__` (= the whole of `rec_fallback`) on an expression -/
theorem dTail_lit_expr (hs : List String) (mro : List (Option String)) (st : DState) :
    dExecBlock hs (.expr mro) st dispatchTailLit
      = .done (.ret (dispatchExpr.dispatchAncestors hs (mro.drop 1))) := by
  have h := dLoop_lit hs mro (mro.drop 1) st
  simp only [dispatchTailLit, dExecBlock, dExecStmt, dCond, DInput.mro]
  revert h
  cases dLoop (fun s => dExecBlock hs (.expr mro) s dispatchLoopBodyLit) st (mro.drop 1) with
  | cont st' => intro h; simpa [dExecBlock, dExecStmt] using h
  | done r => intro h; simpa using h

theorem dTail_lit_foreign (hs : List String) (k : ForeignKind) (st : DState) :
    dExecBlock hs (.foreign k) st dispatchTailLit = .done (.ret (dispatchForeign k)) := by
  simp [dispatchTailLit, dExecBlock, dExecStmt, dCond]

theorem dRun_fallback_lit_expr (hs : List String) (mro : List (Option String)) :
    dRun dispatchSourceLit.fallback hs (.expr mro) = .ret (dispatchFallback hs mro) := by
  simp only [dRun, dispatchSourceLit, dTail_lit_expr]
  cases mro <;> simp [dispatchFallback, dispatchExpr.dispatchAncestors]

theorem dRun_fallback_lit_foreign (hs : List String) (k : ForeignKind) :
    dRun dispatchSourceLit.fallback hs (.foreign k) = .ret (dispatchForeign k) := by
  simp only [dRun, dispatchSourceLit, dTail_lit_foreign]

theorem dRun_call_lit_expr (hs : List String) (mro : List (Option String)) :
    dRun dispatchSourceLit.call hs (.expr mro) = .ret (dispatchExpr hs mro) := by
  cases mro with
  | nil =>
    simp [dRun, dispatchSourceLit, dExecBlock, dExecStmt, DInput.ownName, DVal.ofOpt, dCond,
      DState.get, dTail_lit_expr, dispatchExpr, dispatchExpr.dispatchAncestors]
  | cons own rest =>
    cases own with
    | none =>
      simp [dRun, dispatchSourceLit, dExecBlock, dExecStmt, DInput.ownName, DVal.ofOpt, dCond,
        DState.get, dTail_lit_expr, dispatchExpr]
    | some m =>
      by_cases hc : m ∈ hs <;>
        simp [dRun, dispatchSourceLit, dExecBlock, dExecStmt, DInput.ownName, DVal.ofOpt, dCond,
          DState.get, dTail_lit_expr, dispatchExpr, hc]

theorem dRun_call_lit_foreign (hs : List String) (k : ForeignKind) :
    dRun dispatchSourceLit.call hs (.foreign k) = .ret (dispatchForeign k) := by
  simp [dRun, dispatchSourceLit, dExecBlock, dExecStmt, DInput.ownName, dCond, DState.get,
    dTail_lit_foreign]

end PV
