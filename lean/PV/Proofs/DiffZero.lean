import PV.Proofs.DiffMore
/-
  C10, part 4.  The derivative with respect to a variable that does not occur is the LITERAL `0`
  (`diff_absent_zero`), now that the CSE handler answers `0` for a vanishing child derivative
  instead of a (truthy) wrapper around it — so the product, quotient and power rules see the
  vanishing factor.  The only construct that still keeps a tree around zeros is `If`
  (`If(c, 0, 0)`, under "discontinuous").
-/
namespace PV

mutual
/-- no `If` in a position the differentiator visits -/
def iteFree : Expr → Bool
  | .nary _ cs => iteFreeL cs
  | .bin _ a b => iteFree a && iteFree b
  | .ite _ _ _ => false
  | .call _ args => iteFreeL args
  | .cse c _ _ => iteFree c
  | _ => true
def iteFreeL : List Expr → Bool
  | [] => true
  | c :: cs => iteFree c && iteFreeL cs
end

/-! ### the smart constructors and the product on literal zeros -/

theorem flattenedSumLoop_zeros : ∀ (fuel : Nat) (q : List Expr), (∀ x ∈ q, x = zero) →
    flattenedSumLoop fuel q [] = []
  | 0, _, _ => by simp only [flattenedSumLoop]
  | _ + 1, [], _ => by simp only [flattenedSumLoop]
  | fuel + 1, item :: q, h => by
      have hi : item = zero := h item List.mem_cons_self
      subst hi
      have hz : zero.isZero = true := rfl
      simp only [flattenedSumLoop, hz, if_true]
      exact flattenedSumLoop_zeros fuel q (fun x hx => h x (List.mem_cons_of_mem _ hx))

/-- `flattened_sum` of literal zeros is the literal `0` -/
theorem flattenedSum_zeros (ds : List Expr) (h : ∀ x ∈ ds, x = zero) : flattenedSum ds = zero := by
  unfold flattenedSum
  rw [flattenedSumLoop_zeros _ ds h]

theorem flattenedProductLoop_zero : ∀ (fuel : Nat) (pre rest done : List Expr),
    Expr.sizeL pre < fuel → flattenedProductLoop fuel (pre ++ zero :: rest) done = Option.none
  | 0, _, _, _, h => by omega
  | fuel + 1, [], rest, done, _ => by
      have hz : zero.isZero = true := rfl
      simp only [List.nil_append, flattenedProductLoop, hz, if_true]
  | fuel + 1, a :: pre, rest, done, hlt => by
      have hp := Expr.size_pos a
      simp only [Expr.sizeL] at hlt
      simp only [List.cons_append, flattenedProductLoop]
      split
      · rfl
      · split
        · exact flattenedProductLoop_zero fuel pre rest done (by omega)
        · split
          · rename_i cs _ _
            rw [← List.append_assoc]
            exact flattenedProductLoop_zero fuel (cs ++ pre) rest done
              (by simp only [Expr.sizeL_append, Expr.size] at hlt ⊢; omega)
          · exact flattenedProductLoop_zero fuel pre rest _ (by omega)

/-- `flattened_product` of factors one of which is the literal `0` is the literal `0` (the factors
before it are looked at first; children of nested products among them are spliced in place, so the
zero is reached after everything that stands before it has been taken apart) -/
theorem flattenedProduct_zero (pre cs : List Expr) : flattenedProduct (pre ++ zero :: cs) = zero := by
  unfold flattenedProduct
  rw [flattenedProductLoop_zero _ pre cs [] (by simp only [Expr.sizeL_append]; omega)]

theorem mulD_zero (fm : Expr) : mulD fm zero = .ret zero := by
  unfold mulD
  have h1 : zero.isValidOperand = true := rfl
  have h2 : zero.isZero = true := rfl
  have h3 : zero.isOne = false := rfl
  simp only [h1, Bool.not_true, Bool.false_eq_true, if_false]
  split
  · simp only [zero, Expr.isZero, Expr.truthy, Const.truthy]; rfl
  · simp only [h3, h2, Bool.false_eq_true, if_false, if_true]

/-- Python `fm * 0` is the int `0` (or raises) -/
theorem pyBin_mul_zero {fm t : Expr} (h : pyBin .mul fm zero = .ok t) : t = zero := by
  by_cases hn : fm.isNode = true
  · have : pyBin .mul fm zero = Ops.bin .mul fm zero := by
      cases fm <;> first | rfl | simp [Expr.isNode] at hn
    rw [this] at h
    simp only [Ops.bin, dispatch, hn, if_true, mulD_zero, pure, Except.pure] at h
    injection h with h; exact h.symm
  · cases fm <;> simp only [Expr.isNode, not_true_eq_false] at hn
    · rename_i c
      cases c <;>
        simp [pyBin, zero, constBin, Const.toValue?, PyBinOp.onValues, Value.mul, arith,
          Value.isInexact, Value.isSeq, Value.num?, mulN, Value.toConst?, pure, Except.pure, throw,
          throwThe, MonadExceptOf.throw] at h
      all_goals (subst h; rfl)
    all_goals
      simp [pyBin, zero, Ops.bin, dispatch, Expr.isNode, throw, throwThe, MonadExceptOf.throw] at h

theorem quotRule_zero {f g d : Expr} (h : quotRule f g zero zero = .ok d) : d = zero := by
  have hz : zero.truthy = false := rfl
  simp only [quotRule, hz, Bool.not_false, Bool.and_self, if_true, pure, Except.pure] at h
  injection h with h; exact h.symm

theorem powRule_zero {f g d : Expr} (h : powRule f g zero zero = .ok d) : d = zero := by
  have hz : zero.truthy = false := rfl
  simp only [powRule, hz, Bool.not_false, Bool.and_self, if_true, pure, Except.pure] at h
  injection h with h; exact h.symm

/-- the plain power rule `g * f**(g-1) * df`, as `map_power` writes it (its third branch) -/
def plainPowRule (f g df : Expr) : OpR := do
  let g1 ← pyBin .sub g one
  let p ← pyBin .pow f g1
  let a ← pyBin .mul g p
  pyBin .mul a df

/-- `map_power` with the literal `0` as the exponent's derivative: no `log` term -/
theorem powRule_dg_zero (f g df : Expr) :
    powRule f g df zero = if df.truthy then plainPowRule f g df else pure zero := by
  have hz : zero.truthy = false := rfl
  unfold powRule plainPowRule
  cases hdf : df.truthy <;> simp [hz]

theorem cseRule_zero (p : Option String) (s : String) : cseRule zero p s = zero := rfl

/-! ### the induction -/

section
variable (cfg : Smooth) (v : Expr)

mutual
theorem diff_absent_zero : ∀ (e d : Expr), diff cfg v e = .ok d → absent v e = true →
    (cfg = .discontinuous → iteFree e = true) → d = zero
  | .const c, d, h, _, _ => by
      simp only [diff] at h
      split at h
      · simp only [pure, Except.pure] at h
        injection h with h; exact h.symm
      · simp [throw, throwThe, MonadExceptOf.throw] at h
  | .var n, d, h, ha, _ => by
      simp only [diff, pure, Except.pure] at h
      injection h with h; subst h
      simp only [absent, Bool.not_eq_true'] at ha
      simp [ha]
  | .subscript a i, d, h, ha, _ => by
      simp only [diff] at h
      split at h
      · simp [throw, throwThe, MonadExceptOf.throw] at h
      · simp only [pure, Except.pure] at h
        injection h with h; subst h
        simp only [absent, Bool.not_eq_true'] at ha
        simp [ha]
  | .nary .sum cs, d, h, ha, hi => by
      simp only [diff] at h
      obtain ⟨ds, h1, h⟩ := except_bind_ok h
      simp only [pure, Except.pure] at h
      injection h with h; subst h
      simp only [absent] at ha
      exact flattenedSum_zeros ds
        (diffL_absent_zero cs ds h1 ha (fun hc => by simpa [iteFree] using hi hc))
  | .nary .prod cs, d, h, ha, hi => by
      simp only [diff] at h
      split at h
      · simp [throw, throwThe, MonadExceptOf.throw] at h
      · obtain ⟨ts, h1, h⟩ := except_bind_ok h
        simp only [pure, Except.pure] at h
        injection h with h; subst h
        simp only [absent] at ha
        exact flattenedSum_zeros ts
          (diffProd_absent_zero cs [] ts h1 ha (fun hc => by simpa [iteFree] using hi hc))
  | .bin .quot f g, d, h, ha, hi => by
      simp only [diff] at h
      obtain ⟨df, h1, h⟩ := except_bind_ok h
      obtain ⟨dg, h2, h⟩ := except_bind_ok h
      have h := liftOp_ok h
      simp only [absent, Bool.and_eq_true] at ha
      have hif : cfg = .discontinuous → iteFree f = true := fun hc => by
        have := hi hc; simp only [iteFree, Bool.and_eq_true] at this; exact this.1
      have hig : cfg = .discontinuous → iteFree g = true := fun hc => by
        have := hi hc; simp only [iteFree, Bool.and_eq_true] at this; exact this.2
      have e1 := diff_absent_zero f df h1 ha.1 hif
      have e2 := diff_absent_zero g dg h2 ha.2 hig
      subst e1; subst e2
      exact quotRule_zero h
  | .bin .pow f g, d, h, ha, hi => by
      simp only [diff] at h
      obtain ⟨df, h1, h⟩ := except_bind_ok h
      obtain ⟨dg, h2, h⟩ := except_bind_ok h
      have h := liftOp_ok h
      simp only [absent, Bool.and_eq_true] at ha
      have hif : cfg = .discontinuous → iteFree f = true := fun hc => by
        have := hi hc; simp only [iteFree, Bool.and_eq_true] at this; exact this.1
      have hig : cfg = .discontinuous → iteFree g = true := fun hc => by
        have := hi hc; simp only [iteFree, Bool.and_eq_true] at this; exact this.2
      have e1 := diff_absent_zero f df h1 ha.1 hif
      have e2 := diff_absent_zero g dg h2 ha.2 hig
      subst e1; subst e2
      exact powRule_zero h
  | .ite c t e, d, h, _, hi => by
      simp only [diff] at h
      split at h
      · rename_i hcfg
        have := hi hcfg
        simp [iteFree] at this
      · simp [throw, throwThe, MonadExceptOf.throw] at h
  | .cse c p s, d, h, ha, hi => by
      simp only [diff] at h
      split at h
      · simp [throw, throwThe, MonadExceptOf.throw] at h
      · obtain ⟨dc, h1, h⟩ := except_bind_ok h
        simp only [pure, Except.pure] at h
        injection h with h; subst h
        simp only [absent] at ha
        have e1 := diff_absent_zero c dc h1 ha (fun hc => by simpa [iteFree] using hi hc)
        subst e1
        rfl
  | .call f [], d, h, _, _ => by
      simp only [diff, pure, Except.pure] at h
      injection h with h; exact h.symm
  | .call f (p :: ps), d, h, ha, hi => by
      simp only [diff] at h
      obtain ⟨fm, hfm, h⟩ := except_bind_ok h
      obtain ⟨ts, hts, h⟩ := except_bind_ok h
      simp only [pure, Except.pure] at h
      injection h with h; subst h
      simp only [absent] at ha
      exact flattenedSum_zeros ts
        (diffCall_absent_zero fm (p :: ps) ts hts ha (fun hc => by simpa [iteFree] using hi hc))
  | .nary .bor _, _, h, _, _ | .nary .bxor _, _, h, _, _ | .nary .band _, _, h, _, _
  | .nary .lor _, _, h, _, _ | .nary .land _, _, h, _, _ | .nary .min _, _, h, _, _
  | .nary .max _, _, h, _, _ | .bin .floordiv _ _, _, h, _, _ | .bin .rem _ _, _, h, _, _
  | .bin .lshift _ _, _, h, _, _ | .bin .rshift _ _, _, h, _, _ | .un _ _, _, h, _, _
  | .cmp _ _ _, _, h, _, _ | .callKw _ _ _ _, _, h, _, _ | .lookup _ _, _, h, _, _
  | .subst _ _ _, _, h, _, _ | .deriv _ _, _, h, _, _ | .slice _, _, h, _, _ | .nan, _, h, _, _
  | .wildcard, _, h, _, _ | .dotWild _, _, h, _, _ | .starWild _, _, h, _, _
  | .funcSym, _, h, _, _ | .tuple _, _, h, _, _ | .list _, _, h, _, _ => by
      simp [diff, throw, throwThe, MonadExceptOf.throw] at h
termination_by structural e => e
theorem diffL_absent_zero : ∀ (cs ds : List Expr), diffL cfg v cs = .ok ds →
    absentL v cs = true → (cfg = .discontinuous → iteFreeL cs = true) → ∀ x ∈ ds, x = zero
  | [], ds, h, _, _ => by
      simp only [diffL, pure, Except.pure] at h
      injection h with h; subst h; simp
  | c :: cs, ds, h, ha, hi => by
      simp only [diffL] at h
      obtain ⟨d, h1, h⟩ := except_bind_ok h
      obtain ⟨ds', h2, h⟩ := except_bind_ok h
      simp only [pure, Except.pure] at h
      injection h with h; subst h
      simp only [absentL, Bool.and_eq_true] at ha
      have hi1 : cfg = .discontinuous → iteFree c = true := fun hc => by
        have := hi hc; simp only [iteFreeL, Bool.and_eq_true] at this; exact this.1
      have hi2 : cfg = .discontinuous → iteFreeL cs = true := fun hc => by
        have := hi hc; simp only [iteFreeL, Bool.and_eq_true] at this; exact this.2
      intro x hx
      rcases List.mem_cons.mp hx with hx | hx
      · rw [hx]; exact diff_absent_zero c d h1 ha.1 hi1
      · exact diffL_absent_zero cs ds' h2 ha.2 hi2 x hx
termination_by structural cs => cs
theorem diffProd_absent_zero : ∀ (cs pre ts : List Expr), diffProd cfg v pre cs = .ok ts →
    absentL v cs = true → (cfg = .discontinuous → iteFreeL cs = true) → ∀ x ∈ ts, x = zero
  | [], pre, ts, h, _, _ => by
      simp only [diffProd, pure, Except.pure] at h
      injection h with h; subst h; simp
  | c :: cs, pre, ts, h, ha, hi => by
      simp only [diffProd] at h
      obtain ⟨d, h1, h⟩ := except_bind_ok h
      obtain ⟨ts', h2, h⟩ := except_bind_ok h
      simp only [pure, Except.pure] at h
      injection h with h; subst h
      simp only [absentL, Bool.and_eq_true] at ha
      have hi1 : cfg = .discontinuous → iteFree c = true := fun hc => by
        have := hi hc; simp only [iteFreeL, Bool.and_eq_true] at this; exact this.1
      have hi2 : cfg = .discontinuous → iteFreeL cs = true := fun hc => by
        have := hi hc; simp only [iteFreeL, Bool.and_eq_true] at this; exact this.2
      intro x hx
      rcases List.mem_cons.mp hx with hx | hx
      · rw [hx, diff_absent_zero c d h1 ha.1 hi1]
        exact flattenedProduct_zero pre cs
      · exact diffProd_absent_zero cs (pre ++ [c]) ts' h2 ha.2 hi2 x hx
termination_by structural cs => cs
theorem diffCall_absent_zero : ∀ (fm : Expr) (ps ts : List Expr), diffCall cfg v fm ps = .ok ts →
    absentL v ps = true → (cfg = .discontinuous → iteFreeL ps = true) → ∀ x ∈ ts, x = zero
  | fm, [], ts, h, _, _ => by
      simp only [diffCall, pure, Except.pure] at h
      injection h with h; subst h; simp
  | fm, p :: ps, ts, h, ha, hi => by
      simp only [diffCall] at h
      obtain ⟨d, h1, h⟩ := except_bind_ok h
      obtain ⟨t, h2, h⟩ := except_bind_ok h
      obtain ⟨ts', h3, h⟩ := except_bind_ok h
      have h2 := liftOp_ok h2
      simp only [pure, Except.pure] at h
      injection h with h; subst h
      simp only [absentL, Bool.and_eq_true] at ha
      have hi1 : cfg = .discontinuous → iteFree p = true := fun hc => by
        have := hi hc; simp only [iteFreeL, Bool.and_eq_true] at this; exact this.1
      have hi2 : cfg = .discontinuous → iteFreeL ps = true := fun hc => by
        have := hi hc; simp only [iteFreeL, Bool.and_eq_true] at this; exact this.2
      intro x hx
      rcases List.mem_cons.mp hx with hx | hx
      · rw [hx]
        rw [diff_absent_zero p d h1 ha.1 hi1] at h2
        exact pyBin_mul_zero h2
      · exact diffCall_absent_zero fm ps ts' h3 ha.2 hi2 x hx
termination_by structural _ ps => ps
end

end

end PV
