import PV.Model.OpsTable
import PV.Generated.Operators
/-
  C03 (T-gen): the hand-written operator model of PV/Model/Ops.lean IS the table interpreter of
  PV/Model/OpsTable.lean run on the table regenerated from the current source
  (PV/Generated/Operators.lean).  One lemma per dunder method, by cases on the three kinds of
  `self` the source tells apart (a `Sum`, a `Product`, any other node) and on the shapes of `other`
  its `isinstance` tests look at.
-/
set_option linter.unusedSimpArgs false
set_option linter.unusedVariables false
namespace PV
open PV.Generated

/-! ### operand predicates -/

theorem c03_isConstant (e : Expr) :
    c03PredEval c03Preds c03PredFuel .isConstant e = e.isConstant := by
  cases e with
  | const c => cases c <;> rfl
  | nary o cs => cases o <;> rfl
  | _ => rfl

theorem c03_isNumber (e : Expr) :
    c03PredEval c03Preds c03PredFuel .isNumber e = e.isNumber := by
  cases e with
  | const c => cases c <;> rfl
  | nary o cs => cases o <;> rfl
  | _ => rfl

theorem c03_isValidOperand (e : Expr) :
    c03PredEval c03Preds c03PredFuel .isValidOperand e = e.isValidOperand := by
  cases e with
  | const c => cases c <;> rfl
  | nary o cs => cases o <;> rfl
  | _ => rfl

theorem c03_isArith (e : Expr) :
    c03PredEval c03Preds c03PredFuel .isArith e = e.isArith := by
  cases e with
  | const c => cases c <;> rfl
  | nary o cs => cases o <;> rfl
  | _ => rfl

/-! ### truthiness -/

theorem c03_size_pos (e : Expr) : 0 < e.size := by cases e <;> simp [Expr.size] <;> omega

theorem c03_all_truthyProd (f : Expr → Bool) (cs : List Expr) (h : ∀ c ∈ cs, f c = c.truthy) :
    cs.all f = Expr.truthyProd cs := by
  induction cs with
  | nil => rfl
  | cons c cs ih =>
    simp only [List.all_cons, Expr.truthyProd, h c (by simp)]
    rw [ih (fun d hd => h d (by simp [hd]))]

theorem c03_size_le_sizeL {c : Expr} {cs : List Expr} (h : c ∈ cs) :
    c.size ≤ Expr.sizeL cs := by
  induction cs with
  | nil => cases h
  | cons d ds ih =>
    simp only [Expr.sizeL]
    rcases List.mem_cons.1 h with rfl | h
    · omega
    · have := ih h; omega

/-- with enough fuel the regenerated `__bool__` table computes `Expr.truthy` -/
theorem c03_truthyFuel (n : Nat) :
    ∀ e : Expr, e.size ≤ n → c03TruthyFuel c03Truth (n + 1) e = e.truthy := by
  induction n with
  | zero => intro e h; have := c03_size_pos e; omega
  | succ n ih =>
    intro e h
    cases e with
    | nary o cs =>
      cases o
      · match cs with
        | [] => rfl
        | [c] =>
          have hc : c.size ≤ n := by simp [Expr.size, Expr.sizeL] at h; omega
          have : c03TruthyFuel c03Truth (n + 1 + 1) (.nary .sum [c])
              = c03TruthyFuel c03Truth (n + 1) c := rfl
          rw [this, ih c hc]; rfl
        | c :: d :: r => rfl
      · have hall : ∀ c ∈ cs, c03TruthyFuel c03Truth (n + 1) c = c.truthy := by
          intro c hc
          have := c03_size_le_sizeL hc
          simp [Expr.size] at h
          exact ih c (by omega)
        have : c03TruthyFuel c03Truth (n + 1 + 1) (.nary .prod cs)
            = cs.all (c03TruthyFuel c03Truth (n + 1)) := rfl
        rw [this, c03_all_truthyProd _ cs hall]; rfl
      all_goals rfl
    | bin o a b =>
      have ha : a.size ≤ n := by simp [Expr.size] at h; omega
      cases o
      · have : c03TruthyFuel c03Truth (n + 1 + 1) (.bin .quot a b)
            = c03TruthyFuel c03Truth (n + 1) a := rfl
        rw [this, ih a ha]; rfl
      · have : c03TruthyFuel c03Truth (n + 1 + 1) (.bin .floordiv a b)
            = c03TruthyFuel c03Truth (n + 1) a := rfl
        rw [this, ih a ha]; rfl
      · have : c03TruthyFuel c03Truth (n + 1 + 1) (.bin .rem a b)
            = c03TruthyFuel c03Truth (n + 1) a := rfl
        rw [this, ih a ha]; rfl
      all_goals rfl
    | un o a => cases o <;> rfl
    | _ => rfl

/-- `bool(e)` as the `__bool__` methods of the current source define it is `Expr.truthy` -/
theorem c03_truthy (e : Expr) : c03Truthy c03Preds.truth e = e.truthy :=
  c03_truthyFuel e.size e (Nat.le_refl _)

theorem c03_not_truthy (e : Expr) : (!(c03Truthy c03Preds.truth e)) = e.isZero := by
  rw [c03_truthy]; rfl

/-! ### shapes of `self` and `other` -/

/-- a node that is neither a `Sum` nor a `Product` -/
structure C03Generic (s : Expr) : Prop where
  mro : s.c03Mro = [.expression]
  notSum : ∀ cs, s ≠ .nary .sum cs
  notProd : ∀ cs, s ≠ .nary .prod cs

theorem c03_shape (s : Expr) (hs : s.isNode = true) :
    (∃ cs, s = .nary .sum cs) ∨ (∃ cs, s = .nary .prod cs) ∨ C03Generic s := by
  cases s with
  | nary o cs => cases o <;> simp [Expr.c03Mro, C03Generic] <;> exact ⟨rfl, by simp, by simp⟩
  | const c => simp [Expr.isNode] at hs
  | tuple c => simp [Expr.isNode] at hs
  | list c => simp [Expr.isNode] at hs
  | _ => exact Or.inr (Or.inr ⟨rfl, by simp, by simp⟩)

theorem c03_other_sum (o : Expr) :
    (∃ ds, o = .nary .sum ds) ∨ (c03IsInst [.sum] o = false ∧ ∀ ds, o ≠ .nary .sum ds) := by
  cases o with
  | nary op cs => cases op <;> simp [c03IsInst, Expr.c03Mro]
  | const c => cases c <;> simp [c03IsInst, Expr.c03Mro]
  | _ => simp [c03IsInst, Expr.c03Mro]

theorem c03_other_prod (o : Expr) :
    (∃ ds, o = .nary .prod ds) ∨ (c03IsInst [.product] o = false ∧ ∀ ds, o ≠ .nary .prod ds) := by
  cases o with
  | nary op cs => cases op <;> simp [c03IsInst, Expr.c03Mro]
  | const c => cases c <;> simp [c03IsInst, Expr.c03Mro]
  | _ => simp [c03IsInst, Expr.c03Mro]

theorem c03_isinst_sum (ds : List Expr) : c03IsInst [.sum] (.nary .sum ds) = true := rfl
theorem c03_isinst_prod (ds : List Expr) : c03IsInst [.product] (.nary .prod ds) = true := rfl

theorem c03_const_not_sum {o : Expr} (h : o.isConstant = true) : c03IsInst [.sum] o = false := by
  cases o with
  | const c => cases c <;> simp_all [c03IsInst, Expr.c03Mro, Expr.isConstant]
  | _ => simp [Expr.isConstant] at h

theorem c03_const_not_prod {o : Expr} (h : o.isConstant = true) :
    c03IsInst [.product] o = false := by
  cases o with
  | const c => cases c <;> simp_all [c03IsInst, Expr.c03Mro, Expr.isConstant]
  | _ => simp [Expr.isConstant] at h

theorem c03_node_not_one {s : Expr} (hs : s.isNode = true) : s.isOne = false := by
  cases s <;> simp_all [Expr.isNode, Expr.isOne]

/-! ### method lookup -/

theorem c03Dunder_step (T : C03Table) (n : Nat) (d : C03Dunder) (hd : d ≠ .quotientFn)
    (s o : Expr) :
    c03Dunder T (n + 1) d s o =
      match T.resolve s d with
      | some body => body.eval T.preds (c03Dunder T n) s o
      | Option.none => .notImpl := by
  cases d <;> first | rfl | exact absurd rfl hd

theorem c03_resolve_of_mro {s : Expr} {m : List C03Class} (h : s.c03Mro = m) (d : C03Dunder) :
    c03Table.resolve s d =
      (m.findSome? fun c => c03Methods.find? fun x => x.cls == c && x.name == d).map (·.body) := by
  simp [C03Table.resolve, h, c03Table]

theorem c03Table_preds : c03Table.preds = c03Preds := rfl

/-- the method is found in `Expression` whatever node `self` is -/
macro "c03_base" s:ident hs:ident : tactic =>
  `(tactic| (rcases c03_shape $s $hs with ⟨cs, hcs⟩ | ⟨cs, hcs⟩ | h
             · subst hcs; rfl
             · subst hcs; rfl
             · rw [c03_resolve_of_mro h.mro]; rfl))

/-- run the interpreter on an unfolded body -/
macro "c03_run" : tactic =>
  `(tactic| simp only [C03Body.eval, C03Cond.eval, C03Term.eval, C03Res.eval, c03Pieces,
      Dunder.ofExcept, c03Table_preds, c03_truthy, c03_isConstant, c03_isNumber, c03_isValidOperand, c03_isArith,
      Expr.c03Children, bind, Except.bind, pure, Except.pure, Bool.not_eq_true', Bool.not_eq_true,
      Bool.not_not, List.append_nil, List.nil_append, List.cons_append, Expr.isZero,
      Bool.not_eq_eq_eq_not, Bool.not_true, Bool.not_false, ite_not, Bool.if_true_left,
      Bool.if_false_right])

/-! ### the methods only `Expression` defines -/

/-- finish a goal whose right-hand side still matches on the shape of `o` -/
macro "c03_by_cases" o:ident "[" ls:Lean.Parser.Tactic.simpLemma,* "]" : tactic =>
  `(tactic| (cases $o:ident with
      | nary op ds =>
        cases op <;> simp_all [zero, one, Expr.isZero, $ls,*] <;> try (split <;> simp_all)
      | const c =>
        cases c <;> simp_all [zero, one, Expr.isZero, $ls,*] <;> try (split <;> simp_all)
      | _ => simp_all [zero, one, Expr.isZero, $ls,*] <;> try (split <;> simp_all)))

/-- a method of `Expression` that no node class overrides and whose hand-written counterpart does
not look at the shape of `self` -/
macro "c03_simple" s:ident hs:ident d:term:max body:ident "[" ls:Lean.Parser.Tactic.simpLemma,* "]" : tactic =>
  `(tactic| (have hr : c03Table.resolve $s $d = some $body := by c03_base $s $hs
             rw [c03Dunder_step _ _ _ (by decide), hr]
             simp only [$body:ident]
             c03_run
             try simp [zero, one, Expr.isZero, $ls,*]
             try (split <;> simp_all)))

theorem tbl_floordiv (n : Nat) (s o : Expr) (hs : s.isNode = true) :
    c03Dunder c03Table (n + 1) .floordiv s o = floordivD s o := by
  c03_simple s hs .floordiv c03_Expression_floordiv [floordivD]

theorem tbl_rfloordiv (n : Nat) (s o : Expr) (hs : s.isNode = true) :
    c03Dunder c03Table (n + 1) .rfloordiv s o = rfloordivD s o := by
  c03_simple s hs .rfloordiv c03_Expression_rfloordiv [rfloordivD, c03_node_not_one hs]

theorem tbl_mod (n : Nat) (s o : Expr) (hs : s.isNode = true) :
    c03Dunder c03Table (n + 1) .mod s o = modD s o := by
  c03_simple s hs .mod c03_Expression_mod [modD]

theorem tbl_rmod (n : Nat) (s o : Expr) (hs : s.isNode = true) :
    c03Dunder c03Table (n + 1) .rmod s o = rmodD s o := by
  c03_simple s hs .rmod c03_Expression_rmod [rmodD]

theorem tbl_pow (n : Nat) (s o : Expr) (hs : s.isNode = true) :
    c03Dunder c03Table (n + 1) .pow s o = powD s o := by
  c03_simple s hs .pow c03_Expression_pow [powD]

theorem tbl_rpow (n : Nat) (s o : Expr) (hs : s.isNode = true) :
    c03Dunder c03Table (n + 1) .rpow s o = rpowD s o := by
  c03_simple s hs .rpow c03_Expression_rpow [rpowD]

theorem tbl_lshift (n : Nat) (s o : Expr) (hs : s.isNode = true) :
    c03Dunder c03Table (n + 1) .lshift s o = mkBinD (.bin .lshift) s o := by
  c03_simple s hs .lshift c03_Expression_lshift [mkBinD]

theorem tbl_rlshift (n : Nat) (s o : Expr) (hs : s.isNode = true) :
    c03Dunder c03Table (n + 1) .rlshift s o = mkBinRD (.bin .lshift) s o := by
  c03_simple s hs .rlshift c03_Expression_rlshift [mkBinRD]

theorem tbl_rshift (n : Nat) (s o : Expr) (hs : s.isNode = true) :
    c03Dunder c03Table (n + 1) .rshift s o = mkBinD (.bin .rshift) s o := by
  c03_simple s hs .rshift c03_Expression_rshift [mkBinD]

theorem tbl_rrshift (n : Nat) (s o : Expr) (hs : s.isNode = true) :
    c03Dunder c03Table (n + 1) .rrshift s o = mkBinRD (.bin .rshift) s o := by
  c03_simple s hs .rrshift c03_Expression_rrshift [mkBinRD]

theorem tbl_and (n : Nat) (s o : Expr) (hs : s.isNode = true) :
    c03Dunder c03Table (n + 1) .and_ s o = mkBinD (fun a b => .nary .band [a, b]) s o := by
  c03_simple s hs .and_ c03_Expression_and_ [mkBinD]

theorem tbl_rand (n : Nat) (s o : Expr) (hs : s.isNode = true) :
    c03Dunder c03Table (n + 1) .rand s o = mkBinRD (fun a b => .nary .band [a, b]) s o := by
  c03_simple s hs .rand c03_Expression_rand [mkBinRD]

theorem tbl_or (n : Nat) (s o : Expr) (hs : s.isNode = true) :
    c03Dunder c03Table (n + 1) .or_ s o = mkBinD (fun a b => .nary .bor [a, b]) s o := by
  c03_simple s hs .or_ c03_Expression_or_ [mkBinD]

theorem tbl_ror (n : Nat) (s o : Expr) (hs : s.isNode = true) :
    c03Dunder c03Table (n + 1) .ror s o = mkBinRD (fun a b => .nary .bor [a, b]) s o := by
  c03_simple s hs .ror c03_Expression_ror [mkBinRD]

theorem tbl_xor (n : Nat) (s o : Expr) (hs : s.isNode = true) :
    c03Dunder c03Table (n + 1) .xor s o = mkBinD (fun a b => .nary .bxor [a, b]) s o := by
  c03_simple s hs .xor c03_Expression_xor [mkBinD]

theorem tbl_rxor (n : Nat) (s o : Expr) (hs : s.isNode = true) :
    c03Dunder c03Table (n + 1) .rxor s o = mkBinRD (fun a b => .nary .bxor [a, b]) s o := by
  c03_simple s hs .rxor c03_Expression_rxor [mkBinRD]

theorem tbl_pos (n : Nat) (s o : Expr) (hs : s.isNode = true) :
    c03Dunder c03Table (n + 1) .pos s o = .ret s := by
  c03_simple s hs .pos c03_Expression_pos []

theorem tbl_invert (n : Nat) (s o : Expr) (hs : s.isNode = true) :
    c03Dunder c03Table (n + 1) .invert s o = .ret (.un .bnot s) := by
  c03_simple s hs .invert c03_Expression_invert []

/-! ### the methods `Sum` / `Product` override -/

theorem tbl_mul (n : Nat) (s o : Expr) (hs : s.isNode = true) :
    c03Dunder c03Table (n + 1) .mul s o = mulD s o := by
  rcases c03_shape s hs with ⟨cs, rfl⟩ | ⟨cs, rfl⟩ | h
  · rw [c03Dunder_step _ _ _ (by decide),
      show c03Table.resolve (.nary .sum cs) .mul = some c03_Expression_mul from rfl]
    simp only [c03_Expression_mul]
    c03_run
    simp [mulD, zero, Expr.isZero]
  · rw [c03Dunder_step _ _ _ (by decide),
      show c03Table.resolve (.nary .prod cs) .mul = some c03_Product_mul from rfl]
    simp only [c03_Product_mul]
    rcases c03_other_prod o with ⟨ds, rfl⟩ | ⟨ho, hne⟩
    · c03_run
      simp [mulD, zero, Expr.isZero, c03_isinst_prod]
    · c03_run
      simp only [ho]
      c03_by_cases o [mulD]
  · have hr : c03Table.resolve s .mul = some c03_Expression_mul := by
      rw [c03_resolve_of_mro h.mro]; rfl
    rw [c03Dunder_step _ _ _ (by decide), hr]
    simp only [c03_Expression_mul]
    c03_run
    have := h.notProd
    c03_by_cases s [mulD]

theorem tbl_rmul (n : Nat) (s o : Expr) (hs : s.isNode = true) :
    c03Dunder c03Table (n + 1) .rmul s o = rmulD s o := by
  rcases c03_shape s hs with ⟨cs, rfl⟩ | ⟨cs, rfl⟩ | h
  · rw [c03Dunder_step _ _ _ (by decide),
      show c03Table.resolve (.nary .sum cs) .rmul = some c03_Expression_rmul from rfl]
    simp only [c03_Expression_rmul]
    c03_run
    simp [rmulD, zero, Expr.isZero]
  · rw [c03Dunder_step _ _ _ (by decide),
      show c03Table.resolve (.nary .prod cs) .rmul = some c03_Product_rmul from rfl]
    simp only [c03_Product_rmul]
    c03_run
    by_cases hc : o.isConstant = true
    · simp [rmulD, zero, Expr.isZero, hc, c03_const_not_prod hc]
    · simp [rmulD, hc]
  · have hr : c03Table.resolve s .rmul = some c03_Expression_rmul := by
      rw [c03_resolve_of_mro h.mro]; rfl
    rw [c03Dunder_step _ _ _ (by decide), hr]
    simp only [c03_Expression_rmul]
    c03_run
    have := h.notProd
    c03_by_cases s [rmulD]

theorem tbl_add (n : Nat) (s o : Expr) (hs : s.isNode = true) :
    c03Dunder c03Table (n + 1) .add s o = addD s o := by
  rcases c03_shape s hs with ⟨cs, rfl⟩ | ⟨cs, rfl⟩ | h
  · rw [c03Dunder_step _ _ _ (by decide),
      show c03Table.resolve (.nary .sum cs) .add = some c03_Sum_add from rfl]
    simp only [c03_Sum_add]
    rcases c03_other_sum o with ⟨ds, rfl⟩ | ⟨ho, hne⟩
    · c03_run
      simp [addD, c03_isinst_sum]
    · c03_run
      simp only [ho]
      c03_by_cases o [addD]
  · rw [c03Dunder_step _ _ _ (by decide),
      show c03Table.resolve (.nary .prod cs) .add = some c03_Expression_add from rfl]
    simp only [c03_Expression_add]
    rcases c03_other_sum o with ⟨ds, rfl⟩ | ⟨ho, hne⟩
    · c03_run
      simp [addD, exprAdd, c03_isinst_sum]
    · c03_run
      simp only [ho]
      c03_by_cases o [addD, exprAdd]
  · have hr : c03Table.resolve s .add = some c03_Expression_add := by
      rw [c03_resolve_of_mro h.mro]; rfl
    rw [c03Dunder_step _ _ _ (by decide), hr]
    simp only [c03_Expression_add]
    have hadd : addD s o = exprAdd s o := by
      have := h.notSum
      c03_by_cases s [addD]
    rw [hadd]
    rcases c03_other_sum o with ⟨ds, rfl⟩ | ⟨ho, hne⟩
    · c03_run
      simp [exprAdd, c03_isinst_sum]
    · c03_run
      simp only [ho]
      c03_by_cases o [exprAdd]

theorem tbl_radd (n : Nat) (s o : Expr) (hs : s.isNode = true) :
    c03Dunder c03Table (n + 1) .radd s o = raddD s o := by
  rcases c03_shape s hs with ⟨cs, rfl⟩ | ⟨cs, rfl⟩ | h
  · rw [c03Dunder_step _ _ _ (by decide),
      show c03Table.resolve (.nary .sum cs) .radd = some c03_Sum_radd from rfl]
    simp only [c03_Sum_radd]
    c03_run
    by_cases hc : o.isConstant = true
    · simp [raddD, hc, c03_const_not_sum hc]
    · simp [raddD, hc]
  · rw [c03Dunder_step _ _ _ (by decide),
      show c03Table.resolve (.nary .prod cs) .radd = some c03_Expression_radd from rfl]
    simp only [c03_Expression_radd]
    c03_run
    simp [raddD]
    try (split <;> simp_all)
  · have hr : c03Table.resolve s .radd = some c03_Expression_radd := by
      rw [c03_resolve_of_mro h.mro]; rfl
    rw [c03Dunder_step _ _ _ (by decide), hr]
    simp only [c03_Expression_radd]
    c03_run
    have := h.notSum
    c03_by_cases s [raddD]

/-! ### negation, subtraction, division: bodies that call other methods -/

theorem c03Bin_node_right (call : C03Call) (o : PyBinOp) (a v : Expr) (hv : v.isNode = true) :
    c03Bin call o a v = dispatch (call o.c03Fwd) (call o.c03Refl) a v := by
  unfold c03Bin
  split
  · simp [Expr.isNode] at hv
  · rfl

theorem rmulD_negOne (v : Expr) : ∃ r, rmulD v negOne = .ret r := by
  have h1 : negOne.isConstant = true := rfl
  have h2 : negOne.isZero = false := rfl
  have h3 : negOne.isOne = false := rfl
  unfold rmulD
  simp [h1, h2, h3]
  split <;> simp

theorem negE_node {v r : Expr} (hv : v.isNode = true) (h : rmulD v negOne = .ret r) :
    negE v = .ok r := by
  cases v <;> simp_all [negE, Expr.isNode] <;> rfl

/-- `-v` inside a method body -/
theorem tbl_neg_un (n : Nat) (v : Expr) :
    c03Un (c03Dunder c03Table (n + 2)) .neg v = negE v := by
  by_cases hv : v.isNode = true
  · have hr : c03Table.resolve v .neg = some c03_Expression_neg := by c03_base v hv
    have hc : ∀ c, v ≠ .const c := by intro c h; subst h; simp [Expr.isNode] at hv
    have h1 : c03Un (c03Dunder c03Table (n + 2)) .neg v =
        (c03Dunder c03Table (n + 2) .neg v v).c03Result := by
      cases v <;> simp_all [c03Un, Expr.isNode, PyUnOp.c03Dunder]
    obtain ⟨r, hr'⟩ := rmulD_negOne v
    rw [h1, c03Dunder_step _ _ _ (by decide), hr, negE_node hv hr']
    simp only [c03_Expression_neg]
    c03_run
    rw [c03Bin_node_right _ _ _ _ hv]
    have hcn : (Expr.const (.int (-1))).isNode = false := rfl
    simp only [dispatch, hcn, hv, Expr.isConstant, PyBinOp.c03Refl, tbl_rmul n v _ hv]
    simp [negOne] at hr'
    simp [hr', negOne, Dunder.c03Result, pure, Except.pure]
  · cases v <;> simp_all [c03Un, negE, Expr.isNode] <;> rfl


theorem tbl_neg (n : Nat) (s o : Expr) (hs : s.isNode = true) :
    (c03Dunder c03Table (n + 2) .neg s o).c03Result = negE s := by
  have h := tbl_neg_un n s
  have h1 : c03Un (c03Dunder c03Table (n + 2)) .neg s =
      (c03Dunder c03Table (n + 2) .neg s s).c03Result := by
    cases s <;> simp_all [c03Un, Expr.isNode, PyUnOp.c03Dunder]
  rw [← h, h1]
  have hr : c03Table.resolve s .neg = some c03_Expression_neg := by c03_base s hs
  rw [c03Dunder_step _ _ _ (by decide), c03Dunder_step _ _ _ (by decide), hr]
  simp only [c03_Expression_neg]
  c03_run

theorem tbl_sub (n : Nat) (s o : Expr) (hs : s.isNode = true) :
    c03Dunder c03Table (n + 3) .sub s o = subD s o := by
  rcases c03_shape s hs with ⟨cs, rfl⟩ | ⟨cs, rfl⟩ | h
  · rw [c03Dunder_step _ _ _ (by decide),
      show c03Table.resolve (.nary .sum cs) .sub = some c03_Sum_sub from rfl]
    simp only [c03_Sum_sub]
    c03_run
    simp only [tbl_neg_un]
    simp only [subD]
    cases negE o <;> simp
  · rw [c03Dunder_step _ _ _ (by decide),
      show c03Table.resolve (.nary .prod cs) .sub = some c03_Expression_sub from rfl]
    simp only [c03_Expression_sub]
    c03_run
    simp only [tbl_neg_un]
    simp only [subD]
    cases negE o <;> simp [tbl_add (n + 1) _ _ hs, addD]
  · have hr : c03Table.resolve s .sub = some c03_Expression_sub := by
      rw [c03_resolve_of_mro h.mro]; rfl
    rw [c03Dunder_step _ _ _ (by decide), hr]
    simp only [c03_Expression_sub]
    c03_run
    simp only [tbl_neg_un]
    have hadd : ∀ y, addD s y = exprAdd s y := by
      intro y
      have := h.notSum
      c03_by_cases s [addD]
    have := h.notSum
    cases hn : negE o <;> simp only [tbl_add (n + 1) _ _ hs, hadd] <;> c03_by_cases s [subD]

theorem tbl_rsub (n : Nat) (s o : Expr) (hs : s.isNode = true) :
    c03Dunder c03Table (n + 3) .rsub s o = rsubD s o := by
  have hr : c03Table.resolve s .rsub = some c03_Expression_rsub := by c03_base s hs
  rw [c03Dunder_step _ _ _ (by decide), hr]
  simp only [c03_Expression_rsub]
  c03_run
  simp only [tbl_neg_un]
  simp only [rsubD]
  cases negE s <;> simp

/-- the helper `quotient(a, b)` with at least one node operand -/
theorem tbl_quotientFn (n : Nat) (a b : Expr) (h : a.isNode = true ∨ b.isNode = true) :
    c03Dunder c03Table (n + 1) .quotientFn a b =
      if b.isOne then .ret a else .ret (.bin .quot a b) := by
  have h1 : c03Dunder c03Table (n + 1) .quotientFn a b =
      c03Table.quotient.eval c03Table.preds (c03Dunder c03Table n) a b := by
    unfold c03Dunder
    split
    · rcases h with h | h <;> simp [Expr.isNode] at h
    · rfl
  rw [h1, show c03Table.quotient = c03_quotient from rfl]
  simp only [c03_quotient]
  c03_run

theorem tbl_truediv (n : Nat) (s o : Expr) (hs : s.isNode = true) :
    c03Dunder c03Table (n + 2) .truediv s o = divD s o := by
  have hr : c03Table.resolve s .truediv = some c03_Expression_truediv := by c03_base s hs
  rw [c03Dunder_step _ _ _ (by decide), hr]
  simp only [c03_Expression_truediv]
  c03_run
  simp only [tbl_quotientFn n s o (Or.inl hs), divD]
  simp
  repeat' split <;> simp_all

theorem tbl_rtruediv (n : Nat) (s o : Expr) (hs : s.isNode = true) :
    c03Dunder c03Table (n + 2) .rtruediv s o = rdivD s o := by
  have hr : c03Table.resolve s .rtruediv = some c03_Expression_rtruediv := by c03_base s hs
  rw [c03Dunder_step _ _ _ (by decide), hr]
  simp only [c03_Expression_rtruediv]
  c03_run
  simp only [tbl_quotientFn n o s (Or.inr hs), rdivD, c03_node_not_one hs]
  simp [zero, Expr.isZero]

/-! ### the operators -/

theorem c03_dispatch_congr {f f' g g' : Expr → Expr → Dunder}
    (hf : ∀ s o, s.isNode = true → f s o = f' s o)
    (hg : ∀ s o, s.isNode = true → g s o = g' s o) (a b : Expr) :
    dispatch f g a b = dispatch f' g' a b := by
  unfold dispatch
  by_cases ha : a.isNode = true <;> by_cases hb : b.isNode = true <;> simp [ha, hb, hf, hg]

/-- `Ops.bin` is the table interpreter run on the regenerated table -/
theorem c03_bin_eq_table (o : PyBinOp) (a b : Expr) :
    Ops.bin o a b = opByTable c03Table o a b := by
  cases o
  · exact c03_dispatch_congr (fun s o hs => (tbl_add 4 s o hs).symm)
      (fun s o hs => (tbl_radd 4 s o hs).symm) a b
  · exact c03_dispatch_congr (fun s o hs => (tbl_sub 2 s o hs).symm)
      (fun s o hs => (tbl_rsub 2 s o hs).symm) a b
  · exact c03_dispatch_congr (fun s o hs => (tbl_mul 4 s o hs).symm)
      (fun s o hs => (tbl_rmul 4 s o hs).symm) a b
  · exact c03_dispatch_congr (fun s o hs => (tbl_truediv 3 s o hs).symm)
      (fun s o hs => (tbl_rtruediv 3 s o hs).symm) a b
  · exact c03_dispatch_congr (fun s o hs => (tbl_floordiv 4 s o hs).symm)
      (fun s o hs => (tbl_rfloordiv 4 s o hs).symm) a b
  · exact c03_dispatch_congr (fun s o hs => (tbl_mod 4 s o hs).symm)
      (fun s o hs => (tbl_rmod 4 s o hs).symm) a b
  · exact c03_dispatch_congr (fun s o hs => (tbl_pow 4 s o hs).symm)
      (fun s o hs => (tbl_rpow 4 s o hs).symm) a b
  · exact c03_dispatch_congr (fun s o hs => (tbl_lshift 4 s o hs).symm)
      (fun s o hs => (tbl_rlshift 4 s o hs).symm) a b
  · exact c03_dispatch_congr (fun s o hs => (tbl_rshift 4 s o hs).symm)
      (fun s o hs => (tbl_rrshift 4 s o hs).symm) a b
  · exact c03_dispatch_congr (fun s o hs => (tbl_and 4 s o hs).symm)
      (fun s o hs => (tbl_rand 4 s o hs).symm) a b
  · exact c03_dispatch_congr (fun s o hs => (tbl_or 4 s o hs).symm)
      (fun s o hs => (tbl_ror 4 s o hs).symm) a b
  · exact c03_dispatch_congr (fun s o hs => (tbl_xor 4 s o hs).symm)
      (fun s o hs => (tbl_rxor 4 s o hs).symm) a b

/-- `Ops.un` is the table interpreter run on the regenerated table -/
theorem c03_un_eq_table (o : PyUnOp) (e : Expr) : Ops.un o e = unByTable c03Table o e := by
  by_cases he : e.isNode = true
  · cases o
    · simp only [Ops.un, unByTable, he, if_true, PyUnOp.c03Dunder, c03Fuel]
      exact (tbl_neg 3 e e he).symm
    · simp [Ops.un, unByTable, he, PyUnOp.c03Dunder, c03Fuel, tbl_pos 4 e e he,
        Dunder.c03Result]
    · simp [Ops.un, unByTable, he, PyUnOp.c03Dunder, c03Fuel, tbl_invert 4 e e he,
        Dunder.c03Result]
  · cases o <;> simp [Ops.un, unByTable, he]

/-! ### flatteners -/

theorem c03_flatSumLoop_of (F : C03Flatten) (h1 : F.zeroReturns = false)
    (h2 : F.skipsOne = false) (h3 : F.cls = .sum) (h4 : F.spliceFront = true)
    (fuel : Nat) (q d : List Expr) :
    c03FlattenLoop c03Preds F fuel q d = some (flattenedSumLoop fuel q d) := by
  induction fuel generalizing q d with
  | zero => rfl
  | succ n ih =>
    cases q with
    | nil => rfl
    | cons item queue =>
      simp only [c03FlattenLoop, flattenedSumLoop, h1, h2, h3, h4, if_true, Bool.false_and,
        c03_not_truthy]
      by_cases hz : item.isZero = true
      · simp [hz, ih]
      · simp only [hz]
        cases item with
        | nary op cs => cases op <;> simp [ih]
        | _ => simp [ih]

theorem c03_flatProductLoop_of (F : C03Flatten) (h1 : F.zeroReturns = true)
    (h2 : F.skipsOne = true) (h3 : F.cls = .prod) (h4 : F.spliceFront = true)
    (fuel : Nat) (q d : List Expr) :
    c03FlattenLoop c03Preds F fuel q d = flattenedProductLoop fuel q d := by
  induction fuel generalizing q d with
  | zero => rfl
  | succ n ih =>
    cases q with
    | nil => rfl
    | cons item queue =>
      simp only [c03FlattenLoop, flattenedProductLoop, h1, h2, h3, h4, if_true, Bool.true_and,
        c03_not_truthy]
      by_cases hz : item.isZero = true
      · simp [hz]
      · by_cases ho : item.isOne = true
        · simp [hz, ho, ih]
        · simp only [hz, ho]
          cases item with
          | nary op cs => cases op <;> simp [ih]
          | _ => simp [ih]

theorem c03_flatSumLoop (fuel : Nat) (q d : List Expr) :
    c03FlattenLoop c03Preds c03FlatSum fuel q d = some (flattenedSumLoop fuel q d) :=
  c03_flatSumLoop_of _ rfl rfl rfl rfl fuel q d

theorem c03_flatProductLoop (fuel : Nat) (q d : List Expr) :
    c03FlattenLoop c03Preds c03FlatProduct fuel q d = flattenedProductLoop fuel q d :=
  c03_flatProductLoop_of _ rfl rfl rfl rfl fuel q d

theorem c03_flattenedSum_eq (terms : List Expr) :
    flattenedSum terms = c03Flatten c03Preds c03FlatSum terms := by
  unfold flattenedSum c03Flatten
  rw [c03_flatSumLoop]
  generalize flattenedSumLoop _ _ _ = l
  match l with
  | [] => rfl
  | [x] => rfl
  | x :: y :: r => rfl

theorem c03_flattenedProduct_eq (terms : List Expr) :
    flattenedProduct terms = c03Flatten c03Preds c03FlatProduct terms := by
  unfold flattenedProduct c03Flatten
  rw [c03_flatProductLoop]
  generalize flattenedProductLoop _ _ _ = l
  match l with
  | Option.none => rfl
  | some [] => rfl
  | some [x] => rfl
  | some (x :: y :: r) => rfl

/-! ### `is_zero(x - 1)`: the one place where the table language abbreviates an expression -/

/-- for a node `e`, the tree the operators build for `e - 1` is truthy: `is_zero(e - 1)` is
`False`, as `Expr.isOne` says -/
theorem c03_exprAdd_negOne (e : Expr) :
    exprAdd e negOne = if e.truthy then .ret (.nary .sum [e, negOne]) else .ret negOne := by
  have h4 : (Expr.const (.int (-1))).isArith = true := rfl
  have h5 : (Expr.const (.int (-1))).truthy = true := rfl
  simp [exprAdd, negOne, h4, h5]

theorem c03_subD_one (e : Expr) (he : e.isNode = true) :
    ∃ r, subD e one = .ret r ∧ r.isZero = false := by
  have h1 : one.isValidOperand = true := rfl
  have h2 : one.truthy = true := rfl
  have h3 : negE one = .ok negOne := rfl
  have hgen : subD e one = exprAdd e negOne → ∃ r, subD e one = .ret r ∧ r.isZero = false := by
    intro hsub
    rw [hsub, c03_exprAdd_negOne]
    by_cases ht : e.truthy = true
    · exact ⟨.nary .sum [e, negOne], by simp [ht], rfl⟩
    · exact ⟨negOne, by simp [ht], rfl⟩
  rcases c03_shape e he with ⟨cs, rfl⟩ | ⟨cs, rfl⟩ | hg
  · refine ⟨.nary .sum (cs ++ [negOne]), by simp [subD, h1, h2, h3], ?_⟩
    cases cs with
    | nil => rfl
    | cons c cs => cases cs <;> simp [Expr.isZero, Expr.truthy, Expr.truthySum]
  · exact hgen (by simp [subD, h1, h2, h3])
  · refine hgen ?_
    have := hg.notSum
    c03_by_cases e [subD, h1, h2, h3]

theorem c03_sub_one_node (e r : Expr) (he : e.isNode = true)
    (h : Ops.bin .sub e one = .ok r) : r.isZero = e.isOne := by
  rw [c03_node_not_one he]
  obtain ⟨r', hr, hz⟩ := c03_subD_one e he
  simp [Ops.bin, dispatch, he, hr, pure, Except.pure] at h
  subst h
  exact hz

/-- for an int or bool constant `c`, `c - 1` is zero exactly when `Const.isOne c` -/
theorem c03_sub_one_const (c c' : Const) (h : constBin .sub c (.int 1) = .ok (.const c')) :
    (Expr.const c').isZero = (Expr.const c).isOne := by
  cases c with
  | int n =>
    simp [constBin, Const.toValue?, PyBinOp.onValues, Value.sub, arith, Value.isInexact,
      Value.isSeq, Value.num?, subN, Value.toConst?, pure, Except.pure] at h
    subst h
    simp [Expr.isZero, Expr.truthy, Const.truthy, Expr.isOne, Const.isOne]
    by_cases hn : n = 1
    · subst hn; rfl
    · have : n - 1 ≠ 0 := by omega
      rw [show (n - 1 != 0) = true from by simpa using this,
        show (n == 1) = false from by simpa using hn]
      rfl
  | bool b =>
    simp [constBin, Const.toValue?, PyBinOp.onValues, Value.sub, arith, Value.isInexact,
      Value.isSeq, Value.num?, subN, Value.toConst?, pure, Except.pure] at h
    subst h
    cases b <;> simp [Expr.isZero, Expr.truthy, Const.truthy, Expr.isOne, Const.isOne]
  | _ => simp [constBin, Const.toValue?] at h

/-! ### operator programs -/

theorem c03_build_eq_table (p : OpProg) : p.build = p.c03BuildByTable c03Table := by
  induction p with
  | leaf e => rfl
  | bin o p q ihp ihq =>
    simp only [OpProg.build, OpProg.c03BuildByTable, ihp, ihq, c03_bin_eq_table]
    rfl
  | un o p ih =>
    simp only [OpProg.build, OpProg.c03BuildByTable, ih, c03_un_eq_table]
    rfl

end PV
