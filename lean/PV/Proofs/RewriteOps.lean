import PV.Proofs.RewriteFold
set_option linter.unusedSimpArgs false
/-
  C11, part 6: the overloaded operators `+`, `*`, `**` (as used inside `TermCollector` and
  `DistributeMapper`: `pyAdd`, `pyMul`, `pyPow`) build trees with the expected value in any field.
  (The corresponding lemmas of C03, `PV/Proofs/OpsRing.lean`, are about the smaller non-commutative
  fragment `evalRing`; quotients, powers and CSE wrappers are opaque operands here.)
-/
namespace PV

universe u
variable {K : Type u} [Field K] [DecidableEq K]

section
variable (ρ : String → K)

theorem evalK_sum_pair {x y : Expr} {a b : K} (hx : evalK ρ x = some a) (hy : evalK ρ y = some b) :
    evalK ρ (.nary .sum [x, y]) = some (a + b) := by
  rw [evalK_sum, evalKL_cons_mk ρ hx (evalKL_singleton ρ hy)]; simp

theorem evalK_prod_pair {x y : Expr} {a b : K} (hx : evalK ρ x = some a) (hy : evalK ρ y = some b) :
    evalK ρ (.nary .prod [x, y]) = some (a * b) := by
  rw [evalK_prod, evalKL_cons_mk ρ hx (evalKL_singleton ρ hy)]; simp

theorem evalK_sum_cons {x : Expr} {cs : List Expr} {a b : K} (hx : evalK ρ x = some a)
    (hy : evalK ρ (.nary .sum cs) = some b) : evalK ρ (.nary .sum (x :: cs)) = some (a + b) := by
  rw [evalK_sum] at hy ⊢; rw [evalKL_cons_mk ρ hx hy]; simp

theorem evalK_prod_cons {x : Expr} {cs : List Expr} {a b : K} (hx : evalK ρ x = some a)
    (hy : evalK ρ (.nary .prod cs) = some b) : evalK ρ (.nary .prod (x :: cs)) = some (a * b) := by
  rw [evalK_prod] at hy ⊢; rw [evalKL_cons_mk ρ hx hy]; simp

theorem evalK_sum_append {cs ds : List Expr} {a b : K} (hx : evalK ρ (.nary .sum cs) = some a)
    (hy : evalK ρ (.nary .sum ds) = some b) : evalK ρ (.nary .sum (cs ++ ds)) = some (a + b) := by
  rw [evalK_sum] at hx hy ⊢; rw [evalKL_append_mk ρ hx hy]; simp

theorem evalK_prod_append {cs ds : List Expr} {a b : K} (hx : evalK ρ (.nary .prod cs) = some a)
    (hy : evalK ρ (.nary .prod ds) = some b) : evalK ρ (.nary .prod (cs ++ ds)) = some (a * b) := by
  rw [evalK_prod] at hx hy ⊢; rw [evalKL_append_mk ρ hx hy]; simp

theorem evalK_sum_snoc {cs : List Expr} {y : Expr} {a b : K} (hx : evalK ρ (.nary .sum cs) = some a)
    (hy : evalK ρ y = some b) : evalK ρ (.nary .sum (cs ++ [y])) = some (a + b) := by
  rw [evalK_sum] at hx ⊢; rw [evalKL_append_mk ρ hx (evalKL_singleton ρ hy)]; simp

theorem evalK_prod_snoc {cs : List Expr} {y : Expr} {a b : K}
    (hx : evalK ρ (.nary .prod cs) = some a) (hy : evalK ρ y = some b) :
    evalK ρ (.nary .prod (cs ++ [y])) = some (a * b) := by
  rw [evalK_prod] at hx ⊢; rw [evalKL_append_mk ρ hx (evalKL_singleton ρ hy)]; simp

theorem rmulD_K {self other t : Expr} {a b : K} (h : rmulD self other = .ret t)
    (hs : evalK ρ self = some a) (ho : evalK ρ other = some b) : evalK ρ t = some (b * a) := by
  unfold rmulD at h
  split at h
  · contradiction
  · split at h
    · split at h
      · injection h with h; subst h
        rw [isZero_K ρ ‹_› ho, zero_mul]; exact evalK_zero ρ
      · split at h
        · injection h with h; subst h
          rw [isOne_K ρ ‹_› ho, one_mul]; exact hs
        · injection h with h; subst h
          exact evalK_prod_cons ρ ho hs
    · split at h
      · injection h with h; subst h
        rw [isOne_K ρ ‹_› ho, one_mul]; exact hs
      · split at h
        · injection h with h; subst h
          rw [isZero_K ρ ‹_› ho, zero_mul]; exact evalK_zero ρ
        · injection h with h; subst h
          exact evalK_prod_pair ρ ho hs

theorem mulD_K {self other t : Expr} {a b : K} (h : mulD self other = .ret t)
    (hs : evalK ρ self = some a) (ho : evalK ρ other = some b) : evalK ρ t = some (a * b) := by
  unfold mulD at h
  split at h
  · contradiction
  · split at h
    · split at h
      · injection h with h; subst h
        exact evalK_prod_append ρ hs ho
      · split at h
        · injection h with h; subst h
          rw [isZero_K ρ ‹_› ho, mul_zero]; exact evalK_zero ρ
        · split at h
          · injection h with h; subst h
            rw [isOne_K ρ ‹_› ho, mul_one]; exact hs
          · injection h with h; subst h
            exact evalK_prod_snoc ρ hs ho
    · split at h
      · injection h with h; subst h
        rw [isOne_K ρ ‹_› ho, mul_one]; exact hs
      · split at h
        · injection h with h; subst h
          rw [isZero_K ρ ‹_› ho, mul_zero]; exact evalK_zero ρ
        · injection h with h; subst h
          exact evalK_prod_pair ρ hs ho

theorem exprAdd_K {self other t : Expr} {a b : K} (h : exprAdd self other = .ret t)
    (hs : evalK ρ self = some a) (ho : evalK ρ other = some b) : evalK ρ t = some (a + b) := by
  unfold exprAdd at h
  split at h
  · contradiction
  · split at h
    · split at h
      · split at h
        · injection h with h; subst h
          exact evalK_sum_cons ρ hs ho
        · injection h with h; subst h
          exact evalK_sum_pair ρ hs ho
      · injection h with h; subst h
        rename_i hst
        simp only [Bool.not_eq_true] at hst
        rw [falsy_K ρ _ _ hst hs, zero_add]; exact ho
    · injection h with h; subst h
      rename_i hot
      simp only [Bool.not_eq_true] at hot
      rw [falsy_K ρ _ _ hot ho, add_zero]; exact hs

theorem addD_K {self other t : Expr} {a b : K} (h : addD self other = .ret t)
    (hs : evalK ρ self = some a) (ho : evalK ρ other = some b) : evalK ρ t = some (a + b) := by
  unfold addD at h
  split at h
  · split at h
    · contradiction
    · split at h
      · injection h with h; subst h
        exact evalK_sum_append ρ hs ho
      · split at h
        · injection h with h; subst h
          rename_i hot
          simp only [Bool.not_eq_true', ] at hot
          rw [falsy_K ρ _ _ hot ho, add_zero]; exact hs
        · injection h with h; subst h
          exact evalK_sum_snoc ρ hs ho
  · exact exprAdd_K ρ h hs ho

theorem raddD_K {self other t : Expr} {a b : K} (h : raddD self other = .ret t)
    (hs : evalK ρ self = some a) (ho : evalK ρ other = some b) : evalK ρ t = some (b + a) := by
  unfold raddD at h
  split at h
  · split at h
    · contradiction
    · split at h
      · injection h with h; subst h
        rename_i hot
        simp only [Bool.not_eq_true'] at hot
        rw [falsy_K ρ _ _ hot ho, zero_add]; exact hs
      · injection h with h; subst h
        exact evalK_sum_cons ρ ho hs
  · split at h
    · contradiction
    · split at h
      · split at h
        · injection h with h; subst h
          exact evalK_sum_pair ρ ho hs
        · injection h with h; subst h
          rename_i hst
          simp only [Bool.not_eq_true] at hst
          rw [falsy_K ρ _ _ hst hs, add_zero]; exact ho
      · injection h with h; subst h
        rename_i hot
        simp only [Bool.not_eq_true] at hot
        rw [falsy_K ρ _ _ hot ho, zero_add]; exact hs

theorem dispatch_K {fwd refl : Expr → Expr → Dunder} (g : K → K → K)
    (hf : ∀ {s o t : Expr} {a b : K}, fwd s o = .ret t → evalK ρ s = some a →
      evalK ρ o = some b → evalK ρ t = some (g a b))
    (hr : ∀ {s o t : Expr} {a b : K}, refl s o = .ret t → evalK ρ s = some a →
      evalK ρ o = some b → evalK ρ t = some (g b a))
    {x y t : Expr} {a b : K} (h : dispatch fwd refl x y = .ok t)
    (hx : evalK ρ x = some a) (hy : evalK ρ y = some b) : evalK ρ t = some (g a b) := by
  unfold dispatch at h
  simp only [pure, Except.pure, throw, throwThe, MonadExceptOf.throw] at h
  split at h
  · split at h
    · rename_i r hr'
      injection h with h; subst h
      exact hf hr' hx hy
    · contradiction
    · split at h
      · split at h
        · rename_i r hr'
          injection h with h; subst h
          exact hr hr' hy hx
        · contradiction
        · contradiction
      · contradiction
  · split at h
    · split at h
      · split at h
        · rename_i r hr'
          injection h with h; subst h
          exact hr hr' hy hx
        · contradiction
        · contradiction
      · contradiction
    · contradiction

theorem liftOp_ok {r : OpR} {t : Expr} (h : rwLiftOp r = .ok t) : r = .ok t := by
  cases r <;> simp only [rwLiftOp] at h
  · cases h
  · injection h with h; subst h; rfl

/-- **`a + b` has the value of the sum.** -/
theorem pyAdd_value {x y t : Expr} {a b : K} (h : pyAdd x y = .ok t)
    (hx : evalK ρ x = some a) (hy : evalK ρ y = some b) : evalK ρ t = some (a + b) := by
  unfold pyAdd at h
  split at h
  · obtain ⟨m, rfl, rfl⟩ := evalK_const ρ hx
    obtain ⟨n, rfl, rfl⟩ := evalK_const ρ hy
    simp only [constArith, Const.toValue?, Value.add_int, Value.toExpr?, pure, Except.pure] at h
    injection h with h; subst h
    simp only [evalK, Int.cast_add]
  · exact dispatch_K ρ (· + ·) (addD_K ρ) (raddD_K ρ) (liftOp_ok h) hx hy

/-- **`a * b` has the value of the product.** -/
theorem pyMul_value {x y t : Expr} {a b : K} (h : pyMul x y = .ok t)
    (hx : evalK ρ x = some a) (hy : evalK ρ y = some b) : evalK ρ t = some (a * b) := by
  unfold pyMul at h
  split at h
  · obtain ⟨m, rfl, rfl⟩ := evalK_const ρ hx
    obtain ⟨n, rfl, rfl⟩ := evalK_const ρ hy
    simp only [constArith, Const.toValue?, Value.mul_int, Value.toExpr?, pure, Except.pure] at h
    injection h with h; subst h
    simp only [evalK, Int.cast_mul]
  · exact dispatch_K ρ (· * ·) (mulD_K ρ) (rmulD_K ρ) (liftOp_ok h) hx hy

theorem int_isValidOperand (n : Int) : (Expr.const (.int n)).isValidOperand = true := rfl

theorem powD_lit_ne_notImpl (self : Expr) (n : Int) :
    powD self (.const (.int n)) ≠ .notImpl := by
  simp only [powD, int_isValidOperand, Bool.not_true, Bool.false_eq_true, if_false]
  split
  · simp
  · split <;> simp

theorem powD_K {self t : Expr} {n : Int} {a : K} (h : powD self (.const (.int n)) = .ret t)
    (hx : evalK ρ self = some a) (hdef : ¬ (n < 0 ∧ a = 0)) : evalK ρ t = some (a ^ n) := by
  simp only [powD, int_isValidOperand, Bool.not_true, Bool.false_eq_true, if_false] at h
  split at h
  · rename_i hz
    injection h with h; subst h
    simp only [Expr.isZero, Expr.truthy, Const.truthy, Bool.not_eq_true', bne_eq_false_iff_eq,
      Bool.not_eq_eq_eq_not, Bool.not_true] at hz
    have : n = 0 := by simpa using hz
    subst this; simp [evalK_one]
  · split at h
    · rename_i h1
      injection h with h; subst h
      simp only [Expr.isOne, Const.isOne, beq_iff_eq] at h1
      subst h1; simp [hx]
    · injection h with h; subst h
      rw [evalK_pow_lit, hx]; simp only [powK, hdef, if_false]

/-- **`a ** n` for an integer literal `n` has the value `a ^ n`** (where that is defined). -/
theorem pyPow_value {x t : Expr} {n : Int} {a : K} (h : pyPow x (.const (.int n)) = .ok t)
    (hx : evalK ρ x = some a) (hdef : ¬ (n < 0 ∧ a = 0)) : evalK ρ t = some (a ^ n) := by
  unfold pyPow at h
  split at h
  · rename_i c d heq1 heq2
    injection heq2 with heq2; subst heq2
    obtain ⟨m, rfl, rfl⟩ := evalK_const ρ hx
    simp only [constArith, Const.toValue?] at h
    cases hp : Value.pow (.int m) (.int n) with
    | error e => rw [hp] at h; cases e <;> simp [throw, throwThe, MonadExceptOf.throw] at h
    | ok w =>
      rw [hp] at h
      rcases Value.pow_int m n w hp with ⟨h0, rfl⟩ | ⟨_, _, rfl⟩
      · simp only [Value.toExpr?, pure, Except.pure] at h
        injection h with h; subst h
        simp only [evalK, Int.cast_pow]
        have : n = (n.toNat : Int) := (Int.toNat_of_nonneg h0).symm
        conv_rhs => rw [this]
        rw [zpow_natCast]
      · simp [Value.toExpr?, throw, throwThe, MonadExceptOf.throw] at h
  · have h := liftOp_ok h
    simp only [Ops.bin] at h
    unfold dispatch at h
    simp only [pure, Except.pure, throw, throwThe, MonadExceptOf.throw] at h
    split at h
    · -- the base is a node: `Expression.__pow__`
      split at h
      · rename_i r hr
        injection h with h; subst h
        exact powD_K ρ hr hx hdef
      · contradiction
      · rename_i hr
        exact absurd hr (powD_lit_ne_notImpl _ _)
    · split at h
      · rename_i hn; simp [Expr.isNode] at hn
      · contradiction

end

end PV
