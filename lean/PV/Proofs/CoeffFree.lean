import PV.Model.Coeff
import PV.Proofs.CoeffSound
/-
  C15 helper lemmas: occurrences of targets.  `tOcc` = a target occurs somewhere in the tree,
  `armT` = a target leaf occurs in arithmetic position (through Sum / Product / Quotient / Power),
  `leavesClean` = no target hides inside a composite leaf that is not itself a target.
-/
namespace PV.Coeff
open PV

/-- is the variable `n` a target? (`target_names is None`: every variable is) -/
def hitVar (tg : Option (List String)) (n : String) : Bool :=
  match tg with
  | none => true
  | some names => names.contains n

mutual
/-- some target occurs in `e`: a variable named in `target_names`; with `target_names = None`
any variable, subscript, call, lookup or other algebraic leaf -/
def tOcc (tg : Option (List String)) : Expr → Bool
  | .const _ => false
  | .var n => hitVar tg n
  | .nary _ cs => tOccL tg cs
  | .bin _ a b => tOcc tg a || tOcc tg b
  | .un _ a => tOcc tg a
  | .cmp _ a b => tOcc tg a || tOcc tg b
  | .ite c t e => tOcc tg c || tOcc tg t || tOcc tg e
  | .call f as => tg.isNone || tOcc tg f || tOccL tg as
  | .callKw f as _ vs => tg.isNone || tOcc tg f || tOccL tg as || tOccL tg vs
  | .subscript a i => tg.isNone || tOcc tg a || tOcc tg i
  | .lookup a _ => tg.isNone || tOcc tg a
  | .cse c _ _ => tOcc tg c
  | .subst c _ xs => tOcc tg c || tOccL tg xs
  | .deriv c _ => tOcc tg c
  | .slice cs => tOccL tg cs
  | .nan => tg.isNone
  | .wildcard => tg.isNone
  | .dotWild _ => tg.isNone
  | .starWild _ => tg.isNone
  | .funcSym => tg.isNone
  | .tuple cs => tOccL tg cs
  | .list cs => tOccL tg cs
def tOccL (tg : Option (List String)) : List Expr → Bool
  | [] => false
  | c :: cs => tOcc tg c || tOccL tg cs
end

variable {tg : Option (List String)}

theorem tOccL_append : ∀ (cs ds : List Expr), tOccL tg (cs ++ ds) = (tOccL tg cs || tOccL tg ds)
  | [], ds => by simp [tOccL]
  | c :: cs, ds => by simp [tOccL, tOccL_append cs ds, Bool.or_assoc]

theorem tOcc_zero : tOcc tg zero = false := rfl
theorem tOcc_one : tOcc tg one = false := rfl

/-! ### the overloaded `+` and `*` introduce no new leaves -/

theorem exprAdd_tOcc {self other t : Expr} (h : exprAdd self other = .ret t)
    (hs : tOcc tg self = false) (ho : tOcc tg other = false) : tOcc tg t = false := by
  unfold exprAdd at h
  repeat' split at h
  all_goals (cases h; try simp_all [tOcc, tOccL])

theorem addD_tOcc {self other t : Expr} (h : addD self other = .ret t)
    (hs : tOcc tg self = false) (ho : tOcc tg other = false) : tOcc tg t = false := by
  unfold addD at h
  split at h
  · repeat' split at h
    all_goals (cases h; try simp_all [tOcc, tOccL, tOccL_append])
  · exact exprAdd_tOcc h hs ho

theorem raddD_tOcc {self other t : Expr} (h : raddD self other = .ret t)
    (hs : tOcc tg self = false) (ho : tOcc tg other = false) : tOcc tg t = false := by
  unfold raddD at h
  repeat' split at h
  all_goals (cases h; try simp_all [tOcc, tOccL, tOccL_append])

theorem mulD_tOcc {self other t : Expr} (h : mulD self other = .ret t)
    (hs : tOcc tg self = false) (ho : tOcc tg other = false) : tOcc tg t = false := by
  unfold mulD at h
  repeat' split at h
  all_goals (cases h; try simp_all [tOcc, tOccL, tOccL_append, zero])

theorem rmulD_tOcc {self other t : Expr} (h : rmulD self other = .ret t)
    (hs : tOcc tg self = false) (ho : tOcc tg other = false) : tOcc tg t = false := by
  unfold rmulD at h
  repeat' split at h
  all_goals (cases h; try simp_all [tOcc, tOccL, tOccL_append, zero])

theorem constBin_tOcc {o : PyBinOp} {x y : Const} {t : Expr} (h : constBin o x y = .ok t) :
    tOcc tg t = false := by
  unfold constBin at h
  repeat' split at h
  all_goals (cases h; try rfl)

theorem pyAdd_tOcc {a b t : Expr} (h : pyBin .add a b = .ok t)
    (ha : tOcc tg a = false) (hb : tOcc tg b = false) : tOcc tg t = false := by
  unfold pyBin at h
  split at h
  · exact constBin_tOcc (liftOp_ok h)
  · have h' := liftOp_ok h
    simp only [Ops.bin] at h'
    rcases dispatch_inv h' with ⟨_, hd⟩ | ⟨_, hd⟩
    · exact addD_tOcc hd ha hb
    · exact raddD_tOcc hd hb ha

theorem pyMul_tOcc {a b t : Expr} (h : pyBin .mul a b = .ok t)
    (ha : tOcc tg a = false) (hb : tOcc tg b = false) : tOcc tg t = false := by
  unfold pyBin at h
  split at h
  · exact constBin_tOcc (liftOp_ok h)
  · have h' := liftOp_ok h
    simp only [Ops.bin] at h'
    rcases dispatch_inv h' with ⟨_, hd⟩ | ⟨_, hd⟩
    · exact mulD_tOcc hd ha hb
    · exact rmulD_tOcc hd hb ha

/-! ### arithmetic position, clean leaves -/

mutual
/-- a target leaf occurs in arithmetic position: reachable through Sum / Product / Quotient /
Power nodes only -/
def armT (tg : Option (List String)) : Expr → Bool
  | .nary .sum cs => armTL tg cs
  | .nary .prod cs => armTL tg cs
  | .bin .quot a b => armT tg a || armT tg b
  | .bin .pow a b => armT tg a || armT tg b
  | e => e.isAlgLeaf && isTarget tg e
def armTL (tg : Option (List String)) : List Expr → Bool
  | [] => false
  | c :: cs => armT tg c || armTL tg cs
end

mutual
/-- every composite leaf in arithmetic position is a target itself or contains no target -/
def leavesClean (tg : Option (List String)) : Expr → Bool
  | .nary .sum cs => leavesCleanL tg cs
  | .nary .prod cs => leavesCleanL tg cs
  | .bin .quot a b => leavesClean tg a && leavesClean tg b
  | .bin .pow a b => leavesClean tg a && leavesClean tg b
  | e => !e.isAlgLeaf || isTarget tg e || !tOcc tg e
def leavesCleanL (tg : Option (List String)) : List Expr → Bool
  | [] => true
  | c :: cs => leavesClean tg c && leavesCleanL tg cs
end

theorem armT_leaf {e : Expr} (h : e.isAlgLeaf = true) : armT tg e = isTarget tg e := by
  cases e <;> simp [Expr.isAlgLeaf] at h <;> simp [armT, Expr.isAlgLeaf]

theorem leavesClean_leaf {e : Expr} (h : e.isAlgLeaf = true) :
    leavesClean tg e = (isTarget tg e || !tOcc tg e) := by
  cases e <;> simp [Expr.isAlgLeaf] at h <;> simp [leavesClean, Expr.isAlgLeaf]

theorem tOcc_num {e : Expr} (h : e.isNumConst = true) : tOcc tg e = false := by
  cases e <;> simp [Expr.isNumConst] at h
  rfl

theorem leaf_pyEq_one {k : Expr} (h : k.isAlgLeaf = true) : k.pyEq one = false := by
  cases k <;> simp [Expr.isAlgLeaf] at h <;> simp [Expr.pyEq, one]

theorem one_pyEq_leaf {k : Expr} (h : k.isAlgLeaf = true) : one.pyEq k = false := by
  cases k <;> simp [Expr.isAlgLeaf] at h <;> simp [Expr.pyEq, one]

theorem armTL_mem : ∀ {cs : List Expr}, armTL tg cs = false → ∀ c ∈ cs, armT tg c = false
  | [], _, c, hc => by simp at hc
  | d :: ds, h, c, hc => by
    simp only [armTL, Bool.or_eq_false_iff] at h
    simp only [List.mem_cons] at hc
    rcases hc with rfl | hc
    · exact h.1
    · exact armTL_mem h.2 c hc

theorem armTL_exists : ∀ {cs : List Expr}, armTL tg cs = true → ∃ c ∈ cs, armT tg c = true
  | [], h => by simp [armTL] at h
  | d :: ds, h => by
    simp only [armTL, Bool.or_eq_true] at h
    rcases h with h | h
    · exact ⟨d, by simp, h⟩
    · obtain ⟨c, hc, hca⟩ := armTL_exists h
      exact ⟨c, by simp [hc], hca⟩

theorem leavesCleanL_mem : ∀ {cs : List Expr}, leavesCleanL tg cs = true →
    ∀ c ∈ cs, leavesClean tg c = true
  | [], _, c, hc => by simp at hc
  | d :: ds, h, c, hc => by
    simp only [leavesCleanL, Bool.and_eq_true] at h
    simp only [List.mem_cons] at hc
    rcases hc with rfl | hc
    · exact h.1
    · exact leavesCleanL_mem h.2 c hc

theorem tOccL_false : ∀ {cs : List Expr}, (∀ c ∈ cs, tOcc tg c = false) → tOccL tg cs = false
  | [], _ => rfl
  | d :: ds, h => by
    simp only [tOccL, Bool.or_eq_false_iff]
    exact ⟨h d (by simp), tOccL_false (fun c hc => h c (by simp [hc]))⟩

/-! ### keys: every key is the constant `1` or an algebraic leaf -/

def KeyShape (d : Dict) : Prop := ∀ kc ∈ d, kc.1 = one ∨ kc.1.isAlgLeaf = true

/-- some key is an algebraic leaf (a variable-like key) -/
def leafKey (d : Dict) : Bool := d.any fun kc => kc.1.isAlgLeaf

theorem leafKey_hasVarKey {d : Dict} (h : leafKey d = true) : hasVarKey d = true := by
  unfold leafKey at h
  unfold hasVarKey
  rw [List.any_eq_true] at h ⊢
  obtain ⟨kc, hkc, hl⟩ := h
  exact ⟨kc, hkc, by simp [leaf_pyEq_one hl]⟩

theorem hasVarKey_leafKey {d : Dict} (hs : KeyShape d) (h : hasVarKey d = true) :
    leafKey d = true := by
  unfold hasVarKey at h
  unfold leafKey
  rw [List.any_eq_true] at h ⊢
  obtain ⟨kc, hkc, hl⟩ := h
  refine ⟨kc, hkc, ?_⟩
  rcases hs kc hkc with h1 | h1
  · rw [h1] at hl; simp [Expr.pyEq, one, Const.pyEq, Const.numVal?] at hl
  · exact h1

theorem addTo_shape : ∀ (d : Dict) (k c : Expr) (d' : Dict), KeyShape d →
    (k = one ∨ k.isAlgLeaf = true) → d.addTo k c = .ok d' →
    KeyShape d' ∧ (leafKey d = true → leafKey d' = true) ∧ (k.isAlgLeaf = true → leafKey d' = true)
  | [], k, c, d', _, hk, h => by
    simp only [Dict.addTo, pure, Except.pure, Except.ok.injEq] at h
    subst h
    refine ⟨?_, by simp [leafKey], by intro hl; simp [leafKey, hl]⟩
    intro kc hkc
    simp only [List.mem_singleton] at hkc
    subst hkc; exact hk
  | (k', c') :: rest, k, c, d', hks, hk, h => by
    have hk' := hks (k', c') (by simp)
    have hrs : KeyShape rest := fun kc hkc => hks kc (by simp [hkc])
    simp only [Dict.addTo] at h
    split at h
    · rename_i heq
      simp only [bind, Except.bind] at h
      cases hs : pyBin .add c' c with
      | error e => rw [hs] at h; cases h
      | ok s =>
        rw [hs] at h
        simp only [pure, Except.pure, Except.ok.injEq] at h
        subst h
        refine ⟨?_, ?_, ?_⟩
        · intro kc hkc
          simp only [List.mem_cons] at hkc
          rcases hkc with rfl | hkc
          · exact hk'
          · exact hrs kc hkc
        · intro hl; simpa [leafKey] using hl
        · intro hl
          rcases hk' with h1 | h1
          · have h1' : k' = one := h1
            rw [h1', one_pyEq_leaf hl] at heq; cases heq
          · have h1' : k'.isAlgLeaf = true := h1
            simp [leafKey, h1']
    · simp only [bind, Except.bind] at h
      cases hr' : Dict.addTo rest k c with
      | error e => rw [hr'] at h; cases h
      | ok r =>
        rw [hr'] at h
        simp only [pure, Except.pure, Except.ok.injEq] at h
        subst h
        obtain ⟨ih1, ih2, ih3⟩ := addTo_shape rest k c r hrs hk hr'
        refine ⟨?_, ?_, ?_⟩
        · intro kc hkc
          simp only [List.mem_cons] at hkc
          rcases hkc with rfl | hkc
          · exact hk'
          · exact ih1 kc hkc
        · intro hl
          simp only [leafKey, List.any_cons, Bool.or_eq_true] at hl ⊢
          rcases hl with hl | hl
          · exact Or.inl hl
          · exact Or.inr (ih2 hl)
        · intro hl
          simp only [leafKey, List.any_cons, Bool.or_eq_true]
          exact Or.inr (ih3 hl)

theorem mergeInto_shape : ∀ (d result d' : Dict), KeyShape result → KeyShape d →
    mergeInto result d = .ok d' →
    KeyShape d' ∧ (leafKey result = true → leafKey d' = true) ∧ (leafKey d = true → leafKey d' = true)
  | [], result, d', hr, _, h => by
    simp only [mergeInto, pure, Except.pure, Except.ok.injEq] at h
    subst h
    exact ⟨hr, id, by simp [leafKey]⟩
  | (k, c) :: rest, result, d', hr, hds, h => by
    simp only [mergeInto, bind, Except.bind] at h
    cases ha : Dict.addTo result k c with
    | error e => rw [ha] at h; cases h
    | ok r =>
      rw [ha] at h
      simp only at h
      obtain ⟨h1, h2, h3⟩ := addTo_shape result k c r hr (hds (k, c) (by simp)) ha
      obtain ⟨h4, h5, h6⟩ := mergeInto_shape rest r d' h1 (fun kc hkc => hds kc (by simp [hkc])) h
      refine ⟨h4, fun hl => h5 (h2 hl), ?_⟩
      intro hl
      simp only [leafKey, List.any_cons, Bool.or_eq_true] at hl
      rcases hl with hl | hl
      · exact h5 (h3 hl)
      · exact h6 hl

theorem sumDicts_shape : ∀ (ds : List Dict) (result d' : Dict), KeyShape result →
    (∀ d ∈ ds, KeyShape d) → sumDicts result ds = .ok d' →
    KeyShape d' ∧ (leafKey result = true → leafKey d' = true) ∧
      (∀ d ∈ ds, leafKey d = true → leafKey d' = true)
  | [], result, d', hr, _, h => by
    simp only [sumDicts, pure, Except.pure, Except.ok.injEq] at h
    subst h
    exact ⟨hr, id, by simp⟩
  | d :: ds, result, d', hr, hds, h => by
    simp only [sumDicts, bind, Except.bind] at h
    cases hm : mergeInto result d with
    | error e => rw [hm] at h; cases h
    | ok r =>
      rw [hm] at h
      simp only at h
      obtain ⟨h1, h2, h3⟩ := mergeInto_shape d result r hr (hds d (by simp)) hm
      obtain ⟨h4, h5, h6⟩ := sumDicts_shape ds r d' h1 (fun d' hd' => hds d' (by simp [hd'])) h
      refine ⟨h4, fun hl => h5 (h2 hl), ?_⟩
      intro d0 hd0 hl
      simp only [List.mem_cons] at hd0
      rcases hd0 with rfl | hd0
      · exact h5 (h3 hl)
      · exact h6 d0 hd0 hl

theorem keyShape_of_keys {d d' : Dict} (h : d'.map Prod.fst = d.map Prod.fst)
    (hd : KeyShape d) : KeyShape d' ∧ (leafKey d = true → leafKey d' = true) := by
  constructor
  · intro kc hkc
    have : kc.1 ∈ d'.map Prod.fst := List.mem_map_of_mem hkc
    rw [h] at this
    obtain ⟨kc', hkc', heq⟩ := List.mem_map.1 this
    rw [← heq]; exact hd kc' hkc'
  · intro hl
    unfold leafKey at hl ⊢
    rw [List.any_eq_true] at hl ⊢
    obtain ⟨kc, hkc, hleaf⟩ := hl
    have : kc.1 ∈ d.map Prod.fst := List.mem_map_of_mem hkc
    rw [← h] at this
    obtain ⟨kc', hkc', heq⟩ := List.mem_map.1 this
    exact ⟨kc', hkc', by rw [heq]; exact hleaf⟩

theorem leafDict_shape {e : Expr} (h : e.isAlgLeaf = true) :
    KeyShape (leafDict tg e) ∧ (isTarget tg e = true → leafKey (leafDict tg e) = true) := by
  unfold leafDict
  split
  · refine ⟨?_, fun _ => by simp [leafKey, h]⟩
    intro kc hkc
    simp only [List.mem_singleton] at hkc
    subst hkc; exact Or.inr h
  · rename_i hn
    refine ⟨?_, fun ht => absurd ht hn⟩
    intro kc hkc
    simp only [List.mem_singleton] at hkc
    subst hkc; exact Or.inl rfl

theorem single_one_shape (c : Expr) : KeyShape [(one, c)] := by
  intro kc hkc
  simp only [List.mem_singleton] at hkc
  subst hkc; exact Or.inl rfl

theorem splitVars_split : ∀ (ds : List Dict) (v : Option Dict) (os : List Dict),
    splitVars ds = .ok (v, os) →
    (∀ d ∈ os, hasVarKey d = false) ∧ (∀ d ∈ ds, d ∈ os ∨ v = some d) ∧
      (∀ d, v = some d → hasVarKey d = true)
  | [], v, os, h => by
    simp only [splitVars, pure, Except.pure, Except.ok.injEq, Prod.mk.injEq] at h
    obtain ⟨rfl, rfl⟩ := h
    simp
  | d :: ds, v, os, h => by
    simp only [splitVars, bind, Except.bind] at h
    cases hsp : splitVars ds with
    | error e => rw [hsp] at h; cases h
    | ok pr =>
      obtain ⟨v', os'⟩ := pr
      rw [hsp] at h
      simp only at h
      obtain ⟨h1, h2, h3⟩ := splitVars_split ds v' os' hsp
      split at h
      · rename_i hv
        split at h
        · cases h
        · simp only [pure, Except.pure, Except.ok.injEq, Prod.mk.injEq] at h
          obtain ⟨rfl, rfl⟩ := h
          refine ⟨h1, ?_, ?_⟩
          · intro d' hd'
            simp only [List.mem_cons] at hd'
            rcases hd' with rfl | hd'
            · exact Or.inr rfl
            · rcases h2 d' hd' with h | h
              · exact Or.inl h
              · cases h
          · intro d' hd'; simp only [Option.some.injEq] at hd'; subst hd'; exact hv
      · rename_i hv
        simp only [pure, Except.pure, Except.ok.injEq, Prod.mk.injEq] at h
        obtain ⟨rfl, rfl⟩ := h
        refine ⟨?_, ?_, h3⟩
        · intro d' hd'
          simp only [List.mem_cons] at hd'
          rcases hd' with rfl | hd'
          · simpa using hv
          · exact h1 d' hd'
        · intro d' hd'
          simp only [List.mem_cons] at hd'
          rcases hd' with rfl | hd'
          · exact Or.inl (by simp)
          · rcases h2 d' hd' with h | h
            · exact Or.inl (by simp [h])
            · exact Or.inr h

theorem constOnly_noVar {d : Dict} {val : Expr} (h : constOnly d = some val) :
    hasVarKey d = false ∧ (val ∈ d.map Prod.snd) := by
  unfold constOnly at h
  split at h
  · cases h
  · rename_i hl
    match d, hl with
    | [], _ => simp [Dict.find] at h
    | [(k, c)], _ =>
      simp only [Dict.find] at h
      split at h
      · rename_i heq
        simp only [Option.some.injEq] at h
        subst h
        simp [hasVarKey, heq]
      · cases h
    | _ :: _ :: _, hl => simp at hl

/-- keys are `1` or algebraic leaves; a target leaf in arithmetic position shows up as a key -/
theorem coeffs_keys (tg : Option (List String)) (e : Expr) :
    ∀ d, coeffs tg e = .ok d → KeyShape d ∧ (armT tg e = true → leafKey d = true) := by
  induction e using Expr.induct with
  | h e ih =>
    intro d h
    have hL : ∀ (cs : List Expr), (∀ c ∈ cs, c ∈ e.children) → ∀ ds, coeffsL tg cs = .ok ds →
        (∀ d ∈ ds, KeyShape d) ∧ (armTL tg cs = true → ∃ d ∈ ds, leafKey d = true) := by
      intro cs
      induction cs with
      | nil =>
        intro _ ds hds
        simp only [coeffsL, pure, Except.pure, Except.ok.injEq] at hds
        subst hds
        exact ⟨by simp, by simp [armTL]⟩
      | cons c cs ihcs =>
        intro hsub ds hds
        obtain ⟨d0, ds', hd0, hds', rfl⟩ := coeffsL_cons hds
        obtain ⟨h1, h2⟩ := ih c (hsub c (by simp)) d0 hd0
        obtain ⟨h3, h4⟩ := ihcs (fun c' hc' => hsub c' (by simp [hc'])) ds' hds'
        refine ⟨?_, ?_⟩
        · intro d' hd'
          simp only [List.mem_cons] at hd'
          rcases hd' with rfl | hd'
          · exact h1
          · exact h3 d' hd'
        · intro ha
          simp only [armTL, Bool.or_eq_true] at ha
          rcases ha with ha | ha
          · exact ⟨d0, by simp, h2 ha⟩
          · obtain ⟨d', hd', hl⟩ := h4 ha
            exact ⟨d', by simp [hd'], hl⟩
    cases coeffs_view tg e d h with
    | leaf _ hleaf =>
      obtain ⟨h1, h2⟩ := leafDict_shape (tg := tg) hleaf
      exact ⟨h1, fun ha => h2 (by rwa [armT_leaf hleaf] at ha)⟩
    | num _ hnum =>
      refine ⟨single_one_shape _, ?_⟩
      intro ha
      cases e <;> simp [Expr.isNumConst] at hnum <;> simp [armT, Expr.isAlgLeaf] at ha
    | sum cs ds _ hds hsum =>
      obtain ⟨h1, h2⟩ := hL cs (fun c hc => by simpa [Expr.children] using hc) ds hds
      obtain ⟨h3, _, h5⟩ := sumDicts_shape ds [] d (by intro kc hkc; simp at hkc) h1 hsum
      refine ⟨h3, ?_⟩
      intro ha
      simp only [armT] at ha
      obtain ⟨d', hd', hl⟩ := h2 ha
      exact h5 d' hd' hl
    | prodConst cs ds os other hds hsp ho =>
      obtain ⟨h1, h2⟩ := hL cs (fun c hc => by simpa [Expr.children] using hc) ds hds
      refine ⟨single_one_shape _, ?_⟩
      intro ha
      simp only [armT] at ha
      obtain ⟨d', hd', hl⟩ := h2 ha
      obtain ⟨s1, s2, _⟩ := splitVars_split ds none os hsp
      rcases s2 d' hd' with hmem | hv
      · have := s1 d' hmem
        rw [leafKey_hasVarKey hl] at this; cases this
      · cases hv
    | prodVar cs ds os dv _ other hds hsp ho hsc =>
      obtain ⟨h1, h2⟩ := hL cs (fun c hc => by simpa [Expr.children] using hc) ds hds
      obtain ⟨s1, s2, s3⟩ := splitVars_split ds (some dv) os hsp
      have hdv : dv ∈ ds := (splitVars_mem ds _ os hsp).2 dv rfl
      obtain ⟨k1, k2⟩ := keyShape_of_keys (scaleLeft_keys dv d other hsc) (h1 dv hdv)
      refine ⟨k1, ?_⟩
      intro _
      exact k2 (hasVarKey_leafKey (h1 dv hdv) (s3 dv rfl))
    | quot a b dn dd _ val hdn hdd hc hsc =>
      obtain ⟨h1, h2⟩ := ih a (by simp [Expr.children]) dn hdn
      obtain ⟨h3, h4⟩ := ih b (by simp [Expr.children]) dd hdd
      obtain ⟨k1, k2⟩ := keyShape_of_keys (scaleRight_keys dn d _ hsc) h1
      refine ⟨k1, ?_⟩
      intro ha
      simp only [armT, Bool.or_eq_true] at ha
      rcases ha with ha | ha
      · exact k2 (h2 ha)
      · have := (constOnly_noVar hc).1
        rw [leafKey_hasVarKey (h4 ha)] at this; cases this
    | pow a b db de vb ve hdb hde hce hcb =>
      obtain ⟨_, h2⟩ := ih a (by simp [Expr.children]) db hdb
      obtain ⟨_, h4⟩ := ih b (by simp [Expr.children]) de hde
      refine ⟨single_one_shape _, ?_⟩
      intro ha
      simp only [armT, Bool.or_eq_true] at ha
      rcases ha with ha | ha
      · have := (constOnly_noVar hcb).1
        rw [leafKey_hasVarKey (h2 ha)] at this; cases this
      · have := (constOnly_noVar hce).1
        rw [leafKey_hasVarKey (h4 ha)] at this; cases this

/-! ### with clean leaves, no arithmetic-position target means no target at all -/

theorem clean_noarm_free (tg : Option (List String)) (e : Expr) :
    ∀ d, coeffs tg e = .ok d → leavesClean tg e = true → armT tg e = false → tOcc tg e = false := by
  induction e using Expr.induct with
  | h e ih =>
    intro d h hcl harm
    have hL : ∀ (cs : List Expr), (∀ c ∈ cs, c ∈ e.children) → ∀ ds, coeffsL tg cs = .ok ds →
        leavesCleanL tg cs = true → armTL tg cs = false → tOccL tg cs = false := by
      intro cs
      induction cs with
      | nil => intro _ _ _ _ _; rfl
      | cons c cs ihcs =>
        intro hsub ds hds hc ha
        obtain ⟨d0, ds', hd0, hds', rfl⟩ := coeffsL_cons hds
        simp only [leavesCleanL, Bool.and_eq_true] at hc
        simp only [armTL, Bool.or_eq_false_iff] at ha
        simp only [tOccL, Bool.or_eq_false_iff]
        exact ⟨ih c (hsub c (by simp)) d0 hd0 hc.1 ha.1,
          ihcs (fun c' hc' => hsub c' (by simp [hc'])) ds' hds' hc.2 ha.2⟩
    cases coeffs_view tg e d h with
    | leaf _ hleaf =>
      rw [armT_leaf hleaf] at harm
      rw [leavesClean_leaf hleaf, harm] at hcl
      simpa using hcl
    | num _ hnum => exact tOcc_num hnum
    | sum cs ds _ hds hsum =>
      simp only [armT] at harm
      simp only [leavesClean] at hcl
      simp only [tOcc]
      exact hL cs (fun c hc => by simpa [Expr.children] using hc) ds hds hcl harm
    | prodConst cs ds os other hds hsp ho =>
      simp only [armT] at harm
      simp only [leavesClean] at hcl
      simp only [tOcc]
      exact hL cs (fun c hc => by simpa [Expr.children] using hc) ds hds hcl harm
    | prodVar cs ds os dv _ other hds hsp ho hsc =>
      simp only [armT] at harm
      simp only [leavesClean] at hcl
      simp only [tOcc]
      exact hL cs (fun c hc => by simpa [Expr.children] using hc) ds hds hcl harm
    | quot a b dn dd _ val hdn hdd hc hsc =>
      simp only [armT, Bool.or_eq_false_iff] at harm
      simp only [leavesClean, Bool.and_eq_true] at hcl
      simp only [tOcc, Bool.or_eq_false_iff]
      exact ⟨ih a (by simp [Expr.children]) dn hdn hcl.1 harm.1,
        ih b (by simp [Expr.children]) dd hdd hcl.2 harm.2⟩
    | pow a b db de vb ve hdb hde hce hcb =>
      simp only [armT, Bool.or_eq_false_iff] at harm
      simp only [leavesClean, Bool.and_eq_true] at hcl
      simp only [tOcc, Bool.or_eq_false_iff]
      exact ⟨ih a (by simp [Expr.children]) db hdb hcl.1 harm.1,
        ih b (by simp [Expr.children]) de hde hcl.2 harm.2⟩

/-! ### coefficients are free of targets -/

def CoefFree (tg : Option (List String)) (d : Dict) : Prop := ∀ kc ∈ d, tOcc tg kc.2 = false

theorem addTo_free : ∀ (d : Dict) (k c : Expr) (d' : Dict), CoefFree tg d → tOcc tg c = false →
    d.addTo k c = .ok d' → CoefFree tg d'
  | [], k, c, d', _, hc, h => by
    simp only [Dict.addTo, pure, Except.pure, Except.ok.injEq] at h
    subst h
    intro kc hkc
    simp only [List.mem_singleton] at hkc
    subst hkc; exact hc
  | (k', c') :: rest, k, c, d', hf, hc, h => by
    have hc' := hf (k', c') (by simp)
    have hrs : CoefFree tg rest := fun kc hkc => hf kc (by simp [hkc])
    simp only [Dict.addTo] at h
    split at h
    · simp only [bind, Except.bind] at h
      cases hs : pyBin .add c' c with
      | error e => rw [hs] at h; cases h
      | ok s =>
        rw [hs] at h
        simp only [pure, Except.pure, Except.ok.injEq] at h
        subst h
        intro kc hkc
        simp only [List.mem_cons] at hkc
        rcases hkc with rfl | hkc
        · exact pyAdd_tOcc hs hc' hc
        · exact hrs kc hkc
    · simp only [bind, Except.bind] at h
      cases hr' : Dict.addTo rest k c with
      | error e => rw [hr'] at h; cases h
      | ok r =>
        rw [hr'] at h
        simp only [pure, Except.pure, Except.ok.injEq] at h
        subst h
        have ih := addTo_free rest k c r hrs hc hr'
        intro kc hkc
        simp only [List.mem_cons] at hkc
        rcases hkc with rfl | hkc
        · exact hc'
        · exact ih kc hkc

theorem mergeInto_free : ∀ (d result d' : Dict), CoefFree tg result → CoefFree tg d →
    mergeInto result d = .ok d' → CoefFree tg d'
  | [], result, d', hr, _, h => by
    simp only [mergeInto, pure, Except.pure, Except.ok.injEq] at h
    subst h; exact hr
  | (k, c) :: rest, result, d', hr, hds, h => by
    simp only [mergeInto, bind, Except.bind] at h
    cases ha : Dict.addTo result k c with
    | error e => rw [ha] at h; cases h
    | ok r =>
      rw [ha] at h
      simp only at h
      exact mergeInto_free rest r d' (addTo_free result k c r hr (hds (k, c) (by simp)) ha)
        (fun kc hkc => hds kc (by simp [hkc])) h

theorem sumDicts_free : ∀ (ds : List Dict) (result d' : Dict), CoefFree tg result →
    (∀ d ∈ ds, CoefFree tg d) → sumDicts result ds = .ok d' → CoefFree tg d'
  | [], result, d', hr, _, h => by
    simp only [sumDicts, pure, Except.pure, Except.ok.injEq] at h
    subst h; exact hr
  | d :: ds, result, d', hr, hds, h => by
    simp only [sumDicts, bind, Except.bind] at h
    cases hm : mergeInto result d with
    | error e => rw [hm] at h; cases h
    | ok r =>
      rw [hm] at h
      simp only at h
      exact sumDicts_free ds r d' (mergeInto_free d result r hr (hds d (by simp)) hm)
        (fun d' hd' => hds d' (by simp [hd'])) h

theorem find_mem {d : Dict} {k c : Expr} (h : d.find k = some c) : ∃ k', (k', c) ∈ d := by
  induction d with
  | nil => simp [Dict.find] at h
  | cons kc rest ih =>
    obtain ⟨k', c'⟩ := kc
    simp only [Dict.find] at h
    split at h
    · simp only [Option.some.injEq] at h
      subst h; exact ⟨k', by simp⟩
    · obtain ⟨k'', hk''⟩ := ih h
      exact ⟨k'', by simp [hk'']⟩

theorem otherCoeffs_free : ∀ (os : List Dict) (acc other : Expr), (∀ d ∈ os, CoefFree tg d) →
    tOcc tg acc = false → otherCoeffs acc os = .ok other → tOcc tg other = false
  | [], acc, other, _, ha, h => by
    simp only [otherCoeffs, pure, Except.pure, Except.ok.injEq] at h
    subst h; exact ha
  | d :: os, acc, other, hf, ha, h => by
    simp only [otherCoeffs] at h
    split at h
    · cases h
    · split at h
      · cases h
      · rename_i c hfind
        obtain ⟨k', hk'⟩ := find_mem hfind
        have hc : tOcc tg c = false := hf d (by simp) (k', c) hk'
        simp only [bind, Except.bind] at h
        cases hm : pyBin .mul acc c with
        | error e => rw [hm] at h; cases h
        | ok acc' =>
          rw [hm] at h
          simp only at h
          exact otherCoeffs_free os acc' other (fun d' hd' => hf d' (by simp [hd']))
            (pyMul_tOcc hm ha hc) h

theorem scaleLeft_free : ∀ (d d' : Dict) (other : Expr), scaleLeft other d = .ok d' →
    tOcc tg other = false → CoefFree tg d → CoefFree tg d'
  | [], d', other, h, _, _ => by
    simp only [scaleLeft, pure, Except.pure, Except.ok.injEq] at h
    subst h
    intro kc hkc; simp at hkc
  | (k, c) :: rest, d', other, h, ho, hd => by
    simp only [scaleLeft, bind, Except.bind] at h
    cases hm : pyBin .mul other c with
    | error e => rw [hm] at h; cases h
    | ok c' =>
      rw [hm] at h
      simp only at h
      cases hrest : scaleLeft other rest with
      | error e => rw [hrest] at h; cases h
      | ok r =>
        rw [hrest] at h
        simp only [pure, Except.pure, Except.ok.injEq] at h
        subst h
        have ih := scaleLeft_free rest r other hrest ho (fun kc hkc => hd kc (by simp [hkc]))
        intro kc hkc
        simp only [List.mem_cons] at hkc
        rcases hkc with rfl | hkc
        · exact pyMul_tOcc hm ho (hd (k, c) (by simp))
        · exact ih kc hkc

theorem scaleRight_free : ∀ (d d' : Dict) (qe : Expr), scaleRight qe d = .ok d' →
    tOcc tg qe = false → CoefFree tg d → CoefFree tg d'
  | [], d', qe, h, _, _ => by
    simp only [scaleRight, pure, Except.pure, Except.ok.injEq] at h
    subst h
    intro kc hkc; simp at hkc
  | (k, c) :: rest, d', qe, h, ho, hd => by
    simp only [scaleRight, bind, Except.bind] at h
    cases hm : pyBin .mul c qe with
    | error e => rw [hm] at h; cases h
    | ok c' =>
      rw [hm] at h
      simp only at h
      cases hrest : scaleRight qe rest with
      | error e => rw [hrest] at h; cases h
      | ok r =>
        rw [hrest] at h
        simp only [pure, Except.pure, Except.ok.injEq] at h
        subst h
        have ih := scaleRight_free rest r qe hrest ho (fun kc hkc => hd kc (by simp [hkc]))
        intro kc hkc
        simp only [List.mem_cons] at hkc
        rcases hkc with rfl | hkc
        · exact pyMul_tOcc hm (hd (k, c) (by simp)) ho
        · exact ih kc hkc

theorem coeffs_free (tg : Option (List String)) (e : Expr) :
    ∀ d, coeffs tg e = .ok d → leavesClean tg e = true → CoefFree tg d := by
  induction e using Expr.induct with
  | h e ih =>
    intro d h hcl
    have hL : ∀ (cs : List Expr), (∀ c ∈ cs, c ∈ e.children) → ∀ ds, coeffsL tg cs = .ok ds →
        leavesCleanL tg cs = true → ∀ d ∈ ds, CoefFree tg d := by
      intro cs
      induction cs with
      | nil =>
        intro _ ds hds _
        simp only [coeffsL, pure, Except.pure, Except.ok.injEq] at hds
        subst hds; simp
      | cons c cs ihcs =>
        intro hsub ds hds hc
        obtain ⟨d0, ds', hd0, hds', rfl⟩ := coeffsL_cons hds
        simp only [leavesCleanL, Bool.and_eq_true] at hc
        intro d' hd'
        simp only [List.mem_cons] at hd'
        rcases hd' with rfl | hd'
        · exact ih c (hsub c (by simp)) _ hd0 hc.1
        · exact ihcs (fun c' hc' => hsub c' (by simp [hc'])) ds' hds' hc.2 d' hd'
    cases coeffs_view tg e d h with
    | leaf _ hleaf =>
      rw [leavesClean_leaf hleaf] at hcl
      unfold leafDict
      split
      · intro kc hkc
        simp only [List.mem_singleton] at hkc
        subst hkc; exact tOcc_one
      · rename_i hn
        intro kc hkc
        simp only [List.mem_singleton] at hkc
        subst hkc
        simp only [Bool.or_eq_true, Bool.not_eq_true'] at hcl
        rcases hcl with hcl | hcl
        · exact absurd hcl hn
        · exact hcl
    | num _ hnum =>
      intro kc hkc
      simp only [List.mem_singleton] at hkc
      subst hkc; exact tOcc_num hnum
    | sum cs ds _ hds hsum =>
      simp only [leavesClean] at hcl
      exact sumDicts_free ds [] d (by intro kc hkc; simp at hkc)
        (hL cs (fun c hc => by simpa [Expr.children] using hc) ds hds hcl) hsum
    | prodConst cs ds os other hds hsp ho =>
      simp only [leavesClean] at hcl
      have hall := hL cs (fun c hc => by simpa [Expr.children] using hc) ds hds hcl
      have hmem := (splitVars_mem ds _ os hsp).1
      intro kc hkc
      simp only [List.mem_singleton] at hkc
      subst hkc
      exact otherCoeffs_free os one other (fun d' hd' => hall d' (hmem d' hd')) tOcc_one ho
    | prodVar cs ds os dv _ other hds hsp ho hsc =>
      simp only [leavesClean] at hcl
      have hall := hL cs (fun c hc => by simpa [Expr.children] using hc) ds hds hcl
      obtain ⟨hmem1, hmem2⟩ := splitVars_mem ds _ os hsp
      exact scaleLeft_free dv d other hsc
        (otherCoeffs_free os one other (fun d' hd' => hall d' (hmem1 d' hd')) tOcc_one ho)
        (hall dv (hmem2 dv rfl))
    | quot a b dn dd _ val hdn hdd hc hsc =>
      simp only [leavesClean, Bool.and_eq_true] at hcl
      have h1 := ih a (by simp [Expr.children]) dn hdn hcl.1
      have h2 := ih b (by simp [Expr.children]) dd hdd hcl.2
      have hval : tOcc tg val = false := by
        obtain ⟨kc, hkc, heq⟩ := List.mem_map.1 (constOnly_noVar hc).2
        rw [← heq]; exact h2 kc hkc
      exact scaleRight_free dn d _ hsc (by simp [tOcc, tOcc_one, hval]) h1
    | pow a b db de vb ve hdb hde hce hcb =>
      simp only [leavesClean, Bool.and_eq_true] at hcl
      intro kc hkc
      simp only [List.mem_singleton] at hkc
      subst hkc
      have ha : armT tg a = false := by
        by_contra hne
        have hl := (coeffs_keys tg a db hdb).2 (by simpa using hne)
        have := (constOnly_noVar hcb).1
        rw [leafKey_hasVarKey hl] at this; cases this
      have hb : armT tg b = false := by
        by_contra hne
        have hl := (coeffs_keys tg b de hde).2 (by simpa using hne)
        have := (constOnly_noVar hce).1
        rw [leafKey_hasVarKey hl] at this; cases this
      simp only [tOcc, Bool.or_eq_false_iff]
      exact ⟨clean_noarm_free tg a db hdb hcl.1 ha, clean_noarm_free tg b de hde hcl.2 hb⟩

/-- the number of children with a target in arithmetic position is at most the number of child
dictionaries with a variable key -/
theorem armT_count (tg : Option (List String)) : ∀ (cs : List Expr) (ds : List Dict),
    coeffsL tg cs = .ok ds →
    (cs.filter (armT tg)).length ≤ (ds.filter hasVarKey).length
  | [], ds, h => by simp
  | c :: cs, ds, h => by
    obtain ⟨d0, ds', hd0, hds', rfl⟩ := coeffsL_cons h
    have ih := armT_count tg cs ds' hds'
    by_cases ha : armT tg c = true
    · have hv := leafKey_hasVarKey ((coeffs_keys tg c d0 hd0).2 ha)
      simp [List.filter_cons, ha, hv, ih]
    · by_cases hv : hasVarKey d0 = true
      · simp only [List.filter_cons, ha, hv, if_true, Bool.false_eq_true, if_false,
          List.length_cons]
        omega
      · simp only [List.filter_cons, ha, hv, Bool.false_eq_true, if_false]
        exact ih

theorem splitVars_count : ∀ (ds : List Dict) (v : Option Dict) (os : List Dict),
    splitVars ds = .ok (v, os) → (ds.filter hasVarKey).length ≤ 1 ∧
      (v = none → (ds.filter hasVarKey).length = 0)
  | [], v, os, h => by simp
  | d :: ds, v, os, h => by
    simp only [splitVars, bind, Except.bind] at h
    cases hsp : splitVars ds with
    | error e => rw [hsp] at h; cases h
    | ok pr =>
      obtain ⟨v', os'⟩ := pr
      rw [hsp] at h
      simp only at h
      obtain ⟨h1, h2⟩ := splitVars_count ds v' os' hsp
      split at h
      · rename_i hv
        split at h
        · cases h
        · simp only [pure, Except.pure, Except.ok.injEq, Prod.mk.injEq] at h
          obtain ⟨rfl, rfl⟩ := h
          have := h2 rfl
          simp [List.filter_cons, hv, this]
      · rename_i hv
        simp only [pure, Except.pure, Except.ok.injEq, Prod.mk.injEq] at h
        obtain ⟨rfl, rfl⟩ := h
        simp only [List.filter_cons, hv, Bool.false_eq_true, if_false]
        exact ⟨h1, h2⟩

end PV.Coeff
